import FpgoVerif.Proofs.C12Sys
import FpgoVerif.Model.C12
import FpgoVerif.Gen.Skeletons
import FpgoVerif.Gen.MailboxFacts
/-! Property theorems for C12 — "Handler and Actor mailboxes run work serially, exactly once, in per-sender
    order".  All statements are about `C12.step` / `C12.sysStep`, the functions the driver executes, and hold
    for every capacity `cap`, every family of sender scripts (any number of senders, any message counts) and
    every schedule (`Reach` = all finite sequences of enabled atoms, a `Close` at any point included). -/
namespace FpgoVerif.C12

/-! ## one mailbox -/

/-- Conservation: at every moment, what sender `i` had accepted (run, running or buffered, in that order),
    then what was dropped because of `Close`, then the message it is just submitting, then what it has not
    submitted yet, is exactly its script — nothing lost, duplicated, invented or reordered. -/
theorem C12_conservation {cap script s} (ho : OwnedScript script) (h : Reach cap script s) (i : Nat) :
    proj i (s.done ++ s.running ++ s.ch) ++ proj i s.dropped ++ optl (s.cur i) ++ s.pending i = script i :=
  (reach_inv ho h).cons i

/-- Per-sender FIFO: the calls started for sender `i` (finished ones in completion order, then the running
    one) are a prefix of its script. -/
theorem C12_per_sender_order {cap script s} (ho : OwnedScript script) (h : Reach cap script s) (i : Nat) :
    proj i (s.done ++ s.running) <+: script i :=
  (reach_inv ho h).started_prefix i

/-- Exactly once: no message is ever run twice, nor run and dropped, nor buffered twice. -/
theorem C12_exactly_once {cap script s} (ho : OwnedScript script) (hn : ∀ i, (script i).Nodup)
    (h : Reach cap script s) : (s.done ++ s.running ++ s.ch ++ s.dropped).Nodup :=
  (reach_inv ho h).nodup hn

/-- Nothing runs that was not submitted. -/
theorem C12_no_phantom {cap script s} (ho : OwnedScript script) (h : Reach cap script s) {j : Job}
    (hj : j ∈ s.done ++ s.running ++ s.ch ++ s.dropped) : j ∈ script j.sender :=
  (reach_inv ho h).no_phantom hj

/-- Serial: never two calls in progress on one mailbox. -/
theorem C12_serial {cap script s} (ho : OwnedScript script) (h : Reach cap script s) : s.running.length ≤ 1 :=
  (reach_inv ho h).serial

/-- Without a `Close` nothing is dropped, and once every sender is through and the mailbox is drained every
    script has been run completely, in order. -/
theorem C12_all_delivered {cap script s} (ho : OwnedScript script) (h : Reach cap script s)
    (hf : s.flag = false) : s.dropped = [] ∧
      ((∀ i, s.pending i = [] ∧ s.cur i = none) → s.ch = [] → s.running = [] → ∀ i, proj i s.done = script i) := by
  have hi := reach_inv ho h
  refine ⟨(hi.noClose hf).1, fun hq hch hr i => ?_⟩
  have := hi.cons i
  rw [(hi.noClose hf).1, hch, hr, (hq i).1, (hq i).2] at this
  simpa [optl] using this

/-- Work submitted once `Close` has set the flag — in particular after `Close` has returned — is dropped:
    the closed-check atom moves the message to `dropped` and touches neither channel nor consumer. -/
theorem C12_after_close_dropped {cap s t} (i : Nat) (hf : s.flag = true)
    (hs : step cap s (.check i) = some t) :
    t.ch = s.ch ∧ t.running = s.running ∧ t.done = s.done ∧ t.cur = s.cur ∧
      ∃ j, s.pending i = j :: t.pending i ∧ t.dropped = s.dropped ++ [j] := by
  simp only [step] at hs
  split at hs
  · next hc hp =>
    simp only [hf, if_true] at hs
    cases hs
    exact ⟨rfl, rfl, rfl, rfl, _, by simpa using hp, rfl⟩
  · cases hs

/-- `Close` has returned (channel closed) implies the flag is set, so `C12_after_close_dropped` applies. -/
theorem C12_close_returned_flag {cap script s} (ho : OwnedScript script) (h : Reach cap script s)
    (hc : s.chClosed = true) : s.flag = true :=
  (reach_inv ho h).closedFlag hc

/-- A dropped message never runs (and is never buffered). -/
theorem C12_dropped_never_runs {cap script s} (ho : OwnedScript script) (hn : ∀ i, (script i).Nodup)
    (h : Reach cap script s) {j : Job} (hj : j ∈ s.dropped) : j ∉ s.done ++ s.running ++ s.ch := by
  have := (reach_inv ho h).nodup hn
  exact fun hm => (List.nodup_append.mp this).2.2 j hm j hj rfl

/-- No deadlock: as long as any message is unsubmitted, in flight, buffered or running, some atom of a
    sender or of the consumer (not of `Close`) is enabled. -/
theorem C12_progress {cap script s} (ho : OwnedScript script) (h : Reach cap script s)
    (hw : (∃ i, s.pending i ≠ [] ∨ s.cur i ≠ none) ∨ s.ch ≠ [] ∨ s.running ≠ []) :
    ∃ a, a ≠ Act.closeFlag ∧ a ≠ Act.closeCh ∧ (step cap s a).isSome = true :=
  (reach_inv ho h).progress hw

/-- The consumer only leaves its loop after `Close`, with the buffer drained and no call in progress: every
    accepted message was run. -/
theorem C12_drained_at_exit {cap script s} (ho : OwnedScript script) (h : Reach cap script s)
    (he : s.exited = true) : s.chClosed = true ∧ s.ch = [] ∧ s.running = [] :=
  (reach_inv ho h).exitedQ he

/-! ## actors: self argument, spawn tree, independence -/

/-- An actor's effect always receives the actor itself. -/
theorem C12_self {script s} (h : SReach script s) : ∀ e ∈ s.effLog, e.2.1 = e.1 := sreach_self h

/-- GetParent and GetChild agree: once its `Spawn` call has returned (or for an actor made by `New`),
    `c.parent = p` iff `c` is in `p.children`. -/
theorem C12_tree_agree {script s} (h : SReach script s) (c p : Nat) (hc : s.stage c = 3) :
    s.parent c = some p ↔ c ∈ s.children p := by
  have hi := sreach_treeInv h
  constructor
  · intro hp
    cases ho : s.origin c with
    | none => rw [(hi.rootP c ho).1] at hp; cases hp
    | some pc =>
      obtain ⟨p', cs⟩ := pc
      rcases (hi.st c p' cs ho).2.2.2 hc with h1 | h1
      · rw [h1.1] at hp; cases hp; exact h1.2.1
      · rw [h1.1] at hp; cases hp
  · intro hk
    obtain ⟨⟨cs, ho⟩, _⟩ := hi.kids p c hk
    rcases (hi.st c p cs ho).2.2.2 hc with h1 | h1
    · exact h1.1
    · exact absurd hk h1.2.1

/-- Spawn on a parent that was already closed when the call began never registers the child. -/
theorem C12_spawn_closed_parent {script s} (h : SReach script s) {c p : Nat}
    (ho : s.origin c = some (p, true)) : s.parent c = none ∧ ∀ q, c ∉ s.children q := by
  have hi := sreach_treeInv h
  have hs := hi.st c p true ho
  have hnk : ∀ q, q ≠ p → c ∉ s.children q := fun q hq hk => by
    obtain ⟨⟨cs, ho'⟩, _⟩ := hi.kids q c hk
    rw [ho] at ho'; cases ho'; exact hq rfl
  have hle := hi.stageLe c
  have key : s.parent c = none ∧ c ∉ s.children p := by
    rcases Nat.lt_or_ge (s.stage c) 1 with h0 | h1
    · have : s.stage c = 0 := by omega
      exact ⟨(hs.1 this).1, (hs.1 this).2.1⟩
    · rcases Nat.lt_or_ge (s.stage c) 2 with h1' | h2
      · have : s.stage c = 1 := by omega
        exact absurd (hs.2.1 this).2.2 (by simp)
      · rcases Nat.lt_or_ge (s.stage c) 3 with h2' | h3
        · have : s.stage c = 2 := by omega
          exact absurd (hs.2.2.1 this).2.2 (by simp)
        · have : s.stage c = 3 := by omega
          rcases hs.2.2.2 this with h' | h'
          · exact absurd h'.2.2 (by simp)
          · exact ⟨h'.1, h'.2.1⟩
  refine ⟨key.1, fun q => ?_⟩
  by_cases e : q = p
  · subst e; exact key.2
  · exact hnk q e

/-- Spawn on a parent that is still open when the call returns registered the child under it. -/
theorem C12_spawn_open_parent {script s} (h : SReach script s) {c p : Nat} {cs : Bool}
    (ho : s.origin c = some (p, cs)) (hc : s.stage c = 3) (hf : (s.mb p).flag = false) :
    s.parent c = some p ∧ c ∈ s.children p := by
  have hi := sreach_treeInv h
  rcases (hi.st c p cs ho).2.2.2 hc with h1 | h1
  · exact ⟨h1.1, h1.2.1⟩
  · rw [hf] at h1; exact absurd h1.2.2 (by simp)

/-- Actors are independent mailboxes: every actor of any system (spawned or not, whatever happens to its
    parent) satisfies all the single-mailbox theorems for its own scripts … -/
theorem C12_actor_mailboxes {script s} (ho : ∀ a, OwnedScript (script a)) (h : SReach script s) (a i : Nat) :
    proj i ((s.mb a).done ++ (s.mb a).running) <+: script a i ∧ (s.mb a).running.length ≤ 1 ∧
    proj i ((s.mb a).done ++ (s.mb a).running ++ (s.mb a).ch) ++ proj i (s.mb a).dropped ++
      optl ((s.mb a).cur i) ++ (s.mb a).pending i = script a i :=
  have hi := sreach_mbInv ho h a
  ⟨hi.started_prefix i, hi.serial, hi.cons i⟩

/-- … and a step of the system changes at most one mailbox, by one atom of that mailbox (closing a parent or
    spawning does not touch any other actor's mailbox). -/
theorem C12_actor_frame {s t} (x : SAct) (h : sysStep s x = some t) (a : Nat) :
    t.mb a = s.mb a ∨ ∃ y, step (s.cap a) (s.mb a) y = some (t.mb a) := sysStep_mb x h a

/-! ## non-vacuity: the hypotheses are satisfiable by non-trivial reachable states -/

/- `demoScript` (two senders with two messages each) and the facts `demo_owned : OwnedScript demoScript`,
   `demo_nodup : ∀ i, (demoScript i).Nodup` are in `Proofs/C12MB.lean`. -/

/-- two senders, capacity 1, a Close racing a parked Post: one message done, one running, one buffered … and
    the parked one dropped by the recovered send-on-closed panic -/
example : ∃ s, Reach 1 demoScript s ∧ s.done = [⟨0, 0⟩] ∧ s.running = [⟨1, 0⟩] ∧ s.ch = [⟨0, 1⟩] ∧
    s.dropped = [⟨1, 1⟩] ∧ s.flag = true :=
  ⟨_, reach_of_run [.check 0, .send 0, .recv, .check 1, .send 1, .finish, .recv, .check 0, .send 0, .check 1,
                    .closeFlag, .closeCh, .send 1] rfl, rfl, rfl, rfl, rfl, rfl⟩

/-- rendez-vous (capacity 0) hand-off and the exit of the consumer after Close -/
example : ∃ s, Reach 0 demoScript s ∧ s.done = [⟨0, 0⟩] ∧ s.exited = true :=
  ⟨_, reach_of_run [.check 0, .send 0, .finish, .closeFlag, .closeCh, .exit] rfl, rfl, rfl⟩

/-- a spawn tree: root 0, child 1 registered, root closed, child 2 unregistered, child 1 still serving -/
example : ∃ s, SReach (fun _ => demoScript) s ∧ s.parent 1 = some 0 ∧ s.children 0 = [1] ∧ s.parent 2 = none ∧
    s.origin 2 = some (0, true) ∧ (s.mb 1).done = [⟨0, 0⟩] ∧ s.effLog = [(1, 1, ⟨0, 0⟩)] :=
  ⟨_, sreach_of_run [.newRoot 0, .spawnNew 0, .spawnCheck 1, .spawnSetParent 1, .spawnSetChild 1,
        .mb 0 .closeFlag, .mb 0 .closeCh, .spawnNew 0, .spawnCheck 2, .mb 1 (.check 0), .mb 1 (.send 0),
        .mb 1 .finish] rfl, rfl, rfl, rfl, rfl, rfl, rfl⟩

/-! ## the tie: protocol skeletons and facts regenerated from the repository on every run -/

theorem C12_skel_Handler_Post : Gen.skeletonOf "HandlerDef.Post" =
    some "if[get(isClosed) call(isClosed.Get)]{return} defer{call(recover)} send(ch)" := by decide
theorem C12_skel_Handler_Close : Gen.skeletonOf "HandlerDef.Close" =
    some "get(isClosed) call(isClosed.Set) call(close)" := by decide
theorem C12_skel_Handler_run : Gen.skeletonOf "HandlerDef.run" = some "rangech(ch){callfn(fn)}" := by decide
theorem C12_skel_Handler_New : Gen.skeletonOf "HandlerDef.New" = some "call(NewByCh) return" := by decide
theorem C12_skel_Handler_NewByCh : Gen.skeletonOf "HandlerDef.NewByCh" = some "go{call(run)} return" := by decide
theorem C12_skel_Actor_Send : Gen.skeletonOf "ActorDef.Send" =
    some "if[get(isClosed) call(isClosed.Get)]{return} defer{call(recover)} send(ch)" := by decide
theorem C12_skel_Actor_Close : Gen.skeletonOf "ActorDef.Close" =
    some "get(isClosed) call(isClosed.Set) call(close)" := by decide
theorem C12_skel_Actor_run : Gen.skeletonOf "ActorDef.run" = some "rangech(ch){callfn(effect)}" := by decide
theorem C12_skel_Actor_Spawn : Gen.skeletonOf "ActorDef.Spawn" =
    some "call(New) if[get(isClosed) call(isClosed.Get)]{return} set(parent) set(children) return" := by decide
theorem C12_skel_Actor_New : Gen.skeletonOf "ActorDef.New" = some "call(ActorNewGenerics) return" := by decide
theorem C12_skel_Actor_NewByOptions : Gen.skeletonOf "ActorDef.NewByOptions" =
    some "call(ActorNewByOptionsGenerics) return" := by decide
theorem C12_skel_ActorNewGenerics : Gen.skeletonOf "ActorNewGenerics" =
    some "call(ActorNewByOptionsGenerics) return" := by decide
theorem C12_skel_ActorNewByOptionsGenerics : Gen.skeletonOf "ActorNewByOptionsGenerics" =
    some "go{call(run)} return" := by decide
theorem C12_skel_Actor_GetParent : Gen.skeletonOf "ActorDef.GetParent" = some "get(parent) return" := by decide
theorem C12_skel_Actor_GetChild : Gen.skeletonOf "ActorDef.GetChild" = some "get(children) return" := by decide
theorem C12_skel_Actor_IsClosed : Gen.skeletonOf "ActorDef.IsClosed" =
    some "get(isClosed) call(isClosed.Get) return" := by decide

/-- `run` is started in exactly two places, each time as one goroutine by a constructor: one consumer per mailbox. -/
theorem C12_fact_one_consumer : Gen.mailboxRunCalls =
    [("ActorNewByOptionsGenerics", "go"), ("HandlerDef.NewByCh", "go")] := by decide

/-- the posted function / the effect is called synchronously inside the receive loop, the effect with the
    receiver itself and the received message -/
theorem C12_fact_effect_args : Gen.mailboxEffectCalls =
    [("HandlerDef.run", "call", ["callee=received"]), ("ActorDef.run", "call", ["self", "received"])] := by decide

/-- the only `close` of a mailbox channel is the one in `Close` -/
theorem C12_fact_closes : Gen.mailboxCloses =
    [("HandlerDef.Close", "body", "ch"), ("ActorDef.Close", "body", "ch")] := by decide

end FpgoVerif.C12
