import FpgoVerif.Model.C12
/-! Property theorems for C12 (none yet). -/
