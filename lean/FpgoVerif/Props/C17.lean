import FpgoVerif.Proofs.C17Subst
import FpgoVerif.Proofs.C17Effect
import FpgoVerif.Gen.ApiTable
/-! Property theorems for C17 — "SimpleAPI sends exactly the request it was defined with, lazily, and
    decodes it".  All statements are about the definitions the driver executes
    (`replacePathParams`, `effect`, `namedCtor`, … of Model/C17*.lean). -/
namespace FpgoVerif.C17

/-! ## URL law -/

/-- **URL clause.**  For every well-formed template (literal text without `{`, placeholders `{name}`
    with brace-free names), every parameter map `ps` (distinct keys, no key contains `}`, no printed
    value contains `{`) and EVERY iteration order `ps'` of that map, the loop of
    `replacePathParams` yields BaseURL + "/" + the template with every supplied `{key}` replaced by its
    value (simultaneous substitution). -/
theorem C17_url (base : Str) (ts : List Tok) (ps ps' : List (Str × Val))
    (hc : Clean ts) (hp : paramsOK ps = true) (hnd : (ps.map (·.1)).Nodup) (hperm : ps'.Perm ps) :
    replacePathParams base (render ts) ps' = base ++ '/' :: Spec.subst ts ps := by
  have hp' : paramsOK ps' = true := by
    unfold paramsOK at *
    rw [List.all_eq_true] at *
    exact fun x hx => hp x (hperm.mem_iff.mp hx)
  unfold replacePathParams
  rw [replaceLoop_render ts ps' hc hp', render_tokLoop, subst_perm ts ps ps' hperm hnd]

/-- the same law on template *strings*: `tokenize` is the (partial) parser of well-formed templates -/
theorem C17_url_string (base tmpl : Str) (ts : List Tok) (ps ps' : List (Str × Val))
    (ht : tokenize tmpl = some ts) (hp : paramsOK ps = true) (hnd : (ps.map (·.1)).Nodup) (hperm : ps'.Perm ps) :
    replacePathParams base tmpl ps' = base ++ '/' :: Spec.subst ts ps := by
  obtain ⟨hr, hc⟩ := tokenize_sound ht
  rw [← hr]
  exact C17_url base ts ps ps' hc hp hnd hperm

/-- the side condition "well-formed template" is exactly "`tokenize` succeeds": every well-formed token list
    is recovered from its rendering, so `C17_url_string` covers every template made of literal text
    (without `{`) and `{name}` placeholders (brace-free names), with any number of placeholders -/
theorem C17_template_wellformed (ts : List Tok) (hc : Clean ts) : tokenize (render ts) = some ts :=
  tokenize_complete ts hc

/-- non-vacuity: a two-placeholder template, a value equal to another key's name, both orders -/
example : replacePathParams "http://h".toList "u/{id}/n/{name}".toList
      [("name".toList, .str "id".toList), ("id".toList, .int 7)] = "http://h/u/7/n/id".toList ∧
    tokenize "u/{id}/n/{name}".toList = some ("u/".toList.map .lit ++ [.hole "id".toList] ++ "/n/".toList.map .lit ++ [.hole "name".toList]) ∧
    paramsOK [("id".toList, .int 7), ("name".toList, .str "id".toList)] = true := by decide

/-- outside the side condition the law is false (and Go's map order decides the result): with the
    value `{b}` for `a`, the order a,b gives `X/X`, the order b,a gives `{b}/X` -/
theorem C17_url_side_condition_needed :
    replacePathParams [] "{a}/{b}".toList [("a".toList, .str "{b}".toList), ("b".toList, .str "X".toList)] = "/X/X".toList ∧
    replacePathParams [] "{a}/{b}".toList [("b".toList, .str "X".toList), ("a".toList, .str "{b}".toList)] = "/{b}/X".toList := by
  decide

/-- the pinned code (before fix f67e541) restarted from the template for every key: only the key
    iterated last is substituted -/
theorem C17_pinned_url_refuted :
    replaceLoop true "{a}/{b}".toList [("a".toList, .str "1".toList), ("b".toList, .str "2".toList)] = "{a}/2".toList := by
  decide

/-! ## constructor table (regenerated from the source on every run) -/

def ctorTuple (r : CtorRow) : String × String × String × String × String :=
  (r.name, r.delegate, r.method, r.contentType, r.serializer)

def genericTuple (g : GenericRow) : String × String × Nat × Bool × String × Bool × String × String × String × Bool :=
  (g.name, g.sendCall, g.sendCalls, g.insideEffect, g.headerArg, g.headerCloned, g.methodArg, g.urlArg, g.contentTypeArg, g.decodeInside)

/-- the constructors in the source are exactly the rows the model interprets -/
theorem C17_table : Gen.apiCtors = expectedCtors.map ctorTuple ∧ Gen.apiGenerics = expectedGenerics.map genericTuple :=
  ⟨by decide, by rfl⟩

/-- **method / content-type clause** over the regenerated table: every named constructor passes the
    HTTP method its name says and the declared content type, to a known generic constructor -/
theorem C17_method : ∀ c ∈ Gen.apiCtors,
    methodNamedBy c.1 = some c.2.2.1 ∧ contentTypeDeclaredBy c.1 = some c.2.2.2.1 ∧ (kindOfDelegate c.2.1).isSome = true := by
  decide

/-- **copy-of-DefaultHeader and laziness clauses** over the regenerated table: each generic constructor
    contains exactly one sending call, it sits inside the closure given to `MonadIONewGenerics`, its header
    argument is `DefaultHeader.Clone()`, its method/URL arguments are the constructor's method and
    `replacePathParams(relativeURL, pathParam)`, and the response is decoded inside the closure -/
theorem C17_generic : ∀ g ∈ Gen.apiGenerics,
    g.2.2.1 = 1 ∧ g.2.2.2.1 = true ∧ g.2.2.2.2.2.1 = true ∧ g.2.2.2.2.2.2.1 = "method" ∧
    g.2.2.2.2.2.2.2.1 = "api.replacePathParams(relativeURL, pathParam)" ∧ g.2.2.2.2.2.2.2.2.2 = true := by
  decide

/-- the model's named constructors carry the method their name says and the template unchanged -/
theorem C17_method_model (name : String) (tmpl : Str) (d : ApiDef) (h : namedCtor name tmpl = some d) :
    (methodNamedBy name).map String.toList = some d.method ∧ d.tmpl = tmpl ∧
    (contentTypeDeclaredBy name).map String.toList = some d.contentType := by
  unfold namedCtor at h
  cases hf : expectedCtors.find? (·.name = name) with
  | none => simp [hf] at h
  | some r =>
    have hmem := List.mem_of_find?_eq_some hf
    have hname : r.name = name := by simpa using List.find?_some hf
    subst hname
    simp only [hf, Option.bind_some] at h
    simp only [expectedCtors, List.mem_cons, List.not_mem_nil, or_false] at hmem
    rcases hmem with rfl | rfl | rfl | rfl | rfl | rfl | rfl | rfl <;>
      (simp [ctorOfRow, kindOfDelegate] at h; subst h; refine ⟨?_, rfl, ?_⟩ <;> (dsimp only; decide))

example : namedCtor "APIMakePutJSONBody" "x".toList = some ⟨.body, "PUT".toList, "x".toList, "application/json".toList⟩ := by
  decide

/-! ## one evaluation: lazy, exactly one request, the prescribed request, errors not panics -/

/-- **laziness.**  Calling the API function only builds a `MonadIO`; the world (transport log, header
    maps) is touched by nothing but an evaluation.  (In the model a `MonadIO` is a function of the world:
    the statement is that the function is the constructor's `effect` and nothing else.) -/
theorem C17_lazy (api : Api) (d : ApiDef) (ps : List (Str × Val)) (body : Option Body) (tgt : Nat) :
    apiCall {} api d ps body tgt = fun env w => effect {} api d env ps body tgt w := rfl

/-- the driver's `call` step (invoking the API function with path parameters, body and target) sends
    nothing and touches no header map: only an evaluation does -/
theorem C17_call_sends_nothing (fl : Flags) (d : ApiDef) (st : St) (ps : List (Str × Val)) (body : Option Body) :
    (callStep fl d st ps body).w.log = st.w.log ∧ (callStep fl d st ps body).w.heap = st.w.heap ∧
    (callStep fl d st ps body).ios.length = st.ios.length + 1 := by
  simp [callStep]

/-- **exactly one request, the prescribed one, through a private header copy; errors surface.**
    For every configuration, parameters, body, environment and world with a valid DefaultHeader address,
    one evaluation is one of:
    * the serializer failed with `e`: `Err = e`, nothing sent, world unchanged;
    * the method / URL is not acceptable to `net/http`: `Err`, nothing sent, every existing header map unchanged;
    * exactly ONE request `r` reaches the transport, with the constructor's method, the substituted URL, the
      serializer's body, header content = DefaultHeader's content plus the content type, in a header map
      allocated by this evaluation (so not DefaultHeader itself), every existing header map unchanged; then a
      transport error `e` gives `Err = e`, otherwise the body is decoded. -/
theorem C17_once (api : Api) (d : ApiDef) (env : Env) (ps : List (Str × Val)) (body : Option Body) (tgt : Nat)
    (w : World) (hwf : ∀ a, api.defaultHeader = some a → a < w.heap.length) :
    match serialize d env body with
    | .error e => effect {} api d env ps body tgt w = (.resp (some e) none, w)
    | .ok (b, ct) =>
      (∃ w' e, effect {} api d env ps body tgt w = (.resp (some e) none, w') ∧ Ext w w' [] ∧
          ((e = .method ∧ validMethod (normMethod d.method) = false) ∨
           (e = .url ∧ urlParse (replacePathParams api.base d.tmpl ps) = none))) ∨
      (∃ r w', IsSpecRequest ((api.defaultHeader.map w.get).getD []) d.method (replacePathParams api.base d.tmpl ps) b ct w r ∧
          Ext w w' [r] ∧
          effect {} api d env ps body tgt w =
            match env.transport r with
            | .error e => (.resp (some e) none, w')
            | .ok raw => decodeResponseBody true env raw tgt w') := by
  rw [effect_eq_sendWith]
  cases hs : serialize d env body with
  | error e => rfl
  | ok p =>
    obtain ⟨b, ct⟩ := p
    simp only []
    have hu : urlOf {} api d ps = replacePathParams api.base d.tmpl ps := rfl
    rw [hu]
    rcases sendWith_cases env api.defaultHeader d.method (replacePathParams api.base d.tmpl ps) b ct w hwf with
      ⟨h1, w', h2, h3⟩ | ⟨h1, h2, w', h3, h4⟩ | ⟨h1, r, w', h2, h3, h4⟩
    · left; exact ⟨w', .method, by rw [h2], h3, Or.inl ⟨rfl, h1⟩⟩
    · left; exact ⟨w', .url, by rw [h3], h4, Or.inr ⟨rfl, h2⟩⟩
    · right
      refine ⟨r, w', h2, h3, ?_⟩
      rw [h4]
      cases env.transport r <;> rfl

/-- non-vacuity of `C17_once`: a POST-JSON definition, DefaultHeader `X-A: 1` at address 0, sends one request
    with a *different* header address and leaves DefaultHeader's content alone -/
example :
    let api : Api := ⟨"http://h".toList, some 0⟩
    let w : World := ⟨[[("X-A".toList, ["1".toList])]], [], [([], 0)]⟩
    let d : ApiDef := ⟨.body, "POST".toList, "u/{id}".toList, "application/json".toList⟩
    let out := effect {} api d (envOf .none "ok76:3".toList) [("id".toList, .int 7)] (some (.json "a".toList 1)) 0 w
    out.1 = .resp none (some ("v".toList, 3)) ∧ (out.2.log.map (·.hdrAddr)) = [1] ∧ out.2.get 0 = w.get 0 ∧
      out.2.log.map (·.url) = ["http://h/u/7".toList] := by
  decide

/-- **no panic.**  No evaluation of a constructor's effect ends in a Go panic, whatever serializer,
    transport, body reader and deserializer do (incl. a deserializer returning `(nil, err)`). -/
theorem C17_errors (api : Api) (d : ApiDef) (env : Env) (ps : List (Str × Val)) (body : Option Body) (tgt : Nat)
    (w : World) : (effect {} api d env ps body tgt w).1 ≠ .panic := by
  rw [effect_eq_sendWith]
  cases serialize d env body with
  | error e => simp
  | ok p =>
    obtain ⟨b, ct⟩ := p
    simp only []
    cases hsw : sendWith env api.defaultHeader d.method (urlOf {} api d ps) b ct w with
    | mk res w' =>
      cases res with
      | error e => simp
      | ok raw => exact decode_no_panic env raw tgt w'

/-- decoding failures surface as `Err` with the deserializer's error; a read error likewise -/
theorem C17_decode_errors (env : Env) (tgt : Nat) (w : World) :
    (∀ e, (decodeResponseBody true env (.error e) tgt w).1 = .resp (some e) none) ∧
    (∀ bytes e, env.deser bytes (w.target tgt) = (none, some e) →
      (decodeResponseBody true env (.ok bytes) tgt w).1 = .resp (some e) none) ∧
    (∀ bytes t, env.deser bytes (w.target tgt) = (some t, none) →
      decodeResponseBody true env (.ok bytes) tgt w = (.resp none (some t), w.setTarget tgt t)) := by
  refine ⟨fun e => rfl, fun bytes e h => ?_, fun bytes t h => ?_⟩ <;> simp [decodeResponseBody, h]

/-- the deserializer is invoked on exactly the bytes that were read — also on a zero-byte body — so its verdict
    on an empty body (the JSON deserializer's "unexpected end of JSON input", or an injected failure) surfaces -/
theorem C17_decode_empty_body (env : Env) (tgt : Nat) (w : World) :
    (decodeResponseBody true env (.ok []) tgt w).1 =
      match (env.deser [] (w.target tgt)).1 with
      | some t => .resp (env.deser [] (w.target tgt)).2 (some t)
      | none => .resp (env.deser [] (w.target tgt)).2 none := by
  unfold decodeResponseBody
  cases h : (env.deser [] (w.target tgt)).1 <;> simp [h]

example : (decodeResponseBody true (envOf .none "empty".toList) (.ok "empty".toList) 0 ⟨[], [], [("x".toList, 1)]⟩).1 =
    .resp (some .json) (some ("x".toList, 1)) := by decide

/-- **the body is the serializer's output for the given body — for every body VALUE.**  Only a nil pointer skips the serializer
    (`fpgo.IsNil`); a nil slice, a nil map, an empty slice/map, a zero struct are values: the serializer is called on them and
    its output (`null`, `[]`, `{}`, …) or its error is what `C17_once` sends / returns. -/
theorem C17_value_bodies_serialized (d : ApiDef) (env : Env) (b : Body) (hk : d.kind = .body) :
    serialize d env (some b) = (env.jsonSer b).map (·, d.contentType) ∧
    serialize d env none = .ok ("nil".toList, d.contentType) := by
  simp [serialize, hk]

/-- a nil slice is sent as `null`; a serializer whose streaming reader breaks after 3 bytes makes the transport fail and the
    failure is the response's `Err` (one request reached the transport, nothing is decoded) -/
example :
    let api : Api := ⟨"http://h".toList, none⟩
    let w : World := ⟨[], [], [([], 0)]⟩
    let d : ApiDef := ⟨.body, "POST".toList, "x".toList, "application/json".toList⟩
    ((effect {} api d (envOf .none "ok76:1".toList) [] (some (.lit "null".toList)) 0 w).2.log.map (·.body)) = ["raw:6e756c6c".toList] ∧
    (effect {} api d (envOf (.sstream (some 3)) "ok76:1".toList) [] (some (.lit "null".toList)) 0 w).1 = .resp (some .stream) none ∧
    ((effect {} api d (envOf (.sstream (some 3)) "ok76:1".toList) [] (some (.lit "null".toList)) 0 w).2.log.map (·.body)) = ["sfail:3".toList] := by
  decide

/-- the pinned code (`tempTarget.(*R)` without comma-ok) panics when the deserializer returns `(nil, err)` -/
theorem C17_pinned_decoder_panics :
    (decodeResponseBody false (envOf .dec "bad".toList) (.ok []) 0 ⟨[], [], [([], 0)]⟩).1 = .panic := by decide

/-- passing DefaultHeader itself instead of a clone (`cloned := false`) lets the request's content type leak
    into DefaultHeader: the copy clause is not a formality -/
theorem C17_shared_header_refuted :
    let api : Api := ⟨"http://h".toList, some 0⟩
    let w : World := ⟨[[]], [], [([], 0)]⟩
    let d : ApiDef := ⟨.body, "POST".toList, "x".toList, "application/json".toList⟩
    ((effect { cloned := false } api d (envOf .none "bad".toList) [] none 0 w).2.get 0) ≠ w.get 0 := by
  decide

end FpgoVerif.C17
