import FpgoVerif.Model.C17
/-! Property theorems for C17 (none yet). -/
