import FpgoVerif.Proofs.C20Comb
import FpgoVerif.Proofs.C20Curry
import FpgoVerif.Proofs.C20Match
import FpgoVerif.Gen.Skeletons
import FpgoVerif.Gen.EffectsC20
/-! Property theorems for C20 — "Combinators compose in the documented order; pattern matching is
    first-match".  Every theorem is about the definitions of `Model/C20*.lean` that the driver runs. -/
namespace FpgoVerif.C20

variable {α : Type}

/-! ## Compose / Pipe -/

/-- `Compose(f1..fn)(x) = f1(f2(...fn(x)))` (functions may panic: Kleisli right fold). -/
theorem C20_compose (fs : List (Fn α)) (s : List α) (h : fs ≠ []) :
    compose fs s = fs.foldr (fun f acc => acc.bind f) (.ok s) := compose_eq_foldr fs s h
example : compose [total (List.map (4 * · + 1)), total (List.map (4 * · + 2))] [1] = .ok [25] := by decide

/-- the same for functions that never panic: plain nested application, innermost = last -/
theorem C20_compose_total (fs : List (List α → List α)) (s : List α) (h : fs ≠ []) :
    compose (fs.map total) s = .ok (fs.foldr (fun f acc => f acc) s) := by
  rw [compose_eq_foldr _ _ (by simpa using h)]
  induction fs with
  | nil => exact absurd rfl h
  | cons f rest ih =>
    cases rest with
    | nil => rfl
    | cons g rest' =>
      have := ih (by simp)
      simp only [foldrK, List.map_cons, List.foldr_cons] at this ⊢
      rw [this]; rfl

/-- `Pipe(f1..fn)(x) = fn(...f1(x))` (Kleisli left fold). -/
theorem C20_pipe (fs : List (Fn α)) (s : List α) (h : fs ≠ []) :
    pipe fs s = fs.foldl (fun acc f => acc.bind f) (.ok s) := pipe_eq_foldl fs s h
example : pipe [total (List.map (4 * · + 1)), total (List.map (4 * · + 2))] [1] = .ok [22] := by
  rw [C20_pipe _ _ (by simp)]; decide

example : ([List.map (· + 1), List.reverse] : List (List Int → List Int)) ≠ [] := by simp

theorem C20_pipe_total (fs : List (List α → List α)) (s : List α) (h : fs ≠ []) :
    pipe (fs.map total) s = .ok (fs.foldl (fun acc f => f acc) s) := by
  rw [pipe_eq_foldl _ _ (by simpa using h)]
  simp only [foldlK]
  clear h
  induction fs generalizing s with
  | nil => rfl
  | cons f rest ih => simp only [List.map_cons, List.foldl_cons]; exact ih (f s)

/-- the empty function list panics (index out of range), for both -/
theorem C20_compose_pipe_empty (s : List α) :
    compose ([] : List (Fn α)) s = .panic ∧ pipe ([] : List (Fn α)) s = .panic := ⟨rfl, pipe_nil s⟩

/-- `Compose(fs) = Pipe(reverse(fs))`, for every list (both panic on the empty one). -/
theorem C20_compose_pipe_reverse (fs : List (Fn α)) (s : List α) : compose fs s = pipe fs.reverse s := by
  by_cases h : fs = []
  · subst h; exact (pipe_nil s).symm ▸ rfl
  · rw [compose_eq_foldr fs s h, pipe_eq_foldl fs.reverse s (by simpa using h), foldlK_reverse]

/-- associativity under regrouping: `Compose(fs ++ gs) = Compose(Compose(fs), Compose(gs))` -/
theorem C20_compose_regroup (fs gs : List (Fn α)) (s : List α) (hf : fs ≠ []) (hg : gs ≠ []) :
    compose (fs ++ gs) s = compose [compose fs, compose gs] s := by
  rw [compose_eq_foldr _ _ (by simp [hf]), foldrK_append]
  simp only [compose]
  rw [compose_eq_foldr gs s hg]
  congr 1
  funext x
  exact (compose_eq_foldr fs x hf).symm
example : ([total (List.map (· + 1))] : List (Fn Int)) ≠ [] := by simp

/-- `Pipe(fs ++ gs) = Pipe(Pipe(fs), Pipe(gs))` -/
theorem C20_pipe_regroup (fs gs : List (Fn α)) (s : List α) (hf : fs ≠ []) (hg : gs ≠ []) :
    pipe (fs ++ gs) s = pipe [pipe fs, pipe gs] s := by
  rw [pipe_eq_foldl _ _ (by simp [hf]), foldlK_append, pipe_eq_foldl [pipe fs, pipe gs] s (by simp)]
  simp only [foldlK, List.foldl_cons, List.foldl_nil, Res.bind_ok]
  rw [pipe_eq_foldl fs s hf]
  congr 1
  funext x
  exact (pipe_eq_foldl gs x hg).symm

/-- the implementation model and the Spec the oracle (`judge`) evaluates agree on every input -/
theorem C20_compose_pipe_spec (fs : List (Fn α)) (s : List α) :
    compose fs s = Spec.compose fs s ∧ pipe fs s = Spec.pipe fs s := by
  cases fs with
  | nil => exact ⟨rfl, pipe_nil s⟩
  | cons f rest => exact ⟨compose_eq_foldr _ _ (by simp), pipe_eq_foldl _ _ (by simp)⟩

/-! ## The caller's function list is only read -/

/-- A combinator call (plain or regrouped over sub-slices) leaves the caller's function list as it was, and so
    does any script of such calls — so building several pipelines from one slice gives each its own meaning. -/
theorem C20_argument_list_unchanged (cmp pip : List (Fn Int) → Fn Int) (fs : List (Fn Int)) :
    (applyComb cmp fs).2 = fs ∧ (∀ k, (applyRegroup cmp k fs).2 = fs) ∧
    (∀ script input, (ruRun cmp pip script input fs).fs = fs) := by
  have hreg : ∀ (c : List (Fn Int) → Fn Int) k (l : List (Fn Int)), (applyRegroup c k l).2 = l := by
    intro c k l
    unfold applyRegroup
    split
    · simp [applyComb]
    · rfl
  refine ⟨rfl, fun k => hreg cmp k fs, ?_⟩
  intro script input
  unfold ruRun
  have hstep : ∀ (st : RuState) tok, (ruStep cmp pip input st tok).fs = st.fs := by
    intro st tok
    unfold ruStep
    simp only
    repeat' split
    all_goals simp [applyComb, hreg]
  have : ∀ (sc : List String) (st : RuState), (sc.foldl (ruStep cmp pip input) st).fs = st.fs := by
    intro sc
    induction sc with
    | nil => intro st; rfl
    | cons t rest ih => intro st; rw [List.foldl_cons, ih, hstep]
  exact this script _

/-- tie to the code: the extractor finds, on this run, no statement in `Compose`, `ComposeInterface`, `Pipe`,
    `PipeInterface` (closures included) that stores into, appends to, sorts/copies into, or hands to another
    function the parameter slice or an alias of it, and no closure that assigns to a variable of the enclosing
    function (no state, such as a recycled buffer, survives between invocations of the composed function) -/
theorem C20_argument_list_not_written :
    FpgoVerif.Gen.effectsC20 = [("Compose", []), ("ComposeInterface", []), ("Pipe", []), ("PipeInterface", [])] := by
  decide

/-- the `ru` cases: the implementation model prints what the Spec prints -/
theorem C20_reuse_spec (script : String) (input : List Int) (fs : List (Fn Int)) :
    runRU true script input fs = runRU false script input fs := by
  have hc : (compose : List (Fn Int) → Fn Int) = Spec.compose := by
    funext l s; exact (C20_compose_pipe_spec l s).1
  have hp : (pipe : List (Fn Int) → Fn Int) = Spec.pipe := by
    funext l s; exact (C20_compose_pipe_spec l s).2
  unfold runRU
  simp only [if_true, Bool.false_eq_true, if_false]
  rw [(C20_argument_list_unchanged compose pipe fs).2.2, hc, hp]

/-- the `rr` cases (run on A, keep the result, run on B, re-read result A, …): a result is a value — what an
    invocation returned is what the fold prescribes for its own input, whatever is invoked afterwards; the
    implementation model prints what the Spec prints -/
theorem C20_result_retained (script : String) (a b : List Int) (fs : List (Fn Int)) :
    runRR true script a b fs = runRR false script a b fs := by
  have hc : (compose : List (Fn Int) → Fn Int) = Spec.compose := by
    funext l s; exact (C20_compose_pipe_spec l s).1
  have hp : (pipe : List (Fn Int) → Fn Int) = Spec.pipe := by
    funext l s; exact (C20_compose_pipe_spec l s).2
  unfold runRR
  simp only [if_true, Bool.false_eq_true, if_false]
  rw [hc, hp]

/-! ## Adapters: exactly the bound, then the supplied arguments, in order -/

/-- `MakeVariadicParamN` hands `args[0..N-1]` to `fn` in order, ignores the rest, and panics exactly when
    fewer than `N` are supplied. -/
theorem C20_makeVariadicParam {β : Type} (args : List α) :
    (∀ fn : α → β, makeVariadicParam1 fn args =
      if h : 1 ≤ args.length then .ok (fn args[0]) else .panic) ∧
    (∀ fn : α → α → β, makeVariadicParam2 fn args =
      if h : 2 ≤ args.length then .ok (fn args[0] args[1]) else .panic) ∧
    (∀ fn : α → α → α → β, makeVariadicParam3 fn args =
      if h : 3 ≤ args.length then .ok (fn args[0] args[1] args[2]) else .panic) ∧
    (∀ fn : α → α → α → α → β, makeVariadicParam4 fn args =
      if h : 4 ≤ args.length then .ok (fn args[0] args[1] args[2] args[3]) else .panic) ∧
    (∀ fn : α → α → α → α → α → β, makeVariadicParam5 fn args =
      if h : 5 ≤ args.length then .ok (fn args[0] args[1] args[2] args[3] args[4]) else .panic) ∧
    (∀ fn : α → α → α → α → α → α → β, makeVariadicParam6 fn args =
      if h : 6 ≤ args.length then .ok (fn args[0] args[1] args[2] args[3] args[4] args[5]) else .panic) := by
  refine ⟨?_, ?_, ?_, ?_, ?_, ?_⟩ <;> intro fn
  · rcases args with _ | ⟨a0, _⟩ <;> simp [makeVariadicParam1]
  · rcases args with _ | ⟨a0, _ | ⟨a1, _⟩⟩ <;> simp [makeVariadicParam2]
  · rcases args with _ | ⟨a0, _ | ⟨a1, _ | ⟨a2, _⟩⟩⟩ <;> simp [makeVariadicParam3]
  · rcases args with _ | ⟨a0, _ | ⟨a1, _ | ⟨a2, _ | ⟨a3, _⟩⟩⟩⟩ <;> simp [makeVariadicParam4]
  · rcases args with _ | ⟨a0, _ | ⟨a1, _ | ⟨a2, _ | ⟨a3, _ | ⟨a4, _⟩⟩⟩⟩⟩ <;> simp [makeVariadicParam5]
  · rcases args with _ | ⟨a0, _ | ⟨a1, _ | ⟨a2, _ | ⟨a3, _ | ⟨a4, _ | ⟨a5, _⟩⟩⟩⟩⟩⟩ <;> simp [makeVariadicParam6]

/-- `MakeVariadicReturnN` passes all arguments and returns the N results in order. -/
theorem C20_makeVariadicReturn {β : Type} (args : List α) :
    (∀ fn : List α → β, makeVariadicReturn1 fn args = [fn args]) ∧
    (∀ fn : List α → β × β, makeVariadicReturn2 fn args = [(fn args).1, (fn args).2]) ∧
    (∀ fn : List α → β × β × β, makeVariadicReturn3 fn args = [(fn args).1, (fn args).2.1, (fn args).2.2]) ∧
    (∀ fn : List α → β × β × β × β, makeVariadicReturn4 fn args =
      [(fn args).1, (fn args).2.1, (fn args).2.2.1, (fn args).2.2.2]) ∧
    (∀ fn : List α → β × β × β × β × β, makeVariadicReturn5 fn args =
      [(fn args).1, (fn args).2.1, (fn args).2.2.1, (fn args).2.2.2.1, (fn args).2.2.2.2]) ∧
    (∀ fn : List α → β × β × β × β × β × β, makeVariadicReturn6 fn args =
      [(fn args).1, (fn args).2.1, (fn args).2.2.1, (fn args).2.2.2.1, (fn args).2.2.2.2.1, (fn args).2.2.2.2.2]) :=
  ⟨fun _ => rfl, fun _ => rfl, fun _ => rfl, fun _ => rfl, fun _ => rfl, fun _ => rfl⟩

/-- `CurryParamN(fn, bound…)(supplied…)` calls `fn` with exactly `bound ++ supplied` (stated for an
    `fn` that looks at its whole argument list `g`). -/
theorem C20_curryParam {β : Type} (g : List α → β) (a b c d e f : α) (args : List α) :
    curryParam1 (fun a rest => g (a :: rest)) a args = g ([a] ++ args) ∧
    curryParam1ForSlice1 (fun a rest => g (a :: rest)) a args = g ([a] ++ args) ∧
    curryParam2 (fun a b rest => g (a :: b :: rest)) a b args = g ([a, b] ++ args) ∧
    curryParam3 (fun a b c rest => g (a :: b :: c :: rest)) a b c args = g ([a, b, c] ++ args) ∧
    curryParam4 (fun a b c d rest => g (a :: b :: c :: d :: rest)) a b c d args = g ([a, b, c, d] ++ args) ∧
    curryParam5 (fun a b c d e rest => g (a :: b :: c :: d :: e :: rest)) a b c d e args = g ([a, b, c, d, e] ++ args) ∧
    curryParam6 (fun a b c d e f rest => g (a :: b :: c :: d :: e :: f :: rest)) a b c d e f args
      = g ([a, b, c, d, e, f] ++ args) :=
  ⟨rfl, rfl, rfl, rfl, rfl, rfl, rfl⟩

/-! ## Trampoline -/

/-- `Trampoline` = "iterate the step until the first iterate on which it reports done or an error"
    (error has priority; `hang` when no such iterate exists within the fuel). -/
theorem C20_trampoline (fn : List α → StepOut α) (fuel : Nat) (s : List α) :
    trampoline fn fuel s = Spec.trampoline fn fuel s := by
  induction fuel generalizing s with
  | zero => rfl
  | succ n ih =>
    have hrange : List.range (n + 1) = 0 :: (List.range n).map (· + 1) := by
      rw [List.range_succ_eq_map]
    unfold Spec.trampoline
    rw [hrange, List.find?_cons]
    cases herr : (fn s).err with
    | some e =>
      have : Spec.stops fn s 0 = true := by simp [Spec.stops, Spec.iter, herr]
      simp [trampoline, herr, this, Spec.iter]
    | none =>
      cases hd : (fn s).isDone with
      | true =>
        have : Spec.stops fn s 0 = true := by simp [Spec.stops, Spec.iter, herr, hd]
        simp [trampoline, herr, hd, this, Spec.iter]
      | false =>
        have : Spec.stops fn s 0 = false := by simp [Spec.stops, Spec.iter, herr, hd]
        simp only [trampoline, herr, hd, this, List.find?_map]
        rw [ih (fn s).result]
        unfold Spec.trampoline
        have hcomp : (Spec.stops fn s ∘ fun x => x + 1) = Spec.stops fn (fn s).result := by
          funext k; exact stops_succ fn s k
        simp only [Bool.false_eq_true, if_false, hcomp]
        cases (List.range n).find? (Spec.stops fn (fn s).result) with
        | none => rfl
        | some k => simp [iter_succ']

/-- the result is that of the first stopping iterate `k` (if it is reached within the fuel) -/
theorem C20_trampoline_first_stop (fn : List α → StepOut α) (fuel : Nat) (s : List α) (k : Nat)
    (hk : k < fuel) (hbefore : ∀ j, j < k → Spec.stops fn s j = false) (hstop : Spec.stops fn s k = true) :
    trampoline fn fuel s =
      match (fn (Spec.iter fn s k)).err with
      | some e => .err e
      | none => .ok (fn (Spec.iter fn s k)).result := by
  rw [C20_trampoline]
  unfold Spec.trampoline
  have : (List.range fuel).find? (Spec.stops fn s) = some k := by
    rw [List.find?_eq_some_iff_append]
    refine ⟨hstop, List.range k, (List.range (fuel - k - 1)).map (· + (k + 1)), ?_, ?_⟩
    · have : fuel = k + (1 + (fuel - k - 1)) := by omega
      conv => lhs; rw [this, List.range_add, List.range_add]
      simp [List.map_map, Nat.add_comm, Nat.add_left_comm, Function.comp_def]
    · intro a ha; simp at ha; simp [hbefore a ha]
  rw [this]
  rfl
example : Spec.stops (trStep 3 (-1) 0) [0, 5] 2 = true ∧ Spec.stops (trStep 3 (-1) 0) [0, 5] 1 = false := by decide

example : ∀ j, j < 2 → Spec.stops (trStep 5 (-1) 0) [0] j = false := by decide
/-- no stopping iterate within the fuel: the loop is still running -/

theorem C20_trampoline_runs_on (fn : List α → StepOut α) (fuel : Nat) (s : List α)
    (h : ∀ j, j < fuel → Spec.stops fn s j = false) : trampoline fn fuel s = .hang := by
  rw [C20_trampoline]
  unfold Spec.trampoline
  have : (List.range fuel).find? (Spec.stops fn s) = none := by
    rw [List.find?_eq_none]; intro x hx; simp at hx; simp [h x hx]
  rw [this]

/-! ## CurryDef: any interleaving of atomic steps of any number of goroutines, plus MarkDone at any moment -/

/-- Arguments accumulate in lock order: `args` is the concatenation of the argument lists of the Calls
    that passed the done-check (`hist`), these are a subsequence of all Calls in lock-acquisition order,
    and as long as nobody marked done no Call was skipped. -/
theorem C20_curry_accumulates (fn : CurryFn) (scripts : List (List (List Int))) (c : Curry)
    (r : CReach fn (Curry.init scripts) c) :
    c.args = c.hist.flatten ∧ c.hist.Sublist c.lockOrder ∧
    (c.cur = none → c.isDone = false → c.hist = c.lockOrder) := by
  have inv := cinv_reach (cinv_init fn scripts) r
  refine ⟨inv.args_eq, ?_, ?_⟩
  · have hs := inv.shape
    unfold CShape at hs
    split at hs
    · exact hs.1
    · obtain ⟨lo, h1, h2, _⟩ := hs; rw [h1]; exact h2.trans (List.sublist_append_left lo _)
    · obtain ⟨lo, h1, h2, _⟩ := hs; rw [h1, h2]; exact List.sublist_append_left lo _
    · obtain ⟨lo, h1, h2, _⟩ := hs; rw [h1, h2]; exact List.Sublist.refl _
    · exact hs.1
  · intro hcur hd
    have hs := inv.shape
    simp only [CShape, hcur] at hs
    exact hs.2.2 hd
example : CReach (curryFn 3) (Curry.init [[[1], [2]], [[3]]])
    ((Curry.init [[[1], [2]], [[3]]]).markDone) := .step (.refl _) .markDone

/-- `fn` is invoked once per accepted Call, with all arguments so far: the i-th invocation saw exactly
    the concatenation of the first i+1 accepted Calls; the number of invocations equals the number of
    accepted Calls (minus the one whose invocation is in progress). -/
theorem C20_curry_fn_once_per_call (fn : CurryFn) (scripts : List (List (List Int))) (c : Curry)
    (r : CReach fn (Curry.init scripts) c) :
    (∀ i, i < c.log.length → c.log[i]? = some ((c.hist.take (i + 1)).flatten)) ∧
    c.log.length ≤ c.hist.length ∧ c.hist.length ≤ c.log.length + 1 ∧
    (c.cur = none → c.log.length = c.hist.length) := by
  have inv := cinv_reach (cinv_init fn scripts) r
  have hs := inv.shape
  have hplen : ∀ h, (prefixes h).length = h.length := fun h => prefixesFrom_length [] h
  have main : ∀ h, c.log = prefixes h →
      (∀ i, i < c.log.length → c.log[i]? = some ((h.take (i + 1)).flatten)) ∧ c.log.length = h.length := by
    intro h hl
    refine ⟨fun i hi => ?_, by rw [hl, hplen]⟩
    rw [hl] at hi ⊢
    exact prefixes_getElem? h i (by rwa [hplen] at hi)
  unfold CShape at hs
  split at hs
  · obtain ⟨m1, m2⟩ := main _ hs.2.1; exact ⟨m1, by omega, by omega, fun _ => m2⟩
  · rename_i hcur; obtain ⟨lo, _, _, h3, _⟩ := hs; obtain ⟨m1, m2⟩ := main _ h3
    exact ⟨m1, by omega, by omega, fun h => by simp [hcur] at h⟩
  · rename_i hcur; obtain ⟨lo, _, _, h3⟩ := hs; obtain ⟨m1, m2⟩ := main _ h3
    exact ⟨m1, by omega, by omega, fun h => by simp [hcur] at h⟩
  · rename_i a hcur; obtain ⟨lo, _, h2, h3⟩ := hs; obtain ⟨m1, m2⟩ := main _ h3
    refine ⟨fun i hi => ?_, by rw [h2]; simp; omega, by rw [h2]; simp; omega, fun h => by simp [hcur] at h⟩
    rw [m1 i hi, h2, List.take_append_of_le_length (by omega)]
  · obtain ⟨m1, m2⟩ := main _ hs.2.1; exact ⟨m1, by omega, by omega, fun h => by rename_i hcur; simp [hcur] at h⟩

/-- `Result` is the value returned by the last invocation of `fn` (the zero value before the first). -/
theorem C20_curry_result (fn : CurryFn) (scripts : List (List (List Int))) (c : Curry)
    (r : CReach fn (Curry.init scripts) c) :
    c.result = match c.log.getLast? with | none => 0 | some l => (fn l).1 :=
  (cinv_reach (cinv_init fn scripts) r).result_eq

/-- After `MarkDone` (by `fn` itself or by anybody), once the Call in progress (if any) is over, `Result`,
    the accumulated arguments and the set of invocations are frozen for every continuation. -/
theorem C20_curry_frozen (fn : CurryFn) (c c' : Curry) (hdone : c.isDone = true)
    (hquiet : c.cur = none ∨ ∃ a, c.cur = some (.checking, a) ∨ c.cur = some (.unlocking, a))
    (r : CReach fn c c') :
    c'.isDone = true ∧ c'.args = c.args ∧ c'.result = c.result ∧ c'.log = c.log := by
  obtain ⟨hq, h1, h2, h3, _⟩ := quiet_reach ⟨hdone, hquiet⟩ r
  exact ⟨hq.1, h1, h2, h3⟩
example : (Curry.init [[[1]]]).markDone.isDone = true ∧ (Curry.init [[[1]]]).markDone.cur = none := ⟨rfl, rfl⟩

/-- A sequential `Call` (the same atoms run back to back — what the driver executes for `cu` cases) is a
    path of the transition system and refines the Spec: append, invoke with all arguments, store the
    result — or nothing at all once done. -/
theorem C20_curry_call_sequential (fn : CurryFn) (c : Curry) (a : List Int) (hcur : c.cur = none) :
    CReach fn { c with pending := [[a]] } (c.callSeq fn a) ∧
    (c.callSeq fn a).abs = c.abs.call fn a ∧ (c.callSeq fn a).cur = none :=
  ⟨callSeq_reach fn c a hcur, callSeq_abs fn c a hcur⟩
example : (Curry.init []).cur = none := rfl

/-- no Call is lost or duplicated by the lock: at any moment the Calls that have taken the lock plus those
    still to be made are exactly the Calls of the scripts -/
theorem C20_curry_no_call_lost (fn : CurryFn) (scripts : List (List (List Int))) (c : Curry)
    (r : CReach fn (Curry.init scripts) c) :
    c.lockOrder.length + c.pendingCount = (scripts.map List.length).sum := by
  have := count_reach r
  simpa [Curry.init, Curry.pendingCount] using this

/-- lock order respects every goroutine's program order: the Calls goroutine `t` has made so far are a
    prefix of its script and occur in that order within the lock order -/
theorem C20_curry_program_order (fn : CurryFn) (scripts : List (List (List Int))) (c : Curry)
    (r : CReach fn (Curry.init scripts) c) (t : Nat) (s : List (List Int)) (hs : scripts[t]? = some s) :
    ∃ (made rest : List (List Int)), c.pending[t]? = some rest ∧ s = made ++ rest ∧ made.Sublist c.lockOrder :=
  progOrder_reach r t s hs
example : ([[[1], [2]], [[3]]] : List (List (List Int)))[1]? = some [[3]] := rfl

/-- the whole sequential script run by the driver (`cu` cases) prints exactly what the Spec prints -/
theorem C20_curry_script (fn : CurryFn) (ts : List String) :
    runScript (curryTokImpl fn) (Curry.init []) ts = runScript (curryTokSpec fn) Spec.CurryS.init ts := by
  have h := curry_script_refines fn ts (Curry.init []) [] rfl
  unfold runScript
  exact congrArg (fun outs => " | ".intercalate (List.reverse outs)) h

/-- A CurryDef's accumulator is its own: only a Call on `A` changes `A` (not the caller overwriting the
    buffer it once spread into a Call, not Calls on another CurryDef started from the same buffer), and a Call
    never changes the caller's buffer. -/
theorem C20_curry_accumulator_is_private {σ : Type} (call : σ → List Int → σ × String) (res : σ → Int)
    (st : CwState σ) (cmd : CwCmd) :
    ((∀ l, cmd ≠ .callA l) → (cwExec call res st cmd).1.a = st.a) ∧
    ((∀ l, cmd ≠ .callB l) → (cwExec call res st cmd).1.b = st.b) ∧
    ((∀ c l, cmd ≠ .buf c l) → (∀ i v, cmd ≠ .write i v) →
      (cwExec call res st cmd).1.xs = st.xs ∧ (cwExec call res st cmd).1.cap = st.cap) := by
  cases cmd <;> simp [cwExec]

/-- the `cw` scripts (two CurryDefs, one caller buffer spread into Calls, overwritten and re-used): the
    implementation model prints what the Spec prints -/
theorem C20_curry_caller_slices (fn : CurryFn) (cmds : List CwCmd) :
    runCw (curryCallImpl fn) (fun c => c.result) (Curry.init []) cmds =
    runCw (curryCallSpec fn) (fun c => c.result) Spec.CurryS.init cmds := by
  have h := cw_script_refines fn cmds ⟨Curry.init [], Curry.init [], [], 0⟩
    ⟨Spec.CurryS.init, Spec.CurryS.init, [], 0⟩ [] ⟨rfl, rfl, rfl, rfl, rfl, rfl⟩
  unfold runCw
  exact congrArg (fun outs => " | ".intercalate (List.reverse outs)) h

/-- the protocol shapes that implement the atom sequence the transition system assumes for `Call` (lock;
    done-check; append; invoke; store; unlock): the current text, the same with a deferred unlock, and both
    with the done-check spelled `IsDone()` -/
def acceptedCallSkeletons : List String := [
  "call(callM.Lock) if[get(isDone) call(isDone.Get)]{get(args) call(append) set(args) get(args) callfn(fn) set(result)} call(callM.Unlock) return",
  "call(callM.Lock) defer{call(callM.Unlock)} if[get(isDone) call(isDone.Get)]{get(args) call(append) set(args) get(args) callfn(fn) set(result)} return",
  "call(callM.Lock) if[call(IsDone)]{get(args) call(append) set(args) get(args) callfn(fn) set(result)} call(callM.Unlock) return",
  "call(callM.Lock) defer{call(callM.Unlock)} if[call(IsDone)]{get(args) call(append) set(args) get(args) callfn(fn) set(result)} return"]

/-- closing theorem over the skeletons regenerated from fp.go on this run: `Call` has one of the accepted
    shapes, `MarkDone`/`IsDone` are a single atomic store/load of the flag, `Result` reads the field -/
theorem C20_curry_call_skeleton :
    (acceptedCallSkeletons.any (fun s => FpgoVerif.Gen.skeletonOf "CurryDef.Call" == some s)) = true ∧
    FpgoVerif.Gen.skeletonOf "CurryDef.MarkDone" = some "get(isDone) call(isDone.Set)" ∧
    FpgoVerif.Gen.skeletonOf "CurryDef.IsDone" = some "get(isDone) call(isDone.Get) return" ∧
    FpgoVerif.Gen.skeletonOf "CurryDef.Result" = some "get(result) return" := by
  decide +kernel

/-! ## Sum / product / nil types and NewCompData -/

/-- the loops of `SumType/ProductType/NilType.Matches` decide exactly "the arguments match the type" -/
theorem C20_comptype_matches (t : CompType) (vs : List Atom) : t.matches vs = Spec.typeMatches t vs :=
  matches_eq t vs

/-- `NewCompData` returns a value iff its arguments match the declared type; the value holds exactly the
    arguments, and `MatchCompType` on it decides the same relation. -/
theorem C20_compdata (t : CompType) (vs : List Atom) :
    ((newCompData t vs).isSome = true ↔ Spec.typeMatches t vs = true) ∧
    (∀ o, newCompData t vs = some o → o = vs ∧ matchCompType t o = true) ∧
    (∀ t', matchCompType t' vs = Spec.typeMatches t' vs) := by
  refine ⟨?_, ?_, fun t' => matches_eq t' vs⟩
  · unfold newCompData; rw [matches_eq]; split <;> simp_all
  · intro o h
    unfold newCompData at h
    split at h
    · rename_i hm; injection h with h; subst h; exact ⟨rfl, hm⟩
    · cases h
example : newCompData (.sum [.nilT, .prod [2, 24]]) [.int 2 1, .str false "x"] = some [.int 2 1, .str false "x"] := by decide

/-! ## MatchFor / Either: first match in list order, panic exactly when none -/

/-- each pattern's `Matches` decides the property's test (equality patterns holding comparable values) -/
theorem C20_pattern_accepts (rx : String → String → Bool) (p : Pat) (v : GoVal) (h : p.inScope = true) :
    p.matches rx v = .ok (Spec.accepts rx p v) := by
  cases p with
  | kind k =>
    simp only [Pat.matches, Spec.accepts]
    cases v.isNil
    · simp only [Bool.false_eq_true, if_false, Bool.not_false, Bool.true_and]
      congr 1
      by_cases hk : k = v.valueKind
      · rw [hk]
      · have h1 : (k == v.valueKind) = false := by simp [hk]
        have h2 : (v.valueKind == k) = false := by simp [Ne.symm hk]
        rw [h1, h2]
    · simp
  | equal pv => exact goEq_comparable pv v h
  | regex r =>
    simp only [Pat.matches, Spec.accepts]
    cases hc : (v.isNil || v.valueKind != kString) with
    | true =>
      have : v.text = none := by
        cases ht : v.text with
        | none => rfl
        | some s =>
          have := (text_some_iff v).mpr (by simp [ht])
          rw [hc] at this; cases this
      simp [this]
    | false =>
      have := (text_some_iff v).mp hc
      cases ht : v.text with
      | none => simp [ht] at this
      | some s => simp
  | sumT t =>
    simp only [Pat.matches, Spec.accepts]
    cases v <;> simp [matchCompType, matches_eq]
  | otherwise => rfl

/-- `MatchFor ps v` applies the effect of the first pattern (in list order) that accepts the value the
    patterns see, to that value; it panics exactly when no pattern accepts. -/
theorem C20_match (rx : String → String → Bool) (ps : List Pattern) (v : GoVal)
    (h : ∀ p ∈ ps, p.pat.inScope = true) : matchFor rx ps v = Spec.matchFor rx ps v := by
  induction ps with
  | nil => rfl
  | cons p rest ih =>
    have hp := C20_pattern_accepts rx p.pat (Spec.view v) (h p (by simp))
    have ih' := ih (fun q hq => h q (by simp [hq]))
    simp only [matchFor, preprocess_eq_view, hp, Spec.matchFor, List.find?_cons]
    cases hacc : Spec.accepts rx p.pat (Spec.view v) with
    | true => simp
    | false => simpa [Spec.matchFor] using ih'
example : ∀ p ∈ [(⟨.kind 2, 0⟩ : Pattern), ⟨.equal (.atom (.str false "a")), 1⟩, ⟨.otherwise, 2⟩], p.pat.inScope = true := by
  decide

/-- least-index form: the result is effect `e` on `w` iff the list splits as `pre ++ p :: post` with no
    pattern of `pre` accepting, `p` accepting, `e` = `p`'s effect and `w` the value the patterns see. -/
theorem C20_match_first (rx : String → String → Bool) (ps : List Pattern) (v : GoVal)
    (h : ∀ p ∈ ps, p.pat.inScope = true) (e : Nat) (w : GoVal) :
    matchFor rx ps v = .ok (e, w) ↔
      ∃ pre p post, ps = pre ++ p :: post ∧ (∀ q ∈ pre, Spec.accepts rx q.pat (Spec.view v) = false) ∧
        Spec.accepts rx p.pat (Spec.view v) = true ∧ e = p.eff ∧ w = Spec.view v := by
  rw [C20_match rx ps v h]
  unfold Spec.matchFor
  constructor
  · intro hm
    cases hf : ps.find? (fun p => Spec.accepts rx p.pat (Spec.view v)) with
    | none => rw [hf] at hm; cases hm
    | some p =>
      rw [hf] at hm
      injection hm with hm
      injection hm with h1 h2
      obtain ⟨hacc, pre, post, hsplit, hpre⟩ := List.find?_eq_some_iff_append.mp hf
      exact ⟨pre, p, post, hsplit, fun q hq => by simpa using hpre q hq, hacc, h1.symm, h2.symm⟩
  · rintro ⟨pre, p, post, hsplit, hpre, hacc, he, hw⟩
    have : ps.find? (fun p => Spec.accepts rx p.pat (Spec.view v)) = some p :=
      List.find?_eq_some_iff_append.mpr ⟨hacc, pre, post, hsplit, fun q hq => by simp [hpre q hq]⟩
    rw [this, he, hw]

/-- it panics iff no pattern accepts; in particular never when the list contains `Otherwise` -/
theorem C20_match_panic_iff (rx : String → String → Bool) (ps : List Pattern) (v : GoVal)
    (h : ∀ p ∈ ps, p.pat.inScope = true) :
    matchFor rx ps v = .panic ↔ ∀ p ∈ ps, Spec.accepts rx p.pat (Spec.view v) = false := by
  rw [C20_match rx ps v h]
  unfold Spec.matchFor
  cases hf : ps.find? (fun p => Spec.accepts rx p.pat (Spec.view v)) with
  | none =>
    simp only [true_iff]
    intro p hp
    have := List.find?_eq_none.mp hf p hp
    simpa using this
  | some p =>
    simp only [reduceCtorEq, false_iff]
    intro hall
    have hmem := List.mem_of_find?_eq_some hf
    have hacc := List.find?_some hf
    rw [hall p hmem] at hacc
    cases hacc

theorem C20_otherwise_catches_everything (rx : String → String → Bool) (ps : List Pattern) (v : GoVal)
    (h : ∀ p ∈ ps, p.pat.inScope = true) (e : Nat) (ho : (⟨.otherwise, e⟩ : Pattern) ∈ ps) :
    matchFor rx ps v ≠ .panic := by
  intro hp
  have := (C20_match_panic_iff rx ps v h).mp hp _ ho
  simp [Spec.accepts] at this

/-- The pinned code (before 33c3a0d) violated first-match: `InCaseOfEqual(p)` never matched the pointer `p`
    itself because `MatchFor` dereferenced every pointer to a struct. -/
theorem C20_pinned_deref_refuted (rx : String → String → Bool) :
    ∃ ps v, (∀ p ∈ ps, p.pat.inScope = true) ∧ matchForPinned rx ps v ≠ Spec.matchFor rx ps v :=
  by
  refine ⟨[⟨.equal (.atom (.ptr 0 1)), 0⟩, ⟨.otherwise, 1⟩], .atom (.ptr 0 1), by decide, ?_⟩
  have h1 : matchForPinned rx [⟨.equal (.atom (.ptr 0 1)), 0⟩, ⟨.otherwise, 1⟩] (.atom (.ptr 0 1))
      = .ok (1, .atom (.strct 0 0)) := by rfl
  have h2 : Spec.matchFor rx [⟨.equal (.atom (.ptr 0 1)), 0⟩, ⟨.otherwise, 1⟩] (.atom (.ptr 0 1))
      = .ok (0, .atom (.ptr 0 1)) := by rfl
  rw [h1, h2]; decide

/-- The pinned code (before c5a1b66) panicked on a defined string type although `Otherwise` follows. -/
theorem C20_pinned_regex_refuted (rx : String → String → Bool) :
    matchForPinned rx [⟨.regex "lit:abc", 0⟩, ⟨.otherwise, 1⟩] (.atom (.str true "abc")) = .panic ∧
    Spec.matchFor rx [⟨.regex "lit:abc", 0⟩, ⟨.otherwise, 1⟩] (.atom (.str true "abc")) ≠ .panic := by
  constructor
  · rfl
  · simp only [Spec.matchFor, List.find?_cons, Spec.accepts, Spec.view, GoVal.text]
    cases rx "lit:abc" "abc" <;> simp

/-- `Either(v, ps...)` is `MatchFor` -/
theorem C20_either (rx : String → String → Bool) (ps : List Pattern) (v : GoVal) :
    either rx v ps = matchFor rx ps v := rfl

end FpgoVerif.C20
