import FpgoVerif.Proofs.C20Comb
import FpgoVerif.Proofs.C20Curry
import FpgoVerif.Proofs.C20Match
import FpgoVerif.Gen.Skeletons
/-! Property theorems for C20 — "Combinators compose in the documented order; pattern matching is
    first-match".  Every theorem is about the definitions of `Model/C20*.lean` that the driver runs. -/
namespace FpgoVerif.C20

variable {α : Type}

/-! ## Compose / Pipe -/

/-- `Compose(f1..fn)(x) = f1(f2(...fn(x)))` (functions may panic: Kleisli right fold). -/
theorem C20_compose (fs : List (Fn α)) (s : List α) (h : fs ≠ []) :
    compose fs s = fs.foldr (fun f acc => acc.bind f) (.ok s) := compose_eq_foldr fs s h
example : compose [total (List.map (4 * · + 1)), total (List.map (4 * · + 2))] [1] = .ok [25] := by decide

/-- the same for functions that never panic: plain nested application, innermost = last -/
theorem C20_compose_total (fs : List (List α → List α)) (s : List α) (h : fs ≠ []) :
    compose (fs.map total) s = .ok (fs.foldr (fun f acc => f acc) s) := by
  rw [compose_eq_foldr _ _ (by simpa using h)]
  induction fs with
  | nil => exact absurd rfl h
  | cons f rest ih =>
    cases rest with
    | nil => rfl
    | cons g rest' =>
      have := ih (by simp)
      simp only [foldrK, List.map_cons, List.foldr_cons] at this ⊢
      rw [this]; rfl

/-- `Pipe(f1..fn)(x) = fn(...f1(x))` (Kleisli left fold). -/
theorem C20_pipe (fs : List (Fn α)) (s : List α) (h : fs ≠ []) :
    pipe fs s = fs.foldl (fun acc f => acc.bind f) (.ok s) := pipe_eq_foldl fs s h
example : pipe [total (List.map (4 * · + 1)), total (List.map (4 * · + 2))] [1] = .ok [22] := by
  rw [C20_pipe _ _ (by simp)]; decide

theorem C20_pipe_total (fs : List (List α → List α)) (s : List α) (h : fs ≠ []) :
    pipe (fs.map total) s = .ok (fs.foldl (fun acc f => f acc) s) := by
  rw [pipe_eq_foldl _ _ (by simpa using h)]
  simp only [foldlK]
  clear h
  induction fs generalizing s with
  | nil => rfl
  | cons f rest ih => simp only [List.map_cons, List.foldl_cons]; exact ih (f s)

/-- the empty function list panics (index out of range), for both -/
theorem C20_compose_pipe_empty (s : List α) :
    compose ([] : List (Fn α)) s = .panic ∧ pipe ([] : List (Fn α)) s = .panic := ⟨rfl, pipe_nil s⟩

/-- `Compose(fs) = Pipe(reverse(fs))`, for every list (both panic on the empty one). -/
theorem C20_compose_pipe_reverse (fs : List (Fn α)) (s : List α) : compose fs s = pipe fs.reverse s := by
  by_cases h : fs = []
  · subst h; exact (pipe_nil s).symm ▸ rfl
  · rw [compose_eq_foldr fs s h, pipe_eq_foldl fs.reverse s (by simpa using h), foldlK_reverse]

/-- associativity under regrouping: `Compose(fs ++ gs) = Compose(Compose(fs), Compose(gs))` -/
theorem C20_compose_regroup (fs gs : List (Fn α)) (s : List α) (hf : fs ≠ []) (hg : gs ≠ []) :
    compose (fs ++ gs) s = compose [compose fs, compose gs] s := by
  rw [compose_eq_foldr _ _ (by simp [hf]), foldrK_append]
  simp only [compose]
  rw [compose_eq_foldr gs s hg]
  congr 1
  funext x
  exact (compose_eq_foldr fs x hf).symm
example : ([total (List.map (· + 1))] : List (Fn Int)) ≠ [] := by simp

/-- `Pipe(fs ++ gs) = Pipe(Pipe(fs), Pipe(gs))` -/
theorem C20_pipe_regroup (fs gs : List (Fn α)) (s : List α) (hf : fs ≠ []) (hg : gs ≠ []) :
    pipe (fs ++ gs) s = pipe [pipe fs, pipe gs] s := by
  rw [pipe_eq_foldl _ _ (by simp [hf]), foldlK_append, pipe_eq_foldl [pipe fs, pipe gs] s (by simp)]
  simp only [foldlK, List.foldl_cons, List.foldl_nil, Res.bind_ok]
  rw [pipe_eq_foldl fs s hf]
  congr 1
  funext x
  exact (pipe_eq_foldl gs x hg).symm

/-- the implementation model and the Spec the oracle (`judge`) evaluates agree on every input -/
theorem C20_compose_pipe_spec (fs : List (Fn α)) (s : List α) :
    compose fs s = Spec.compose fs s ∧ pipe fs s = Spec.pipe fs s := by
  cases fs with
  | nil => exact ⟨rfl, pipe_nil s⟩
  | cons f rest => exact ⟨compose_eq_foldr _ _ (by simp), pipe_eq_foldl _ _ (by simp)⟩

/-! ## Adapters: exactly the bound, then the supplied arguments, in order -/

/-- `MakeVariadicParamN` hands `args[0..N-1]` to `fn` in order, ignores the rest, and panics exactly when
    fewer than `N` are supplied. -/
theorem C20_makeVariadicParam {β : Type} (args : List α) :
    (∀ fn : α → β, makeVariadicParam1 fn args =
      if h : 1 ≤ args.length then .ok (fn args[0]) else .panic) ∧
    (∀ fn : α → α → β, makeVariadicParam2 fn args =
      if h : 2 ≤ args.length then .ok (fn args[0] args[1]) else .panic) ∧
    (∀ fn : α → α → α → β, makeVariadicParam3 fn args =
      if h : 3 ≤ args.length then .ok (fn args[0] args[1] args[2]) else .panic) ∧
    (∀ fn : α → α → α → α → β, makeVariadicParam4 fn args =
      if h : 4 ≤ args.length then .ok (fn args[0] args[1] args[2] args[3]) else .panic) ∧
    (∀ fn : α → α → α → α → α → β, makeVariadicParam5 fn args =
      if h : 5 ≤ args.length then .ok (fn args[0] args[1] args[2] args[3] args[4]) else .panic) ∧
    (∀ fn : α → α → α → α → α → α → β, makeVariadicParam6 fn args =
      if h : 6 ≤ args.length then .ok (fn args[0] args[1] args[2] args[3] args[4] args[5]) else .panic) := by
  refine ⟨?_, ?_, ?_, ?_, ?_, ?_⟩ <;> intro fn
  · rcases args with _ | ⟨a0, _⟩ <;> simp [makeVariadicParam1]
  · rcases args with _ | ⟨a0, _ | ⟨a1, _⟩⟩ <;> simp [makeVariadicParam2]
  · rcases args with _ | ⟨a0, _ | ⟨a1, _ | ⟨a2, _⟩⟩⟩ <;> simp [makeVariadicParam3]
  · rcases args with _ | ⟨a0, _ | ⟨a1, _ | ⟨a2, _ | ⟨a3, _⟩⟩⟩⟩ <;> simp [makeVariadicParam4]
  · rcases args with _ | ⟨a0, _ | ⟨a1, _ | ⟨a2, _ | ⟨a3, _ | ⟨a4, _⟩⟩⟩⟩⟩ <;> simp [makeVariadicParam5]
  · rcases args with _ | ⟨a0, _ | ⟨a1, _ | ⟨a2, _ | ⟨a3, _ | ⟨a4, _ | ⟨a5, _⟩⟩⟩⟩⟩⟩ <;> simp [makeVariadicParam6]

/-- `MakeVariadicReturnN` passes all arguments and returns the N results in order. -/
theorem C20_makeVariadicReturn {β : Type} (args : List α) :
    (∀ fn : List α → β, makeVariadicReturn1 fn args = [fn args]) ∧
    (∀ fn : List α → β × β, makeVariadicReturn2 fn args = [(fn args).1, (fn args).2]) ∧
    (∀ fn : List α → β × β × β, makeVariadicReturn3 fn args = [(fn args).1, (fn args).2.1, (fn args).2.2]) ∧
    (∀ fn : List α → β × β × β × β, makeVariadicReturn4 fn args =
      [(fn args).1, (fn args).2.1, (fn args).2.2.1, (fn args).2.2.2]) ∧
    (∀ fn : List α → β × β × β × β × β, makeVariadicReturn5 fn args =
      [(fn args).1, (fn args).2.1, (fn args).2.2.1, (fn args).2.2.2.1, (fn args).2.2.2.2]) ∧
    (∀ fn : List α → β × β × β × β × β × β, makeVariadicReturn6 fn args =
      [(fn args).1, (fn args).2.1, (fn args).2.2.1, (fn args).2.2.2.1, (fn args).2.2.2.2.1, (fn args).2.2.2.2.2]) :=
  ⟨fun _ => rfl, fun _ => rfl, fun _ => rfl, fun _ => rfl, fun _ => rfl, fun _ => rfl⟩

/-- `CurryParamN(fn, bound…)(supplied…)` calls `fn` with exactly `bound ++ supplied` (stated for an
    `fn` that looks at its whole argument list `g`). -/
theorem C20_curryParam {β : Type} (g : List α → β) (a b c d e f : α) (args : List α) :
    curryParam1 (fun a rest => g (a :: rest)) a args = g ([a] ++ args) ∧
    curryParam1ForSlice1 (fun a rest => g (a :: rest)) a args = g ([a] ++ args) ∧
    curryParam2 (fun a b rest => g (a :: b :: rest)) a b args = g ([a, b] ++ args) ∧
    curryParam3 (fun a b c rest => g (a :: b :: c :: rest)) a b c args = g ([a, b, c] ++ args) ∧
    curryParam4 (fun a b c d rest => g (a :: b :: c :: d :: rest)) a b c d args = g ([a, b, c, d] ++ args) ∧
    curryParam5 (fun a b c d e rest => g (a :: b :: c :: d :: e :: rest)) a b c d e args = g ([a, b, c, d, e] ++ args) ∧
    curryParam6 (fun a b c d e f rest => g (a :: b :: c :: d :: e :: f :: rest)) a b c d e f args
      = g ([a, b, c, d, e, f] ++ args) :=
  ⟨rfl, rfl, rfl, rfl, rfl, rfl, rfl⟩

/-! ## Trampoline -/

/-- `Trampoline` = "iterate the step until the first iterate on which it reports done or an error"
    (error has priority; `hang` when no such iterate exists within the fuel). -/
theorem C20_trampoline (fn : List α → StepOut α) (fuel : Nat) (s : List α) :
    trampoline fn fuel s = Spec.trampoline fn fuel s := by
  induction fuel generalizing s with
  | zero => rfl
  | succ n ih =>
    have hrange : List.range (n + 1) = 0 :: (List.range n).map (· + 1) := by
      rw [List.range_succ_eq_map]
    unfold Spec.trampoline
    rw [hrange, List.find?_cons]
    cases herr : (fn s).err with
    | some e =>
      have : Spec.stops fn s 0 = true := by simp [Spec.stops, Spec.iter, herr]
      simp [trampoline, herr, this, Spec.iter]
    | none =>
      cases hd : (fn s).isDone with
      | true =>
        have : Spec.stops fn s 0 = true := by simp [Spec.stops, Spec.iter, herr, hd]
        simp [trampoline, herr, hd, this, Spec.iter]
      | false =>
        have : Spec.stops fn s 0 = false := by simp [Spec.stops, Spec.iter, herr, hd]
        simp only [trampoline, herr, hd, this, List.find?_map]
        rw [ih (fn s).result]
        unfold Spec.trampoline
        have hcomp : (Spec.stops fn s ∘ fun x => x + 1) = Spec.stops fn (fn s).result := by
          funext k; exact stops_succ fn s k
        simp only [Bool.false_eq_true, if_false, hcomp]
        cases (List.range n).find? (Spec.stops fn (fn s).result) with
        | none => rfl
        | some k => simp [iter_succ']

/-- the result is that of the first stopping iterate `k` (if it is reached within the fuel) -/
theorem C20_trampoline_first_stop (fn : List α → StepOut α) (fuel : Nat) (s : List α) (k : Nat)
    (hk : k < fuel) (hbefore : ∀ j, j < k → Spec.stops fn s j = false) (hstop : Spec.stops fn s k = true) :
    trampoline fn fuel s =
      match (fn (Spec.iter fn s k)).err with
      | some e => .err e
      | none => .ok (fn (Spec.iter fn s k)).result := by
  rw [C20_trampoline]
  unfold Spec.trampoline
  have : (List.range fuel).find? (Spec.stops fn s) = some k := by
    rw [List.find?_eq_some_iff_append]
    refine ⟨hstop, List.range k, (List.range (fuel - k - 1)).map (· + (k + 1)), ?_, ?_⟩
    · have : fuel = k + (1 + (fuel - k - 1)) := by omega
      conv => lhs; rw [this, List.range_add, List.range_add]
      simp [List.map_map, Nat.add_comm, Nat.add_left_comm, Function.comp_def]
    · intro a ha; simp at ha; simp [hbefore a ha]
  rw [this]
  rfl
example : Spec.stops (trStep 3 (-1) 0) [0, 5] 2 = true ∧ Spec.stops (trStep 3 (-1) 0) [0, 5] 1 = false := by decide

/-- no stopping iterate within the fuel: the loop is still running -/
theorem C20_trampoline_runs_on (fn : List α → StepOut α) (fuel : Nat) (s : List α)
    (h : ∀ j, j < fuel → Spec.stops fn s j = false) : trampoline fn fuel s = .hang := by
  rw [C20_trampoline]
  unfold Spec.trampoline
  have : (List.range fuel).find? (Spec.stops fn s) = none := by
    rw [List.find?_eq_none]; intro x hx; simp at hx; simp [h x hx]
  rw [this]

end FpgoVerif.C20
