import FpgoVerif.Model.C20
/-! Property theorems for C20 (none yet). -/
