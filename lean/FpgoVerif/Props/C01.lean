import FpgoVerif.Proofs.C01Clone
import FpgoVerif.Gen.MaybeInventory
/-! Property theorems for C01 — "Maybe: one consistent notion of absence, monad laws, total (never panics)".

    All theorems are about the definitions of `Model/C01Maybe.lean` that the driver executes (`mk`, `just`,
    `justGenerics`, the `MaybeV.*` methods, `cloneTo`), for ALL values `v : GoVal`, both constructors
    (`Ctor.just` = `Maybe.Just`, `Ctor.generics T` = `JustGenerics[T]`), all heaps and all callbacks. -/

set_option linter.unusedSimpArgs false

namespace FpgoVerif.C01
open Spec

local notation "Heap" => List GoVal

/-- Equality of all the observers the property names in its agreement clause (IsNil, IsPresent, Or, Let,
    UnwrapInterface, Type, every conversion, ToString — the latter in the heap `h` in which the comparison is made,
    since `%v` of a pointer to a struct/slice/map prints the pointee).  Defined here so that it cannot be weakened silently. -/
def ObsEq (h : Heap) (m m' : MaybeV) : Prop :=
  m.isNil = m'.isNil ∧ m.isPresent = m'.isPresent ∧ (∀ d, m.or d = m'.or d) ∧
  (∀ (run : Nat → Nat) (s : Nat), m.letRun run s = m'.letRun run s) ∧
  m.unwrapInterface = m'.unwrapInterface ∧ m.type = m'.type ∧
  (∀ c ∈ allConversions, m.conv c = m'.conv c) ∧ m.toStr h = m'.toStr h

/-! The hypotheses `HasTy` (the value is well typed for `JustGenerics[T]`), `PointeeOK` and `WF` (a non-nil pointer
    points to a live cell of its element type) used by `C01_clone` / `C01_total` are defined in
    `Proofs/C01Clone.lean` (the helper lemmas about `Clone`/`CloneTo`/`ToPtr` need them); non-vacuity examples below. -/

/-! ### one notion of absence -/

/-- Construction never panics, and **every observer agrees with the one fact `absent v`**:
    IsNil = absent; IsPresent = ¬IsNil; Or yields the fallback only when absent and otherwise `v` itself; Let runs
    its callback exactly once when present and never when absent; UnwrapInterface / Type / every conversion report
    nil / nil / (0, ErrConversionNil) exactly when absent; an absent value renders as "<nil>". -/
theorem C01_agree (c : Ctor) (v : GoVal) :
    ∃ m, mk c v = .ok m ∧
      m.isNil = absent v ∧
      m.isPresent = !m.isNil ∧
      (∀ d, m.or d = if absent v then d else v) ∧
      (∀ {σ} (run : σ → σ) (s : σ), m.letRun run s = if absent v then s else run s) ∧
      (m.unwrapInterface = if absent v then .nil else v) ∧
      (m.unwrapInterface = .nil ↔ absent v = true) ∧
      (m.type = if absent v then none else typeOf? v) ∧
      (m.type = none ↔ absent v = true) ∧
      (∀ conv ∈ allConversions, (m.conv conv = .errNil ↔ absent v = true)) ∧
      (absent v = true → ∀ h : Heap, m.toStr h = some (hexOfAscii "<nil>")) := by
  refine ⟨built c v, mk_eq c v, ?_⟩
  cases hab : absent v
  · -- present
    have hne : v ≠ .nil := not_absent_ne_nil hab
    have hty : typeOf? v ≠ none := fun h => hne (absent_nil_of_typeOf h)
    cases c <;>
      simp [built, hab, MaybeV.isNil, MaybeV.isPresent, MaybeV.or, MaybeV.letRun, MaybeV.unwrapInterface,
        MaybeV.type, MaybeV.conv, someConv, hne, hty]
  · cases c <;>
      simp [built, hab, MaybeV.isNil, MaybeV.isPresent, MaybeV.or, MaybeV.letRun, MaybeV.unwrapInterface,
        MaybeV.type, MaybeV.conv, someConv, MaybeV.toStr, noneOverrides, allConversions]

example : ∃ m, mk .just (.ptr (.int .int) none) = .ok m ∧ m.isNil = true ∧ m.conv "ToInt8" = .errNil := ⟨_, rfl, rfl, rfl⟩
example : ∃ m, mk (.generics .slice) (.slice .nil) = .ok m ∧ m.isNil = false ∧ m.isPresent = true := ⟨_, rfl, rfl, rfl⟩

/-- "absent renders as <nil>" rests on the `IsNil()` guard of `ToString`, not on `fmt`: handed a typed nil pointer whose
    type has a nil-tolerant `String()` / `Error()` method, `%v` prints that method's text — yet the absent Maybe built
    from it (either constructor) renders as "<nil>" (`C01_agree`, last clause, holds for these `v` as for all others) -/
example :
    fmtV [] 0 (.ptr (.named .node) none) = some (hexOfAscii "[]") ∧
    fmtV [] 0 (.ptr (.named .err) none) = some (hexOfAscii "no error") ∧
    (built (.generics (.ptr (.named .node))) (.ptr (.named .node) none)).toStr [] = some (hexOfAscii "<nil>") ∧
    (built (.generics .any) (.ptr (.named .err) none)).toStr [] = some (hexOfAscii "<nil>") ∧
    (built .just (.ptr (.named .err) none)).toStr [] = some (hexOfAscii "<nil>") := by
  refine ⟨rfl, rfl, rfl, rfl, rfl⟩

/-- `None`, `JustGenerics[any](nil)` and `JustGenerics[*T](nil)`: different representations of absence, same observations -/
theorem C01_absent_obsEq (h : Heap) (c c' : Ctor) (v v' : GoVal) (hv : absent v = true) (hv' : absent v' = true) :
    ObsEq h (built c v) (built c' v') := by
  cases c <;> cases c' <;>
    simp [ObsEq, built, hv, hv', MaybeV.isNil, MaybeV.isPresent, MaybeV.or, MaybeV.letRun, MaybeV.unwrapInterface,
      MaybeV.type, MaybeV.conv, someConv, MaybeV.toStr] <;>
    (intro c hc; revert c; decide)

/-! ### FlatMap and the monad laws -/

/-- `FlatMap(f)` is `f` applied to the wrapped value (for every result type of `f`: pure, panicking, logging …) -/
theorem C01_flatMap {α} (c : Ctor) (v : GoVal) (f : GoVal → α) :
    ∃ m, mk c v = .ok m ∧ m.flatMap f = f (wrapped c v) := by
  refine ⟨built c v, mk_eq c v, ?_⟩
  cases c with
  | just => cases hab : absent v <;> simp [built, wrapped, hab, MaybeV.flatMap, noneBase, MaybeV.ref]
  | generics T => simp [built, wrapped, MaybeV.flatMap]

/-- The same agreement stated on `observe`, the function the driver runs for every op token: for the observers the
    property names, the observation is the `Spec` value — a function of `absent v` and `v` alone. -/
theorem C01_observe_spec {α} (c : Ctor) (v : GoVal) (h : Heap) :
    ∃ m, mk c v = .ok m ∧
      observe (α := α) h m .isNil = .ok (h, .bool (Spec.isNil v)) ∧
      observe (α := α) h m .isPresent = .ok (h, .bool (Spec.isPresent v)) ∧
      (∀ d, observe (α := α) h m (.or d) = .ok (h, .val (Spec.or v d))) ∧
      observe (α := α) h m .letRun = .ok (h, .count (Spec.letCount v)) ∧
      observe (α := α) h m .unwrapInterface = .ok (h, .val (Spec.unwrapInterface v)) ∧
      observe (α := α) h m .type = .ok (h, .type (Spec.type v)) ∧
      (∀ cv ∈ allConversions, observe (α := α) h m (.conv cv) = .ok (h, .conv (Spec.conv v))) ∧
      (absent v = true → observe (α := α) h m .toString = .ok (h, .str (some Spec.nilString))) ∧
      (∀ f : GoVal → R α, observe h m (.flatMap f) = (f (wrapped c v)).map (fun r => (h, .res r))) := by
  obtain ⟨m, hm, h1, h2, h3, h4, h5, _, h7, _, h9, h10⟩ := C01_agree c v
  refine ⟨m, hm, ?_, ?_, ?_, ?_, ?_, ?_, ?_, ?_, ?_⟩
  · simp [observe, h1, Spec.isNil, pure, Except.pure]
  · simp [observe, h2, h1, Spec.isPresent, pure, Except.pure]
  · intro d; simp [observe, h3, Spec.or, pure, Except.pure]
  · have h4' := h4 (σ := Nat) (· + 1) 0
    simp only [observe, h4', Spec.letCount, pure, Except.pure]
    try (cases absent v <;> rfl)
  · simp [observe, h5, Spec.unwrapInterface, pure, Except.pure]
  · simp [observe, h7, Spec.type, pure, Except.pure]
  · intro cv hcv
    have := h9 cv hcv
    simp only [observe, Spec.conv, pure, Except.pure]
    cases hab : absent v <;> cases hc : m.conv cv <;> simp_all
  · intro hab; simp [observe, h10 hab h, Spec.nilString, pure, Except.pure]
  · intro f
    obtain ⟨m2, hm2, hf2⟩ := C01_flatMap c v f
    rw [hm] at hm2; cases hm2
    simp only [observe, hf2, bind, Except.bind, Except.map, pure, Except.pure]
    try (cases f (wrapped c v) <;> rfl)

/-- Left identity `Just(a).FlatMap(f) = f(a)`: exact for `JustGenerics[T]`, and for `Maybe.Just` whenever `a` is not
    a typed nil pointer.  (`Maybe.Just` maps a typed nil pointer to `None`, whose wrapped value is the untyped nil:
    there `Just(a).FlatMap(f) = f(nil)` — the first conjunct of `C01_flatMap` with `wrapped`.) -/
theorem C01_left_identity {α} (c : Ctor) (a : GoVal) (f : GoVal → α)
    (h : c = .just → ∀ t, a ≠ .ptr t none) :
    ∃ m, mk c a = .ok m ∧ m.flatMap f = f a := by
  obtain ⟨m, hm, hf⟩ := C01_flatMap c a f
  refine ⟨m, hm, ?_⟩
  rw [hf]
  cases c with
  | generics T => rfl
  | just =>
    cases a with
    | ptr t p => cases p with
      | none => exact absurd rfl (h rfl t)
      | some p => rfl
    | _ => rfl

example : ∀ t, (GoVal.int .int 5) ≠ .ptr t none := by intro t h; cases h

/-- Right identity `m.FlatMap(Just) ≈ m`, for every constructor `c'` of the same instantiation as `m` (the only ones
    `FlatMap`'s signature admits): the result is observationally equal to `m`, and identical when `c' = c`. -/
theorem C01_right_identity (c c' : Ctor) (v : GoVal) (hp : c'.param = c.param) :
    ∃ m m', mk c v = .ok m ∧ m.flatMap (mk c') = .ok m' ∧ (∀ h, ObsEq h m' m) ∧ (c' = c → m' = m) := by
  refine ⟨built c v, built c' (wrapped c v), mk_eq c v, ?_, ?_, ?_⟩
  · obtain ⟨m, hm, hf⟩ := C01_flatMap c v (mk c')
    rw [mk_eq] at hm; cases hm; rw [hf, mk_eq]
  · cases hab : absent v
    · -- present: both are `some T v false true`
      have hw : wrapped c v = v := by cases c <;> simp [wrapped, hab]
      have hb : built c' v = built c v := by
        cases c <;> cases c' <;> simp_all [built, Ctor.param]
      rw [hw, hb]; exact fun h => ⟨rfl, rfl, fun _ => rfl, fun _ _ => rfl, rfl, rfl, fun _ _ => rfl, rfl⟩
    · have hw : absent (wrapped c v) = true := by
        cases c with
        | just => simp only [wrapped, hab]; rfl
        | generics T => exact hab
      exact fun h => C01_absent_obsEq h c' c _ _ hw hab
  · intro e; subst e
    cases c' with
    | just =>
      cases hab : absent v
      · simp only [built, wrapped, hab]; simp [hab]
      · simp only [built, wrapped, hab]; rfl
    | generics T => simp [built, wrapped]

example : (Ctor.generics .any).param = Ctor.just.param := rfl

/-- Associativity, for callbacks that may panic (`R`) … -/
theorem C01_assoc (m : MaybeV) (f g : GoVal → R MaybeV) :
    (do let r ← m.flatMap f; r.flatMap g) = m.flatMap (fun x => do let r ← f x; r.flatMap g) := by
  cases m <;> rfl

/-- … and for pure callbacks. -/
theorem C01_assoc_pure (m : MaybeV) (f g : GoVal → MaybeV) :
    (m.flatMap f).flatMap g = m.flatMap (fun x => (f x).flatMap g) := by
  cases m <;> rfl

/-! ### ToMaybe flattens exactly one level -/

/-- `ToMaybe` of a Maybe wrapping a Maybe `m'` of the same instantiation is `m'` itself (not `m'.ToMaybe()`:
    exactly one level); wrapping anything else — or nothing — it is the receiver. -/
theorem C01_toMaybe (c : Ctor) (v : GoVal) :
    ∃ m, mk c v = .ok m ∧
      m.toMaybe = (if absent v then m else (innerMaybe? c.param v).getD m) := by
  refine ⟨built c v, mk_eq c v, ?_⟩
  cases hab : absent v
  · cases c with
    | just =>
      cases v <;> simp_all [built, absent, MaybeV.toMaybe, innerMaybe?, Ctor.param, typeOf?, implementsTy, asMaybe?]
      case some T r n p => by_cases hT : T = .any <;> simp [hT, eq_comm]
    | generics T =>
      cases v <;> simp_all [built, absent, MaybeV.toMaybe, innerMaybe?, Ctor.param, typeOf?, implementsTy, asMaybe?]
      case some T' r n p => by_cases hT : T' = T <;> simp [hT]
      case none => by_cases hT : T = .any <;> simp [hT]
  · cases c <;> simp [built, hab, MaybeV.toMaybe]

/-- The flattening case spelled out with the constructors: `Maybe.Just(m').ToMaybe() = m'` and
    `JustGenerics[any](m').ToMaybe() = m'` for every `m' : MaybeDef[any]` (`None` included). -/
theorem C01_toMaybe_flattens (c : Ctor) (hc : c.param = .any) (m' : MaybeV) (hm' : m'.param = .any) :
    ∃ m, mk c m'.toVal = .ok m ∧ m.toMaybe = m' := by
  obtain ⟨m, hm, ht⟩ := C01_toMaybe c m'.toVal
  refine ⟨m, hm, ?_⟩
  rw [ht, hc]
  cases m' with
  | none => simp [MaybeV.toVal, absent, innerMaybe?]
  | some T r n p =>
    simp [MaybeV.param] at hm'
    subst hm'
    simp [MaybeV.toVal, absent, innerMaybe?]

/-- exactly one level: a Maybe nested twice loses one level, not two -/
example :
    (built .just (built .just (built .just (.int .int 5)).toVal).toVal).toMaybe = built .just (built .just (.int .int 5)).toVal ∧
    (built .just (built .just (built .just (.int .int 5)).toVal).toVal).toMaybe ≠ built .just (.int .int 5) := by
  constructor <;> decide

/-! ### Clone -/

/-- `Clone` never panics and returns an equal Maybe: the very same Maybe when `v` is not a non-nil pointer; when it
    is, the Maybe built from a *fresh* pointer — an address distinct from `v`'s and from every address in use —
    whose target is an equal copy of `v`'s target (so IsNil/IsPresent/Type/conversions coincide and ToString coincides
    in the resulting heap), and no existing cell is modified. -/
theorem C01_clone (c : Ctor) (v : GoVal) (h : Heap) (hty : HasTy c.param v) (hwf : WF h v) :
    ∃ m h' m', mk c v = .ok m ∧ m.clone h = .ok (h', m') ∧
      m'.param = m.param ∧ m'.isNil = m.isNil ∧ m'.isPresent = m.isPresent ∧ m'.type = m.type ∧
      (∀ cv, m'.conv cv = m.conv cv) ∧ m'.toStr h' = m.toStr h' ∧
      (∀ b, b < h.length → h'[b]? = h[b]?) ∧
      (match v with
       | .ptr t (some a) => m' = built c (.ptr t (some h.length)) ∧ h.length ≠ a ∧ h'[h.length]? = h[a]? ∧ a < h.length
       | _ => m' = m ∧ h' = h ∧ ObsEq h' m' m) := by
  refine ⟨built c v, ?_⟩
  by_cases hp : ∃ t a, v = .ptr t (some a)
  · obtain ⟨t, a, rfl⟩ := hp
    have hab : absent (.ptr t (some a)) = false := rfl
    have himp : implementsTy c.param (.ptr t (some a)) = true := by
      rcases hty with h1 | ⟨h1, _⟩
      · exact h1
      · cases h1
    have hb : ∀ a', built c (.ptr t (some a')) = .some c.param (.ptr t (some a')) false true := by
      intro a'; cases c <;> simp [built, absent, Ctor.param]
    obtain ⟨x, hx, hok⟩ := hwf t a rfl
    have ha : a < h.length := by
      rcases Nat.lt_or_ge a h.length with h1 | h1
      · exact h1
      · rw [List.getElem?_eq_none h1] at hx; cases hx
    have himp' : implementsTy c.param (.ptr t (some h.length)) = true := by
      rw [implementsTy_ptr _ _ _ (some a)]; exact himp
    have hfr : ∀ b, b < h.length → ((h ++ [zeroOf t]).set h.length x)[b]? = h[b]? := by
      intro b hb'
      rw [List.getElem?_set_ne (by omega), List.getElem?_append_left hb']
    have hnew : ((h ++ [zeroOf t]).set h.length x)[h.length]? = some x := by simp
    refine ⟨(h ++ [zeroOf t]).set h.length x, built c (.ptr t (some h.length)), mk_eq c _, ?_, ?_, ?_, ?_, ?_, ?_, ?_, hfr, ?_⟩
    · rw [hb, hb]
      cases hif : isIfaceTy t
      · have hxt : typeOf? x = some t := by simpa [PointeeOK, hif] using hok
        have hz : typeOf? (zeroOf t) = some t := by
          cases x <;> simp [typeOf?] at hxt <;> subst hxt <;> rfl
        simp [MaybeV.clone, cloneTo, MaybeV.isNil, MaybeV.unwrap, valueOf, RV.kind, kindOf, RV.elem, hx, RV.type, hif,
          hxt, rvNew, RV.set, hz, bind, Except.bind, pure, Except.pure]
        cases hT : c.param <;>
          simp [zeroOf, valueOf, RV.kind, kindOf, RV.isNil, RV.interface, assertTy, hT ▸ himp', justGenerics_eq, absent,
            bind, Except.bind, pure, Except.pure]
      · simp [MaybeV.clone, cloneTo, MaybeV.isNil, MaybeV.unwrap, valueOf, RV.kind, kindOf, RV.elem, hx, RV.type, hif,
          rvNew, RV.set, bind, Except.bind, pure, Except.pure]
        cases hT : c.param <;>
          simp [zeroOf, valueOf, RV.kind, kindOf, RV.isNil, RV.interface, assertTy, hT ▸ himp', justGenerics_eq, absent,
            bind, Except.bind, pure, Except.pure]
    · rw [hb, hb]; rfl
    · rw [hb, hb]; rfl
    · rw [hb, hb]; rfl
    · rw [hb, hb]; rfl
    · intro cv; rw [hb, hb]; rfl
    · rw [hb, hb]
      simp only [MaybeV.toStr, Bool.false_eq_true, if_false, fmtV, hnew, hfr a ha, hx]
    · exact ⟨rfl, by omega, by rw [hnew, hx], ha⟩
  · have hnp : ∀ t a, v ≠ .ptr t (some a) := fun t a e => hp ⟨t, a, e⟩
    refine ⟨h, built c v, mk_eq c v, clone_nonptr c v h hty hnp, rfl, rfl, rfl, rfl, fun _ => rfl, rfl, fun _ _ => rfl, ?_⟩
    cases v with
    | ptr t p =>
      cases p with
      | none => exact ⟨rfl, rfl, ⟨rfl, rfl, fun _ => rfl, fun _ _ => rfl, rfl, rfl, fun _ _ => rfl, rfl⟩⟩
      | some a => exact absurd rfl (hnp t a)
    | _ => exact ⟨rfl, rfl, ⟨rfl, rfl, fun _ => rfl, fun _ _ => rfl, rfl, rfl, fun _ _ => rfl, rfl⟩⟩

/-- non-vacuity: a heap with one int cell and a pointer to it satisfy the hypotheses, for both constructors -/
example : HasTy (Ctor.generics (.ptr (.int .int))).param (.ptr (.int .int) (some 0)) ∧ HasTy Ctor.just.param (.ptr (.int .int) (some 0))
    ∧ WF [.int .int 7] (.ptr (.int .int) (some 0)) :=
  ⟨Or.inl rfl, Or.inl rfl, fun t a e => by cases e; exact ⟨_, rfl, rfl⟩⟩

/-- non-vacuity for a pointer to an `interface{}` variable (holding an int, or nil) -/
example : WF [.int .int 7, .nil] (.ptr .any (some 0)) ∧ WF [.int .int 7, .nil] (.ptr .any (some 1)) :=
  ⟨fun t a e => by cases e; exact ⟨_, rfl, Or.inr rfl⟩, fun t a e => by cases e; exact ⟨_, rfl, Or.inl rfl⟩⟩

/-! ### totality -/

/-- what a caller must respect for the two observers that take more than a plain value: a `FlatMap` callback that
    itself returns, and a `CloneTo` destination that is a live pointer of the same pointer type as `v` (or nil /
    no pointer at all).  Every other observer is unconditional. -/
def ArgOK {α} (v : GoVal) (h : Heap) : Observer α → Prop
  | .cloneTo d => WF h d ∧ ∀ t a t' b, v = .ptr t (some a) → d = .ptr t' (some b) → t' = t
  | .flatMap f => ∀ x, ∃ r, f x = .ok r
  | _ => True

/-- **No observer panics, for any `v`, with both constructors**: construction, every method of `MaybeDef[T]`, the
    extra `To*` methods and `CloneTo` all return — although the model of `reflect` panics on `IsNil` of a non-nillable
    kind, on `Elem`/`Interface`/`Type` of the zero Value, on `Set` of an unaddressable or differently typed Value, and a
    failed type assertion panics. -/
theorem C01_total {α} (c : Ctor) (v : GoVal) (h : Heap) (o : Observer α)
    (hty : HasTy c.param v) (hwf : WF h v) (harg : ArgOK v h o) :
    ∃ m, mk c v = .ok m ∧ ∃ r, observe h m o = .ok r := by
  refine ⟨built c v, mk_eq c v, ?_⟩
  cases o with
  | toPtr =>
    obtain ⟨r, hr⟩ := toPtr_ok c v h hwf
    exact ⟨_, by simp [observe, hr, bind, Except.bind]; rfl⟩
  | clone =>
    obtain ⟨m, h', m', hm, hc, _⟩ := C01_clone c v h hty hwf
    rw [mk_eq] at hm; cases hm
    exact ⟨_, by simp [observe, hc, bind, Except.bind]; rfl⟩
  | cloneTo d =>
    have hr : ∃ r, cloneTo h (built c v).param (built c v) d = .ok r := by
      rw [built_param]
      by_cases hp : ∃ t a, v = .ptr t (some a)
      · obtain ⟨t, a, rfl⟩ := hp
        obtain ⟨x, hx, hxt⟩ := hwf t a rfl
        have himp : implementsTy c.param (.ptr t (some a)) = true := by
          rcases hty with h1 | ⟨h1, _⟩
          · exact h1
          · cases h1
        have hb : built c (.ptr t (some a)) = .some c.param (.ptr t (some a)) false true := by
          cases c <;> simp [built, absent, Ctor.param]
        rw [hb]
        exact cloneTo_ptr_ok _ t a h d x hx hxt himp harg.1 (fun t' b e => harg.2 t a t' b rfl e)
      · exact cloneTo_nonptr c v d h hty (fun t a e => hp ⟨t, a, e⟩)
    obtain ⟨r, hr⟩ := hr
    exact ⟨_, by simp [observe, hr, bind, Except.bind]; rfl⟩
  | just x => exact ⟨_, by simp [observe, MaybeV.justM, just_eq, bind, Except.bind]; rfl⟩
  | flatMap f =>
    obtain ⟨r, hr⟩ := harg ((built c v).ref)
    have : (built c v).flatMap f = f (built c v).ref := by cases built c v <;> rfl
    exact ⟨_, by simp [observe, this, hr, bind, Except.bind]; rfl⟩
  | _ => exact ⟨_, rfl⟩

/-- non-vacuity of the hypotheses: cloning a live `*int` into another live `*int` -/
example : ArgOK (α := MaybeV) (.ptr (.int .int) (some 0)) [.int .int 7, .int .int 9] (.cloneTo (.ptr (.int .int) (some 1))) :=
  ⟨fun t a e => by cases e; exact ⟨_, rfl, rfl⟩, fun t a t' b e e' => by cases e; cases e'; rfl⟩

/-- the guards matter: the same `reflect` calls without them do panic in the model (the pinned, pre-fix `ToPtr`
    called `Interface()` on the zero Value for a typed nil pointer) -/
example : (do let ind ← indirect [] (valueOf (.ptr (.int .int) none)); ind.interface : R GoVal) =
    .error "reflect: call of reflect.Value.Interface on zero Value" := rfl
example : (valueOf (.int .int 3)).isNil = .error "reflect: call of reflect.Value.IsNil on a non-nillable Value" := rfl

/-! ### closing theorems over the inventory regenerated from maybe.go on every run (`Gen/MaybeInventory.lean`) -/

/-- every method of the interface `MaybeDef` is a method of `someDef` that the model has and the harness exercises -/
theorem C01_gen_interface_observed :
    Gen.maybeDefMethods.all someDefMethodNames.contains = true := by decide

/-- `someDef[T]` has exactly the methods the model mirrors -/
theorem C01_gen_someDef_methods :
    sameSet (Gen.someDefMethods.map (·.1)) someDefMethodNames = true := by decide

/-- `noneDef` overrides exactly the methods listed in `noneOverrides` (all others are promoted from the embedded
    `someDef[interface{}]`, as the `none` branches of the model assume), each with the one-line body the model mirrors -/
theorem C01_gen_none_overrides :
    sameSet (Gen.noneDefMethods.map (·.1)) noneOverrides = true ∧
    Gen.noneDefMethods.all noneBodies.contains = true ∧ noneBodies.all Gen.noneDefMethods.contains = true := by decide

/-- every conversion of `someDef` starts with `if IsNil() { return zero, ErrConversionNil }` (or delegates to one that
    does) and `ErrConversionNil` is mentioned nowhere else in `someDef`'s methods: what `someConv` abstracts -/
theorem C01_gen_conversions_guarded :
    allConversions.all (fun c => Gen.someDefMethods.any (fun e => e.1 == c && convEntryOK e)) = true ∧
    Gen.someDefMethods.all (fun e => allConversions.contains e.1 || e.2.2.1 == 0) = true := by decide

end FpgoVerif.C01
