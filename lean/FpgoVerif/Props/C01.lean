import FpgoVerif.Model.C01
/-! Property theorems for C01 (none yet). -/
