import FpgoVerif.Proofs.C04SSet
import FpgoVerif.Gen.StreamEffects
/-! Property theorems for C04 — Stream / Set / StreamSet are persistent.

    All statements are about the definitions the driver executes (`step`/`exec` of `Model/C04Proto`, the
    world operations of `Model/C04World`), for BOTH families (`iface : Bool`), every operation of the
    alphabet, all operands, all element lists, all indices.

    * `Inv st`      — the world is well-formed (no dangling reference) and every live handle is valid;
    * `Le w w'`     — `w'` extends `w`: all backing arrays, stream cells, map objects and set cells of `w` are
                      still there, unchanged (objects were only added);
    * `content w h` — the elements a handle denotes (arrays: shown part and the part up to cap; streams: the
                      sequence; sets: key-sorted entries, stream values by their sequence). -/
namespace FpgoVerif.C04
open World

/-- Well-formedness and validity of all live handles are preserved by EVERY operation (mutators and
    out-of-range / nil / ill-typed operands included). -/
theorem C04_step_inv (iface : Bool) {st : State} (hi : Inv st) (op : Op) : Inv (step iface st op).1 := by
  have h := exec_ok iface hi op
  unfold step
  cases hr : exec iface st op with
  | err e => simpa using hi
  | ok w new out =>
    rw [hr] at h
    refine ⟨h.1, ?_⟩
    intro e he
    simp only [List.mem_append] at he
    rcases he with he | he
    · exact Handle.ok_grow h.2.1 (hi.env e he)
    · exact h.2.2.1 e (by simpa using he)

/-- One step of persistence: an operation that is not a documented mutator (`Set`, interface{} `Remove`)
    nor a write of the caller through its own slice only ADDS objects to the world. -/
theorem C04_step_extends (iface : Bool) {st : State} (hi : Inv st) (op : Op) (hm : op.isMutator iface = false) :
    Le st.w (step iface st op).1.w := by
  have h := exec_ok iface hi op
  unfold step
  cases hr : exec iface st op with
  | err e => exact Le.refl _
  | ok w new out => rw [hr] at h; exact h.2.2.2 hm

/-- … hence the receiver, the arguments and all earlier results — every live handle, and indeed every valid
    handle whether or not it is still named — hold exactly the elements they held before. -/
theorem C04_step_persistent (iface : Bool) {st : State} (hi : Inv st) (op : Op) (hm : op.isMutator iface = false)
    {x : Handle} (hx : x.ok st.w) : content (step iface st op).1.w x = content st.w x :=
  content_le hi.wf (C04_step_extends iface hi op hm) hx

/-- every state reachable by any program from the empty state satisfies the invariant -/
theorem C04_reachable_inv (iface : Bool) (ops : List Op) {st : State} (hi : Inv st) : Inv (run iface st ops) := by
  induction ops generalizing st with
  | nil => exact hi
  | cons o t ih => exact ih (C04_step_inv iface hi o)

/-- persistence across a block of non-mutating operations, from any invariant state -/
theorem C04_run_persistent (iface : Bool) (mid : List Op) (hmid : ∀ o ∈ mid, o.isMutator iface = false) :
    ∀ {st : State}, Inv st → ∀ {x : Handle}, x.ok st.w → content (run iface st mid).w x = content st.w x := by
  induction mid with
  | nil => intro st _ x _; rfl
  | cons o t ih =>
    intro st hi x hx
    have ho := hmid o (List.mem_cons_self ..)
    have hi' := C04_step_inv iface hi o
    have hx' : x.ok (step iface st o).1.w := Handle.ok_le (C04_step_extends iface hi o ho) hx
    have := ih (fun o' h' => hmid o' (List.mem_cons_of_mem _ h')) hi' hx'
    simp only [run, List.foldl_cons] at this ⊢
    rw [this]
    exact C04_step_persistent iface hi o ho hx

/-- Persistence over operation histories: after ANY program `pre` (mutators included), every handle that is
    live keeps its contents across ANY continuation made of non-mutating operations — each earlier
    collection after every later operation. -/
theorem C04_program (iface : Bool) (pre mid : List Op) (hmid : ∀ o ∈ mid, o.isMutator iface = false)
    {x : Handle} (hx : x.ok (run iface State.init pre).w) :
    content (run iface State.init (pre ++ mid)).w x = content (run iface State.init pre).w x := by
  have hpre := C04_reachable_inv iface pre Inv.init
  have hrun : run iface State.init (pre ++ mid) = run iface (run iface State.init pre) mid := by
    simp [run, List.foldl_append]
  rw [hrun]
  exact C04_run_persistent iface mid hmid hpre hx

/-- all live handles of a reachable state are valid (so `C04_program` applies to each of them) -/
theorem C04_live_handles_valid (iface : Bool) (pre : List Op) :
    ∀ e ∈ (run iface State.init pre).env, e.2.ok (run iface State.init pre).w :=
  (C04_reachable_inv iface pre Inv.init).env

/-! ### the documented mutators -/

/-- `Set` on a set / stream set touches map objects only: every array and every stream keeps its elements. -/
theorem C04_set_touches_maps_only {w w' : World} (hw : Wf w) {p : Nat} {k : Int} {v : Val} (hv : valOk w v)
    (h : w.setSet p k v = some w') : w'.arrs = w.arrs ∧ w'.strs = w.strs ∧ w'.sets = w.sets ∧ Wf w' :=
  let r := setSet_wf hw hv h; ⟨r.2.1, r.2.2.1, r.2.2.2, r.1⟩

/-- `Set` stores exactly the given entry in the receiver's map (the receiver is the only set cell written —
    other set cells change only if they hold the same map object). -/
theorem C04_set_result {w w' : World} {p r : Nat} {k : Int} {v : Val} (hr : w.sets.getD p none = some r)
    (hlt : r < w.maps.length) (h : w.setSet p k v = some w') : w'.setMap p = Spec.insert k v (w.setMap p) := by
  unfold setSet at h
  rw [hr] at h
  cases h
  have hr' : w.sets[p]?.getD none = some r := by simpa [List.getD_eq_getElem?_getD] using hr
  simp [setMap, writeMap, mapAt, List.getD_eq_getElem?_getD, List.getElem?_set, hlt, hr']

/-- a write of the caller through one of its slices changes one backing array only: slices over any other
    array (in particular every `ToArray` result, see `C04_toArray_detached`) are not affected -/
theorem C04_write_touches_one_array (w : World) (a pos : Nat) (l : List Int) {s : Slice} (hs : s.arr ≠ a) :
    (w.writeArr a pos l).sliceContent s = w.sliceContent s := by
  simp [sliceContent, arrAt, writeArr, List.getD_eq_getElem?_getD, List.getElem?_set, Ne.symm hs]

/-- interface{} `Remove(i)` returns its receiver (same cell), keeps the world well-formed, creates no
    stream cell and touches no set cell. -/
theorem C04_ifaceRemove_returns_receiver {w : World} (hw : Wf w) {p : Nat} (hp : p < w.strs.length) (i : Int) :
    (w.strRemoveI p i).2 = p ∧ Wf (w.strRemoveI p i).1 ∧ (w.strRemoveI p i).1.sets = w.sets :=
  let r := strRemoveI_wf hw hp i; ⟨r.2.1, r.1, r.2.2.2.1⟩

/-- interface{} `Remove(i)` writes at most ONE existing backing array — the receiver's — and ONE stream cell —
    the receiver: every other array (hence every slice/stream over another array) and every other stream
    header is exactly what it was; map objects and set cells are not touched at all. -/
theorem C04_ifaceRemove_frame (w : World) (p : Nat) (i : Int) :
    (∀ a, a ≠ (w.strHdr p).arr → a < w.arrs.length → (w.strRemoveI p i).1.arrAt a = w.arrAt a) ∧
    (∀ q, q ≠ p → (w.strRemoveI p i).1.strHdr q = w.strHdr q) ∧
    (w.strRemoveI p i).1.maps = w.maps ∧ (w.strRemoveI p i).1.sets = w.sets := by
  unfold strRemoveI
  simp only
  split
  · unfold appendSlice
    split
    · refine ⟨?_, ?_, rfl, rfl⟩
      · intro a ha _
        simp [setStrHdr, writeArr, arrAt, List.getD_eq_getElem?_getD, Ne.symm ha]
      · intro q hq
        simp [setStrHdr, writeArr, strHdr, List.getD_eq_getElem?_getD, Ne.symm hq]
    · refine ⟨?_, ?_, rfl, rfl⟩
      · intro a _ hlt
        simp [setStrHdr, allocArr, arrAt, List.getD_eq_getElem?_getD, List.getElem?_append_left hlt]
      · intro q hq
        simp [setStrHdr, allocArr, strHdr, List.getD_eq_getElem?_getD, Ne.symm hq]
  · exact ⟨fun _ _ _ => rfl, fun _ _ => rfl, rfl, rfl⟩

/-! ### network/simpleHTTP.go: the interceptor list is used persistently -/

/-- `AddInterceptor` / `RemoveInterceptor` / `ClearInterceptor` on instance `p` (for any interceptor list) leave
    every existing backing array unchanged — in particular the caller's slice the instance was built from, up to
    its capacity — and every other instance (stream cell) with its elements, also one built from the same slice. -/
theorem C04_http_instances_independent {w : World} (hw : Wf w) {p : Nat} (hp : p < w.strs.length) (ids : List Int) :
    ∀ w' ∈ [w.httpAdd p ids, w.httpRemove p ids, w.httpClear p],
      (∀ s : Slice, s.arr < w.arrs.length → w'.sliceContent s = w.sliceContent s ∧ w'.sliceHidden s = w.sliceHidden s) ∧
      (∀ q, q < w.strs.length → q ≠ p → w'.strContent q = w.strContent q) ∧ Wf w' := by
  intro w' hw'
  have f : HFrame w w' p := by
    simp only [List.mem_cons, List.mem_singleton, List.not_mem_nil, or_false] at hw'
    rcases hw' with rfl | rfl | rfl
    · exact httpAdd_frame ids hw hp
    · exact httpRemove_frame ids hw hp
    · exact httpClear_frame hw p
  have harr : ∀ a, a < w.arrs.length → w'.arrAt a = w.arrAt a := fun a ha => getD_of_prefix f.arrs ha _
  refine ⟨fun s hs => ⟨by simp [sliceContent, harr _ hs], by simp [sliceHidden, harr _ hs]⟩, ?_, f.wf⟩
  intro q hq hne
  unfold strContent
  rw [f.strs q hq hne]
  simp [sliceContent, harr _ (strHdr_arr_lt hw q)]

/-! ### Set operations: the map the result holds, and what that map means key by key -/

/-- For every Set operation the map held by the RESULT handle is the `Spec` map function of the maps held by the
    receiver and the argument (`argMap`: a nil argument has no entries).  The statements are uniform over the
    "returns the receiver itself" cases (no items / nil or empty argument), where the function is the identity. -/
theorem C04_set_results (w : World) (p : Nat) :
    ((w.setClone p).1.setMap (w.setClone p).2 = w.setMap p) ∧
    (∀ f, (w.setMapKey p f).1.setMap (w.setMapKey p f).2 = Spec.mapKeys f (w.setMap p)) ∧
    (∀ f, (w.setMapVal p f).1.setMap (w.setMapVal p f).2 = Spec.mapVals f (w.setMap p)) ∧
    (∀ zero items, (w.setAdd p zero items).1.setMap (w.setAdd p zero items).2
        = items.foldl (fun m k => Spec.insertIfAbsent k zero m) (w.setMap p)) ∧
    (∀ items, (w.setRemoveKeys p items).1.setMap (w.setRemoveKeys p items).2 = Spec.removeKeys (w.setMap p) items) ∧
    (∀ vals, (w.setRemoveValues p vals).1.setMap (w.setRemoveValues p vals).2
        = (w.setMap p).filter (fun kv => !vals.contains kv.2)) ∧
    (∀ q, (w.setUnion p q).1.setMap (w.setUnion p q).2 = Spec.merge (w.setMap p) (argMap w q)) ∧
    (∀ q, (w.setInter p q).1.setMap (w.setInter p q).2 = Spec.interByKey (w.setMap p) (argMap w q)) ∧
    (∀ q, (w.setMinus p q).1.setMap (w.setMinus p q).2 = Spec.minusByKey (w.setMap p) (argMap w q)) := by
  refine ⟨setMap_newSet _ _, fun _ => setMap_newSet _ _, fun _ => setMap_newSet _ _, ?_, ?_, ?_, ?_, ?_, ?_⟩
  · intro zero items
    unfold setAdd; split
    · rename_i h; rw [isEmpty_eq_nil h]; rfl
    · exact setMap_newSet _ _
  · intro items
    unfold setRemoveKeys; split
    · rename_i h; rw [isEmpty_eq_nil h]; simp [Spec.removeKeys, filter_const_true]
    · exact setMap_newSet _ _
  · intro vals
    unfold setRemoveValues; split
    · rename_i h; rw [isEmpty_eq_nil h]; simp [filter_const_true]
    · exact setMap_newSet _ _
  · intro q
    cases q with
    | none => rfl
    | some q =>
      simp only [setUnion, argMap]; split
      · rename_i h; rw [isEmpty_eq_nil h]; rfl
      · exact setMap_newSet _ _
  · intro q
    cases q with
    | none => simp [setInter, argMap, setMap_newNilSet, Spec.interByKey, Spec.hasKey, Spec.lookup]
    | some q =>
      simp only [setInter, argMap]; split
      · rename_i h; rw [isEmpty_eq_nil h]
        simp [setMap_newNilSet, Spec.interByKey, Spec.hasKey, Spec.lookup]
      · exact setMap_newSet _ _
  · intro q
    cases q with
    | none => simp [setMinus, argMap, Spec.minusByKey, Spec.hasKey, Spec.lookup, filter_const_true]
    | some q =>
      simp only [setMinus, argMap]; split
      · rename_i h; rw [isEmpty_eq_nil h]; simp [Spec.minusByKey, Spec.hasKey, Spec.lookup, filter_const_true]
      · exact setMap_newSet _ _

/-- Key/value meaning of those map functions (`Spec.lookup k m` = the value stored under `k`, if any):
    * `Set`/assignment: the assigned key reads the new value, every other key is unchanged;
    * `Add`: present keys keep their value, missing items get the zero value, nothing else appears;
    * `Union` (`Merge`): the ARGUMENT's value wins on common keys (its last assignment, `reverse`), other keys of
      either side are kept;
    * `RemoveKeys` / `Intersection` / `Minus`: exactly the receiver's entries whose key is not listed / is / is not
      a key of the argument, with the receiver's values;
    * `MapValue`: same keys, transformed values;
    * `RemoveValues`: exactly the receiver's entries whose value is not listed. -/
theorem C04_map_laws {β : Type} [BEq β] (k : Int) (m m₂ : List (Int × β)) :
    (∀ k' v, Spec.lookup k (Spec.insert k' v m) = if k' = k then some v else Spec.lookup k m) ∧
    (∀ (zero : β) (items : List Int), Spec.lookup k (items.foldl (fun m k => Spec.insertIfAbsent k zero m) m)
        = match Spec.lookup k m with
          | some x => some x
          | none => if items.contains k then some zero else none) ∧
    (Spec.lookup k (Spec.merge m m₂) = match Spec.lookup k m₂.reverse with
          | some v => some v
          | none => Spec.lookup k m) ∧
    (∀ ks, Spec.lookup k (Spec.removeKeys m ks) = if ks.contains k then none else Spec.lookup k m) ∧
    (Spec.lookup k (Spec.interByKey m m₂) = if Spec.hasKey k m₂ then Spec.lookup k m else none) ∧
    (Spec.lookup k (Spec.minusByKey m m₂) = if Spec.hasKey k m₂ then none else Spec.lookup k m) ∧
    (∀ f, Spec.lookup k (Spec.mapVals f m) = (Spec.lookup k m).map f) ∧
    (∀ (vals : List β) kv, kv ∈ m.filter (fun kv => !vals.contains kv.2) ↔ kv ∈ m ∧ vals.contains kv.2 = false) :=
  ⟨fun k' v => Spec.lookup_insert k k' v m, fun zero items => Spec.lookup_add k zero items m,
   Spec.lookup_merge k m m₂, Spec.lookup_removeKeys k m, Spec.lookup_interByKey k m m₂,
   Spec.lookup_minusByKey k m m₂, fun f => Spec.lookup_mapVals k f m,
   fun vals kv => by simp [List.mem_filter]⟩

/-! ### Sort / SortByIndex -/

/-- `Sort(cmp)` and `SortByIndex(cmp)` return a stream holding `Spec.sortBy cmp` of the receiver's elements
    (for `SortByIndex` the comparator reads the live receiver, which is sorted in place and then restored:
    `C04_step_persistent`). -/
theorem C04_sort_content {w : World} (hw : Wf w) {p : Nat} (hp : p < w.strs.length) (less : Int → Int → Bool) :
    (w.strSort p less).1.strContent (w.strSort p less).2 = Spec.sortBy less (w.strContent p) ∧
    (w.strSortByIndex p less).1.strContent (w.strSortByIndex p less).2 = Spec.sortBy less (w.strContent p) :=
  ⟨strSort_content w p less, strSortByIndex_content hw hp less⟩

/-- what `Spec.sortBy` is, for a strict weak order (every comparator of the harness family is one): a permutation
    of the input, ordered by the comparator, and STABLE — elements the comparator does not distinguish keep their
    input order.  These three determine the result uniquely (`C19.stable_sorted_unique`). -/
theorem C04_sortBy_spec {less : Int → Int → Bool} (h : C19.StrictWeak less) (l : List Int) :
    (Spec.sortBy less l).Perm l ∧ (Spec.sortBy less l).Pairwise (fun a b => less b a = false) ∧
    ∀ x, (Spec.sortBy less l).filter (C19.equivBy less x) = l.filter (C19.equivBy less x) :=
  ⟨C19.sortBy_perm less l, C19.sortBy_pairwise h l, C19.sortBy_filter_equiv h l⟩

theorem C04_comparators_strictWeak (k : Nat) : C19.StrictWeak (Spec.lessFn k) := lessFn_strictWeak k

/-- `MapKey(f)`: when the transformed keys are pairwise distinct — in particular for the (injective) key functions
    of the harness family on a map with distinct keys — every entry keeps its value under the transformed key.
    (With colliding keys the Go result depends on the map iteration order; no definition prescribes it.) -/
theorem C04_mapKey_law {β : Type} (m : List (Int × β)) :
    (∀ f : Int → Int, (m.map (fun kv => f kv.1)).Nodup → Spec.mapKeys f m = m.map (fun kv => (f kv.1, kv.2))) ∧
    (∀ k, (m.map (·.1)).Nodup → Spec.mapKeys (Spec.keyFn k) m = m.map (fun kv => (Spec.keyFn k kv.1, kv.2))) := by
  refine ⟨fun f h => Spec.mapKeys_of_nodup f m h, fun k h => Spec.mapKeys_of_nodup _ m ?_⟩
  have : m.map (fun kv => Spec.keyFn k kv.1) = (m.map (·.1)).map (Spec.keyFn k) := by simp
  rw [this]
  simp only [List.Nodup, List.pairwise_map] at h ⊢
  exact h.imp (fun hne e => hne (Spec.keyFn_injective k e))

example : ([(1, 5), (2, 0)] : List (Int × Int)).map (·.1) |>.Nodup := by decide

/-- `Keys()` / `Values()` return a NEW array (index = old heap size, so no existing collection can see a write
    through it) holding the keys / values -/
theorem C04_keys_values_detached (w : World) (p : Nat) :
    ((w.setKeys p).2.arr = w.arrs.length ∧
      (w.setKeys p).1.sliceContent (w.setKeys p).2 = Spec.sortInts ((w.setMap p).map (·.1))) ∧
    ((w.setValues p).2.arr = w.arrs.length ∧
      (w.setValues p).1.sliceContent (w.setValues p).2 = Spec.sortInts ((w.setMap p).map (fun kv => valInt kv.2))) :=
  ⟨⟨rfl, sliceContent_allocArr_new _ _⟩, ⟨rfl, sliceContent_allocArr_new _ _⟩⟩

/-! ### StreamSet operations: from maps of stream pointers to maps of element sequences -/

/-- the printed/compared contents of a set-like handle are its entries — every stream pointer replaced by the
    sequence it denotes — sorted by key -/
theorem C04_content_is_sorted_entries (w : World) (p : Nat) :
    setContent w p = Spec.sortByKey (entriesOf w (w.setMap p)) := rfl

/-- StreamSet `Clone`, `Intersection`, `MinusStreams`, `Union`, `StreamSetFromMap`: the entries of the RESULT (keys
    with the element sequences of their streams) are the prescribed function of the entries of the operands:
    * `Clone`: the same entries (through freshly cloned streams);
    * `Intersection`: the receiver's entries whose key the argument has; where the argument's stream is non-empty
      the stream becomes `Spec.inter` of the two (a nil receiver stream counts as empty);
    * `MinusStreams`: all the receiver's entries; where the argument's stream under the same key is non-empty the
      stream becomes `Spec.minus` of the two;
    * `Union`: `Merge` (the argument wins) except that a key of BOTH sides whose argument stream is non-empty holds
      the receiver's stream extended by the argument's (`unionC`);
    and an empty argument gives ∅ / ∅ / the receiver. -/
theorem C04_streamset_results {w : World} (hw : Wf w) {p : Nat} (hp : p < w.sets.length) (q : Nat) :
    let e₁ := entriesOf w (w.setMap p)
    let e₂ := entriesOf w (w.setMap q)
    (entriesOf (w.ssClone p).1 ((w.ssClone p).1.setMap (w.ssClone p).2) = e₁) ∧
    (entriesOf (w.ssInter p (some q)).1 ((w.ssInter p (some q)).1.setMap (w.ssInter p (some q)).2)
      = if e₂.isEmpty then [] else (Spec.interByKey e₁ e₂).map (fun kv => (kv.1, combineC Spec.inter e₂ kv.1 kv.2))) ∧
    (entriesOf (w.ssMinusStreams p (some q)).1
        ((w.ssMinusStreams p (some q)).1.setMap (w.ssMinusStreams p (some q)).2)
      = if e₂.isEmpty then [] else e₁.map (fun kv => (kv.1, combineC Spec.minus e₂ kv.1 kv.2))) ∧
    (entriesOf (w.ssUnion p (some q)).1 ((w.ssUnion p (some q)).1.setMap (w.ssUnion p (some q)).2)
      = if e₂.isEmpty then e₁ else unionC e₁ e₂) ∧
    (∀ m, mapOk w m → entriesOf (w.ssFromMap m).1 ((w.ssFromMap m).1.setMap (w.ssFromMap m).2) = entriesOf w m) :=
  ⟨ssClone_entries hw p, ssInter_entries hw p q, ssMinusStreams_entries hw p q, ssUnion_entries hw hp q,
   fun _ hm => setMap_newSet_entries hw hm⟩

/-- nil arguments: `Union(nil)` is the receiver itself, `Intersection(nil)` and `MinusStreams(nil)` are empty -/
theorem C04_streamset_nil_arg (w : World) (p : Nat) :
    w.ssUnion p none = (w, p) ∧
    (w.ssInter p none).1.setMap (w.ssInter p none).2 = [] ∧
    (w.ssMinusStreams p none).1.setMap (w.ssMinusStreams p none).2 = [] :=
  ⟨rfl, setMap_newSet _ _, setMap_newSet _ _⟩

/-! ### every Stream transformer at once -/

/-- For EVERY unary Stream transformer of the alphabet (`Map`, `Filter`, `Reject`, `FilterNotNil` — on int, on
    interface{} (untyped nil and typed nil pointers are absent) and on pointer elements (`notnilp`) —, `Distinct`,
    `Clone`, `Reverse`, `Sort`, `SortByIndex`, `RemoveItem`, `Append`, `Remove` — both families, i.e. including the
    interface{} in-place `Remove`), as dispatched by the driver (`execS1`): the returned handle holds
    `specS1` of the receiver's elements. -/
theorem C04_unary_stream_content (iface : Bool) {w : World} (hw : Wf w) {p : Nat} (hp : p < w.strs.length) (k : S1) :
    (execS1 iface w p k).1.strContent (execS1 iface w p k).2 = specS1 iface k (w.strContent p) :=
  execS1_content iface hw hp k

/-- `Intersection(arg)` / `Minus(arg)` for any argument (nil, empty or not), on ELEMENTS (no header conditions):
    `Intersection` of an empty argument is empty, `Minus` of an empty argument is the receiver's sequence. -/
theorem C04_binary_stream_content {w : World} (hw : Wf w) (p : Nat) (q : Option Nat) :
    ((w.strInter p q).1.strContent (w.strInter p q).2
      = if (argContent w q).isEmpty then [] else Spec.inter (w.strContent p) (argContent w q)) ∧
    ((w.strMinus p q).1.strContent (w.strMinus p q).2 = Spec.minus (w.strContent p) (argContent w q)) :=
  ⟨strInter_content hw p q, strMinus_content hw p q⟩

/-! ### results: the elements the sequence definition prescribes -/

theorem C04_newStream_content (w : World) (l : List Int) (tail : Nat) :
    (w.newStream l tail).1.strContent (w.newStream l tail).2 = l := by
  simp [newStream, allocArr, allocStr, strContent, strHdr, sliceContent, arrAt, List.getD_eq_getElem?_getD]

/-- `Map`, `Filter`, `Reject`, `FilterNotNil`, `Distinct`, `Reverse` and the generic `Remove` return a NEW
    stream holding exactly the prescribed sequence. -/
theorem C04_stream_results (w : World) (p : Nat) :
    (∀ f, (w.strMap p f).1.strContent (w.strMap p f).2 = Spec.mapIdx f (w.strContent p)) ∧
    (∀ pr, (w.strFilter p pr).1.strContent (w.strFilter p pr).2 = Spec.filterIdx pr (w.strContent p)) ∧
    ((w.strDistinct p).1.strContent (w.strDistinct p).2 = Spec.distinct (w.strContent p)) ∧
    ((w.strReverse p).1.strContent (w.strReverse p).2 = (w.strContent p).reverse) :=
  ⟨fun _ => C04_newStream_content _ _ _, fun _ => C04_newStream_content _ _ _, C04_newStream_content _ _ _,
   C04_newStream_content _ _ _⟩

/-- `Minus` / `RemoveItem` / `Intersection` / `Extend` / generic `Remove`: the prescribed sequence, whether
    the result is a new stream or (empty argument, index out of range) the receiver itself. -/
theorem C04_stream_results_binary (w : World) (p : Nat) :
    (∀ q, (w.strMinus p (some q)).1.strContent (w.strMinus p (some q)).2 =
        if (w.strHdr q).len = 0 then w.strContent p else Spec.minus (w.strContent p) (w.strContent q)) ∧
    (∀ q, (w.strInter p (some q)).1.strContent (w.strInter p (some q)).2 =
        if (w.strHdr q).len = 0 then [] else Spec.inter (w.strContent p) (w.strContent q)) ∧
    (∀ items, (w.strRemoveItem p items).1.strContent (w.strRemoveItem p items).2 =
        if items.isEmpty then w.strContent p else Spec.minus (w.strContent p) items) ∧
    (∀ i, (w.strRemoveG p i).1.strContent (w.strRemoveG p i).2 =
        if 0 ≤ i ∧ i < (w.strHdr p).len then (w.strContent p).eraseIdx i.toNat else w.strContent p) := by
  refine ⟨?_, ?_, ?_, ?_⟩
  · intro q; simp only [strMinus]; split
    · rfl
    · exact C04_newStream_content _ _ _
  · intro q; simp only [strInter]; split
    · simp [newNilStream, allocStr, strContent, strHdr, sliceContent, Slice.nil, List.getD_eq_getElem?_getD]
    · exact C04_newStream_content _ _ _
  · intro items; simp only [strRemoveItem]; split
    · rfl
    · exact C04_newStream_content _ _ _
  · intro i; simp only [strRemoveG]; split
    · exact C04_newStream_content _ _ _
    · rfl

/-- `ToArray` returns a detached copy: a backing array that did not exist before (so no existing stream,
    slice or set can see a write through it — `C04_write_touches_one_array`), holding the stream's elements. -/
theorem C04_toArray_detached (w : World) (p : Nat) :
    (w.strToArray p).2.arr = w.arrs.length ∧
    (w.strToArray p).1.sliceContent (w.strToArray p).2 = w.strContent p := by
  constructor
  · rfl
  · have h : (w.strToArray p).1.arrAt w.arrs.length = w.sliceContent (w.strHdr p) := by
      simp [strToArray, dupSlice, allocArr, arrAt, List.getD_eq_getElem?_getD]
    show (((w.strToArray p).1.arrAt w.arrs.length).drop 0).take (w.sliceContent (w.strHdr p)).length = _
    rw [h]; simp [strContent]

/-- `Clone` likewise: new cell, new array, same elements. -/
theorem C04_clone_detached (w : World) (p : Nat) :
    (w.strClone p).2 = w.strs.length ∧ ((w.strClone p).1.strHdr (w.strClone p).2).arr = w.arrs.length ∧
    (w.strClone p).1.strContent (w.strClone p).2 = w.strContent p := by
  refine ⟨rfl, ?_, ?_⟩
  · simp [strClone, dupSlice, allocArr, allocStr, strHdr, List.getD_eq_getElem?_getD]
  · have hh : (w.strClone p).1.strHdr (w.strClone p).2
        = ⟨w.arrs.length, 0, (w.sliceContent (w.strHdr p)).length, (w.sliceContent (w.strHdr p)).length⟩ := by
      simp [strClone, dupSlice, allocArr, allocStr, strHdr, List.getD_eq_getElem?_getD]
    have h : (w.strClone p).1.arrAt w.arrs.length = w.sliceContent (w.strHdr p) := by
      simp [strClone, dupSlice, allocArr, allocStr, arrAt, List.getD_eq_getElem?_getD]
    unfold strContent
    rw [hh]
    show (((w.strClone p).1.arrAt w.arrs.length).drop 0).take (w.sliceContent (w.strHdr p)).length = _
    rw [h]; simp

/-- `Len` agrees with the element sequence in every well-formed world (hence in every reachable state:
    `C04_reachable_inv`); `Get(i)` and `Contains(x)` are evaluated on the element sequence by definition of `exec`. -/
theorem C04_len_agrees {w : World} (hw : Wf w) (p : Nat) : (w.strContent p).length = (w.strHdr p).len := by
  have h := strHdr_ok hw p
  simp [strContent, sliceContent, List.length_take, List.length_drop]
  have := h.2.1; have := h.2.2; omega

/-- every slice header of a reachable state lies inside its live backing array and has `len ≤ cap` -/
theorem C04_headers_in_bounds (iface : Bool) (pre : List Op) (p : Nat) :
    sliceOk (run iface State.init pre).w ((run iface State.init pre).w.strHdr p) :=
  strHdr_ok (C04_reachable_inv iface pre Inv.init).wf p

/-- interface{} `Remove(i)` leaves the receiver — which IS the returned stream — holding the sequence without
    its `i`-th element (any other index, negative ones included: unchanged), in every well-formed world. -/
theorem C04_ifaceRemove_content {w : World} (hw : Wf w) {p : Nat} (hp : p < w.strs.length) (i : Int) :
    (w.strRemoveI p i).1.strContent p = Spec.removeAt (w.strContent p) i := by
  have h := strHdr_ok hw p
  exact ifaceRemove_content_of_bounds w p i hp h.1 (by have := h.2.1; have := h.2.2; omega) h.2.2

/-- `Append(items...)`: a new stream holding the receiver's elements followed by the items -/
theorem C04_append_content {w : World} (hw : Wf w) {p : Nat} (hp : p < w.strs.length) (items : List Int) :
    (w.strAppend p items).1.strContent (w.strAppend p items).2 = w.strContent p ++ items :=
  strAppend_content hw hp items

/-- `Concat(slices...)`: the receiver's elements followed by the elements of every slice, in order (the
    receiver itself when called without slices) -/
theorem C04_concat_content {w : World} (hw : Wf w) (p : Nat) (slices : List Slice)
    (hs : ∀ s ∈ slices, s.arr < w.arrs.length) :
    (w.strConcat p slices).1.strContent (w.strConcat p slices).2
      = slices.foldl (fun acc s => acc ++ w.sliceContent s) (w.strContent p) :=
  strConcat_content hw p slices hs

/-- `Extend(streams...)`: the receiver's elements followed by the elements of every non-nil stream, in order -/
theorem C04_extend_content (w : World) (p : Nat) (args : List (Option Nat)) :
    (w.strExtend p args).1.strContent (w.strExtend p args).2
      = args.foldl (fun acc a => match a with | none => acc | some q => acc ++ w.strContent q) (w.strContent p) :=
  strExtend_content w p args

/-! ### the regenerated destructive-effect table (`extract/c04.go` → `Gen/StreamEffects.lean`) -/

/-- the only functions allowed to write storage reachable from their receiver / parameters, with exactly these
    writes: the documented mutators (`Set` ×2, interface{} `Remove`), `SortByIndex`'s sort-then-restore pair
    (modelled by `strSortByIndex`, undone by `strSortByIndex_arrs`), `fp.Sort` (documented in-place; the
    stream `Sort`s apply it to a fresh clone, hence have no entry) and `DuplicateSlice`'s append to a
    zero-capacity view (which cannot write into its argument). -/
def allowedEffects : List (String × List String) :=
  [("MapSetDef.Set", ["idx:(*recv)"]),
   ("SetForInterfaceDef.Set", ["idx:(*recv)"]),
   ("StreamForInterfaceDef.Remove", ["store:recv", "append:(*recv)[:index]"]),
   ("StreamDef.SortByIndex", ["sort:*recv", "copy:*recv"]),
   ("StreamForInterfaceDef.SortByIndex", ["sort:*recv", "copy:*recv"]),
   ("fp.Sort", ["sort:input"]),
   ("fp.DuplicateSlice", ["append0:list[:0:0]"])]

/-- Every Stream / MapSet / StreamSet method of both families, every constructor in stream.go /
    streamForInterface.go and every fp.go helper they call has NO destructive operation on storage reachable
    from its receiver or parameters — except the entries of `allowedEffects`, with exactly the listed writes.
    (Kernel evaluation over the table regenerated from the source on every run.) -/
theorem C04_effects_closed :
    Gen.streamEffects.all (fun e => e.effects.isEmpty || allowedEffects.contains (e.name, e.effects)) = true := by
  decide +kernel

/-- the table is not empty and contains the methods the property names -/
theorem C04_effects_inventory :
    ["StreamDef.Map", "StreamDef.Filter", "StreamDef.Remove", "StreamDef.SortByIndex", "StreamDef.Append",
     "StreamDef.Concat", "StreamDef.Extend", "StreamDef.Reverse", "StreamDef.Clone", "StreamDef.ToArray",
     "StreamForInterfaceDef.Remove", "StreamForInterfaceDef.SortByIndex", "MapSetDef.Add", "MapSetDef.Set",
     "MapSetDef.Union", "MapSetDef.Minus", "SetForInterfaceDef.Add", "StreamSetDef.Union", "StreamSetDef.MinusStreams",
     "StreamSetForInterfaceDef.Clone", "fp.Filter", "fp.Reverse", "fp.Concat", "fp.DuplicateSlice", "network.SimpleHTTPDef.AddInterceptor",
     "network.SimpleHTTPDef.RemoveInterceptor", "network.SimpleHTTPDef.ClearInterceptor"].all
      (fun n => Gen.streamEffects.any (fun e => e.name == n)) = true := by
  decide +kernel

/-! ### non-vacuity -/

/-- a non-trivial reachable state: a stream over a caller's array with spare capacity, a set and a stream set -/
def demoOps : List Op :=
  [.arr "a0" 3 [1, 2, 1, 9, 9], .sfrom "s0" "a0", .s1 "s1" "s0" (.filter 1), .setFrom "m0" [1, 2],
   .mset "m0" 1 5, .tfromMap "t0" [(1, some "s0"), (2, none)], .s1 "s2" "s0" (.sortidx 0)]

example : (run false State.init demoOps).env.length = 6 := by decide
example : Inv (run false State.init demoOps) := C04_reachable_inv false demoOps Inv.init
/-- `C04_program` instantiated: the receiver `s0` keeps `[1,2,1]` through Filter, …, SortByIndex, Reverse -/
example : content (run false State.init (demoOps ++ [.s1 "s3" "s0" .reverse])).w (.str (some 0)) = .str [1, 2, 1] := by
  decide
example : (Op.s1 "s3" "s0" .reverse).isMutator true = false := rfl
/-- the interface{} `Remove` really is a mutator in the model: `[1,2,3].Remove(0)` rewrites the receiver's
    storage (`a0` becomes `[2,3,3]`) — which is why it is excluded from `C04_step_persistent`. -/
example : content (run true State.init [.arr "a0" 3 [1, 2, 3], .sfrom "s0" "a0", .s1 "s1" "s0" (.remove 0)]).w
    (.arr ⟨1, 0, 3, 3⟩ true) = .arr [2, 3, 3] [] := by decide

end FpgoVerif.C04
