import FpgoVerif.Model.C04
/-! Property theorems for C04 (none yet). -/
