import FpgoVerif.Model.C07
/-! Property theorems for C07 (none yet). -/
