import FpgoVerif.Proofs.C07Inv
import FpgoVerif.Proofs.C07Drain
import FpgoVerif.Proofs.C07ChqInv
import FpgoVerif.Gen.Skeletons
import FpgoVerif.Gen.BCQGuards
/-! Property theorems for C07 — Channel/Buffered queues: bounded, FIFO, exactly-once delivery, nothing stranded.
    `step`, `run`, `Reach`, `count`, `chTrySend`, `chTryRecv` are the definitions the driver executes.
    All theorems hold for every channelCapacity `c`, every bufferSizeMaximum `b` (including 0 and 1), any number
    of producers and consumers, any interleaving with the loader, any number of steps. -/
namespace FpgoVerif.C07

/-- **FIFO, exactly once, nothing invented, nothing lost.**  In every reachable state the values delivered so
    far, followed by the channel buffer, the loader's in-flight value and the overflow pool, are exactly the
    values accepted so far (Offer/Put returned nil), in acceptance order. -/
theorem C07_fifo (c b : Nat) (s : St) (h : Reach c b s) :
    s.delivered ++ s.chan ++ optl s.inflight ++ s.pool = s.accepted :=
  (reach_inv h).fifo

/-- consequence: the delivery sequence is a prefix of the acceptance sequence — every delivered value was
    accepted (no invention), is delivered once per acceptance (no duplication), in acceptance order (FIFO
    globally, hence per producer), and every accepted value not yet delivered is still held (nothing lost). -/
theorem C07_delivered_prefix (c b : Nat) (s : St) (h : Reach c b s) :
    s.delivered <+: s.accepted ∧ s.accepted.length = s.delivered.length + s.chan.length + (optl s.inflight).length + s.pool.length := by
  have hf := C07_fifo c b s h
  constructor
  · exact ⟨s.chan ++ optl s.inflight ++ s.pool, by rw [← hf]; simp [List.append_assoc]⟩
  · rw [← hf]; simp [List.length_append]; omega

/-- per-producer order: the values of any one producer (any predicate on values) come out in the order they
    were accepted -/
theorem C07_per_producer_fifo (c b : Nat) (s : St) (h : Reach c b s) (mine : Nat → Bool) :
    s.delivered.filter mine <+: s.accepted.filter mine := by
  obtain ⟨t, ht⟩ := (C07_delivered_prefix c b s h).1
  exact ⟨t.filter mine, by rw [← ht, List.filter_append]⟩

/-- **Bounds.**  The channel never holds more than `c`, pool plus in-flight never more than `b`; so the queue
    never holds more than `c + b` values. -/
theorem C07_bound (c b : Nat) (s : St) (h : Reach c b s) :
    s.chan.length ≤ c ∧ s.pool.length + (optl s.inflight).length ≤ b ∧
    s.accepted.length - s.delivered.length ≤ c + b := by
  have i := reach_inv h
  obtain ⟨hc, hb⟩ := reach_cfg h
  have hl := (C07_delivered_prefix c b s h).2
  have := i.chanB; have := i.poolB
  omega

/-- **Offer fails only with ErrQueueIsFull, and only with the overflow buffer at its maximum** (and, when the
    pool was seen empty, only after the channel try-send failed: buffer full, no receiver to hand over to). -/
theorem C07_offer_full_only_at_max (c b : Nat) (s s' : St) (h : Reach c b s) (v : Nat)
    (hs : step s (.offerFull v) = some s') :
    s.pool.length = b ∧ (s.pool = [] → c ≤ s.chan.length) ∧
    s'.accepted = s.accepted ∧ s'.chan = s.chan ∧ s'.pool = s.pool := by
  have i := reach_inv h
  obtain ⟨hc, hb⟩ := reach_cfg h
  simp only [step] at hs
  split at hs <;> simp at hs
  rename_i hg; subst hs
  have := i.poolB
  refine ⟨by omega, ?_, rfl, rfl, rfl⟩
  intro hp
  rcases hg.1 with h1 | h1
  · -- the pool was seen non-empty under the lock, and nobody else can have changed it
    exact absurd hp (i.sawNonEmpty v h1)
  · have := h1.2.1; omega

/-- **Offer never blocks**: once it holds the lock exactly one of its four outcomes is enabled -/
theorem C07_offer_total (s : St) (v : Nat) (e : Bool) (hl : s.lock = .producer v e) :
    (step s (.offerChan v)).isSome ∨ (step s (.offerHandoff v)).isSome ∨
    (step s (.offerFull v)).isSome ∨ (step s (.offerPool v)).isSome := by
  cases e with
  | false =>
    by_cases hb : s.b ≤ s.pool.length
    · right; right; left; simp [step, hl, hb]
    · right; right; right; simp [step, hl]; omega
  | true =>
    by_cases hc : s.chan.length < s.c
    · left; simp [step, hl, hc]
    · by_cases hh : s.chan = [] ∧ 0 < s.waiters
      · right; left; simp [step, hl, hh]
      · have hf : trySendFails s := by
          refine ⟨by omega, ?_⟩
          by_cases h0 : s.chan = []
          · left; by_cases hw : 0 < s.waiters
            · exact absurd ⟨h0, hw⟩ hh
            · omega
          · right; exact h0
        by_cases hb : s.b ≤ s.pool.length
        · right; right; left; simp [step, hl, hf, hb]
        · right; right; right; simp [step, hl, hf]; omega

/-- **Poll never blocks and reports ErrQueueIsEmpty only when nothing is immediately available** -/
theorem C07_poll_total_and_empty_only_if_empty (s : St) :
    ((step s .tryRecv).isSome ∨ (step s .pollEmpty).isSome) ∧
    (∀ s', step s .pollEmpty = some s' → s.chan = [] ∧ s' = s) := by
  constructor
  · cases hc : s.chan with
    | nil => right; simp [step, hc]
    | cons x r => left; simp [step, hc]
  · intro s' h
    simp only [step] at h
    split at h <;> simp at h
    rename_i hc; exact ⟨hc, h.symm⟩

/-- **TakeWithTimeout: a timeout never costs a value.**  The timeout branch of the select is enabled whenever a
    consumer waits (time is nondeterminism: also while a value is available or is being handed over); it consumes
    the waiter and nothing else, and the state it leaves is again reachable — so the conservation law holds after
    it and the value that raced with the timeout is still the next one delivered.  (That the waiter is consumed
    EITHER by `recvTake`/a handoff OR by `recvTimeout` is the atomicity of Go's `select`; the first four
    conjuncts restate the atom and are listed for the reader, the last two are the content.) -/
theorem C07_timeout_loses_nothing (c b : Nat) (s s' : St) (h : Reach c b s) (hs : step s .recvTimeout = some s') :
    s'.chan = s.chan ∧ s'.pool = s.pool ∧ s'.accepted = s.accepted ∧ s'.delivered = s.delivered ∧
    Reach c b s' ∧ s'.delivered ++ s'.chan ++ optl s'.inflight ++ s'.pool = s'.accepted := by
  have hr : Reach c b s' := reach_step h hs
  refine ⟨?_, ?_, ?_, ?_, hr, C07_fifo c b s' hr⟩ <;>
    (simp only [step] at hs; split at hs <;> simp at hs; subst hs; rfl)

/-- **Count at quiescence**: with no Offer and no loader pass in progress, `Count()` (= len(channel) +
    pool.Count()) equals accepted minus delivered -/
theorem C07_count (c b : Nat) (s : St) (h : Reach c b s) (hq : s.lock = .free) :
    count s = s.accepted.length - s.delivered.length := by
  have i := reach_inv h
  have hin : s.inflight = none := inflight_none_of_not_loader i.infl (by simp [hq])
  have := (C07_delivered_prefix c b s h).2
  simp [hin] at this
  simp [count]; omega

/-! ### nothing stranded (channelCapacity ≥ 1), phrased per call

    Every Take / TakeWithTimeout / Poll / GetChannel starts with `notify`; a posted token is never lost
    (`C07_token_persists`) and wakes the loader (`loaderWake` is enabled whenever token ∧ waiting); the pass
    that follows moves the OLDEST pooled value into the channel whenever the channel has room
    (`C07_pass_moves_head`), so after the pass triggered by a call on an empty channel the channel is
    non-empty (`C07_progress`) and the next receive delivers exactly the next value in acceptance order
    (`C07_fifo`).  Hence repeated Take/Poll calls retrieve every accepted value without any further Offer.
    (Fairness of the Go scheduler — the loader goroutine eventually runs — is an assumption, not a theorem.) -/

/-- a pending wake-up is consumed only by the loader -/
theorem C07_token_persists (s s' : St) (a : Act) (h : step s a = some s') (ht : s.token = true)
    (ha : a ≠ .loaderWake) : s'.token = true := by
  cases a <;> simp only [step] at h <;> (repeat' split at h) <;> simp at h <;> (try subst h) <;> simp_all

/-- inside a pass with room in the channel: `pool.Poll()` then the try-send move the head of the pool to
    the tail of the channel -/
theorem C07_pass_moves_head (s : St) (x : Nat) (rest : List Nat) (hl : s.lock = .loader)
    (hin : s.inflight = none) (hp : s.pool = x :: rest) (hroom : s.chan.length < s.c) :
    run s [.loaderPoll, .loaderSend] = some { s with chan := s.chan ++ [x], pool := rest } := by
  simp [run, step, hl, hin, hp, hroom]

/-- the call-triggered pass refills an empty channel from a non-empty pool -/
theorem C07_progress (c b : Nat) (s : St) (h : Reach c b s) (hc : 1 ≤ c) (hl : s.lock = .free)
    (hw : s.lpc = .waiting) (hch : s.chan = []) (x : Nat) (rest : List Nat) (hp : s.pool = x :: rest) :
    ∃ s', run s [.notify, .loaderWake, .loaderLock, .loaderPoll, .loaderSend] = some s' ∧
      s'.chan = [x] ∧ s'.pool = rest ∧ s'.accepted = s.accepted ∧ s'.delivered = s.delivered ∧
      (step s' .tryRecv).map (·.delivered) = some (s.delivered ++ [x]) := by
  have i := reach_inv h
  have hin : s.inflight = none := inflight_none_of_not_loader i.infl (by simp [hl])
  have hcc : 0 < s.c := by have := (reach_cfg h).1; omega
  refine ⟨_, by simp [run, step, hl, hw, hch, hp, hin, hcc]; rfl, ?_⟩
  simp [step]

/-- the same when the loader already holds a token (it stands before `Lock`) -/
theorem C07_progress_woke (c b : Nat) (s : St) (h : Reach c b s) (hc : 1 ≤ c) (hl : s.lock = .free)
    (hw : s.lpc = .woke) (hch : s.chan = []) (x : Nat) (rest : List Nat) (hp : s.pool = x :: rest) :
    ∃ s', run s [.loaderLock, .loaderPoll, .loaderSend] = some s' ∧ s'.chan = [x] ∧ s'.pool = rest := by
  have i := reach_inv h
  have hin : s.inflight = none := inflight_none_of_not_loader i.infl (by simp [hl])
  have hcc : 0 < s.c := by have := (reach_cfg h).1; omega
  exact ⟨_, by simp [run, step, hl, hw, hch, hp, hin, hcc]; rfl, by simp, rfl⟩

/-- a loader pass started under the lock always runs to completion (for c ≥ 1, or with nobody blocked in a receive, by
    buffered sends ending in `loaderDone` or `loaderUnshift`; waiters are not needed and not consumed), leaves `delivered`/`accepted` untouched, and leaves the channel non-empty if it
    was non-empty or there was anything to move and c ≥ 1 -/
theorem C07_pass_terminates (s : St) (hl : s.lock = .loader) (hw : s.waiters = 0 ∨ 0 < s.c) :
    ∃ acts s', acts.all noOffer = true ∧ run s acts = some s' ∧ s'.lock = .free ∧ s'.lpc = .waiting ∧
      s'.delivered = s.delivered ∧ s'.accepted = s.accepted ∧
      ((s.chan ≠ [] ∨ ((s.inflight ≠ none ∨ s.pool ≠ []) ∧ 0 < s.c)) → s'.chan ≠ []) := by
  obtain ⟨acts, s', ha, hr, pe⟩ := pass_finishes (passMeasure s + 1) s (by omega) hl hw
  exact ⟨acts, s', ha, hr, pe.lock, pe.lpc, pe.deliv, pe.acc, pe.chanNe⟩

/-- **Nothing stranded, whole queue (c ≥ 1).**  From every reachable quiescent state (no Offer in progress, no
    pass in progress; ANY number of consumers may be blocked in a receive) there is a continuation consisting only of Poll atoms (`notify`,
    `tryRecv`) and loader atoms — no further Offer — after which every accepted value has been delivered; by
    `C07_fifo` in acceptance order.  (Existence of the schedule = what repeated Poll calls and the passes they
    trigger do under a fair scheduler; fairness itself is an assumption.) -/
theorem C07_drain (c b : Nat) (s : St) (h : Reach c b s) (hc : 1 ≤ c) (hl : s.lock = .free)
    (hp : s.lpc ≠ .inpass) :
    ∃ acts s', acts.all noOffer = true ∧ run s acts = some s' ∧ s'.delivered = s.accepted ∧
      s'.accepted = s.accepted ∧ Reach c b s' := by
  obtain ⟨acts, s', ha, hr, hd, hacc⟩ := drain (s.accepted.length - s.delivered.length + 1) s (reach_inv h)
    (by rw [(reach_cfg h).1]; exact hc) hl hp (by omega)
  obtain ⟨pre, hpre⟩ := h
  refine ⟨acts, s', ha, hr, hd, hacc, pre ++ acts, ?_⟩
  rw [run_append, hpre]; simpa using hr

/-- how long the lock can be held: pool.Poll() / try-send strictly decrease this measure … -/
def holdMeasure (s : St) : Nat := passMeasure s

/-- … every other action of a lock holder releases the lock; so a pass takes at most 2·|pool|+1 atoms and an
    Offer one atom after `Lock`: Offer, notifyWorkers (Poll/Take/GetChannel) and Count wait for the lock only
    boundedly -/
theorem C07_lock_hold_bounded (s s' : St) (a : Act) (h : step s a = some s') (hl : s.lock ≠ .free)
    (ha : a ≠ .recvWait ∧ a ≠ .recvTake ∧ a ≠ .recvTimeout ∧ a ≠ .tryRecv ∧ a ≠ .pollEmpty ∧ a ≠ .loaderWake) :
    s'.lock = .free ∨ (s'.lock = s.lock ∧ holdMeasure s' < holdMeasure s) := by
  cases a <;> simp only [step] at h <;> (repeat' split at h) <;> simp at h <;> (try subst h) <;>
    simp_all [holdMeasure, passMeasure] <;> omega

/-- no deadlock under the lock: whoever holds it has an enabled atom -/
theorem C07_lock_holder_enabled (c b : Nat) (s : St) (h : Reach c b s) (hl : s.lock ≠ .free) :
    ∃ a, (step s a).isSome ∧ a ≠ .recvWait ∧ a ≠ .recvTake ∧ a ≠ .recvTimeout ∧ a ≠ .tryRecv ∧ a ≠ .pollEmpty ∧ a ≠ .loaderWake ∧
      a ≠ .notify := by
  have i := reach_inv h
  cases hk : s.lock with
  | free => exact absurd hk hl
  | producer v e =>
    rcases C07_offer_total s v e hk with h1 | h1 | h1 | h1
    · exact ⟨_, h1, by simp⟩
    · exact ⟨_, h1, by simp⟩
    · exact ⟨_, h1, by simp⟩
    · exact ⟨_, h1, by simp⟩
  | loader =>
    cases hin : s.inflight with
    | none =>
      cases hp : s.pool with
      | nil => exact ⟨.loaderDone, by simp [step, hk, hin, hp], by simp⟩
      | cons x r => exact ⟨.loaderPoll, by simp [step, hk, hin, hp], by simp⟩
    | some x =>
      by_cases hc : s.chan.length < s.c
      · exact ⟨.loaderSend, by simp [step, hk, hin, hc], by simp⟩
      · by_cases hh : s.chan = [] ∧ 0 < s.waiters
        · exact ⟨.loaderHandoff, by simp [step, hk, hin, hh], by simp⟩
        · have hf : trySendFails s := by
            refine ⟨by omega, ?_⟩
            by_cases h0 : s.chan = []
            · left; by_cases hw : 0 < s.waiters
              · exact absurd ⟨h0, hw⟩ hh
              · omega
            · right; exact h0
          exact ⟨.loaderUnshift, by simp [step, hk, hin, hf], by simp⟩

/-- the composite calls the driver performs in directed schedules (`Offer`, `Poll`, the loader wake-up and the
    loader's advance to its next park point) are sequences of `step`s: they never leave the reachable states, so
    every theorem above applies to every state the driver visits -/
theorem C07_driver_ops_reachable (c b : Nat) (s : St) (h : Reach c b s) (v : Nat) :
    Reach c b (offerCall s v).1 ∧ Reach c b (pollCall s).1 ∧ Reach c b (syncLoader s) ∧
    Reach c b (loaderNext s).1 ∧ ∀ a, Reach c b (stepD s a) :=
  ⟨reach_offerCall v h, reach_pollCall h, reach_syncLoader h, reach_loaderNext h, fun a => reach_stepD a h⟩

/-! ### ChannelQueue's own wrappers (the channel substrate) -/

/-- try-send: appended at the tail iff there is room; the buffer never exceeds the capacity -/
theorem C07_chq_offer (ch : Ch) (v : Nat) (hb : ch.buf.length ≤ ch.cap) :
    ((chTrySend ch v).2 = true → (chTrySend ch v).1.buf = ch.buf ++ [v]) ∧
    ((chTrySend ch v).2 = false → (chTrySend ch v).1 = ch ∧ ch.buf.length = ch.cap) ∧
    (chTrySend ch v).1.buf.length ≤ (chTrySend ch v).1.cap := by
  unfold chTrySend
  split <;> simp <;> omega

/-- try-receive: the head of the buffer, FIFO; `empty` only when nothing is buffered; **Poll on a closed,
    drained ChannelQueue reports closed and invents no value** (fix 1a3cb23) -/
theorem C07_chq_poll (ch : Ch) :
    (∀ v ch', chTryRecv ch = (ch', .val v) → ch.buf = v :: ch'.buf) ∧
    ((chTryRecv ch).2 = .empty → ch.buf = [] ∧ ch.closed = false) ∧
    (ch.buf = [] → ch.closed = true → chTryRecv ch = (ch, .closed)) := by
  unfold chTryRecv
  cases hb : ch.buf with
  | nil => cases hc : ch.closed <;> simp
  | cons x r => simp

/-! ### ChannelQueue on its own under concurrent goroutines (`Model/C07Chq.lean`)

    A transition system over a Go channel of capacity `c` (rendezvous for c = 0) with parked senders
    (Put / PutWithTimeout) and parked receivers (Take / TakeWithTimeout), try-operations (Offer / Poll) and
    timeouts as nondeterministic steps; any number of threads, any interleaving, every c. -/

/-- **exactly once, FIFO in acceptance order, nothing invented, nothing lost**: delivered ++ buffer = accepted
    (a value handed over directly is accepted and delivered in the same atom; a parked sender's value is not
    accepted until its send completes) -/
theorem C07_chq_conc_fifo (c : Nat) (s : Chq.CS) (h : Chq.Reach c s) :
    s.delivered ++ s.buf = s.accepted ∧ s.delivered <+: s.accepted :=
  let i := (Chq.reach_inv h).1
  ⟨i.fifo, ⟨s.buf, i.fifo⟩⟩

/-- the buffer never exceeds the capacity; senders are parked only while it is full, receivers only while
    nothing at all is available -/
theorem C07_chq_conc_bound (c : Nat) (s : Chq.CS) (h : Chq.Reach c s) :
    s.buf.length ≤ c ∧ (s.sendq ≠ [] → s.buf.length = c) ∧ (0 < s.recvWaiting → s.buf = [] ∧ s.sendq = []) := by
  obtain ⟨i, hc⟩ := Chq.reach_inv h
  refine ⟨hc ▸ i.bound, ?_, i.waitEmpty⟩
  intro hq; have := i.blockedFull hq; have := i.bound; omega

/-- **Offer returns ErrQueueIsFull only when the buffer is full and no receiver is waiting** (so for c = 0: only
    when there is nobody to rendezvous with), and changes nothing -/
theorem C07_chq_conc_offer_full (c : Nat) (s s' : Chq.CS) (h : Chq.Reach c s) (v : Nat)
    (hs : Chq.step s (.offerFull v) = some s') : s.buf.length = c ∧ s.recvWaiting = 0 ∧ s' = s := by
  obtain ⟨i, hc⟩ := Chq.reach_inv h
  simp only [Chq.step] at hs
  split at hs <;> simp at hs
  rename_i hg
  have := i.bound
  exact ⟨by omega, hg.2, hs.symm⟩

/-- **Poll returns ErrQueueIsEmpty only when nothing is buffered and no sender is offering**, and changes nothing -/
theorem C07_chq_conc_poll_empty (s s' : Chq.CS) (hs : Chq.step s .pollEmpty = some s') :
    s.buf = [] ∧ s.sendq = [] ∧ s' = s := by
  simp only [Chq.step] at hs
  split at hs <;> simp at hs
  rename_i hg
  exact ⟨hg.1, hg.2, hs.symm⟩

/-- **the timeout branches move no value**: a PutWithTimeout that times out was never accepted and leaves buffer
    and histories untouched (its value just leaves the queue of parked senders); likewise TakeWithTimeout -/
theorem C07_chq_conc_timeouts_move_nothing (s s' : Chq.CS) (v : Nat)
    (hs : Chq.step s (.putTimeout v) = some s' ∨ Chq.step s .takeTimeout = some s') :
    s'.buf = s.buf ∧ s'.accepted = s.accepted ∧ s'.delivered = s.delivered := by
  rcases hs with hs | hs <;> simp only [Chq.step] at hs <;> split at hs <;> simp at hs <;> subst hs <;> exact ⟨rfl, rfl, rfl⟩

/-- no wrapper call is ever without an enabled atom: a blocking send buffers, hands over or parks; Offer buffers,
    hands over or reports full; a blocking receive takes or parks; Poll takes or reports empty -/
theorem C07_chq_conc_total (c : Nat) (s : Chq.CS) (h : Chq.Reach c s) (v : Nat) :
    ((Chq.step s (.sendBuf v)).isSome ∨ (Chq.step s (.sendHandoff v)).isSome ∨ (Chq.step s (.sendBlock v)).isSome) ∧
    ((Chq.step s (.sendBuf v)).isSome ∨ (Chq.step s (.sendHandoff v)).isSome ∨ (Chq.step s (.offerFull v)).isSome) ∧
    ((Chq.step s .recvBuf).isSome ∨ (Chq.step s .recvFromSender).isSome ∨ (Chq.step s .recvWait).isSome) ∧
    ((Chq.step s .recvBuf).isSome ∨ (Chq.step s .recvFromSender).isSome ∨ (Chq.step s .pollEmpty).isSome) := by
  have hsend : ∀ (P : Prop), ((s.c ≤ s.buf.length ∧ s.recvWaiting = 0) → P) →
      (Chq.step s (.sendBuf v)).isSome ∨ (Chq.step s (.sendHandoff v)).isSome ∨ P := by
    intro P hp
    by_cases hw : 0 < s.recvWaiting
    · right; left; simp [Chq.step, hw]
    · by_cases hr : s.buf.length < s.c
      · left; simp [Chq.step, hr]; omega
      · right; right; exact hp ⟨by omega, by omega⟩
  have hrecv : ∀ (P : Prop), ((s.buf = [] ∧ s.sendq = []) → P) →
      (Chq.step s .recvBuf).isSome ∨ (Chq.step s .recvFromSender).isSome ∨ P := by
    intro P hp
    cases hb : s.buf with
    | cons x r => left; cases hq : s.sendq <;> simp [Chq.step, hb, hq]
    | nil =>
      cases hq : s.sendq with
      | cons w ws => right; left; simp [Chq.step, hb, hq]
      | nil => right; right; exact hp ⟨hb, hq⟩
  refine ⟨?_, ?_, ?_, ?_⟩
  · rcases hsend ((Chq.step s (.sendBlock v)).isSome) (fun hg => by simp [Chq.step, hg]) with h1 | h1 | h1
    · exact Or.inl h1
    · exact Or.inr (Or.inl h1)
    · exact Or.inr (Or.inr h1)
  · rcases hsend ((Chq.step s (.offerFull v)).isSome) (fun hg => by simp [Chq.step, hg]) with h1 | h1 | h1
    · exact Or.inl h1
    · exact Or.inr (Or.inl h1)
    · exact Or.inr (Or.inr h1)
  · rcases hrecv ((Chq.step s .recvWait).isSome) (fun hg => by simp [Chq.step, hg]) with h1 | h1 | h1
    · exact Or.inl h1
    · exact Or.inr (Or.inl h1)
    · exact Or.inr (Or.inr h1)
  · rcases hrecv ((Chq.step s .pollEmpty).isSome) (fun hg => by simp [Chq.step, hg]) with h1 | h1 | h1
    · exact Or.inl h1
    · exact Or.inr (Or.inl h1)
    · exact Or.inr (Or.inr h1)

/-- what the `chqstress` cases expect (`ok accepted=N delivered=N`): in every quiescent reachable state — nothing
    buffered, nobody parked in a send — everything accepted has been delivered, in acceptance order -/
theorem C07_chq_conc_quiescent (c : Nat) (s : Chq.CS) (h : Chq.Reach c s) (hb : s.buf = []) :
    s.delivered = s.accepted := by
  have := (Chq.reach_inv h).1.fifo
  simpa [hb] using this

/-- the sequential substrate the driver executes (`chTrySend` / `chTryRecv` on `Ch`, open channel) is this
    system with nobody parked: a successful try-send is `sendBuf`, a failed one is exactly `offerFull`, a
    try-receive of a value is `recvBuf`, `empty` is exactly `pollEmpty` -/
theorem C07_chq_conc_matches_substrate (ch : Ch) (acc del : List Nat) (v : Nat) :
    (Chq.step ⟨ch.cap, ch.buf, [], 0, acc, del⟩ (.sendBuf v) =
      if (chTrySend ch v).2 then some ⟨ch.cap, (chTrySend ch v).1.buf, [], 0, acc ++ [v], del⟩ else none) ∧
    ((chTrySend ch v).2 = false ↔ (Chq.step ⟨ch.cap, ch.buf, [], 0, acc, del⟩ (.offerFull v)).isSome) ∧
    (∀ ch' x, chTryRecv ch = (ch', .val x) →
      Chq.step ⟨ch.cap, ch.buf, [], 0, acc, del⟩ .recvBuf = some ⟨ch.cap, ch'.buf, [], 0, acc, del ++ [x]⟩) ∧
    (ch.buf = [] ↔ (Chq.step ⟨ch.cap, ch.buf, [], 0, acc, del⟩ .pollEmpty).isSome) := by
  refine ⟨?_, ?_, ?_, ?_⟩
  · unfold chTrySend; by_cases hr : ch.buf.length < ch.cap <;> simp [Chq.step, hr]
  · unfold chTrySend; by_cases hr : ch.buf.length < ch.cap <;> simp [Chq.step, hr] <;> omega
  · intro ch' x hx
    unfold chTryRecv at hx
    cases hb : ch.buf with
    | nil => simp [hb] at hx; split at hx <;> simp at hx
    | cons a r => simp [hb] at hx; obtain ⟨h1, h2⟩ := hx; subst h1; subst h2; simp [Chq.step]
  · simp [Chq.step]

/-- non-vacuity: c = 1 — a buffered value, a parked sender completing into the freed slot, a parked receiver
    served by a hand-over, a timed-out PutWithTimeout that leaves no trace -/
example : Chq.run (Chq.init 1) [.sendBuf 1, .sendBlock 2, .sendBlock 3, .putTimeout 3, .recvBuf, .recvBuf, .recvWait,
      .sendHandoff 4] = some ⟨1, [], [], 0, [1, 2, 4], [1, 2, 4]⟩ := by decide
/-- rendezvous (c = 0) in both orders, and Offer / Poll failing with nobody on the other side -/
example : Chq.run (Chq.init 0) [.offerFull 9, .pollEmpty, .sendBlock 1, .recvFromSender, .recvWait, .sendHandoff 2,
      .recvWait, .takeTimeout] = some ⟨0, [], [], 0, [1, 2], [1, 2]⟩ := by decide
example : ∃ s, Chq.Reach 1 s ∧ s.sendq ≠ [] ∧ s.buf.length = 1 :=
  ⟨⟨1, [1], [2], 0, [1], []⟩, ⟨[.sendBuf 1, .sendBlock 2], by decide⟩, by decide, rfl⟩

/-! ### non-vacuity: reachable states with a full channel, a non-empty pool, an in-flight value -/

def demo : List Act :=
  [.offerLock 1, .offerChan 1, .offerLock 2, .offerPool 2, .offerLock 3, .offerPool 3,
   .loaderWake, .loaderLock, .loaderPoll, .tryRecv, .loaderSend, .loaderPoll]

example : run (init 1 2) demo = some ⟨1, 2, [2], [], some 3, false, .loader, .inpass, 0, [1, 2, 3], [1]⟩ := by decide

example : ∃ s, Reach 1 2 s ∧ s.lock ≠ .free := by
  cases h : run (init 1 2) demo with
  | none => exact absurd h (by decide)
  | some s => exact ⟨s, ⟨demo, h⟩, by
      have : (run (init 1 2) demo).map (·.lock) = some .loader := by decide
      rw [h] at this; simp at this; simp [this]⟩

/-- Offer returns Full in a reachable state: c = 1, b = 1, two values held -/
example : (run (init 1 1) [.offerLock 1, .offerChan 1, .offerLock 2, .offerPool 2, .offerLock 3, .offerFull 3]).isSome = true := by
  decide

/-- rendezvous with an unbuffered channel (c = 0): a waiting consumer gets the value directly -/
example : run (init 0 1) [.notify, .recvWait, .offerLock 7, .offerHandoff 7] =
    some ⟨0, 1, [], [], none, true, .free, .waiting, 0, [7], [7]⟩ := by decide

/-- the stranding state of the DESIGN analysis is reachable and legal: pool non-empty, channel empty, no token,
    loader asleep — the next Take/Poll posts a token (`C07_progress`) -/
example : run (init 1 1) [.offerLock 1, .offerChan 1, .offerLock 2, .offerPool 2, .loaderWake, .loaderLock,
      .loaderPoll, .loaderUnshift, .tryRecv] =
    some ⟨1, 1, [], [2], none, false, .free, .waiting, 0, [1, 2], [1]⟩ := by decide

/-- observation (not a violation of the property as stated): a consumer already blocked in `Take` (waiters = 1)
    while the loader's pass found the channel full is not served until the NEXT Take/Poll/GetChannel call by
    anyone posts a token — pool non-empty, channel empty, no token, loader asleep, lock free.  The state satisfies
    the hypotheses of `C07_drain` (lock free, no pass in progress, c = 1; one consumer blocked): a further Poll by
    anyone drains it -/
example : run (init 1 1) [.offerLock 1, .offerChan 1, .offerLock 2, .offerPool 2, .notify, .recvWait, .notify, .recvWait,
      .loaderWake, .loaderLock, .loaderPoll, .loaderUnshift, .recvTake] =
    some ⟨1, 1, [], [2], none, false, .free, .waiting, 1, [1, 2], [1]⟩ := by decide

/-! ### closing theorems over data regenerated from queue.go on every run -/

theorem C07_skel_offer : Gen.skeletonOf "BufferedChannelQueue.Offer" = some
    "call(lock.Lock) defer{call(lock.Unlock)} if[get(isClosed) call(isClosed.Get)]{return} get(pool) call(pool.Count) if[]{call(blockingQueue.Offer) if[]{return}else{if[]{}else{return}}} if[]{return} get(pool) call(pool.Offer) call(loadWorkerCh.Offer) return" := by decide +kernel
theorem C07_skel_put : Gen.skeletonOf "BufferedChannelQueue.Put" = some "call(Offer) return" := by decide +kernel
theorem C07_skel_take : Gen.skeletonOf "BufferedChannelQueue.Take" = some
    "if[get(isClosed) call(isClosed.Get)]{return} call(notifyWorkers) call(blockingQueue.Take) return" := by decide +kernel
theorem C07_skel_takeWithTimeout : Gen.skeletonOf "BufferedChannelQueue.TakeWithTimeout" = some
    "if[get(isClosed) call(isClosed.Get)]{return} call(notifyWorkers) call(blockingQueue.TakeWithTimeout) return" := by decide +kernel
theorem C07_skel_poll : Gen.skeletonOf "BufferedChannelQueue.Poll" = some
    "if[get(isClosed) call(isClosed.Get)]{return} call(notifyWorkers) call(blockingQueue.Poll) return" := by decide +kernel
theorem C07_skel_getChannel : Gen.skeletonOf "BufferedChannelQueue.GetChannel" = some
    "call(notifyWorkers) return" := by decide +kernel
theorem C07_skel_count : Gen.skeletonOf "BufferedChannelQueue.Count" = some
    "if[get(isClosed) call(isClosed.Get)]{return} call(lock.RLock) defer{call(lock.RUnlock)} get(pool) call(pool.Count) return" := by decide +kernel
theorem C07_skel_notifyWorkers : Gen.skeletonOf "BufferedChannelQueue.notifyWorkers" = some
    "call(lock.RLock) defer{call(lock.RUnlock)} if[get(isClosed) call(isClosed.Get)]{return} call(loadWorkerCh.Offer) call(freeNodeWorkerCh.Offer)" := by decide +kernel
theorem C07_skel_loadFromPool : Gen.skeletonOf "BufferedChannelQueue.loadFromPool" = some
    "rangech(loadWorkerCh){if[get(isClosed) call(isClosed.Get)]{break} call(lock.Lock) if[get(isClosed) call(isClosed.Get)]{call(lock.Unlock) break} for[get(pool) call(pool.Count)]{get(pool) call(pool.Poll) if[]{break} call(blockingQueue.Offer) if[]{get(pool) call(pool.Unshift) break}} call(lock.Unlock) call(Sleep)}" := by decide +kernel
theorem C07_skel_freeNodePool : Gen.skeletonOf "BufferedChannelQueue.freeNodePool" = some
    "rangech(freeNodeWorkerCh){call(Sleep) if[get(isClosed) call(isClosed.Get)]{break} call(lock.Lock) if[get(pool)]{get(pool) call(pool.KeepNodePoolCount)} call(lock.Unlock)}" := by decide +kernel
theorem C07_skel_close : Gen.skeletonOf "BufferedChannelQueue.Close" = some
    "call(lock.Lock) defer{call(lock.Unlock)} get(isClosed) call(isClosed.Set) call(close) call(close)" := by decide +kernel
theorem C07_skel_new : Gen.skeletonOf "NewBufferedChannelQueue" = some
    "call(NewLinkedListQueue) set(pool) call(NewChannelQueue) call(NewChannelQueue) call(NewChannelQueue) go{call(freeNodePool)} go{call(loadFromPool)} return" := by decide +kernel
theorem C07_skel_chq_put : Gen.skeletonOf "ChannelQueue.Put" = some "send(q) return" := by decide +kernel
theorem C07_skel_chq_putWithTimeout : Gen.skeletonOf "ChannelQueue.PutWithTimeout" = some
    "select{send(q)=>{return} | call(After) recv(After())=>{return}}" := by decide +kernel
theorem C07_skel_chq_take : Gen.skeletonOf "ChannelQueue.Take" = some "recv(q) if[]{return} return" := by decide +kernel
theorem C07_skel_chq_takeWithTimeout : Gen.skeletonOf "ChannelQueue.TakeWithTimeout" = some
    "select{recv(q)=>{if[]{return} return} | call(After) recv(After())=>{return}}" := by decide +kernel
theorem C07_skel_chq_offer : Gen.skeletonOf "ChannelQueue.Offer" = some
    "select{send(q)=>{return} | default=>{return}}" := by decide +kernel
theorem C07_skel_chq_poll : Gen.skeletonOf "ChannelQueue.Poll" = some
    "select{recv(q)=>{if[]{return} return} | default=>{return}}" := by decide +kernel

/-- the guards the skeleton does not carry: `poolCount == 0` decides channel-vs-pool, `poolCount >=
    bufferSizeMaximum` is the bound check (`offerFull` / `offerPool`), the loader loops while
    `pool.Count() > 0`, and `Count()` adds the channel length and the pool count -/
theorem C07_guards_offer : Gen.bcqGuardsOf "Offer" = some
    ["if q.isClosed.Get()", "return ErrQueueIsClosed", "set poolCount := q.pool.Count()", "if poolCount == 0",
     "set err := q.blockingQueue.Offer(val)", "if err == nil", "return nil", "if err == ErrQueueIsFull", "return err",
     "if poolCount >= q.bufferSizeMaximum", "return ErrQueueIsFull", "return nil"] := by decide +kernel
theorem C07_guards_loader : Gen.bcqGuardsOf "loadFromPool" = some
    ["if q.isClosed.Get()", "if q.isClosed.Get()", "for q.pool.Count() > 0", "set val, pollErr = q.pool.Poll()",
     "if pollErr != nil", "set offerErr = q.blockingQueue.Offer(val)", "if offerErr != nil"] := by decide +kernel
theorem C07_guards_count : Gen.bcqGuardsOf "Count" = some
    ["if q.isClosed.Get()", "return 0", "return len(q.blockingQueue) + q.pool.Count()"] := by decide +kernel
theorem C07_guards_consumers :
    Gen.bcqGuardsOf "Poll" = some ["if q.isClosed.Get()", "return *new(T), ErrQueueIsClosed", "return q.blockingQueue.Poll()"] ∧
    Gen.bcqGuardsOf "Take" = some ["if q.isClosed.Get()", "return *new(T), ErrQueueIsClosed", "return q.blockingQueue.Take()"] ∧
    Gen.bcqGuardsOf "TakeWithTimeout" = some ["if q.isClosed.Get()", "return *new(T), ErrQueueIsClosed", "return q.blockingQueue.TakeWithTimeout(timeout)"] ∧
    Gen.bcqGuardsOf "GetChannel" = some ["return q.blockingQueue"] ∧
    Gen.bcqGuardsOf "Put" = some ["return q.Offer(val)"] ∧
    Gen.bcqGuardsOf "notifyWorkers" = some ["if q.isClosed.Get()", "return"] := by decide +kernel

/-- constructor wiring (review R3; the skeleton only says that three channels are made): the wake-up channel has
    capacity 1 (`token : Bool`), the data channel gets `channelCapacity` (`c`), the overflow bound is
    `bufferSizeMaximum` (`b`), and a ChannelQueue of capacity k is `make(chan T, k)` -/
theorem C07_guards_constructor :
    Gen.bcqGuardsOf "NewBufferedChannelQueue" = some ["field loadWorkerCh: NewChannelQueue[int](1)",
      "field blockingQueue: NewChannelQueue[T](channelCapacity)", "field pool: pool",
      "field bufferSizeMaximum: bufferSizeMaximum"] ∧
    Gen.bcqGuardsOf "NewChannelQueue" = some ["return make(ChannelQueue[T], capacity)"] := by decide +kernel

/-- what the six ChannelQueue wrappers return in each branch of their select / receive (`chTrySend`, `chTryRecv`:
    nil | Full, value | Closed (`!ok`) | Empty, and the two timeouts) -/
theorem C07_guards_chq :
    Gen.bcqGuardsOf "ChannelQueue.Put" = some ["return nil"] ∧
    Gen.bcqGuardsOf "ChannelQueue.PutWithTimeout" = some ["return nil", "return ErrQueuePutTimeout"] ∧
    Gen.bcqGuardsOf "ChannelQueue.Take" = some ["set val, ok := <-q", "if !ok", "return *new(T), ErrQueueIsClosed", "return val, nil"] ∧
    Gen.bcqGuardsOf "ChannelQueue.TakeWithTimeout" = some ["set val, ok := <-q", "if !ok", "return *new(T), ErrQueueIsClosed",
      "return val, nil", "return *new(T), ErrQueueTakeTimeout"] ∧
    Gen.bcqGuardsOf "ChannelQueue.Offer" = some ["return nil", "return ErrQueueIsFull"] ∧
    Gen.bcqGuardsOf "ChannelQueue.Poll" = some ["set val, ok := <-q", "if !ok", "return *new(T), ErrQueueIsClosed",
      "return val, nil", "return *new(T), ErrQueueIsEmpty"] := by decide +kernel

end FpgoVerif.C07
