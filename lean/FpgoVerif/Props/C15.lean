import FpgoVerif.Proofs.C15Mailbox
import FpgoVerif.Gen.Skeletons
/-! Property theorems for C15 — "Shutdown is safe at any moment".  One transition system per component
    (Model/C15*.lean); every theorem quantifies over all reachable states = all interleavings of any number
    of goroutines with the one closing goroutine. -/
namespace FpgoVerif.C15

/-! ## Handler / Actor -/

/-- no goroutine panics: no send on the closed channel escapes the recover scope, the channel is closed once -/
theorem C15_mailbox_safe {cap s} (h : Mb.Reach cap true s) : s.panic = false :=
  (Mb.inv_reach h).nopanic (Mb.recovers_const h)

/-- the code before fa052a2 (no recover around the send): Close between check and send panics the sender -/
theorem C15_mailbox_unfixed_panics : ∃ s, Mb.Reach 0 false s ∧ s.panic = true := by
  let acts : List (Option Bool × Mb.PC) :=
    [(none, .p0 1), (some false, .p0 1), (none, .c0), (some false, .c0), (some false, .c1), (some false, .p1 1)]
  have h : ((Mb.runActs (Mb.init 0 false) acts).map (·.panic)) = some true := by decide
  cases hr : Mb.runActs (Mb.init 0 false) acts with
  | none => simp [hr] at h
  | some s => exact ⟨s, Mb.runActs_reach acts Mb.Reach.init hr, by simpa [hr] using h⟩

/-- after Close has returned the flag is set, the channel is closed, and no closed-check has passed since -/
theorem C15_mailbox_after {cap r s} (h : Mb.Reach cap r s) :
    s.late = 0 ∧ (s.closeDone = true → s.flag = true ∧ s.chClosed = true) :=
  ⟨(Mb.inv_reach h).late0, fun hd => ⟨(Mb.inv_reach h).doneFlag hd, (Mb.inv_reach h).doneClosed hd⟩⟩

/-- a Post/Send whose first atom follows Close's last atom is dropped: it returns at the check, enqueues
    nothing and runs no callback -/
theorem C15_mailbox_after_dropped {cap r s m ch s' nx} (h : Mb.Reach cap r s) (hd : s.closeDone = true)
    (hs : Mb.gstep s (.p0 m) ch = some (s', nx)) : nx = .fin .ok ∧ s'.buf = s.buf ∧ s'.ran = s.ran := by
  have hf := (Mb.inv_reach h).doneFlag hd
  obtain ⟨_, s1, hs1, rfl⟩ := Mb.gstep_some hs
  simp [Mb.step, hf] at hs1
  obtain ⟨rfl, rfl⟩ := hs1
  simp

/-- no deadlock: while any Post/Send, the Close or a callback is in progress some goroutine can step
    (callbacks terminate = the gate is open) — in particular a sender blocked in the send is released by the
    consumer or, after Close, by the recovered panic -/
theorem C15_mailbox_nodeadlock {cap s} (h : Mb.Reach cap true s) (hg : s.gate = true)
    (hb : 0 < s.cnt .p0 ∨ 0 < s.cnt .p1 ∨ 0 < s.cnt .c0 ∨ 0 < s.cnt .c1 ∨ 0 < s.cnt .r1) :
    ∃ pc ch s' nx, Mb.gstep s pc ch = some (s', nx) :=
  Mb.progress (Mb.inv_reach h) (Mb.recovers_const h) hg hb

/-- non-vacuity: a state with a sender past the check while Close is half done is reachable -/
example : ∃ s, Mb.Reach 1 true s ∧ 0 < s.cnt .p1 ∧ 0 < s.cnt .c1 := by
  let acts : List (Option Bool × Mb.PC) := [(none, .p0 1), (some false, .p0 1), (none, .c0), (some false, .c0)]
  have h : ((Mb.runActs (Mb.init 1 true) acts).map (fun s => decide (0 < s.cnt .p1 ∧ 0 < s.cnt .c1))) = some true := by decide
  cases hr : Mb.runActs (Mb.init 1 true) acts with
  | none => simp [hr] at h
  | some s => exact ⟨s, Mb.runActs_reach acts Mb.Reach.init hr, by simpa [hr] using h⟩

end FpgoVerif.C15
