import FpgoVerif.Proofs.C15Mailbox
import FpgoVerif.Proofs.C15MailboxProgress
import FpgoVerif.Proofs.C15BcqProgress
import FpgoVerif.Proofs.C15Bcq
import FpgoVerif.Proofs.C15Cor
import FpgoVerif.Proofs.C15CorProgress
import FpgoVerif.Proofs.C15Pool
import FpgoVerif.Proofs.C15PoolProgress
import FpgoVerif.Proofs.C15ExecReach
import FpgoVerif.Gen.C15Bodies
/-! Property theorems for C15 — "Shutdown is safe at any moment".  One transition system per component
    (Model/C15*.lean); every theorem quantifies over all reachable states = all interleavings of any number
    of goroutines with the one closing goroutine. -/
namespace FpgoVerif.C15

/-! ## Handler / Actor -/

/-- no goroutine panics: no send on the closed channel escapes the recover scope, the channel is closed once -/
theorem C15_mailbox_safe {cap s} (h : Mb.Reach cap true s) : s.panic = false :=
  (Mb.inv_reach h).nopanic (Mb.recovers_const h)

/-- the code before fa052a2 (no recover around the send): Close between check and send panics the sender -/
theorem C15_mailbox_unfixed_panics : ∃ s, Mb.Reach 0 false s ∧ s.panic = true := by
  let acts : List (Option Bool × Mb.PC) :=
    [(none, .p0 1), (some false, .p0 1), (none, .c0), (some false, .c0), (some false, .c1), (some false, .p1 1)]
  have h : ((Mb.runActs (Mb.init 0 false) acts).map (·.panic)) = some true := by decide
  cases hr : Mb.runActs (Mb.init 0 false) acts with
  | none => simp [hr] at h
  | some s => exact ⟨s, Mb.runActs_reach acts Mb.Reach.init hr, by simpa [hr] using h⟩

/-- after Close has returned the flag is set, the channel is closed, and no closed-check has passed since -/
theorem C15_mailbox_after {cap r s} (h : Mb.Reach cap r s) :
    s.late = 0 ∧ (s.closeDone = true → s.flag = true ∧ s.chClosed = true) :=
  ⟨(Mb.inv_reach h).late0, fun hd => ⟨(Mb.inv_reach h).doneFlag hd, (Mb.inv_reach h).doneClosed hd⟩⟩

/-- a Post/Send whose first atom follows Close's last atom is dropped: it returns at the check, enqueues
    nothing and runs no callback -/
theorem C15_mailbox_after_dropped {cap r s m ch s' nx} (h : Mb.Reach cap r s) (hd : s.closeDone = true)
    (hs : Mb.gstep s (.p0 m) ch = some (s', nx)) : nx = .fin .ok ∧ s'.buf = s.buf ∧ s'.ran = s.ran := by
  have hf := (Mb.inv_reach h).doneFlag hd
  obtain ⟨_, s1, hs1, rfl⟩ := Mb.gstep_some hs
  simp [Mb.step, hf] at hs1
  obtain ⟨rfl, rfl⟩ := hs1
  simp

/-- no deadlock: while any Post/Send, the Close or a callback is in progress there is an occupied program-counter
    kind whose goroutine can take its next atom — whatever message it carries (the counters do not record it);
    callbacks terminate = the gate is open.  In particular a sender blocked in the send is released by the
    consumer or, after Close, by the recovered panic. 
    This includes a Close() issued from inside a callback on the handler/actor itself (the loop goroutine is then
    the closer: kinds c1 → r0) and callbacks that wait for what the closer does right after Close() returned;
    `Mb.live`: such a waiting callback (ids 400–499) is only expected to finish once a Close has been started. -/
theorem C15_mailbox_nodeadlock {cap s} (h : Mb.Reach cap true s) (hg : s.gate = true)
    (hb : 0 < s.cnt .p0 ∨ 0 < s.cnt .p1 ∨ 0 < s.cnt .c0 ∨ 0 < s.cnt .c1 ∨ 0 < s.cnt .r1) :
    ∃ k, 0 < s.cnt k ∧ ∀ pc, Mb.kind pc = k → Mb.live s pc → ∃ s' nx, Mb.gstep s pc false = some (s', nx) :=
  Mb.progressK (Mb.inv_reach h) (Mb.recovers_const h) hg hb

/-- non-vacuity: a state with a sender past the check while Close is half done is reachable -/
example : ∃ s, Mb.Reach 1 true s ∧ 0 < s.cnt .p1 ∧ 0 < s.cnt .c1 := by
  let acts : List (Option Bool × Mb.PC) := [(none, .p0 1), (some false, .p0 1), (none, .c0), (some false, .c0)]
  have h : ((Mb.runActs (Mb.init 1 true) acts).map (fun s => decide (0 < s.cnt .p1 ∧ 0 < s.cnt .c1))) = some true := by decide
  cases hr : Mb.runActs (Mb.init 1 true) acts with
  | none => simp [hr] at h
  | some s => exact ⟨s, Mb.runActs_reach acts Mb.Reach.init hr, by simpa [hr] using h⟩

/-! ## BufferedChannelQueue -/

/-- no goroutine panics (users, closer, loader): nothing is sent on / closes a closed channel -/
theorem C15_bcq_safe {c b s} (h : Bq.Reach c b true true s) : s.panic = false :=
  (Bq.inv_reach h).nopanic

/-- the code before c8ecf0a, notifyWorkers without lock and closed-check: Take checks, Close closes, the wake-up
    is sent on the closed loadWorkerCh -/
theorem C15_bcq_unfixed_notify_panics : ∃ s, Bq.Reach 1 1 false true s ∧ s.panic = true := by
  let acts : List (Option Bool × Bq.PC) :=
    [(none, .t0 .take), (some false, .t0 .take), (none, .c0), (some false, .c0), (some false, .c1), (some false, .c2),
     (some false, .n1 .take), (some false, .n2 .take)]
  have h : ((Bq.runActs (Bq.init 1 1 false true) acts).map (·.panic)) = some true := by decide
  cases hr : Bq.runActs (Bq.init 1 1 false true) acts with
  | none => simp [hr] at h
  | some s => exact ⟨s, Bq.runActs_reach acts Bq.Reach.init hr, by simpa [hr] using h⟩

/-- the code before c8ecf0a, loader without the re-check under the lock: it try-sends on the closed channel -/
theorem C15_bcq_unfixed_loader_panics : ∃ s, Bq.Reach 1 2 true false s ∧ s.panic = true := by
  let acts : List (Option Bool × Bq.PC) :=
    [(none, .o0 1), (some false, .o0 1), (some false, .o1 1), (none, .o0 2), (some false, .o0 2), (some false, .o1 2),
     (some false, .l0), (some false, .l1), (none, .c0), (some false, .c0), (some false, .c1), (some false, .c2),
     (some false, .l2), (some false, .l3), (some false, .l4 2)]
  have h : ((Bq.runActs (Bq.init 1 2 true false) acts).map (·.panic)) = some true := by decide
  cases hr : Bq.runActs (Bq.init 1 2 true false) acts with
  | none => simp [hr] at h
  | some s => exact ⟨s, Bq.runActs_reach acts Bq.Reach.init hr, by simpa [hr] using h⟩

/-- after Close has returned: flag set, both channels closed, no closed-check has passed since -/
theorem C15_bcq_after {c b s} (h : Bq.Reach c b true true s) :
    s.late = 0 ∧ (s.closeDone = true → s.flag = true ∧ s.chanClosed = true ∧ s.loadClosed = true) := by
  have hi := Bq.inv_reach h
  exact ⟨hi.late0, fun hd => ⟨hi.doneFlag hd, hi.doneAll hd, (hi.chanFlag (hi.doneAll hd)).1⟩⟩

/-- calls whose first atom follows Close's last atom report it: Take/TakeWithTimeout/Poll → ErrQueueIsClosed,
    Offer/Put (under the lock) → ErrQueueIsClosed, Count → 0, IsClosed → true -/
theorem C15_bcq_after_reports {c b s ch s' nx} (h : Bq.Reach c b true true s) (hd : s.closeDone = true) :
    (∀ k, Bq.gstep s (.t0 k) ch = some (s', nx) → nx = .fin .closed) ∧
    (∀ v, Bq.gstep s (.o1 v) ch = some (s', nx) → nx = .fin .closed) ∧
    (Bq.gstep s .k0 ch = some (s', nx) → nx = .fin (.n 0)) ∧
    (Bq.gstep s .ic ch = some (s', nx) → nx = .fin (.b true)) := by
  have hf := (Bq.inv_reach h).doneFlag hd
  refine ⟨?_, ?_, ?_, ?_⟩
  · intro k hs
    obtain ⟨_, s1, hs1, _⟩ := Bq.gstep_some hs
    simp [Bq.step, hf] at hs1; exact hs1.2.symm
  · intro v hs
    obtain ⟨_, s1, hs1, _⟩ := Bq.gstep_some hs
    simp [Bq.step, hf] at hs1; exact hs1.2.symm
  · intro hs
    obtain ⟨_, s1, hs1, _⟩ := Bq.gstep_some hs
    simp [Bq.step, hf] at hs1; exact hs1.2.symm
  · intro hs
    obtain ⟨_, s1, hs1, _⟩ := Bq.gstep_some hs
    simp [Bq.step, hf] at hs1; exact hs1.2.symm

/-- no deadlock: once Close has begun, as long as any goroutine is inside the queue (a user mid-call, the closer,
    the loader) there is an occupied program-counter kind whose goroutine can take its next atom — whichever
    operation (Take / TakeWithTimeout / GetChannel …) or value it carries, and without any timeout firing
    (`choice = false`): blocked consumers are released by the closed channel, lock waiters by the lock holder,
    which never blocks -/
theorem C15_bcq_nodeadlock {c b s} (h : Bq.Reach c b true true s) (hcs : s.closeStarted = true)
    (hb : ∃ k, 0 < s.cnt k) :
    ∃ k, 0 < s.cnt k ∧ ∀ pc, Bq.kind pc = k → ∃ s' nx, Bq.gstep s pc false = some (s', nx) :=
  Bq.progressK (Bq.inv_reach h) hcs hb

/-- non-vacuity: two consumers blocked in Take on the empty queue while the Close has set the flag -/
example : ∃ s, Bq.Reach 1 1 true true s ∧ s.closeStarted = true ∧ 1 < s.cnt .rcv ∧ 0 < s.cnt .c1 := by
  let acts : List (Option Bool × Bq.PC) :=
    [(none, .t0 .take), (some false, .t0 .take), (some false, .n1 .take), (some false, .n2 .take),
     (none, .t0 .take), (some false, .t0 .take), (some false, .n1 .take), (some false, .n2 .take),
     (none, .c0), (some false, .c0)]
  have h : ((Bq.runActs (Bq.init 1 1 true true) acts).map (fun s => s.closeStarted && decide (1 < s.cnt .rcv) &&
      decide (0 < s.cnt .c1))) = some true := by decide
  cases hr : Bq.runActs (Bq.init 1 1 true true) acts with
  | none => simp [hr] at h
  | some s =>
    refine ⟨s, Bq.runActs_reach acts Bq.Reach.init hr, ?_⟩
    simp [hr] at h
    obtain ⟨⟨h1, h2⟩, h3⟩ := h
    exact ⟨h1, h2, h3⟩

/-! ## Coroutines -/

/-- no panic: nobody sends on the target's closed opCh (both before and after cb38847) -/
theorem C15_cor_safe {cap f s} (h : Co.Reach cap f s) : s.panic = false :=
  (Co.inv_reach h).nopanic

/-- after the target's close() has completed: IsDone, opCh closed, no done-check has passed since -/
theorem C15_cor_after {cap f s} (h : Co.Reach cap f s) :
    s.late = 0 ∧ (s.closeDone = true → s.gflag = true ∧ s.opClosed = true) := by
  have hi := Co.inv_reach h
  exact ⟨hi.late0, fun hd => ⟨(hi.done hd).1, (hi.done hd).2.1⟩⟩

/-- a YieldFrom whose first atom follows the completion of close() returns the zero value without queueing -/
theorem C15_cor_after_zero {cap f s id x ch s' nx} (h : Co.Reach cap f s) (hd : s.closeDone = true)
    (hs : Co.gstep s (.r0 id x) ch = some (s', nx)) : nx = .fin (.okv 0) ∧ s'.opCh = s.opCh := by
  have hi := Co.inv_reach h
  obtain ⟨hg, hop, _⟩ := hi.done hd
  obtain ⟨_, s1, hs1, rfl⟩ := Co.gstep_some hs
  have hr1 := (hi.opc hop).2.1
  simp [Co.step, hg, hr1] at hs1
  obtain ⟨rfl, rfl⟩ := hs1
  simp

/-- no deadlock (current code, cb38847): once the target's effect has returned, every goroutine still inside
    YieldFrom or close() can step until all have returned 
    Per-kind form as for the other components: some occupied kind `k` such that EVERY goroutine at `k` can step,
    whatever parameters it carries.  Only kind `w` (a caller waiting for the answer to its own request `id`) has a
    side condition, `Co.live`: the answer to that request is queued — the counters do not record which ids the
    waiting callers carry; when `k = w` is chosen the target is gone and queued answers exist (as many as waiting
    callers: `Inv.wcount`). -/
theorem C15_cor_nodeadlock {cap s} (h : Co.Reach cap true s) (hr : s.retStarted = true)
    (hb : 0 < s.cnt .r0 ∨ 0 < s.cnt .r1 ∨ 0 < s.cnt .w ∨ 0 < s.cnt .isd ∨
          0 < s.cnt .gc0 + s.cnt .gc1 + s.cnt .gc2 + s.cnt .gc3) :
    ∃ k, 0 < s.cnt k ∧ (k = .w → s.answers ≠ []) ∧
      ∀ pc, Co.kind pc = k → Co.live s pc → ∃ s' nx, Co.gstep s pc false = some (s', nx) :=
  Co.progressK (Co.inv_reach h) (Co.fixed_const h) hr hb

/-- the weaker form (some atom of some goroutine is enabled) -/
theorem C15_cor_nodeadlock_exists {cap s} (h : Co.Reach cap true s) (hr : s.retStarted = true)
    (hb : 0 < s.cnt .r0 ∨ 0 < s.cnt .r1 ∨ 0 < s.cnt .w ∨ 0 < s.cnt .isd ∨
          0 < s.cnt .gc0 + s.cnt .gc1 + s.cnt .gc2 + s.cnt .gc3) :
    ∃ pc ch s' nx, Co.gstep s pc ch = some (s', nx) :=
  Co.progress (Co.inv_reach h) (Co.fixed_const h) hr hb

/-- the code before cb38847 deadlocks: with opCh full a sender holds closedM inside the blocking send, the
    finishing target waits for closedM, and neither can step (capacity 1: two callers) -/
theorem C15_cor_unfixed_deadlock :
    ∃ s, Co.Reach 1 false s ∧ s.retStarted = true ∧ 0 < s.cnt .r1 ∧ 0 < s.cnt .gc2 ∧
      (Co.gstep s (.r1 2 6) false).isNone = true ∧ (Co.gstep s .gc2 false).isNone = true := by
  let acts : List (Option Bool × Co.PC) :=
    [(none, .r0 1 5), (some false, .r0 1 5), (some false, .r1 1 5), (none, .r0 2 6), (some false, .r0 2 6),
     (none, .gc0), (some false, .gc0), (some false, .gc1)]
  have h : ((Co.runActs (Co.init 1 false) acts).map (fun s => s.retStarted && decide (0 < s.cnt .r1) &&
      decide (0 < s.cnt .gc2) && (Co.gstep s (.r1 2 6) false).isNone && (Co.gstep s .gc2 false).isNone)) = some true := by decide
  cases hr : Co.runActs (Co.init 1 false) acts with
  | none => simp [hr] at h
  | some s =>
    refine ⟨s, Co.runActs_reach acts Co.Reach.init hr, ?_⟩
    simp [hr] at h
    obtain ⟨⟨⟨⟨h1, h2⟩, h3⟩, h4⟩, h5⟩ := h
    exact ⟨h1, h2, h3, by simpa using h4, by simpa using h5⟩

/-- the code before cb38847 strands callers: the target is done, a request it accepted sits unanswered in opCh
    and its caller waits on resultCh with no answer coming -/
theorem C15_cor_unfixed_stranded :
    ∃ s, Co.Reach 5 false s ∧ s.closeDone = true ∧ 0 < s.cnt .w ∧ s.answers = [] ∧ s.opCh ≠ [] := by
  let acts : List (Option Bool × Co.PC) :=
    [(none, .r0 1 5), (some false, .r0 1 5), (some false, .r1 1 5), (none, .gc0), (some false, .gc0), (some false, .gc1),
     (some false, .gc2)]
  have h : ((Co.runActs (Co.init 5 false) acts).map (fun s => s.closeDone && decide (0 < s.cnt .w) &&
      s.answers.isEmpty && !s.opCh.isEmpty)) = some true := by decide
  cases hr : Co.runActs (Co.init 5 false) acts with
  | none => simp [hr] at h
  | some s =>
    refine ⟨s, Co.runActs_reach acts Co.Reach.init hr, ?_⟩
    simp [hr] at h
    obtain ⟨⟨⟨h1, h2⟩, h3⟩, h4⟩ := h
    exact ⟨h1, h2, by simpa [List.isEmpty_iff] using h3, by simpa [List.isEmpty_iff] using h4⟩

/-! ## WorkerPool -/

/-- no goroutine panics on the pool's close path and the panic handler never sees a non-job panic -/
theorem C15_pool_safe {cap qc s} (h : Pl.Reach cap qc true s) : s.panic = false ∧ s.np = 0 :=
  ⟨(Pl.inv_reach h).nopanic, (Pl.inv_reach h).np0⟩

/-- the code before c8ecf0a: a worker's GetChannel() after the job queue was closed panics outside any job and
    the worker hands that panic to the pool's panic handler -/
theorem C15_pool_unfixed_handler : ∃ s, Pl.Reach 2 true false s ∧ s.np = 1 := by
  let acts : List (Option Bool × Pl.PC) :=
    [(some false, .w0), (none, .pc0), (some false, .pc0), (some false, .pc1), (some false, .qc1), (some false, .qc2),
     (some false, .w1), (some false, .w2)]
  have h : ((Pl.runActs (Pl.init 2 true false) acts).map (·.np)) = some 1 := by decide
  cases hr : Pl.runActs (Pl.init 2 true false) acts with
  | none => simp [hr] at h
  | some s => exact ⟨s, Pl.runActs_reach acts Pl.Reach.init hr, by simpa [hr] using h⟩

/-- after Close has returned the pool reports closed and no closed-check has passed since: Schedule returns
    ErrWorkerPoolIsClosed and enqueues nothing, so no job submitted afterwards can run -/
theorem C15_pool_after {cap qc s} (h : Pl.Reach cap qc true s) :
    s.late = 0 ∧ (s.closeDone = true → s.pflag = true) :=
  ⟨(Pl.inv_reach h).late0, (Pl.inv_reach h).doneFlag⟩

theorem C15_pool_after_reports {cap qc s j ch s' nx} (h : Pl.Reach cap qc true s) (hd : s.closeDone = true)
    (hs : Pl.gstep s (.s0 j) ch = some (s', nx)) : nx = .fin .pclosed ∧ s'.jobs = s.jobs := by
  have hf := (Pl.inv_reach h).doneFlag hd
  obtain ⟨_, s1, hs1, rfl⟩ := Pl.gstep_some hs
  simp [Pl.step, hf] at hs1
  obtain ⟨rfl, rfl⟩ := hs1
  simp

/-- no deadlock, Close closes the job queue (the default `isJobQueueClosedWhenClose`): once Close has begun, as long
    as any goroutine is inside the pool (a Schedule mid-call, the closer, a worker) there is an occupied program
    counter kind whose goroutine can take its next atom whatever job/parameters it carries — WITHOUT the workers'
    expiry timer (`choice = false`): lock waiters are released by the lock holder, which never blocks, and idle
    workers by the closed job channel.  Jobs terminate (gate open). -/
theorem C15_pool_nodeadlock {cap s} (h : Pl.Reach cap true true s) (hcs : s.closeStarted = true)
    (hg : s.gate = true) (hb : ∃ k, 0 < s.cnt k) :
    ∃ k, 0 < s.cnt k ∧ ∀ pc, Pl.kind pc = k → ∃ s' nx, Pl.gstep s pc false = some (s', nx) :=
  Pl.progress (Pl.inv_reach h) hg false (fun _ => ⟨Pl.qclose_const h, hcs⟩) hb

/-- no deadlock, any setting of `isJobQueueClosedWhenClose` and at any time (before, during, after the Close):
    the same with the expiry timer of idle workers allowed to fire (`choice = true`) — when the job queue stays
    open an idle worker notices the pool flag only after its `time.After` -/
theorem C15_pool_nodeadlock_timer {cap qc s} (h : Pl.Reach cap qc true s) (hg : s.gate = true)
    (hb : ∃ k, 0 < s.cnt k) :
    ∃ k, 0 < s.cnt k ∧ ∀ pc, Pl.kind pc = k → ∃ s' nx, Pl.gstep s pc true = some (s', nx) :=
  Pl.progress (Pl.inv_reach h) hg true (fun h => by cases h) hb

/-- non-vacuity: an idle worker waits on the empty job channel while the Close is between setting the queue
    flag and closing the channels, jobs may finish -/
example : ∃ s, Pl.Reach 2 true true s ∧ s.closeStarted = true ∧ s.gate = true ∧ 0 < s.cnt .w3 ∧ 0 < s.cnt .qc1 ∧
    s.jobs = [] := by
  let acts : List (Option Bool × Pl.PC) :=
    [(some false, .w0), (some false, .w1), (some false, .w2), (none, .pc0), (some false, .pc0), (some false, .pc1)]
  have h : ((Pl.runActs (Pl.init 2 true true) acts).map (fun s => s.closeStarted && decide (0 < s.cnt .w3) &&
      decide (0 < s.cnt .qc1) && s.jobs.isEmpty)) = some true := by decide
  cases hr : Pl.runActs (Pl.init 2 true true) acts with
  | none => simp [hr] at h
  | some s =>
    refine ⟨{ s with gate := true }, Pl.Reach.gate (Pl.runActs_reach acts Pl.Reach.init hr), ?_⟩
    simp [hr] at h
    obtain ⟨⟨⟨h1, h2⟩, h3⟩, h4⟩ := h
    exact ⟨h1, rfl, h2, h3, by simpa [List.isEmpty_iff] using h4⟩

/-! ## Executor: the driver's re-tabulation of the counters is the identity, so every state the directed-schedule
    executor visits is a `Reach` state of the component -/
theorem C15_exec_compact_mailbox (s : Mb.St) : Mb.compact s = s := Mb.compact_eq s
theorem C15_exec_compact_bcq (s : Bq.St) : Bq.compact s = s := Bq.compact_eq s
theorem C15_exec_compact_cor (s : Co.St) : Co.compact s = s := Co.compact_eq s
theorem C15_exec_compact_pool (s : Pl.St) : Pl.compact s = s := Pl.compact_eq s

/-- `Exec.run` is that fold followed by the final drain (definitional) -/
theorem C15_exec_run_eq {σ PC : Type} (ops : Ops σ PC) (e0 : Exec σ PC) (steps : List String) :
    Exec.run ops e0 steps =
      " ".intercalate ((execStates ops e0 steps).2.reverse ++ ["|", Exec.finish ops (execStates ops e0 steps).1]) := rfl

/-- every shared state the driver visits while executing ANY directed schedule line — after each step and after the
    final drain — is a `Reach` state of the component's transition system, so the safety / after-close / no-deadlock
    theorems above speak about exactly the states behind the predictions `handle` prints -/
theorem C15_exec_reach_mailbox (comp : String) (cap : Nat) (steps : List String) :
    Mb.Reach cap true (execStates (Mb.ops comp) (Mb.exec0 cap) steps).1.sh :=
  Exec.run_R (Mb.closed comp cap) steps _ Mb.Reach.init
theorem C15_exec_reach_bcq (c b : Nat) (steps : List String) :
    Bq.Reach c b true true (execStates Bq.ops (Bq.exec0 c b) steps).1.sh :=
  Exec.run_R (Bq.closed c b) steps _ Bq.Reach.init
theorem C15_exec_reach_cor (steps : List String) : Co.Reach 5 true (execStates Co.ops Co.exec0 steps).1.sh :=
  Exec.run_R Co.closed steps _ Co.Reach.init
theorem C15_exec_reach_pool (cap : Nat) (qc : Bool) (steps : List String) :
    Pl.Reach cap qc true (execStates Pl.ops (Pl.exec0 cap qc) steps).1.sh :=
  Exec.run_R (Pl.closed cap qc) steps _ Pl.Reach.init

/-- hence, e.g., no directed schedule whatsoever makes the model predict a panic (the `=panic` tokens of an
    observation can only come from the real code) -/
theorem C15_exec_never_panics_bcq (c b : Nat) (steps : List String) :
    (execStates Bq.ops (Bq.exec0 c b) steps).1.sh.panic = false :=
  C15_bcq_safe (C15_exec_reach_bcq c b steps)

/-! ## Protocol tie (regenerated from the repository on every run)
    `C15_body_*`: the exact statements of the small protocol functions (order of flag / close / send, lock mode,
    recover scope, guards).  `C15_skel_*`: the protocol skeleton of the larger functions.
    Both are compared as token lists (the strings cut at their blanks: same tokens, same order) because kernel
    string equality is quadratic in the length. -/

theorem C15_body_HandlerDef_Post : Gen.c15BodyToksOf "HandlerDef.Post" = some ["{", "if", "self.isClosed.Get()", "{", "return", "}", "defer", "func()", "{", "recover()", "}()", "self.ch", "<-", "fn", "}"] := by decide +kernel
theorem C15_body_HandlerDef_Close : Gen.c15BodyToksOf "HandlerDef.Close" = some ["{", "self.isClosed.Set(true)", "close(self.ch)", "}"] := by decide +kernel
theorem C15_body_HandlerDef_run : Gen.c15BodyToksOf "HandlerDef.run" = some ["{", "for", "fn", ":=", "range", "self.ch", "{", "fn()", "}", "}"] := by decide +kernel
theorem C15_body_ActorDef_Send : Gen.c15BodyToksOf "ActorDef.Send" = some ["{", "if", "self.isClosed.Get()", "{", "return", "}", "defer", "func()", "{", "recover()", "}()", "self.ch", "<-", "message", "}"] := by decide +kernel
theorem C15_body_ActorDef_Close : Gen.c15BodyToksOf "ActorDef.Close" = some ["{", "self.isClosed.Set(true)", "close(self.ch)", "}"] := by decide +kernel
theorem C15_body_ActorDef_run : Gen.c15BodyToksOf "ActorDef.run" = some ["{", "for", "message", ":=", "range", "self.ch", "{", "self.effect(self,", "message)", "}", "}"] := by decide +kernel
theorem C15_body_BufferedChannelQueue_notifyWorkers : Gen.c15BodyToksOf "BufferedChannelQueue.notifyWorkers" = some ["{", "self.lock.RLock()", "defer", "self.lock.RUnlock()", "if", "self.isClosed.Get()", "{", "return", "}", "self.loadWorkerCh.Offer(1)", "self.freeNodeWorkerCh.Offer(1)", "}"] := by decide +kernel
theorem C15_body_BufferedChannelQueue_Close : Gen.c15BodyToksOf "BufferedChannelQueue.Close" = some ["{", "self.lock.Lock()", "defer", "self.lock.Unlock()", "self.isClosed.Set(true)", "close(self.loadWorkerCh)", "close(self.blockingQueue)", "}"] := by decide +kernel
theorem C15_body_BufferedChannelQueue_Take : Gen.c15BodyToksOf "BufferedChannelQueue.Take" = some ["{", "if", "self.isClosed.Get()", "{", "return", "*new(T),", "ErrQueueIsClosed", "}", "self.notifyWorkers()", "return", "self.blockingQueue.Take()", "}"] := by decide +kernel
theorem C15_body_BufferedChannelQueue_TakeWithTimeout : Gen.c15BodyToksOf "BufferedChannelQueue.TakeWithTimeout" = some ["{", "if", "self.isClosed.Get()", "{", "return", "*new(T),", "ErrQueueIsClosed", "}", "self.notifyWorkers()", "return", "self.blockingQueue.TakeWithTimeout(timeout)", "}"] := by decide +kernel
theorem C15_body_BufferedChannelQueue_Poll : Gen.c15BodyToksOf "BufferedChannelQueue.Poll" = some ["{", "if", "self.isClosed.Get()", "{", "return", "*new(T),", "ErrQueueIsClosed", "}", "self.notifyWorkers()", "return", "self.blockingQueue.Poll()", "}"] := by decide +kernel
theorem C15_body_BufferedChannelQueue_GetChannel : Gen.c15BodyToksOf "BufferedChannelQueue.GetChannel" = some ["{", "self.notifyWorkers()", "return", "self.blockingQueue", "}"] := by decide +kernel
theorem C15_body_BufferedChannelQueue_Count : Gen.c15BodyToksOf "BufferedChannelQueue.Count" = some ["{", "if", "self.isClosed.Get()", "{", "return", "0", "}", "self.lock.RLock()", "defer", "self.lock.RUnlock()", "return", "len(self.blockingQueue)", "+", "self.pool.Count()", "}"] := by decide +kernel
theorem C15_body_BufferedChannelQueue_Put : Gen.c15BodyToksOf "BufferedChannelQueue.Put" = some ["{", "return", "self.Offer(val)", "}"] := by decide +kernel
theorem C15_body_ChannelQueue_Offer : Gen.c15BodyToksOf "ChannelQueue.Offer" = some ["{", "select", "{", "case", "self", "<-", "val:", "return", "nil", "default:", "return", "ErrQueueIsFull", "}", "}"] := by decide +kernel
theorem C15_body_ChannelQueue_Take : Gen.c15BodyToksOf "ChannelQueue.Take" = some ["{", "val,", "ok", ":=", "<-self", "if", "!ok", "{", "return", "*new(T),", "ErrQueueIsClosed", "}", "return", "val,", "nil", "}"] := by decide +kernel
theorem C15_body_ChannelQueue_Poll : Gen.c15BodyToksOf "ChannelQueue.Poll" = some ["{", "select", "{", "case", "val,", "ok", ":=", "<-self:", "if", "!ok", "{", "return", "*new(T),", "ErrQueueIsClosed", "}", "return", "val,", "nil", "default:", "return", "*new(T),", "ErrQueueIsEmpty", "}", "}"] := by decide +kernel
theorem C15_body_ChannelQueue_TakeWithTimeout : Gen.c15BodyToksOf "ChannelQueue.TakeWithTimeout" = some ["{", "select", "{", "case", "val,", "ok", ":=", "<-self:", "if", "!ok", "{", "return", "*new(T),", "ErrQueueIsClosed", "}", "return", "val,", "nil", "case", "<-time.After(timeout):", "return", "*new(T),", "ErrQueueTakeTimeout", "}", "}"] := by decide +kernel
theorem C15_body_CorDef_close : Gen.c15BodyToksOf "CorDef.close" = some ["{", "self.isClosed.Set(true)", "if", "self.doneCh", "!=", "nil", "{", "close(self.doneCh)", "}", "self.closedM.Lock()", "if", "self.resultCh", "!=", "nil", "{", "close(self.resultCh)", "}", "if", "self.opCh", "!=", "nil", "{", "close(self.opCh)", "}", "self.closedM.Unlock()", "if", "self.opCh", "!=", "nil", "{", "for", "op", ":=", "range", "self.opCh", "{", "if", "op", "!=", "nil", "&&", "op.cor", "!=", "nil", "{", "cor", ":=", "op.cor", "cor.doCloseSafe(func()", "{", "var", "zero", "T", "cor.resultCh", "<-", "zero", "})", "}", "}", "}", "}"] := by decide +kernel
theorem C15_body_CorDef_doCloseSafe : Gen.c15BodyToksOf "CorDef.doCloseSafe" = some ["{", "self.closedM.Lock()", "defer", "self.closedM.Unlock()", "if", "self.IsDone()", "{", "return", "}", "fn()", "}"] := by decide +kernel
theorem C15_body_CorDef_receive : Gen.c15BodyToksOf "CorDef.receive" = some ["{", "delivered", ":=", "false", "self.doCloseSafe(func()", "{", "if", "self.opCh", "!=", "nil", "{", "select", "{", "case", "self.opCh", "<-", "&CorOp[T]{cor:", "cor,", "val:", "in}:", "delivered", "=", "true", "case", "<-self.doneCh:", "}", "}", "})", "return", "delivered", "}"] := by decide +kernel
theorem C15_body_CorDef_YieldFrom : Gen.c15BodyToksOf "CorDef.YieldFrom" = some ["{", "var", "result", "T", "if", "self.IsDone()", "{", "return", "result", "}", "if", "!target.receive(self,", "in)", "{", "return", "result", "}", "result,", "_", "=", "<-self.resultCh", "return", "result", "}"] := by decide +kernel
theorem C15_body_CorDef_YieldRef : Gen.c15BodyToksOf "CorDef.YieldRef" = some ["{", "var", "result", "T", "if", "self.IsDone()", "{", "return", "result", "}", "var", "op", "*CorOp[T]", "var", "more", "bool", "op,", "more", "=", "<-self.opCh", "if", "more", "&&", "op", "!=", "nil", "&&", "op.cor", "!=", "nil", "{", "cor", ":=", "op.cor", "cor.doCloseSafe(func()", "{", "cor.resultCh", "<-", "out", "})", "}", "result", "=", "op.val", "return", "result", "}"] := by decide +kernel
theorem C15_body_CorDef_Start : Gen.c15BodyToksOf "CorDef.Start" = some ["{", "if", "self.IsDone()", "||", "self.isStarted.Get()", "{", "return", "}", "self.isStarted.Set(true)", "go", "func()", "{", "self.effect()", "self.close()", "}()", "}"] := by decide +kernel
theorem C15_body_DefaultWorkerPool_Close : Gen.c15BodyToksOf "worker.DefaultWorkerPool.Close" = some ["{", "if", "self.IsClosed()", "{", "return", "}", "self.isClosed.Set(true)", "if", "self.isJobQueueClosedWhenClose", "{", "self.jobQueue.Close()", "}", "}"] := by decide +kernel
theorem C15_body_DefaultWorkerPool_Schedule : Gen.c15BodyToksOf "worker.DefaultWorkerPool.Schedule" = some ["{", "if", "self.IsClosed()", "{", "return", "ErrWorkerPoolIsClosed", "}", "defer", "self.spawnWorkerCh.Offer(1)", "err", ":=", "self.jobQueue.Offer(fn)", "if", "err", "==", "fpgo.ErrQueueIsFull", "{", "return", "ErrWorkerPoolJobQueueIsFull", "}", "return", "err", "}"] := by decide +kernel
theorem C15_body_DefaultWorkerPool_IsClosed : Gen.c15BodyToksOf "worker.DefaultWorkerPool.IsClosed" = some ["{", "return", "self.isClosed.Get()", "}"] := by decide +kernel
theorem C15_body_DefaultInvokable_Invoke : Gen.c15BodyToksOf "worker.DefaultInvokable.Invoke" = some ["{", "callee", ":=", "self.callee", "self.workerPool.Schedule(func()", "{", "callee(val)", "})", "}"] := by decide +kernel
theorem C15_body_DefaultInvokable_InvokeWithTimeout : Gen.c15BodyToksOf "worker.DefaultInvokable.InvokeWithTimeout" = some ["{", "callee", ":=", "self.callee", "return", "self.workerPool.ScheduleWithTimeout(func()", "{", "callee(val)", "},", "timeout)", "}"] := by decide +kernel
theorem C15_body_AtomBool_Set : Gen.c15BodyToksOf "AtomBool.Set" = some ["{", "var", "i", "int32", "i", "=", "0", "if", "value", "{", "i", "=", "1", "}", "atomic.StoreInt32(&(self.flag),", "int32(i))", "}"] := by decide +kernel
theorem C15_body_AtomBool_Get : Gen.c15BodyToksOf "AtomBool.Get" = some ["{", "if", "atomic.LoadInt32(&(self.flag))", "!=", "0", "{", "return", "true", "}", "return", "false", "}"] := by decide +kernel
theorem C15_skel_BufferedChannelQueue_Offer : Gen.c15SkelToksOf "BufferedChannelQueue.Offer" = some ["call(lock.Lock)", "defer{call(lock.Unlock)}", "if[get(isClosed)", "call(isClosed.Get)]{return}", "get(pool)", "call(pool.Count)", "if[]{call(blockingQueue.Offer)", "if[]{return}else{if[]{}else{return}}}", "if[]{return}", "get(pool)", "call(pool.Offer)", "call(loadWorkerCh.Offer)", "return"] := by decide +kernel
theorem C15_skel_BufferedChannelQueue_loadFromPool : Gen.c15SkelToksOf "BufferedChannelQueue.loadFromPool" = some ["rangech(loadWorkerCh){if[get(isClosed)", "call(isClosed.Get)]{break}", "call(lock.Lock)", "if[get(isClosed)", "call(isClosed.Get)]{call(lock.Unlock)", "break}", "for[get(pool)", "call(pool.Count)]{get(pool)", "call(pool.Poll)", "if[]{break}", "call(blockingQueue.Offer)", "if[]{get(pool)", "call(pool.Unshift)", "break}}", "call(lock.Unlock)", "call(Sleep)}"] := by decide +kernel
theorem C15_skel_BufferedChannelQueue_freeNodePool : Gen.c15SkelToksOf "BufferedChannelQueue.freeNodePool" = some ["rangech(freeNodeWorkerCh){call(Sleep)", "if[get(isClosed)", "call(isClosed.Get)]{break}", "call(lock.Lock)", "if[get(pool)]{get(pool)", "call(pool.KeepNodePoolCount)}", "call(lock.Unlock)}"] := by decide +kernel
theorem C15_skel_NewBufferedChannelQueue : Gen.c15SkelToksOf "NewBufferedChannelQueue" = some ["call(NewLinkedListQueue)", "set(pool)", "call(NewChannelQueue)", "call(NewChannelQueue)", "call(NewChannelQueue)", "go{call(freeNodePool)}", "go{call(loadFromPool)}", "return"] := by decide +kernel
theorem C15_skel_HandlerDef_NewByCh : Gen.c15SkelToksOf "HandlerDef.NewByCh" = some ["go{call(run)}", "return"] := by decide +kernel
theorem C15_skel_ActorNewByOptionsGenerics : Gen.c15SkelToksOf "ActorNewByOptionsGenerics" = some ["go{call(run)}", "return"] := by decide +kernel
theorem C15_skel_DefaultWorkerPool_generateWorkerWithMaximum : Gen.c15SkelToksOf "worker.DefaultWorkerPool.generateWorkerWithMaximum" = some ["call(lock.Lock)", "defer{call(lock.Unlock)}", "if[get(workerCount)", "get(workerCount)]{return}", "get(workerCount)", "set(workerCount)", "go{defer{call(recover)", "if[]{if[]{callfn(handler)}}", "call(lock.Lock)", "if[]{get(workerCount)", "set(workerCount)}", "if[]{get(workerBusy)", "set(workerBusy)}", "call(lock.Unlock)", "if[]{call(spawnWorkerCh.Offer)}}", "for[]{if[call(IsClosed)]{return}", "select{call(jobQueue.GetChannel)", "recv(jobQueue.GetChannel())=>{if[]{call(lock.Lock)", "get(workerBusy)", "set(workerBusy)", "call(lock.Unlock)", "callfn(job)", "call(lock.Lock)", "get(workerBusy)", "set(workerBusy)", "call(lock.Unlock)}}", "|", "call(After)", "recv(After())=>{call(lock.Lock)", "get(workerCount)", "set(workerCount)", "if[]{get(workerCount)", "set(workerCount)", "call(lock.Unlock)", "break}", "call(lock.Unlock)}}}}"] := by decide +kernel
theorem C15_skel_DefaultWorkerPool_spawnLoop : Gen.c15SkelToksOf "worker.DefaultWorkerPool.spawnLoop" = some ["defer{call(recover)", "if[]{call(defaultPanicHandler)}}", "rangech(spawnWorkerCh){if[call(IsClosed)]{break}", "call(trySpawn)", "call(Sleep)}"] := by decide +kernel
theorem C15_skel_NewDefaultWorkerPool : Gen.c15SkelToksOf "worker.NewDefaultWorkerPool" = some ["call(NewChannelQueue)", "go{call(spawnLoop)}", "return"] := by decide +kernel

end FpgoVerif.C15
