import FpgoVerif.Model.C15
/-! Property theorems for C15 (none yet). -/
