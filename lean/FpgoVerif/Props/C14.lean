import FpgoVerif.Proofs.C14Inv
import FpgoVerif.Proofs.C14Progress
import FpgoVerif.Proofs.C14Wait
import FpgoVerif.Proofs.C14Run
import FpgoVerif.Gen.C15Bodies
/-! Property theorems for C14 — coroutines pair every YieldFrom with the matching YieldRef, in order, per caller.
    All theorems hold for any number of callers, any scripts, any opCh capacity, any generator `gen`, and every
    interleaving (`Reach`).  Hypothesis of the property ("the target still has YieldRefs to serve"): the target
    of this system never finishes (finishing = C15). -/
namespace FpgoVerif.C14

/-- conservation and per-caller order of requests: what caller i asked = what the target took from it (in order)
    ++ what is still queued ++ what it has not sent yet.  Nothing is lost, duplicated or reordered. -/
theorem C14_pair_requests {gen cap script sv s} (h : Reach gen cap script sv s) (i : Nat) :
    xsOf i s.served ++ chOf i s.opCh ++ s.pending i = script i := (inv_reach h).reqs i

/-- routing: the answers caller i has (received ++ waiting in its resultCh ++ being sent) are exactly the values
    yielded for ITS OWN requests, in its own order — never another caller's. -/
theorem C14_pair_answers {gen cap script sv s} (h : Reach gen cap script sv s) (i : Nat) :
    s.got i ++ s.resCh i ++ inflY i s.inflight = ysOf i s.served := (inv_reach h).ans i

/-- the k-th request taken returns its x to the YieldRef and is paired with the value the generator yields at
    that point -/
theorem C14_take_pairs {gen cap s s'} (h : step gen cap s .take = some s') :
    ∃ c x rest, s.opCh = (c, x) :: rest ∧ s'.served = s.served ++ [(c, x, gen (seenOf s.served))] ∧
      s'.inflight = some (c, x, gen (seenOf s.served)) := by
  simp only [step] at h
  split at h
  · rename_i c x rest _ hop
    simp only [Option.some.injEq] at h; subst h
    exact ⟨c, x, rest, hop, rfl, rfl⟩
  · simp at h

/-- a caller that has nothing outstanding any more got exactly y's of its requests and the target saw exactly its
    script: with one caller, its n YieldFrom calls return y1..yn and the target sees x1..xn -/
theorem C14_caller_complete {gen cap script sv s} (h : Reach gen cap script sv s) (i : Nat)
    (hp : s.pending i = []) (hq : chOf i s.opCh = []) (hr : s.resCh i = []) (hf : inflY i s.inflight = []) :
    xsOf i s.served = script i ∧ s.got i = ysOf i s.served := by
  have h1 := C14_pair_requests h i
  have h2 := C14_pair_answers h i
  rw [hp, hq] at h1
  rw [hr, hf] at h2
  exact ⟨by simpa using h1, by simpa using h2⟩

/-- a caller is inside a YieldFrom (`waiting`) iff exactly one item of its is on the way — its request queued in
    opCh, or taken and not yet answered, or the answer sitting in its resultCh; otherwise none is: no request or
    answer is duplicated on the way and none disappears while its caller waits -/
theorem C14_outstanding {gen cap script sv s} (h : Reach gen cap script sv s) (i : Nat) :
    (chOf i s.opCh).length + (inflY i s.inflight).length + (s.resCh i).length = if s.waiting i = true then 1 else 0 :=
  inv2_reach h i

/-- no value is lost to a stuck system: while any caller still has a request to make or is waiting for an answer,
    some atom is enabled (the target has YieldRefs left = the `take`/`answer` atoms exist; opCh has capacity ≥ 1).
    Together with `C14_caller_complete` every maximal run ends with all callers complete. -/
theorem C14_progress {gen cap script sv s} (h : Reach gen cap script sv s) (hcap : 0 < cap)
    (hw : ∃ i, s.pending i ≠ [] ∨ s.waiting i = true) : ∃ a s', step gen cap s a = some s' :=
  progress (inv2_reach h) hcap hw

/-- non-vacuity of `C14_progress`: the initial state of a one-caller system has a request to make -/
example : ∃ i, (init (mkScript [2]) none).pending i ≠ [] ∨ (init (mkScript [2]) none).waiting i = true :=
  ⟨0, Or.inl (by decide)⟩

/-- the run the driver executes for a `pair` / `zero` / `donotyf` case (round-robin over all atoms) is a path of the
    transition system: the invariants above hold of the very state `handle` evaluates its monitors on -/
theorem C14_run_reach {gen cap script sv} (n fuel : Nat) :
    Reach gen cap script sv (runRR gen cap n fuel (init script sv)) :=
  runRR_reach n fuel _ Reach.init

/-- non-vacuity: one caller with script [11, 12], generator "fixed": the run completes with both answers -/
example : (let s := runRR (shapeGen "fixed" false) 5 1 40 (init (mkScript [2]) none)
           (s.got 0, xsOf 0 s.served, s.pending 0)) = ([3, 10], [1, 2], []) := by decide

/-- StartWithVal hands its value to the first YieldRef: the first op the target ever takes is the callerless
    op carrying that value -/
theorem C14_startWithVal {gen cap script v s} (h : Reach gen cap script (some v) s) :
    (s.served = [] ∧ s.opCh.head? = some (none, v)) ∨ s.served.head? = some (none, v, gen []) := by
  induction h with
  | init => left; simp [init]
  | @step s0 s1 a _ hs ih =>
    cases a with
    | send i =>
      simp only [step] at hs
      split at hs
      · split at hs
        · simp only [Option.some.injEq] at hs; subst hs
          rcases ih with ⟨h1, h2⟩ | h2
          · left; refine ⟨h1, ?_⟩
            show (s0.opCh ++ _).head? = _
            cases hop : s0.opCh with
            | nil => rw [hop] at h2; simp at h2
            | cons a t => rw [hop] at h2; simpa using h2
          · right; exact h2
        · simp at hs
      · simp at hs
    | take =>
      obtain ⟨c, x, rest, hop, hsv, _⟩ := C14_take_pairs hs
      rcases ih with ⟨h1, h2⟩ | h2
      · right
        rw [hop] at h2; simp at h2
        obtain ⟨rfl, rfl⟩ := h2
        rw [hsv, h1]; simp [seenOf]
      · right
        rw [hsv]
        cases hs0 : s0.served with
        | nil => rw [hs0] at h2; simp at h2
        | cons a t => rw [hs0] at h2; simpa using h2
    | answer =>
      simp only [step] at hs
      split at hs
      · simp only [Option.some.injEq] at hs; subst hs; exact ih
      · simp only [Option.some.injEq] at hs; subst hs; exact ih
      · simp at hs
    | recv i =>
      simp only [step] at hs
      split at hs
      · split at hs
        · simp only [Option.some.injEq] at hs; subst hs; exact ih
        · simp at hs
      · simp at hs

/-- DoNotation returns the effect's result and YieldFromIO the IO's value, in EVERY interleaving of the calling
    goroutine (Add; Start/Subscribe; Wait; return result) with the goroutine that runs the effect / OnNext
    (result = v; Done): whatever is returned is `v` -/
theorem C14_doNotation {v s r} (h : DnReach v s) (hr : s.m = .ret r) : r = v := dn_ret h hr

/-- … and the call does return: until it has returned and the coroutine is done, some goroutine can step (Wait is
    released by Done; nothing else blocks) -/
theorem C14_doNotation_progress {v s} (h : DnReach v s) (hn : (∀ r, s.m ≠ .ret r) ∨ s.e ≠ .fin) :
    ∃ a s', dnStep v s a = some s' := dn_progress h hn

/-- the driver's `doNotation` (round-robin schedule of the same system) returns v -/
theorem C14_doNotation_run (v : Nat) : doNotation v = some v := rfl

/-- IsStarted / IsDone in every reachable state: IsStarted ⇔ Start has run (the effect goroutine exists — "becomes
    true when the effect starts"), IsDone ⇔ the effect has returned and close() has set the flag ("when it returns");
    never done before started -/
theorem C14_flags {v s} (h : DnReach v s) :
    (s.started = true ↔ s.e ≠ .idle) ∧ (s.done = true ↔ s.e = .fin) ∧ (s.done = true → s.started = true) :=
  dn_flags h

/-- the three observation points of the `flags` case on that system: false,false before Start; true,false while
    the effect runs; true,true after it returned (a test of the executable model, not the general claim) -/
theorem C14_flags_trace : flagsTrace.map (fun f => (f.started, f.done)) = [(false, false), (true, false), (true, true)] := by
  decide

/-- non-vacuity: the state in which the caller is blocked in Wait while the effect has stored but not signalled -/
example : ∃ s, DnReach 7 s ∧ s.m = .m2 ∧ s.e = .e1 ∧ s.wg = 1 :=
  ⟨dnRun 7 {} [.main, .main, .eff],
   DnReach.step .eff (DnReach.step .main (DnReach.step .main DnReach.init rfl) rfl) rfl, rfl, rfl, rfl⟩

/-! ### protocol tie: the exact current bodies of the coroutine functions (regenerated on every run) -/

theorem C14_body_YieldRef : Gen.c15BodyToksOf "CorDef.YieldRef" = some ["{", "var", "result", "T", "if", "self.IsDone()", "{", "return", "result", "}", "var", "op", "*CorOp[T]", "var", "more", "bool", "op,", "more", "=", "<-self.opCh", "if", "more", "&&", "op", "!=", "nil", "&&", "op.cor", "!=", "nil", "{", "cor", ":=", "op.cor", "cor.doCloseSafe(func()", "{", "cor.resultCh", "<-", "out", "})", "}", "result", "=", "op.val", "return", "result", "}"] := by decide +kernel
theorem C14_body_YieldFrom : Gen.c15BodyToksOf "CorDef.YieldFrom" = some ["{", "var", "result", "T", "if", "self.IsDone()", "{", "return", "result", "}", "if", "!target.receive(self,", "in)", "{", "return", "result", "}", "result,", "_", "=", "<-self.resultCh", "return", "result", "}"] := by decide +kernel
theorem C14_body_receive : Gen.c15BodyToksOf "CorDef.receive" = some ["{", "delivered", ":=", "false", "self.doCloseSafe(func()", "{", "if", "self.opCh", "!=", "nil", "{", "select", "{", "case", "self.opCh", "<-", "&CorOp[T]{cor:", "cor,", "val:", "in}:", "delivered", "=", "true", "case", "<-self.doneCh:", "}", "}", "})", "return", "delivered", "}"] := by decide +kernel
theorem C14_body_StartWithVal : Gen.c15BodyToksOf "CorDef.StartWithVal" = some ["{", "if", "self.IsDone()", "||", "self.isStarted.Get()", "{", "return", "}", "self.receive(nil,", "in)", "self.Start()", "}"] := by decide +kernel
theorem C14_body_Start : Gen.c15BodyToksOf "CorDef.Start" = some ["{", "if", "self.IsDone()", "||", "self.isStarted.Get()", "{", "return", "}", "self.isStarted.Set(true)", "go", "func()", "{", "self.effect()", "self.close()", "}()", "}"] := by decide +kernel
theorem C14_body_DoNotation : Gen.c15BodyToksOf "CorDef.DoNotation" = some ["{", "var", "result", "T", "var", "wg", "sync.WaitGroup", "wg.Add(1)", "var", "cor", "*CorDef[T]", "cor", "=", "CorNewGenerics[T](func()", "{", "result", "=", "effect(cor)", "wg.Done()", "})", "cor.Start()", "wg.Wait()", "return", "result", "}"] := by decide +kernel
theorem C14_body_YieldFromIO : Gen.c15BodyToksOf "CorDef.YieldFromIO" = some ["{", "var", "result", "T", "var", "wg", "sync.WaitGroup", "wg.Add(1)", "target.SubscribeOn(nil).Subscribe(Subscription[T]{", "OnNext:", "func(in", "T)", "{", "result", "=", "in", "wg.Done()", "},", "})", "wg.Wait()", "return", "result", "}"] := by decide +kernel
theorem C14_body_New : Gen.c15BodyToksOf "CorNewGenerics" = some ["{", "cor", ":=", "&CorDef[T]{", "effect:", "effect,", "opCh:", "make(chan", "*CorOp[T],", "5),", "resultCh:", "make(chan", "T,", "5),", "doneCh:", "make(chan", "struct{}),", "isStarted:", "AtomBool{flag:", "0},", "}", "return", "cor", "}"] := by decide +kernel
theorem C14_body_IsDone : Gen.c15BodyToksOf "CorDef.IsDone" = some ["{", "return", "self.isClosed.Get()", "}"] := by decide +kernel
theorem C14_body_IsStarted : Gen.c15BodyToksOf "CorDef.IsStarted" = some ["{", "return", "self.isStarted.Get()", "}"] := by decide +kernel
theorem C14_body_doCloseSafe : Gen.c15BodyToksOf "CorDef.doCloseSafe" = some ["{", "self.closedM.Lock()", "defer", "self.closedM.Unlock()", "if", "self.IsDone()", "{", "return", "}", "fn()", "}"] := by decide +kernel
theorem C14_body_close : Gen.c15BodyToksOf "CorDef.close" = some ["{", "self.isClosed.Set(true)", "if", "self.doneCh", "!=", "nil", "{", "close(self.doneCh)", "}", "self.closedM.Lock()", "if", "self.resultCh", "!=", "nil", "{", "close(self.resultCh)", "}", "if", "self.opCh", "!=", "nil", "{", "close(self.opCh)", "}", "self.closedM.Unlock()", "if", "self.opCh", "!=", "nil", "{", "for", "op", ":=", "range", "self.opCh", "{", "if", "op", "!=", "nil", "&&", "op.cor", "!=", "nil", "{", "cor", ":=", "op.cor", "cor.doCloseSafe(func()", "{", "var", "zero", "T", "cor.resultCh", "<-", "zero", "})", "}", "}", "}", "}"] := by decide +kernel

end FpgoVerif.C14
