import FpgoVerif.Model.C14
/-! Property theorems for C14 (none yet). -/
