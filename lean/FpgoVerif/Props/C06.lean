import FpgoVerif.Proofs.C06Hist
/-! Property theorems for C06 — "LinkedListQueue is a correct deque (queue + stack) for every operation
    sequence".  All statements are about the definitions the driver executes (`Model/C06.lean`):
    `run`/`step`/`offer`/… on the pointer-level heap, against `specRun`/`specStep` on the ideal sequence.
    `initWith pick` is `NewLinkedListQueue()` under an arbitrary behaviour `pick` of `sync.Pool.Get`. -/
namespace FpgoVerif.C06
local notation "Addr" => Nat

/-! ## The history theorems -/

/-- MAIN THEOREM.  For every finite history of Offer/Put/Push, Unshift, Poll/Take/Shift, Pop, Peek, Count,
    Clear, KeepNodePoolCount(n), ClearNodePool (and the bookkeeping probe), with arbitrary values and under
    every behaviour of the sync.Pool, every call on the pointer-level model returns exactly what the same call
    returns on the ideal double-ended sequence. -/
theorem C06_refine (pick : Nat → Nat) (ops : List Op) : run (initWith pick) ops = specRun ideal0 ops :=
  run_refines ops (abs_init pick)

/-- No history panics (no nil dereference) and no loop of Clear / putAllIntoPool / KeepNodePoolCount runs away. -/
theorem C06_no_panic_no_hang (pick : Nat → Nat) (ops : List Op) :
    ∀ o ∈ run (initWith pick) ops, o ≠ .panic ∧ o ≠ .hang := by
  rw [C06_refine]; exact spec_total ops ideal0

/-- What the driver prints for a case line is what the ideal deque prints, for every line. -/
theorem C06_handle_is_ideal (line : String) : handle line = specCase line := by
  simp only [handle, specCase, init, C06_refine]

/-- After every history the representation invariant holds for the ideal contents: a duplicate-free chain
    linked consistently in both directions holding exactly the ideal values, `count` = its length, a disjoint
    duplicate-free free list with `nodeCount` = its length = the ideal number of spare nodes, every node in the
    sync.Pool zeroed and unreachable. -/
theorem C06_invariant (pick : Nat → Nat) (ops : List Op) :
    ∃ chain pool, Rep (stateAfter (initWith pick) ops) (ops.foldl (fun s op => (specStep s op).1) ideal0).items chain pool ∧
      pool.length = (ops.foldl (fun s op => (specStep s op).1) ideal0).spare :=
  stateAfter_abs ops (abs_init pick)

/-- Which nodes `sync.Pool.Get` hands back is unobservable. -/
theorem C06_syncpool_choice_irrelevant (pick₁ pick₂ : Nat → Nat) (ops : List Op) :
    run (initWith pick₁) ops = run (initWith pick₂) ops := by
  rw [C06_refine, C06_refine]

/-- One call simulates one call of the ideal deque from any state satisfying the abstraction relation. -/
theorem C06_step_refines {q : Q} {s : Ideal} (h : Abs q s) (op : Op) :
    (step q op).2 = (specStep s op).2 ∧ Abs (step q op).1 (specStep s op).1 := step_refines h op

/-! ## The Spec says what the property says -/

/-- Removals report "empty" exactly when the sequence is empty and otherwise yield the head / the tail;
    Count is the length; pool maintenance and the probes do not change the stored values. -/
theorem C06_spec_meaning (s : Ideal) :
    ((specStep s .shift).2 = .empty ↔ s.items = []) ∧ ((specStep s .pop).2 = .empty ↔ s.items = []) ∧
    (∀ a t, s.items = a :: t → specStep s .shift = ({ items := t, spare := s.spare + 1 }, .ok a)) ∧
    (∀ l a, s.items = l ++ [a] → specStep s .pop = ({ items := l, spare := s.spare + 1 }, .ok a)) ∧
    (∀ a t, s.items = a :: t → specStep s .peek = (s, .ok a)) ∧
    (specStep s .count).2 = .n s.items.length ∧
    (∀ n, (specStep s (.keep n)).1.items = s.items) ∧ (specStep s .clearPool).1.items = s.items ∧
    (specStep s .poolInfo).1 = s ∧ (specStep s .count).1 = s ∧ (specStep s .peek).1 = s ∧
    (∀ v, (specStep s (.offer v)).1.items = s.items ++ [v]) ∧ (∀ v, (specStep s (.unshift v)).1.items = v :: s.items) ∧
    (specStep s .clear).1.items = [] := by
  refine ⟨?_, ?_, ?_, ?_, ?_, rfl, fun _ => rfl, rfl, rfl, rfl, ?_, fun _ => rfl, fun _ => rfl, rfl⟩
  · cases h : s.items <;> simp [specStep, h]
  · rcases List.eq_nil_or_concat s.items with h | ⟨l, a, h⟩
    · simp [specStep, h]
    · simp [specStep, h]
  · intro a t h; simp [specStep, h]
  · intro l a h; simp [specStep, h]
  · intro a t h; simp [specStep, h]
  · cases h : s.items <;> simp [specStep, h]

/-! ## Per-operation theorems (on the model's own definitions) -/

theorem C06_offer_refines {q : Q} {vs chain pool} (h : Rep q vs chain pool) (v : Int) :
    ∃ chain' pool', Rep (offer q v) (vs ++ [v]) chain' pool' ∧ pool'.length = pool.length - 1 := offer_rep h v

theorem C06_unshift_refines {q : Q} {vs chain pool} (h : Rep q vs chain pool) (v : Int) :
    ∃ chain' pool', Rep (unshift q v) (v :: vs) chain' pool' ∧ pool'.length = pool.length - 1 := unshift_rep h v

theorem C06_shift_refines {q : Q} {vs chain pool} (h : Rep q vs chain pool) :
    (vs = [] → shift true q = (q, .empty)) ∧
    (∀ v t, vs = v :: t → ∃ chain' pool', (shift true q).2 = .ok v ∧ Rep (shift true q).1 t chain' pool' ∧
      pool'.length = pool.length + 1) :=
  ⟨fun e => shift_empty (e ▸ h), fun _ _ e => shift_rep (e ▸ h)⟩

theorem C06_pop_refines {q : Q} {vs chain pool} (h : Rep q vs chain pool) :
    (vs = [] → pop true q = (q, .empty)) ∧
    (∀ t v, vs = t ++ [v] → ∃ chain' pool', (pop true q).2 = .ok v ∧ Rep (pop true q).1 t chain' pool' ∧
      pool'.length = pool.length + 1) :=
  ⟨fun e => pop_empty (e ▸ h), fun _ _ e => pop_rep (e ▸ h)⟩

theorem C06_peek_count_refine {q : Q} {vs chain pool} (h : Rep q vs chain pool) :
    (vs = [] → peek q = .empty) ∧ (∀ v t, vs = v :: t → peek q = .ok v) ∧ q.count = vs.length :=
  ⟨fun e => peek_empty (e ▸ h), fun _ _ e => peek_cons (e ▸ h), count_rep h⟩

/-- Clear terminates (the walk does not run out of fuel) and empties the sequence. -/
theorem C06_clear_refines {q : Q} {vs chain pool} (h : Rep q vs chain pool) :
    ∃ q', clear q = some q' ∧ Rep q' [] [] chain := clear_rep h

/-- ClearNodePool terminates and is the identity on the stored values. -/
theorem C06_clearNodePool_refines {q : Q} {vs chain pool} (h : Rep q vs chain pool) :
    ∃ q', clearNodePool q = some q' ∧ Rep q' vs chain [] := clearNodePool_rep h.toRep0

/-- KeepNodePoolCount(n) terminates, is the identity on the stored values, and leaves exactly max(n,0)
    nodes in the free list. -/
theorem C06_keepNodePoolCount_refines {q : Q} {vs chain pool} (h : Rep q vs chain pool) (n : Int) :
    ∃ q' pool', keepNodePoolCount q n = some q' ∧ Rep q' vs chain pool' ∧ pool'.length = n.toNat := by
  by_cases hn : n ≤ 0
  · obtain ⟨q', hc, hr'⟩ := clearNodePool_rep h.toRep0
    exact ⟨q', [], by simp [keepNodePoolCount, hn, hc], hr', by simp; omega⟩
  · exact keep_pos_rep h.toRep0 n (by omega)

/-- The bookkeeping probe: the counter and the walked length of the free list agree. -/
theorem C06_nodeCount_is_pool_length {q : Q} {vs chain pool} (h : Rep q vs chain pool) :
    q.nodeCount = pool.length ∧ walkLen (q.fresh + 1) q.next q.poolFirst = some pool.length :=
  ⟨h.hnode, walkLen_spec _ h.hpool h.pool_len_lt⟩

/-- `sync.Pool.Get` under its contract (returns a node that was Put, as it is, or a new zeroed one): under the
    invariant the node is always zeroed and unknown to the queue — the fact generateNode/KeepNodePoolCount rely on. -/
theorem C06_syncpool_get_zeroed {q : Q} {vs chain pool} (h : Rep q vs chain pool) :
    Rep0 (poolGet q).1 vs chain pool ∧ (poolGet q).2 ∉ chain ++ pool ∧
      (poolGet q).1.next (poolGet q).2 = none ∧ (poolGet q).1.prev (poolGet q).2 = none ∧
      (poolGet q).1.val (poolGet q).2 = none := by
  obtain ⟨h0, _, hn, _, _, h1, h2, h3⟩ := poolGet_spec h.toRep0 (poolGet q).1 (poolGet q).2 rfl
  exact ⟨h0, hn, h1, h2, h3⟩

/-! ## Non-vacuity: states satisfying the hypotheses -/

example : Abs init ideal0 := abs_init _
example : Rep init [] [] [] := by
  obtain ⟨c, p, h, _⟩ := abs_init (fun _ => 0)
  have hc : c = [] := by have := h.length_eq; simpa [ideal0] using this.symm
  have hp : p = [] := by subst hc; exact (show Seg init.next none p from h.hpool).nil_of_none
  subst hc; subst hp; exact h
/-- a two-element queue with a recycled node in the free list -/
example : ∃ chain pool, Rep (shift true (offer (offer (offer init 1) 2) 3)).1 [2, 3] chain pool ∧ pool.length = 1 := by
  obtain ⟨c, p, h, hl⟩ := abs_init (fun _ => 0)
  obtain ⟨c1, p1, h1, hl1⟩ := offer_rep h 1
  obtain ⟨c2, p2, h2, hl2⟩ := offer_rep h1 2
  obtain ⟨c3, p3, h3, hl3⟩ := offer_rep h2 3
  obtain ⟨c4, p4, _, h4, hl4⟩ := shift_rep (v := 1) (vs := [2, 3]) h3
  have hl0 : p.length = 0 := hl
  exact ⟨c4, p4, h4, by omega⟩
/-- the main theorem is not about trivial outputs -/
example : run init [.offer 1, .offer 2, .unshift 0, .pop, .shift, .count, .clear, .poolInfo, .shift] =
    [.nil, .nil, .nil, .ok 2, .ok 0, .n 1, .nil, .pool 1 (some 1), .empty] := by decide

/-! ## Refutation of the pinned (pre-`e2a196c`) code: both manifestations of the dangling link -/

/-- The pinned code dereferences nil on Offer, Offer, Shift, Pop, Poll. -/
theorem C06_pinned_code_panics :
    runF false init [.offer 1, .offer 2, .shift, .pop, .shift] = [.nil, .nil, .ok 1, .ok 2, .panic] := by decide

/-- The pinned code loops forever in Clear after Offer, Offer, Pop, Unshift (the dangling `Next` closes a cycle
    through the recycled node: the walk needs more steps than there are nodes). -/
theorem C06_pinned_code_clear_hangs :
    runF false init [.offer 1, .offer 2, .pop, .unshift 3, .clear] = [.nil, .nil, .ok 2, .nil, .hang] := by decide

/-- …so the pinned code violates the property (it is not a refinement of the ideal deque), while the
    current code handles the same two histories (instance of `C06_refine`). -/
theorem C06_pinned_code_refuted :
    ¬ (∀ ops, runF false init ops = specRun ideal0 ops) := by
  intro h
  have := h [.offer 1, .offer 2, .shift, .pop, .shift]
  rw [C06_pinned_code_panics] at this
  revert this; decide

end FpgoVerif.C06
