import FpgoVerif.Proofs.C06Rep
/-! Property theorems for C06 (LinkedListQueue is a correct deque).  Work in progress: see DESIGN.md. -/
namespace FpgoVerif.C06

/-- The pinned (pre-fix) code dereferences nil on Offer, Offer, Shift, Pop, Poll. -/
theorem C06_pinned_code_panics :
    (let q := offer (offer init 1) 2
     let q := (shift false q).1
     let q := (pop false q).1
     (shift false q).2) = Out.panic := by decide

/-- `Offer` preserves the representation invariant and appends to the abstract sequence. -/
theorem C06_offer_refines {q : Q} {vs chain pool} (h : Rep q vs chain pool) (v : Int) :
    ∃ chain' pool', Rep (offer q v) (vs ++ [v]) chain' pool' :=
  let ⟨p, hp⟩ := offer_rep h v; ⟨_, p, hp⟩

end FpgoVerif.C06
