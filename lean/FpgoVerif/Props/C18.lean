import FpgoVerif.Proofs.C18
/-! Property theorems for C18 — "Interceptors run once each, in order, before the transport; an error
    aborts".  All statements are about the definitions the driver executes (`recursiveVisit`,
    `setHTTPClient`, `addInterceptor`, … of Model/C18.lean). -/
namespace FpgoVerif.C18

/-! ## the specification has the shape the property states -/

/-- **once each, in registration order.**  The interceptors invoked for a request form a prefix of the
    registered list (so every registered occurrence runs at most once, and in order). -/
theorem C18_spec_prefix (beh : Nat → Req → Req × Bool) (tf : Tr → Bool) (t : Tr) (is : List Nat) (req : Req) :
    icptIds (Spec.visit beh tf t is req).1 <+: is := by
  induction is generalizing req with
  | nil => simp [Spec.visit, icptIds]
  | cons i rest ih =>
    unfold Spec.visit
    by_cases hf : (beh i req).2 = true
    · simp only [hf, if_true, icptIds]
      exact ⟨rest, rfl⟩
    · have hf' : (beh i req).2 = false := by simpa using hf
      simp only [hf', Bool.false_eq_true, if_false]
      obtain ⟨r, hr⟩ := ih (beh i req).1
      refine ⟨r, ?_⟩
      show i :: (icptIds (Spec.visit beh tf t rest (beh i req).1).1 ++ r) = i :: rest
      rw [hr]

/-- **no interceptor error: all run, then the transport sees the request exactly once, with every header
    change** — also when the transport itself then fails (`terr`), whatever kind of error it returns: one
    transport event, nothing re-run. -/
theorem C18_spec_ok (beh : Nat → Req → Req × Bool) (tf : Tr → Bool) (t : Tr) (is : List Nat) (req : Req)
    (h : (Spec.visit beh tf t is req).2 = .ok ∨ (Spec.visit beh tf t is req).2 = .terr) :
    icptIds (Spec.visit beh tf t is req).1 = is ∧
    transports (Spec.visit beh tf t is req).1 = [(t, thread beh req is)] ∧
    (Spec.visit beh tf t is req).1.getLast? = some (.transport t (thread beh req is)) := by
  induction is generalizing req with
  | nil => simp [Spec.visit, icptIds, transports, thread]
  | cons i rest ih =>
    unfold Spec.visit at h ⊢
    by_cases hf : (beh i req).2 = true
    · simp [hf] at h
    · have hf' : (beh i req).2 = false := by simpa using hf
      simp only [hf', Bool.false_eq_true, if_false] at h ⊢
      obtain ⟨h1, h2, h3⟩ := ih (beh i req).1 h
      refine ⟨by simp [icptIds, h1], by simp [transports, h2, thread], ?_⟩
      have hne : (Spec.visit beh tf t rest (beh i req).1).1 ≠ [] := by
        intro e; simp [e] at h3
      rw [List.getLast?_cons_of_ne_nil hne] <;> simp [h3, thread]

/-- **an error aborts:** the failing interceptor is the last thing invoked — later interceptors and the
    transport are not — it saw the headers its predecessors left, every predecessor passed, and its
    error is the result. -/
theorem C18_spec_err (beh : Nat → Req → Req × Bool) (tf : Tr → Bool) (t : Tr) (is : List Nat) (req : Req) (i : Nat)
    (h : (Spec.visit beh tf t is req).2 = .err i) :
    transports (Spec.visit beh tf t is req).1 = [] ∧
    ∃ pre post, is = pre ++ i :: post ∧ icptIds (Spec.visit beh tf t is req).1 = pre ++ [i] ∧
      (beh i (thread beh req pre)).2 = true ∧
      (Spec.visit beh tf t is req).1.getLast? = some (.icpt i (thread beh req pre)) := by
  induction is generalizing req with
  | nil => cases htf : tf t <;> simp [Spec.visit, htf] at h
  | cons j rest ih =>
    unfold Spec.visit at h ⊢
    by_cases hf : (beh j req).2 = true
    · simp only [hf, if_true] at h ⊢
      have hji : j = i := by injection h
      subst hji
      exact ⟨rfl, [], rest, rfl, rfl, hf, rfl⟩
    · have hf' : (beh j req).2 = false := by simpa using hf
      simp only [hf', Bool.false_eq_true, if_false] at h ⊢
      obtain ⟨h1, pre, post, h2, h3, h4, h5⟩ := ih (beh j req).1 h
      refine ⟨by simp [transports, h1], j :: pre, post, by simp [h2], by simp [icptIds, h3], by simpa [thread] using h4, ?_⟩
      have hne : (Spec.visit beh tf t rest (beh j req).1).1 ≠ [] := by
        intro e; simp [e] at h5
      rw [List.getLast?_cons_of_ne_nil hne]
      simpa [thread] using h5

/-- the result of a request is success, the transport's own failure, or the error of a registered
    interceptor — never a panic/crash -/
theorem C18_spec_total (beh : Nat → Req → Req × Bool) (tf : Tr → Bool) (t : Tr) (is : List Nat) (req : Req) :
    (Spec.visit beh tf t is req).2 = .ok ∨ (Spec.visit beh tf t is req).2 = .terr ∨
      ∃ i ∈ is, (Spec.visit beh tf t is req).2 = .err i := by
  induction is generalizing req with
  | nil => cases h : tf t <;> simp [Spec.visit, h]
  | cons j rest ih =>
    unfold Spec.visit
    by_cases hf : (beh j req).2 = true
    · simp [hf]
    · have hf' : (beh j req).2 = false := by simpa using hf
      simp only [hf', Bool.false_eq_true, if_false]
      rcases ih (beh j req).1 with h | h | ⟨i, hi, h⟩
      · exact Or.inl h
      · exact Or.inr (Or.inl h)
      · exact Or.inr (Or.inr ⟨i, by simp [hi], h⟩)

/-! ## the code's index-walking `recursiveVisit` is that specification -/

/-- **visit clause.**  Whenever the wrapped transport is not the SimpleHTTP itself, `RoundTrip`
    (= `recursiveVisit request 0`, any sufficient fuel) produces exactly the prescribed call log and result,
    for every interceptor list, behaviour and request. -/
theorem C18_visit (beh : Nat → Req → Req × Bool) (tf : Tr → Bool) (s : SH) (t : Tr) (ht : s.clientTransport = some t)
    (hne : t ≠ .self) (fuel : Nat) (hfuel : s.interceptors.length + 1 ≤ fuel) (req : Req) :
    recursiveVisit beh tf s fuel req 0 = Spec.visit beh tf t s.interceptors req := by
  have := visit_eq beh tf s t ht hne fuel req 0 (Nat.zero_le _) (by omega)
  simpa using this

/-- non-vacuity + a concrete instance: interceptors 3,5,3 with 5 failing -/
example : recursiveVisit (behOf [5]) (fun _ => false) ⟨[3, 5, 3], 0, some (.stub 1), some .self⟩ 10 [] 0 =
    ([.icpt 3 [], .icpt 5 [3]], .err 5) := by decide

/-- a wrapped transport that IS the SimpleHTTP (what a double wrap would produce) runs the chain again and
    again — the model's `crash` (Go: fatal stack overflow) -/
theorem C18_self_transport_recurses :
    (recursiveVisit (behOf []) (fun _ => false) ⟨[1], 0, some .self, some .self⟩ 8 [] 0) =
      ([.icpt 1 [], .icpt 1 [1], .icpt 1 [1, 1], .icpt 1 [1, 1, 1]], .crash) := by decide

/-! ## bookkeeping -/

/-- **bookkeeping clause.**  After any history of `AddInterceptor` / `RemoveInterceptor` /
    `ClearInterceptor` (any argument lists, duplicates allowed) the registered list is: appended in order;
    every occurrence of every named pointer removed, the others untouched and in order; empty. -/
theorem C18_book (s : SH) (ops : List Op) :
    (ops.foldl applyOp s).interceptors = Spec.book s.interceptors ops := by
  induction ops generalizing s with
  | nil => rfl
  | cons op ops ih =>
    rw [List.foldl_cons, ih]
    cases op with
    | add xs => simp [applyOp, addInterceptor, foldl_append_eq, Spec.book]
    | rem xs => simp [applyOp, removeInterceptor, foldl_minus_eq, Spec.book]
    | clear => simp [applyOp, clearInterceptor, Spec.book]

/-- bookkeeping touches nothing but the list -/
theorem C18_book_frame (s : SH) (ops : List Op) :
    (ops.foldl applyOp s).client = s.client ∧ (ops.foldl applyOp s).clientTransport = s.clientTransport ∧
    (ops.foldl applyOp s).lastTransport = s.lastTransport := by
  induction ops generalizing s with
  | nil => exact ⟨rfl, rfl, rfl⟩
  | cons op ops ih =>
    rw [List.foldl_cons]
    obtain ⟨h1, h2, h3⟩ := ih (applyOp s op)
    cases op <;> simp_all [applyOp, addInterceptor, removeInterceptor, clearInterceptor]

example : (([Op.add [1, 2, 1], .rem [1], .add [3, 3]].foldl applyOp ⟨[0], 0, none, none⟩).interceptors) = [0, 2, 3, 3] := by
  decide

/-! ## bookkeeping never writes into existing storage -/

/-- **"affect exactly the named interceptors", at the level of Go slices.**  Whatever slice the instance currently
    holds — in particular the CALLER's own slice handed to `NewSimpleHTTPWithClientAndInterceptors(client, defaults...)`, with
    or without spare capacity — any history of Add/Remove/Clear (i) leaves every backing array that existed before with
    exactly its content, so the caller's slice and every other instance built from it read as before, and (ii) makes
    the instance's list the one `Spec.book` prescribes. -/
theorem C18_storage (st : Store) (sl : Sl) (ops : List Op) :
    (∀ other : Sl, other.arr < st.length → readS (ops.foldl applyOpS (st, sl)).1 other = readS st other) ∧
    readS (ops.foldl applyOpS (st, sl)).1 (ops.foldl applyOpS (st, sl)).2 = Spec.book (readS st sl) ops := by
  suffices h : Grows st (ops.foldl applyOpS (st, sl)).1 ∧
      readS (ops.foldl applyOpS (st, sl)).1 (ops.foldl applyOpS (st, sl)).2 = Spec.book (readS st sl) ops from
    ⟨fun other ho => h.1.read other ho, h.2⟩
  induction ops generalizing st sl with
  | nil => exact ⟨Grows.refl st, rfl⟩
  | cons op ops ih =>
    rw [List.foldl_cons]
    obtain ⟨g1, r1⟩ := applyOpS_spec (st, sl) op
    obtain ⟨g2, r2⟩ := ih (applyOpS (st, sl) op).1 (applyOpS (st, sl) op).2
    refine ⟨g1.trans g2, ?_⟩
    rw [r2, r1]
    have := C18_book ⟨readS st sl, 0, none, none⟩ [op]
    simp only [List.foldl_cons, List.foldl_nil] at this
    rw [this]
    cases op <;> rfl

/-- non-vacuity / the seeded defect on the model: the caller's slice `[1, 2]` with two spare slots, Clear then Add 3 —
    the current mechanism leaves the caller's array alone; a `[:0]`-truncating Clear followed by the built-in `append`
    would write 3 over the caller's 1 -/
example :
    let st : Store := [[1, 2, 0, 0]]
    let r := [Op.clear, .add [3]].foldl applyOpS (st, ⟨0, 2⟩)
    readS r.1 ⟨0, 2⟩ = [1, 2] ∧ readS r.1 r.2 = [3] ∧
    -- in-place variant: same slice header with len 0, then write at index 0 of the SAME array
    (([[1, 2, 0, 0]] : Store).map (fun a => a.set 0 3))[0]? = some [3, 2, 0, 0] := by decide

/-! ## SetHTTPClient: never wrapped twice, never recursive -/

/-- the invariant: the current client's transport is the SimpleHTTP, the wrapped transport is not -/
structure Inv (s : SH) (cs : Clients) : Prop where
  client : cs[s.client]? = some (some Tr.self)
  last : s.lastTransport = some .self
  wrapped : ∃ t, s.clientTransport = some t ∧ t ≠ .self

/-- **SetHTTPClient never wraps twice.**  One `SetHTTPClient(c)` with ANY client of the pool — from a state in which the
    SimpleHTTP is already installed somewhere (`lastTransport = self`, wrapped transport ≠ self), or from the fresh state of
    the constructor (no client refers to the SimpleHTTP yet) — establishes the invariant: the current client's transport is
    the SimpleHTTP, the wrapped transport is not; the interceptor list and the pool size are untouched. -/
theorem C18_setHTTPClient_inv (s : SH) (cs : Clients) (c : Nat) (hc : c < cs.length)
    (h : s.lastTransport = some .self ∧ (∃ t, s.clientTransport = some t ∧ t ≠ .self) ∨
         s.lastTransport = none ∧ ∀ k : Nat, cs[k]? ≠ some (some Tr.self)) :
    Inv (setHTTPClient s cs c).1 (setHTTPClient s cs c).2 ∧
    (setHTTPClient s cs c).1.interceptors = s.interceptors ∧ (setHTTPClient s cs c).2.length = cs.length := by
  unfold setHTTPClient
  have hget : cs[c]? = some cs[c] := List.getElem?_eq_getElem hc
  by_cases hne : some (((cs[c]?).getD none).getD Tr.dflt) ≠ s.lastTransport
  · rw [if_pos hne]
    refine ⟨⟨by simp [hc], rfl, ((cs[c]?).getD none).getD Tr.dflt, rfl, ?_⟩, rfl, by simp⟩
    intro e
    rcases h with ⟨h1, _⟩ | ⟨_, h2⟩
    · exact hne (by rw [e, h1])
    · apply h2 c
      rw [hget] at e ⊢
      cases hcc : cs[c] with
      | none => simp [hcc] at e
      | some t => simp [hcc] at e; simp [e]
  · rw [if_neg hne]
    have heq : some (((cs[c]?).getD none).getD Tr.dflt) = s.lastTransport := Classical.not_not.mp hne
    rcases h with ⟨h1, h2⟩ | ⟨h1, _⟩
    · rw [h1] at heq
      simp only [Option.some.injEq] at heq
      refine ⟨⟨?_, h1, h2⟩, rfl, by simp⟩
      show (cs.set c (some (((cs[c]?).getD none).getD Tr.dflt)))[c]? = some (some Tr.self)
      rw [heq]; simp [hc]
    · rw [h1] at heq; simp at heq

/-- `SetHTTPClient(c)` touches no client but `c` (so instances that own distinct clients — as every instance made by
    `NewSimpleHTTP()` / `NewSimpleAPI(url)` does, each with its fresh `&http.Client{}` — cannot chain into each other:
    the invariant of one instance only mentions its own client) -/
theorem C18_client_frame (s : SH) (cs : Clients) (c k : Nat) (hk : c ≠ k) :
    (setHTTPClient s cs c).2[k]? = cs[k]? := by
  unfold setHTTPClient
  by_cases h : some (((cs[c]?).getD none).getD Tr.dflt) ≠ s.lastTransport
  · simp only [h, ne_eq, not_false_eq_true, if_true]
    simp [List.getElem?_set_ne hk]
  · simp only [h, if_false]
    simp [List.getElem?_set_ne hk]

/-- … and the invariant of an instance survives anything done to OTHER clients (another instance's constructor or
    `SetHTTPClient`, a fresh client being allocated) -/
theorem C18_inv_other_clients (s : SH) (cs cs' : Clients) (h : Inv s cs) (hsame : cs'[s.client]? = cs[s.client]?) :
    Inv s cs' := ⟨by rw [hsame]; exact h.client, h.last, h.wrapped⟩

/-- a history: bookkeeping operations and `SetHTTPClient` calls in any order -/
inductive HOp
  | book (op : Op)
  | set (c : Nat)
  | retr (t : Option Tr)     -- c := GetHTTPClient(); c.Transport = t; SetHTTPClient(c)

def runH (st : SH × Clients) : List HOp → SH × Clients
  | [] => st
  | .book op :: h => runH (applyOp st.1 op, st.2) h
  | .set c :: h => runH (setHTTPClient st.1 st.2 c) h
  | .retr t :: h => runH (setHTTPClient st.1 (st.2.set st.1.client t) st.1.client) h

def bookOf : List HOp → List Op
  | [] => []
  | .book op :: h => op :: bookOf h
  | .set _ :: h => bookOf h
  | .retr _ :: h => bookOf h

def setsValid (n : Nat) : List HOp → Prop
  | [] => True
  | .book _ :: h => setsValid n h
  | .set c :: h => c < n ∧ setsValid n h
  | .retr t :: h => t ≠ some Tr.self ∧ setsValid n h

/-- the invariant is preserved by every history of bookkeeping operations and `SetHTTPClient` calls, and the registered
    list after the history is the one `Spec.book` prescribes (the induction behind `C18_client`) -/
theorem C18_runH_inv (st : SH × Clients) (h : List HOp) (hinv : Inv st.1 st.2) (hv : setsValid st.2.length h) :
    Inv (runH st h).1 (runH st h).2 ∧ (runH st h).1.interceptors = Spec.book st.1.interceptors (bookOf h) := by
  induction h generalizing st with
  | nil => exact ⟨hinv, rfl⟩
  | cons op h ih =>
    cases op with
    | book op =>
      have hi : Inv (applyOp st.1 op) st.2 := by
        have hf := C18_book_frame st.1 [op]
        simp only [List.foldl_cons, List.foldl_nil] at hf
        exact ⟨by rw [hf.1]; exact hinv.client, by rw [hf.2.2]; exact hinv.last, by rw [hf.2.1]; exact hinv.wrapped⟩
      obtain ⟨h1, h2⟩ := ih (applyOp st.1 op, st.2) hi hv
      refine ⟨h1, ?_⟩
      simp only [runH, bookOf]
      rw [h2]
      have := C18_book st.1 [op]
      simp only [List.foldl_cons, List.foldl_nil] at this
      cases op <;> simp [this, Spec.book]
    | set c =>
      obtain ⟨hc, hv'⟩ := hv
      obtain ⟨hi, his, hlen⟩ := C18_setHTTPClient_inv st.1 st.2 c hc (Or.inl ⟨hinv.last, hinv.wrapped⟩)
      obtain ⟨h1, h2⟩ := ih (setHTTPClient st.1 st.2 c) hi (by rw [hlen]; exact hv')
      exact ⟨h1, by simp only [runH, bookOf]; rw [h2, his]⟩
    | retr t =>
      obtain ⟨_, hv'⟩ := hv
      have hcl : st.1.client < st.2.length := by
        have := hinv.client
        exact (List.getElem?_eq_some_iff.mp this).1
      have hlen' : (st.2.set st.1.client t).length = st.2.length := by simp
      obtain ⟨hi, his, hlen⟩ := C18_setHTTPClient_inv st.1 (st.2.set st.1.client t) st.1.client (by rw [hlen']; exact hcl)
        (Or.inl ⟨hinv.last, hinv.wrapped⟩)
      obtain ⟨h1, h2⟩ := ih (setHTTPClient st.1 (st.2.set st.1.client t) st.1.client) hi (by rw [hlen, hlen']; exact hv')
      exact ⟨h1, by simp only [runH, bookOf]; rw [h2, his]⟩

/-- **client clause.**  Create a SimpleHTTP with any client `c` and interceptors `is` (no client can refer
    to the not-yet-existing SimpleHTTP), then apply ANY history of bookkeeping operations and
    `SetHTTPClient` calls with any clients of the pool (the same ones again, fresh ones, nil / default /
    custom transports) — including the usual idiom of taking the instance's OWN client, replacing its `Transport` and
    handing it back (`retr`).  Every request through the current client then runs the chain exactly once — the
    prescribed call log for the bookkeeping history — and ends in a transport `t` that is not the
    SimpleHTTP: no double wrap, no recursion. -/
theorem C18_client (beh : Nat → Req → Req × Bool) (tf : Tr → Bool) (cs : Clients) (c : Nat) (is : List Nat) (h : List HOp)
    (hc : c < cs.length) (hfresh : ∀ k : Nat, cs[k]? ≠ some (some Tr.self)) (hv : setsValid cs.length h) (req : Req) :
    let st := runH (newSimpleHTTP cs c is) h
    ∃ t, t ≠ .self ∧ st.1.clientTransport = some t ∧
      clientDo beh tf st.1 st.2 req = Spec.visit beh tf t (Spec.book is (bookOf h)) req := by
  intro st
  obtain ⟨hi0, his0, hlen0⟩ := C18_setHTTPClient_inv ⟨is, c, none, none⟩ cs c hc (Or.inr ⟨rfl, hfresh⟩)
  obtain ⟨hinv, hbook⟩ := C18_runH_inv (newSimpleHTTP cs c is) h hi0 (by unfold newSimpleHTTP; rw [hlen0]; exact hv)
  obtain ⟨t, ht, hne⟩ := hinv.wrapped
  refine ⟨t, hne, ht, ?_⟩
  unfold clientDo
  have hcl := hinv.client
  simp only [st] at *
  rw [hcl]
  simp only [Option.getD_some]
  rw [C18_visit beh tf _ t ht hne _ (by unfold fuelFor; omega) req, hbook]
  unfold newSimpleHTTP
  rw [his0]

example : setsValid 3 [.set 1, .book (.add [4]), .retr (some (.stub 7)), .set 1, .retr none, .set 2, .set 0] ∧
    (∀ k : Nat, ([some (Tr.stub 0), none, some Tr.dflt] : Clients)[k]? ≠ some (some Tr.self)) := by
  refine ⟨by simp [setsValid], fun k => ?_⟩
  rcases k with _ | _ | _ | k <;> simp

end FpgoVerif.C18
