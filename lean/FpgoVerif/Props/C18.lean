import FpgoVerif.Model.C18
/-! Property theorems for C18 (none yet). -/
