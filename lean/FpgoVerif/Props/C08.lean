import FpgoVerif.Proofs.C08Lin
import FpgoVerif.Proofs.C08OverLLQ
import FpgoVerif.Gen.LockModes
import FpgoVerif.Gen.Skeletons
/-! Property theorems for C08 — ConcurrentQueue / ConcurrentStack are linearizable over any wrapped
    queue / stack.  `step`, `run`, `Reach`, `queueSys`, `stackSys` are the definitions the driver executes.

    Dependency (not imported): C06 proves that `LinkedListQueue` refines the ideal deque `qApply`/`sApply`
    used here as the wrapped object; the generic theorems hold for ANY sequential object. -/
namespace FpgoVerif.C08

variable {σ Op ρ : Type}

/-- **Linearizability, generic.**  For any sequential object and any reachable state of the system in which
    every method takes the lock exclusively (any number of threads, any interleaving, any length):
    (1) the linearization `lin` (operations in commit = lock-acquisition order) is a legal sequential
    history of the object — running `apply` one operation at a time from `init` yields exactly the recorded
    return values and the current state of the wrapped object (never a torn state);
    (2) `lin` is strictly ordered by its time stamps;
    (3) every completed call took effect at one point strictly between its invocation and its response
    and returned what that point of the sequential history returned. -/
theorem C08_linearizable (sys : Sys σ Op ρ) (hx : ∀ op, sys.mode op = .excl) (s : State σ Op ρ)
    (h : Reach sys s) :
    seqRun sys.apply sys.init (s.lin.map (·.op)) = (s.obj, s.lin.map (·.ret)) ∧
    s.lin.Pairwise (fun a b => a.linAt < b.linAt) ∧
    ∀ d ∈ s.done, d.invAt < d.linAt ∧ d.linAt < d.retAt ∧ (⟨d.t, d.op, d.ret, d.linAt⟩ : LinE Op ρ) ∈ s.lin :=
  let i := reach_inv sys hx h
  ⟨i.seq, i.sorted, fun d hd => let ⟨a, b, _, c⟩ := i.doneOK d hd; ⟨a, b, c⟩⟩

/-- the order is consistent with real time: a call that returned before another was invoked is linearized
    earlier; two completed calls never share a linearization entry -/
theorem C08_real_time_order (sys : Sys σ Op ρ) (hx : ∀ op, sys.mode op = .excl) (s : State σ Op ρ)
    (h : Reach sys s) :
    (∀ d1 ∈ s.done, ∀ d2 ∈ s.done, d1.retAt < d2.invAt → d1.linAt < d2.linAt) ∧
    s.done.Pairwise (fun a b => a.linAt ≠ b.linAt) := by
  have i := reach_inv sys hx h
  refine ⟨?_, i.doneDistinct⟩
  intro d1 h1 d2 h2 hlt
  have a := i.doneOK d1 h1
  have b := i.doneOK d2 h2
  omega

/-- every single return value is the one the sequential object gives at that position of the linearization -/
theorem C08_each_return_is_sequential (sys : Sys σ Op ρ) (hx : ∀ op, sys.mode op = .excl) (s : State σ Op ρ)
    (h : Reach sys s) (pre post : List (LinE Op ρ)) (e : LinE Op ρ) (hl : s.lin = pre ++ e :: post) :
    e.ret = (sys.apply (seqRun sys.apply sys.init (pre.map (·.op))).1 e.op).2 := by
  have hs := (reach_inv sys hx h).seq
  rw [hl] at hs
  simp only [List.map_append, List.map_cons] at hs
  rw [seqRun_append] at hs
  have h2 := congrArg Prod.snd hs
  simp only [seqRun] at h2
  have hlen : (seqRun sys.apply sys.init (pre.map (·.op))).2.length = (pre.map (·.ret)).length := by
    rw [seqRun_length]; simp
  have := (List.append_inj h2 hlen).2
  simp at this
  exact this.1.symm

/-- the linearization order IS the lock-acquisition order: the threads of `lin` are exactly the sequence of
    lock acquisitions, up to the one thread that holds the lock and has not committed yet -/
theorem C08_lin_is_acquisition_order (sys : Sys σ Op ρ) (hx : ∀ op, sys.mode op = .excl) (s : State σ Op ρ)
    (h : Reach sys s) :
    s.acqs = s.lin.map (·.t) ∨ ∃ t, precommit (s.pc t) ∧ s.acqs = s.lin.map (·.t) ++ [t] := by
  have i := reach_inv sys hx h
  by_cases hp : ∃ t, precommit (s.pc t)
  · obtain ⟨t, ht⟩ := hp
    exact Or.inr ⟨t, ht, i.acqPre t ht⟩
  · exact Or.inl (i.acqDone (fun t ht => hp ⟨t, ht⟩))

/-- mutual exclusion: at most one thread is between acquisition and release, and it owns the lock -/
theorem C08_mutual_exclusion (sys : Sys σ Op ρ) (hx : ∀ op, sys.mode op = .excl) (s : State σ Op ρ)
    (h : Reach sys s) (t1 t2 : Nat) (h1 : holding (s.pc t1)) (h2 : holding (s.pc t2)) : t1 = t2 := by
  have i := reach_inv sys hx h
  have a := i.holder t1 h1
  have b := i.holder t2 h2
  rw [a] at b; cases b; rfl

/-- no deadlock on the lock: whenever a thread waits for the lock, either it can take it now or the
    current holder has an enabled step (towards its deferred unlock) -/
theorem C08_lock_progress (sys : Sys σ Op ρ) (hx : ∀ op, sys.mode op = .excl) (s : State σ Op ρ)
    (h : Reach sys s) (t : Nat) (op : Op) (i : Nat) (hw : s.pc t = .waiting op i) :
    (step sys s (.acq t)).isSome ∨
    ∃ u, (step sys s (.read u)).isSome ∨ (step sys s (.commit u)).isSome ∨ (step sys s (.rel u)).isSome :=
  lock_progress sys hx h t op i hw

/-- whatever the driver executes (complete calls `inv; acq; read; commit; rel`, seeded schedules) is a `run`
    from a reachable state, hence reachable: the theorems apply to every state the driver visits -/
theorem C08_driver_runs_reachable (sys : Sys σ Op ρ) (s s' : State σ Op ρ) (acts : List (Act Op))
    (h : Reach sys s) (hr : run sys s acts = some s') : Reach sys s' :=
  reach_run sys acts h hr

/-! ### instantiation: the wrapped object is the ideal deque -/

-- `queueSys_excl` / `stackSys_excl` (every method of the current code is exclusive) live in Proofs/C08Lin.lean

/-- **ConcurrentQueue: FIFO, exactly-once, no phantom.**  In every reachable state the values removed so far
    (in linearization order) followed by the current content are exactly the values offered so far (in
    linearization order): a removal never returns a value that was not offered, never returns one twice,
    and removals come out in the order of the offers. -/
theorem C08_queue_fifo_conservation (s : State (List Int) QOp Ret) (h : Reach queueSys s) :
    okVals (s.lin.map (·.ret)) ++ s.obj = offered (s.lin.map (·.op)) := by
  have hs := (reach_inv queueSys queueSys_excl h).seq
  have := queue_conservation (s.lin.map (·.op)) []
  have e : queueSys.apply = qApply := rfl
  have e2 : queueSys.init = [] := rfl
  rw [e, e2] at hs
  rw [hs] at this
  simpa using this

/-- once the queue is drained, every offered value has been removed exactly once, in FIFO order -/
theorem C08_queue_drained_exactly_once (s : State (List Int) QOp Ret) (h : Reach queueSys s)
    (hd : s.obj = []) : okVals (s.lin.map (·.ret)) = offered (s.lin.map (·.op)) := by
  have := C08_queue_fifo_conservation s h
  rw [hd] at this; simpa using this

/-- no phantom and at most once (as multiset inequality): every value is removed at most as often as it
    was offered -/
theorem C08_queue_at_most_once (s : State (List Int) QOp Ret) (h : Reach queueSys s) (v : Int) :
    (okVals (s.lin.map (·.ret))).count v ≤ (offered (s.lin.map (·.op))).count v := by
  rw [← C08_queue_fifo_conservation s h, List.count_append]; omega

/-- a removal reports `empty` only if the queue is empty at its linearization point -/
theorem C08_queue_empty_only_if_empty (s : State (List Int) QOp Ret) (h : Reach queueSys s)
    (pre post : List (LinE QOp Ret)) (e : LinE QOp Ret) (hl : s.lin = pre ++ e :: post)
    (he : e.ret = .empty) : (seqRun qApply [] (pre.map (·.op))).1 = [] := by
  have := C08_each_return_is_sequential queueSys queueSys_excl s h pre post e hl
  rw [he] at this
  have e1 : queueSys.apply = qApply := rfl
  have e2 : queueSys.init = [] := rfl
  rw [e1, e2] at this
  generalize (seqRun qApply [] (pre.map (·.op))).1 = q at this ⊢
  cases hop : e.op <;> cases q <;> simp [hop, qApply] at this ⊢

/-- **ConcurrentStack: exactly-once, no phantom** (the LIFO discipline itself is clause (1) of
    `C08_linearizable` for `sApply`: each Pop returns the last element of the sequential content) -/
theorem C08_stack_conservation (s : State (List Int) SOp Ret) (h : Reach stackSys s) :
    (okVals (s.lin.map (·.ret)) ++ s.obj).Perm (pushed (s.lin.map (·.op))) := by
  have hs := (reach_inv stackSys stackSys_excl h).seq
  have := stack_conservation (s.lin.map (·.op)) []
  have e : stackSys.apply = sApply := rfl
  have e2 : stackSys.init = [] := rfl
  rw [e, e2] at hs
  rw [hs] at this
  simpa using this

theorem C08_stack_empty_only_if_empty (s : State (List Int) SOp Ret) (h : Reach stackSys s)
    (pre post : List (LinE SOp Ret)) (e : LinE SOp Ret) (hl : s.lin = pre ++ e :: post)
    (he : e.ret = .empty) : (seqRun sApply [] (pre.map (·.op))).1 = [] := by
  have := C08_each_return_is_sequential stackSys stackSys_excl s h pre post e hl
  rw [he] at this
  have e1 : stackSys.apply = sApply := rfl
  have e2 : stackSys.init = [] := rfl
  rw [e1, e2] at this
  generalize (seqRun sApply [] (pre.map (·.op))).1 = q at this ⊢
  cases hop : e.op with
  | push v => simp [hop, sApply] at this
  | pop =>
    cases hq : q.getLast? with
    | none => simpa using hq
    | some a => simp [hop, sApply, hq] at this

/-! ### "over any wrapped queue/stack": a BOUNDED wrapped object (Offer/Put/Push can report full)

    `C08_linearizable`, `C08_real_time_order`, `C08_each_return_is_sequential`, `C08_mutual_exclusion` are generic
    and apply verbatim to `boundedQueueSys cap` / `boundedStackSys cap` (the harness wraps a deliberately
    non-thread-safe ring buffer of capacity `cap` that counts overlapping entries). -/

/-- bounded queue: removed ++ content = the values whose insertion was ACCEPTED, in linearization order (FIFO,
    exactly once, no phantom; a rejected value never appears), and the content never exceeds the capacity -/
theorem C08_bounded_queue_conservation (cap : Nat) (s : State (List Int) QOp Ret) (h : Reach (boundedQueueSys cap) s) :
    okVals (s.lin.map (·.ret)) ++ s.obj = acceptedQ (s.lin.map (·.op)) (s.lin.map (·.ret)) ∧ s.obj.length ≤ cap := by
  have hs := (reach_inv (boundedQueueSys cap) (boundedQueueSys_excl cap) h).seq
  have e : (boundedQueueSys cap).apply = qApplyB cap := rfl
  have e2 : (boundedQueueSys cap).init = [] := rfl
  rw [e, e2] at hs
  have h1 := bqueue_conservation cap (s.lin.map (·.op)) []
  have h2 := bqueue_bound cap (s.lin.map (·.op)) [] (by simp)
  rw [hs] at h1 h2
  exact ⟨by simpa using h1, h2⟩

/-- an insertion reports `full` only if the bounded queue is full at its linearization point, `empty` only if
    it is empty there -/
theorem C08_bounded_queue_full_only_if_full (cap : Nat) (s : State (List Int) QOp Ret) (h : Reach (boundedQueueSys cap) s)
    (pre post : List (LinE QOp Ret)) (e : LinE QOp Ret) (hl : s.lin = pre ++ e :: post) :
    (e.ret = .full → cap ≤ (seqRun (qApplyB cap) [] (pre.map (·.op))).1.length) ∧
    (e.ret = .empty → (seqRun (qApplyB cap) [] (pre.map (·.op))).1 = []) := by
  have := C08_each_return_is_sequential (boundedQueueSys cap) (boundedQueueSys_excl cap) s h pre post e hl
  have e1 : (boundedQueueSys cap).apply = qApplyB cap := rfl
  have e2 : (boundedQueueSys cap).init = [] := rfl
  rw [e1, e2] at this
  generalize (seqRun (qApplyB cap) [] (pre.map (·.op))).1 = q at this ⊢
  constructor
  · intro he; rw [he] at this
    cases hop : e.op <;> simp [hop, qApplyB] at this
    · by_cases hq : q.length < cap
      · simp [hq] at this
      · omega
    · by_cases hq : q.length < cap
      · simp [hq] at this
      · omega
    · cases q <;> simp at this
    · cases q <;> simp at this
  · intro he; rw [he] at this
    cases hop : e.op <;> simp [hop, qApplyB] at this
    · by_cases hq : q.length < cap <;> simp [hq] at this
    · by_cases hq : q.length < cap <;> simp [hq] at this
    · cases q <;> simp at this ⊢
    · cases q <;> simp at this ⊢

/-- bounded stack: the content never exceeds the capacity (LIFO, exactly-once etc. are clause (1) of
    `C08_linearizable` for `sApplyB cap`) -/
theorem C08_bounded_stack_bound (cap : Nat) (s : State (List Int) SOp Ret) (h : Reach (boundedStackSys cap) s) :
    s.obj.length ≤ cap ∧
    seqRun (sApplyB cap) [] (s.lin.map (·.op)) = (s.obj, s.lin.map (·.ret)) := by
  have hs := (reach_inv (boundedStackSys cap) (boundedStackSys_excl cap) h).seq
  have e : (boundedStackSys cap).apply = sApplyB cap := rfl
  have e2 : (boundedStackSys cap).init = [] := rfl
  rw [e, e2] at hs
  have h2 := bstack_bound cap (s.lin.map (·.op)) [] (by simp)
  rw [hs] at h2
  exact ⟨h2, hs⟩

/-- non-vacuity: capacity 1, the second Offer reports full, after a Poll there is room again -/
example : (run (boundedQueueSys 1) (initState (boundedQueueSys 1))
      [.inv 0 (.offer 1), .acq 0, .read 0, .commit 0, .rel 0, .inv 1 (.put 2), .acq 1, .read 1, .commit 1, .rel 1,
       .inv 2 .poll, .acq 2, .read 2, .commit 2, .rel 2, .inv 1 (.put 2), .acq 1, .read 1, .commit 1, .rel 1]).map
      (fun s => (s.done.map (·.ret), s.obj)) = some ([.nil, .full, .ok 1, .nil], [2]) := by decide

/-! ### over the POINTER-LEVEL LinkedListQueue (C06 imported, not assumed)

    `llqQueueSys pick` / `llqStackSys pick` are the generic concurrent system with σ := `C06.Q` (the heap of
    doubly linked nodes with first/last/count and the free list), apply := `C06.step` (the statement-by-statement
    model of Offer / Shift / Pop that C06 proves correct), Ret := `C06.Obs` (which HAS `panic` and `hang`), `pick` =
    any behaviour of sync.Pool.Get.  The theorems compose `C08_linearizable` (this file) with `C06_step_refines` /
    `abs_init` (C06): nothing about LinkedListQueue is assumed any more. -/

/-- **ConcurrentQueue over the real LinkedListQueue.**  In every reachable state (any threads, any interleaving):
    (a) the returns in linearization order are exactly the ideal FIFO deque's sequential returns, and the
        linearization order is the lock-acquisition order; every completed call took effect between its
        invocation and response and returned its entry of that run;
    (b) no call returns `panic` (nil dereference) or `hang` (runaway loop), and the heap satisfies C06's
        representation invariant for the ideal content — consistent forward/backward links, `count` = length,
        disjoint zeroed free list — in EVERY reachable state, including while calls are in flight: the wrapped
        structure is never corrupted;
    (c) hence FIFO conservation: removed ++ content = offered. -/
theorem C08_over_linkedListQueue (pick : Nat → Nat) (s : State C06.Q QOp C06.Obs) (h : Reach (llqQueueSys pick) s) :
    s.lin.map (·.ret) = (seqRun qApply [] (s.lin.map (·.op))).2.map obsOfRet ∧
    (s.acqs = s.lin.map (·.t) ∨ ∃ t, precommit (s.pc t) ∧ s.acqs = s.lin.map (·.t) ++ [t]) ∧
    (∀ d ∈ s.done, d.invAt < d.linAt ∧ d.linAt < d.retAt ∧ (⟨d.t, d.op, d.ret, d.linAt⟩ : LinE QOp C06.Obs) ∈ s.lin ∧
      d.ret ≠ .panic ∧ d.ret ≠ .hang) ∧
    (∀ e ∈ s.lin, e.ret ≠ .panic ∧ e.ret ≠ .hang) ∧
    (∃ chain pool, C06.Rep s.obj (seqRun qApply [] (s.lin.map (·.op))).1 chain pool) ∧
    okVals (seqRun qApply [] (s.lin.map (·.op))).2 ++ (seqRun qApply [] (s.lin.map (·.op))).1 = offered (s.lin.map (·.op)) := by
  have hx := llqQueueSys_excl pick
  obtain ⟨hseq, _, hdone⟩ := C08_linearizable (llqQueueSys pick) hx s h
  obtain ⟨hr, spare, chain, pool, hrep, _⟩ := llq_seq llqOpQ qApply spec_q pick (s.lin.map (·.op))
  have e1 : (llqQueueSys pick).apply = fun q op => C06.step q (llqOpQ op) := rfl
  have e2 : (llqQueueSys pick).init = C06.initWith pick := rfl
  rw [e1, e2] at hseq
  rw [hseq] at hr hrep
  simp only at hr hrep
  have hlin : ∀ e ∈ s.lin, e.ret ≠ .panic ∧ e.ret ≠ .hang := by
    intro e he
    have : e.ret ∈ s.lin.map (·.ret) := List.mem_map.mpr ⟨e, he, rfl⟩
    rw [hr] at this
    obtain ⟨r, _, hre⟩ := List.mem_map.mp this
    rw [← hre]; exact obsOfRet_ne r
  refine ⟨hr, C08_lin_is_acquisition_order (llqQueueSys pick) hx s h, ?_, hlin, ⟨chain, pool, hrep⟩, ?_⟩
  · intro d hd
    obtain ⟨a, b, c⟩ := hdone d hd
    have := hlin _ c
    exact ⟨a, b, c, this.1, this.2⟩
  · simpa using queue_conservation (s.lin.map (·.op)) []

/-- **ConcurrentStack over the real LinkedListQueue** (Push = Offer at the tail, Pop from the tail): the same
    four clauses against the ideal LIFO stack `sApply`, with conservation popped ++ content ~ pushed. -/
theorem C08_over_linkedListQueue_stack (pick : Nat → Nat) (s : State C06.Q SOp C06.Obs) (h : Reach (llqStackSys pick) s) :
    s.lin.map (·.ret) = (seqRun sApply [] (s.lin.map (·.op))).2.map obsOfRet ∧
    (s.acqs = s.lin.map (·.t) ∨ ∃ t, precommit (s.pc t) ∧ s.acqs = s.lin.map (·.t) ++ [t]) ∧
    (∀ d ∈ s.done, d.invAt < d.linAt ∧ d.linAt < d.retAt ∧ (⟨d.t, d.op, d.ret, d.linAt⟩ : LinE SOp C06.Obs) ∈ s.lin ∧
      d.ret ≠ .panic ∧ d.ret ≠ .hang) ∧
    (∀ e ∈ s.lin, e.ret ≠ .panic ∧ e.ret ≠ .hang) ∧
    (∃ chain pool, C06.Rep s.obj (seqRun sApply [] (s.lin.map (·.op))).1 chain pool) ∧
    (okVals (seqRun sApply [] (s.lin.map (·.op))).2 ++ (seqRun sApply [] (s.lin.map (·.op))).1).Perm (pushed (s.lin.map (·.op))) := by
  have hx := llqStackSys_excl pick
  obtain ⟨hseq, _, hdone⟩ := C08_linearizable (llqStackSys pick) hx s h
  obtain ⟨hr, spare, chain, pool, hrep, _⟩ := llq_seq llqOpS sApply spec_s pick (s.lin.map (·.op))
  have e1 : (llqStackSys pick).apply = fun q op => C06.step q (llqOpS op) := rfl
  have e2 : (llqStackSys pick).init = C06.initWith pick := rfl
  rw [e1, e2] at hseq
  rw [hseq] at hr hrep
  simp only at hr hrep
  have hlin : ∀ e ∈ s.lin, e.ret ≠ .panic ∧ e.ret ≠ .hang := by
    intro e he
    have : e.ret ∈ s.lin.map (·.ret) := List.mem_map.mpr ⟨e, he, rfl⟩
    rw [hr] at this
    obtain ⟨r, _, hre⟩ := List.mem_map.mp this
    rw [← hre]; exact obsOfRet_ne r
  refine ⟨hr, C08_lin_is_acquisition_order (llqStackSys pick) hx s h, ?_, hlin, ⟨chain, pool, hrep⟩, ?_⟩
  · intro d hd
    obtain ⟨a, b, c⟩ := hdone d hd
    have := hlin _ c
    exact ⟨a, b, c, this.1, this.2⟩
  · simpa using stack_conservation (s.lin.map (·.op)) []

/-- non-vacuity: three threads overlap on the pointer-level queue; the heap really is a linked structure (a
    recycled node sits in the free list: `nodeCount = 1`), and the returns are the deque's -/
example : (run (llqQueueSys (fun _ => 0)) (initState (llqQueueSys (fun _ => 0)))
      [.inv 0 (.offer 7), .inv 1 .poll, .inv 2 (.put 8), .acq 1, .read 1, .commit 1, .rel 1,
       .acq 2, .read 2, .commit 2, .rel 2, .acq 0, .read 0, .commit 0, .rel 0,
       .inv 1 .take, .acq 1, .read 1, .commit 1]).map
      (fun s => (s.done.map (·.ret), s.lin.map (·.ret), s.obj.count, s.obj.nodeCount, s.lock)) =
    some ([.empty, .nil, .nil], [.empty, .nil, .nil, .ok 8], 1, 1, .excl 1) := by decide

example : (run (llqStackSys (fun _ => 0)) (initState (llqStackSys (fun _ => 0)))
      [.inv 0 (.push 1), .inv 1 (.push 2), .acq 1, .read 1, .commit 1, .rel 1, .acq 0, .read 0, .commit 0, .rel 0,
       .inv 2 .pop, .acq 2, .read 2, .commit 2, .rel 2]).map (fun s => (s.done.map (·.ret), s.obj.count)) =
    some ([.nil, .nil, .ok 1], 1) := by decide

/-- the clause "no call returns panic" is not vacuous: the same lock protocol over the PRE-FIX LinkedListQueue
    (`C06.stepF false`, all of its methods, C06's refutation history Offer, Offer, Shift, Pop, Shift executed
    call by call under the exclusive lock) does return `panic` -/
example : (run (⟨C06.init, C06.stepF false, fun _ => .excl⟩ : Sys C06.Q C06.Op C06.Obs)
      (initState ⟨C06.init, C06.stepF false, fun _ => .excl⟩)
      [.inv 0 (.offer 1), .acq 0, .read 0, .commit 0, .rel 0, .inv 1 (.offer 2), .acq 1, .read 1, .commit 1, .rel 1,
       .inv 0 .shift, .acq 0, .read 0, .commit 0, .rel 0, .inv 1 .pop, .acq 1, .read 1, .commit 1, .rel 1,
       .inv 2 .shift, .acq 2, .read 2, .commit 2, .rel 2]).map (fun s => s.done.map (·.ret)) =
    some [.nil, .nil, .ok 1, .ok 2, .panic] := by decide

/-! ### the pre-fix code is refuted -/

/-- the schedule: one Offer(1) completes; two consumers enter Poll under RLock together, both read the
    head before either writes it back -/
def rlockWitness : List (Act QOp) :=
  [.inv 0 (.offer 1), .acq 0, .read 0, .commit 0, .rel 0,
   .inv 1 .poll, .inv 2 .poll, .acq 1, .acq 2, .read 1, .read 2, .commit 1, .commit 2, .rel 1, .rel 2]

/-- With `RLock` around Take/Poll (the pinned code) the single offered value is delivered twice. -/
theorem C08_rlock_refutes :
    (run queueSysPinned (initState queueSysPinned) rlockWitness).map (fun s => s.done.map (·.ret))
      = some [.nil, .ok 1, .ok 1] := by decide

/-- ConcurrentStack with `RLock` around Pop (the pinned code): the single pushed value is popped twice. -/
theorem C08_rlock_refutes_stack :
    (run stackSysPinned (initState stackSysPinned)
      [.inv 0 (.push 1), .acq 0, .read 0, .commit 0, .rel 0,
       .inv 1 .pop, .inv 2 .pop, .acq 1, .acq 2, .read 1, .read 2, .commit 1, .commit 2, .rel 1, .rel 2]).map
      (fun s => s.done.map (·.ret)) = some [.nil, .ok 1, .ok 1] := by decide

/-- the same schedule is not even enabled in the repaired system (the second `acq` must wait) -/
example : (run queueSys (initState queueSys) rlockWitness).isNone = true := by decide

/-! ### non-vacuity: a reachable state of `queueSys` with overlapping calls of three threads, one of them
    still inside its critical section, one waiting for the lock -/

def demoSchedule : List (Act QOp) :=
  [.inv 0 (.offer 7), .inv 1 .poll, .inv 2 (.put 8), .acq 1, .read 1, .commit 1, .rel 1,
   .acq 2, .read 2, .commit 2, .rel 2, .inv 1 .take, .acq 1, .read 1, .commit 1]

example : (run queueSys (initState queueSys) demoSchedule).map
      (fun s => (s.done.map (·.ret), s.lin.map (·.ret), s.obj, s.lock)) =
    some ([.empty, .nil], [.empty, .nil, .ok 8], [], .excl 1) := by decide

example : (run stackSys (initState stackSys)
      [.inv 0 (.push 1), .inv 1 (.push 2), .acq 1, .read 1, .commit 1, .rel 1, .acq 0, .read 0, .commit 0, .rel 0,
       .inv 2 .pop, .acq 2, .read 2, .commit 2, .rel 2]).map (fun s => (s.done.map (·.ret), s.obj)) =
    some ([.nil, .nil, .ok 1], [2]) := by decide

/-! ### closing theorems over data regenerated from queue.go on every run -/

/-- a method body is exactly: take the write lock; defer its release; return the delegated call -/
def exclusiveDeferred (m : Gen.LockMode) (field : String) : Bool :=
  m.stmts == ["acquire:lock.Lock", "defer:lock.Unlock", s!"return:{field}.{m.method}({m.params})"]

/-- the table covers exactly the six wrapper methods -/
theorem C08_modes_inventory :
    Gen.lockModes.map (fun m => (m.type, m.method)) =
      [("ConcurrentQueue", "Offer"), ("ConcurrentQueue", "Poll"), ("ConcurrentQueue", "Put"),
       ("ConcurrentQueue", "Take"), ("ConcurrentStack", "Pop"), ("ConcurrentStack", "Push")] := by decide

/-- every method of ConcurrentQueue / ConcurrentStack (all of them delegate to a mutating method of the
    wrapped Queue / Stack) takes `lock.Lock()`, releases it by `defer lock.Unlock()`, and returns the
    like-named method of the wrapped object applied to its own parameters — i.e. the code has the
    `acq ; apply ; rel` shape with `mode = excl` that `C08_linearizable` assumes (`queueSys`, `stackSys`). -/
theorem C08_modes :
    ∀ m ∈ Gen.lockModes,
      exclusiveDeferred m (if m.type = "ConcurrentQueue" then "queue" else "stack") = true := by decide

theorem C08_skel_queue_put : Gen.skeletonOf "ConcurrentQueue.Put" =
    some "call(lock.Lock) defer{call(lock.Unlock)} call(queue.Put) return" := by decide
theorem C08_skel_queue_offer : Gen.skeletonOf "ConcurrentQueue.Offer" =
    some "call(lock.Lock) defer{call(lock.Unlock)} call(queue.Offer) return" := by decide
theorem C08_skel_queue_take : Gen.skeletonOf "ConcurrentQueue.Take" =
    some "call(lock.Lock) defer{call(lock.Unlock)} call(queue.Take) return" := by decide
theorem C08_skel_queue_poll : Gen.skeletonOf "ConcurrentQueue.Poll" =
    some "call(lock.Lock) defer{call(lock.Unlock)} call(queue.Poll) return" := by decide
theorem C08_skel_stack_push : Gen.skeletonOf "ConcurrentStack.Push" =
    some "call(lock.Lock) defer{call(lock.Unlock)} call(stack.Push) return" := by decide
theorem C08_skel_stack_pop : Gen.skeletonOf "ConcurrentStack.Pop" =
    some "call(lock.Lock) defer{call(lock.Unlock)} call(stack.Pop) return" := by decide

end FpgoVerif.C08
