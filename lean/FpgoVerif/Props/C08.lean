import FpgoVerif.Model.C08
/-! Property theorems for C08 (none yet). -/
