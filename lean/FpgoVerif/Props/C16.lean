import FpgoVerif.Proofs.C16Sort
import FpgoVerif.Gen.Skeletons
/-! Property theorems for C16 — PMap is Map run in parallel: same results, each element once, bounded
    concurrency, terminates.  All statements quantify over every input list, every function, every worker count,
    every result-channel capacity and EVERY interleaving (`Reach` = any finite sequence of atomic steps of the
    feeder, the workers, the closer and the collector of `Model/C16.lean`). -/
namespace FpgoVerif.C16

variable {α β : Type}

/-! ### The worker-count rule of `PMap` -/

/-- `PMap` starts `min(FixedPool, len(list))` workers when a positive pool size is given and `len(list)` otherwise
    (no option, pool size 0 or negative) — the code's rule equals the statement's. -/
theorem C16_workers (pool : Option Int) (n : Nat) : workerCount pool n = specWorkers pool n := by
  unfold workerCount specWorkers
  cases pool with
  | none => rfl
  | some p =>
    simp only
    by_cases h0 : 0 < p
    · by_cases h1 : p < (n : Int)
      · simp only [h0, h1, and_self, if_true]; omega
      · simp only [h0, h1, and_false, if_false, if_true]; omega
    · simp [h0]

/-- never more workers than elements, and at least one worker for a non-empty list (so nothing is stranded) -/
theorem C16_workers_bounds (pool : Option Int) (n : Nat) :
    workerCount pool n ≤ n ∧ (0 < n → 0 < workerCount pool n) := by
  rw [C16_workers]; unfold specWorkers
  cases pool with
  | none => exact ⟨Nat.le_refl _, id⟩
  | some p => simp only; split <;> omega

example : workerCount (some 3) 10 = 3 ∧ workerCount (some 0) 10 = 10 ∧ workerCount (some (-1)) 4 = 4 ∧
    workerCount (some 12) 10 = 10 ∧ workerCount none 7 = 7 ∧ workerCount (some 2) 0 = 0 := by decide

/-! ### Safety, for every schedule -/

/-- the invariant holds in every reachable state (any `w`, any capacity) -/
theorem C16_invariant (l : List α) (f : α → β) (w cap : Nat) (s : St α β) (hr : Reach l f cap (init w) s) :
    Inv l f w cap s :=
  inv_reach (inv_init l f w cap) hr

/-- Ordered mode: whenever PMap returns — under any interleaving — the assembled output is exactly `Map(f, list)`. -/
theorem C16_result_ordered (l : List α) (f : α → β) (w cap : Nat) (hw : l ≠ [] → 0 < w) (zero : β) (s : St α β)
    (hr : Reach l f cap (init w) s) (hd : s.collectorDone = true) :
    orderedResult zero l.length s.collected = l.map f :=
  have h := C16_invariant l f w cap s hr
  ordered_eq_map h (terminal_of_done h hw hd) zero

/-- RandomOrder mode: whenever PMap returns, the output has no padding and no index overflow, and is a permutation of
    `Map(f, list)`. -/
theorem C16_result_random (l : List α) (f : α → β) (w cap : Nat) (hw : l ≠ [] → 0 < w) (zero : β) (s : St α β)
    (hr : Reach l f cap (init w) s) (hd : s.collectorDone = true) :
    noOrderResult zero l.length s.collected = some (s.collected.map (·.2)) ∧ (s.collected.map (·.2)).Perm (l.map f) :=
  have h := C16_invariant l f w cap s hr
  noOrder_perm h (terminal_of_done h hw hd) zero

/-- Exactly once: when PMap returns, `f` has been applied to every position of the list exactly once … -/
theorem C16_once (l : List α) (f : α → β) (w cap : Nat) (hw : l ≠ [] → 0 < w) (s : St α β)
    (hr : Reach l f cap (init w) s) (hd : s.collectorDone = true) :
    s.apps.Perm (List.range l.length) :=
  have h := C16_invariant l f w cap s hr
  apps_perm (terminal_of_done h hw hd)

/-- … at no moment more than once to a position, never to a position outside the list … -/
theorem C16_once_anytime (l : List α) (f : α → β) (w cap : Nat) (s : St α β) (hr : Reach l f cap (init w) s) (j : Nat) :
    s.apps.count j ≤ 1 ∧ (l.length ≤ j → s.apps.count j = 0) := by
  have h := C16_invariant l f w cap s hr
  have ha := h.apps j
  have hle : produced s j ≤ occ s j := by unfold produced occ; omega
  constructor
  · by_cases hj : j < s.fed
    · have := h.cons_lt j hj; omega
    · have := h.cons_ge j (by omega); omega
  · intro hj
    have := h.cons_ge j (by have := h.fed_le; omega); omega

/-- … and only ever to the element at that position (`f` is applied to nothing else). -/
theorem C16_applied_to_elements (l : List α) (f : α → β) (w cap : Nat) (s : St α β) (hr : Reach l f cap (init w) s)
    (i : Nat) (v : α) (hc : WS.computing i v ∈ s.workers) : l[i]? = some v :=
  (C16_invariant l f w cap s hr).wfComp i v hc

/-- At most `w` applications of `f` are in progress at any moment. -/
theorem C16_conc (l : List α) (f : α → β) (w cap : Nat) (s : St α β) (hr : Reach l f cap (init w) s) :
    s.workers.countP WS.isComputing ≤ w := by
  have h := C16_invariant l f w cap s hr
  rw [← h.wlen]; exact List.countP_le_length

/-- No send on a closed channel ever happens (the result channel is closed only after every worker has left). -/
theorem C16_no_panic (l : List α) (f : α → β) (w cap : Nat) (s : St α β) (hr : Reach l f cap (init w) s) :
    s.panicked = false ∧ (s.resultClosed = true → ∀ x ∈ s.workers, x.isDone = true) :=
  have h := C16_invariant l f w cap s hr
  ⟨h.noPanic, h.resClosed⟩

/-- The call returns only after all applications finished: at return every worker has left its loop, both channels
    are drained, all `n` results have been collected. -/
theorem C16_returns_after_all (l : List α) (f : α → β) (w cap : Nat) (hw : l ≠ [] → 0 < w) (s : St α β)
    (hr : Reach l f cap (init w) s) (hd : s.collectorDone = true) :
    (∀ x ∈ s.workers, x.isDone = true) ∧ s.chJobs = [] ∧ s.chResult = [] ∧ s.collected.length = l.length ∧
      s.apps.length = l.length := by
  have h := C16_invariant l f w cap s hr
  have ht := terminal_of_done h hw hd
  exact ⟨ht.allDone, ht.jobsEmpty, ht.resEmpty, ht.colLen, by rw [(apps_perm ht).length_eq]; simp⟩

/-! ### Termination, for every schedule -/

/-- every atomic step of every goroutine strictly decreases the measure … -/
theorem C16_measure_decreases (l : List α) (f : α → β) (cap : Nat) (s s' : St α β) (hs : Step l f cap s s') :
    measure l.length s' < measure l.length s :=
  measure_step hs

/-- … so every run, whatever the scheduler does, has at most `measure init` steps: -/
theorem C16_run_bounded (l : List α) (f : α → β) (w cap k : Nat) (s : St α β) (hr : Run l f cap k (init w) s) :
    k ≤ measure l.length (init w : St α β) := by
  have := run_bound hr; omega

/-- no deadlock: while PMap has not returned, some goroutine can move — for every worker count (0 included), every
    capacity of the result channel (0 included), the empty list included … -/
theorem C16_no_deadlock (l : List α) (f : α → β) (w cap : Nat) (s : St α β) (hr : Reach l f cap (init w) s)
    (hd : s.collectorDone = false) : ∃ s', Step l f cap s s' :=
  progress (C16_invariant l f w cap s hr) hd

/-- … hence from every reachable state PMap can still return (and, by the two theorems above, every maximal run is
    finite and ends in a state where it has returned). -/
theorem C16_terminates (l : List α) (f : α → β) (w cap : Nat) (s : St α β) (hr : Reach l f cap (init w) s) :
    ∃ t, Reach l f cap s t ∧ t.collectorDone = true :=
  can_finish _ s (Nat.le_refl _) (C16_invariant l f w cap s hr)

/-! ### The concrete `PMap` call: worker count and capacity as the code computes them -/

/-- `PMap(f, option, list...)` in ordered mode, any schedule: returns `Map(f, list)`; at most `min(FixedPool, n)` (or `n`)
    applications in progress at any time; a returning run exists from every reachable state. -/
theorem C16_pmap_ordered (l : List α) (f : α → β) (pool : Option Int) (zero : β) (s : St α β)
    (hr : Reach l f (workerCount pool l.length / 3) (init (workerCount pool l.length)) s) :
    (s.collectorDone = true → orderedResult zero l.length s.collected = l.map f) ∧
    s.workers.countP WS.isComputing ≤ specWorkers pool l.length ∧
    (∃ t, Reach l f (workerCount pool l.length / 3) s t ∧ t.collectorDone = true) := by
  have hw : l ≠ [] → 0 < workerCount pool l.length := fun hl =>
    (C16_workers_bounds pool l.length).2 (List.length_pos_iff.mpr hl)
  refine ⟨fun hd => C16_result_ordered l f _ _ hw zero s hr hd, ?_, C16_terminates l f _ _ s hr⟩
  rw [← C16_workers]; exact C16_conc l f _ _ s hr

/-- the same for `PMapOption{RandomOrder: true}`: a permutation of `Map(f, list)` -/
theorem C16_pmap_random (l : List α) (f : α → β) (pool : Option Int) (zero : β) (s : St α β)
    (hr : Reach l f (workerCount pool l.length / 3) (init (workerCount pool l.length)) s) :
    (s.collectorDone = true → noOrderResult zero l.length s.collected = some (s.collected.map (·.2)) ∧
        (s.collected.map (·.2)).Perm (l.map f)) ∧
    s.workers.countP WS.isComputing ≤ specWorkers pool l.length ∧
    (∃ t, Reach l f (workerCount pool l.length / 3) s t ∧ t.collectorDone = true) := by
  have hw : l ≠ [] → 0 < workerCount pool l.length := fun hl =>
    (C16_workers_bounds pool l.length).2 (List.length_pos_iff.mpr hl)
  refine ⟨fun hd => C16_result_random l f _ _ hw zero s hr hd, ?_, C16_terminates l f _ _ s hr⟩
  rw [← C16_workers]; exact C16_conc l f _ _ s hr

/-- non-vacuity: for every list, function and pool size a returning run exists from the initial state (so the
    hypotheses `Reach … s` and `s.collectorDone = true` above are satisfiable in every configuration) -/
example (l : List α) (f : α → β) (pool : Option Int) :
    ∃ t, Reach l f (workerCount pool l.length / 3) (init (workerCount pool l.length)) t ∧ t.collectorDone = true :=
  C16_terminates l f _ _ _ (.refl _)

/-- a concrete non-trivial reachable state: two elements, one worker, capacity 0, the first job being computed -/
example : Reach [10, 20] (· + 1) 0 (init 1)
    ({ fed := 1, jobsClosed := false, chJobs := [], workers := [.computing 0 10], chResult := [], resultClosed := false,
       collected := [], collectorDone := false, panicked := false, apps := [] } : St Nat Nat) :=
  .step (.step (.refl _) (.feed _ 10 rfl rfl (by decide))) (.take _ [] [] 0 10 [] rfl rfl)

/-! ### The driver's observable -/

/-- what the driver prints (`expectedObs`) is the canonical form of `Map(f, list)` and `maxc=ok`: the worker count of the
    code's rule never exceeds the statement's bound (`C16_workers`), so the model predicts that the concurrency gauge stays
    within it — on every case line -/
theorem C16_expected_obs (c : Case) : expectedObs c = obsLine c (inputList c) "ok" := by
  unfold expectedObs; rw [C16_workers]; simp

/-- The list the driver prints is what EVERY terminal state of the goroutine system yields, for every case line (int
    elements; the string cases use the same numbers with a fixed-width rendering): in ordered mode the assembled output
    itself, in RandomOrder mode its sorted form — and sorted forms coincide exactly for permutations
    (`mergeSort_eq_of_perm`), so comparing sorted outputs decides "is a permutation of Map(f, list)". -/
theorem C16_driver_observable (c : Case) (s : St Nat Nat)
    (hr : Reach (inputList c) fInt (workerCount c.pool c.n / 3) (init (workerCount c.pool c.n)) s)
    (hd : s.collectorDone = true) :
    (if c.random then (s.collected.map (·.2)).mergeSort leNat else orderedResult 0 c.n s.collected)
      = (canon c (inputList c)).map fInt := by
  have hlen : (inputList c).length = c.n := by simp [inputList]
  have hw : inputList c ≠ [] → 0 < workerCount c.pool c.n := fun hl =>
    (C16_workers_bounds c.pool c.n).2 (by rw [← hlen]; exact List.length_pos_iff.mpr hl)
  unfold canon
  cases hrand : c.random with
  | false =>
    simp only [Bool.false_eq_true, if_false]
    rw [← hlen]; exact C16_result_ordered _ _ _ _ hw 0 s hr hd
  | true =>
    simp only [if_true]
    have hp := (C16_result_random _ _ _ _ hw 0 s hr hd).2
    rw [mergeSort_eq_of_perm hp, mergeSort_map_mono fInt (by intro a b h; unfold fInt; omega)]

/-! ### Tie to the source: protocol skeletons regenerated from fp.go on every run -/

def expectedSkeletons : List (String × String) := [
  ("PMap", "if[]{return} if[]{if[]{call(pMapNoOrder) return}} call(pMapPreserveOrder) return"),
  ("pMapPreserveOrder", "go{range[]{send(chJobs)} call(close)} for[]{call(Add) go{defer{call(Done)} rangech(chJobs){range[]{callfn(f) send(chResult)}}}} go{call(Wait) call(close)} rangech(chResult){range[]{setidx(newListMap)}} for[]{setidx(newList)} return"),
  ("pMapNoOrder", "go{range[]{send(chJobs)} call(close)} for[]{call(Add) go{defer{call(Done)} rangech(chJobs){callfn(f) send(chResult)}}} go{call(Wait) call(close)} rangech(chResult){setidx(newList)} return")]

/-- fp.go still has the protocol shape of the transition system: feeder goroutine = sends then close; per worker
    `wg.Add` BEFORE `go`, deferred `wg.Done`, loop over chJobs with one call of `f` and one send on chResult per job;
    closer goroutine = `wg.Wait` then close; the caller drains chResult (by index into the map, then the indexed
    assembly loop — ordered; by arrival — unordered); `PMap` dispatches on the option. -/
theorem C16_skeleton : expectedSkeletons.all (fun e => Gen.skeletonOf e.1 == some e.2) = true := by
  decide +kernel

end FpgoVerif.C16
