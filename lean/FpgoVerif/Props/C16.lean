import FpgoVerif.Model.C16
/-! Property theorems for C16 (none yet). -/
