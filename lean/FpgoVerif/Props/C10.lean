import FpgoVerif.Model.C10
/-! Property theorems for C10 (none yet). -/
