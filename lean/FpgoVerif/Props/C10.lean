import FpgoVerif.Proofs.C10Inv
/-! Property theorems for C10 (work in progress). -/
namespace FpgoVerif.C10

theorem C10_inv (grow : Nat → Nat) {s : State} (r : Reach grow s) : Inv s := Inv_reach grow r

end FpgoVerif.C10
