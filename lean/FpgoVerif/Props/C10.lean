import FpgoVerif.Proofs.C10Map
import FpgoVerif.Gen.Skeletons
import FpgoVerif.Gen.C10Facts
/-! Property theorems for C10 — "Publisher delivers each value exactly once per live subscription, in
    order".  All `∀ s, Reach grow s → …` statements quantify over every schedule of every number of
    goroutines, every re-entrant callback script (a goroutine inside a callback may start any
    operation), and every slice growth policy `grow`; `Reach` is the closure of `step true`, the very
    function the driver executes (`C10_run_reach`).

    Reading of the ghost fields of a Publish call `f` (set by `step`, never read by it):
    `f.snap` = registered subscriptions at the snapshot (the call's linearisation point; a
    subscription registered before the call began is registered before the snapshot, an Unsubscribe
    completed before the call began is completed before the snapshot), `f.n0` = ids below it were
    handed out before the snapshot, `f.done0` = Unsubscribe calls completed before the snapshot,
    `f.dl` = the subscriptions whose OnNext this call invoked (or posted to the handler), in order;
    `r.regEnd` = the registered subscriptions when the call returned.  Ids are handed out in
    subscription order, so `<` on ids is subscription order. -/
namespace FpgoVerif.C10

/-- the driver's executions are `Reach`able: running any action list with `step true` from `init` -/
theorem C10_run_reach (grow : Nat → Nat) (acts : List Act) (s : State)
    (h : run true grow init acts = some s) : Reach grow s :=
  reach_of_run grow acts init s .init h

/-- **Key lemma**: while a Publish is running, the cells its snapshot header denotes are never
    overwritten — `append` writes only at index ≥ the snapshot length or into a fresh array, the
    repaired Unsubscribe allocates — and what it has delivered is exactly the prefix of the snapshot it has
    walked, minus the subscriptions without OnNext. -/
theorem C10_snapshot_stable (grow : Nat → Nat) (s : State) (r : Reach grow s) (t : Nat) (f : PubF)
    (hf : .pub f ∈ s.stacks t) :
    content s.heap f.h = f.snap ∧ f.dl = (f.snap.take f.k).filter (fun x => !s.silent x) := by
  have := (Inv_reach grow r).frames t _ hf
  exact ⟨this.same, this.dl⟩

/-- **C10_once** — for every finished Publish call `r`:
    (1) a subscription (with an OnNext) registered before the call and still registered when it ends was invoked
        exactly once;
    (2) a subscription whose Unsubscribe completed before the call was never invoked;
    (3) nobody was invoked twice; (4) invocations happened in subscription order;
    (5) only subscriptions registered before the call were invoked (one added during the call is not, a
        removed one may be — "only the subscription being added or removed may or may not see it");
    (6) a subscription without OnNext (zero-value Subscription) receives nothing — and does not disturb the others:
    in fact (7) the invocations are exactly the snapshot minus the subscriptions without OnNext. -/
theorem C10_once (grow : Nat → Nat) (s : State) (hr : Reach grow s) (r : PubRec) (hmem : r ∈ s.ended) :
    (∀ x, 0 < x → x < r.f.n0 → x ∈ r.regEnd → s.silent x = false → r.f.dl.count x = 1) ∧
    (∀ x ∈ r.f.done0, r.f.dl.count x = 0) ∧
    (∀ x, r.f.dl.count x ≤ 1) ∧
    r.f.dl.Pairwise (· < ·) ∧
    (∀ x ∈ r.f.dl, 0 < x ∧ x < r.f.n0) ∧
    (∀ x, s.silent x = true → r.f.dl.count x = 0) ∧
    r.f.dl = r.f.snap.filter (fun x => !s.silent x) := by
  have ok := (Inv_reach grow hr).ended r hmem
  have hsub : (r.f.snap.filter (fun x => !s.silent x)).Sublist r.f.snap := List.filter_sublist
  have hs : (r.f.snap.filter (fun x => !s.silent x)).Pairwise (· < ·) := ok.static.sorted.sublist hsub
  rw [ok.all]
  refine ⟨?_, ?_, ?_, hs, fun x hx => ok.static.old x (hsub.subset hx), ?_, rfl⟩
  · intro x h0 hx hreg hsil
    rw [count_of_sorted hs]
    have : x ∈ r.f.snap.filter (fun x => !s.silent x) := by
      rw [List.mem_filter]; exact ⟨ok.kept x h0 hx hreg, by simp [hsil]⟩
    simp [this]
  · intro x hx
    rw [count_of_sorted hs]
    have : x ∉ r.f.snap.filter (fun x => !s.silent x) := fun h => ok.static.notDone x hx (hsub.subset h)
    simp [this]
  · intro x
    rw [count_of_sorted hs]; split <;> omega
  · intro x hsil
    rw [count_of_sorted hs]
    have : x ∉ r.f.snap.filter (fun x => !s.silent x) := by
      rw [List.mem_filter]; simp [hsil]
    simp [this]

/-- **C10_once_log** — the same statement read off the GLOBAL log of all deliveries (`s.log`: one entry per
    OnNext invocation / Post, whoever made it): the entries that belong to a finished Publish call `r`
    (`dlOf s.log r.f.pid`) are exactly its snapshot minus the subscriptions without OnNext, hence (1) exactly
    once for a subscription registered before and after, (2) never after a completed Unsubscribe, (3) at most
    once, (4) in subscription order.  Call ids are unique among live and finished calls (`PInv`). -/
theorem C10_once_log (grow : Nat → Nat) (s : State) (hr : Reach grow s) (r : PubRec) (hmem : r ∈ s.ended) :
    dlOf s.log r.f.pid = r.f.snap.filter (fun x => !s.silent x) ∧
    (∀ x, 0 < x → x < r.f.n0 → x ∈ r.regEnd → s.silent x = false → (dlOf s.log r.f.pid).count x = 1) ∧
    (∀ x ∈ r.f.done0, (dlOf s.log r.f.pid).count x = 0) ∧
    (∀ x, (dlOf s.log r.f.pid).count x ≤ 1) ∧
    (dlOf s.log r.f.pid).Pairwise (· < ·) := by
  have h := C10_once grow s hr r hmem
  rw [(PInv_reach grow hr).fin r hmem]
  exact ⟨h.2.2.2.2.2.2, h.1, h.2.1, h.2.2.1, h.2.2.2.1⟩

/-- while a Publish is running, its part of the global log is the walked prefix of the snapshot (minus the
    subscriptions without OnNext) -/
theorem C10_log_running (grow : Nat → Nat) (s : State) (hr : Reach grow s) (t : Nat) (f : PubF)
    (hf : .pub f ∈ s.stacks t) : dlOf s.log f.pid = (f.snap.take f.k).filter (fun x => !s.silent x) := by
  rw [(PInv_reach grow hr).live t f hf]
  exact ((Inv_reach grow hr).frames t _ hf).dl

/-- at every moment of a running Publish: nobody invoked twice, subscription order, only snapshot members -/
theorem C10_once_running (grow : Nat → Nat) (s : State) (hr : Reach grow s) (t : Nat) (f : PubF)
    (hf : .pub f ∈ s.stacks t) :
    (∀ x, f.dl.count x ≤ 1) ∧ f.dl.Pairwise (· < ·) ∧ (∀ x ∈ f.done0, f.dl.count x = 0) ∧
    (∀ x ∈ f.dl, 0 < x ∧ x < f.n0) := by
  have ok := (Inv_reach grow hr).frames t _ hf
  have hsub : ((f.snap.take f.k).filter (fun x => !s.silent x)).Sublist f.snap :=
    List.filter_sublist.trans (List.take_sublist _ _)
  have hs : f.dl.Pairwise (· < ·) := by rw [ok.dl]; exact ok.static.sorted.sublist hsub
  refine ⟨?_, hs, ?_, ?_⟩
  · intro x; rw [count_of_sorted hs]; split <;> omega
  · intro x hx
    rw [count_of_sorted hs]
    have : x ∉ f.dl := by rw [ok.dl]; exact fun h => ok.static.notDone x hx (hsub.subset h)
    simp [this]
  · intro x hx; rw [ok.dl] at hx; exact ok.static.old x (hsub.subset hx)

/-- an Unsubscribe that has returned leaves the subscription unregistered for ever (ids are never reused),
    and the registered list is always duplicate-free and in subscription order -/
theorem C10_unsubscribed_stays_out (grow : Nat → Nat) (s : State) (hr : Reach grow s) :
    (∀ x ∈ s.unsubDone, x ∉ content s.heap s.subs) ∧ (content s.heap s.subs).Pairwise (· < ·) := by
  have inv := Inv_reach grow hr
  exact ⟨fun x hx => (inv.done x hx).2.2, inv.wf.sorted⟩

/-- **C10_map_partial** — Map(fn) registers a forwarding subscription `x` whose OnNext(v) is
    `next.Publish(fn v)` (closing theorem `C10_skel_Map`: `func{callfn(fn) call(Publish)} call(Subscribe)`).
    For every finished Publish(v) of the origin, the global log contains exactly ONE delivery to `x`, and it
    carries the value `v` of that call — so `next.Publish(fn v)` is called exactly once per `v` of the origin.
    PARTIAL: the composition with the derived publisher's own transition system (its C10_once) is argued on
    paper and exercised by the Map-chain correspondence (depth 1–3), not proved in Lean. -/
theorem C10_map_partial (grow : Nat → Nat) (s : State) (hr : Reach grow s) (r : PubRec) (hmem : r ∈ s.ended)
    (x : Nat) (h0 : 0 < x) (hbefore : x < r.f.n0) (hstill : x ∈ r.regEnd) (hfn : s.silent x = false) :
    ((s.log.filter (fun e => e.1 = r.f.pid ∧ e.2.1 = x)).map (fun e => e.2.2.1)) = [r.f.val] := by
  have hcount := (C10_once_log grow s hr r hmem).2.1 x h0 hbefore hstill hfn
  have hval := (PInv_reach grow hr).finV r hmem
  have hlen : (s.log.filter (fun e => e.1 = r.f.pid ∧ e.2.1 = x)).length = 1 := by
    rw [← hcount]
    unfold dlOf
    rw [List.count_reverse, List.count_eq_countP, List.countP_map, List.countP_eq_length_filter, List.filter_filter]
    congr 1
    apply List.filter_congr
    intro e _
    by_cases h1 : e.2.1 = x
    · simp [h1]
    · simp [h1]
  cases hl : s.log.filter (fun e => e.1 = r.f.pid ∧ e.2.1 = x) with
  | nil => rw [hl] at hlen; cases hlen
  | cons e rest =>
    rw [hl] at hlen
    have hrest : rest = [] := by
      cases rest with
      | nil => rfl
      | cons _ _ => simp at hlen
    subst hrest
    have hm : e ∈ s.log.filter (fun e => e.1 = r.f.pid ∧ e.2.1 = x) := by rw [hl]; simp
    rw [List.mem_filter] at hm
    have hp : e.1 = r.f.pid := (of_decide_eq_true hm.2).1
    have := hval e hm.1 hp
    simp [this]

/-- **C10_map_compose** — Map(fn) as a system of two publishers (`MapSys`, `Proofs/C10Map.lean`): origin `P`, derived
    publisher `Q`, every action of either one a `step true` of that publisher (so `P` and `Q` are `Reach`able and all
    theorems above hold for both), plus the coupling of `Map`: each delivery of `P` to the forwarding subscription `x`
    obliges its callback to begin `Q.Publish(fn v)` (`fwdBegin`, at any later moment, in any order).  For every reachable
    state and every finished `P.Publish(v)` (call `r`) with `x` registered before the call and still registered at its end:
    (1) there is exactly ONE forward for (that call, v): still owed by the running callback (`pend`) or begun (`fwd`);
    (2) the begun forwards are pairwise distinct Publish calls of `Q`, each begun with the value `fn v` of its origin
        delivery, and when such a call has finished, what it delivered is exactly its snapshot of `Q`'s subscriptions
        (minus those without OnNext), every delivery carrying `fn v` — i.e. `C10_once` for the derived publisher.
    What remains outside Lean: that the callback of `x` is `next.Publish(fn(in))` and nothing else (closing theorem
    `C10_skel_Map`), and that it is the goroutine running the callback that begins the forward (the system lets any
    goroutine do it: an over-approximation). -/
theorem C10_map_compose (grow : Nat → Nat) (fn : Int → Int) (m : MapSys) (hm : MReach grow fn m)
    (r : PubRec) (hmem : r ∈ m.P.ended) (h0 : 0 < m.x) (hbefore : m.x < r.f.n0) (hstill : m.x ∈ r.regEnd)
    (hfn : m.P.silent m.x = false) :
    (m.pend ++ m.fwd.map (fun e => (e.1, e.2.1))).count (r.f.pid, r.f.val) = 1 ∧
    (m.fwd.map (fun e => e.2.2)).Nodup ∧
    (∀ e ∈ m.fwd, e.2.2 < m.Q.nextPid ∧
      (∀ u f, .pub f ∈ m.Q.stacks u → f.pid = e.2.2 → f.val = fn e.2.1) ∧
      (∀ rq ∈ m.Q.ended, rq.f.pid = e.2.2 →
        rq.f.val = fn e.2.1 ∧
        dlOf m.Q.log rq.f.pid = rq.f.snap.filter (fun y => !m.Q.silent y) ∧
        (∀ ev ∈ m.Q.log, ev.1 = rq.f.pid → ev.2.2.1 = fn e.2.1))) := by
  have inv := MInv_reach hm
  refine ⟨?_, inv.qnd, fun e he => ⟨inv.qlt e he, inv.qlive e he, fun rq hrq hpid => ?_⟩⟩
  · rw [← inv.perm.count_eq, count_xlog]
    have := C10_map_partial grow m.P inv.rp r hmem m.x h0 hbefore hstill hfn
    rw [this]; simp
  · have hv := inv.qfin e he rq hrq hpid
    refine ⟨hv, (C10_once_log grow m.Q inv.rq rq hrq).1, fun ev hev hp => ?_⟩
    rw [← hv]; exact (PInv_reach grow inv.rq).finV rq hrq ev hev hp

/-- S subscribes to P, Map (fn = (· + 1)), a subscriber on Q; P.Publish(7): the forwarder's delivery is forwarded as
    Q.Publish(8), which delivers 8 to Q's subscriber; both calls finish -/
def mapWitness : List MAct :=
  [.p (.subscribe 0), .map 0, .q (.subscribe 0), .p (.pubBegin 0 7), .p (.deliver 0), .p (.cbReturn 0),
   .p (.deliver 0), .fwdBegin 0 0 7, .q (.deliver 0), .q (.cbReturn 0), .q (.pubEnd 0), .p (.cbReturn 0), .p (.pubEnd 0)]

/-- non-vacuity of `C10_map_compose` (evaluated by the kernel): forwarding subscription x = 2, nothing pending, one forward
    (P's call 0, value 7, Q's call 0), Q's finished call published 8 to its subscriber 1, Q's log has that one delivery -/
theorem C10_witness_map :
    msummary (mrun goGrow (· + 1) MapSys.init mapWitness) =
      some (2, [], [(0, 7, 0)], [(8, [1])], [(0, 1, 8, false)]) := by rfl

example : ∃ m, MReach goGrow (· + 1) m ∧ m.x = 2 ∧ m.fwd = [(0, 7, 0)] ∧ m.Q.log = [(0, 1, 8, false)] := by
  cases hrun : mrun goGrow (· + 1) MapSys.init mapWitness with
  | none => have := C10_witness_map; rw [hrun] at this; cases this
  | some m =>
    refine ⟨m, mreach_of_run goGrow _ _ _ m .init hrun, ?_⟩
    have hw := C10_witness_map
    rw [hrun] at hw
    simp [msummary] at hw
    exact ⟨hw.1, hw.2.2.1, hw.2.2.2.2⟩

/-- **C10_handler** — with SubscribeOn(h) a delivery is exactly one Post (the `deliver` step appends the
    subscription to `f.dl` and the triple to `posted`/`mailbox` in one step, so `C10_once` counts Posts), and
    the handler runs the posted deliveries in FIFO order, none lost, none duplicated:
    posted = run by the handler ++ still queued.  (That the handler eventually runs them is C12.) -/
theorem C10_handler (grow : Nat → Nat) (s : State) (hr : Reach grow s) :
    s.posted.reverse = s.hlog.reverse ++ s.mailbox :=
  (Inv_reach grow hr).hq

/-! ### the pre-fix code (`fixed = false`: in-place compaction) is refuted -/

/-- [A,B,C]; A unsubscribes itself inside its callback -/
def prefixWitness : List Act :=
  [.subscribe 0, .subscribe 0, .subscribe 0, .pubBegin 0 7, .deliver 0, .unsubBegin 0 1, .unsubStep 0, .unsubStep 0,
   .cbReturn 0, .deliver 0, .cbReturn 0, .deliver 0, .cbReturn 0, .pubEnd 0]

/-- (snapshot, invoked, registered at the end) of the most recently finished Publish -/
def summary (o : Option State) : Option (List Nat × List Nat × List Nat) :=
  o.bind (fun s => s.ended.head?.map (fun r => (r.f.snap, r.f.dl, r.regEnd)))

/-- the pre-fix Unsubscribe: snapshot [A,B,C], invoked A, C, C (B skipped, C twice) -/
theorem C10_prefix_in_place_compaction_refuted :
    summary (run false goGrow init prefixWitness) = some ([1, 2, 3], [1, 3, 3], [2, 3]) := by decide

/-- … so the exactly-once statement is false for the pre-fix mechanism -/
theorem C10_prefix_not_once :
    ¬ ∀ acts s, run false goGrow init acts = some s → ∀ r ∈ s.ended, r.f.dl = r.f.snap := by
  intro h
  have hw := C10_prefix_in_place_compaction_refuted
  cases hrun : run false goGrow init prefixWitness with
  | none => rw [hrun] at hw; cases hw
  | some s =>
    rw [hrun] at hw
    have hall := h prefixWitness s hrun
    cases hs : s.ended with
    | nil => simp [summary, hs] at hw
    | cons r rest =>
      have := hall r (by rw [hs]; simp)
      simp [summary, hs] at hw
      rw [hw.1, hw.2.1] at this
      cases this

/-- non-vacuity: the same history on the repaired code: snapshot [A,B,C], invoked A, B, C; A is gone afterwards -/
theorem C10_witness_fixed :
    summary (run true goGrow init prefixWitness) = some ([1, 2, 3], [1, 2, 3], [2, 3]) := by decide

example : ∃ s, Reach goGrow s ∧ ∃ r ∈ s.ended, r.f.snap = [1, 2, 3] ∧ r.regEnd = [2, 3] := by
  cases hrun : run true goGrow init prefixWitness with
  | none => have := C10_witness_fixed; rw [hrun] at this; cases this
  | some s =>
    refine ⟨s, C10_run_reach goGrow _ s hrun, ?_⟩
    have hw := C10_witness_fixed
    rw [hrun] at hw
    cases hs : s.ended with
    | nil => simp [summary, hs] at hw
    | cons r rest =>
      simp [summary, hs] at hw
      exact ⟨r, by simp, hw.1, hw.2.2⟩

/-- non-vacuity for the nil-OnNext clause: [A, Z (zero-value Subscription), C] — invoked A, C; the loop goes on past Z -/
theorem C10_witness_nil :
    summary (run true goGrow init
      [.subscribe 0, .subscribeNil 0, .subscribe 0, .pubBegin 0 7, .deliver 0, .cbReturn 0, .deliver 0,
       .deliver 0, .cbReturn 0, .pubEnd 0]) = some ([1, 2, 3], [1, 3], [1, 2, 3]) := by decide

/-! ### closing theorems over the regenerated protocol skeletons and slice facts of publisher.go -/

theorem C10_skel_doSubscribeSafe : Gen.skeletonOf "PublisherDef.doSubscribeSafe" =
    some "call(subscribeM.Lock) callfn(fn) call(subscribeM.Unlock)" := by decide

theorem C10_skel_Publish : Gen.skeletonOf "PublisherDef.Publish" =
    some "func{get(subscribers) set(subscribers)} call(doSubscribeSafe) range[]{if[]{func{callfn(OnNext)} if[get(subOn)]{get(subOn) call(subOn.Post)}else{callfn(doSub)}}}" := by decide +kernel

theorem C10_skel_Subscribe : Gen.skeletonOf "PublisherDef.Subscribe" =
    some "func{get(subscribers) call(append) set(subscribers)} call(doSubscribeSafe) return" := by decide

theorem C10_skel_Unsubscribe : Gen.skeletonOf "PublisherDef.Unsubscribe" =
    some "func{get(subscribers) set(subscribers) range[]{if[]{call(append) call(append) set(subscribers) break}}} call(doSubscribeSafe) if[]{call(Unsubscribe)}" := by decide +kernel

theorem C10_skel_Map : Gen.skeletonOf "PublisherDef.Map" =
    some "call(PublisherNewGenerics) func{callfn(fn) call(Publish)} call(Subscribe) return" := by decide

theorem C10_skel_SubscribeOn : Gen.skeletonOf "PublisherDef.SubscribeOn" = some "set(subOn) return" := by decide

/-- Unsubscribe's removal allocates: both appends go into a fresh `make(…, 0, …)`, which is what is stored -/
theorem C10_fact_unsubscribe_copies :
    Gen.c10Fact "Unsubscribe.appendFirstOperands" = some "fresh-make/locked,fresh-make/locked" ∧
    Gen.c10Fact "Unsubscribe.storesIntoField" = some "fresh-make/locked" ∧
    Gen.c10Fact "Unsubscribe.reassignmentsOfFresh" = some "append(fresh-make),append(fresh-make)" ∧
    Gen.c10Fact "Unsubscribe.makeLengths" = some "0" := by decide

/-- Subscribe appends one element to the field, under the lock -/
theorem C10_fact_subscribe_appends :
    Gen.c10Fact "Subscribe.storesIntoField" = some "append(field)+one/locked" := by decide

/-- Publish iterates a header copy taken under the lock, and every delivery closure owns its subscription
    variable (it runs later, on the handler goroutine, when SubscribeOn is set) -/
theorem C10_fact_publish_snapshot :
    Gen.c10Fact "Publish.rangesOver" = some "alias-of-field" ∧
    Gen.c10Fact "Publish.snapshots" = some "header-copy/locked" ∧
    Gen.c10Fact "Publish.deliveryClosureOwnsItsSubscription" = some "true" := by decide

end FpgoVerif.C10
