import FpgoVerif.Proofs.C02Int
/-! Property theorems for C02 — "Maybe numeric conversions are value-preserving or fail; never silently wrap".

    All theorems are about `convGo` = the evaluator `conv` applied to `Gen.convTable`, the table the
    extractor regenerates from `maybe.go` on every run — the very function the driver executes in the
    correspondence.  `specOK` (Model/C02.lean) is the property's statement, clause by clause; `judge`
    evaluates the same `specOK` on the real code's observations. -/
namespace FpgoVerif.C02

/-! ### the regenerated table has the expected inventory -/

/-- The 14 conversion methods with their own type switch (and `ToUint8` delegating to `ToByte`) are exactly
    the ones the model, the harness and the property talk about. -/
theorem C02_table_methods :
    Gen.convMethods = [("ToFloat64", .float64), ("ToFloat32", .float32), ("ToInt", .int), ("ToInt8", .int8),
      ("ToInt16", .int16), ("ToInt32", .int32), ("ToInt64", .int64), ("ToByte", .uint8), ("ToUint", .uint),
      ("ToUint16", .uint16), ("ToUint32", .uint32), ("ToUint64", .uint64), ("ToUintptr", .uintptr), ("ToBool", .bool)]
    ∧ Gen.convAliases = [("ToUint8", "ToByte")] := by decide +kernel

/-! ### integer → integer (121 cells) -/

/-- Closing theorem over the regenerated table: every (integer target, integer source) cell passes the
    reflective interval checker. -/
theorem C02_table_int :
    intTys.all (fun tgt => intTys.all (fun src => intCellOK Gen.convTable tgt src)) = true := by decide +kernel

/-- Clauses (a), (b), (c) for every integer target, every integer source type and EVERY value of that type. -/
theorem C02_int_to_int (tgt src : Ty) (ht : tgt ∈ intTys) (hs : src ∈ intTys) (lo hi z : Int)
    (hr : src.range = some (lo, hi)) (h1 : lo ≤ z) (h2 : z ≤ hi) :
    specOK tgt (.ty src) (.i z) (convGo tgt (.ty src) (.i z)) = true := by
  have hall := C02_table_int
  rw [List.all_eq_true] at hall
  have h' := hall tgt ht
  rw [List.all_eq_true] at h'
  have hc := h' src hs
  have := intBodyOK_sound goStrconv Gen.convTable 4 tgt src lo hi hr hc z h1 h2
  cases src <;> simpa [specOK, convGo, convFuel] using this

example : specOK .uint8 (.ty .int8) (.i (-1)) (convGo .uint8 (.ty .int8) (.i (-1))) = true := by decide +kernel
example : convGo .uint8 (.ty .int8) (.i (-1)) = ⟨.i 0, .overflow⟩ := by decide +kernel
example : convGo .int16 (.ty .uint64) (.i 32767) = ⟨.i 32767, .ok⟩ := by decide +kernel

end FpgoVerif.C02
