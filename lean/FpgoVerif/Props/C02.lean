import FpgoVerif.Model.C02
/-! Property theorems for C02 (none yet). -/
