import FpgoVerif.Proofs.C02Int
import FpgoVerif.Model.C02
import FpgoVerif.Proofs.C02Float
import FpgoVerif.Proofs.C02Misc
import FpgoVerif.Proofs.C02ToFloat
import FpgoVerif.Proofs.C02Comp
import FpgoVerif.Proofs.C02Str
import FpgoVerif.Proofs.C02FF
import FpgoVerif.Proofs.C02StrF
import FpgoVerif.Proofs.C02PF
import FpgoVerif.Proofs.C02Idem
/-! Property theorems for C02 — "Maybe numeric conversions are value-preserving or fail; never silently wrap".

    All theorems are about `convGo` = the evaluator `conv` applied to `Gen.convTable`, the table the
    extractor regenerates from `maybe.go` on every run — the very function the driver executes in the
    correspondence.  `specOK` (Model/C02.lean) is the property's statement, clause by clause; `judge`
    evaluates the same `specOK` on the real code's observations. -/
namespace FpgoVerif.C02

/-! ### the regenerated table has the expected inventory -/

/-- The 14 conversion methods with their own type switch (and `ToUint8` delegating to `ToByte`) are exactly
    the ones the model, the harness and the property talk about. -/
theorem C02_table_methods :
    Gen.convMethods = [("ToFloat64", .float64), ("ToFloat32", .float32), ("ToInt", .int), ("ToInt8", .int8),
      ("ToInt16", .int16), ("ToInt32", .int32), ("ToInt64", .int64), ("ToByte", .uint8), ("ToUint", .uint),
      ("ToUint16", .uint16), ("ToUint32", .uint32), ("ToUint64", .uint64), ("ToUintptr", .uintptr), ("ToBool", .bool)]
    ∧ Gen.convAliases = [("ToUint8", "ToByte")] := by decide +kernel

/-! ### integer → integer (121 cells) -/

/-- Closing theorem over the regenerated table: every (integer target, integer source) cell passes the
    reflective interval checker. -/
theorem C02_table_int :
    intTys.all (fun tgt => intTys.all (fun src => intCellOK Gen.convTable tgt src)) = true := by decide +kernel

/-- Clauses (a), (b), (c) for every integer target, every integer source type and EVERY value of that type. -/
theorem C02_int_to_int (tgt src : Ty) (ht : tgt ∈ intTys) (hs : src ∈ intTys) (lo hi z : Int)
    (hr : src.range = some (lo, hi)) (h1 : lo ≤ z) (h2 : z ≤ hi) :
    specOK tgt (.ty src) (.i z) (convGo tgt (.ty src) (.i z)) = true := by
  have hall := C02_table_int
  rw [List.all_eq_true] at hall
  have h' := hall tgt ht
  rw [List.all_eq_true] at h'
  have hc := h' src hs
  have := intBodyOK_sound goStrconv Gen.convTable 4 tgt src lo hi hr hc z h1 h2
  cases src <;> simpa [specOK, convGo, convFuel] using this

/-! ### float → integer -/

/-- integer targets whose float clauses are direct (guard + `math.Round` + cast); `ToUintptr` goes through `ToUint64` -/
def fltDirectTgts : List Ty := [.int, .int8, .int16, .int32, .int64, .uint, .uint8, .uint16, .uint32, .uint64]

def fltCellOK (tbl : List Case) (tgt : Ty) (is32 : Bool) : Bool :=
  fltBodyOK tbl tgt is32 (lookup tbl tgt (.ty (fltSrc is32)))

/-- Closing theorem over the regenerated table: every (integer target, float32/float64) cell has a two-sided guard
    whose bounds — after Go's rounding of the constants to the float type — lie inside the target range and
    contain the must-succeed range. -/
theorem C02_table_float_to_int :
    fltDirectTgts.all (fun tgt => fltCellOK Gen.convTable tgt true && fltCellOK Gen.convTable tgt false) = true := by
  decide +kernel

/-- Clauses (a), (b), (c) for every float32 (`is32`) / float64 value `x` — NaN, ±Inf, ±0, denormals included —
    and every integer target except `uintptr`.  `x.wf` holds for every decoded bit pattern (`decode_wf`). -/
theorem C02_float_to_int (tgt : Ty) (ht : tgt ∈ fltDirectTgts) (is32 : Bool) (x : FVal) (hw : x.wf (fltP is32)) :
    specOK tgt (.ty (fltSrc is32)) (mkF is32 x) (convGo tgt (.ty (fltSrc is32)) (mkF is32 x)) = true := by
  have hall := C02_table_float_to_int
  rw [List.all_eq_true] at hall
  have hc := hall tgt ht
  simp only [Bool.and_eq_true] at hc
  have hcell : fltBodyOK Gen.convTable tgt is32 (lookup Gen.convTable tgt (.ty (fltSrc is32))) = true := by
    cases is32
    · exact hc.2
    · exact hc.1
  have := fltBodyOK_sound goStrconv Gen.convTable 4 tgt is32 hcell x hw
  cases is32 <;> simpa [specOK, convGo, convFuel, fltSrc, mkF] using this

/-- … in particular for every IEEE bit pattern. -/
theorem C02_float64_bits_to_int (tgt : Ty) (ht : tgt ∈ fltDirectTgts) (bits : Nat) :
    specOK tgt (.ty .float64) (.f64 (decode f64 bits)) (convGo tgt (.ty .float64) (.f64 (decode f64 bits))) = true :=
  C02_float_to_int tgt ht false (decode f64 bits) (decode_wf f64 (by decide) bits)

theorem C02_float32_bits_to_int (tgt : Ty) (ht : tgt ∈ fltDirectTgts) (bits : Nat) :
    specOK tgt (.ty .float32) (.f32 (decode f32 bits)) (convGo tgt (.ty .float32) (.f32 (decode f32 bits))) = true :=
  C02_float_to_int tgt ht true (decode f32 bits) (decode_wf f32 (by decide) bits)

/-- Closing theorem for `ToUintptr` ← float32/float64: the clause calls `ToUint64` (whose float clauses pass
    the checker above) and narrows the result with an integer guard that passes the interval checker. -/
theorem C02_table_float_to_uintptr :
    (compBodyOK Gen.convTable .uintptr true (lookup Gen.convTable .uintptr (.ty .float32)) &&
     compBodyOK Gen.convTable .uintptr false (lookup Gen.convTable .uintptr (.ty .float64))) = true := by decide +kernel

/-- Clauses (a), (b), (c) for `ToUintptr` of every float32 / float64 value. -/
theorem C02_float_to_uintptr (is32 : Bool) (x : FVal) (hw : x.wf (fltP is32)) :
    specOK .uintptr (.ty (fltSrc is32)) (mkF is32 x) (convGo .uintptr (.ty (fltSrc is32)) (mkF is32 x)) = true := by
  have hc := C02_table_float_to_uintptr
  simp only [Bool.and_eq_true] at hc
  have hcell : compBodyOK Gen.convTable .uintptr is32 (lookup Gen.convTable .uintptr (.ty (fltSrc is32))) = true := by
    cases is32
    · exact hc.2
    · exact hc.1
  have := compBodyOK_sound goStrconv Gen.convTable 3 .uintptr is32 hcell x hw
  cases is32 <;> simpa [specOK, convGo, convFuel, fltSrc, mkF] using this

-- 2^63 as a float64 is rejected by ToInt64 (the pinned code accepted it and returned MinInt64)
example : convGo .int64 (.ty .float64) (.f64 (.fin false 9223372036854775808 0)) = ⟨.i 0, .overflow⟩ := by decide +kernel
example : convGo .int32 (.ty .float64) (.f64 (.fin false 5 1)) = ⟨.i 3, .ok⟩ := by decide +kernel
example : (FVal.fin false 5 1).wf 53 := by simp [FVal.wf]

/-! ### integer → float -/

/-- Closing theorem: every (float target, integer source) clause is `val, err := To<S>(); return T(val), err`. -/
theorem C02_table_int_to_float :
    [Ty.float32, .float64].all (fun tgt => intTys.all (fun src =>
      toFloatBodyOK Gen.convTable tgt src (lookup Gen.convTable tgt (.ty src)))) = true := by decide +kernel

/-- Every integer of every integer type converts to float32 / float64 successfully, to the nearest representable
    value (`ofInt f z`: round to nearest, ties to even), which is always finite. -/
theorem C02_int_to_float (tgt : Ty) (f : Fmt) (hf : (tgt = .float32 ∧ f = f32) ∨ (tgt = .float64 ∧ f = f64))
    (src : Ty) (hs : src ∈ intTys) (lo hi z : Int) (hr : src.range = some (lo, hi)) (h1 : lo ≤ z) (h2 : z ≤ hi) :
    convGo tgt (.ty src) (.i z) = ⟨castTo tgt (.i z), .ok⟩ ∧
    specOK tgt (.ty src) (.i z) (convGo tgt (.ty src) (.i z)) = true := by
  have hall := C02_table_int_to_float
  rw [List.all_eq_true] at hall
  have h' := hall tgt (by rcases hf with ⟨rfl, _⟩ | ⟨rfl, _⟩ <;> simp)
  rw [List.all_eq_true] at h'
  have hc := h' src hs
  obtain ⟨e, sp⟩ := toFloatBodyOK_sound goStrconv Gen.convTable 4 tgt src f hf lo hi z hr h1 h2 hc
  have e' : convGo tgt (.ty src) (.i z) = ⟨castTo tgt (.i z), .ok⟩ := e
  refine ⟨e', ?_⟩
  rw [e']
  cases src <;> simpa [specOK] using sp

-- 2^24 + 1 is a tie between two float32 values and goes to the even one; 2^63 - 1 becomes 2^63
example : convGo .float32 (.ty .int32) (.i 16777217) = ⟨.f32 (.fin false 16777216 0), .ok⟩ := by decide +kernel
example : convGo .float64 (.ty .int64) (.i 9223372036854775807) = ⟨.f64 (.fin false 9223372036854775808 0), .ok⟩ := by
  decide +kernel

/-! ### string → integer -/

/-- all 11 integer targets: the string clause is `strconv.ParseInt/ParseUint/Atoi` + cast (`ToUintptr` adds a guard
    that every value `ParseUint(…, 64)` can return passes) -/
def strDirectTgts : List Ty := intTys

/-- Closing theorem: the string clause of every such method parses with the signedness of the target and a bitSize
    whose range lies inside the target's range and contains the must-succeed range. -/
theorem C02_table_string_to_int :
    strDirectTgts.all (fun tgt => strIntBodyOK tgt (lookup Gen.convTable tgt (.ty .string))) = true := by decide +kernel

/-- Clauses (a), (b), (c) for EVERY string `w` (numeric or not) and every `strconv` whose ParseInt / ParseUint / Atoi
    satisfy their documented contract (`ParseIntContract`): a nil error means `w` is an integer numeral and the result
    is its value; a canonical numeral that fits converts; "-1" → unsigned, "300" → int8, "1.5", "abc" fail. -/
theorem C02_string_to_int_contract (sc : Strconv) (hc : ParseIntContract sc) (tgt : Ty) (ht : tgt ∈ strDirectTgts)
    (w : String) :
    specOK tgt (.ty .string) (.s w) (conv sc Gen.convTable convFuel tgt (.ty .string) (.s w)) = true := by
  have hall := C02_table_string_to_int
  rw [List.all_eq_true] at hall
  have := strIntBodyOK_sound sc hc Gen.convTable 5 tgt w (hall tgt ht)
  simpa [specOK, convFuel] using this

/-- … in particular for the model the driver runs: `goStrconv` satisfies the contract (`goStrconv_parseInt_contract`). -/
theorem C02_string_to_int (tgt : Ty) (ht : tgt ∈ strDirectTgts) (w : String) :
    specOK tgt (.ty .string) (.s w) (convGo tgt (.ty .string) (.s w)) = true :=
  C02_string_to_int_contract goStrconv goStrconv_parseInt_contract tgt ht w

example : convGo .uint8 (.ty .string) (.s "200") = ⟨.i 200, .ok⟩ := by decide +kernel
example : (convGo .uint8 (.ty .string) (.s "-1")).err = .other := by decide +kernel

/-! ### float → float -/

/-- Closing theorem: `ToFloat64`←float64 and `ToFloat32`←float32 are the identity, `ToFloat64`←float32 is the (exact)
    widening cast, `ToFloat32`←float64 casts under the guard `(-MaxFloat32 <= v && v <= MaxFloat32) || IsInf || IsNaN`
    (constants as Go rounds them to float64). -/
theorem C02_table_float_to_float :
    [Ty.float32, .float64].all (fun tgt => [true, false].all (fun is32 =>
      ffBodyOK Gen.convTable tgt (fltSrc is32) (lookup Gen.convTable tgt (.ty (fltSrc is32))))) = true := by
  decide +kernel

/-- Clauses (a), (b), (c) for float targets and EVERY float32 / float64 source value: the result is the nearest
    representable value (the value itself when widening; ties-to-even when narrowing), a finite value whose rounding
    would overflow float32 is rejected, every finite value of magnitude ≤ MaxFloat32 converts and stays finite
    (`roundRat_isFin`), NaN and ±Inf pass through. -/
theorem C02_float_to_float (tgt : Ty) (ht : tgt ∈ [Ty.float32, .float64]) (is32 : Bool) (x : FVal) :
    specOK tgt (.ty (fltSrc is32)) (mkF is32 x) (convGo tgt (.ty (fltSrc is32)) (mkF is32 x)) = true := by
  have hall := C02_table_float_to_float
  rw [List.all_eq_true] at hall
  have h' := hall tgt ht
  rw [List.all_eq_true] at h'
  have hc := h' is32 (by cases is32 <;> simp)
  have := ffBodyOK_sound goStrconv Gen.convTable 4 tgt is32 x hc
  cases is32 <;> simpa [specOK, convGo, convFuel, fltSrc, mkF] using this

-- 1e300 no longer becomes +Inf with a nil error; MaxFloat32 + half an ulp (a tie that would round to 2^128) is rejected
example : (convGo .float32 (.ty .float64) (.f64 (decode f64 0x7e37e43c8800759c))).err = .overflow := by decide +kernel
example : (convGo .float32 (.ty .float64) (.f64 (.fin false (2 ^ 128 - 2 ^ 103) 0))).err = .overflow := by decide +kernel
example : convGo .float32 (.ty .float64) (.f64 (.fin false 16777217 0)) = ⟨.f32 (.fin false 16777216 0), .ok⟩ := by
  decide +kernel
example : convGo .float32 (.ty .float64) (.f64 (.inf true)) = ⟨.f32 (.inf true), .ok⟩ := by decide +kernel

/-! ### string → float, `strconv.ParseFloat` as a contract parameter -/

/-- Closing theorem: `ToFloat64`←string is `return strconv.ParseFloat(s, 64)`, `ToFloat32`←string is
    `val, err := strconv.ParseFloat(s, 32); return float32(val), err`; `ToBool`←string is `return strconv.ParseBool(s)`
    (outside the property: `specOK` demands nothing of it). -/
theorem C02_table_string_to_float :
    (strFloatBodyOK .float64 (lookup Gen.convTable .float64 (.ty .string)) &&
     strFloatBodyOK .float32 (lookup Gen.convTable .float32 (.ty .string)) &&
     (lookup Gen.convTable .bool (.ty .string) == Body.direct .parseBool)) = true := by decide +kernel

/-- For EVERY string and every `strconv` whose `ParseFloat(·, 64)` satisfies its documented contract
    (`ParseFloatContract`): (a) a nil error comes with the nearest float64 of the numeral, (b) a numeral of magnitude
    ≤ MaxFloat64 converts, (c) a numeral that would round to ±Inf and a non-numeral never yield a finite value
    with a nil error. -/
theorem C02_string_to_float64 (sc : Strconv) (hc : ParseFloatContract f64 (sc.parseFloat 64)) (w : String) :
    specOK .float64 (.ty .string) (.s w) (conv sc Gen.convTable convFuel .float64 (.ty .string) (.s w)) = true := by
  have hk := C02_table_string_to_float
  simp only [Bool.and_eq_true] at hk
  have := strFloat64_sound sc hc Gen.convTable 5 w hk.1.1
  simpa [specOK, convFuel] using this

/-- The same for `ToFloat32` (the float64 that `ParseFloat(·, 32)` returns is narrowed with `float32(val)`; the contract
    says this does not change its value). -/
theorem C02_string_to_float32 (sc : Strconv) (hc : ParseFloatContract f32 (sc.parseFloat 32)) (w : String) :
    specOK .float32 (.ty .string) (.s w) (conv sc Gen.convTable convFuel .float32 (.ty .string) (.s w)) = true := by
  have hk := C02_table_string_to_float
  simp only [Bool.and_eq_true] at hk
  have := strFloat32_sound sc hc Gen.convTable 5 w hk.1.2
  simpa [specOK, convFuel] using this

/-- … in particular for the model the driver runs: `goStrconv.parseFloat` satisfies the contract for both bit sizes
    (`goStrconv_parseFloat64_contract`, `goStrconv_parseFloat32_contract`: a numeral is rounded from its exact rational
    value; `roundRat_isFin`; round-to-nearest-even is idempotent, `roundRat_idem`).  No hypothesis is left. -/
theorem C02_string_to_float64_go (w : String) :
    specOK .float64 (.ty .string) (.s w) (convGo .float64 (.ty .string) (.s w)) = true :=
  C02_string_to_float64 goStrconv goStrconv_parseFloat64_contract w

theorem C02_string_to_float32_go (w : String) :
    specOK .float32 (.ty .string) (.s w) (convGo .float32 (.ty .string) (.s w)) = true :=
  C02_string_to_float32 goStrconv goStrconv_parseFloat32_contract w

-- non-vacuity of the contract hypothesis: two different functions satisfy it
example : ParseFloatContract f64 refParseFloat64 := refParseFloat64_contract
example : ParseFloatContract f32 (goStrconv.parseFloat 32) := goStrconv_parseFloat32_contract
-- sanity samples (TEST, by evaluation): overflow, the float32 overflow threshold, ties, a non-numeral
example : ["1e400", "3.4028235677973366e38", "0.1", "16777217", "abc", "-1.5e-3"].all (fun w =>
    specOK .float32 (.ty .string) (.s w) (convGo .float32 (.ty .string) (.s w)) &&
    specOK .float64 (.ty .string) (.s w) (convGo .float64 (.ty .string) (.s w))) = true := by decide +kernel

/-- `ToBool` of a string (`strconv.ParseBool`) is outside the property: nothing is demanded. -/
theorem C02_string_to_bool (w : String) (r : Res) : specOK .bool (.ty .string) (.s w) r = true := by
  simp [specOK, specStr, Ty.range, Ty.must, Ty.fmt]

/-! ### absent values, unsupported kinds, bool sources, ToBool -/

/-- Closing theorem: every method starts with the `IsNil` prelude returning `ErrConversionNil`, its `default`
    clause returns `ErrConversionUnsupported`, and every `ToBool` clause of a numeric type is `val != 0`. -/
theorem C02_table_misc :
    allTgts.all (fun tgt => errRowOK Gen.convTable tgt .nil .nilErr && errRowOK Gen.convTable tgt .dflt .unsupported) = true
    ∧ numTys.all (fun src => toBoolBodyOK Gen.convTable src (lookup Gen.convTable .bool (.ty src))) = true := by
  decide +kernel

/-- Unsupported kinds (whatever reaches the `default` clause) fail with `ErrConversionUnsupported`. -/
theorem C02_unsupported (tgt : Ty) (ht : tgt ∈ allTgts) (x : Val) :
    (convGo tgt .dflt x).err = .unsupported ∧ specOK tgt .dflt x (convGo tgt .dflt x) = true := by
  have hall := C02_table_misc.1
  rw [List.all_eq_true] at hall
  have h := hall tgt ht
  simp only [Bool.and_eq_true] at h
  have this : (convGo tgt .dflt x).err = .unsupported :=
    errRow_sound goStrconv Gen.convTable 5 tgt .dflt .unsupported x h.2
  exact ⟨this, by simp [specOK, this]⟩

/-- An absent value fails with `ErrConversionNil`. -/
theorem C02_nil (tgt : Ty) (ht : tgt ∈ allTgts) (x : Val) :
    (convGo tgt .nil x).err = .nilE ∧ specOK tgt .nil x (convGo tgt .nil x) = true := by
  have hall := C02_table_misc.1
  rw [List.all_eq_true] at hall
  have h := hall tgt ht
  simp only [Bool.and_eq_true] at h
  have this : (convGo tgt .nil x).err = .nilE :=
    errRow_sound goStrconv Gen.convTable 5 tgt .nil .nilErr x h.1
  exact ⟨this, by simp [specOK, this]⟩

/-- `ToBool` of an integer is exactly `z != 0` (never an error). -/
theorem C02_toBool_int (src : Ty) (hs : src ∈ intTys) (z : Int) :
    convGo .bool (.ty src) (.i z) = ⟨.b (decide (z ≠ 0)), .ok⟩ ∧
    specOK .bool (.ty src) (.i z) (convGo .bool (.ty src) (.i z)) = true := by
  have hall := C02_table_misc.2
  rw [List.all_eq_true] at hall
  have h := hall src (by simp [numTys]; exact Or.inl hs)
  have e := toBoolBodyOK_sound goStrconv Gen.convTable 4 src (.i z) h
  have e' : convGo .bool (.ty src) (.i z) = ⟨.b (decide (z ≠ 0)), .ok⟩ := by
    simpa [convGo, convFuel, evalE] using e
  refine ⟨e', ?_⟩
  rw [e']
  cases src <;> simp [specOK, specNum, Ty.range, Ty.must, Ty.fmt]

/-- `ToBool` of a float is exactly `x != 0`: true for NaN and ±Inf, false for ±0. -/
theorem C02_toBool_float (is32 : Bool) (x : FVal) :
    convGo .bool (.ty (fltSrc is32)) (mkF is32 x) = ⟨.b x.ne0, .ok⟩ ∧
    specOK .bool (.ty (fltSrc is32)) (mkF is32 x) (convGo .bool (.ty (fltSrc is32)) (mkF is32 x)) = true := by
  have hall := C02_table_misc.2
  rw [List.all_eq_true] at hall
  have h := hall (fltSrc is32) (by cases is32 <;> simp [numTys, fltSrc])
  have e := toBoolBodyOK_sound goStrconv Gen.convTable 4 (fltSrc is32) (mkF is32 x) h
  have e' : convGo .bool (.ty (fltSrc is32)) (mkF is32 x) = ⟨.b x.ne0, .ok⟩ := by
    cases is32 <;> simpa [convGo, convFuel, evalE, mkF] using e
  refine ⟨e', ?_⟩
  rw [e']
  cases is32 <;> simp [specOK, specNum, Ty.range, Ty.must, Ty.fmt, fltSrc, mkF]

/-- A wrapped bool converts to 1 / 0 (1.0 / 0.0, itself) with every method: both values × all 14 methods,
    by complete enumeration. -/
theorem C02_bool_source (tgt : Ty) (ht : tgt ∈ allTgts) (b : Bool) :
    specOK tgt (.ty .bool) (.b b) (convGo tgt (.ty .bool) (.b b)) = true := by
  have h : allTgts.all (fun tgt => [true, false].all (fun b =>
      specOK tgt (.ty .bool) (.b b) (convGo tgt (.ty .bool) (.b b)))) = true := by decide +kernel
  rw [List.all_eq_true] at h
  have h' := h tgt ht
  rw [List.all_eq_true] at h'
  exact h' b (by cases b <;> simp)

example : convGo .float32 (.ty .bool) (.b true) = ⟨.f32 (.fin false 1 0), .ok⟩ := by decide +kernel

example : specOK .uint8 (.ty .int8) (.i (-1)) (convGo .uint8 (.ty .int8) (.i (-1))) = true := by decide +kernel
example : convGo .uint8 (.ty .int8) (.i (-1)) = ⟨.i 0, .overflow⟩ := by decide +kernel
example : convGo .int16 (.ty .uint64) (.i 32767) = ⟨.i 32767, .ok⟩ := by decide +kernel

/-! ### every row of the regenerated table belongs to exactly one closing theorem -/

/-- the row sets of the closing theorems above -/
inductive Frag
  | intInt        -- C02_table_int
  | fltInt        -- C02_table_float_to_int
  | fltUintptr    -- C02_table_float_to_uintptr
  | intFlt        -- C02_table_int_to_float
  | fltFlt        -- C02_table_float_to_float
  | strInt        -- C02_table_string_to_int
  | strFlt        -- C02_table_string_to_float (float targets and the ToBool row)
  | boolSrc       -- C02_bool_source (complete enumeration of both values)
  | toBoolNum     -- C02_table_misc, second part
  | errRows       -- C02_table_misc, first part (nil prelude, default clause)
deriving DecidableEq, Repr

def allFrags : List Frag :=
  [.intInt, .fltInt, .fltUintptr, .intFlt, .fltFlt, .strInt, .strFlt, .boolSrc, .toBoolNum, .errRows]

def fltTys : List Ty := [.float32, .float64]

/-- does the closing theorem `f` range over the row (method `tgt`, clause `k`) — written with the very lists the
    closing theorems iterate over -/
def Frag.covers (f : Frag) (tgt : Ty) (k : Kind) : Bool :=
  match f, k with
  | .intInt, .ty src => intTys.contains tgt && intTys.contains src
  | .fltInt, .ty src => fltDirectTgts.contains tgt && fltTys.contains src
  | .fltUintptr, .ty src => tgt == .uintptr && fltTys.contains src
  | .intFlt, .ty src => fltTys.contains tgt && intTys.contains src
  | .fltFlt, .ty src => fltTys.contains tgt && fltTys.contains src
  | .strInt, .ty src => strDirectTgts.contains tgt && src == .string
  | .strFlt, .ty src => (fltTys.contains tgt || tgt == .bool) && src == .string
  | .boolSrc, .ty src => allTgts.contains tgt && src == .bool
  | .toBoolNum, .ty src => tgt == .bool && numTys.contains src
  | .errRows, .nil => allTgts.contains tgt
  | .errRows, .dflt => allTgts.contains tgt
  | _, _ => false

/-- The union of the row sets of the closing theorems is the whole regenerated table, the sets are disjoint, and no
    (method, clause) key occurs twice: a row or case clause added to (or duplicated in) `maybe.go` cannot escape all
    theorems — it makes this one fail. -/
theorem C02_table_complete :
    Gen.convTable.all (fun c => (allFrags.filter (fun f => f.covers c.tgt c.src)).length == 1) = true
    ∧ (Gen.convTable.map (fun c => (c.tgt, c.src))).Nodup
    ∧ Gen.convTable.length = 14 * 17 := by decide +kernel

end FpgoVerif.C02
