import FpgoVerif.Proofs.C11Refine
import FpgoVerif.Gen.C11Skeletons
/-! Property theorems for C11 — MonadIO is lazy, runs its effect once per evaluation, obeys the monad laws.

    All statements are about the definitions the driver executes (`Model/C11.lean`): `just/new/flatMap/
    eval/doSubscribe/subscribe/observeOn/subscribeOn/yieldFromIO` mirror monadIO.go closure by closure,
    `den` is the composition-tree interpreter of the protocol, `run`/`specCase` is the Spec. -/
namespace FpgoVerif.C11

variable {α : Type}

/-! ### Laziness -/

/-- Building and composing is silent: for EVERY composition tree and from every state, a script of operations
    that only construct/compose (`b`, ObserveOn `o*`, SubscribeOn `u*`) leaves the world exactly as it was
    and reports no event.  (In the model the constructors are values — `World` is not an argument of
    `just/new/flatMap/observeOn/subscribeOn`; that the Go constructors behave like that is carried by the
    correspondence, which prints the events seen after every such operation, and by `C11_skeleton`: the effect
    closure is invoked only from `doEffect`, and `doEffect`/`fn` are called only inside closures.) -/
theorem C11_lazy (ops : List String)
    (h : ∀ op ∈ ops, parseOp op = some (.basic .build) ∨ (∃ h, parseOp op = some (.basic (.ob h))) ∨
      (∃ h, parseOp op = some (.basic (.so h))) ∨ (∃ j, parseOp op = some (.sel j)) ∨
      (∃ j c b, parseOp op = some (.derive j c b)) ∨ (∃ j c k, parseOp op = some (.deriveRet j c k))) :
    ∀ (st : ISt), (foldOps stepOp st ops).1.w = st.w := by
  induction ops with
  | nil => intro st; rfl
  | cons op ops ih =>
    intro st
    have hop := h op (by simp)
    have ih' := ih (fun o ho => h o (by simp [ho]))
    rw [foldOps_cons]
    show (foldOps stepOp (stepOp st op).1 ops).1.w = st.w
    rw [ih']
    rcases hop with hb | ⟨hh, hb⟩ | ⟨hh, hb⟩ | ⟨j, hb⟩ | ⟨j, c, b, hb⟩ | ⟨j, c, k, hb⟩ <;> simp only [stepOp, hb, implStep]
    · cases st.regs st.cur <;> simp only [queues, Bool.false_eq_true, if_false]
      split <;> rfl
    · cases st.regs st.cur <;> simp only [queues, Bool.false_eq_true, if_false]
      split <;> rfl
    · cases st.regs st.cur <;> simp only [queues, Bool.false_eq_true, if_false]
      split <;> rfl
    · cases st.regs j <;> rfl
    · cases st.regs st.cur <;> rfl
    · cases st.regs st.cur <;> cases st.regs k <;> rfl

/-- every case starts from the empty world, nothing pending, whatever the tree: construction of `den t 0` contributes
    nothing -/
theorem C11_lazy_initial (line : String) (t : Tree) (hp : parseHead (splitCase line).1 = some t) :
    handle line = " | ".intercalate (runOps stepOp (istInit t (headAllowsSame (splitCase line).1)) (splitCase line).2) ∧
      ∀ b, (istInit t b).w = w0 := by
  simp [handle, hp, istInit]

example : (implStep (implStep (implStep (istInit (.FL 1 (.N 1) (.N 2))) (.basic (.ob (some .h1)))).1 (.derive 1 4 (.N 3))).1 (.sel 1)).1.w = w0
    ∧ (implStep (implStep (istInit (.FL 1 (.N 1) (.N 2))) (.derive 1 4 (.N 3))).1 (.sel 1)).2 = "-" := ⟨rfl, rfl⟩

/-! ### Exactly once, in composition order -/

/-- Eval runs the chain exactly once: on any goroutine `g`, from any world, it returns the value the
    composition denotes and appends precisely the chain `run` lists (each effect and each continuation call
    once, in composition order, all on `g`); the earlier log is untouched. -/
theorem C11_once (t : Tree) (v : Nat) (g : Tag) (w : World) :
    eval (den t v) g w = ((run t v w.log.length).1, w.emits (run t v w.log.length).2 g) :=
  den_effect t v g w

/-- `run` follows composition order read off the syntax: for a static composition (no data-dependent
    branch) the chain is the left operand's chain, the continuation, the body's chain — every syntactic
    effect and continuation exactly once. -/
theorem C11_once_static (t : Tree) (hs : t.static = true) : ∀ (v n : Nat),
    (run t v n).2.map Kind.label = labels t := by
  induction t with
  | FC c t b1 b2 _ _ _ => simp [Tree.static] at hs
  | FL c t b iht ihb =>
    intro v n
    simp only [Tree.static, Bool.and_eq_true] at hs
    simp [run, labels, iht hs.1, ihb hs.2, Kind.label]
  | FR t ih => intro v n; simpa [run, labels] using ih (by simpa [Tree.static] using hs) v n
  | A x c b ih => intro v n; simp [run, labels, Kind.label, ih (by simpa [Tree.static] using hs)]
  | O h t ih => intro v n; simpa [run, labels] using ih (by simpa [Tree.static] using hs) v n
  | S h t ih => intro v n; simpa [run, labels] using ih (by simpa [Tree.static] using hs) v n
  | J c => intro v n; simp [run, labels]
  | V a => intro v n; simp [run, labels]
  | N id => intro v n; simp [run, labels, Kind.label]
  | W id => intro v n; simp [run, labels, Kind.label]
  | H id => intro v n; simp [run, labels, Kind.label]
  | G id => intro v n; simp [run, labels, Kind.label]
  | JM id x _ => intro v n; simp [run, labels]
  | Z t ih => intro v n; simpa [run, labels] using ih (by simpa [Tree.static] using hs) 0 n

/-- … hence one Eval of a static composition logs, after the old log, exactly the syntactic sequence of its
    effects/continuations, all on the evaluating goroutine — and `k` Evals log it `k` times (`C11_once`
    applies from every world). -/
theorem C11_once_log (t : Tree) (hs : t.static = true) (v : Nat) (g : Tag) (w : World) :
    ((eval (den t v) g w).2.log.drop w.log.length).map (fun e => (e.kind.label, e.g)) =
      (labels t).map (fun l => (l, g)) := by
  rw [C11_once, emits_log, List.drop_left, ← C11_once_static t hs v w.log.length]
  simp [List.map_map, Function.comp_def]

example : (Tree.FL 1 (.N 1) (.FR (.W 2))).static = true ∧ labels (.FL 1 (.N 1) (.FR (.W 2))) = [.eff 1, .call 1, .eff 2] := by decide

/-- A value that is itself a MonadIO object is a value like any other: `Just(obj)` yields the object and runs nothing of
    it, whatever the object is; composed further, the continuation receives the object. -/
theorem C11_just_of_monad (id : Nat) (x : Tree) (v : Nat) (g : Tag) (w : World) :
    eval (den (.JM id x) v) g w = (1000 + id, w) ∧
    ∀ (c : Nat) (b : Tree), eval (den (.FL c (.JM id x) b) v) g w = eval (den b (1000 + id)) g (w.emit (.call c (1000 + id)) g) :=
  ⟨rfl, fun _ _ => rfl⟩

/-! ### Monad laws (equalities of `Tag → World → α × World`) -/

/-- Just(x).FlatMap(f) behaves as f(x) -/
theorem C11_left_identity (a : α) (f : α → M α) : (flatMap (just a) f).effect = (f a).effect := rfl

/-- m.FlatMap(Just) behaves as m -/
theorem C11_right_identity (m : M α) : (flatMap m just).effect = m.effect := rfl

/-- FlatMap is associative — here even as an equality of MonadIO values -/
theorem C11_assoc (m : M α) (f k : α → M α) :
    flatMap (flatMap m f) k = flatMap m (fun a => flatMap (f a) k) := rfl

/-- the laws as seen by the two consumers: Eval … -/
theorem C11_laws_eval (a : α) (m : M α) (f k : α → M α) (g : Tag) (w : World) :
    eval (flatMap (just a) f) g w = eval (f a) g w ∧
    eval (flatMap m just) g w = eval m g w ∧
    eval (flatMap (flatMap m f) k) g w = eval (flatMap m (fun a => flatMap (f a) k)) g w :=
  ⟨rfl, rfl, rfl⟩

/-- … and Subscribe, for every subscription and every nil/non-nil handler pair -/
theorem C11_laws_subscribe (a : α) (m : M α) (f k : α → M α) (s : Subscription α) (ob sub : Option Tag)
    (g : Tag) (w : World) :
    doSubscribe (flatMap (just a) f) s ob sub g w = doSubscribe (f a) s ob sub g w ∧
    doSubscribe (flatMap m just) s ob sub g w = doSubscribe m s ob sub g w ∧
    doSubscribe (flatMap (flatMap m f) k) s ob sub g w =
      doSubscribe (flatMap m (fun a => flatMap (f a) k)) s ob sub g w :=
  ⟨rfl, rfl, rfl⟩

/-! ### Subscribe: one delivery of Eval's value, on the right goroutines -/

/-- With an OnNext, doSubscribe runs the effect exactly once — on `obOn`'s goroutine (the caller's when nil)
    — and applies OnNext exactly once, to that value, in the world the effect left — on `subOn`'s goroutine
    (the effect's goroutine when nil). -/
theorem C11_subscribe_once (m : M α) (onNext : α → Tag → World → World) (ob sub : Option Tag) (g : Tag)
    (w : World) :
    doSubscribe m ⟨some onNext⟩ ob sub g w =
      onNext (eval m (ob.getD g) w).1 (sub.getD (ob.getD g)) (eval m (ob.getD g) w).2 :=
  subscribe_once m onNext ob sub g w

/-- A Subscription without OnNext runs nothing. -/
theorem C11_subscribe_nil (m : M α) (ob sub : Option Tag) (g : Tag) (w : World) :
    doSubscribe m ⟨none⟩ ob sub g w = w := rfl

/-- ObserveOn(h1)/SubscribeOn(h2) on a composition, then Subscribe with the logging OnNext: the log grows by
    the chain — once, in order, every event on h1 (caller if nil) — followed by exactly one delivery of the
    composition's value on h2 (h1's goroutine if nil). -/
theorem C11_handlers (t : Tree) (v : Nat) (h1 h2 : Option Tag) (g : Tag) (w : World) :
    subscribe (subscribeOn (observeOn (den t v) h1) h2) ⟨some logNext⟩ g w =
      (w.emits (run t v w.log.length).2 (h1.getD g)).emit (.next (run t v w.log.length).1) (h2.getD (h1.getD g)) := by
  unfold subscribe
  have : doSubscribe (subscribeOn (observeOn (den t v) h1) h2) ⟨some logNext⟩ h1 h2 g w
      = doSubscribe (den t v) ⟨some logNext⟩ h1 h2 g w := rfl
  simp only [subscribeOn, observeOn] at this ⊢
  rw [this, C11_subscribe_once, C11_once]
  rfl

example : (subscribe (subscribeOn (observeOn (den (.FL 1 (.N 1) (.V 0)) 0) (some .h1)) (some .h2)) ⟨some logNext⟩ .main w0).log
    = [⟨.eff 1, .h1⟩, ⟨.call 1 7, .h1⟩, ⟨.next 7, .h2⟩] := by decide

/-- FlatMap does not inherit handlers and Eval ignores them: Eval always runs on the caller. -/
theorem C11_eval_ignores_handlers (m : M α) (h1 h2 : Option Tag) (g : Tag) (w : World) :
    eval (subscribeOn (observeOn m h1) h2) g w = eval m g w := rfl

/-- Cor.YieldFromIO returns exactly Eval's value (effect on obOn's goroutine, once) and leaves subOn = nil. -/
theorem C11_yieldFromIO (m : M Nat) (g : Tag) (w : World) :
    yieldFromIO m g w =
      (subscribeOn m none, (eval m (m.obOn.getD g) { w with cell := 0 }).1,
       { (eval m (m.obOn.getD g) { w with cell := 0 }).2 with cell := (eval m (m.obOn.getD g) { w with cell := 0 }).1 }) :=
  yieldFromIO_eq m g w

/-! ### Several objects derived from one object; subscriptions in flight -/

/-- Deriving is composing: the object stored by `derive` denotes `m.FlatMap(f)` of the object it was derived from —
    whatever else has been or will be derived from that same object (values are immutable: siblings are independent,
    the base is unchanged). -/
theorem C11_derive_independent (st : ISt) (j c : Nat) (b : Tree) (m : M Nat) (hm : st.regs st.cur = some m) :
    (implStep st (.derive j c b)).1.regs j = some (flatMap m (kont c (fun x => den b x))) ∧
    (∀ k, k ≠ j → (implStep st (.derive j c b)).1.regs k = st.regs k) ∧ (implStep st (.derive j c b)).1.w = st.w := by
  simp only [implStep]
  rw [hm]
  exact ⟨by simp [setReg], fun k hk => by simp [setReg, hk], rfl⟩

/-- doSubscribe is the cut version run to completion: the delivery is a resumption that depends only on the value
    the effect produced and on the handler pair passed to doSubscribe — the pair in force when Subscribe was called. -/
theorem C11_subscribe_split (m : M α) (onNext : α → Tag → World → World) (ob sub : Option Tag) (g : Tag) (w : World) :
    doSubscribe m ⟨some onNext⟩ ob sub g w =
      (doSubscribeSplit m onNext ob sub g w).2 (doSubscribeSplit m onNext ob sub g w).1 := by
  rw [C11_subscribe_once]; rfl

/-- A gated subscription delivers where ITS handler pair says, whatever is done to the object while it is in flight:
    after any operations in between that leave the pending subscription alone, opening the gate appends exactly one
    delivery of the value of the composition on `sub.getD ob` as they were at Subscribe. -/
theorem C11_gated_delivery (st : ISt) (m : M Nat) (hb : Tag) (hm : st.regs st.cur = some m) (hp : st.pend = none)
    (hob : m.obOn = some hb) (hns : (!st.allowSame && sameUnbuffered m.obOn m.subOn) = false) :
    ∃ k, (implStep st .gsub).1.pend = some (hb, k) ∧
      ∀ w', k w' = w'.emit (.next (eval m hb st.w).1) (m.subOn.getD hb) := by
  simp only [implStep]
  rw [hm, hp]
  rw [hob] at hns
  simp only [hob, hns]
  exact ⟨_, rfl, fun w' => rfl⟩

/-! ### The model the driver runs refines the Spec on every case line -/

/-- For every case line (any tree; any script of Eval / Subscribe / nil-Subscribe / YieldFromIO / ObserveOn /
    SubscribeOn operations on up to four objects, objects derived from a common object, a gated subscription with
    operations while it is in flight; any number of evaluations), the implementation model prints exactly what the
    property's statement (`specCase`: chain once per evaluation in composition order, value of the composition, effect on
    h1's goroutine, delivery on h2's — the pair in force when Subscribe was called —, nothing without OnNext) prescribes. -/
theorem C11_model_refines_spec (line : String) : handle line = specCase line := by
  unfold handle specCase
  cases hp : parseHead (splitCase line).1 with
  | none => simp [hp]
  | some t =>
    simp only [hp]
    congr 1
    refine runOps_eq Rel stepOp specOp ?_ _ _ _ ?_
    · intro s st op h
      unfold stepOp specOp
      cases parseOp op with
      | none => exact ⟨h, rfl⟩
      | some o => exact rel_step s st o h
    · refine ⟨?_, rfl, rfl, trivial, rfl, rfl, rfl⟩
      intro k
      unfold istInit sstInit setReg
      by_cases hk : k = 0 <;> simp [hk, RelReg, den_obOn, den_subOn]

/-! ### Tie to the source: protocol skeletons regenerated from monadIO.go on every run -/

/-- the shape of monadIO.go the model assumes, as data (`Gen/C11Skeletons.lean`, regenerated by `extract/c11.go`: the shared
    skeleton grammar with statement-level reads of the handler fields dropped — handing an operand's handlers on to a
    composed value is neutral for the property) -/
def expectedSkeletons : List (String × String) := [
  ("MonadIOJustGenerics", "func{return} return"),
  ("MonadIONewGenerics", "return"),
  ("MonadIODef.Just", "call(MonadIOJustGenerics) return"),
  ("MonadIODef.New", "call(MonadIONewGenerics) return"),
  ("MonadIODef.FlatMap", "func{call(doEffect) callfn(fn) call(doEffect) return} return"),
  ("MonadIODef.Eval", "call(doEffect) return"),
  ("MonadIODef.doEffect", "callfn(effect) return"),
  ("MonadIODef.ObserveOn", "set(obOn) return"),
  ("MonadIODef.SubscribeOn", "set(subOn) return"),
  ("MonadIODef.Subscribe", "set(obOn) set(subOn) call(doSubscribe) return"),
  ("MonadIODef.doSubscribe", "if[]{func{callfn(OnNext)} func{call(doEffect) set(result) if[]{call(Post)}else{callfn(doSub)}} if[]{call(Post)}else{callfn(doOb)}} return")]

/-- monadIO.go still has the protocol shape the model mirrors: the constructors and FlatMap/ObserveOn/
    SubscribeOn call neither `effect`, `fn`, `doEffect` nor `OnNext` outside a closure (laziness); the stored
    effect is invoked only from `doEffect`; FlatMap's closure is doEffect — fn — doEffect (once each, in this
    order); Eval is one doEffect; doSubscribe guards everything by OnNext ≠ nil, runs doEffect once in `doOb`,
    hands `doSub` to Post or calls it (once), hands `doOb` to Post or calls it (once). -/
theorem C11_skeleton : expectedSkeletons.all (fun e => Gen.monadIOSkeletonOf e.1 == some e.2) = true := by
  decide +kernel

end FpgoVerif.C11
