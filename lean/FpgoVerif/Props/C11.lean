import FpgoVerif.Model.C11
/-! Property theorems for C11 (none yet). -/
