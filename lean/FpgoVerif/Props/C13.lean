import FpgoVerif.Model.C13
/-! Property theorems for C13 (none yet). -/
