import FpgoVerif.Proofs.C13Ask
import FpgoVerif.Proofs.C13Fan
import FpgoVerif.Model.C13
import FpgoVerif.Gen.Skeletons
import FpgoVerif.Gen.MailboxFacts
/-! Property theorems for C13 — "Ask/Reply: every asker gets its own answer; timeouts are clean".  All statements
    are about `C13.step`, the function the driver executes, for the code as it is now (`legacy = false`), for any
    number of askers of any kind (AskOnce / AskOnceWithTimeout / AskChannel), any payloads, any reply function,
    any capacities of the actor's mailbox and of the reply channels, and every schedule — the timeout of an
    AskOnceWithTimeout may fire at any moment after the request was handed to the actor, the actor may take
    arbitrarily long between receiving a request and calling `Reply`. -/
namespace FpgoVerif.C13

/-- No panic state is reachable: `Reply` never sends on a closed channel (not after a timeout, not after
    AskOnce / AskOnceWithTimeout closed `ch` behind a received value), nothing is closed twice. -/
theorem C13_no_panic {c : Cfg} {spec s} (hl : c.legacy = false) (h : Reach c spec s) : s.panicked = false :=
  (reach_inv hl h).np

/-- Correlation: whatever an asker receives — and returns — is the value the actor computed for that very
    request, `reply i (payload i)`; no schedule routes a reply to another asker. -/
theorem C13_correlation {c : Cfg} {spec s} (hl : c.legacy = false) (h : Reach c spec s) (i v : Nat)
    (hv : (s.asker i).pc = .got v ∨ (s.asker i).pc = .retV v) : v = c.reply i (spec i).2.1 := by
  have hp := (reach_inv hl h).ph i
  have hs := (reach_static h i).1
  unfold Phase answer at hp
  rcases hv with hv | hv <;> rw [hv] at hp <;> simp only [PhaseOf] at hp
  · rw [← hs]; exact hp.2.2.2
  · rw [← hs]; exact hp.2.2

/-- … also in transit: a reply channel only ever holds the answer to its own request, and the value the actor
    is about to send in `Reply` is the answer to the request it is serving. -/
theorem C13_in_transit {c : Cfg} {spec s} (hl : c.legacy = false) (h : Reach c spec s) (i : Nat) :
    (∀ v ∈ (s.asker i).buf, v = c.reply i (spec i).2.1) ∧ (∀ v, s.actor = .replying i v → v = c.reply i (spec i).2.1) := by
  have hi := reach_inv hl h
  have hs := (reach_static h i).1
  constructor
  · intro v hv; have := hi.bufOK i v hv; rw [answer, hs] at this; exact this
  · intro v hv; have := hi.actOK i v hv; rw [answer, hs] at this; exact this

/-- The result of an ask is `(reply, nil)` or `(zero, ErrActorAskTimeout)`; the timeout result only comes out
    of AskOnceWithTimeout, leaves `ch` open and `done` closed; and at most the one late reply is still around. -/
theorem C13_timeout_clean {c : Cfg} {spec s} (hl : c.legacy = false) (h : Reach c spec s) (i : Nat)
    (ht : (s.asker i).pc = .retT) :
    (spec i).1 = .timeout ∧ (s.asker i).chClosed = false ∧ (s.asker i).doneClosed = true ∧ holds s i ≤ 1 := by
  have hp := (reach_inv hl h).ph i
  unfold Phase at hp
  rw [ht] at hp; simp only [PhaseOf] at hp
  exact ⟨(reach_static h i).2.1 ▸ hp.2.2.2, hp.2.1, hp.2.2.1, hp.1⟩

/-- A reply produced after the timeout is discarded: when the actor is inside `Reply` for an asker that has
    returned with the timeout, the `done` case of the select is enabled, taking it leaves the actor idle, the
    request counted as served, and no panic. -/
theorem C13_late_reply_discarded {c : Cfg} {spec s} (hl : c.legacy = false) (h : Reach c spec s) {i v : Nat}
    (ha : s.actor = .replying i v) (ht : (s.asker i).pc = .retT) :
    step c s .replyDone = some { s with actor := .idle, served := s.served ++ [i] } := by
  have hd := (C13_timeout_clean hl h i ht).2.2.1
  simp [step, ha, hd, hl]

/-- The actor is never blocked forever in `Reply`: some case of its select is enabled, or the asker's timer has
    fired and the asker's very next atom (`close(done)`) enables the `done` case, or the request is an AskChannel
    whose caller holds the channel and has not started to receive — then the caller's `read` atom is enabled and the
    hand-off follows (a reply to an AskChannel waits for its reader, however late that reader is). -/
theorem C13_reply_never_stuck {c : Cfg} {spec s} (hl : c.legacy = false) (h : Reach c spec s) {i v : Nat}
    (ha : s.actor = .replying i v) :
    ((step c s .replySend).isSome = true ∧ (s.asker i).chClosed = false) ∨ (step c s .replyDone).isSome = true ∨
      ((s.asker i).pc = .fired ∧ (step c s (.giveUp i)).isSome = true) ∨
      ((s.asker i).pc = .holding ∧ (step c s (.read i)).isSome = true) :=
  (reach_inv hl h).reply_progress hl ha

/-- … and it keeps serving: whenever the actor is not idle or its mailbox is not empty, an atom of the actor is
    enabled (or the one asker atom named above). -/
theorem C13_actor_keeps_serving {c : Cfg} {spec s} (hl : c.legacy = false) (h : Reach c spec s)
    (hw : s.actor ≠ .idle ∨ s.mbox ≠ []) :
    (step c s .take).isSome = true ∨ (step c s .compute).isSome = true ∨ (step c s .replySend).isSome = true ∨
      (step c s .replyDone).isSome = true ∨ (∃ i, (s.asker i).pc = .fired ∧ (step c s (.giveUp i)).isSome = true) ∨
      ∃ i, (s.asker i).pc = .holding ∧ (step c s (.read i)).isSome = true := by
  cases ha : s.actor with
  | idle =>
    rcases hw with hw | hw
    · exact absurd ha hw
    · cases hm : s.mbox with
      | nil => exact absurd hm hw
      | cons i rest => left; simp [step, ha, hm]
  | computing i => right; left; simp [step, ha]
  | replying i v =>
    rcases C13_reply_never_stuck hl h ha with h1 | h1 | h1 | h1
    · exact Or.inr (Or.inr (Or.inl h1.1))
    · exact Or.inr (Or.inr (Or.inr (Or.inl h1)))
    · exact Or.inr (Or.inr (Or.inr (Or.inr (Or.inl ⟨i, h1⟩))))
    · exact Or.inr (Or.inr (Or.inr (Or.inr (Or.inr ⟨i, h1⟩))))

/-- The pinned code (the timeout path closes `ch`, `Reply` is a plain send) does reach the panic state: the
    late-reply schedule. -/
theorem C13_pinned_code_panics :
    (runActs { mcap := 0, reply := replyFn, legacy := true } (St.init fun i => (.timeout, payloadOf i, 0))
      [.call 0, .send 0, .fire 0, .giveUp 0, .compute, .replySend]).map (·.panicked) = some true := by decide

/-! ## non-vacuity -/

/-- three askers of the three kinds; the timeout of asker 1 fires, its late reply is discarded, asker 2 (AskChannel,
    buffered reply channel) is served afterwards -/
example : ∃ s, Reach { mcap := 1, reply := replyFn, legacy := false }
      (fun i => (if i = 1 then .timeout else if i = 2 then .channel else .once, payloadOf i, if i = 2 then 1 else 0)) s ∧
    (s.asker 0).pc = .retV 701 ∧ (s.asker 1).pc = .retT ∧ (s.asker 2).pc = .retV 885 ∧ s.served = [0, 1, 2] ∧
    s.panicked = false :=
  ⟨_, reach_of_run [.call 0, .call 1, .send 0, .take, .send 1, .call 2, .compute, .replySend, .finish 0, .take, .send 2,
                    .fire 1, .compute, .giveUp 1, .replyDone, .take, .compute, .replySend, .recv 2, .finish 2] rfl,
    rfl, rfl, rfl, rfl, rfl⟩

/-- the actor inside `Reply` while the asker's timer has fired but `done` is not closed yet (the state of the
    third disjunct of `C13_reply_never_stuck`) is reachable -/
example : ∃ s, Reach { mcap := 0, reply := replyFn, legacy := false } (fun i => (.timeout, payloadOf i, 0)) s ∧
    s.actor = .replying 0 701 ∧ (s.asker 0).pc = .fired :=
  ⟨_, reach_of_run [.call 0, .send 0, .compute, .fire 0] rfl, rfl, rfl⟩

/-- an AskChannel caller that reads late: the actor waits in `Reply` for it, the value arrives once it reads -/
example : ∃ s, Reach { mcap := 0, reply := replyFn, legacy := false } (fun i => (.channelLate, payloadOf i, 0)) s ∧
    s.actor = .replying 0 701 ∧ (s.asker 0).pc = .holding ∧
    (runActs { mcap := 0, reply := replyFn, legacy := false } s [.read 0, .replySend, .finish 0]).map (fun t => (t.asker 0).pc)
      = some (.retV 701) :=
  ⟨_, reach_of_run [.call 0, .send 0, .compute] rfl, rfl, rfl, rfl⟩

/-! ## fan-in: k AskChannel requests on ONE shared caller-made reply channel, late collector (`fanin` case lines)

    `Fan.step c` for every capacity `c` (0 included), every list `replies` of reply values in service order (any `k`),
    every schedule (the collector starts whenever it likes). -/

/-- Nothing dropped, nothing duplicated, service order kept: received ++ buffered ++ the value inside `Reply` ++ not yet
    produced is exactly the list of replies. -/
theorem C13_fanin_conservation {c replies s} (h : Fan.Reach c replies s) :
    s.got ++ s.buf ++ Fan.optl s.cur ++ s.todo = replies := (Fan.reach_inv h).cons

/-- The shared channel never holds more than its capacity. -/
theorem C13_fanin_bound {c replies s} (h : Fan.Reach c replies s) : s.buf.length ≤ c := (Fan.reach_inv h).bound

/-- The actor is blocked in `Reply` only while the buffer is full (for an unbuffered channel: only while the collector
    has not started to receive). -/
theorem C13_fanin_blocked_only_when_full {c replies s v} (h : Fan.Reach c replies s) (hc : s.cur = some v) :
    (Fan.step c s .replyBuf).isSome = true ∨ (Fan.step c s .replyHand).isSome = true ∨
      (s.buf.length = c ∧ (0 < c ∨ s.collecting = false)) := by
  have hb := (Fan.reach_inv h).bound
  by_cases hroom : s.buf.length < c
  · left; simp [Fan.step, hc, hroom]
  · have hfull : s.buf.length = c := by omega
    by_cases h0 : c = 0
    · cases hcol : s.collecting with
      | true => right; left; simp [Fan.step, hc, h0, hcol]
      | false => right; right; exact ⟨hfull, Or.inr rfl⟩
    · right; right; exact ⟨hfull, Or.inl (Nat.pos_of_ne_zero h0)⟩

/-- … and one receive of the collector releases it: after `recv` the buffered send of `Reply` is enabled. -/
theorem C13_fanin_released_by_recv {c replies s v} (h : Fan.Reach c replies s) (hc : s.cur = some v)
    (hcol : s.collecting = true) (hfull : s.buf.length = c) (hpos : 0 < c) :
    ∃ t, Fan.step c s .recv = some t ∧ (Fan.step c t .replyBuf).isSome = true := by
  cases hb : s.buf with
  | nil => rw [hb] at hfull; simp at hfull; omega
  | cons w rest =>
    refine ⟨{ s with buf := rest, got := s.got ++ [w] }, by simp [Fan.step, hcol, hb], ?_⟩
    have : rest.length < c := by rw [hb] at hfull; simp at hfull; omega
    simp [Fan.step, hc, this]

/-- No deadlock: every reachable state that is not terminal has an enabled atom; once the collector receives, an atom
    other than `start` (so: as long as the collector keeps receiving, actor and collector never wait for each other). -/
theorem C13_fanin_no_deadlock {c replies s} (h : Fan.Reach c replies s) (hnt : ¬ s.terminal) :
    ∃ a, (Fan.step c s a).isSome = true ∧ (s.collecting = true → a ≠ .start) := by
  cases hcol : s.collecting with
  | false => exact ⟨.start, by simp [Fan.step, hcol], by simp⟩
  | true =>
    cases hc : s.cur with
    | some v =>
      rcases C13_fanin_blocked_only_when_full h hc with h1 | h1 | h1
      · exact ⟨.replyBuf, h1, by simp⟩
      · exact ⟨.replyHand, h1, by simp⟩
      · rcases h1.2 with hpos | hf
        · obtain ⟨t, ht, _⟩ := C13_fanin_released_by_recv h hc hcol h1.1 hpos
          exact ⟨.recv, by simp [ht], by simp⟩
        · rw [hcol] at hf; cases hf
    | none =>
      cases ht : s.todo with
      | cons v rest => exact ⟨.take, by simp [Fan.step, hc, ht], by simp⟩
      | nil =>
        cases hb : s.buf with
        | cons w rest => exact ⟨.recv, by simp [Fan.step, hcol, hb], by simp⟩
        | nil => exact absurd ⟨ht, hc, hb, hcol⟩ hnt

/-- At quiescence the collector has received exactly the k replies (as a list in service order, hence as a multiset):
    `received = k` is what every terminal state yields — what `handle` prints for a `fanin` line. -/
theorem C13_fanin_all_received {c replies s} (h : Fan.Reach c replies s) (ht : s.terminal) :
    s.got = replies ∧ s.got.length = replies.length := by
  have hc := (Fan.reach_inv h).cons
  obtain ⟨h1, h2, h3, _⟩ := ht
  rw [h1, h2, h3] at hc
  have : s.got = replies := by simpa [Fan.optl] using hc
  exact ⟨this, by rw [this]⟩

/-- non-vacuity: capacity 1, three replies, the collector starts when the actor is already blocked in its second `Reply` -/
example : ∃ s, Fan.Reach 1 [10, 20, 30] s ∧ s.cur = some 20 ∧ s.buf = [10] ∧ s.collecting = false ∧
    (Fan.runActs 1 s [.start, .recv, .replyBuf, .take, .recv, .replyBuf, .recv]).map (fun t => (t.got, decide (t.todo = []))) =
      some ([10, 20, 30], true) :=
  ⟨_, Fan.reach_of_run [.take, .replyBuf, .take] rfl, rfl, rfl, rfl, rfl⟩

/-- non-vacuity: unbuffered shared channel, hand-off only once the collector receives -/
example : ∃ s, Fan.Reach 0 [7, 8] s ∧ s.terminal ∧ s.got = [7, 8] :=
  ⟨_, Fan.reach_of_run [.take, .start, .replyHand, .take, .replyHand] rfl, ⟨rfl, rfl, rfl, rfl⟩, rfl⟩

/-! ## the tie: protocol skeletons and facts regenerated from the repository on every run -/

theorem C13_skel_AskOnce : Gen.skeletonOf "AskDef.AskOnce" =
    some "call(AskChannel) defer{call(close)} recv(ch) return" := by decide
theorem C13_skel_AskOnceWithTimeout : Gen.skeletonOf "AskDef.AskOnceWithTimeout" =
    some "call(AskChannel) select{recv(ch) set(result)=>{call(close)} | call(After) recv(After())=>{call(close) return}} return" := by decide
theorem C13_skel_AskChannel : Gen.skeletonOf "AskDef.AskChannel" = some "call(Send) return" := by decide
theorem C13_skel_Reply : Gen.skeletonOf "AskDef.Reply" = some "select{send(ch)=>{} | recv(done)=>{}}" := by decide
theorem C13_skel_New : Gen.skeletonOf "AskDef.New" = some "return" := by decide
theorem C13_skel_NewByOptions : Gen.skeletonOf "AskDef.NewByOptions" = some "return" := by decide
theorem C13_skel_AskNewGenerics : Gen.skeletonOf "AskNewGenerics" = some "return" := by decide
theorem C13_skel_AskNewByOptionsGenerics : Gen.skeletonOf "AskNewByOptionsGenerics" = some "return" := by decide
theorem C13_skel_Send : Gen.skeletonOf "ActorDef.Send" =
    some "if[get(isClosed) call(isClosed.Get)]{return} defer{call(recover)} send(ch)" := by decide

/-- what is closed where: AskOnce closes `ch` (after its receive); AskOnceWithTimeout closes `ch` in the reply
    case and `done` — not `ch` — in the timeout case -/
theorem C13_fact_closes : Gen.askCloses =
    [("AskDef.AskOnce", "body", "ch"), ("AskDef.AskOnceWithTimeout", "case0", "ch"),
     ("AskDef.AskOnceWithTimeout", "case1", "done")] := by decide

/-- the two selects: reply-or-timer in AskOnceWithTimeout, send-or-done in Reply -/
theorem C13_fact_selects : Gen.mailboxSelects =
    [("AskDef.AskOnceWithTimeout", ["recv:ch", "recv:After"]), ("AskDef.Reply", ["send:ch", "recv:done"])] := by decide

end FpgoVerif.C13
