import FpgoVerif.Proofs.C05StreamSet
import FpgoVerif.Proofs.C05Twins
import FpgoVerif.Proofs.C05Judge
/-! Property theorems for C05 — set algebra laws of the implementation models the driver executes
    (`Model/C05Impl.lean`), for ALL inputs (any element type with decidable equality, any length,
    any arity), and agreement of the generic / interface{} models where they are separate.

    Scope note: the property demands the laws for non-empty operands only; most of them are proved
    here without that restriction (they also hold for empty operands of the *slice functions*); where
    the code really deviates for empty operands (`IsSubset`, the `Stream`/`MapSet`/`StreamSet`
    guards) the theorem carries the non-emptiness hypothesis and an `example` shows it satisfiable. -/
namespace FpgoVerif.C05
variable {α : Type} [DecidableEq α]

/-! ## slices (fp.go) -/

/-- Distinct = first occurrences, in the order of the operand (documented: `[8,2,8,0,2,0] ↦ [8,2,0]`). -/
theorem C05_distinct_order (l : List α) : distinct l = Spec.dedup l := distinct_eq l

theorem C05_distinct_mem (l : List α) (x : α) : x ∈ distinct l ↔ x ∈ l := by
  rw [distinct_eq]; exact Spec.mem_dedup x l

theorem C05_distinct_nodup (l : List α) : (distinct l).Nodup := by
  rw [distinct_eq]; exact Spec.nodup_dedup l

example : distinct [8, 2, 8, 0, 2, 0] = [8, 2, 0] := by decide

/-- Intersection (any arity ≥ 1): the first occurrences of the items of the first operand that occur
    in every other operand, in the order of the first operand. -/
theorem C05_intersection_order (a : List α) (rest : List (List α)) :
    intersection (some (a :: rest)) =
      .ok ((Spec.dedup a).filter (fun x => rest.all (fun l => decide (x ∈ l)))) := intersection_eq a rest

/-- x ∈ Intersection as ↔ x is in all operands; the result has no duplicates. -/
theorem C05_intersection_mem (as : List (List α)) (h : as ≠ []) :
    ∃ r, intersection (some as) = .ok r ∧ r.Nodup ∧ ∀ x, x ∈ r ↔ ∀ a ∈ as, x ∈ a := by
  cases as with
  | nil => exact absurd rfl h
  | cons a rest =>
    refine ⟨_, intersection_eq a rest, ?_, ?_⟩
    · exact List.Nodup.sublist List.filter_sublist (Spec.nodup_dedup a)
    · intro x
      simp only [List.mem_filter, Spec.mem_dedup, List.all_eq_true, decide_eq_true_eq, List.mem_cons,
        forall_eq_or_imp]

example : ([[1, 2, 1, 3], [3, 1], [1, 1, 3, 4]] : List (List Nat)) ≠ [] ∧
    intersection (some [[1, 2, 1, 3], [3, 1], [1, 1, 3, 4]]) = .ok [1, 3] := by decide

/-- Difference (any arity ≥ 1): first occurrences of the items of the first operand that occur in
    none of the others, in the order of the first operand. -/
theorem C05_difference_order (a : List α) (rest : List (List α)) :
    difference (some (a :: rest)) =
      .ok ((Spec.dedup a).filter (fun x => rest.all (fun l => decide (x ∉ l)))) := difference_eq a rest

theorem C05_difference_mem (a : List α) (rest : List (List α)) :
    ∃ r, difference (some (a :: rest)) = .ok r ∧ r.Nodup ∧ ∀ x, x ∈ r ↔ x ∈ a ∧ ∀ b ∈ rest, x ∉ b := by
  refine ⟨_, difference_eq a rest, ?_, ?_⟩
  · exact List.Nodup.sublist List.filter_sublist (Spec.nodup_dedup a)
  · intro x
    simp only [List.mem_filter, Spec.mem_dedup, List.all_eq_true, decide_eq_true_eq]

example : difference (some [[1, 2, 1, 3, 5], [3], [2, 2]]) = .ok [1, 5] := by decide

/-- x ∈ Union as ↔ x is in some operand (any arity, incl. 0). -/
theorem C05_union_mem (as : List (List α)) (x : α) : x ∈ union as ↔ ∃ a ∈ as, x ∈ a := by
  unfold union; rw [union_outer_mem]; simp [mkeys]

theorem C05_union_nodup (as : List (List α)) : (union as).Nodup := by
  unfold union; exact union_outer_nodup as [] (by simp [mkeys])

/-- Minus keeps the items of the first operand that are not in the second — in order, duplicates kept. -/
theorem C05_minus_order (a b : List α) : minus a b = a.filter (fun x => decide (x ∉ b)) := minus_eq a b

theorem C05_minus_mem (a b : List α) (x : α) : x ∈ minus a b ↔ x ∈ a ∧ x ∉ b := by
  rw [minus_eq]; simp

/-- IsSubset(A,B) ↔ every element of A occurs in B — for non-empty operands (the code answers
    `false` as soon as one operand is empty). -/
theorem C05_isSubset_iff (a b : List α) (ha : a ≠ []) (hb : b ≠ []) :
    isSubset a b = true ↔ ∀ x ∈ a, x ∈ b := by
  have ha' : ¬ a.length = 0 := fun h => ha (List.length_eq_zero_iff.1 h)
  have hb' : ¬ b.length = 0 := fun h => hb (List.length_eq_zero_iff.1 h)
  simp [isSubset, ha', hb', isSubsetLoop_iff]

theorem C05_isSuperset_iff (a b : List α) (ha : a ≠ []) (hb : b ≠ []) :
    isSuperset a b = true ↔ ∀ x ∈ b, x ∈ a := C05_isSubset_iff b a hb ha

example : ([1, 1, 2] : List Nat) ≠ [] ∧ ([2, 3, 1] : List Nat) ≠ [] ∧ isSubset [1, 1, 2] [2, 3, 1] = true ∧
    isSubset [1, 4] [2, 3, 1] = false := by decide

/-- outside the demanded scope the code answers `false` (so `[] ⊆ B` is *not* reported) -/
theorem C05_isSubset_empty (a b : List α) (h : a = [] ∨ b = []) : isSubset a b = false := by
  rcases h with h | h <;> simp [isSubset, h]

/-- derived law: A = (A ∖ B) ∪ (A ∩ B) as sets -/
theorem C05_partition_law (a b : List α) (x : α) :
    x ∈ a ↔ x ∈ minus a b ∨ ∃ r, intersection (some [a, b]) = .ok r ∧ x ∈ r := by
  rw [C05_minus_mem, intersection_eq]
  constructor
  · intro hx
    by_cases hb : x ∈ b
    · exact Or.inr ⟨_, rfl, by simp [Spec.mem_dedup, hx, hb]⟩
    · exact Or.inl ⟨hx, hb⟩
  · rintro (h | ⟨r, hr, hx⟩)
    · exact h.1
    · cases hr; simp [Spec.mem_dedup] at hx; exact hx.1

/-- derived law: A ⊆ B ↔ A ∖ B = ∅ (non-empty operands) -/
theorem C05_subset_iff_empty_difference (a b : List α) (ha : a ≠ []) (hb : b ≠ []) :
    isSubset a b = true ↔ difference (some [a, b]) = .ok [] := by
  rw [C05_isSubset_iff a b ha hb, difference_eq]
  constructor
  · intro h
    congr 1
    apply List.filter_eq_nil_iff.2
    intro x hx
    have := h x ((Spec.mem_dedup x a).1 hx)
    simp [this]
  · intro h x hx
    have h' : (Spec.dedup a).filter (fun x => [b].all (fun l => decide (x ∉ l))) = [] := by
      injection h
    have := List.filter_eq_nil_iff.1 h' x ((Spec.mem_dedup x a).2 hx)
    simpa using this

/-! ## Stream methods -/

/-- Stream.Intersection for a non-empty argument -/
theorem C05_stream_intersection (s i : List α) (hi : i ≠ []) :
    Stream.intersection s (some i) = (Spec.dedup s).filter (fun x => decide (x ∈ i)) ∧
    (Stream.intersection s (some i)).Nodup ∧
    ∀ x, x ∈ Stream.intersection s (some i) ↔ x ∈ s ∧ x ∈ i := by
  have hi' : ¬ i.length = 0 := fun h => hi (List.length_eq_zero_iff.1 h)
  have h := intersection_eq s [i]
  simp only [intersection] at h
  injection h with h
  have e : Stream.intersection s (some i) = (Spec.dedup s).filter (fun x => decide (x ∈ i)) := by
    simp only [Stream.intersection, hi', beq_iff_eq, if_false]
    rw [show (1 : Nat) = [i].length from rfl, h]
    apply List.filter_congr; intro x _; simp
  refine ⟨e, ?_, ?_⟩
  · rw [e]; exact List.Nodup.sublist List.filter_sublist (Spec.nodup_dedup s)
  · intro x; rw [e]; simp [Spec.mem_dedup]

example : ([2, 1] : List Nat) ≠ [] ∧ Stream.intersection [1, 3, 1, 2] (some [2, 1]) = [1, 2] := by decide

/-- Stream.Minus / RemoveItem (any argument; a nil or empty argument returns the receiver) -/
theorem C05_stream_minus (s : List α) (i : Option (List α)) (x : α) :
    x ∈ Stream.minus s i ↔ x ∈ s ∧ x ∉ i.getD [] := by
  cases i with
  | none => simp [Stream.minus]
  | some i =>
    simp only [Stream.minus, Option.getD_some]
    split
    · rename_i h
      have : i = [] := List.length_eq_zero_iff.1 (by simpa using h)
      simp [this]
    · exact C05_minus_mem s i x

theorem C05_stream_removeItem (s input : List α) (x : α) :
    x ∈ Stream.removeItem s input ↔ x ∈ s ∧ x ∉ input := by
  unfold Stream.removeItem
  split
  · exact C05_minus_mem s input x
  · rename_i h
    have : input = [] := List.length_eq_zero_iff.1 (by omega)
    simp [this]

theorem C05_stream_isSubset (s i : List α) (hs : s ≠ []) (hi : i ≠ []) :
    Stream.isSubset s (some i) = true ↔ ∀ x ∈ s, x ∈ i := by
  have hi' : ¬ i.length = 0 := fun h => hi (List.length_eq_zero_iff.1 h)
  simp only [Stream.isSubset, beq_iff_eq, hi', if_false]
  exact C05_isSubset_iff s i hs hi

theorem C05_stream_isSuperset (s i : List α) (hs : s ≠ []) (hi : i ≠ []) :
    Stream.isSuperset s (some i) = true ↔ ∀ x ∈ i, x ∈ s := by
  have hi' : ¬ i.length = 0 := fun h => hi (List.length_eq_zero_iff.1 h)
  simp only [Stream.isSuperset, beq_iff_eq, hi', if_false]
  exact C05_isSuperset_iff s i hs hi

example : ([1, 2] : List Nat) ≠ [] ∧ ([2] : List Nat) ≠ [] ∧ Stream.isSuperset [1, 2] (some [2]) = true ∧
    Stream.isSubset [1, 2] (some [2]) = false := by decide

theorem C05_stream_distinct (s : List α) :
    Stream.distinct s = Spec.dedup s ∧ (Stream.distinct s).Nodup ∧ ∀ x, x ∈ Stream.distinct s ↔ x ∈ s :=
  ⟨distinct_eq s, C05_distinct_nodup s, C05_distinct_mem s⟩

theorem C05_stream_contains (s : List α) (x : α) : Stream.contains s x = true ↔ x ∈ s := existsIn_iff x s

/-! ## twins with separate models -/

/-- `StreamDef.Remove` (fresh slice) and `StreamForInterfaceDef.Remove` (in-place shift) return the
    same list for every receiver and every index (negative and out-of-range included). -/
theorem C05_twin_streamRemove {β : Type} (s : List β) (index : Int) :
    G.streamRemove s index = I.streamRemove s index := by
  unfold G.streamRemove I.streamRemove
  split
  · rw [shiftDown_eq]
  · rfl

/-! ## map functions and MapSet / SetForInterface methods (by key)

    A Go map has unique keys: the hypotheses `(mkeys m).Nodup` say exactly that. -/

section ByKey
variable {κ ν : Type} [DecidableEq κ]

/-- Merge: k ∈ keys ↔ in one of the operands; the second operand's value wins. -/
theorem C05_merge_keys (m1 m2 : GoMap κ ν) (k : κ) :
    k ∈ mkeys (merge m1 m2) ↔ k ∈ mkeys m1 ∨ k ∈ mkeys m2 := mem_mkeys_merge m1 m2 k

/-- IntersectionMapByKey (any arity ≥ 1): a key is in the result iff it is in every operand; the
    counting pass (`countMap[k]++ … if v < inputLen { delete }`) is what is proved correct here. -/
theorem C05_intersectionMapByKey_keys (ms : List (GoMap κ ν)) (hne : ms ≠ [])
    (hms : ∀ m ∈ ms, (mkeys m).Nodup) (k : κ) :
    k ∈ mkeys (intersectionMapByKey ms) ↔ ∀ m ∈ ms, k ∈ mkeys m :=
  mem_mkeys_intersectionMapByKey ms hne hms k

theorem C05_intersectionMapByKey_nodup (ms : List (GoMap κ ν)) : (mkeys (intersectionMapByKey ms)).Nodup :=
  nodup_mkeys_intersectionMapByKey ms

example : ([[(1, 10), (2, 20)], [(2, 21), (3, 31)], [(2, 22)]] : List (GoMap Nat Nat)) ≠ [] ∧
    intersectionMapByKey [[(1, 10), (2, 20)], [(2, 21), (3, 31)], [(2, 22)]] = [(2, 20)] := by decide

theorem C05_minusMapByKey_keys (a b : GoMap κ ν) (k : κ) :
    k ∈ mkeys (minusMapByKey a b) ↔ k ∈ mkeys a ∧ k ∉ mkeys b := mem_mkeys_minusMapByKey a b k

theorem C05_isSubsetMapByKey_iff (a b : GoMap κ ν) (ha : a ≠ []) (hb : b ≠ []) :
    isSubsetMapByKey a b = true ↔ ∀ k ∈ mkeys a, k ∈ mkeys b := isSubsetMapByKey_iff a b ha hb

/-- MapSet.Union (argument non-nil; an empty argument returns the receiver, which satisfies the law too) -/
theorem C05_mapset_union_keys (m i : GoMap κ ν) (hm : (mkeys m).Nodup) (k : κ) :
    (k ∈ mkeys (MapSet.union m (some i)) ↔ k ∈ mkeys m ∨ k ∈ mkeys i) ∧
    (mkeys (MapSet.union m (some i))).Nodup := by
  simp only [MapSet.union]
  split
  · rename_i h
    have : i = [] := List.length_eq_zero_iff.1 (by simpa using h)
    subst this
    exact ⟨by simp [mkeys], hm⟩
  · exact ⟨mem_mkeys_merge m i k, nodup_mkeys_merge m i⟩

/-- MapSet.Intersection (unique keys in both operands) -/
theorem C05_mapset_intersection_keys (m i : GoMap κ ν) (hm : (mkeys m).Nodup) (hi : (mkeys i).Nodup) (k : κ) :
    (k ∈ mkeys (MapSet.intersection m (some i)) ↔ k ∈ mkeys m ∧ k ∈ mkeys i) ∧
    (mkeys (MapSet.intersection m (some i))).Nodup := by
  simp only [MapSet.intersection]
  split
  · rename_i h
    have : i = [] := List.length_eq_zero_iff.1 (by simpa using h)
    subst this
    exact ⟨by simp [mkeys], by simp [mkeys]⟩
  · refine ⟨?_, nodup_mkeys_intersectionMapByKey _⟩
    rw [mem_mkeys_intersectionMapByKey [m, i] (by simp) (by
      intro m' hm'
      simp only [List.mem_cons, List.not_mem_nil, or_false] at hm'
      rcases hm' with h | h <;> subst h <;> assumption)]
    simp

/-- MapSet.Minus -/
theorem C05_mapset_minus_keys (m i : GoMap κ ν) (hm : (mkeys m).Nodup) (k : κ) :
    (k ∈ mkeys (MapSet.minus m (some i)) ↔ k ∈ mkeys m ∧ k ∉ mkeys i) ∧
    (mkeys (MapSet.minus m (some i))).Nodup := by
  simp only [MapSet.minus]
  split
  · rename_i h
    have : i = [] := List.length_eq_zero_iff.1 (by simpa using h)
    subst this
    exact ⟨by simp [mkeys], hm⟩
  · simp only [MapSet.clone, duplicateMap_eq m hm]
    refine ⟨?_, nodup_mkeys_foldl_del _ _ _ hm⟩
    rw [mem_mkeys_foldl_del]
    constructor
    · rintro ⟨h1, h2⟩
      refine ⟨h1, fun hk => ?_⟩
      obtain ⟨p, hp, rfl⟩ := List.mem_map.1 h1
      exact h2 p hp ((mhas_iff i p.1).2 hk) rfl
    · rintro ⟨h1, h2⟩
      refine ⟨h1, fun p _ hc hpk => ?_⟩
      subst hpk
      exact h2 ((mhas_iff i p.1).1 hc)

example : MapSet.minus [(1, 10), (2, 20), (3, 30)] (some [(2, 0), (4, 0)]) = [(1, 10), (3, 30)] := by decide

/-- IsSubsetByKey / IsSupersetByKey for non-empty operands -/
theorem C05_mapset_isSubsetByKey (m i : GoMap κ ν) (hm : m ≠ []) (hi : i ≠ []) :
    MapSet.isSubsetByKey m (some i) = true ↔ ∀ k ∈ mkeys m, k ∈ mkeys i := isSubsetMapByKey_iff m i hm hi

theorem C05_mapset_isSupersetByKey (m i : GoMap κ ν) (hm : m ≠ []) (hi : i ≠ []) :
    MapSet.isSupersetByKey m (some i) = true ↔ ∀ k ∈ mkeys i, k ∈ mkeys m := isSubsetMapByKey_iff i m hi hm

example : ([(1, 0)] : GoMap Nat Nat) ≠ [] ∧ MapSet.isSubsetByKey [(1, 0)] (some [(2, 5), (1, 7)]) = true ∧
    MapSet.isSupersetByKey [(1, 0)] (some [(2, 5), (1, 7)]) = false := by decide

/-! ## twins with separate models: StreamSet "DUPLICATED ZONE" and constructors — all operands,
    empty and nil included -/

theorem C05_twin_ssMinus {β : Type} (m : GoMap κ (List β)) (input : Option (GoMap κ (List β))) :
    G.ssMinus m input = I.ssMinus m input := by
  cases input with
  | none => rfl
  | some i =>
    simp only [G.ssMinus, I.ssMinus, MapSet.minus]
    split <;> rfl

theorem C05_twin_ssIsSubsetByKey {β : Type} (m : GoMap κ (List β)) (input : Option (GoMap κ (List β))) :
    G.ssIsSubsetByKey m input = I.ssIsSubsetByKey m input := by
  cases input with
  | none => rfl
  | some i =>
    simp only [G.ssIsSubsetByKey, I.ssIsSubsetByKey, MapSet.isSubsetByKey]
    split
    · rename_i h
      have : i = [] := List.length_eq_zero_iff.1 (by simpa using h)
      exact isSubsetMapByKey_empty m i (Or.inr this)
    · rfl

theorem C05_twin_ssIsSupersetByKey {β : Type} (m : GoMap κ (List β)) (input : Option (GoMap κ (List β))) :
    G.ssIsSupersetByKey m input = I.ssIsSupersetByKey m input := by
  cases input with
  | none => rfl
  | some i =>
    simp only [G.ssIsSupersetByKey, I.ssIsSupersetByKey, MapSet.isSupersetByKey, isSupersetMapByKey]
    split
    · rename_i h
      have : i = [] := List.length_eq_zero_iff.1 (by simpa using h)
      exact isSubsetMapByKey_empty i m (Or.inl this)
    · rfl

theorem C05_twin_streamSetFromMap {β : Type} (theMap : GoMap κ (List β)) :
    G.streamSetFromMap theMap = I.streamSetFromMap theMap := by
  simp only [G.streamSetFromMap, I.streamSetFromMap, duplicateMap]
  split
  · rfl
  · cases theMap with
    | nil => rfl
    | cons p t => simp at *

/-- the two constructors of a StreamSet result (`StreamSetFromMap(x)` copies, `&StreamSetForInterfaceDef{…: x}`
    wraps) give the same content: Clone / Union / Intersection / MinusStreams agree on all operands -/
theorem C05_twin_ssClone {β : Type} [DecidableEq β] (m : GoMap κ (List β)) : G.ssClone m = I.ssClone m := by
  have h : (mkeys (duplicateMap m)).Nodup := by
    unfold duplicateMap
    split
    · exact nodup_mkeys_mcopyInto _ _ (by simp [mkeys])
    · simp [mkeys]
  simp only [G.ssClone, I.ssClone, StreamSet.cloneW, duplicateMap_eq _ h, id]

theorem C05_twin_ssUnion {β : Type} [DecidableEq β] (m : GoMap κ (List β)) (input : Option (GoMap κ (List β))) :
    G.ssUnion m input = I.ssUnion m input := by
  cases input with
  | none => rfl
  | some i => simp only [G.ssUnion, I.ssUnion, StreamSet.unionW, duplicateMap_eq _ (nodup_mkeys_merge m i), id]

theorem C05_twin_ssIntersection {β : Type} [DecidableEq β] (m : GoMap κ (List β))
    (input : Option (GoMap κ (List β))) : G.ssIntersection m input = I.ssIntersection m input := by
  cases input with
  | none => rfl
  | some i =>
    simp only [G.ssIntersection, I.ssIntersection, StreamSet.intersectionW,
      duplicateMap_eq _ (nodup_mkeys_intersectionMapByKey [m, i]), id]

theorem C05_twin_ssMinusStreams {β : Type} [DecidableEq β] (m : GoMap κ (List β))
    (input : Option (GoMap κ (List β))) : G.ssMinusStreams m input = I.ssMinusStreams m input := by
  have h := C05_twin_ssClone m
  simp only [G.ssClone, I.ssClone] at h
  cases input with
  | none => rfl
  | some i => simp only [G.ssMinusStreams, I.ssMinusStreams, StreamSet.minusStreamsW, h]

end ByKey

/-! ## StreamSet: by key, then per-key stream.  `(mget s k).getD []` is the stream under key `k`
    (empty when the key is absent).  Scope of the property: non-empty key maps and non-empty per-key
    streams; the hypotheses below are exactly the part of that scope each law needs. -/

section StreamSetLaws
variable {κ β : Type} [DecidableEq κ] [DecidableEq β]

/-- StreamSet.Union: keys = union of the keys; under each key the items of both streams.
    Needs the *argument's* streams non-empty (an empty stream in the argument overwrites the receiver's
    stream — recorded observation, outside the demanded scope). -/
theorem C05_streamset_union (m i : GoMap κ (List β)) (hm : (mkeys m).Nodup) (hi : (mkeys i).Nodup)
    (hne : i ≠ []) (hstreams : ∀ k v2, mget i k = some v2 → v2 ≠ []) (k : κ) :
    (k ∈ mkeys (G.ssUnion m (some i)) ↔ k ∈ mkeys m ∨ k ∈ mkeys i) ∧
    ∀ x, x ∈ (mget (G.ssUnion m (some i)) k).getD [] ↔ x ∈ (mget m k).getD [] ∨ x ∈ (mget i k).getD [] := by
  have hlen : (i.length == 0) = false := by simp [hne]
  have e : mget (G.ssUnion m (some i)) k =
      perKeyVal (fun v v2 => Stream.extend v [v2]) (mget m k) (mget i k) ((mget i k).orElse (fun _ => mget m k)) := by
    simp only [G.ssUnion, StreamSet.unionW, hlen, Bool.false_eq_true, if_false,
      duplicateMap_eq _ (nodup_mkeys_merge m i)]
    rw [mget_perKey' _ _ _ _ hm, mget_merge m i hm hi]
  simp only [mem_mkeys_iff_isSome]
  rw [e]
  unfold perKeyVal
  cases hmk : mget m k with
  | none => cases hik : mget i k <;> simp
  | some v =>
    cases hik : mget i k with
    | none => simp
    | some v2 =>
      have : v2 ≠ [] := hstreams k v2 hik
      have hl : v2.length > 0 := List.length_pos_iff.2 this
      simp [hl, Stream.extend]

example : G.ssUnion [(1, [1, 2]), (2, [5])] (some [(1, [2, 3]), (3, [7])]) = [(1, [1, 2, 2, 3]), (2, [5]), (3, [7])] := by
  decide

/-- StreamSet.Intersection: common keys; under each the items common to both streams (argument's streams non-empty) -/
theorem C05_streamset_intersection (m i : GoMap κ (List β)) (hm : (mkeys m).Nodup) (hi : (mkeys i).Nodup)
    (hne : i ≠ []) (hstreams : ∀ k v2, mget i k = some v2 → v2 ≠ []) (k : κ) :
    (k ∈ mkeys (G.ssIntersection m (some i)) ↔ k ∈ mkeys m ∧ k ∈ mkeys i) ∧
    ∀ x, x ∈ (mget (G.ssIntersection m (some i)) k).getD [] ↔ x ∈ (mget m k).getD [] ∧ x ∈ (mget i k).getD [] := by
  have hlen : (i.length == 0) = false := by simp [hne]
  have hnd := nodup_mkeys_intersectionMapByKey [m, i]
  have e : mget (G.ssIntersection m (some i)) k =
      perKeyVal Stream.intersection (if mhas i k then mget m k else none) (mget i k)
        (if mhas i k then mget m k else none) := by
    simp only [G.ssIntersection, StreamSet.intersectionW, hlen, Bool.false_eq_true, if_false,
      duplicateMap_eq _ hnd]
    rw [mget_perKey' _ _ _ _ hnd, mget_intersection2 m i hm hi]
  simp only [mem_mkeys_iff_isSome]
  rw [e]
  unfold perKeyVal
  cases hik : mget i k with
  | none =>
    have : mhas i k = false := by simp [mhas, hik]
    simp [this]
  | some v2 =>
    have hh : mhas i k = true := by simp [mhas, hik]
    have hv2 : v2 ≠ [] := hstreams k v2 hik
    have hl : v2.length > 0 := List.length_pos_iff.2 hv2
    cases hmk : mget m k with
    | none => simp [hh]
    | some v =>
      simp only [hh, if_true, hl, Option.isSome_some, and_self, Option.getD_some, true_and]
      intro x
      exact (C05_stream_intersection v v2 hv2).2.2 x

example : G.ssIntersection [(1, [1, 2, 1]), (2, [5])] (some [(1, [2, 1]), (3, [7])]) = [(1, [1, 2])] := by decide

/-- StreamSet.MinusStreams: the receiver's keys; under each key the receiver's items that are not in the
    argument's stream for that key (argument non-empty as a key map; its streams may be anything) -/
theorem C05_streamset_minusStreams (m i : GoMap κ (List β)) (hm : (mkeys m).Nodup) (hne : i ≠ []) (k : κ) :
    (k ∈ mkeys (G.ssMinusStreams m (some i)) ↔ k ∈ mkeys m) ∧
    ∀ x, x ∈ (mget (G.ssMinusStreams m (some i)) k).getD [] ↔ x ∈ (mget m k).getD [] ∧ x ∉ (mget i k).getD [] := by
  have hlen : (i.length == 0) = false := by simp [hne]
  have hc : StreamSet.cloneW duplicateMap m = m := G_ssClone_eq m hm
  have e : mget (G.ssMinusStreams m (some i)) k = perKeyVal Stream.minus (mget m k) (mget i k) (mget m k) := by
    simp only [G.ssMinusStreams, StreamSet.minusStreamsW, hlen, Bool.false_eq_true, if_false, hc]
    rw [mget_perKey' _ _ _ _ hm]
  simp only [mem_mkeys_iff_isSome]
  rw [e]
  unfold perKeyVal
  cases hmk : mget m k with
  | none => cases hik : mget i k <;> simp
  | some v =>
    cases hik : mget i k with
    | none => simp
    | some v2 =>
      by_cases hl : v2.length > 0
      · simp only [hl, if_true, Option.isSome_some, Option.getD_some, true_and]
        intro x
        have := C05_stream_minus v (some v2) x
        simpa using this
      · have : v2 = [] := List.length_eq_zero_iff.1 (by omega)
        subst this
        simp

example : G.ssMinusStreams [(1, [1, 2, 1]), (2, [5])] (some [(1, [1]), (3, [7])]) = [(1, [2]), (2, [5])] := by decide

/-- StreamSet.Minus (by key): the receiver's keys that the argument does not have, streams untouched -/
theorem C05_streamset_minus (m i : GoMap κ (List β)) (hm : (mkeys m).Nodup) (k : κ) :
    (k ∈ mkeys (G.ssMinus m (some i)) ↔ k ∈ mkeys m ∧ k ∉ mkeys i) ∧
    (k ∉ mkeys i → mget (G.ssMinus m (some i)) k = mget m k) := by
  refine ⟨(C05_mapset_minus_keys m i hm k).1, ?_⟩
  intro hk
  simp only [G.ssMinus, MapSet.minus]
  split
  · rfl
  · simp only [MapSet.clone, duplicateMap_eq m hm]
    apply mget_foldl_del_keep
    intro p _ hc hpk
    subst hpk
    exact hk ((mhas_iff i p.1).1 hc)

/-- StreamSet.IsSubsetByKey / IsSupersetByKey (both families, non-empty key maps) -/
theorem C05_streamset_isSubsetByKey (m i : GoMap κ (List β)) (hm : m ≠ []) (hi : i ≠ []) :
    (G.ssIsSubsetByKey m (some i) = true ↔ ∀ k ∈ mkeys m, k ∈ mkeys i) ∧
    (G.ssIsSupersetByKey m (some i) = true ↔ ∀ k ∈ mkeys i, k ∈ mkeys m) :=
  ⟨isSubsetMapByKey_iff m i hm hi, isSubsetMapByKey_iff i m hi hm⟩

example : ([(1, [1])] : GoMap Nat (List Nat)) ≠ [] ∧
    G.ssIsSubsetByKey [(1, [1])] (some [(2, [0]), (1, [])]) = true ∧
    I.ssIsSupersetByKey [(1, [1])] (some [(2, [0]), (1, [])]) = false := by decide

end StreamSetLaws

/-! ## the oracle (`judge`) accepts what the models compute: the Bool checks of `Spec` hold for the
    results of the implementation models (so a model/implementation agreement can never be flagged, and
    on a disagreement the oracle compares the real result with the laws, not with the model) -/

theorem C05_judge_accepts_intersection (as : List (List Nat)) (h : as ≠ []) :
    ∃ r, intersection (some as) = .ok r ∧ Spec.interOK as r = true := by
  cases as with
  | nil => exact absurd rfl h
  | cons a rest =>
    obtain ⟨r, hr, hnd, hmem⟩ := C05_intersection_mem (a :: rest) (by simp)
    refine ⟨r, hr, ?_⟩
    have hr' := intersection_eq a rest
    rw [hr] at hr'
    injection hr' with hr'
    simp only [Spec.interOK, Bool.and_eq_true, List.headD_cons]
    refine ⟨⟨Spec.members_of _ _ _ (fun x => ?_), (Spec.nodup_iff r).2 hnd⟩, Spec.ordered_of a r _ hr'⟩
    rw [hmem x]; simp

theorem C05_judge_accepts_difference (a : List Nat) (rest : List (List Nat)) :
    ∃ r, difference (some (a :: rest)) = .ok r ∧ Spec.diffOK (a :: rest) r = true := by
  obtain ⟨r, hr, hnd, hmem⟩ := C05_difference_mem a rest
  refine ⟨r, hr, ?_⟩
  have hr' := difference_eq a rest
  rw [hr] at hr'
  injection hr' with hr'
  simp only [Spec.diffOK, Bool.and_eq_true, List.headD_cons, List.drop_succ_cons, List.drop_zero]
  refine ⟨⟨Spec.members_of _ _ _ (fun x => ?_), (Spec.nodup_iff r).2 hnd⟩, Spec.ordered_of a r _ hr'⟩
  rw [hmem x]; simp

theorem C05_judge_accepts_union (as : List (List Nat)) : Spec.unionOK as (union as) = true := by
  simp only [Spec.unionOK, Bool.and_eq_true]
  refine ⟨Spec.members_of _ _ _ (fun x => ?_), (Spec.nodup_iff _).2 (C05_union_nodup as)⟩
  rw [C05_union_mem]; simp

theorem C05_judge_accepts_distinct (a : List Nat) : Spec.distinctOK a (distinct a) = true := by
  simp only [Spec.distinctOK, Bool.and_eq_true]
  refine ⟨⟨Spec.members_of _ _ _ (fun x => ?_), (Spec.nodup_iff _).2 (C05_distinct_nodup a)⟩, ?_⟩
  · rw [C05_distinct_mem]; simp
  · apply Spec.ordered_of a _ (fun _ => true)
    rw [distinct_eq]; symm; exact List.filter_eq_self.2 (by simp)

theorem C05_judge_accepts_minus (a b : List Nat) : Spec.minusOK a b (minus a b) = true := by
  simp only [Spec.minusOK]
  refine Spec.members_of _ _ _ (fun x => ?_)
  rw [C05_minus_mem]; simp

theorem C05_judge_accepts_isSubset (a b : List Nat) (ha : a ≠ []) (hb : b ≠ []) :
    Spec.subsetOK a b (isSubset a b) = true := by
  simp only [Spec.subsetOK, beq_iff_eq]
  have := C05_isSubset_iff a b ha hb
  cases h : isSubset a b with
  | true => symm; simpa using this.1 h
  | false =>
    symm
    cases h2 : a.all (b.contains ·) with
    | false => rfl
    | true =>
      have : isSubset a b = true := this.2 (by simpa using h2)
      simp [h] at this

/-! ## closing theorems over the regenerated twin table (`Gen/Twins.lean`, rebuilt from the repository
    on every run).  Identical code on the same comparable data gives identical answers (trusted: Go's
    `==` / map lookup on `interface{}` values holding equal `int`s agrees with the typed one), so for
    the pairs below ONE model serves both twins. -/

/-- every pair modelled by a single function is still textually identical after type erasure -/
theorem C05_twins_same : twinsSameOK Gen.twins = true := by decide +kernel

/-- the pairs with separate `G.*` / `I.*` models still have exactly the bodies the models were written from -/
theorem C05_twins_different_unchanged : twinsDifferentOK Gen.twins = true := by decide +kernel

/-- there is no generic / interface{} pair without a model, and no interface{} function without a twin -/
theorem C05_twins_complete : twinsCompleteOK Gen.twins Gen.twinsMissing = true := by decide +kernel

end FpgoVerif.C05
