import FpgoVerif.Model.C05
/-! Property theorems for C05 (none yet). -/
