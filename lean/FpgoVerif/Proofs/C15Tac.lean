/-! Tactics closing the side goals of the C15 invariant proofs.
    `c15arith`: Bool facts `b = true / false` become `b.toNat = 1 / 0` (the caller provides `b.toNat ≤ 1`), after
    which every invariant clause is linear arithmetic with propositional structure: `omega`. -/
macro "c15fin" : tactic => `(tactic| first | omega | (apply Classical.byContradiction; intro hcon; simp_all <;> omega))

macro "c15arith" : tactic =>
  `(tactic| ((try simp only [Bool.or_eq_true, Bool.and_eq_true, Bool.not_eq_true', Bool.not_eq_false', Bool.not_eq_true,
                 Bool.not_eq_false, Classical.not_not, ne_eq, not_or, eq_self, reduceIte, ite_true, ite_false,
                 decide_eq_true_eq] at *);
             (try simp only [← Bool.toNat_eq_one, ← Bool.toNat_eq_zero] at *); omega))

/-- normalise every hypothesis once (Bool facts to `toNat` arithmetic) -/
macro "c15hyps" : tactic =>
  `(tactic| ((try simp only [Bool.or_eq_true, Bool.and_eq_true, Bool.not_eq_true', Bool.not_eq_false', Bool.not_eq_true,
                 Bool.not_eq_false, Classical.not_not, ne_eq, not_or, eq_self, reduceIte, ite_true, ite_false,
                 decide_eq_true_eq] at *);
             (try simp only [← Bool.toNat_eq_one, ← Bool.toNat_eq_zero] at *)))

/-- after `c15hyps`: normalise the goal only, then `omega` -/
macro "c15goal" : tactic =>
  `(tactic| ((try simp only [Bool.or_eq_true, Bool.and_eq_true, Bool.not_eq_true', Bool.not_eq_false', Bool.not_eq_true,
                 Bool.not_eq_false, Classical.not_not, ne_eq, not_or, eq_self, reduceIte, ite_true, ite_false,
                 decide_eq_true_eq]);
             (try simp only [← Bool.toNat_eq_one, ← Bool.toNat_eq_zero]); omega))
