import FpgoVerif.Model.C11
/-! Helper lemmas for C11: world bookkeeping, the closure nest of `den` realises the in-order traversal `run`,
    the protocol fold. -/
namespace FpgoVerif.C11

@[simp] theorem emits_nil (w : World) (g : Tag) : w.emits [] g = w := by
  cases w; simp [World.emits]

theorem emit_eq_emits (w : World) (k : Kind) (g : Tag) : w.emit k g = w.emits [k] g := rfl

@[simp] theorem emits_emits (w : World) (a b : List Kind) (g : Tag) :
    (w.emits a g).emits b g = w.emits (a ++ b) g := by
  cases w; simp [World.emits]

@[simp] theorem emits_log (w : World) (a : List Kind) (g : Tag) :
    (w.emits a g).log = w.log ++ a.map (⟨·, g⟩) := rfl

@[simp] theorem emits_cell (w : World) (a : List Kind) (g : Tag) : (w.emits a g).cell = w.cell := rfl

@[simp] theorem emit_log (w : World) (k : Kind) (g : Tag) : (w.emit k g).log = w.log ++ [⟨k, g⟩] := rfl

theorem drop_emits (w : World) (ks : List Kind) (g : Tag) :
    (w.emits ks g).log.drop w.log.length = ks.map (⟨·, g⟩) := by simp

theorem drop_emits_emit (w : World) (ks : List Kind) (g : Tag) (k : Kind) (g' : Tag) :
    ((w.emits ks g).emit k g').log.drop w.log.length = ks.map (⟨·, g⟩) ++ [⟨k, g'⟩] := by
  simp [List.append_assoc]

theorem showEvs_kinds (ks : List Kind) (g : Tag) : showEvs (ks.map (⟨·, g⟩)) = joinEvs (showKinds ks g) := by
  simp [showEvs, showKinds, List.map_map, Function.comp_def]

theorem showEvs_kinds_next (ks : List Kind) (g : Tag) (k : Kind) (g' : Tag) :
    showEvs (ks.map (⟨·, g⟩) ++ [⟨k, g'⟩]) = joinEvs (showKinds ks g ++ showKinds [k] g') := by
  simp [showEvs, showKinds, List.map_map, Function.comp_def]

/-- The nest of closures built by Just/New/FlatMap/ObserveOn/SubscribeOn, when its effect is finally run on
    goroutine `g`, appends to the log exactly the chain `run` prescribes — every event once, in composition
    order, all on `g`, leaving the earlier log untouched — and returns `run`'s value. -/
theorem den_effect (t : Tree) : ∀ (v : Nat) (g : Tag) (w : World),
    (den t v).effect g w = ((run t v w.log.length).1, w.emits (run t v w.log.length).2 g) := by
  induction t with
  | J c => intro v g w; simp [den, just, run]
  | V a => intro v g w; simp [den, just, run]
  | N id => intro v g w; simp [den, new, userEffect, run, emit_eq_emits]
  | W id => intro v g w; simp [den, new, userEffect, run, emit_eq_emits]
  | H id => intro v g w; simp [den, new, userEffect, run, emit_eq_emits]
  | G id => intro v g w; simp [den, new, userEffect, run, emit_eq_emits]
  | JM id x _ => intro v g w; simp [den, just, run]
  | Z t ih => intro v g w; simp only [den, new, run]; exact ih 0 g w
  | FR t ih => intro v g w; simp [den, flatMap, doEffect, just, run, ih]
  | FL c t b iht ihb =>
    intro v g w
    simp only [den, flatMap, doEffect, kont, run]
    rw [iht]
    simp only [emit_eq_emits, emits_emits]
    rw [ihb]
    simp [List.length_append, Nat.add_assoc]
  | FC c t b1 b2 iht ih1 ih2 =>
    intro v g w
    simp only [den, flatMap, doEffect, kont, run]
    simp only [iht, emit_eq_emits, emits_emits]
    by_cases h : (run t v w.log.length).1 % 2 = 0
    · simp only [h, if_true]; rw [ih1]; simp [List.length_append, Nat.add_assoc]
    · simp only [h, if_false]; rw [ih2]; simp [List.length_append, Nat.add_assoc]
  | A x c b ih =>
    intro v g w
    simp only [den, new, eval, doEffect, kont, run]
    simp only [emit_eq_emits]
    rw [ih]
    simp
  | O h t ih => intro v g w; simp [den, observeOn, run, ih]
  | S h t ih => intro v g w; simp [den, subscribeOn, run, ih]

theorem den_obOn (t : Tree) (v : Nat) : (den t v).obOn = rootOb t := by
  induction t generalizing v with
  | O h t ih => simp [den, observeOn, rootOb]
  | S h t ih => simp [den, subscribeOn, rootOb, ih]
  | _ => simp [den, just, new, flatMap, rootOb]

theorem den_subOn (t : Tree) (v : Nat) : (den t v).subOn = rootSub t := by
  induction t generalizing v with
  | O h t ih => simp [den, observeOn, rootSub, ih]
  | S h t ih => simp [den, subscribeOn, rootSub]
  | _ => simp [den, just, new, flatMap, rootSub]

/-- running the queued deliveries appends them to the log, in order -/
def qF (p : Nat × Tag) : World → World := fun w => w.emit (.next p.1) p.2

theorem queue_log (q : List (Nat × Tag)) : ∀ (w : World),
    ((q.map qF).foldl (fun w f => f w) w).log =
      w.log ++ q.map (fun p => ⟨.next p.1, p.2⟩) := by
  induction q with
  | nil => intro w; simp
  | cons p q ih => intro w; simp only [List.map_cons, List.foldl_cons]; rw [ih]; simp [qF]

theorem foldl_acc {σ : Type} (f : σ → String → σ × String) (ops : List String) :
    ∀ (s : σ) (acc : List String),
      ops.foldl (fun (a : σ × List String) op => ((f a.1 op).1, (f a.1 op).2 :: a.2)) (s, acc) =
      ((foldOps f s ops).1, (foldOps f s ops).2 ++ acc) := by
  induction ops with
  | nil => intro s acc; simp [foldOps]
  | cons op ops ih =>
    intro s acc
    simp only [List.foldl_cons, foldOps]
    rw [ih, ih (f s op).1 [(f s op).2]]
    simp [foldOps]

/-- unfolding the protocol fold by one operation -/
theorem foldOps_cons {σ : Type} (f : σ → String → σ × String) (s : σ) (op : String) (ops : List String) :
    foldOps f s (op :: ops) = ((foldOps f (f s op).1 ops).1, (foldOps f (f s op).1 ops).2 ++ [(f s op).2]) := by
  simp only [foldOps, List.foldl_cons]
  exact foldl_acc f ops (f s op).1 [(f s op).2]

theorem runOps_cons {σ : Type} (f : σ → String → σ × String) (s : σ) (op : String) (ops : List String) :
    runOps f s (op :: ops) = (f s op).2 :: runOps f (f s op).1 ops := by
  simp [runOps, foldOps_cons]

@[simp] theorem runOps_nil {σ : Type} (f : σ → String → σ × String) (s : σ) : runOps f s [] = [] := rfl

/-- two protocol folds that stay related and answer the same for every operation give the same output -/
theorem runOps_eq {σ τ : Type} (R : σ → τ → Prop) (f : σ → String → σ × String) (g : τ → String → τ × String)
    (hstep : ∀ s t op, R s t → R (f s op).1 (g t op).1 ∧ (f s op).2 = (g t op).2) :
    ∀ (ops : List String) (s : σ) (t : τ), R s t → runOps f s ops = runOps g t ops := by
  intro ops
  induction ops with
  | nil => intro s t _; rfl
  | cons op ops ih =>
    intro s t h
    rw [runOps_cons, runOps_cons, (hstep s t op h).2, ih _ _ (hstep s t op h).1]

end FpgoVerif.C11
