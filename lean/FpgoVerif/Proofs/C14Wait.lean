import FpgoVerif.Model.C14
/-! DoNotation / YieldFromIO / lifecycle flags: invariant of the two-goroutine system, every interleaving. -/
namespace FpgoVerif.C14

/-- what holds at each pair of program counters -/
def DnInv (v : Nat) (s : DnSt) : Prop :=
  (s.e = .idle → (s.m = .m0 ∧ s.wg = 0 ∨ s.m = .m1 ∧ s.wg = 1) ∧ s.started = false ∧ s.done = false) ∧
  (s.e = .e0 → s.wg = 1 ∧ s.m = .m2 ∧ s.started = true ∧ s.done = false) ∧
  (s.e = .e1 → s.wg = 1 ∧ s.m = .m2 ∧ s.result = v ∧ s.started = true ∧ s.done = false) ∧
  (s.e = .e2 → s.wg = 0 ∧ s.result = v ∧ s.started = true ∧ s.done = false ∧ (s.m = .m2 ∨ s.m = .m3 ∨ s.m = .ret v)) ∧
  (s.e = .fin → s.wg = 0 ∧ s.result = v ∧ s.started = true ∧ s.done = true ∧ (s.m = .m2 ∨ s.m = .m3 ∨ s.m = .ret v))

theorem dnInv_init (v : Nat) : DnInv v {} := by
  simp [DnInv]

theorem dnInv_step {v s s'} (a : DnAct) (h : dnStep v s a = some s') (hi : DnInv v s) : DnInv v s' := by
  obtain ⟨h0, h1, h2, h3, h4⟩ := hi
  cases a with
  | main =>
    cases hm : s.m with
    | m0 =>
      simp only [dnStep, hm, Option.some.injEq] at h; subst h
      cases he : s.e <;> simp_all [DnInv]
    | m1 =>
      simp only [dnStep, hm, Option.some.injEq] at h; subst h
      cases he : s.e <;> simp_all [DnInv]
    | m2 =>
      simp only [dnStep, hm] at h
      split at h
      · rename_i hw
        simp only [Option.some.injEq] at h; subst h
        cases he : s.e <;> simp_all [DnInv]
      · simp at h
    | m3 =>
      simp only [dnStep, hm, Option.some.injEq] at h; subst h
      cases he : s.e <;> simp_all [DnInv]
    | ret r => simp [dnStep, hm] at h
  | eff =>
    cases he : s.e with
    | idle => simp [dnStep, he] at h
    | e0 =>
      simp only [dnStep, he, Option.some.injEq] at h; subst h
      simp_all [DnInv]
    | e1 =>
      simp only [dnStep, he, Option.some.injEq] at h; subst h
      simp_all [DnInv]
    | e2 =>
      simp only [dnStep, he, Option.some.injEq] at h; subst h
      simp_all [DnInv]
    | fin => simp [dnStep, he] at h

theorem dnInv_reach {v s} (h : DnReach v s) : DnInv v s := by
  induction h with
  | init => exact dnInv_init v
  | step a _ hs ih => exact dnInv_step a hs ih

/-- whatever DoNotation returns is the effect's value -/
theorem dn_ret {v s r} (h : DnReach v s) (hr : s.m = .ret r) : r = v := by
  obtain ⟨h0, h1, h2, h3, h4⟩ := dnInv_reach h
  cases he : s.e with
  | idle => have := (h0 he).1; simp [hr] at this
  | e0 => have := (h1 he).2.1; simp [hr] at this
  | e1 => have := (h2 he).2.1; simp [hr] at this
  | e2 => have := (h3 he).2.2.2.2; simp [hr] at this; exact this
  | fin => have := (h4 he).2.2.2.2; simp [hr] at this; exact this

/-- until DoNotation has returned and the coroutine is done, some goroutine can step (Wait is released by Done) -/
theorem dn_progress {v s} (h : DnReach v s) (hn : (∀ r, s.m ≠ .ret r) ∨ s.e ≠ .fin) : ∃ a s', dnStep v s a = some s' := by
  obtain ⟨h0, h1, h2, h3, h4⟩ := dnInv_reach h
  cases he : s.e with
  | idle =>
    rcases (h0 he).1 with ⟨hm, _⟩ | ⟨hm, _⟩
    · exact ⟨.main, by simp only [dnStep, hm]; exact ⟨_, rfl⟩⟩
    · exact ⟨.main, by simp only [dnStep, hm]; exact ⟨_, rfl⟩⟩
  | e0 => exact ⟨.eff, by simp only [dnStep, he]; exact ⟨_, rfl⟩⟩
  | e1 => exact ⟨.eff, by simp only [dnStep, he]; exact ⟨_, rfl⟩⟩
  | e2 => exact ⟨.eff, by simp only [dnStep, he]; exact ⟨_, rfl⟩⟩
  | fin =>
    obtain ⟨hw, _, _, _, hm⟩ := h4 he
    rcases hm with hm | hm | hm
    · exact ⟨.main, by simp only [dnStep, hm, hw, if_true]; exact ⟨_, rfl⟩⟩
    · exact ⟨.main, by simp only [dnStep, hm]; exact ⟨_, rfl⟩⟩
    · rcases hn with hn | hn
      · exact absurd hm (hn v)
      · exact absurd he hn

/-- the flags in every reachable state: IsStarted ⇔ Start has run (the effect goroutine exists), IsDone ⇔ the
    effect has returned and close() has set the flag; never done before started -/
theorem dn_flags {v s} (h : DnReach v s) :
    (s.started = true ↔ s.e ≠ .idle) ∧ (s.done = true ↔ s.e = .fin) ∧ (s.done = true → s.started = true) := by
  obtain ⟨h0, h1, h2, h3, h4⟩ := dnInv_reach h
  cases he : s.e with
  | idle => have := h0 he; simp_all
  | e0 => have := h1 he; simp_all
  | e1 => have := h2 he; simp_all
  | e2 => have := h3 he; simp_all
  | fin => have := h4 he; simp_all

end FpgoVerif.C14
