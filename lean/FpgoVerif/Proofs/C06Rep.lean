import FpgoVerif.Proofs.C06Seg
/-! Representation invariant of the pointer-level model; `sync.Pool.Get` and `generateNode`. -/
namespace FpgoVerif.C06
local notation "Addr" => Nat

/-- everything except the `nodeCount` bookkeeping (which KeepNodePoolCount sets up front) -/
structure Rep0 (q : Q) (vs : List Int) (chain pool : List Addr) : Prop where
  hnext : Seg q.next q.first chain
  hprev : Seg q.prev q.last chain.reverse
  hpool : Seg q.next q.poolFirst pool
  nd    : (chain ++ pool).Nodup
  lt    : ∀ a ∈ chain ++ pool, a < q.fresh
  hval  : chain.map q.val = vs.map some
  hcount : q.count = chain.length
  /- the sync.Pool holds each node once, none of them is part of the queue or its free list,
     and every one of them is zeroed -/
  gnd   : q.gc.Nodup
  gdisj : ∀ a ∈ q.gc, a ∉ chain ++ pool
  glt   : ∀ a ∈ q.gc, a < q.fresh
  gzero : ∀ a ∈ q.gc, q.next a = none ∧ q.prev a = none ∧ q.val a = none

/-- the representation invariant: `chain` are the addresses of the stored items from head to tail,
    `vs` their values, `pool` the free list -/
structure Rep (q : Q) (vs : List Int) (chain pool : List Addr) : Prop extends Rep0 q vs chain pool where
  hnode : q.nodeCount = pool.length

theorem map_upd_of_not_mem {β} (f : Addr → β) (a : Addr) (b : β) (l : List Addr) (h : a ∉ l) :
    l.map (upd f a b) = l.map f := by
  apply List.map_congr_left
  intro x hx
  exact upd_other _ _ _ _ (fun e => h (e ▸ hx))

theorem Rep0.chain_nodup {q vs chain pool} (h : Rep0 q vs chain pool) : chain.Nodup :=
  (List.nodup_append.mp h.nd).1
theorem Rep0.pool_nodup {q vs chain pool} (h : Rep0 q vs chain pool) : pool.Nodup :=
  (List.nodup_append.mp h.nd).2.1
theorem Rep0.disj {q vs chain pool} (h : Rep0 q vs chain pool) {a} (hc : a ∈ chain) : a ∉ pool :=
  fun hp => (List.nodup_append.mp h.nd).2.2 a hc a hp rfl
theorem Rep0.length_eq {q vs chain pool} (h : Rep0 q vs chain pool) : vs.length = chain.length := by
  have := congrArg List.length h.hval; simpa using this.symm

/-- the scalar fields an auxiliary step leaves alone -/
structure Same (q q' : Q) : Prop where
  first : q'.first = q.first
  last : q'.last = q.last
  count : q'.count = q.count
  poolFirst : q'.poolFirst = q.poolFirst
  nodeCount : q'.nodeCount = q.nodeCount

/-- `sync.Pool.Get`, whatever the runtime chooses: the node is zeroed, unknown to the queue, and
    the representation is untouched -/
theorem poolGet_spec {q : Q} {vs chain pool} (h : Rep0 q vs chain pool) (q' : Q) (n : Addr)
    (hg : poolGet q = (q', n)) :
    Rep0 q' vs chain pool ∧ Same q q' ∧ n ∉ chain ++ pool ∧ n ∉ q'.gc ∧ n < q'.fresh ∧
      q'.next n = none ∧ q'.prev n = none ∧ q'.val n = none := by
  unfold poolGet at hg
  cases hp : q.gc[q.pick q.gets]? with
  | some a =>
    rw [hp] at hg
    simp only [Prod.mk.injEq] at hg
    obtain ⟨rfl, rfl⟩ := hg
    have ha : a ∈ q.gc := List.mem_of_getElem? hp
    have hz := h.gzero a ha
    refine ⟨⟨h.hnext, h.hprev, h.hpool, h.nd, h.lt, h.hval, h.hcount, h.gnd.erase a, ?_, ?_, ?_⟩,
      ⟨rfl, rfl, rfl, rfl, rfl⟩, h.gdisj a ha, ?_, h.glt a ha, hz.1, hz.2.1, hz.2.2⟩
    · intro b hb; exact h.gdisj b (List.mem_of_mem_erase hb)
    · intro b hb; exact h.glt b (List.mem_of_mem_erase hb)
    · intro b hb; exact h.gzero b (List.mem_of_mem_erase hb)
    · intro hm; exact ((h.gnd.mem_erase_iff).mp hm).1 rfl
  | none =>
    rw [hp] at hg
    simp only [Prod.mk.injEq] at hg
    obtain ⟨rfl, rfl⟩ := hg
    have hfresh : q.fresh ∉ chain ++ pool := fun hm => Nat.lt_irrefl _ (h.lt _ hm)
    have hfc : q.fresh ∉ chain := fun hm => hfresh (List.mem_append_left _ hm)
    have hfp : q.fresh ∉ pool := fun hm => hfresh (List.mem_append_right _ hm)
    have hfg : q.fresh ∉ q.gc := fun hm => Nat.lt_irrefl _ (h.glt _ hm)
    refine ⟨⟨h.hnext.frame _ _ hfc, h.hprev.frame _ _ (by simpa using hfc), h.hpool.frame _ _ hfp, h.nd, ?_, ?_,
      h.hcount, h.gnd, h.gdisj, ?_, ?_⟩, ⟨rfl, rfl, rfl, rfl, rfl⟩, hfresh, hfg, ?_, by simp, by simp, by simp⟩
    · intro a ha; have := h.lt a ha; show a < q.fresh + 1; omega
    · show chain.map (upd q.val q.fresh none) = _
      rw [map_upd_of_not_mem _ _ _ _ hfc]; exact h.hval
    · intro a ha; have := h.glt a ha; show a < q.fresh + 1; omega
    · intro a ha
      have hne : a ≠ q.fresh := fun e => hfg (e ▸ ha)
      have := h.gzero a ha
      simp only [upd_other _ _ _ _ hne]; exact this
    · show q.fresh < q.fresh + 1; omega

/-- generateNode hands out a node that is in neither list, with cleared links, and keeps the representation -/
theorem generateNode_spec {q : Q} {vs chain pool} (h : Rep q vs chain pool) (q' : Q) (n : Addr)
    (hg : generateNode q = (q', n)) :
    ∃ pool', Rep q' vs chain pool' ∧ pool'.length = pool.length - 1 ∧ n ∉ chain ++ pool' ∧ n ∉ q'.gc ∧
      n < q'.fresh ∧ q'.next n = none ∧ q'.prev n = none ∧
      q'.first = q.first ∧ q'.last = q.last ∧ q'.count = q.count := by
  unfold generateNode at hg
  cases hp : q.poolFirst with
  | none =>
    rw [hp] at hg
    have hpl : pool = [] := (hp ▸ h.hpool).nil_of_none
    subst hpl
    obtain ⟨h0, hs, hn, hng, hlt, hnn, hnp, _⟩ := poolGet_spec h.toRep0 q' n hg
    exact ⟨[], ⟨h0, by rw [hs.nodeCount]; exact h.hnode⟩, rfl, hn, hng, hlt, hnn, hnp, hs.first, hs.last, hs.count⟩
  | some m =>
    rw [hp] at hg
    simp only [Prod.mk.injEq] at hg
    obtain ⟨rfl, rfl⟩ := hg
    have hpool := hp ▸ h.hpool
    cases hpool with
    | cons _ pool' hs =>
      have hnd2 : (chain ++ m :: pool').Nodup := h.nd
      have hn_chain : m ∉ chain := fun hm => h.disj hm List.mem_cons_self
      have hn_pool' : m ∉ pool' := (List.nodup_cons.mp h.pool_nodup).1
      have hmg : m ∉ q.gc := fun hm => h.gdisj m hm (List.mem_append_right _ List.mem_cons_self)
      refine ⟨pool', ⟨⟨?_, ?_, ?_, ?_, ?_, h.hval, h.hcount, h.gnd, ?_, h.glt, ?_⟩, ?_⟩, by simp, ?_, hmg, ?_, by simp, by simp, rfl, rfl, rfl⟩
      · exact h.hnext.frame _ _ hn_chain
      · exact h.hprev.frame _ _ (by simpa using hn_chain)
      · exact hs.frame _ _ hn_pool'
      · have h1 := List.nodup_append.mp hnd2
        refine List.nodup_append.mpr ⟨h1.1, (List.nodup_cons.mp h1.2.1).2, ?_⟩
        intro a ha b hb; exact h1.2.2 a ha b (List.mem_cons_of_mem _ hb)
      · intro a ha
        apply h.lt
        rcases List.mem_append.mp ha with h' | h'
        · exact List.mem_append_left _ h'
        · exact List.mem_append_right _ (List.mem_cons_of_mem _ h')
      · intro a ha hm
        apply h.gdisj a ha
        rcases List.mem_append.mp hm with h' | h'
        · exact List.mem_append_left _ h'
        · exact List.mem_append_right _ (List.mem_cons_of_mem _ h')
      · intro a ha
        have hne : a ≠ m := fun e => hmg (e ▸ ha)
        have := h.gzero a ha
        simp only [upd_other _ _ _ _ hne]; exact this
      · have := h.hnode; simp at this; show q.nodeCount - 1 = _; omega
      · intro hm
        rcases List.mem_append.mp hm with h' | h'
        · exact hn_chain h'
        · exact hn_pool' h'
      · exact h.lt m (List.mem_append_right _ List.mem_cons_self)

end FpgoVerif.C06
