import FpgoVerif.Proofs.C06Seg
/-! Representation invariant of the pointer-level model and per-operation preservation. -/
namespace FpgoVerif.C06
local notation "Addr" => Nat


theorem Seg.nil_of_none {f : Addr → Option Addr} {l} (h : Seg f none l) : l = [] := by cases h; rfl

theorem Seg.last_eq {f : Addr → Option Addr} {o} {l : List Addr} (h : Seg f o l.reverse) : o = l.getLast? := by
  rw [h.head, List.head?_reverse]

structure Rep (q : Q) (vs : List Int) (chain pool : List Addr) : Prop where
  hnext : Seg q.next q.first chain
  hprev : Seg q.prev q.last chain.reverse
  hpool : Seg q.next q.poolFirst pool
  nd    : (chain ++ pool).Nodup
  lt    : ∀ a ∈ chain ++ pool, a < q.fresh
  hval  : chain.map q.val = vs.map some
  hcount : q.count = chain.length
  hnode  : q.nodeCount = pool.length

theorem map_upd_of_not_mem {β} (f : Addr → β) (a : Addr) (b : β) (l : List Addr) (h : a ∉ l) :
    l.map (upd f a b) = l.map f := by
  apply List.map_congr_left
  intro x hx
  exact upd_other _ _ _ _ (fun e => h (e ▸ hx))

/-- generateNode hands out a node that is in neither list, with cleared links, and keeps the representation -/
theorem generateNode_spec {q : Q} {vs chain pool} (h : Rep q vs chain pool) (q' : Q) (n : Addr)
    (hg : generateNode q = (q', n)) :
    ∃ pool', Rep q' vs chain pool' ∧ n ∉ chain ++ pool' ∧ n < q'.fresh ∧
      q'.next n = none ∧ q'.prev n = none ∧
      q'.first = q.first ∧ q'.last = q.last ∧ q'.count = q.count := by
  obtain ⟨hnext, hprev, hpool, nd, lt, hval, hcount, hnode⟩ := h
  unfold generateNode at hg
  cases hp : q.poolFirst with
  | none =>
    rw [hp] at hpool hg
    have hpl : pool = [] := hpool.nil_of_none
    subst hpl
    have hfresh : q.fresh ∉ chain := fun hm => Nat.lt_irrefl _ (lt _ (by simpa using hm))
    simp only [Prod.mk.injEq] at hg
    obtain ⟨rfl, rfl⟩ := hg
    refine ⟨[], ⟨?_, ?_, ?_, by simpa using nd, ?_, ?_, hcount, hnode⟩, by simpa using hfresh, ?_, by simp, by simp, rfl, rfl, rfl⟩
    · exact hnext.frame _ _ hfresh
    · exact hprev.frame _ _ (by simpa using hfresh)
    · simp only [hp]; exact .nil
    · intro a ha; have := lt a ha; show a < q.fresh + 1; omega
    · simp only; rw [map_upd_of_not_mem _ _ _ _ hfresh]; exact hval
    · show q.fresh < q.fresh + 1; omega
  | some m =>
    rw [hp] at hpool hg
    simp only [Prod.mk.injEq] at hg
    obtain ⟨rfl, rfl⟩ := hg
    cases hpool with
    | cons _ pool' hs =>
      have hnd2 : (chain ++ m :: pool').Nodup := nd
      have hn_chain : m ∉ chain := by
        intro hm
        have := (List.nodup_append.mp hnd2).2.2 m hm m List.mem_cons_self
        exact this rfl
      have hn_pool' : m ∉ pool' := by
        have := (List.nodup_append.mp hnd2).2.1
        exact (List.nodup_cons.mp this).1
      refine ⟨pool', ⟨?_, ?_, ?_, ?_, ?_, hval, hcount, ?_⟩, ?_, ?_, by simp, by simp, rfl, rfl, rfl⟩
      · exact hnext.frame _ _ hn_chain
      · exact hprev.frame _ _ (by simpa using hn_chain)
      · exact hs.frame _ _ hn_pool'
      · have h1 := List.nodup_append.mp hnd2
        refine List.nodup_append.mpr ⟨h1.1, (List.nodup_cons.mp h1.2.1).2, ?_⟩
        intro a ha b hb; exact h1.2.2 a ha b (List.mem_cons_of_mem _ hb)
      · intro a ha
        apply lt
        rcases List.mem_append.mp ha with h | h
        · exact List.mem_append_left _ h
        · exact List.mem_append_right _ (List.mem_cons_of_mem _ h)
      · simp [hnode]
      · intro hm
        rcases List.mem_append.mp hm with h | h
        · exact hn_chain h
        · exact hn_pool' h
      · exact lt m (List.mem_append_right _ List.mem_cons_self)

/-- the address generateNode will hand out -/
def n_of (q : Q) : Nat := (generateNode q).2

theorem nodup_snoc_pool {chain pool : List Nat} {n : Nat} (nd : (chain ++ pool).Nodup) (hn : n ∉ chain ++ pool) :
    ((chain ++ [n]) ++ pool).Nodup := by
  have h1 := List.nodup_append.mp nd
  have hnc : n ∉ chain := fun h => hn (List.mem_append_left _ h)
  have hnp : n ∉ pool := fun h => hn (List.mem_append_right _ h)
  refine List.nodup_append.mpr ⟨?_, h1.2.1, ?_⟩
  · refine List.nodup_append.mpr ⟨h1.1, by simp, ?_⟩
    intro a ha b hb; simp at hb; subst hb; exact fun e => hnc (e ▸ ha)
  · intro a ha b hb
    rcases List.mem_append.mp ha with h | h
    · exact h1.2.2 a h b hb
    · simp at h; subst h; exact fun e => hnp (e ▸ hb)

theorem offer_rep {q : Q} {vs chain pool} (h : Rep q vs chain pool) (v : Int) :
    ∃ pool', Rep (offer q v) (vs ++ [v]) (chain ++ [n_of q]) pool' := by
  cases hg : generateNode q with
  | mk q1 n =>
  obtain ⟨pool', hr, hn, hnlt, hnn, hnp, hf, hl, hc⟩ := generateNode_spec h q1 n hg
  obtain ⟨hnext, hprev, hpool, nd, lt, hval, hcount, hnode⟩ := hr
  have hnc : n ∉ chain := fun h => hn (List.mem_append_left _ h)
  have hnp' : n ∉ pool' := fun h => hn (List.mem_append_right _ h)
  have hno : n_of q = n := by simp [n_of, hg]
  rw [hno]
  refine ⟨pool', ?_⟩
  have hchainnd : chain.Nodup := (List.nodup_append.mp nd).1
  have hlt' : ∀ a ∈ (chain ++ [n]) ++ pool', a < q1.fresh := by
    intro a ha
    rcases List.mem_append.mp ha with h | h
    · rcases List.mem_append.mp h with h | h
      · exact lt a (List.mem_append_left _ h)
      · simp at h; subst h; exact hnlt
    · exact lt a (List.mem_append_right _ h)
  have hvalmap : (chain ++ [n]).map (upd q1.val n (some v)) = (vs ++ [v]).map some := by
    rw [List.map_append, List.map_append, map_upd_of_not_mem _ _ _ _ hnc, hval]; simp
  cases hlast : q1.last with
  | none =>
    -- empty queue
    have hch : chain = [] := by
      have := hprev.last_eq; rw [hlast] at this
      cases chain with
      | nil => rfl
      | cons a l => simp [List.getLast?_cons] at this
    subst hch
    have hfirst : q1.first = none := by have := hnext.head; simpa using this
    have : offer q v = { q1 with val := upd q1.val n (some v), count := q1.count + 1, first := some n, last := some n } := by
      simp [offer, hg, hfirst, hlast]
    rw [this]
    refine ⟨?_, ?_, hpool, ?_, hlt', hvalmap, ?_, hnode⟩
    · exact .cons n [] (by simp only; rw [hnn]; exact .nil)
    · exact .cons n [] (by simp only; rw [hnp]; exact .nil)
    · simpa using nodup_snoc_pool nd hn
    · simp only; rw [hcount]; simp
  | some l =>
    have hgl : chain.getLast? = some l := by have := hprev.last_eq; rw [hlast] at this; exact this.symm
    have hlmem : l ∈ chain := List.mem_of_getLast? hgl
    have hne : chain ≠ [] := by intro e; subst e; simp at hgl
    have hfirst : q1.first.isNone = false := by
      have := hnext.head
      cases chain with
      | nil => exact absurd rfl hne
      | cons a t => simp [this]
    have : offer q v = { q1 with val := upd q1.val n (some v), count := q1.count + 1,
                                 next := upd q1.next l (some n), prev := upd q1.prev n (some l), last := some n } := by
      simp [offer, hg, hfirst, hlast]
    rw [this]
    have hlp : l ∉ pool' := by
      intro hm
      exact (List.nodup_append.mp nd).2.2 l hlmem l hm rfl
    refine ⟨?_, ?_, ?_, nodup_snoc_pool nd hn, hlt', hvalmap, ?_, hnode⟩
    · exact hnext.snoc n l hnc hnn hchainnd hgl
    · have := (hlast ▸ hprev).push n (by simpa using hnc)
      simpa [List.reverse_append] using this
    · exact hpool.frame _ _ hlp
    · simp only; rw [hcount]; simp

end FpgoVerif.C06
