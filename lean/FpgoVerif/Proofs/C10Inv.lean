import FpgoVerif.Proofs.C10Heap
/-! C10 helper lemmas, part 2: the invariant of the transition system and its preservation by every
    atomic step of the repaired code, for every growth policy. -/
namespace FpgoVerif.C10

/-- facts about a publish frame fixed at the snapshot -/
structure StaticOK (f : PubF) : Prop where
  sorted : f.snap.Pairwise (· < ·)
  old : ∀ x ∈ f.snap, 0 < x ∧ x < f.n0
  notDone : ∀ x ∈ f.done0, x ∉ f.snap

/-- a running Publish: its snapshot header is protected and still denotes the ghost snapshot; what it
    has delivered so far is exactly the first `k` elements of the snapshot -/
structure PubOK (hp : Heap) (subs : Hdr) (n : Nat) (sil : Nat → Bool) (f : PubF) : Prop where
  prot : Prot hp subs f.h
  same : content hp f.h = f.snap
  len : f.snap.length = f.h.len
  k_le : f.k ≤ f.h.len
  dl : f.dl = (f.snap.take f.k).filter (fun x => !sil x)
  n0_le : f.n0 ≤ n
  gone : ∀ x, 0 < x → x < f.n0 → x ∉ f.snap → x ∉ content hp subs
  static : StaticOK f

def FrameOK (hp : Heap) (subs : Hdr) (n : Nat) (sil : Nat → Bool) : Frame → Prop
  | .cb => True
  | .unsub x => 0 < x ∧ x < n
  | .pub f => PubOK hp subs n sil f

/-- a finished Publish -/
structure RecOK (n : Nat) (sil : Nat → Bool) (r : PubRec) : Prop where
  all : r.f.dl = r.f.snap.filter (fun x => !sil x)
  n0_le : r.f.n0 ≤ n
  static : StaticOK r.f
  kept : ∀ x, 0 < x → x < r.f.n0 → x ∈ r.regEnd → x ∈ r.f.snap

structure Inv (s : State) : Prop where
  wf : WF s.heap s.subs s.nextId
  frames : ∀ t, ∀ fr ∈ s.stacks t, FrameOK s.heap s.subs s.nextId s.silent fr
  done : ∀ x ∈ s.unsubDone, 0 < x ∧ x < s.nextId ∧ x ∉ content s.heap s.subs
  ended : ∀ r ∈ s.ended, RecOK s.nextId s.silent r
  hq : s.posted.reverse = s.hlog.reverse ++ s.mailbox

theorem PubOK.ext {hp subs n hp' subs' n' sil f} (e : Ext hp subs n hp' subs' n') (p : PubOK hp subs n sil f) :
    PubOK hp' subs' n' sil f := by
  have ⟨hc, hpr⟩ := e.frozen f.h p.prot
  exact ⟨hpr, by rw [hc]; exact p.same, p.len, p.k_le, p.dl, Nat.le_trans p.n0_le e.n_le,
    fun x h0 hx hs => e.gone x h0 (Nat.lt_of_lt_of_le hx p.n0_le) (p.gone x h0 hx hs), p.static⟩

theorem FrameOK.ext {hp subs n hp' subs' n' sil fr} (e : Ext hp subs n hp' subs' n') (p : FrameOK hp subs n sil fr) :
    FrameOK hp' subs' n' sil fr := by
  cases fr with
  | cb => trivial
  | unsub x => exact ⟨p.1, Nat.lt_of_lt_of_le p.2 e.n_le⟩
  | pub f => exact PubOK.ext e p

/-- marking a not yet issued id as silent changes nothing for ids issued before -/
theorem filter_upd_sil {l : List Nat} {sil : Nat → Bool} {n : Nat} (h : ∀ x ∈ l, x < n) :
    l.filter (fun x => !upd sil n true x) = l.filter (fun x => !sil x) := by
  apply List.filter_congr
  intro x hx
  rw [upd_other _ _ _ _ (Nat.ne_of_lt (h x hx))]

theorem PubOK.sil {hp subs n sil f} (p : PubOK hp subs n sil f) : PubOK hp subs n (upd sil n true) f := by
  refine ⟨p.prot, p.same, p.len, p.k_le, ?_, p.n0_le, p.gone, p.static⟩
  rw [p.dl]
  exact (filter_upd_sil (fun x hx =>
    Nat.lt_of_lt_of_le (p.static.old x ((List.take_sublist _ _).subset hx)).2 p.n0_le)).symm

theorem FrameOK.sil {hp subs n sil fr} (p : FrameOK hp subs n sil fr) : FrameOK hp subs n (upd sil n true) fr := by
  cases fr with
  | cb => trivial
  | unsub x => exact p
  | pub f => exact PubOK.sil p

theorem RecOK.mono {n n' sil r} (p : RecOK n sil r) (h : n ≤ n') : RecOK n' sil r :=
  ⟨p.all, Nat.le_trans p.n0_le h, p.static, p.kept⟩

theorem RecOK.sil {n sil r} (p : RecOK n sil r) : RecOK n (upd sil n true) r := by
  refine ⟨?_, p.n0_le, p.static, p.kept⟩
  rw [p.all]
  exact (filter_upd_sil (fun x hx => Nat.lt_of_lt_of_le (p.static.old x hx).2 p.n0_le)).symm

theorem Inv_init : Inv init := by
  refine ⟨⟨by decide, by decide, by decide, by simp [init, content, cellsOf], ?_, by decide⟩, ?_, ?_, ?_, rfl⟩
  · intro x hx; simp [init, content, cellsOf] at hx
  · intro t fr hfr; simp [init] at hfr
  · intro x hx; simp [init] at hx
  · intro r hr; simp [init] at hr

/-- frames of an updated stack map -/
theorem frames_upd {P : Frame → Prop} {st : Nat → List Frame} {t : Nat} {new : List Frame}
    (hold : ∀ u, ∀ fr ∈ st u, P fr) (hnew : ∀ fr ∈ new, P fr) :
    ∀ u, ∀ fr ∈ upd st t new u, P fr := by
  intro u fr hfr
  by_cases hu : u = t
  · subst hu; rw [upd_same] at hfr; exact hnew fr hfr
  · rw [upd_other _ _ _ _ hu] at hfr; exact hold u fr hfr

theorem readCell_of_content {hp : Heap} {h : Hdr} {snap : List Nat} {k : Nat}
    (hc : content hp h = snap) (hk : k < h.len) (hl : snap.length = h.len) :
    snap.take (k + 1) = snap.take k ++ [readCell hp h k] := by
  rw [List.take_add_one]
  have hks : k < snap.length := by omega
  have h1 : snap[k]? = some (readCell hp h k) := by
    unfold readCell
    rw [← hc] at hks ⊢
    unfold content at hks ⊢
    rw [List.getElem?_take]
    simp only [hk, if_true, List.getD_eq_getElem?_getD]
    have : k < (cellsOf hp h.arr).length := by
      rw [List.length_take] at hks; omega
    rw [List.getElem?_eq_getElem this]; simp
  rw [h1]; rfl

theorem Inv_step (grow : Nat → Nat) {s s' : State} (a : Act) (inv : Inv s)
    (hs : step true grow s a = some s') : Inv s' := by
  cases a with
  | subscribe t =>
    simp only [step] at hs
    split at hs
    · cases hs
      have ⟨w', hc, e⟩ := appendSub_spec grow inv.wf
      refine ⟨w', fun u fr hfr => FrameOK.ext e (inv.frames u fr hfr), ?_,
        fun r hr => (inv.ended r hr).mono (Nat.le_succ _), inv.hq⟩
      intro x hx
      have ⟨h0, hlt, hn⟩ := inv.done x hx
      exact ⟨h0, Nat.lt_succ_of_lt hlt, e.gone x h0 hlt hn⟩
    · cases hs
  | subscribeNil t =>
    simp only [step] at hs
    split at hs
    · cases hs
      have ⟨w', hc, e⟩ := appendSub_spec grow inv.wf
      refine ⟨w', fun u fr hfr => FrameOK.ext e (inv.frames u fr hfr).sil, ?_,
        fun r hr => ((inv.ended r hr).sil).mono (Nat.le_succ _), inv.hq⟩
      intro x hx
      have ⟨h0, hlt, hn⟩ := inv.done x hx
      exact ⟨h0, Nat.lt_succ_of_lt hlt, e.gone x h0 hlt hn⟩
    · cases hs
  | unsubBegin t x =>
    simp only [step] at hs
    split at hs
    · rename_i hc
      cases hs
      refine ⟨inv.wf, ?_, inv.done, inv.ended, inv.hq⟩
      apply frames_upd inv.frames
      intro fr hfr
      rcases List.mem_cons.1 hfr with rfl | hfr
      · exact ⟨hc.2.1, hc.2.2⟩
      · exact inv.frames t fr hfr
    · cases hs
  | unsubStep t =>
    simp only [step] at hs
    split at hs
    · rename_i x rest hst
      split at hs
      · rename_i i hi
        have ⟨hil, _⟩ := findIdx_some hi
        rw [inv.wf.length_content] at hil
        simp only [if_true] at hs
        cases hs
        have ⟨w', hc, e⟩ := removeCopy_spec inv.wf i hil
        refine ⟨w', fun u fr hfr => FrameOK.ext e (inv.frames u fr hfr), ?_, inv.ended, inv.hq⟩
        intro y hy
        have ⟨h0, hlt, hn⟩ := inv.done y hy
        exact ⟨h0, hlt, e.gone y h0 hlt hn⟩
      · rename_i hi
        cases hs
        have hfx : FrameOK s.heap s.subs s.nextId s.silent (.unsub x) := inv.frames t _ (by rw [hst]; simp)
        refine ⟨inv.wf, ?_, ?_, inv.ended, inv.hq⟩
        · apply frames_upd inv.frames
          intro fr hfr
          exact inv.frames t fr (by rw [hst]; exact List.mem_cons_of_mem _ hfr)
        · intro y hy
          rcases List.mem_cons.1 hy with rfl | hy
          · exact ⟨hfx.1, hfx.2, findIdx_none hi⟩
          · exact inv.done y hy
    · cases hs
  | pubBegin t v =>
    simp only [step] at hs
    split at hs
    · cases hs
      refine ⟨inv.wf, ?_, inv.done, inv.ended, inv.hq⟩
      apply frames_upd inv.frames
      intro fr hfr
      rcases List.mem_cons.1 hfr with rfl | hfr
      · exact ⟨⟨inv.wf.arr_lt, fun _ => Nat.le_refl _⟩, rfl, inv.wf.length_content, Nat.zero_le _, by simp,
          Nat.le_refl _, fun x _ _ hn => hn,
          ⟨inv.wf.sorted, inv.wf.pos, fun x hx => (inv.done x hx).2.2⟩⟩
      · exact inv.frames t fr hfr
    · cases hs
  | deliver t =>
    simp only [step] at hs
    split at hs
    · rename_i f rest hst
      have hf : PubOK s.heap s.subs s.nextId s.silent f := inv.frames t (.pub f) (by rw [hst]; simp)
      have hrest : ∀ fr ∈ rest, FrameOK s.heap s.subs s.nextId s.silent fr :=
        fun fr hfr => inv.frames t fr (by rw [hst]; exact List.mem_cons_of_mem _ hfr)
      split at hs
      · rename_i hk
        have hstep := readCell_of_content hf.same hk hf.len
        split at hs
        · -- the subscription has no OnNext: passed over
          rename_i hsil
          cases hs
          refine ⟨inv.wf, ?_, inv.done, inv.ended, inv.hq⟩
          apply frames_upd inv.frames
          intro fr hfr
          rcases List.mem_cons.1 hfr with rfl | hfr
          · refine ⟨hf.prot, hf.same, hf.len, hk, ?_, hf.n0_le, hf.gone,
              ⟨hf.static.sorted, hf.static.old, hf.static.notDone⟩⟩
            show f.dl = (f.snap.take (f.k + 1)).filter _
            rw [hstep, List.filter_append, ← hf.dl]
            simp [hsil]
          · exact hrest fr hfr
        rename_i hsil
        have hf' : PubOK s.heap s.subs s.nextId s.silent
            { f with k := f.k + 1, dl := f.dl ++ [readCell s.heap f.h f.k] } :=
          ⟨hf.prot, hf.same, hf.len, hk, by
            show f.dl ++ _ = (f.snap.take (f.k + 1)).filter _
            rw [hstep, List.filter_append, ← hf.dl]
            simp [hsil], hf.n0_le, hf.gone,
            ⟨hf.static.sorted, hf.static.old, hf.static.notDone⟩⟩
        split at hs
        · cases hs
          refine ⟨inv.wf, ?_, inv.done, inv.ended, ?_⟩
          · apply frames_upd inv.frames
            intro fr hfr
            rcases List.mem_cons.1 hfr with rfl | hfr
            · exact hf'
            · exact hrest fr hfr
          · show (State.posted { s with log := (f.pid, readCell s.heap f.h f.k, f.val, true) :: s.log }).reverse = _
            have : State.posted { s with log := (f.pid, readCell s.heap f.h f.k, f.val, true) :: s.log }
                = (f.pid, readCell s.heap f.h f.k, f.val) :: s.posted := by simp [State.posted]
            rw [this, List.reverse_cons, inv.hq, List.append_assoc]
        · cases hs
          refine ⟨inv.wf, ?_, inv.done, inv.ended, ?_⟩
          rotate_left
          · show (State.posted _).reverse = _
            simpa [State.posted] using inv.hq
          apply frames_upd inv.frames
          intro fr hfr
          rcases List.mem_cons.1 hfr with rfl | hfr
          · trivial
          rcases List.mem_cons.1 hfr with rfl | hfr
          · exact hf'
          · exact hrest fr hfr
      · cases hs
    · cases hs
  | cbReturn t =>
    simp only [step] at hs
    split at hs
    · rename_i rest hst
      cases hs
      refine ⟨inv.wf, ?_, inv.done, inv.ended, inv.hq⟩
      apply frames_upd inv.frames
      intro fr hfr
      exact inv.frames t fr (by rw [hst]; exact List.mem_cons_of_mem _ hfr)
    · cases hs
  | pubEnd t =>
    simp only [step] at hs
    split at hs
    · rename_i f rest hst
      have hf : PubOK s.heap s.subs s.nextId s.silent f := inv.frames t (.pub f) (by rw [hst]; simp)
      split at hs
      · cases hs
      · rename_i hk
        cases hs
        refine ⟨inv.wf, ?_, inv.done, ?_, inv.hq⟩
        · apply frames_upd inv.frames
          intro fr hfr
          exact inv.frames t fr (by rw [hst]; exact List.mem_cons_of_mem _ hfr)
        · intro r hr
          rcases List.mem_cons.1 hr with rfl | hr
          · refine ⟨?_, hf.n0_le, hf.static, ?_⟩
            · show f.dl = f.snap.filter _
              rw [hf.dl, List.take_of_length_le]
              have := hf.len; have := hf.k_le; omega
            · intro x h0 hx hmem
              show x ∈ f.snap
              apply Classical.byContradiction
              intro hn
              exact hf.gone x h0 hx hn hmem
          · exact inv.ended r hr
    · cases hs
  | setSubOn t b =>
    simp only [step] at hs
    split at hs
    · cases hs
      exact ⟨inv.wf, inv.frames, inv.done, inv.ended, inv.hq⟩
    · cases hs
  | hrun t =>
    simp only [step] at hs
    split at hs
    · rename_i m rest hst hmb
      cases hs
      refine ⟨inv.wf, ?_, inv.done, inv.ended, ?_⟩
      · apply frames_upd inv.frames
        intro fr hfr
        simp at hfr; subst hfr; trivial
      · show s.posted.reverse = (m :: s.hlog).reverse ++ rest
        rw [inv.hq, hmb, List.reverse_cons, List.append_assoc]; rfl
    · cases hs

theorem Inv_reach (grow : Nat → Nat) {s : State} (r : Reach grow s) : Inv s := by
  induction r with
  | init => exact Inv_init
  | step a _ hs ih => exact Inv_step grow a ih hs

end FpgoVerif.C10
