import FpgoVerif.Proofs.C19Keys
import FpgoVerif.Proofs.C19Sort
/-! Helper lemmas for C19: `_compareBySortDescriptors` realises the lexicographic key order, which is a
    strict weak order. -/
namespace FpgoVerif.C19

variable {α : Type}

/-- one level of `_compareBySortDescriptors`: the value before the tie-break recursion -/
def levelCmp (d : Desc α) (x y : α) : Int :=
  match d.key x, d.key y with
  | some k1, some k2 => if d.asc then k1.compareTo k2 else k2.compareTo k1
  | some _, none => if d.asc then 1 else -1
  | none, some _ => if d.asc then -1 else 1
  | none, none => 0

theorem compare_unfold (d : Desc α) (rest : List (Desc α)) (x y : α) :
    compareBySortDescriptors d rest x y =
      match rest with
      | [] => levelCmp d x y
      | d' :: rest' => if levelCmp d x y = 0 then compareBySortDescriptors d' rest' x y else levelCmp d x y := by
  cases hx : d.key x <;> cases hy : d.key y <;> cases rest <;>
    simp [compareBySortDescriptors, levelCmp, hx, hy] <;> cases d.asc <;> simp

/-- the level value is `-1`, `0` or `1` according to the (direction-adjusted) natural key order -/
theorem levelCmp_spec (d : Desc α) (x y : α) :
    (d.keyLt x y = true ∧ levelCmp d x y = -1) ∨
    (d.key x = d.key y ∧ levelCmp d x y = 0) ∨
    (d.keyLt y x = true ∧ levelCmp d x y = 1) := by
  cases hx : d.key x with
  | none =>
    cases hy : d.key y with
    | none => exact .inr (.inl ⟨rfl, by simp [levelCmp, hx, hy]⟩)
    | some k2 =>
      cases ha : d.asc
      · exact .inr (.inr ⟨by simp [Desc.keyLt, ha, hx, hy, optLt], by simp [levelCmp, hx, hy, ha]⟩)
      · exact .inl ⟨by simp [Desc.keyLt, ha, hx, hy, optLt], by simp [levelCmp, hx, hy, ha]⟩
  | some k1 =>
    cases hy : d.key y with
    | none =>
      cases ha : d.asc
      · exact .inl ⟨by simp [Desc.keyLt, ha, hx, hy, optLt], by simp [levelCmp, hx, hy, ha]⟩
      · exact .inr (.inr ⟨by simp [Desc.keyLt, ha, hx, hy, optLt], by simp [levelCmp, hx, hy, ha]⟩)
    | some k2 =>
      rcases Key.lt_trichotomy k1 k2 with h | h | h
      · subst h
        exact .inr (.inl ⟨rfl, by cases ha : d.asc <;> simp [levelCmp, hx, hy, ha, Key.compareTo_self]⟩)
      · cases ha : d.asc
        · exact .inr (.inr ⟨by simp [Desc.keyLt, ha, hx, hy, optLt, h],
            by simp [levelCmp, hx, hy, ha, Key.compareTo_of_gt h]⟩)
        · exact .inl ⟨by simp [Desc.keyLt, ha, hx, hy, optLt, h],
            by simp [levelCmp, hx, hy, ha, Key.compareTo_of_lt h]⟩
      · cases ha : d.asc
        · exact .inl ⟨by simp [Desc.keyLt, ha, hx, hy, optLt, h],
            by simp [levelCmp, hx, hy, ha, Key.compareTo_of_lt h]⟩
        · exact .inr (.inr ⟨by simp [Desc.keyLt, ha, hx, hy, optLt, h],
            by simp [levelCmp, hx, hy, ha, Key.compareTo_of_gt h]⟩)

theorem Desc.keyLt_irrefl (d : Desc α) (x : α) : d.keyLt x x = false := by
  simp [Desc.keyLt, optLt_irrefl]

theorem Desc.keyLt_of_key_eq (d : Desc α) {x y : α} (h : d.key x = d.key y) : d.keyLt x y = false := by
  simp [Desc.keyLt, h, optLt_irrefl]

theorem Desc.keyLt_asymm (d : Desc α) {x y : α} (h : d.keyLt x y = true) : d.keyLt y x = false := by
  unfold Desc.keyLt at *
  cases ha : d.asc <;> simp [ha] at h ⊢ <;> exact optLt_asymm h

theorem Desc.keyLt_trans (d : Desc α) {x y z : α} (h1 : d.keyLt x y = true) (h2 : d.keyLt y z = true) :
    d.keyLt x z = true := by
  unfold Desc.keyLt at *
  cases ha : d.asc <;> simp [ha] at h1 h2 ⊢
  · exact optLt_trans _ _ _ h2 h1
  · exact optLt_trans _ _ _ h1 h2

theorem Desc.keyLt_trichotomy (d : Desc α) (x y : α) :
    d.key x = d.key y ∨ d.keyLt x y = true ∨ d.keyLt y x = true := by
  unfold Desc.keyLt
  rcases optLt_trichotomy (d.key x) (d.key y) with h | h | h
  · exact .inl h
  · cases d.asc <;> simp [h]
  · cases d.asc <;> simp [h]

theorem Desc.keyLt_congr_left (d : Desc α) {x x' : α} (y : α) (h : d.key x = d.key x') :
    d.keyLt x y = d.keyLt x' y := by simp [Desc.keyLt, h]

theorem Desc.keyLt_congr_right (d : Desc α) (x : α) {y y' : α} (h : d.key y = d.key y') :
    d.keyLt x y = d.keyLt x y' := by simp [Desc.keyLt, h]

theorem lexLt_cons (d : Desc α) (ds : List (Desc α)) (x y : α) :
    lexLt (d :: ds) x y = (d.keyLt x y || (d.key x == d.key y && lexLt ds x y)) := rfl

/-- `_compareBySortDescriptors(x, y, d :: rest, 0) < 0` iff `x` is lexicographically before `y` -/
theorem compare_neg_iff (x y : α) : ∀ (rest : List (Desc α)) (d : Desc α),
    compareBySortDescriptors d rest x y < 0 ↔ lexLt (d :: rest) x y = true
  | [], d => by
    rw [compare_unfold]
    rcases levelCmp_spec d x y with ⟨h1, h2⟩ | ⟨h1, h2⟩ | ⟨h1, h2⟩
    · simp [lexLt, h1, h2]
    · simp [lexLt, h2, d.keyLt_of_key_eq h1]
    · simp [lexLt, h2, d.keyLt_asymm h1]
  | d' :: rest', d => by
    rw [compare_unfold]
    have ih := compare_neg_iff x y rest' d'
    rcases levelCmp_spec d x y with ⟨h1, h2⟩ | ⟨h1, h2⟩ | ⟨h1, h2⟩
    · simp [lexLt, h1, h2]
    · simp only [h2, if_true, ih]
      rw [lexLt_cons d (d' :: rest') x y]
      simp [d.keyLt_of_key_eq h1, h1]
    · have hne : d.key x ≠ d.key y := by
        intro e; have := d.keyLt_of_key_eq e.symm; rw [h1] at this; cases this
      rw [lexLt_cons d (d' :: rest') x y]
      simp [h2, d.keyLt_asymm h1, hne]

theorem descLess_eq_lexLt (ds : List (Desc α)) : descLess ds = lexLt ds := by
  funext x y
  cases ds with
  | nil => rfl
  | cons d rest =>
    simp only [descLess]
    rw [Bool.eq_iff_iff, decide_eq_true_iff]
    exact compare_neg_iff x y rest d

/-! ### the lexicographic key order is a strict weak order -/

theorem lexLt_irrefl : ∀ (ds : List (Desc α)) (x : α), lexLt ds x x = false
  | [], _ => rfl
  | d :: ds, x => by simp [lexLt, d.keyLt_irrefl, lexLt_irrefl ds x]

theorem lexLt_cases {d : Desc α} {ds : List (Desc α)} {x y : α} (h : lexLt (d :: ds) x y = true) :
    d.keyLt x y = true ∨ (d.key x = d.key y ∧ lexLt ds x y = true) := by
  simpa [lexLt] using h

theorem lexLt_trans : ∀ (ds : List (Desc α)) (x y z : α),
    lexLt ds x y = true → lexLt ds y z = true → lexLt ds x z = true
  | [], _, _, _, h, _ => by simp [lexLt] at h
  | d :: ds, x, y, z, h1, h2 => by
    rcases lexLt_cases h1 with a | ⟨a, a'⟩ <;> rcases lexLt_cases h2 with b | ⟨b, b'⟩
    · simp [lexLt, d.keyLt_trans a b]
    · simp [lexLt, ← d.keyLt_congr_right x b, a]
    · simp [lexLt, d.keyLt_congr_left z a, b]
    · simp [lexLt, a.trans b, lexLt_trans ds x y z a' b']

theorem lexLt_negTrans : ∀ (ds : List (Desc α)) (x y z : α),
    lexLt ds x y = true → lexLt ds x z = true ∨ lexLt ds z y = true
  | [], _, _, _, h => by simp [lexLt] at h
  | d :: ds, x, y, z, h => by
    rcases d.keyLt_trichotomy x z with e | e | e
    · -- z ties with x at this level
      rcases lexLt_cases h with a | ⟨a, a'⟩
      · exact .inr (by simp [lexLt, ← d.keyLt_congr_left y e, a])
      · rcases lexLt_negTrans ds x y z a' with r | r
        · exact .inl (by simp [lexLt, e, r])
        · exact .inr (by simp [lexLt, e.symm.trans a, r])
    · exact .inl (by simp [lexLt, e])
    · -- z strictly before x
      rcases lexLt_cases h with a | ⟨a, _⟩
      · exact .inr (by simp [lexLt, d.keyLt_trans e a])
      · exact .inr (by simp [lexLt, ← d.keyLt_congr_right z a, e])

theorem lexLt_strictWeak (ds : List (Desc α)) : StrictWeak (lexLt ds) :=
  ⟨lexLt_irrefl ds, lexLt_trans ds, lexLt_negTrans ds⟩

/-- descriptors lifted to tagged records compare the records -/
theorem lexLt_liftDesc : ∀ (ds : List (Desc Rec)) (p q : Nat × Rec),
    lexLt (ds.map liftDesc) p q = lexLt ds p.2 q.2
  | [], _, _ => rfl
  | d :: ds, p, q => by
    simp [lexLt, lexLt_liftDesc ds p q, liftDesc, Desc.keyLt]

theorem descLess_liftDesc (ds : List (Desc Rec)) : descLess (ds.map liftDesc) = liftLess (lexLt ds) := by
  rw [descLess_eq_lexLt]; funext p q; exact lexLt_liftDesc ds p q

end FpgoVerif.C19
