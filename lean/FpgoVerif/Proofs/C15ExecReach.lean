import FpgoVerif.Proofs.C15Exec
import FpgoVerif.Model.C15
/-! The four component systems are closed under what the executor does: `Reach` is an executor invariant. -/
namespace FpgoVerif.C15

/-- the states of a directed schedule, exactly as `Exec.run` (= `handle`) folds them -/
def execStates {σ PC : Type} (ops : Ops σ PC) (e0 : Exec σ PC) (steps : List String) : Exec σ PC × List String :=
  steps.foldl (fun (acc : Exec σ PC × List String) tok =>
    let (e, o) := Exec.execStep ops acc.1 tok
    (e, o :: acc.2)) (e0, [])

theorem Mb.closed (comp : String) (cap : Nat) : Exec.Closed (Mb.ops comp) (Mb.Reach cap true) where
  gstep := fun {_ pc ch _ _} hr hg => Mb.Reach.step pc ch hr hg
  spawn := fun {_ pc _} hr hs => Mb.Reach.spawn pc hr hs
  gate := fun hr => Mb.Reach.gate hr
  compact := fun {s} hr => by show Mb.Reach cap true (Mb.compact s); rw [Mb.compact_eq]; exact hr

theorem Bq.closed (c b : Nat) : Exec.Closed Bq.ops (Bq.Reach c b true true) where
  gstep := fun {_ pc ch _ _} hr hg => Bq.Reach.step pc ch hr hg
  spawn := fun {_ pc _} hr hs => Bq.Reach.spawn pc hr hs
  gate := fun hr => hr
  compact := fun {s} hr => by show Bq.Reach c b true true (Bq.compact s); rw [Bq.compact_eq]; exact hr

theorem Co.closed : Exec.Closed Co.ops (Co.Reach 5 true) where
  gstep := fun {_ pc ch _ _} hr hg => Co.Reach.step pc ch hr hg
  spawn := fun {_ pc _} hr hs => Co.Reach.spawn pc hr hs
  gate := fun hr => hr
  compact := fun {s} hr => by show Co.Reach 5 true (Co.compact s); rw [Co.compact_eq]; exact hr

theorem Pl.closed (cap : Nat) (qc : Bool) : Exec.Closed Pl.ops (Pl.Reach cap qc true) where
  gstep := fun {s pc _ s' nx} hr hg => by
    simp only [Pl.ops] at hg
    cases h : Pl.gstep s pc false with
    | none => simp [h] at hg
    | some p =>
      simp [h] at hg
      obtain ⟨rfl, _⟩ := hg
      exact Pl.Reach.step pc false hr h
  spawn := fun {_ pc _} hr hs => Pl.Reach.spawn pc hr hs
  gate := fun hr => Pl.Reach.gate hr
  compact := fun {s} hr => by show Pl.Reach cap qc true (Pl.compact s); rw [Pl.compact_eq]; exact hr

end FpgoVerif.C15
