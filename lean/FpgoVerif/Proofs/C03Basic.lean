import FpgoVerif.Model.C03Defs
/-! Helper lemmas for C03: checked indexing, `fillLoop`, slices. -/
namespace FpgoVerif.C03

variable {α β κ ν : Type}

@[simp] theorem bind_ok {a b : Type} (x : a) (f : a → Res b) : (Except.ok x >>= f) = f x := rfl
@[simp] theorem pure_eq_ok {a : Type} (x : a) : (pure x : Res a) = .ok x := rfl

theorem getN_append_cons (pre : List α) (x : α) (rest : List α) :
    getN (pre ++ x :: rest) pre.length = .ok x := by
  simp [getN]

theorem getN_of_eq (l pre : List α) (x : α) (rest : List α) (i : Nat) (hl : l = pre ++ x :: rest)
    (hi : i = pre.length) : getN l i = .ok x := by
  subst hl hi; exact getN_append_cons _ _ _

theorem setN_append_cons (pre : List α) (a v : α) (post : List α) :
    setN (pre ++ a :: post) pre.length v = .ok (pre ++ v :: post) := by
  simp [setN]

theorem fillLoop_spec (g : α → Nat → β) (src : List α) (base j : Nat) (pre mid post : List β)
    (hpre : pre.length = base + j) (hmid : mid.length = src.length) :
    fillLoop g src base j (pre ++ mid ++ post)
      = .ok (pre ++ (src.zipIdx j).map (fun p => g p.1 p.2) ++ post) := by
  induction src generalizing j pre mid with
  | nil =>
    cases mid with
    | nil => simp [fillLoop]
    | cons _ _ => simp at hmid
  | cons x rest ih =>
    cases mid with
    | nil => simp at hmid
    | cons m mid' =>
      have h1 : setN (pre ++ m :: mid' ++ post) (base + j) (g x j) = .ok (pre ++ g x j :: (mid' ++ post)) := by
        rw [← hpre]
        have := setN_append_cons pre m (g x j) (mid' ++ post)
        simpa using this
      have h2 := ih (j + 1) (pre ++ [g x j]) mid' (by simp [hpre]; omega) (by simpa using hmid)
      simp only [fillLoop, h1, bind_ok]
      simpa [List.zipIdx_cons] using h2

theorem map_zipIdx_fst (h : α → β) (l : List α) (k : Nat) :
    (l.zipIdx k).map (fun p => h p.1) = l.map h := by
  induction l generalizing k with
  | nil => rfl
  | cons x t ih => simp [List.zipIdx_cons, ih]

theorem fillLoop_whole (g : α → Nat → β) (src : List α) (z : β) :
    fillLoop g src 0 0 (mk src.length z) = .ok ((src.zipIdx 0).map (fun p => g p.1 p.2)) := by
  have := fillLoop_spec g src 0 0 [] (mk src.length z) [] rfl (by simp [mk])
  simpa using this

end FpgoVerif.C03
