import FpgoVerif.Proofs.C01Lemmas
/-! Hypotheses of the C01 `Clone` / totality theorems (`HasTy`, `PointeeOK`, `WF`) and the helper lemmas about
    `Clone`, `CloneTo` and `ToPtr` they rest on (moved out of `Props/C01.lean`, which holds the property theorems only). -/

set_option linter.unusedSimpArgs false

namespace FpgoVerif.C01
open Spec

local notation "Heap" => List GoVal

/-- `v` is a legal value of the static type `T` (what the Go type checker guarantees for `JustGenerics[T](v)`) -/
def HasTy (T : Ty) (v : GoVal) : Prop :=
  implementsTy T v = true ∨ (v = .nil ∧ (T = .any ∨ ∃ U, T = .maybe U))

/-- a cell of type `t` holds: a value of dynamic type `t`, or — `t` an interface type — nil or a value implementing `t` -/
def PointeeOK (t : Ty) (x : GoVal) : Prop :=
  if isIfaceTy t then (x = .nil ∨ implementsTy t x = true) else typeOf? x = some t

/-- a non-nil pointer points to a live cell holding a value of its element type -/
def WF (h : Heap) (v : GoVal) : Prop :=
  ∀ t a, v = .ptr t (some a) → ∃ x, h[a]? = some x ∧ PointeeOK t x

theorem implementsTy_ptr (T t : Ty) (a b : Option Nat) : implementsTy T (.ptr t a) = implementsTy T (.ptr t b) := by
  have hn : ∀ a, (GoVal.ptr t a != GoVal.nil) = true := by intro a; simp
  cases T <;> simp [implementsTy, typeOf?, hn]

/-- cloning a Maybe whose value is not a non-nil pointer returns the very same Maybe and touches nothing -/
theorem clone_nonptr (c : Ctor) (v : GoVal) (h : Heap) (hty : HasTy c.param v) (hnp : ∀ t a, v ≠ .ptr t (some a)) :
    (built c v).clone h = .ok (h, built c v) := by
  cases hab : absent v
  · have hne : v ≠ .nil := not_absent_ne_nil hab
    have himp : implementsTy c.param v = true := by
      rcases hty with h1 | ⟨h1, _⟩
      · exact h1
      · exact absurd h1 hne
    have hb : built c v = .some c.param v false true := by cases c <;> simp [built, hab, Ctor.param]
    rw [hb]
    cases v with
    | nil => exact absurd rfl hne
    | ptr t p =>
      cases p with
      | none => simp [absent] at hab
      | some a => exact absurd rfl (hnp t a)
    | _ =>
      simp [MaybeV.clone, cloneTo, MaybeV.isNil, MaybeV.unwrap, valueOf, RV.kind, kindOf, RV.interface, assertTy, himp,
        justGenerics_eq, hab, bind, Except.bind, pure, Except.pure]
  · cases c with
    | just => simp [built, hab, MaybeV.clone, pure, Except.pure]
    | generics T =>
      simp [built, hab, MaybeV.clone, cloneTo, MaybeV.isNil, MaybeV.unwrap, justGenerics_eq, bind, Except.bind, pure, Except.pure]

theorem built_param (c : Ctor) (v : GoVal) : (built c v).param = c.param := by
  cases c with
  | just => cases hab : absent v <;> simp [built, hab, MaybeV.param, Ctor.param]
  | generics T => rfl

theorem toPtr_ok (c : Ctor) (v : GoVal) (h : Heap) (hwf : WF h v) : ∃ r, (built c v).toPtr h = .ok r := by
  cases hab : absent v
  · have hb : built c v = .some c.param v false true := by cases c <;> simp [built, hab, Ctor.param]
    rw [hb]
    cases v with
    | ptr t p =>
      cases p with
      | none => simp [absent] at hab
      | some a =>
        obtain ⟨x, hx, _⟩ := hwf t a rfl
        cases hif : isIfaceTy t <;>
        · simp only [MaybeV.toPtr, fpIsPtr, fpKind, valueOf, RV.kind, kindOf, indirect, RV.elem, hx, hif, RV.interface, bind,
            Except.bind, pure, Except.pure, Bool.not_false, Bool.and_true, decide_true, if_true, Bool.false_eq_true, if_false]
          split
          · exact ⟨_, rfl⟩
          · split <;> exact ⟨_, rfl⟩
    | _ => exact ⟨_, rfl⟩
  · cases c with
    | just => simp [built, hab, MaybeV.toPtr, pure, Except.pure]
    | generics T => simp [built, hab, MaybeV.toPtr, pure, Except.pure]

/-- `CloneTo` of a Maybe whose value is not a non-nil pointer never looks at the destination -/
theorem cloneTo_nonptr (c : Ctor) (v d : GoVal) (h : Heap) (hty : HasTy c.param v) (hnp : ∀ t a, v ≠ .ptr t (some a)) :
    ∃ r, cloneTo h c.param (built c v) d = .ok r := by
  cases hab : absent v
  · have hne : v ≠ .nil := not_absent_ne_nil hab
    have himp : implementsTy c.param v = true := by
      rcases hty with h1 | ⟨h1, _⟩
      · exact h1
      · exact absurd h1 hne
    have hb : built c v = .some c.param v false true := by cases c <;> simp [built, hab, Ctor.param]
    rw [hb]
    cases v with
    | nil => exact absurd rfl hne
    | ptr t p =>
      cases p with
      | none => simp [absent] at hab
      | some a => exact absurd rfl (hnp t a)
    | _ =>
      simp [cloneTo, MaybeV.isNil, MaybeV.unwrap, valueOf, RV.kind, kindOf, RV.interface, assertTy, himp,
        justGenerics_eq, bind, Except.bind, pure, Except.pure]
  · cases c with
    | just => simp [built, hab, cloneTo, MaybeV.isNil, MaybeV.unwrap, justGenerics_eq, bind, Except.bind, pure, Except.pure]
    | generics T =>
      simp [built, hab, cloneTo, MaybeV.isNil, MaybeV.unwrap, justGenerics_eq, bind, Except.bind, pure, Except.pure]

/-- `CloneTo` of a non-nil pointer into any destination of the same static type: nil / not a pointer (a fresh copy is
    returned) or a live pointer of the same pointer type (the copy is written through it) -/
theorem cloneTo_ptr_ok (T t : Ty) (a : Nat) (h : Heap) (d x : GoVal) (hx : h[a]? = some x) (hok : PointeeOK t x)
    (himp : implementsTy T (.ptr t (some a)) = true) (hwd : WF h d)
    (hsame : ∀ t' b, d = .ptr t' (some b) → t' = t) :
    ∃ r, cloneTo h T (.some T (.ptr t (some a)) false true) d = .ok r := by
  have ha : a < h.length := by
    rcases Nat.lt_or_ge a h.length with h1 | h1
    · exact h1
    · rw [List.getElem?_eq_none h1] at hx; cases hx
  have himp' : implementsTy T (.ptr t (some h.length)) = true := by
    rw [implementsTy_ptr _ _ _ (some a)]; exact himp
  cases hif : isIfaceTy t
  · -- pointer to a variable of a concrete type
    have hxt : typeOf? x = some t := by simpa [PointeeOK, hif] using hok
    have hz : typeOf? (zeroOf t) = some t := by
      cases x <;> simp [typeOf?] at hxt <;> subst hxt <;> rfl
    cases d with
    | ptr t' p =>
      cases p with
      | none =>
        simp [cloneTo, MaybeV.isNil, MaybeV.unwrap, valueOf, RV.kind, kindOf, RV.elem, hx, hif, RV.type, hxt, rvNew, RV.set, hz,
          RV.isNil, RV.interface, assertTy, himp', justGenerics_eq, bind, Except.bind, pure, Except.pure]
      | some b =>
        obtain ⟨y, hy, hyok⟩ := hwd t' b rfl
        have ht' : t' = t := hsame t' b rfl
        subst ht'
        have hyt : typeOf? y = some t' := by simpa [PointeeOK, hif] using hyok
        have hb : b < h.length := by
          rcases Nat.lt_or_ge b h.length with h1 | h1
          · exact h1
          · rw [List.getElem?_eq_none h1] at hy; cases hy
        have hfr' : (h ++ [x])[b]? = some y := by rw [List.getElem?_append_left hb]; exact hy
        simp [cloneTo, MaybeV.isNil, MaybeV.unwrap, valueOf, RV.kind, kindOf, RV.elem, hx, hif, RV.type, hxt, rvNew, RV.set, hz,
          RV.isNil, hfr', hyt, justGenerics_eq, bind, Except.bind, pure, Except.pure]
    | _ =>
      simp [cloneTo, MaybeV.isNil, MaybeV.unwrap, valueOf, RV.kind, kindOf, RV.elem, hx, hif, RV.type, hxt, rvNew, RV.set, hz,
        RV.isNil, RV.interface, assertTy, himp', justGenerics_eq, bind, Except.bind, pure, Except.pure]
  · -- pointer to an interface-typed variable: the Values involved are of kind Interface
    cases d with
    | ptr t' p =>
      cases p with
      | none =>
        simp [cloneTo, MaybeV.isNil, MaybeV.unwrap, valueOf, RV.kind, kindOf, RV.elem, hx, hif, RV.type, rvNew, RV.set,
          RV.isNil, RV.interface, assertTy, himp', justGenerics_eq, bind, Except.bind, pure, Except.pure]
      | some b =>
        obtain ⟨y, hy, _⟩ := hwd t' b rfl
        have ht' : t' = t := hsame t' b rfl
        subst ht'
        have hb : b < h.length := by
          rcases Nat.lt_or_ge b h.length with h1 | h1
          · exact h1
          · rw [List.getElem?_eq_none h1] at hy; cases hy
        have hfr' : (h ++ [x])[b]? = some y := by rw [List.getElem?_append_left hb]; exact hy
        simp [cloneTo, MaybeV.isNil, MaybeV.unwrap, valueOf, RV.kind, kindOf, RV.elem, hx, hif, RV.type, rvNew, RV.set,
          RV.isNil, hfr', justGenerics_eq, bind, Except.bind, pure, Except.pure]
    | _ =>
      simp [cloneTo, MaybeV.isNil, MaybeV.unwrap, valueOf, RV.kind, kindOf, RV.elem, hx, hif, RV.type, rvNew, RV.set,
        RV.isNil, RV.interface, assertTy, himp', justGenerics_eq, bind, Except.bind, pure, Except.pure]


end FpgoVerif.C01
