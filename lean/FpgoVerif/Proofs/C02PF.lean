import FpgoVerif.Proofs.C02StrF
/-! C02 — the function the driver runs, `goStrconv.parseFloat` (= `goParseFloat`), satisfies `ParseFloatContract`:
    everything except `repr` follows from the shape of `goParseFloat` (a numeral is `parseRounded` of its exact
    rational value) and `roundRat_isFin`; `repr` is the idempotence of round-to-nearest-even (`RoundIdem`). -/
namespace FpgoVerif.C02

theorem normFin_cases (neg : Bool) (m k : Nat) : ∃ m' k', normFin neg m k = .fin neg m' k' := by
  induction k generalizing m with
  | zero => exact ⟨m, 0, rfl⟩
  | succ k ih =>
    unfold normFin
    split
    · exact ih _
    · exact ⟨m, k + 1, rfl⟩

/-- `roundRat` yields a finite value of the same sign or the infinity of the same sign, never NaN -/
theorem roundRat_cases (f : Fmt) (neg : Bool) (num den : Nat) :
    (∃ m k, roundRat f neg num den = .fin neg m k) ∨ roundRat f neg num den = .inf neg := by
  unfold roundRat
  split
  · exact Or.inl ⟨0, 0, rfl⟩
  · simp only
    split
    · split
      · exact Or.inr rfl
      · exact Or.inl ⟨_, 0, rfl⟩
    · exact Or.inl (normFin_cases _ _ _)

theorem parseRounded_val (f : Fmt) (s : Bool) (n d : Nat) : ∃ y, (parseRounded f s n d).val = .f64 y := by
  unfold parseRounded
  split <;> exact ⟨_, rfl⟩

theorem parseRounded_ok (f : Fmt) (s : Bool) (n d : Nat) (y : FVal) (he : (parseRounded f s n d).err = .ok)
    (hy : (parseRounded f s n d).val = .f64 y) : y = roundRat f s n d ∧ y.isFin = true := by
  unfold parseRounded at he hy
  rcases roundRat_cases f s n d with ⟨m, k, h⟩ | h
  · rw [h] at he hy ⊢
    simp at hy
    exact ⟨hy.symm, by rw [← hy]; rfl⟩
  · rw [h] at he
    simp at he

theorem parseRounded_fits (f : Fmt) (hf : f = f32 ∨ f = f64) (s : Bool) (n d : Nat) (hd : 0 < d)
    (h : n ≤ f.maxFinite * d) : (parseRounded f s n d).err = .ok := by
  have hfin := roundRat_isFin f hf s n d hd h
  unfold parseRounded
  rcases roundRat_cases f s n d with ⟨m, k, h'⟩ | h'
  · rw [h']
  · rw [h'] at hfin; simp [FVal.isFin] at hfin

theorem goParseFloat_rat (bits : Nat) (w : String) (s : Bool) (n d : Nat) (h : decimalRat w = some (s, n, d)) :
    goParseFloat bits w = parseRounded (if bits = 32 then f32 else f64) s n d := by
  simp [goParseFloat, h]

/-- a numeral with an absurd exponent: zero, overflow, or the exact rounding -/
theorem goParseFloat_absurd (bits : Nat) (w : String) (neg : Bool) (n len : Nat) (e : Int)
    (hd : decimalRat w = none) (hs : decimalSyntax w = some (neg, n, len, e)) :
    goParseFloat bits w = ⟨.f64 (.fin neg 0 0), .ok⟩ ∨ goParseFloat bits w = ⟨.f64 (.inf neg), .other⟩ ∨
    goParseFloat bits w = parseRounded (if bits = 32 then f32 else f64) neg n (10 ^ (-e).toNat) := by
  simp only [goParseFloat, hd, hs]
  by_cases h0 : n = 0
  · left; simp [h0]
  · by_cases h1 : e > 0
    · right; left; simp [h0, h1]
    · by_cases h2 : (len : Int) + e < -400
      · left; simp [h0, h1, h2]
      · right; right; simp [h0, h1, h2]

/-- not a decimal numeral: an "inf"/"nan" spelling or a syntax error -/
theorem goParseFloat_nosyntax (bits : Nat) (w : String) (hd : decimalRat w = none) (hs : decimalSyntax w = none) :
    (∃ t, goParseFloat bits w = ⟨.f64 (.inf t), .ok⟩) ∨ goParseFloat bits w = ⟨.f64 .nan, .ok⟩ ∨
    goParseFloat bits w = ⟨.f64 (.fin false 0 0), .other⟩ := by
  simp only [goParseFloat, hd, hs]
  generalize signSplit w.toList = t
  obtain ⟨neg, signed, body⟩ := t
  by_cases h1 : lower body = "inf".toList ∨ lower body = "infinity".toList
  · left; exact ⟨neg, if_pos h1⟩
  · by_cases h2 : lower body = "nan".toList ∧ (!signed) = true
    · right; left; rw [if_neg h1, if_pos h2]
    · right; right; rw [if_neg h1, if_neg h2]

/-- Round-to-nearest-even is idempotent: re-rounding a rounded value to the same format does not change it. -/
def RoundIdem (f : Fmt) : Prop :=
  ∀ (s : Bool) (n d : Nat), 0 < d → sameFloat ((roundRat f s n d).roundTo f) (roundRat f s n d) = true

theorem goParseFloat_contract_of (bits : Nat) (f : Fmt) (hb : (bits = 32 ∧ f = f32) ∨ (bits = 64 ∧ f = f64))
    (hidem : f = f32 → RoundIdem f32) : ParseFloatContract f (goParseFloat bits) := by
  have hf : (if bits = 32 then f32 else f64) = f := by
    rcases hb with ⟨rfl, rfl⟩ | ⟨rfl, rfl⟩ <;> simp
  have hf' : f = f32 ∨ f = f64 := by rcases hb with ⟨_, h⟩ | ⟨_, h⟩ <;> simp [h]
  refine ⟨?_, ?_, ?_, ?_, ?_⟩
  · -- val
    intro w
    cases hd : decimalRat w with
    | some snd =>
      obtain ⟨s, n, d⟩ := snd
      rw [goParseFloat_rat bits w s n d hd]
      exact parseRounded_val _ _ _ _
    | none =>
      cases hs : decimalSyntax w with
      | some v =>
        obtain ⟨neg, n, len, e⟩ := v
        rcases goParseFloat_absurd bits w neg n len e hd hs with h | h | h <;> rw [h]
        · exact ⟨_, rfl⟩
        · exact ⟨_, rfl⟩
        · exact parseRounded_val _ _ _ _
      | none =>
        rcases goParseFloat_nosyntax bits w hd hs with ⟨t, h⟩ | h | h <;> rw [h] <;> exact ⟨_, rfl⟩
  · -- exact
    intro w s n d y hd he hy
    rw [goParseFloat_rat bits w s n d hd, hf] at he hy
    obtain ⟨rfl, hfin⟩ := parseRounded_ok f s n d y he hy
    exact ⟨sameFloat_refl _, hfin⟩
  · -- fits
    intro w s n d hd hfit
    rw [goParseFloat_rat bits w s n d hd, hf]
    exact parseRounded_fits f hf' s n d (decimalRat_den_pos hd) hfit
  · -- repr
    intro h32 w y he hy
    subst h32
    have hidem := hidem rfl
    have hzero : ∀ neg, sameFloat ((FVal.fin neg 0 0).roundTo f32) (.fin neg 0 0) = true := by
      intro neg; cases neg <;> decide
    cases hd : decimalRat w with
    | some snd =>
      obtain ⟨s, n, d⟩ := snd
      rw [goParseFloat_rat bits w s n d hd, hf] at he hy
      obtain ⟨rfl, _⟩ := parseRounded_ok f32 s n d y he hy
      exact hidem s n d (decimalRat_den_pos hd)
    | none =>
      cases hs : decimalSyntax w with
      | some v =>
        obtain ⟨neg, n, len, e⟩ := v
        rcases goParseFloat_absurd bits w neg n len e hd hs with h | h | h <;> rw [h] at he hy
        · have : y = .fin neg 0 0 := by simpa using hy.symm
          rw [this]; exact hzero neg
        · simp at he
        · rw [hf] at he hy
          obtain ⟨rfl, _⟩ := parseRounded_ok f32 neg n _ y he hy
          exact hidem neg n _ (Nat.pow_pos (by decide))
      | none =>
        rcases goParseFloat_nosyntax bits w hd hs with ⟨t, h⟩ | h | h <;> rw [h] at he hy
        · have : y = .inf t := by simpa using hy.symm
          rw [this]; simp [FVal.roundTo, sameFloat]
        · have : y = .nan := by simpa using hy.symm
          rw [this]; simp [FVal.roundTo, sameFloat]
        · simp at he
  · -- nonnum
    intro w y hd hlo he hy
    have hs : decimalSyntax w = none := by
      unfold leftOpen at hlo
      simp only [Bool.or_eq_false_iff] at hlo
      cases h : decimalSyntax w with
      | none => rfl
      | some v => simp [h] at hlo
    rcases goParseFloat_nosyntax bits w hd hs with ⟨t, h⟩ | h | h <;> rw [h] at he hy
    · have : y = .inf t := by simpa using hy.symm
      rw [this]; rfl
    · have : y = .nan := by simpa using hy.symm
      rw [this]; rfl
    · simp at he

/-- binary64: the full contract, no hypothesis (`repr` only concerns 32 bits) -/
theorem goStrconv_parseFloat64_contract : ParseFloatContract f64 (goStrconv.parseFloat 64) :=
  goParseFloat_contract_of 64 f64 (Or.inr ⟨rfl, rfl⟩) (by intro h; simp [f32, f64] at h)

end FpgoVerif.C02
