import FpgoVerif.Model.C19
/-! Helper lemmas for C19: generic facts about `sortBy` (stable sort under a strict weak order). -/
namespace FpgoVerif.C19

variable {α : Type}

theorem StrictWeak.irrefl {less : α → α → Bool} (h : StrictWeak less) (a : α) : less a a = false := h.1 a

theorem StrictWeak.trans {less : α → α → Bool} (h : StrictWeak less) {a b c : α}
    (hab : less a b = true) (hbc : less b c = true) : less a c = true := h.2.1 a b c hab hbc

theorem StrictWeak.negTrans {less : α → α → Bool} (h : StrictWeak less) {a b : α} (c : α)
    (hab : less a b = true) : less a c = true ∨ less c b = true := h.2.2 a b c hab

theorem StrictWeak.asymm {less : α → α → Bool} (h : StrictWeak less) {a b : α}
    (hab : less a b = true) : less b a = false := by
  cases hba : less b a with
  | false => rfl
  | true => have := h.trans hab hba; rw [h.irrefl] at this; cases this

/-- `le a b := !less b a` is transitive -/
theorem StrictWeak.le_trans {less : α → α → Bool} (h : StrictWeak less) (a b c : α)
    (hab : (!less b a) = true) (hbc : (!less c b) = true) : (!less c a) = true := by
  cases hca : less c a with
  | false => rfl
  | true =>
    rcases h.negTrans b hca with h1 | h1
    · rw [h1] at hbc; cases hbc
    · rw [h1] at hab; cases hab

/-- `le a b := !less b a` is total -/
theorem StrictWeak.le_total {less : α → α → Bool} (h : StrictWeak less) (a b : α) :
    ((!less b a) || (!less a b)) = true := by
  cases hba : less b a with
  | false => rfl
  | true => simp [h.asymm hba]

theorem equivBy_refl {less : α → α → Bool} (h : StrictWeak less) (a : α) : equivBy less a a = true := by
  simp [equivBy, h.irrefl]

theorem equivBy_symm {less : α → α → Bool} {a b : α} (hab : equivBy less a b = true) :
    equivBy less b a = true := by
  simp [equivBy] at *; exact ⟨hab.2, hab.1⟩

/-- two elements equivalent to the same `x` are not ordered strictly -/
theorem not_less_of_equiv {less : α → α → Bool} (h : StrictWeak less) {x a b : α}
    (ha : equivBy less x a = true) (hb : equivBy less x b = true) : less b a = false := by
  simp [equivBy] at ha hb
  cases hba : less b a with
  | false => rfl
  | true =>
    rcases h.negTrans x hba with h1 | h1
    · rw [hb.2] at h1; cases h1
    · rw [ha.1] at h1; cases h1

theorem sortBy_perm (less : α → α → Bool) (l : List α) : (sortBy less l).Perm l :=
  List.mergeSort_perm l _

theorem sortBy_pairwise {less : α → α → Bool} (h : StrictWeak less) (l : List α) :
    (sortBy less l).Pairwise (fun a b => less b a = false) := by
  have := List.pairwise_mergeSort (le := fun a b => !less b a) (h.le_trans) (h.le_total) l
  refine this.imp ?_
  intro a b hab
  simpa using hab

/-- stability: every class of elements the comparator does not distinguish keeps its input order -/
theorem sortBy_filter_equiv {less : α → α → Bool} (h : StrictWeak less) (l : List α) (x : α) :
    (sortBy less l).filter (equivBy less x) = l.filter (equivBy less x) := by
  have hpw : (l.filter (equivBy less x)).Pairwise (fun a b => (!less b a) = true) := by
    rw [List.pairwise_filter]
    apply List.Pairwise.imp_of_mem (R := fun _ _ => True)
    · intro a b _ _ _ ha hb
      simp [not_less_of_equiv h ha hb]
    · exact List.pairwise_of_forall (fun _ _ => trivial)
  have hsub : (l.filter (equivBy less x)).Sublist (sortBy less l) :=
    List.sublist_mergeSort (le := fun a b => !less b a) h.le_trans h.le_total hpw List.filter_sublist
  have hsub2 := hsub.filter (equivBy less x)
  rw [List.filter_filter] at hsub2
  simp only [Bool.and_self] at hsub2
  have hlen : (l.filter (equivBy less x)).length = ((sortBy less l).filter (equivBy less x)).length :=
    ((sortBy_perm less l).filter _).length_eq.symm
  exact (hsub2.eq_of_length hlen).symm

theorem equivBy_trans {less : α → α → Bool} (h : StrictWeak less) {x a b : α}
    (ha : equivBy less x a = true) (hb : equivBy less x b = true) : equivBy less a b = true := by
  simp [equivBy, not_less_of_equiv h ha hb, not_less_of_equiv h hb ha]

/-- stability in position form: if the input carries strictly increasing indices, elements the
    comparator does not distinguish appear with increasing indices in the output -/
theorem sortBy_stable_idx {less : α → α → Bool} (h : StrictWeak less) (idx : α → Nat) (l : List α)
    (hl : l.Pairwise (fun a b => idx a < idx b)) :
    (sortBy less l).Pairwise (fun a b => equivBy less a b = true → idx a < idx b) := by
  rw [List.pairwise_iff_forall_sublist]
  intro p q hsub he
  have hs := hsub.filter (equivBy less p)
  rw [sortBy_filter_equiv h] at hs
  rw [List.filter_cons_of_pos (equivBy_refl h p), List.filter_cons_of_pos he, List.filter_nil] at hs
  exact (List.pairwise_iff_forall_sublist.mp hl) (hs.trans List.filter_sublist)

/-- conversely: an output that is a permutation of an increasingly indexed input and keeps
    indistinguishable elements in index order keeps every class in input order -/
theorem filter_equiv_of_stable_idx {less : α → α → Bool} (h : StrictWeak less) (idx : α → Nat) (l r : List α)
    (hl : l.Pairwise (fun a b => idx a < idx b)) (hperm : r.Perm l)
    (hr : r.Pairwise (fun a b => equivBy less a b = true → idx a < idx b)) (x : α) :
    r.filter (equivBy less x) = l.filter (equivBy less x) := by
  apply List.Perm.eq_of_pairwise (le := fun a b => idx a < idx b)
  · intro a b _ _ h1 h2; omega
  · rw [List.pairwise_filter]
    refine hr.imp ?_
    intro a b hab ha hb
    exact hab (equivBy_trans h ha hb)
  · exact hl.sublist List.filter_sublist
  · exact hperm.filter _

/-- A sorted (w.r.t. a strict weak order), class-wise order-preserving permutation is unique. -/
theorem stable_sorted_unique {less : α → α → Bool} (h : StrictWeak less) :
    ∀ (r₁ r₂ : List α), r₁.Perm r₂ →
      r₁.Pairwise (fun a b => less b a = false) → r₂.Pairwise (fun a b => less b a = false) →
      (∀ x, r₁.filter (equivBy less x) = r₂.filter (equivBy less x)) → r₁ = r₂
  | [], r₂, hp, _, _, _ => by simpa using hp.symm.eq_nil
  | a :: t₁, [], hp, _, _, _ => by simpa using hp.eq_nil
  | a :: t₁, b :: t₂, hp, h1, h2, hf => by
    have h1' := List.pairwise_cons.mp h1
    have h2' := List.pairwise_cons.mp h2
    -- a and b are equivalent
    have hba : less b a = false := by
      have hb : b ∈ a :: t₁ := hp.symm.subset List.mem_cons_self
      rcases List.mem_cons.mp hb with rfl | hb
      · exact h.irrefl _
      · exact h1'.1 b hb
    have hab : less a b = false := by
      have ha : a ∈ b :: t₂ := hp.subset List.mem_cons_self
      rcases List.mem_cons.mp ha with rfl | ha
      · exact h.irrefl _
      · exact h2'.1 a ha
    have hfa := hf a
    have e1 : equivBy less a a = true := equivBy_refl h a
    have e2 : equivBy less a b = true := by simp [equivBy, hab, hba]
    rw [List.filter_cons_of_pos e1, List.filter_cons_of_pos e2] at hfa
    have hab_eq : a = b := (List.cons.inj hfa).1
    subst hab_eq
    have ht : t₁ = t₂ := by
      apply stable_sorted_unique h t₁ t₂ hp.cons_inv h1'.2 h2'.2
      intro x
      have := hf x
      by_cases hx : equivBy less x a = true
      · rw [List.filter_cons_of_pos hx, List.filter_cons_of_pos hx] at this
        exact (List.cons.inj this).2
      · rw [List.filter_cons_of_neg hx, List.filter_cons_of_neg hx] at this
        exact this
    rw [ht]

end FpgoVerif.C19
