import FpgoVerif.Proofs.C04Sort
/-! C04 — contents of StreamSet results: refinement from maps of stream POINTERS to maps of element sequences. -/
namespace FpgoVerif.C04
open World

/-- the entries of a map with every stream pointer replaced by the sequence it denotes (unsorted `setContent`) -/
def entriesOf (w : World) (m : AMap) : List (Int × CVal) := m.map (fun kv => (kv.1, cval w kv.2))

/-- the sequence a stored value stands for when a StreamSet operation works on it (nil / non-stream = empty) -/
def strOf : CVal → List Int
  | .str l => l
  | _ => []

/-- the non-empty sequence stored under `k`, if any -/
def nonEmptyC (e : List (Int × CVal)) (k : Int) : Option (List Int) :=
  match Spec.lookup k e with
  | some (.str l) => if l.isEmpty then none else some l
  | _ => none

/-- per-key combination used by Union (`++`), Intersection (`Spec.inter`), MinusStreams (`Spec.minus`) -/
def combineC (opS : List Int → List Int → List Int) (e₂ : List (Int × CVal)) (k : Int) (c : CVal) : CVal :=
  match nonEmptyC e₂ k with
  | some l2 => .str (opS (strOf c) l2)
  | none => c

theorem lookup_map_val {β γ : Type} (h : β → γ) (k : Int) (m : List (Int × β)) :
    Spec.lookup k (m.map (fun kv => (kv.1, h kv.2))) = (Spec.lookup k m).map h := by
  induction m with
  | nil => simp [Spec.lookup]
  | cons a t ih =>
    obtain ⟨ka, va⟩ := a
    simp only [List.map_cons, Spec.lookup]
    by_cases hk : ka = k <;> simp [hk, ih]

theorem strContent_length {w : World} (hw : Wf w) (p : Nat) : (w.strContent p).length = (w.strHdr p).len := by
  have h := strHdr_ok hw p
  simp [strContent, sliceContent, List.length_take, List.length_drop]
  have := h.2.1; have := h.2.2; omega

theorem nonEmptyAt_entries {w : World} (hw : Wf w) (m : AMap) (k : Int) :
    (nonEmptyAt w m k).map w.strContent = nonEmptyC (entriesOf w m) k := by
  unfold nonEmptyAt nonEmptyC entriesOf
  rw [lookup_map_val]
  cases Spec.lookup k m with
  | none => rfl
  | some v =>
    cases v with
    | int n => rfl
    | str o =>
      cases o with
      | none => rfl
      | some q =>
        simp only [valStr, Option.map_some, cval]
        have hl := strContent_length hw q
        by_cases h0 : (w.strHdr q).len > 0
        · have : (w.strContent q).isEmpty = false := by
            cases hc : w.strContent q with
            | nil => rw [hc] at hl; simp at hl; omega
            | cons _ _ => rfl
          simp [h0, this]
        · have : w.strContent q = [] := by
            apply List.eq_nil_of_length_eq_zero; omega
          simp [h0, this]

theorem nonEmptyAt_good {w₀ w : World} (g : Good w₀ w) {m : AMap} (hm : mapOk w₀ m) (k : Int) :
    nonEmptyAt w m k = nonEmptyAt w₀ m k := by
  unfold nonEmptyAt
  cases hl : Spec.lookup k m with
  | none => rfl
  | some v =>
    simp only
    cases hv : valStr v with
    | none => rfl
    | some q =>
      simp only
      rw [strHdr_le g.le (valStr_lt (lookup_ok hm hl) hv)]

theorem orNewStream_content {w : World} (v : Val) :
    (w.orNewStream v).1.strContent (w.orNewStream v).2 = strOf (cval w v) := by
  unfold orNewStream
  cases v with
  | int n => simp [valStr, newNilStream, allocStr, strContent, strHdr, sliceContent, Slice.nil, cval, strOf,
      List.getD_eq_getElem?_getD]
  | str o =>
    cases o with
    | none => simp [valStr, newNilStream, allocStr, strContent, strHdr, sliceContent, Slice.nil, cval, strOf,
        List.getD_eq_getElem?_getD]
    | some q => simp [valStr, cval, strOf]

theorem entriesOf_le {w w' : World} (hw : Wf w) (h : Le w w') {m : AMap} (hm : mapOk w m) :
    entriesOf w' m = entriesOf w m := by
  unfold entriesOf
  apply List.map_congr_left
  intro kv hkv
  rw [cval_le hw h (hm kv hkv)]

/-- content-level companion of `combine_step` -/
theorem combine_content {w₀ : World} (hw₀ : Wf w₀) {m₂ : AMap} (hm₂ : mapOk w₀ m₂)
    (op : World → Nat → Nat → World × Nat) (opS : List Int → List Int → List Int)
    (hop : ∀ w p q, Wf w → p < w.strs.length → q < w.strs.length → StrRes w (op w p q))
    (hopc : ∀ w p q, Wf w → p < w.strs.length → q < w.strs.length → (w.strHdr q).len > 0 →
      (op w p q).1.strContent (op w p q).2 = opS (w.strContent p) (w.strContent q))
    (w : World) (k : Int) (v : Val) (g : Good w₀ w) (hv : valOk w v) :
    let r := (match nonEmptyAt w m₂ k with
      | some v2 => let (w1, v1) := w.orNewStream v
                   let (w2, r) := op w1 v1 v2; (w2, Val.str (some r))
      | none => (w, v))
    cval r.1 r.2 = combineC opS (entriesOf w₀ m₂) k (cval w v) := by
  simp only
  have hne := nonEmptyAt_entries hw₀ m₂ k
  rw [← nonEmptyAt_good g hm₂ k] at hne
  unfold combineC
  rw [← hne]
  cases hq : nonEmptyAt w m₂ k with
  | none => rfl
  | some v2 =>
    simp only [Option.map_some, cval]
    have hv2 := nonEmptyAt_lt (mapOk_le g.le hm₂) hq
    have hv2₀ : v2 < w₀.strs.length := by
      rw [nonEmptyAt_good g hm₂ k] at hq; exact nonEmptyAt_lt hm₂ hq
    have h1 := orNewStream_res g.wf hv
    have hv2' := Nat.lt_of_lt_of_le hv2 h1.1.le.strs.length_le
    have hlen : ((w.orNewStream v).1.strHdr v2).len > 0 := by
      rw [strHdr_le h1.1.le hv2]
      unfold nonEmptyAt at hq
      split at hq
      · split at hq
        · split at hq
          · rename_i hpos; cases hq; exact hpos
          · cases hq
        · cases hq
      · cases hq
    rw [hopc _ _ _ h1.1.wf h1.2 hv2' hlen, orNewStream_content,
      strContent_le g.wf h1.1.le hv2, strContent_le hw₀ g.le hv2₀]
    rfl

/-- entries after rebuilding a map with a step whose content effect is `gC` -/
theorem mapEntriesM_entries {w₀ : World} (f : World → Int → Val → World × Val) (gC : Int → CVal → CVal)
    (hf : ∀ w k v, Good w₀ w → valOk w v → Good w (f w k v).1 ∧ valOk (f w k v).1 (f w k v).2)
    (hc : ∀ w k v, Good w₀ w → valOk w v → cval (f w k v).1 (f w k v).2 = gC k (cval w v)) :
    ∀ (m : AMap) (w : World), Good w₀ w → mapOk w m →
      entriesOf (mapEntriesM f w m).1 (mapEntriesM f w m).2 = (entriesOf w m).map (fun kv => (kv.1, gC kv.1 kv.2)) := by
  intro m
  induction m with
  | nil => intro w _ _; rfl
  | cons a t ih =>
    obtain ⟨k, v⟩ := a
    intro w g hm
    have hv := hm (k, v) (List.mem_cons_self ..)
    have h1 := hf w k v g hv
    have ht : mapOk w t := fun kv hkv => hm kv (List.mem_cons_of_mem _ hkv)
    have ht1 : mapOk (f w k v).1 t := mapOk_le h1.1.le ht
    have h2 := mapEntriesM_res f hf t (f w k v).1 (g.trans h1.1) ht1
    have ih' := ih (f w k v).1 (g.trans h1.1) ht1
    simp only [mapEntriesM, entriesOf, List.map_cons] at ih' ⊢
    rw [cval_le h1.1.wf h2.1.le h1.2, hc w k v g hv]
    congr 1
    rw [ih']
    have := entriesOf_le g.wf h1.1.le ht
    simp only [entriesOf] at this
    rw [this]

theorem hasKey_map_val {β γ : Type} (h : β → γ) (k : Int) (m : List (Int × β)) :
    Spec.hasKey k (m.map (fun kv => (kv.1, h kv.2))) = Spec.hasKey k m := by
  simp [Spec.hasKey, lookup_map_val]

theorem entriesOf_interByKey (w : World) (m₁ m₂ : AMap) :
    entriesOf w (Spec.interByKey m₁ m₂) = Spec.interByKey (entriesOf w m₁) (entriesOf w m₂) := by
  unfold Spec.interByKey entriesOf
  rw [List.filter_map]
  congr 1
  apply List.filter_congr
  intro kv _
  simp [Function.comp, hasKey_map_val]

theorem entriesOf_isEmpty (w : World) (m : AMap) : (entriesOf w m).isEmpty = m.isEmpty := by
  cases m <;> rfl

theorem setMap_newSet_entries {w : World} (hw : Wf w) {m : AMap} (hm : mapOk w m) :
    entriesOf (w.newSet m).1 ((w.newSet m).1.setMap (w.newSet m).2) = entriesOf w m := by
  rw [setMap_newSet]
  exact entriesOf_le hw (newSet_res hw hm).1.le hm

theorem cloneEntries_entries {w : World} (hw : Wf w) {m : AMap} (hm : mapOk w m) :
    entriesOf (w.cloneEntries m).1 (w.cloneEntries m).2 = entriesOf w m := by
  unfold cloneEntries
  refine Eq.trans (mapEntriesM_entries (w₀ := w) _ (fun _ c => c) ?_ ?_ m w (Good.refl hw) hm) (by simp)
  · intro w' k v g hv
    split
    · have h := strClone_res g.wf (by assumption : Nat)
      exact ⟨h.1, h.2⟩
    · exact ⟨Good.refl g.wf, hv⟩
  · intro w' k v g hv
    cases v with
    | int n => rfl
    | str o =>
      cases o with
      | none => rfl
      | some q =>
        show cval (w'.strClone q).1 (Val.str (some (w'.strClone q).2)) = _
        simp only [cval]; rw [strClone_content]

/-- `Clone` of a StreamSet: same keys, every stream by its elements -/
theorem ssClone_entries {w : World} (hw : Wf w) (p : Nat) :
    entriesOf (w.ssClone p).1 ((w.ssClone p).1.setMap (w.ssClone p).2) = entriesOf w (w.setMap p) := by
  unfold ssClone
  have hc := cloneEntries_res hw (setMap_ok hw p)
  simp only
  rw [setMap_newSet_entries hc.1.wf hc.2, cloneEntries_entries hw (setMap_ok hw p)]

theorem strInter_content_pos (w : World) (a b : Nat) (h : (w.strHdr b).len > 0) :
    (w.strInter a (some b)).1.strContent (w.strInter a (some b)).2 = Spec.inter (w.strContent a) (w.strContent b) := by
  have : ¬ (w.strHdr b).len = 0 := by omega
  simp only [strInter, this, if_false]
  exact strContent_newStream _ _ _

theorem strMinus_content_pos (w : World) (a b : Nat) (h : (w.strHdr b).len > 0) :
    (w.strMinus a (some b)).1.strContent (w.strMinus a (some b)).2 = Spec.minus (w.strContent a) (w.strContent b) := by
  have : ¬ (w.strHdr b).len = 0 := by omega
  simp only [strMinus, this, if_false]
  exact strContent_newStream _ _ _

/-- `Intersection` of StreamSets -/
theorem ssInter_entries {w : World} (hw : Wf w) (p q : Nat) :
    entriesOf (w.ssInter p (some q)).1 ((w.ssInter p (some q)).1.setMap (w.ssInter p (some q)).2)
      = if (entriesOf w (w.setMap q)).isEmpty then []
        else (Spec.interByKey (entriesOf w (w.setMap p)) (entriesOf w (w.setMap q))).map
          (fun kv => (kv.1, combineC Spec.inter (entriesOf w (w.setMap q)) kv.1 kv.2)) := by
  rw [entriesOf_isEmpty]
  simp only [ssInter]
  split
  · rw [setMap_newSet]; rfl
  · have hm₂ := setMap_ok hw q
    have hm : mapOk w (Spec.interByKey (w.setMap p) (w.setMap q)) := mapOk_filter (setMap_ok hw p) _
    have hres := mapEntriesM_res (w₀ := w) _
      (fun w' k v g hv => combine_step hm₂ (fun w a b => w.strInter a (some b))
        (fun w a b hw' _ _ => strInter_res hw' a _) w' k v g hv) _ w (Good.refl hw) hm
    have hent := mapEntriesM_entries (w₀ := w) _ (combineC Spec.inter (entriesOf w (w.setMap q)))
      (fun w' k v g hv => combine_step hm₂ (fun w a b => w.strInter a (some b))
        (fun w a b hw' _ _ => strInter_res hw' a _) w' k v g hv)
      (fun w' k v g hv => combine_content hw hm₂ (fun w a b => w.strInter a (some b)) Spec.inter
        (fun w a b hw' _ _ => strInter_res hw' a _)
        (fun w a b _ _ _ hl => strInter_content_pos w a b hl) w' k v g hv) _ w (Good.refl hw) hm
    refine Eq.trans (setMap_newSet_entries hres.1.wf hres.2) (Eq.trans hent ?_)
    rw [entriesOf_interByKey]

/-- `MinusStreams` -/
theorem ssMinusStreams_entries {w : World} (hw : Wf w) (p q : Nat) :
    entriesOf (w.ssMinusStreams p (some q)).1
        ((w.ssMinusStreams p (some q)).1.setMap (w.ssMinusStreams p (some q)).2)
      = if (entriesOf w (w.setMap q)).isEmpty then []
        else (entriesOf w (w.setMap p)).map
          (fun kv => (kv.1, combineC Spec.minus (entriesOf w (w.setMap q)) kv.1 kv.2)) := by
  rw [entriesOf_isEmpty]
  simp only [ssMinusStreams]
  split
  · rw [setMap_newSet]; rfl
  · have hm₂ := setMap_ok hw q
    have hc := cloneEntries_res hw (setMap_ok hw p)
    have hres := mapEntriesM_res (w₀ := w) _
      (fun w' k v g hv => combine_step hm₂ (fun w a b => w.strMinus a (some b))
        (fun w a b hw' ha _ => strMinus_res hw' ha _) w' k v g hv) _ _ hc.1 hc.2
    have hent := mapEntriesM_entries (w₀ := w) _ (combineC Spec.minus (entriesOf w (w.setMap q)))
      (fun w' k v g hv => combine_step hm₂ (fun w a b => w.strMinus a (some b))
        (fun w a b hw' ha _ => strMinus_res hw' ha _) w' k v g hv)
      (fun w' k v g hv => combine_content hw hm₂ (fun w a b => w.strMinus a (some b)) Spec.minus
        (fun w a b hw' ha _ => strMinus_res hw' ha _)
        (fun w a b _ _ _ hl => strMinus_content_pos w a b hl) w' k v g hv) _ _ hc.1 hc.2
    refine Eq.trans (setMap_newSet_entries hres.1.wf hres.2) (Eq.trans hent ?_)
    rw [cloneEntries_entries hw (setMap_ok hw p)]

theorem insert_map_val {β γ : Type} (h : β → γ) (k : Int) (v : β) (m : List (Int × β)) :
    (Spec.insert k v m).map (fun kv => (kv.1, h kv.2)) = Spec.insert k (h v) (m.map (fun kv => (kv.1, h kv.2))) := by
  induction m with
  | nil => rfl
  | cons a t ih =>
    obtain ⟨ka, va⟩ := a
    simp only [Spec.insert, List.map_cons]
    by_cases hk : ka = k <;> simp [hk, ih]

theorem merge_map_val {β γ : Type} (h : β → γ) (m₂ : List (Int × β)) : ∀ m₁ : List (Int × β),
    (Spec.merge m₁ m₂).map (fun kv => (kv.1, h kv.2))
      = Spec.merge (m₁.map (fun kv => (kv.1, h kv.2))) (m₂.map (fun kv => (kv.1, h kv.2))) := by
  induction m₂ with
  | nil => intro m₁; rfl
  | cons a t ih =>
    intro m₁
    simp only [Spec.merge, List.foldl_cons, List.map_cons] at ih ⊢
    rw [ih, insert_map_val]

theorem lookup_map_kval {β γ : Type} (G : Int → β → γ) (k : Int) (m : List (Int × β)) :
    Spec.lookup k (m.map (fun kv => (kv.1, G kv.1 kv.2))) = (Spec.lookup k m).map (G k) := by
  induction m with
  | nil => simp [Spec.lookup]
  | cons a t ih =>
    obtain ⟨ka, va⟩ := a
    simp only [List.map_cons, Spec.lookup]
    by_cases hk : ka = k
    · subst hk; simp
    · simp [hk, ih]

/-- what `Union` of StreamSets stores per key, on element sequences: the argument wins (`Merge`), except that where
    BOTH sides have the key and the argument's stream is non-empty the receiver's stream is extended by it -/
def unionC (e₁ e₂ : List (Int × CVal)) : List (Int × CVal) :=
  (Spec.merge e₁ e₂).map (fun kv => match nonEmptyC e₂ kv.1, Spec.lookup kv.1 e₁ with
    | some l2, some c1 => (kv.1, CVal.str (strOf c1 ++ l2))
    | _, _ => kv)

theorem strExtend_one_content (w : World) (a b : Nat) :
    (w.strExtend a [some b]).1.strContent (w.strExtend a [some b]).2 = w.strContent a ++ w.strContent b := by
  rw [strExtend_content]; rfl

theorem ssUnion_entries {w : World} (hw : Wf w) {p : Nat} (hp : p < w.sets.length) (q : Nat) :
    entriesOf (w.ssUnion p (some q)).1 ((w.ssUnion p (some q)).1.setMap (w.ssUnion p (some q)).2)
      = if (entriesOf w (w.setMap q)).isEmpty then entriesOf w (w.setMap p)
        else unionC (entriesOf w (w.setMap p)) (entriesOf w (w.setMap q)) := by
  rw [entriesOf_isEmpty]
  simp only [ssUnion]
  split
  · rfl
  · have hm₂ := setMap_ok hw q
    have hm₁ := setMap_ok hw p
    have hstep := fun w' k v g hv => combine_step hm₂ (fun w a b => w.strExtend a [some b])
          (fun w a b hw' ha _ => strExtend_res hw' ha _) w' k v g hv
    have hres := mapEntriesM_res (w₀ := w) _ hstep (w.setMap p) w (Good.refl hw) hm₁
    have hent := mapEntriesM_entries (w₀ := w) _ (combineC (· ++ ·) (entriesOf w (w.setMap q))) hstep
      (fun w' k v g hv => combine_content hw hm₂ (fun w a b => w.strExtend a [some b]) (· ++ ·)
        (fun w a b hw' ha _ => strExtend_res hw' ha _)
        (fun w a b _ _ _ _ => strExtend_one_content w a b) w' k v g hv) (w.setMap p) w (Good.refl hw) hm₁
    generalize hr : mapEntriesM _ w (w.setMap p) = r at hres hent ⊢
    obtain ⟨w1, ext⟩ := r
    simp only at hres hent ⊢
    have hsm : w1.setMap p = w.setMap p := setMap_le hw hres.1.le hp
    rw [hsm]
    -- the stored map is well-formed in `w1`
    have hM : mapOk w1 ((Spec.merge (w.setMap p) (w.setMap q)).map (fun kv =>
        match nonEmptyAt w1 (w.setMap q) kv.1, Spec.lookup kv.1 ext with
        | some _, some e => (kv.1, e)
        | _, _ => kv)) := by
      intro kv hkv
      simp only [List.mem_map] at hkv
      obtain ⟨a, ha, rfl⟩ := hkv
      have hmerged := mapOk_merge (mapOk_le hres.1.le hm₁) (mapOk_le hres.1.le hm₂) a ha
      split
      · rename_i e _ he; exact lookup_ok hres.2 he
      · exact hmerged
    refine Eq.trans (setMap_newSet_entries hres.1.wf hM) ?_
    -- pointwise comparison over the merged map
    unfold unionC
    have hmg : Spec.merge (entriesOf w (w.setMap p)) (entriesOf w (w.setMap q))
        = (Spec.merge (w.setMap p) (w.setMap q)).map (fun kv => (kv.1, cval w1 kv.2)) := by
      rw [merge_map_val]
      have h1 := entriesOf_le hw hres.1.le hm₁
      have h2 := entriesOf_le hw hres.1.le hm₂
      simp only [entriesOf] at h1 h2 ⊢
      rw [h1, h2]
    rw [hmg]
    simp only [entriesOf, List.map_map]
    apply List.map_congr_left
    intro kv _
    simp only [Function.comp]
    -- the two guards agree
    have hne : (nonEmptyAt w1 (w.setMap q) kv.1).map w.strContent = nonEmptyC (entriesOf w (w.setMap q)) kv.1 := by
      rw [nonEmptyAt_good hres.1 hm₂]; exact nonEmptyAt_entries hw _ _
    have hlk : (Spec.lookup kv.1 ext).map (cval w1)
        = (Spec.lookup kv.1 (entriesOf w (w.setMap p))).map (combineC (· ++ ·) (entriesOf w (w.setMap q)) kv.1) := by
      have := congrArg (Spec.lookup kv.1) hent
      simp only [entriesOf] at this
      rw [lookup_map_val, lookup_map_kval] at this
      simpa [entriesOf] using this
    simp only [entriesOf] at hne hlk ⊢
    cases hq : nonEmptyAt w1 (w.setMap q) kv.1 with
    | none =>
      rw [hq] at hne; simp only [Option.map_none] at hne
      rw [← hne]
    | some v2 =>
      rw [hq] at hne; simp only [Option.map_some] at hne
      rw [← hne]
      cases he : Spec.lookup kv.1 ext with
      | none =>
        rw [he] at hlk; simp only [Option.map_none] at hlk
        cases hc : Spec.lookup kv.1 (List.map (fun kv => (kv.1, cval w kv.2)) (w.setMap p)) with
        | none => rfl
        | some c => rw [hc] at hlk; simp at hlk
      | some e =>
        rw [he] at hlk; simp only [Option.map_some] at hlk
        cases hc : Spec.lookup kv.1 (List.map (fun kv => (kv.1, cval w kv.2)) (w.setMap p)) with
        | none => rw [hc] at hlk; simp at hlk
        | some c =>
          rw [hc] at hlk; simp only [Option.map_some, Option.some.injEq] at hlk
          simp only [hlk, combineC, ← hne]

end FpgoVerif.C04

namespace FpgoVerif.C04
open World

theorem filterIdxFrom_noidx (q : Int → Bool) (l : List Int) : ∀ i, Spec.filterIdxFrom (fun x _ => q x) i l = l.filter q := by
  induction l with
  | nil => intro i; rfl
  | cons a t ih =>
    intro i
    simp only [Spec.filterIdxFrom, List.filter_cons, ih]

theorem minus_nil (l : List Int) : Spec.minus l [] = l := by
  simp [Spec.minus, filter_const_true]

theorem len_zero_iff {w : World} (hw : Wf w) (q : Nat) : (w.strHdr q).len = 0 ↔ w.strContent q = [] := by
  rw [← strContent_length hw q]
  exact List.length_eq_zero_iff

/-- the sequence an optional stream argument denotes (`nil` = empty) -/
def argContent (w : World) : Option Nat → List Int
  | none => []
  | some q => w.strContent q

/-- the prescribed sequence of every unary Stream transformer -/
def specS1 (iface : Bool) : S1 → List Int → List Int
  | .map f, l => Spec.mapIdx (Spec.mapFn f) l
  | .filter k, l => Spec.filterIdx (Spec.predFn k) l
  | .reject k, l => Spec.rejectIdx (Spec.predFn k) l
  | .notnil, l => Spec.notNil iface l
  | .notnilp, l => Spec.notNilPtr l
  | .distinct, l => Spec.distinct l
  | .clone, l => l
  | .reverse, l => l.reverse
  | .sort c, l => Spec.sortBy (Spec.lessFn c) l
  | .sortidx c, l => Spec.sortBy (Spec.lessFn c) l
  | .rmitem vs, l => Spec.minus l vs
  | .append vs, l => l ++ vs
  | .remove i, l => Spec.removeAt l i

theorem execS1_content (iface : Bool) {w : World} (hw : Wf w) {p : Nat} (hp : p < w.strs.length) (k : S1) :
    (execS1 iface w p k).1.strContent (execS1 iface w p k).2 = specS1 iface k (w.strContent p) := by
  cases k with
  | map f => exact strContent_newStream _ _ _
  | filter f => exact strContent_newStream _ _ _
  | reject f => exact strContent_newStream _ _ _
  | notnil =>
    simp only [execS1, specS1, strFilter]
    rw [strContent_newStream]
    cases iface with
    | false =>
      simp only [Spec.filterIdx, Spec.notNil, Bool.not_false, Bool.true_or]
      rw [filterIdxFrom_noidx (fun _ => true)]; exact filter_const_true _
    | true =>
      simp only [Spec.filterIdx, Spec.notNil, Bool.not_true, Bool.false_or, if_true]
      exact filterIdxFrom_noidx _ _ _
  | notnilp =>
    simp only [execS1, specS1, strFilter]
    rw [strContent_newStream]
    simp only [Spec.filterIdx, Spec.notNilPtr]
    exact filterIdxFrom_noidx _ _ _
  | distinct => exact strContent_newStream _ _ _
  | clone => exact strClone_content w p
  | reverse => exact strContent_newStream _ _ _
  | sort c => exact strSort_content w p _
  | sortidx c => exact strSortByIndex_content hw hp _
  | rmitem vs =>
    simp only [execS1, specS1, strRemoveItem]
    split
    · rename_i h; rw [isEmpty_eq_nil h, minus_nil]
    · exact strContent_newStream _ _ _
  | append vs => exact strAppend_content hw hp vs
  | remove i =>
    simp only [execS1, specS1]
    cases iface with
    | true =>
      simp only [if_true]
      have h := strHdr_ok hw p
      have hret : (w.strRemoveI p i).2 = p := (strRemoveI_wf hw hp i).2.1
      rw [hret]
      exact ifaceRemove_content_of_bounds w p i hp h.1 (by have := h.2.1; have := h.2.2; omega) h.2.2
    | false =>
      simp only [Bool.false_eq_true, if_false, strRemoveG, Spec.removeAt, strContent_length hw p]
      split
      · exact strContent_newStream _ _ _
      · rfl

theorem strInter_content {w : World} (hw : Wf w) (p : Nat) (q : Option Nat) :
    (w.strInter p q).1.strContent (w.strInter p q).2
      = if (argContent w q).isEmpty then [] else Spec.inter (w.strContent p) (argContent w q) := by
  have hnil : w.newNilStream.1.strContent w.newNilStream.2 = [] := by
    simp [newNilStream, allocStr, strContent, strHdr, sliceContent, Slice.nil, List.getD_eq_getElem?_getD]
  cases q with
  | none => simpa [strInter, argContent] using hnil
  | some q =>
    show (w.strInter p (some q)).1.strContent (w.strInter p (some q)).2
      = if (w.strContent q).isEmpty then [] else Spec.inter (w.strContent p) (w.strContent q)
    simp only [strInter]
    split
    · rename_i h
      have : (w.strContent q).isEmpty = true := by rw [(len_zero_iff hw q).mp h]; rfl
      simp only [this, if_true]; exact hnil
    · rename_i h
      have : w.strContent q ≠ [] := fun e => h ((len_zero_iff hw q).mpr e)
      have hne : (w.strContent q).isEmpty = false := by cases hc : w.strContent q <;> simp_all
      simp only [hne, Bool.false_eq_true, if_false]; exact strContent_newStream _ _ _

theorem strMinus_content {w : World} (hw : Wf w) (p : Nat) (q : Option Nat) :
    (w.strMinus p q).1.strContent (w.strMinus p q).2 = Spec.minus (w.strContent p) (argContent w q) := by
  cases q with
  | none => simp [strMinus, argContent, minus_nil]
  | some q =>
    simp only [strMinus, argContent]
    split
    · rename_i h; rw [(len_zero_iff hw q).mp h, minus_nil]
    · exact strContent_newStream _ _ _

end FpgoVerif.C04
