import FpgoVerif.Proofs.C05Sets
/-! Helper lemmas for C05: StreamSet (by key, then per-key stream). -/
namespace FpgoVerif.C05
variable {κ α : Type} [DecidableEq κ] [DecidableEq α]

theorem mem_mkeys_iff_isSome {ν : Type} (m : GoMap κ ν) (k : κ) : k ∈ mkeys m ↔ (mget m k).isSome = true :=
  (mget_isSome_iff m k).symm

theorem mget_foldl_del_or {μ ν : Type} (L : List (κ × μ)) (c : κ × μ → Prop) [DecidablePred c]
    (r : GoMap κ ν) (k : κ) :
    mget (L.foldl (fun r p => if c p then mdel r p.1 else r) r) k = mget r k ∨
    mget (L.foldl (fun r p => if c p then mdel r p.1 else r) r) k = none := by
  induction L generalizing r with
  | nil => simp
  | cons q L ih =>
    simp only [List.foldl_cons]
    rcases ih (if c q then mdel r q.1 else r) with h | h
    · rw [h]
      by_cases hc : c q
      · simp only [hc, if_true, mget_mdel]
        by_cases hk : q.1 = k
        · simp [hk]
        · simp [hk]
      · simp [hc]
    · exact Or.inr h

theorem mget_perKeyStep (f : List α → Option (List α) → List α) (input r : GoMap κ (List α)) (k0 : κ) (v0 : List α)
    (k : κ) :
    mget (StreamSet.perKeyStep f input r (k0, v0)) k =
      match mget input k0 with
      | some v2 => if v2.length > 0 ∧ k0 = k then some (f v0 (some v2)) else mget r k
      | none => mget r k := by
  unfold StreamSet.perKeyStep
  cases hi : mget input k0 with
  | none => rfl
  | some v2 =>
    by_cases hl : v2.length > 0
    · by_cases hk : k0 = k
      · simp [hl, hk, mget_mset]
      · simp [hl, hk, mget_mset]
    · simp [hl]

/-- the per-key post-pass: what ends up under key `k` -/
theorem mget_perKey (f : List α → Option (List α) → List α) (input over result : GoMap κ (List α))
    (ho : (mkeys over).Nodup) (k : κ) :
    mget (StreamSet.perKey f input over result) k =
      match mget over k, mget input k with
      | some v, some v2 => if v2.length > 0 then some (f v (some v2)) else mget result k
      | _, _ => mget result k := by
  unfold StreamSet.perKey
  induction over generalizing result with
  | nil => simp [mget]
  | cons p t ih =>
    obtain ⟨k0, v0⟩ := p
    simp only [mkeys, List.map_cons, List.nodup_cons] at ho
    simp only [List.foldl_cons]
    rw [ih _ ho.2, mget_perKeyStep]
    by_cases hk : k0 = k
    · subst hk
      have ht : mget t k0 = none := (mget_none_iff t k0).2 ho.1
      simp only [ht, mget, if_true]
      cases hi : mget input k0 with
      | none => simp
      | some v2 =>
        by_cases hl : v2.length > 0
        · simp [hl]
        · simp [hl]
    · simp only [mget, hk, if_false, and_false]
      cases hi : mget input k0 <;> simp

/-- what the post-pass leaves under a key, as a function of the three lookups -/
def perKeyVal (f : List α → Option (List α) → List α) (ov iv rv : Option (List α)) : Option (List α) :=
  match ov, iv with
  | some v, some v2 => if v2.length > 0 then some (f v (some v2)) else rv
  | _, _ => rv

theorem mget_perKey' (f : List α → Option (List α) → List α) (input over result : GoMap κ (List α))
    (ho : (mkeys over).Nodup) (k : κ) :
    mget (StreamSet.perKey f input over result) k =
      perKeyVal f (mget over k) (mget input k) (mget result k) := by
  rw [mget_perKey f input over result ho k]
  unfold perKeyVal
  cases mget over k <;> cases mget input k <;> rfl

/-- the first map that has the key provides the value in the counting pass -/
theorem imk_inner_val {ν : Type} (mi : GoMap κ ν) (hmi : (mkeys mi).Nodup) (r : GoMap κ ν) (c : GoMap κ Nat) (k : κ) :
    mget (mi.foldl imkStep (r, c)).1 k = (mget r k).orElse (fun _ => mget mi k) := by
  induction mi generalizing r c with
  | nil => cases hr : mget r k <;> simp [mget, hr]
  | cons p t ih =>
    obtain ⟨k0, v0⟩ := p
    simp only [mkeys, List.map_cons, List.nodup_cons] at hmi
    simp only [List.foldl_cons]
    rw [ih hmi.2]
    simp only [imkStep]
    by_cases hk : k0 = k
    · subst hk
      have ht : mget t k0 = none := (mget_none_iff t k0).2 hmi.1
      by_cases hh : mhas r k0 = true
      · simp only [hh, if_true]
        have : (mget r k0).isSome = true := hh
        cases hr : mget r k0 with
        | none => simp [hr] at this
        | some v => simp
      · have hh' : mhas r k0 = false := by simpa using hh
        have hr : mget r k0 = none := (mget_none_iff r k0).2 ((mhas_false_iff r k0).1 hh')
        simp [hh', mget_mset, hr, mget, ht]
    · by_cases hh : mhas r k0 = true
      · simp [hh, mget, hk]
      · have hh' : mhas r k0 = false := by simpa using hh
        simp [hh', mget_mset, hk, mget]

/-- value-level IntersectionMapByKey for two operands: the receiver's value under the common keys -/
theorem mget_intersection2 {ν : Type} (m i : GoMap κ ν) (hm : (mkeys m).Nodup) (hi : (mkeys i).Nodup) (k : κ) :
    mget (intersectionMapByKey [m, i]) k = if mhas i k then mget m k else none := by
  have hkeys := mem_mkeys_intersectionMapByKey [m, i] (by simp) (by
      intro m' hm'
      simp only [List.mem_cons, List.not_mem_nil, or_false] at hm'
      rcases hm' with h | h <;> subst h <;> assumption) k
  simp only [List.mem_cons, List.not_mem_nil, or_false, forall_eq_or_imp, forall_eq] at hkeys
  by_cases hboth : k ∈ mkeys m ∧ k ∈ mkeys i
  · have hin := hkeys.2 hboth
    have hsome := (mem_mkeys_iff_isSome _ k).1 hin
    simp only [intersectionMapByKey] at hsome ⊢
    rcases mget_foldl_del_or ([m, i].foldl imkCount ([], [])).2
        (fun p => p.2 < [m, i].length) ([m, i].foldl imkCount ([], [])).1 k with h | h
    · rw [h]
      simp only [List.foldl_cons, List.foldl_nil, imkCount_eq]
      rw [imk_inner_val i hi, imk_inner_val m hm]
      have hmk : (mget m k).isSome = true := (mem_mkeys_iff_isSome m k).1 hboth.1
      have : mhas i k = true := (mhas_iff i k).2 hboth.2
      cases hv : mget m k with
      | none => simp [hv] at hmk
      | some v => simp [this, mget]
    · rw [h] at hsome; simp at hsome
  · have hnot : k ∉ mkeys (intersectionMapByKey [m, i]) := fun h => hboth (hkeys.1 h)
    rw [(mget_none_iff _ k).2 hnot]
    by_cases hik : mhas i k = true
    · have : k ∉ mkeys m := fun h => hboth ⟨h, (mhas_iff i k).1 hik⟩
      simp [hik, (mget_none_iff m k).2 this]
    · have hik' : mhas i k = false := by simpa using hik
      simp [hik']

theorem map_clone_id (l : GoMap κ (List α)) : l.map (fun p => (p.1, Stream.clone p.2)) = l := by
  induction l with
  | nil => rfl
  | cons p t ih => simp [Stream.clone, ih]

theorem nodup_mkeys_duplicateMap {ν : Type} (m : GoMap κ ν) : (mkeys (duplicateMap m)).Nodup := by
  unfold duplicateMap
  split
  · exact nodup_mkeys_mcopyInto _ _ (by simp [mkeys])
  · simp [mkeys]

theorem G_ssClone_eq (m : GoMap κ (List α)) (hm : (mkeys m).Nodup) : G.ssClone m = m := by
  simp only [G.ssClone, StreamSet.cloneW, map_clone_id, duplicateMap_eq m hm]

end FpgoVerif.C05
