import FpgoVerif.Proofs.C04MapSpec
import FpgoVerif.Proofs.C19Sort
/-! C04 — contents of `Sort` / `SortByIndex` results, and what `Spec.sortBy` means (via the C19 sort lemmas). -/
namespace FpgoVerif.C04
open World

theorem specSortBy_eq_c19 (less : Int → Int → Bool) (l : List Int) : Spec.sortBy less l = C19.sortBy less l := rfl

theorem sortBy_length (less : Int → Int → Bool) (l : List Int) : (Spec.sortBy less l).length = l.length := by
  simp [Spec.sortBy, List.length_mergeSort]

/-- a comparator that compares an integer key is a strict weak order -/
theorem strictWeak_of_key (f : Int → Int) : C19.StrictWeak (fun a b => decide (f a < f b)) := by
  refine ⟨fun a => by simp, fun a b c h1 h2 => ?_, fun a b c h1 => ?_⟩
  · simp only [decide_eq_true_eq] at *; omega
  · simp only [decide_eq_true_eq] at *; omega

/-- every comparator of the family shared with the harness is a strict weak order -/
theorem lessFn_strictWeak (k : Nat) : C19.StrictWeak (Spec.lessFn k) := by
  match k with
  | 0 => exact strictWeak_of_key id
  | 1 =>
    have := strictWeak_of_key (fun x => -x)
    refine ⟨fun a => by simp [Spec.lessFn], fun a b c h1 h2 => ?_, fun a b c h1 => ?_⟩
    · simp only [Spec.lessFn, decide_eq_true_eq] at *; omega
    · simp only [Spec.lessFn, decide_eq_true_eq] at *; omega
  | 2 => exact strictWeak_of_key (fun x => x.tmod 3)
  | n + 3 => exact ⟨fun _ => rfl, fun _ _ _ h => by simp [Spec.lessFn] at h, fun _ _ _ h => by simp [Spec.lessFn] at h⟩

theorem strClone_hdr (w : World) (p : Nat) : (w.strClone p).1.strHdr (w.strClone p).2
    = ⟨w.arrs.length, 0, (w.strContent p).length, (w.strContent p).length⟩ := by
  simp [strClone, dupSlice, allocArr, allocStr, strHdr, strContent, List.getD_eq_getElem?_getD]

theorem strClone_newArr (w : World) (p : Nat) : (w.strClone p).1.arrAt w.arrs.length = w.strContent p := by
  simp [strClone, dupSlice, allocArr, allocStr, arrAt, strContent, List.getD_eq_getElem?_getD]

theorem strClone_content (w : World) (p : Nat) : (w.strClone p).1.strContent (w.strClone p).2 = w.strContent p := by
  unfold strContent
  rw [show (w.strClone p).1.strHdr (w.strClone p).2 = _ from strClone_hdr w p]
  show (((w.strClone p).1.arrAt w.arrs.length).drop 0).take (w.strContent p).length = _
  rw [strClone_newArr]; simp [strContent]

/-- `Sort`: the clone's fresh array is overwritten with the stably sorted elements -/
theorem strSort_content (w : World) (p : Nat) (less : Int → Int → Bool) :
    (w.strSort p less).1.strContent (w.strSort p less).2 = Spec.sortBy less (w.strContent p) := by
  unfold strSort
  simp only
  have hh := strClone_hdr w p
  have ha := strClone_newArr w p
  have hc : (w.strClone p).1.sliceContent ((w.strClone p).1.strHdr (w.strClone p).2) = w.strContent p :=
    strClone_content w p
  rw [hc, hh]
  have hlt : w.arrs.length < (w.strClone p).1.arrs.length := by simp [strClone, dupSlice, allocArr, allocStr]
  generalize w.strContent p = c at *
  have hstr : (w.strClone p).1.strs.getD (w.strClone p).2 Slice.nil = ⟨w.arrs.length, 0, c.length, c.length⟩ := hh
  have ha' : ((w.strClone p).1.arrs[w.arrs.length]?).getD [] = c := by
    simpa [arrAt, List.getD_eq_getElem?_getD] using ha
  have hl := sortBy_length less c
  simp only [strContent, strHdr, writeArr, sliceContent, hstr, arrAt, List.getD_eq_getElem?_getD, List.getElem?_set,
    hlt, if_true, Option.getD_some, List.take_zero, List.nil_append, Nat.zero_add, List.drop_zero, ha']
  rw [List.take_append_of_le_length (by omega), ← hl, List.take_length]

theorem write_read (A : List Int) (off len : Nat) (sorted : List Int) (hb : off + len ≤ A.length)
    (hl : sorted.length = len) :
    ((A.take off ++ sorted ++ A.drop (off + sorted.length)).drop off).take len = sorted := by
  have h1 : (A.take off).length = off := by simp [List.length_take]; omega
  rw [List.append_assoc, List.drop_append_of_le_length (by omega), List.drop_of_length_le (by omega),
    List.nil_append, List.take_append_of_le_length (by omega), ← hl, List.take_length]

theorem sliceContent_writeArr_ne (w : World) (a pos : Nat) (l : List Int) {s : Slice} (hs : s.arr ≠ a) :
    (w.writeArr a pos l).sliceContent s = w.sliceContent s := by
  simp [sliceContent, arrAt, writeArr, List.getD_eq_getElem?_getD, List.getElem?_set, Ne.symm hs]

/-- `SortByIndex`: the returned stream holds the stably sorted elements of the receiver (and the receiver's
    storage is restored: `strSortByIndex_arrs`) -/
theorem strSortByIndex_content {w : World} (hw : Wf w) {p : Nat} (hp : p < w.strs.length) (less : Int → Int → Bool) :
    (w.strSortByIndex p less).1.strContent (w.strSortByIndex p less).2 = Spec.sortBy less (w.strContent p) := by
  have hso := strHdr_ok hw p
  let w1 := (w.strClone p).1
  let s := w1.strHdr p
  let w2 := w1.writeArr s.arr s.off (Spec.sortBy less (w1.sliceContent s))
  let r3 := w2.strClone p
  have hres : w.strSortByIndex p less = (r3.1.writeArr s.arr s.off (r3.1.strContent (w.strClone p).2), r3.2) := rfl
  have g1 : StrRes w (w.strClone p) := strClone_res hw p
  have hs : s = w.strHdr p := strHdr_le g1.1.le hp
  have hA : w1.arrAt s.arr = w.arrAt (w.strHdr p).arr := by rw [hs]; exact arrAt_le g1.1.le hso.1
  have hc : w1.sliceContent s = w.strContent p := by
    simp only [sliceContent, hA, strContent]; rw [hs]
  -- contents of the receiver cell after the in-place sort
  have h2 : w2.strContent p = Spec.sortBy less (w.strContent p) := by
    have hh : w2.strHdr p = s := rfl
    have ha2 : w2.arrAt s.arr = (w1.arrAt s.arr).take s.off ++ Spec.sortBy less (w1.sliceContent s)
        ++ (w1.arrAt s.arr).drop (s.off + (Spec.sortBy less (w1.sliceContent s)).length) := by
      have : s.arr < w1.arrs.length := by rw [hs]; exact Nat.lt_of_lt_of_le hso.1 g1.1.le.arrs.length_le
      simp [w2, writeArr, arrAt, List.getD_eq_getElem?_getD, List.getElem?_set, this]
    unfold strContent
    rw [hh]
    simp only [sliceContent, ha2, hc, hA]
    have hlen : (w.strContent p).length = (w.strHdr p).len := by
      simp [strContent, sliceContent, List.length_take, List.length_drop]
      have := hso.2.1; have := hso.2.2; omega
    rw [hs]
    exact write_read _ _ _ _ (by have := hso.2.1; have := hso.2.2; omega) (by rw [sortBy_length]; exact hlen)
  rw [hres]
  show (r3.1.writeArr s.arr s.off _).sliceContent ((r3.1.writeArr s.arr s.off _).strHdr r3.2) = _
  have hhdr : (r3.1.writeArr s.arr s.off (r3.1.strContent (w.strClone p).2)).strHdr r3.2 = r3.1.strHdr r3.2 := rfl
  rw [hhdr, strClone_hdr w2 p]
  have hne : (⟨w2.arrs.length, 0, (w2.strContent p).length, (w2.strContent p).length⟩ : Slice).arr ≠ s.arr := by
    show w2.arrs.length ≠ s.arr
    have h1 : s.arr < w.arrs.length := by rw [hs]; exact hso.1
    have h2 : w.arrs.length ≤ w2.arrs.length := by
      have := g1.1.le.arrs.length_le
      simpa [w2, writeArr] using this
    omega
  rw [sliceContent_writeArr_ne _ _ _ _ hne]
  have := strClone_content w2 p
  unfold strContent at this
  rw [strClone_hdr w2 p] at this
  rw [this]
  exact h2

end FpgoVerif.C04
