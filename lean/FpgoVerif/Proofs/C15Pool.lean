import FpgoVerif.Model.C15Pool
import FpgoVerif.Proofs.C15Tac
/-! Invariants of the worker-pool close path. -/
namespace FpgoVerif.C15.Pl

theorem gstep_some {s pc ch s' nx} (h : gstep s pc ch = some (s', nx)) :
    0 < s.cnt (kind pc) ∧ ∃ s1, step s pc ch = some (s1, nx) ∧ s' = { s1 with cnt := move s1.cnt (kind pc) nx } := by
  unfold gstep at h
  split at h
  · simp at h
  · rename_i hc
    split at h
    · simp at h
    · rename_i s1 nx1 hs
      simp at h
      obtain ⟨rfl, rfl⟩ := h
      exact ⟨Nat.pos_of_ne_zero hc, s1, hs, rfl⟩

structure Inv (s : St) : Prop where
  fn : s.fixNotify = true
  nopanic : s.panic = false
  np0 : s.np = 0
  w1 : s.cnt .s2 + s.cnt .qc1 + s.cnt .qc2 ≤ 1
  wr : 0 < s.cnt .s2 + s.cnt .qc1 + s.cnt .qc2 → s.cnt .w2 = 0
  oneC : s.cnt .pc0 + s.cnt .pc1 + s.cnt .qc1 + s.cnt .qc2 ≤ 1
  startedC : s.closeStarted = false → s.cnt .pc0 + s.cnt .pc1 + s.cnt .qc1 + s.cnt .qc2 = 0
  startedFlag : s.pflag = true → s.closeStarted = true
  w2flag : 0 < s.cnt .w2 → s.qflag = false
  qcflag : 0 < s.cnt .qc1 + s.cnt .qc2 → s.qflag = true
  pcflag : 0 < s.cnt .pc1 + s.cnt .qc1 + s.cnt .qc2 → s.pflag = true
  qp : s.qflag = true → s.pflag = true
  loadFlag : s.loadClosed = true → s.qflag = true ∧ s.cnt .pc0 + s.cnt .pc1 + s.cnt .qc1 = 0
  chanFlag : s.chanClosed = true → s.loadClosed = true ∧ s.cnt .pc0 + s.cnt .pc1 + s.cnt .qc1 + s.cnt .qc2 = 0
  c2load : 0 < s.cnt .qc2 → s.loadClosed = true
  doneFlag : s.closeDone = true → s.pflag = true
  doneQ : s.closeDone = true → s.qclose = true → s.chanClosed = true
  late0 : s.late = 0
  pc0flag : 0 < s.cnt .pc0 → s.pflag = false
  closerIn : s.closeStarted = true → s.closeDone = false → 0 < s.cnt .pc0 + s.cnt .pc1 + s.cnt .qc1 + s.cnt .qc2

theorem inv_init (cap : Nat) (qc : Bool) : Inv (init cap qc true) := by
  constructor <;> simp [init]

set_option maxHeartbeats 1600000 in
theorem inv_spawn {s s' pc} (h : spawn s pc = some s') (hi : Inv s) : Inv s' := by
  obtain ⟨fn, nopanic, np0, w1, wr, oneC, startedC, startedFlag, w2flag, qcflag, pcflag, qp, loadFlag, chanFlag, c2load, doneFlag, doneQ, late0, pc0flag, closerIn⟩ := hi
  have b1 := Bool.toNat_le s.pflag; have b2 := Bool.toNat_le s.loadClosed; have b3 := Bool.toNat_le s.chanClosed
  have b4 := Bool.toNat_le s.closeStarted; have b5 := Bool.toNat_le s.closeDone; have b6 := Bool.toNat_le s.panic
  have b7 := Bool.toNat_le s.fixNotify; have b8 := Bool.toNat_le s.qflag; have b9 := Bool.toNat_le s.qclose
  cases pc <;> simp [spawn, inc] at h
  all_goals (try (obtain ⟨hs, rfl⟩ := h))
  all_goals (try subst h)
  all_goals (constructor <;> (try simp [updK]) <;> c15arith)

set_option maxHeartbeats 6400000 in
theorem inv_step {s s' nx pc ch} (h : gstep s pc ch = some (s', nx)) (hi : Inv s) : Inv s' := by
  obtain ⟨fn, nopanic, np0, w1, wr, oneC, startedC, startedFlag, w2flag, qcflag, pcflag, qp, loadFlag, chanFlag, c2load, doneFlag, doneQ, late0, pc0flag, closerIn⟩ := hi
  obtain ⟨hc, s1, hs, rfl⟩ := gstep_some h
  clear h
  have b1 := Bool.toNat_le s.pflag; have b2 := Bool.toNat_le s.loadClosed; have b3 := Bool.toNat_le s.chanClosed
  have b4 := Bool.toNat_le s.closeStarted; have b5 := Bool.toNat_le s.closeDone; have b6 := Bool.toNat_le s.panic
  have b7 := Bool.toNat_le s.fixNotify; have b8 := Bool.toNat_le s.qflag; have b9 := Bool.toNat_le s.qclose
  cases pc <;> simp only [step, kind, writers, readers, fn, eq_self, reduceIte, ite_true, ite_false] at hs hc
  all_goals (repeat' split at hs)
  all_goals (try (simp only [Option.some.injEq, Prod.mk.injEq] at hs))
  all_goals (try (obtain ⟨rfl, rfl⟩ := hs))
  all_goals (try (simp at hs))
  all_goals (try (obtain ⟨hg, hs⟩ := hs))
  all_goals (repeat' split at hs)
  all_goals (try (simp only [Option.some.injEq, Prod.mk.injEq] at hs))
  all_goals (try (obtain ⟨rfl, rfl⟩ := hs))
  all_goals (try (simp at hs))
  all_goals (try (obtain ⟨rfl, rfl⟩ := hs))
  all_goals (try subst_vars)
  all_goals (constructor <;> (try simp [move, kind, updK]) <;> c15arith)

theorem inv_reach {cap qc s} (h : Reach cap qc true s) : Inv s := by
  induction h with
  | init => exact inv_init cap qc
  | spawn pc _ hs ih => exact inv_spawn hs ih
  | step pc ch _ hs ih => exact inv_step hs ih
  | gate _ ih =>
    obtain ⟨fn, nopanic, np0, w1, wr, oneC, startedC, startedFlag, w2flag, qcflag, pcflag, qp, loadFlag, chanFlag, c2load, doneFlag, doneQ, late0, pc0flag, closerIn⟩ := ih
    constructor <;> simp_all

def runActs : St → List (Option Bool × PC) → Option St
  | s, [] => some s
  | s, (none, pc) :: rest => match spawn s pc with | some s' => runActs s' rest | none => none
  | s, (some ch, pc) :: rest => match gstep s pc ch with | some (s', _) => runActs s' rest | none => none

theorem runActs_reach {cap qc f} : ∀ (acts : List (Option Bool × PC)) {s s'}, Reach cap qc f s → runActs s acts = some s' → Reach cap qc f s'
  | [], s, s', h, he => by simp [runActs] at he; subst he; exact h
  | (none, pc) :: rest, s, s', h, he => by
    simp only [runActs] at he
    split at he
    · rename_i s1 hs; exact runActs_reach rest (Reach.spawn pc h hs) he
    · simp at he
  | (some ch, pc) :: rest, s, s', h, he => by
    simp only [runActs] at he
    split at he
    · rename_i s1 nx hs; exact runActs_reach rest (Reach.step pc ch h hs) he
    · simp at he

end FpgoVerif.C15.Pl
