import FpgoVerif.Proofs.C15PoolStep0
import FpgoVerif.Proofs.C15PoolStep1
import FpgoVerif.Proofs.C15PoolStep2
import FpgoVerif.Proofs.C15PoolStep3
import FpgoVerif.Proofs.C15PoolStep4
import FpgoVerif.Proofs.C15PoolStep5
import FpgoVerif.Proofs.C15PoolStep6
/-! Pool system: assembly of the per-program-counter preservation lemmas (C15PoolStep*.lean, built in
    parallel), reachability, progress. -/
namespace FpgoVerif.C15.Pl

theorem inv_spawn {s s' pc} (h : spawn s pc = some s') (hi : Inv s) : Inv s' := by
  have hcover : pcGroup pc = 0 ∨ pcGroup pc = 1 ∨ pcGroup pc = 2 ∨ pcGroup pc = 3 ∨ pcGroup pc = 4 ∨ pcGroup pc = 5 ∨ pcGroup pc = 6 := by cases pc <;> simp [pcGroup]
  rcases hcover with hg | hg | hg | hg | hg | hg | hg
  · exact inv_spawn_0 hg h hi
  · exact inv_spawn_1 hg h hi
  · exact inv_spawn_2 hg h hi
  · exact inv_spawn_3 hg h hi
  · exact inv_spawn_4 hg h hi
  · exact inv_spawn_5 hg h hi
  · exact inv_spawn_6 hg h hi

theorem inv_step {s s' nx pc ch} (h : gstep s pc ch = some (s', nx)) (hi : Inv s) : Inv s' := by
  have hcover : pcGroup pc = 0 ∨ pcGroup pc = 1 ∨ pcGroup pc = 2 ∨ pcGroup pc = 3 ∨ pcGroup pc = 4 ∨ pcGroup pc = 5 ∨ pcGroup pc = 6 := by cases pc <;> simp [pcGroup]
  rcases hcover with hg | hg | hg | hg | hg | hg | hg
  · exact inv_step_0 hg h hi
  · exact inv_step_1 hg h hi
  · exact inv_step_2 hg h hi
  · exact inv_step_3 hg h hi
  · exact inv_step_4 hg h hi
  · exact inv_step_5 hg h hi
  · exact inv_step_6 hg h hi

theorem inv_reach {cap qc s} (h : Reach cap qc true s) : Inv s := by
  induction h with
  | init => exact inv_init cap qc
  | spawn pc _ hs ih => exact inv_spawn hs ih
  | step pc ch _ hs ih => exact inv_step hs ih
  | gate _ ih =>
    obtain ⟨fn, nopanic, np0, w1, wr, oneC, startedC, startedFlag, w2flag, qcflag, pcflag, qp, loadFlag, chanFlag, c2load, doneFlag, doneQ, late0, pc0flag, closerIn⟩ := ih
    constructor <;> simp_all

def runActs : St → List (Option Bool × PC) → Option St
  | s, [] => some s
  | s, (none, pc) :: rest => match spawn s pc with | some s' => runActs s' rest | none => none
  | s, (some ch, pc) :: rest => match gstep s pc ch with | some (s', _) => runActs s' rest | none => none

theorem runActs_reach {cap qc f} : ∀ (acts : List (Option Bool × PC)) {s s'}, Reach cap qc f s → runActs s acts = some s' → Reach cap qc f s'
  | [], s, s', h, he => by simp [runActs] at he; subst he; exact h
  | (none, pc) :: rest, s, s', h, he => by
    simp only [runActs] at he
    split at he
    · rename_i s1 hs; exact runActs_reach rest (Reach.spawn pc h hs) he
    · simp at he
  | (some ch, pc) :: rest, s, s', h, he => by
    simp only [runActs] at he
    split at he
    · rename_i s1 nx hs; exact runActs_reach rest (Reach.step pc ch h hs) he
    · simp at he

end FpgoVerif.C15.Pl
