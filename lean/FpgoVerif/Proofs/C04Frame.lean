import FpgoVerif.Model.C04
/-! C04 — frame lemmas: extension of worlds (`Le`), well-formedness (`Wf`), and "every allocating
    operation yields a well-formed extension" for the primitives and the Stream operations. -/
namespace FpgoVerif.C04
open World

/-! ### extension -/

/-- `w'` extends `w`: every heap of `w` is a prefix of the corresponding heap of `w'` — nothing that
    existed was written, objects were only added. -/
structure Le (w w' : World) : Prop where
  arrs : w.arrs <+: w'.arrs
  strs : w.strs <+: w'.strs
  maps : w.maps <+: w'.maps
  sets : w.sets <+: w'.sets

theorem Le.refl (w : World) : Le w w :=
  ⟨List.prefix_refl _, List.prefix_refl _, List.prefix_refl _, List.prefix_refl _⟩

theorem Le.trans {a b c : World} (h₁ : Le a b) (h₂ : Le b c) : Le a c :=
  ⟨h₁.arrs.trans h₂.arrs, h₁.strs.trans h₂.strs, h₁.maps.trans h₂.maps, h₁.sets.trans h₂.sets⟩

theorem getD_of_prefix {α} {l l' : List α} (h : l <+: l') {i : Nat} (hi : i < l.length) (d : α) :
    l'.getD i d = l.getD i d := by
  obtain ⟨t, rfl⟩ := h
  simp [List.getD_eq_getElem?_getD, List.getElem?_append_left hi]

theorem length_le_of_prefix {α} {l l' : List α} (h : l <+: l') : l.length ≤ l'.length := h.length_le

theorem getD_mem {α} {l : List α} {i : Nat} (hi : i < l.length) (d : α) : l.getD i d ∈ l := by
  simp [List.getD_eq_getElem?_getD, List.getElem?_eq_getElem hi]

/-! ### well-formedness: no dangling references -/

def valOk (w : World) : Val → Prop
  | .str (some q) => q < w.strs.length
  | _ => True

def mapOk (w : World) (m : AMap) : Prop := ∀ kv ∈ m, valOk w kv.2

/-- a slice header lies within a live backing array: `arr` exists, `[off, off+cap)` is inside it, `len ≤ cap` -/
def sliceOk (w : World) (s : Slice) : Prop :=
  s.arr < w.arrs.length ∧ s.off + s.cap ≤ (w.arrAt s.arr).length ∧ s.len ≤ s.cap

structure Wf (w : World) : Prop where
  arr0 : 0 < w.arrs.length
  strs : ∀ s ∈ w.strs, sliceOk w s
  sets : ∀ o ∈ w.sets, ∀ r, o = some r → r < w.maps.length
  maps : ∀ m ∈ w.maps, mapOk w m

def Handle.ok (w : World) : Handle → Prop
  | .arr s _ => sliceOk w s
  | .names _ _ => True
  | .str none => True
  | .str (some p) => p < w.strs.length
  | .set p => p < w.sets.length
  | .sset p => p < w.sets.length
  | .uset p => p < w.sets.length

theorem valOk_le {w w' : World} (h : Le w w') {v : Val} (hv : valOk w v) : valOk w' v := by
  cases v with
  | int n => trivial
  | str p => cases p with
    | none => trivial
    | some q => exact Nat.lt_of_lt_of_le hv h.strs.length_le

theorem mapOk_le {w w' : World} (h : Le w w') {m : AMap} (hm : mapOk w m) : mapOk w' m :=
  fun kv hkv => valOk_le h (hm kv hkv)

theorem sliceOk_le {w w' : World} (h : Le w w') {s : Slice} (hs : sliceOk w s) : sliceOk w' s := by
  refine ⟨Nat.lt_of_lt_of_le hs.1 h.arrs.length_le, ?_, hs.2.2⟩
  have : w'.arrAt s.arr = w.arrAt s.arr := getD_of_prefix h.arrs hs.1 _
  rw [this]; exact hs.2.1

theorem sliceOk_nil {w : World} (h0 : 0 < w.arrs.length) : sliceOk w Slice.nil :=
  ⟨h0, by simp [Slice.nil], Nat.le_refl _⟩

theorem Handle.ok_le {w w' : World} (h : Le w w') {x : Handle} (hx : x.ok w) : x.ok w' := by
  cases x with
  | arr s f => exact sliceOk_le h hx
  | names ms b => trivial
  | str p => cases p with
    | none => trivial
    | some q => exact Nat.lt_of_lt_of_le hx h.strs.length_le
  | set p => exact Nat.lt_of_lt_of_le hx h.sets.length_le
  | sset p => exact Nat.lt_of_lt_of_le hx h.sets.length_le
  | uset p => exact Nat.lt_of_lt_of_le hx h.sets.length_le

theorem Wf.init : Wf World.init :=
  ⟨by simp [World.init], by simp [World.init], by simp [World.init], by simp [World.init]⟩

theorem strHdr_ok {w : World} (hw : Wf w) (p : Nat) : sliceOk w (w.strHdr p) := by
  unfold strHdr
  by_cases hp : p < w.strs.length
  · exact hw.strs _ (getD_mem hp _)
  · have : w.strs.getD p Slice.nil = Slice.nil := by
      simp [List.getD_eq_getElem?_getD, List.getElem?_eq_none (Nat.le_of_not_lt hp)]
    rw [this]; exact sliceOk_nil hw.arr0

theorem strHdr_arr_lt {w : World} (hw : Wf w) (p : Nat) : (w.strHdr p).arr < w.arrs.length := (strHdr_ok hw p).1

theorem setMap_ok {w : World} (hw : Wf w) (p : Nat) : mapOk w (w.setMap p) := by
  unfold setMap
  by_cases hp : p < w.sets.length
  · cases h : w.sets.getD p none with
    | none => intro kv hkv; simp at hkv
    | some r =>
      have hr : r < w.maps.length := hw.sets _ (getD_mem hp none) r h
      simp only
      exact hw.maps _ (getD_mem hr _)
  · have : w.sets.getD p none = none := by
      simp [List.getD_eq_getElem?_getD, List.getElem?_eq_none (Nat.le_of_not_lt hp)]
    rw [this]; intro kv hkv; simp at hkv

/-! ### frame: contents of valid handles survive any extension -/

theorem arrAt_le {w w' : World} (h : Le w w') {a : Nat} (ha : a < w.arrs.length) : w'.arrAt a = w.arrAt a :=
  getD_of_prefix h.arrs ha _

theorem sliceContent_le {w w' : World} (h : Le w w') {s : Slice} (hs : s.arr < w.arrs.length) :
    w'.sliceContent s = w.sliceContent s := by
  unfold sliceContent; rw [arrAt_le h hs]

theorem sliceHidden_le {w w' : World} (h : Le w w') {s : Slice} (hs : s.arr < w.arrs.length) :
    w'.sliceHidden s = w.sliceHidden s := by
  unfold sliceHidden; rw [arrAt_le h hs]

theorem strHdr_le {w w' : World} (h : Le w w') {p : Nat} (hp : p < w.strs.length) : w'.strHdr p = w.strHdr p :=
  getD_of_prefix h.strs hp _

theorem strContent_le {w w' : World} (hw : Wf w) (h : Le w w') {p : Nat} (hp : p < w.strs.length) :
    w'.strContent p = w.strContent p := by
  unfold strContent
  rw [strHdr_le h hp, sliceContent_le h (strHdr_arr_lt hw p)]

theorem setMap_le {w w' : World} (hw : Wf w) (h : Le w w') {p : Nat} (hp : p < w.sets.length) :
    w'.setMap p = w.setMap p := by
  unfold setMap
  rw [getD_of_prefix h.sets hp]
  cases hr : w.sets.getD p none with
  | none => rfl
  | some r =>
    have : r < w.maps.length := hw.sets _ (getD_mem hp none) r hr
    simp only [mapAt]; exact getD_of_prefix h.maps this _

theorem cval_le {w w' : World} (hw : Wf w) (h : Le w w') {v : Val} (hv : valOk w v) : cval w' v = cval w v := by
  cases v with
  | int n => rfl
  | str p => cases p with
    | none => rfl
    | some q => simp only [cval]; rw [strContent_le hw h hv]

theorem setContent_le {w w' : World} (hw : Wf w) (h : Le w w') {p : Nat} (hp : p < w.sets.length) :
    setContent w' p = setContent w p := by
  unfold setContent
  rw [setMap_le hw h hp]
  congr 1
  apply List.map_congr_left
  intro kv hkv
  rw [cval_le hw h (setMap_ok hw p kv hkv)]

/-- THE frame lemma: in any extension of a well-formed world every valid handle denotes what it denoted. -/
theorem content_le {w w' : World} (hw : Wf w) (h : Le w w') {x : Handle} (hx : x.ok w) :
    content w' x = content w x := by
  cases x with
  | arr s f => simp only [content]; rw [sliceContent_le h hx.1, sliceHidden_le h hx.1]
  | names ms b => rfl
  | str p => cases p with
    | none => rfl
    | some q => simp only [content]; rw [strContent_le hw h hx]
  | set p => simp only [content]; rw [setContent_le hw h hx]
  | sset p => simp only [content]; rw [setContent_le hw h hx]
  | uset p => simp only [content]; rw [setContent_le hw h hx]

/-! ### allocation primitives yield well-formed extensions -/

/-- `w'` is a well-formed extension of `w` -/
structure Good (w w' : World) : Prop where
  le : Le w w'
  wf : Wf w'

theorem Good.refl {w : World} (hw : Wf w) : Good w w := ⟨Le.refl w, hw⟩

theorem Good.trans {a b c : World} (h₁ : Good a b) (h₂ : Good b c) : Good a c := ⟨h₁.le.trans h₂.le, h₂.wf⟩

theorem allocArr_le (w : World) (l : List Int) : Le w (w.allocArr l).1 :=
  ⟨List.prefix_append _ _, List.prefix_refl _, List.prefix_refl _, List.prefix_refl _⟩

theorem allocArr_good {w : World} (hw : Wf w) (l : List Int) :
    Good w (w.allocArr l).1 ∧ sliceOk (w.allocArr l).1 (w.allocArr l).2 := by
  refine ⟨⟨allocArr_le w l, ?_⟩, ?_⟩
  · refine ⟨?_, ?_, hw.sets, hw.maps⟩
    · simp [allocArr]
    · intro s hs; exact sliceOk_le (allocArr_le w l) (hw.strs s hs)
  · refine ⟨by simp [allocArr], ?_, Nat.le_refl _⟩
    simp [allocArr, arrAt, List.getD_eq_getElem?_getD]

theorem allocArr_snd (w : World) (l : List Int) : (w.allocArr l).2 = ⟨w.arrs.length, 0, l.length, l.length⟩ := rfl

theorem allocStr_good {w : World} (hw : Wf w) {s : Slice} (hs : sliceOk w s) :
    Good w (w.allocStr s).1 ∧ (w.allocStr s).2 < (w.allocStr s).1.strs.length := by
  refine ⟨⟨⟨List.prefix_refl _, List.prefix_append _ _, List.prefix_refl _, List.prefix_refl _⟩, ?_⟩, ?_⟩
  · refine ⟨hw.arr0, ?_, hw.sets, ?_⟩
    · intro t ht
      simp only [allocStr, List.mem_append, List.mem_singleton] at ht
      rcases ht with ht | rfl
      · exact hw.strs t ht
      · exact hs
    · intro m hm kv hkv
      have := hw.maps m hm kv hkv
      cases hv : kv.2 with
      | int n => simp [valOk]
      | str p => cases p with
        | none => simp [valOk]
        | some q => rw [hv] at this; simp only [valOk, allocStr, List.length_append] at *; omega
  · simp [allocStr]

theorem allocMap_good {w : World} (hw : Wf w) {m : AMap} (hm : mapOk w m) :
    Good w (w.allocMap m).1 ∧ (w.allocMap m).2 < (w.allocMap m).1.maps.length := by
  refine ⟨⟨⟨List.prefix_refl _, List.prefix_refl _, List.prefix_append _ _, List.prefix_refl _⟩, ?_⟩, ?_⟩
  · refine ⟨hw.arr0, hw.strs, ?_, ?_⟩
    · intro o ho r hr; have := hw.sets o ho r hr; simp [allocMap]; omega
    · intro m' hm'
      simp only [allocMap, List.mem_append, List.mem_singleton] at hm'
      rcases hm' with hm' | rfl
      · exact hw.maps m' hm'
      · exact hm
  · simp [allocMap]

theorem allocSet_good {w : World} (hw : Wf w) {o : Option Nat} (ho : ∀ r, o = some r → r < w.maps.length) :
    Good w (w.allocSet o).1 ∧ (w.allocSet o).2 < (w.allocSet o).1.sets.length := by
  refine ⟨⟨⟨List.prefix_refl _, List.prefix_refl _, List.prefix_refl _, List.prefix_append _ _⟩, ?_⟩, ?_⟩
  · refine ⟨hw.arr0, hw.strs, ?_, hw.maps⟩
    intro o' ho' r hr
    simp only [allocSet, List.mem_append, List.mem_singleton] at ho'
    rcases ho' with ho' | rfl
    · exact hw.sets o' ho' r hr
    · exact ho r hr
  · simp [allocSet]

/-- result of a stream-producing operation: a well-formed extension and a valid cell -/
def StrRes (w : World) (r : World × Nat) : Prop := Good w r.1 ∧ r.2 < r.1.strs.length
/-- result of a set-producing operation -/
def SetRes (w : World) (r : World × Nat) : Prop := Good w r.1 ∧ r.2 < r.1.sets.length
/-- result of an array-producing operation -/
def ArrRes (w : World) (r : World × Slice) : Prop := Good w r.1 ∧ sliceOk r.1 r.2

theorem StrRes.self {w : World} (hw : Wf w) {p : Nat} (hp : p < w.strs.length) : StrRes w (w, p) :=
  ⟨Good.refl hw, hp⟩

theorem SetRes.self {w : World} (hw : Wf w) {p : Nat} (hp : p < w.sets.length) : SetRes w (w, p) :=
  ⟨Good.refl hw, hp⟩

theorem StrRes.after {w w₁ : World} {r : World × Nat} (g : Good w w₁) (h : StrRes w₁ r) : StrRes w r :=
  ⟨g.trans h.1, h.2⟩

theorem SetRes.after {w w₁ : World} {r : World × Nat} (g : Good w w₁) (h : SetRes w₁ r) : SetRes w r :=
  ⟨g.trans h.1, h.2⟩

theorem newStream_res {w : World} (hw : Wf w) (l : List Int) (tail : Nat) : StrRes w (w.newStream l tail) := by
  unfold newStream
  have h₁ := allocArr_good hw (l ++ List.replicate tail 0)
  have h₂ := allocStr_good h₁.1.wf (s := { (w.allocArr (l ++ List.replicate tail 0)).2 with len := l.length })
    ⟨h₁.2.1, h₁.2.2.1, by simp [allocArr]⟩
  exact ⟨h₁.1.trans h₂.1, h₂.2⟩

theorem newNilStream_res {w : World} (hw : Wf w) : StrRes w w.newNilStream :=
  allocStr_good hw (s := Slice.nil) (sliceOk_nil hw.arr0)

theorem newSet_res {w : World} (hw : Wf w) {m : AMap} (hm : mapOk w m) : SetRes w (w.newSet m) := by
  unfold newSet
  have h₁ := allocMap_good hw hm
  have h₂ := allocSet_good h₁.1.wf (o := some (w.allocMap m).2) (by intro r hr; cases hr; exact h₁.2)
  exact ⟨h₁.1.trans h₂.1, h₂.2⟩

theorem newNilSet_res {w : World} (hw : Wf w) : SetRes w w.newNilSet :=
  allocSet_good hw (o := none) (by intro r hr; cases hr)

theorem dupSlice_res {w : World} (hw : Wf w) (s : Slice) : ArrRes w (w.dupSlice s) := allocArr_good hw _

theorem strToArray_res {w : World} (hw : Wf w) (p : Nat) : ArrRes w (w.strToArray p) := dupSlice_res hw _

theorem strClone_res {w : World} (hw : Wf w) (p : Nat) : StrRes w (w.strClone p) := by
  unfold strClone
  have h₁ := dupSlice_res hw (w.strHdr p)
  have h₂ := allocStr_good h₁.1.wf h₁.2
  exact ⟨h₁.1.trans h₂.1, h₂.2⟩

/-! ### in-place writes -/

/-- an in-place write never shortens a backing array -/
theorem writeArr_arrAt_len (w : World) (a pos : Nat) (l : List Int) (b : Nat) :
    (w.arrAt b).length ≤ ((w.writeArr a pos l).arrAt b).length := by
  by_cases hab : a = b
  · subst hab
    by_cases ha : a < w.arrs.length
    · simp only [writeArr, arrAt, List.getD_eq_getElem?_getD, List.getElem?_set, ha, if_true]
      simp only [Option.getD_some, List.length_append, List.length_take, List.length_drop]
      omega
    · have : (w.writeArr a pos l).arrAt a = w.arrAt a := by
        simp [writeArr, arrAt, List.getD_eq_getElem?_getD, List.getElem?_set, ha]
      rw [this]; exact Nat.le_refl _
  · have : (w.writeArr a pos l).arrAt b = w.arrAt b := by
      simp [writeArr, arrAt, List.getD_eq_getElem?_getD, List.getElem?_set, hab]
    rw [this]; exact Nat.le_refl _

theorem sliceOk_writeArr {w : World} (a pos : Nat) (l : List Int) {s : Slice} (hs : sliceOk w s) :
    sliceOk (w.writeArr a pos l) s :=
  ⟨by simpa [writeArr] using hs.1, Nat.le_trans hs.2.1 (writeArr_arrAt_len w a pos l s.arr), hs.2.2⟩

/-- a write into an array keeps the world well-formed (array count unchanged, no array shortened) -/
theorem writeArr_wf {w : World} (hw : Wf w) (a pos : Nat) (l : List Int) : Wf (w.writeArr a pos l) := by
  refine ⟨?_, ?_, hw.sets, hw.maps⟩
  · simpa [writeArr] using hw.arr0
  · intro s hs; exact sliceOk_writeArr a pos l (hw.strs s hs)

/-- a write into an array allocated after `w` does not disturb `w` -/
theorem writeArr_fresh {w w₁ : World} (g : Good w w₁) {a : Nat} (ha : w.arrs.length ≤ a) (pos : Nat) (l : List Int) :
    Good w (w₁.writeArr a pos l) := by
  refine ⟨⟨?_, g.le.strs, g.le.maps, g.le.sets⟩, writeArr_wf g.wf _ _ _⟩
  obtain ⟨t, ht⟩ := g.le.arrs
  simp only [writeArr]
  rw [← ht, List.set_append_right _ _ ha]
  exact List.prefix_append _ _

theorem strHdr_allocStr_new (w : World) (s : Slice) : (w.allocStr s).1.strHdr (w.allocStr s).2 = s := by
  simp [allocStr, strHdr, List.getD_eq_getElem?_getD]

theorem strSort_res {w : World} (hw : Wf w) (p : Nat) (less : Int → Int → Bool) : StrRes w (w.strSort p less) := by
  have hc := strClone_res hw p
  unfold strSort
  have harr : w.arrs.length ≤ ((w.strClone p).1.strHdr (w.strClone p).2).arr := by
    unfold strClone dupSlice
    rw [strHdr_allocStr_new]; simp [allocArr]
  refine ⟨writeArr_fresh hc.1 harr _ _, ?_⟩
  simpa [writeArr] using hc.2

/-! ### Stream operations -/

theorem strMap_res {w : World} (hw : Wf w) (p : Nat) (f : Int → Nat → Int) : StrRes w (w.strMap p f) :=
  newStream_res hw _ _

theorem strFilter_res {w : World} (hw : Wf w) (p : Nat) (pr : Int → Nat → Bool) : StrRes w (w.strFilter p pr) :=
  newStream_res hw _ _

theorem strDistinct_res {w : World} (hw : Wf w) (p : Nat) : StrRes w (w.strDistinct p) := newStream_res hw _ _

theorem strReverse_res {w : World} (hw : Wf w) (p : Nat) : StrRes w (w.strReverse p) := newStream_res hw _ _

theorem strInter_res {w : World} (hw : Wf w) (p : Nat) (q : Option Nat) : StrRes w (w.strInter p q) := by
  unfold strInter
  cases q with
  | none => exact newNilStream_res hw
  | some q =>
    simp only
    split
    · exact newNilStream_res hw
    · exact newStream_res hw _ _

theorem strMinus_res {w : World} (hw : Wf w) {p : Nat} (hp : p < w.strs.length) (q : Option Nat) :
    StrRes w (w.strMinus p q) := by
  unfold strMinus
  cases q with
  | none => exact StrRes.self hw hp
  | some q =>
    simp only
    split
    · exact StrRes.self hw hp
    · exact newStream_res hw _ _

theorem strRemoveItem_res {w : World} (hw : Wf w) {p : Nat} (hp : p < w.strs.length) (items : List Int) :
    StrRes w (w.strRemoveItem p items) := by
  unfold strRemoveItem
  split
  · exact StrRes.self hw hp
  · exact newStream_res hw _ _

theorem strConcat_res {w : World} (hw : Wf w) {p : Nat} (hp : p < w.strs.length) (slices : List Slice) :
    StrRes w (w.strConcat p slices) := by
  unfold strConcat
  split
  · exact StrRes.self hw hp
  · have h₁ := strToArray_res hw p
    exact StrRes.after h₁.1 (newStream_res h₁.1.wf _ _)

theorem strAppend_res {w : World} (hw : Wf w) {p : Nat} (hp : p < w.strs.length) (items : List Int) :
    StrRes w (w.strAppend p items) := by
  unfold strAppend
  have h₁ := allocArr_good hw items
  exact StrRes.after h₁.1 (strConcat_res h₁.1.wf (Nat.lt_of_lt_of_le hp h₁.1.le.strs.length_le) _)

theorem strExtend_res {w : World} (hw : Wf w) {p : Nat} (hp : p < w.strs.length) (args : List (Option Nat)) :
    StrRes w (w.strExtend p args) := by
  unfold strExtend
  split
  · exact StrRes.self hw hp
  · exact newStream_res hw _ _

theorem strRemoveG_res {w : World} (hw : Wf w) {p : Nat} (hp : p < w.strs.length) (i : Int) :
    StrRes w (w.strRemoveG p i) := by
  unfold strRemoveG
  simp only
  split
  · exact newStream_res hw _ _
  · exact StrRes.self hw hp

/-! ### `SortByIndex`: sort in place, then put the old values back -/

theorem take_append_drop_len (d : List Int) (len : Nat) : d.take len ++ d.drop (d.take len).length = d := by
  by_cases h : len ≤ d.length
  · simp [List.length_take, Nat.min_eq_left h]
  · have : d.length ≤ len := by omega
    simp [List.take_of_length_le this]

theorem restore_list (A : List Int) (off len : Nat) (sorted : List Int)
    (hlen : sorted.length = ((A.drop off).take len).length) :
    (A.take off ++ sorted ++ A.drop (off + sorted.length)).take off ++ (A.drop off).take len
      ++ (A.take off ++ sorted ++ A.drop (off + sorted.length)).drop (off + ((A.drop off).take len).length) = A := by
  by_cases h : off ≤ A.length
  · have h1 : (A.take off).length = off := by simp [List.length_take, Nat.min_eq_left h]
    have e1 : (A.take off ++ sorted ++ A.drop (off + sorted.length)).take off = A.take off := by
      rw [List.append_assoc, List.take_append_of_le_length (by omega)]
      rw [List.take_of_length_le (by omega)]
    have e2 : (A.take off ++ sorted ++ A.drop (off + sorted.length)).drop (off + ((A.drop off).take len).length)
        = A.drop (off + sorted.length) := by
      rw [← hlen]
      have : (A.take off ++ sorted).length = off + sorted.length := by simp [h1]
      rw [List.drop_append_of_le_length (by omega)]
      rw [List.drop_of_length_le (by omega)]; simp
    rw [e1, e2, hlen, List.append_assoc, ← List.drop_drop, take_append_drop_len, List.take_append_drop]
  · have h' : A.length ≤ off := by omega
    have hd : A.drop off = [] := List.drop_of_length_le h'
    simp [hd] at hlen
    subst hlen
    simp [hd, List.take_of_length_le h']

theorem strClone_arrs (w : World) (p : Nat) : (w.strClone p).1.arrs = w.arrs ++ [w.sliceContent (w.strHdr p)] := rfl
theorem strClone_strs (w : World) (p : Nat) : (w.strClone p).1.strs = w.strs ++ [⟨w.arrs.length, 0, (w.sliceContent (w.strHdr p)).length, (w.sliceContent (w.strHdr p)).length⟩] := rfl
theorem strClone_snd (w : World) (p : Nat) : (w.strClone p).2 = w.strs.length := rfl

theorem arrAt_eq_getElem {w : World} {a : Nat} (ha : a < w.arrs.length) : w.arrAt a = w.arrs[a] := by
  simp [arrAt, List.getD_eq_getElem?_getD, List.getElem?_eq_getElem ha]

/-- `SortByIndex` leaves every pre-existing array exactly as it was: the in-place sort of the receiver's
    storage is undone by the final `copy`. -/
theorem strSortByIndex_arrs {w : World} (hw : Wf w) {p : Nat} (hp : p < w.strs.length) (less : Int → Int → Bool) :
    w.arrs <+: (w.strSortByIndex p less).1.arrs := by
  have ha := strHdr_arr_lt hw p
  rw [List.prefix_iff_getElem?]
  intro i hi
  -- name the intermediate worlds
  unfold strSortByIndex
  simp only
  generalize hw1 : (w.strClone p).1 = w1
  have e1 : w1.arrs = w.arrs ++ [w.sliceContent (w.strHdr p)] := by rw [← hw1]; rfl
  have es1 : w1.strs = w.strs ++ [⟨w.arrs.length, 0, (w.sliceContent (w.strHdr p)).length, (w.sliceContent (w.strHdr p)).length⟩] := by rw [← hw1]; rfl
  have hold : (w.strClone p).2 = w.strs.length := rfl
  rw [hold]
  have hs1 : w1.strHdr p = w.strHdr p := by
    simp [strHdr, es1, List.getD_eq_getElem?_getD, List.getElem?_append_left hp]
  rw [hs1]
  generalize hs : w.strHdr p = s at *
  have hA1 : w1.arrAt s.arr = w.arrAt s.arr := by
    simp [arrAt, e1, List.getD_eq_getElem?_getD, List.getElem?_append_left ha]
  have hc1 : w1.sliceContent s = w.sliceContent s := by simp [sliceContent, hA1]
  rw [hc1]
  generalize hc : w.sliceContent s = c at *
  generalize hsorted : Spec.sortBy less c = sorted
  have hsl : sorted.length = c.length := by rw [← hsorted]; simp [Spec.sortBy, List.length_mergeSort]
  generalize hw2 : w1.writeArr s.arr s.off sorted = w2
  have e2 : w2.arrs = w1.arrs.set s.arr ((w.arrAt s.arr).take s.off ++ sorted ++ (w.arrAt s.arr).drop (s.off + sorted.length)) := by
    rw [← hw2]; simp [writeArr, hA1]
  have es2 : w2.strs = w1.strs := by rw [← hw2]; rfl
  generalize hw3 : (w2.strClone p).1 = w3
  have e3 : w3.arrs = w2.arrs ++ [w2.sliceContent (w2.strHdr p)] := by rw [← hw3]; rfl
  have es3 : w3.strs = w2.strs ++ [⟨w2.arrs.length, 0, (w2.sliceContent (w2.strHdr p)).length, (w2.sliceContent (w2.strHdr p)).length⟩] := by rw [← hw3]; rfl
  -- the clone taken first still holds the old values
  have hlen1 : w1.arrs.length = w.arrs.length + 1 := by simp [e1]
  have hold3 : w3.strContent w.strs.length = c := by
    have h1 : w3.strHdr w.strs.length = ⟨w.arrs.length, 0, c.length, c.length⟩ := by
      simp [strHdr, es3, es2, es1, List.getD_eq_getElem?_getD, List.getElem?_append]
    have h2 : w3.arrAt w.arrs.length = c := by
      have hne : s.arr ≠ w.arrs.length := by omega
      simp [arrAt, e3, e2, e1, List.getD_eq_getElem?_getD, List.getElem?_append, hne]
    simp [strContent, h1, sliceContent, h2]
  rw [hold3]
  have hA3 : w3.arrAt s.arr = (w.arrAt s.arr).take s.off ++ sorted ++ (w.arrAt s.arr).drop (s.off + sorted.length) := by
    simp [arrAt, e3, e2, e1, List.getD_eq_getElem?_getD, List.getElem?_append, ha]
  simp only [writeArr, hA3]
  have hcdef : c = ((w.arrAt s.arr).drop s.off).take s.len := by rw [← hc]; rfl
  have hrest := restore_list (w.arrAt s.arr) s.off s.len sorted (by rw [hsl, hcdef])
  rw [← hcdef] at hrest
  rw [hrest]
  by_cases hia : s.arr = i
  · subst hia
    have : s.arr < w3.arrs.length := by simp [e3, e2, e1]; omega
    simp [this, arrAt_eq_getElem ha]
  · have h1 : i < w.arrs.length + 1 := by omega
    simp [hia, e3, e2, e1, List.getElem?_append, hi, h1]


theorem strSortByIndex_res {w : World} (hw : Wf w) {p : Nat} (hp : p < w.strs.length) (less : Int → Int → Bool) :
    StrRes w (w.strSortByIndex p less) := by
  have harrs := strSortByIndex_arrs hw hp less
  let w1 := (w.strClone p).1
  let s := w1.strHdr p
  let w2 := w1.writeArr s.arr s.off (Spec.sortBy less (w1.sliceContent s))
  let r3 := w2.strClone p
  have hres : w.strSortByIndex p less = (r3.1.writeArr s.arr s.off (r3.1.strContent (w.strClone p).2), r3.2) := rfl
  have g1 : StrRes w (w.strClone p) := strClone_res hw p
  have wf2 : Wf w2 := writeArr_wf g1.1.wf _ _ _
  have g3 : StrRes w2 r3 := strClone_res wf2 p
  rw [hres] at harrs ⊢
  refine ⟨⟨⟨harrs, ?_, ?_, ?_⟩, writeArr_wf g3.1.wf _ _ _⟩, g3.2⟩
  · exact g1.1.le.strs.trans g3.1.le.strs
  · exact g1.1.le.maps.trans g3.1.le.maps
  · exact g1.1.le.sets.trans g3.1.le.sets

end FpgoVerif.C04
