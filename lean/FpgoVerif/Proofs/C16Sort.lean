import FpgoVerif.Proofs.C16Live
/-! Canonical form of an unordered result: two permutations of each other have the same sorted form, and sorting
    commutes with a monotone function — so "a permutation of Map(f, list)" is decided by comparing sorted outputs. -/
namespace FpgoVerif.C16

theorem sorted_perm_eq : ∀ (xs ys : List Nat), xs.Pairwise (· ≤ ·) → ys.Pairwise (· ≤ ·) → xs.Perm ys → xs = ys := by
  intro xs
  induction xs with
  | nil => intro ys _ _ hp; exact (List.Perm.nil_eq hp)
  | cons x xs ih =>
    intro ys hx hy hp
    cases ys with
    | nil => exact absurd hp.symm (by intro h; have := h.length_eq; simp at this)
    | cons y ys =>
      have hxy : x = y := by
        have hx' := List.pairwise_cons.mp hx
        have hy' := List.pairwise_cons.mp hy
        have h1 : y ∈ x :: xs := hp.symm.subset (by simp)
        have h2 : x ∈ y :: ys := hp.subset (by simp)
        simp only [List.mem_cons] at h1 h2
        rcases h1 with h1 | h1
        · exact h1.symm
        · rcases h2 with h2 | h2
          · exact h2
          · have a := hx'.1 y h1
            have b := hy'.1 x h2
            omega
      subst hxy
      rw [ih ys (List.pairwise_cons.mp hx).2 (List.pairwise_cons.mp hy).2 (List.Perm.cons_inv hp)]

theorem sorted_mergeSort (l : List Nat) : (l.mergeSort leNat).Pairwise (· ≤ ·) := by
  have := List.pairwise_mergeSort (le := leNat) (by intro a b c; simp [leNat]; omega) (by intro a b; simp [leNat]; omega) l
  simpa [leNat] using this

/-- permutations have the same sorted form -/
theorem mergeSort_eq_of_perm {xs ys : List Nat} (h : xs.Perm ys) : xs.mergeSort leNat = ys.mergeSort leNat :=
  sorted_perm_eq _ _ (sorted_mergeSort xs) (sorted_mergeSort ys)
    ((List.mergeSort_perm xs leNat).trans (h.trans (List.mergeSort_perm ys leNat).symm))

/-- sorting commutes with a monotone function -/
theorem mergeSort_map_mono (g : Nat → Nat) (hg : ∀ a b, a ≤ b → g a ≤ g b) (l : List Nat) :
    (l.map g).mergeSort leNat = (l.mergeSort leNat).map g := by
  apply sorted_perm_eq _ _ (sorted_mergeSort _)
  · have := sorted_mergeSort l
    rw [List.pairwise_map]
    exact this.imp (fun h => hg _ _ h)
  · exact (List.mergeSort_perm _ leNat).trans ((List.mergeSort_perm l leNat).symm.map g)

end FpgoVerif.C16
