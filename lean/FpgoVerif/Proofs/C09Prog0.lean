import FpgoVerif.Proofs.C09Prog
/-! C09 — the progress invariant for the on-demand configuration of the property's quantifier:
    workerSizeStandBy = 0, workerBatchSize ≥ 1, workerSizeMaximum ≥ 1 and "an idle-expiry longer than the run",
    i.e. executions without `wExpire` steps (`ReachNE`).

    With standby = 0 the spawn loop's target can be 0 (empty queue at its two `Count()` reads, or — batch ≥ 2 —
    a queue that grew between the reads: n1 = 1, n2 = 2, batch = 2 gives 1/2 + (2 % 2 > 0) = 0).  The invariant
    therefore remembers, while the loop sits between the two reads, that the first read is still accurate unless
    somebody else is already responsible for the queued job (a worker, a pending token, a Schedule about to post it). -/
namespace FpgoVerif.C09

/-- executions in which no idle worker's expiry timer fires -/
inductive ReachNE (c : Cfg) : St → Prop
  | init : ReachNE c init
  | step {s t : St} {a : Act} : ReachNE c s → (∀ w, a ≠ .wExpire w) → step c s a = some t → ReachNE c t

theorem ReachNE.reach {c : Cfg} {s : St} (h : ReachNE c s) : Reach c s := by
  induction h with
  | init => exact Reach.init
  | step _ _ hs ih => exact Reach.step ih hs

/-- the spawn loop is awake and will reach generateWorkerWithMaximum with a positive target: it has not read the
    queue length yet, or its first read is still the length of the (non-empty) queue, or the target is positive -/
def spWill0 (s : St) : Bool :=
  match s.sp with
  | .awake | .cnt1 => true
  | .cnt2 n1 => decide (n1 = s.queue.length)
  | .computed e => decide (1 ≤ e)
  | .enter e => decide (1 ≤ e)
  | .loop i e => decide (i < e)
  | _ => false

def Good0 (s : St) : Prop :=
  (∃ w ∈ s.workers, helpW w = true) ∨ s.token = true ∨ (∃ sb ∈ s.subs, subTok sb = true) ∨ spWill0 s = true

instance (s : St) : Decidable (Good0 s) := by unfold Good0; exact inferInstance

structure InvG0 (s : St) : Prop where
  noX : s.closed = false → ∀ w ∈ s.workers, w ≠ .exitDec false
  clc : s.cl ≠ 0 → s.closed = true
  qcl : s.qclosed = true → s.closed = true
  spL : ∀ i e, s.sp = .loop i e → i < e
  good : s.closed = false → s.queue ≠ [] → Good0 s

theorem spWill0_congr {s t : St} (h1 : t.sp = s.sp) (h2 : t.queue = s.queue) : spWill0 t = spWill0 s := by
  unfold spWill0; rw [h1, h2]

theorem good0_congr {s t : St} (hw : t.workers = s.workers) (htk : s.token = true → t.token = true)
    (hsu : t.subs = s.subs) (hsp : t.sp = s.sp) (hq : t.queue = s.queue) (h : Good0 s) : Good0 t := by
  rcases h with h1 | h1 | h1 | h1
  · exact Or.inl (hw ▸ h1)
  · exact Or.inr (Or.inl (htk h1))
  · exact Or.inr (Or.inr (Or.inl (hsu ▸ h1)))
  · exact Or.inr (Or.inr (Or.inr (by rw [spWill0_congr hsp hq]; exact h1)))

/-- with batch ≥ 1 and max ≥ 1 an accurate, positive queue length gives a positive target -/
theorem expected_pos0 (c : Cfg) (n count busy : Nat) (jam : Bool) (hb : 1 ≤ c.batch) (hm : 1 ≤ c.max) (hn : 1 ≤ n) :
    1 ≤ expected c n n count busy jam := by
  unfold expected
  simp only []
  have h0 : 1 ≤ (if c.batch > 0 then n / c.batch + (if n % c.batch > 0 then 1 else 0) else 0) := by
    rw [if_pos (by omega)]
    by_cases hlt : n < c.batch
    · have hmod : n % c.batch > 0 := by rw [Nat.mod_eq_of_lt hlt]; omega
      rw [if_pos hmod]; exact Nat.le_add_left 1 _
    · have : 1 ≤ n / c.batch := (Nat.le_div_iff_mul_le (by omega)).mpr (by omega)
      exact Nat.le_trans this (Nat.le_add_right _ _)
  generalize (if c.batch > 0 then n / c.batch + (if n % c.batch > 0 then 1 else 0) else 0) = e0 at h0
  have h1' : 1 ≤ (if c.standby > e0 then c.standby else e0) := by split <;> omega
  generalize (if c.standby > e0 then c.standby else e0) = e1 at h1'
  have h2' : 1 ≤ (if c.max > 0 ∧ e1 > c.max then c.max else e1) := by split <;> omega
  generalize (if c.max > 0 ∧ e1 > c.max then c.max else e1) = e2 at h2'
  split <;> omega

theorem stepW_frame0 {c : Cfg} {s t : St} {a : Act} (h : stepW c s a = some t) :
    t.qclosed = s.qclosed ∧ t.cl = s.cl ∧ t.sp = s.sp ∧ t.subs = s.subs := by
  cases a <;> simp only [stepW] at h <;> step_split h <;> exact ⟨rfl, rfl, rfl, rfl⟩

theorem genWorker_frame0 (c : Cfg) (s : St) (m : Nat) :
    (genWorker c s m).qclosed = s.qclosed ∧ (genWorker c s m).cl = s.cl ∧ (genWorker c s m).subs = s.subs ∧
    (genWorker c s m).token = s.token := by
  unfold genWorker; split <;> simp

theorem stepSub_frame0 {c : Cfg} {s t : St} {a : Act} (h : stepSub c s a = some t) :
    t.qclosed = s.qclosed ∧ t.cl = s.cl ∧ t.sp = s.sp ∧ t.workers = s.workers := by
  cases a <;> simp only [stepSub] at h <;> step_split h
  all_goals first
    | exact ⟨rfl, rfl, rfl, rfl⟩
    | (have hf := afterSchedule_frame { s with token := true } ‹Nat› ‹Sub› ‹Res›
       refine ⟨hf.2.2.2.2.2.2.2.2.2.2.2.2.2, ?_, hf.2.2.2.2.2.2.2.2.2.2.2.2.1, hf.2.2.1⟩
       unfold afterSchedule; repeat' split
       all_goals simp [setS])

theorem stepW_invG0 {c : Cfg} {s t : St} {a : Act} (hne : ∀ w, a ≠ .wExpire w)
    (h : stepW c s a = some t) (hw0 : InvW c s) (hi : InvG0 s) : InvG0 t := by
  have hcl := stepW_closed h
  have hfr := stepW_frame0 h
  have hnx : ∀ (i : Nat) (w w' : WPc), s.workers[i]? = some w → (s.closed = false → w' ≠ WPc.exitDec false) →
      s.closed = false → ∀ x ∈ s.workers.set i w', x ≠ WPc.exitDec false := by
    intro i w w' _ h2 hc x hm
    rcases List.mem_or_eq_of_mem_set hm with h1 | h1
    · exact hi.noX hc x h1
    · subst h1; exact h2 hc
  have hclc : t.cl ≠ 0 → t.closed = true := fun h0 => hcl ▸ hi.clc (hfr.2.1 ▸ h0)
  have hqcl : t.qclosed = true → t.closed = true := fun h0 => hcl ▸ hi.qcl (hfr.1 ▸ h0)
  have hspL : ∀ i e, t.sp = .loop i e → i < e := fun i e h0 => hi.spL i e (hfr.2.2.1 ▸ h0)
  cases a <;> simp only [stepW] at h
  case wExpire w => exact absurd rfl (hne w)
  all_goals step_split h
  all_goals (
    have hw := ‹s.workers[_]? = some _›
    refine ⟨fun hc => ?_, hclc, hqcl, hspL, ?_⟩
    · have hc' : s.closed = false := hcl ▸ hc
      simp only [setW]
      exact hnx _ _ _ hw (by simp_all) hc'
    intro hc hq
    have hc' : s.closed = false := hcl ▸ hc
    first
      | exact Or.inl ⟨_, self_mem_set _ hw, rfl⟩
      | exact Or.inr (Or.inl rfl)
      | (exfalso; exact hi.noX hc' _ (List.mem_of_getElem? hw) rfl)
      | (exfalso; simp_all; done))

theorem genWorker_good0 {c : Cfg} {s : St} (m : Nat) (h : Good0 s) : Good0 (genWorker c s m) := by
  have hq := genWorker_queue c s m
  have hf := genWorker_frame0 c s m
  rcases h with ⟨w, hm, hw⟩ | h | h | h
  · refine Or.inl ⟨w, ?_, hw⟩
    unfold genWorker; split
    · exact hm
    · simp [hm]
  · exact Or.inr (Or.inl (hf.2.2.2 ▸ h))
  · exact Or.inr (Or.inr (Or.inl (hf.2.2.1 ▸ h)))
  · exact Or.inr (Or.inr (Or.inr (by rw [spWill0_congr hq.2 hq.1]; exact h)))

theorem stepPool_invG0 {c : Cfg} {s t : St} {a : Act} (hb : 1 ≤ c.batch) (hm : 1 ≤ c.max)
    (h : stepPool c s a = some t) (hw0 : InvW c s) (hi : InvG0 s) : InvG0 t := by
  have hwt : InvW c t := stepPool_invW h hw0
  cases a <;> simp only [stepPool] at h
  case closeFlag =>
    step_split h
    exact ⟨fun hc => by simp at hc, fun _ => rfl, fun _ => rfl, hi.spL, fun hc => by simp at hc⟩
  case closeQueue keep =>
    step_split h
    · next h1 _ =>
      have hc : s.closed = true := hi.clc (by omega)
      exact ⟨fun h0 => by simp [hc] at h0, fun _ => hc, fun _ => hc, hi.spL, fun h0 => by simp [hc] at h0⟩
    · next h1 _ =>
      have hc : s.closed = true := hi.clc (by omega)
      exact ⟨fun h0 => by simp [hc] at h0, fun _ => hc, fun _ => hc, hi.spL, fun h0 => by simp [hc] at h0⟩
  case spWake =>
    step_split h
    exact ⟨hi.noX, hi.clc, hi.qcl, by simp, fun _ _ => Or.inr (Or.inr (Or.inr rfl))⟩
  case spCheck =>
    step_split h
    · exact ⟨hi.noX, hi.clc, hi.qcl, by simp, fun hc => by simp_all⟩
    · exact ⟨hi.noX, hi.clc, hi.qcl, by simp, fun _ _ => Or.inr (Or.inr (Or.inr rfl))⟩
  case spCnt1 =>
    step_split h
    refine ⟨hi.noX, hi.clc, hi.qcl, by simp, fun hc _ => Or.inr (Or.inr (Or.inr ?_))⟩
    have hq : s.qclosed = false := by
      cases hqc : s.qclosed with
      | false => rfl
      | true => have := hi.qcl hqc; simp [this] at hc
    simp [spWill0, qcount, hq]
  case spCnt2 jam =>
    step_split h
    next n1 hsp =>
    refine ⟨hi.noX, hi.clc, hi.qcl, by simp, fun hc hq => ?_⟩
    have hc' : s.closed = false := hc
    have hq' : s.queue ≠ [] := hq
    rcases hi.good hc' hq' with h1 | h1 | h1 | h1
    · exact Or.inl h1
    · exact Or.inr (Or.inl h1)
    · exact Or.inr (Or.inr (Or.inl h1))
    · refine Or.inr (Or.inr (Or.inr ?_))
      have hqc : s.qclosed = false := by
        cases hqc : s.qclosed with
        | false => rfl
        | true => have := hi.qcl hqc; simp [this] at hc'
      have hn1 : n1 = s.queue.length := by simpa [spWill0, hsp] using h1
      have hlen : 1 ≤ s.queue.length := by
        cases hl : s.queue with
        | nil => exact absurd hl hq'
        | cons _ _ => simp
      have := expected_pos0 c s.queue.length s.count s.busy jam hb hm hlen
      simp [spWill0, qcount, hqc, hn1]
      exact this
  case spRead =>
    step_split h
    · next e hsp hlt =>
      exact ⟨hi.noX, hi.clc, hi.qcl, by simp,
        fun _ _ => Or.inr (Or.inr (Or.inr (by simp [spWill0]; omega)))⟩
    · next e hsp hge =>
      refine ⟨hi.noX, hi.clc, hi.qcl, by simp, fun hc hq => ?_⟩
      rcases hi.good hc hq with h1 | h1 | h1 | h1
      · exact Or.inl h1
      · exact Or.inr (Or.inl h1)
      · exact Or.inr (Or.inr (Or.inl h1))
      · have he : 1 ≤ e := by simpa [spWill0, hsp] using h1
        exact Or.inl (alive_help (s := s) hw0 (hi.noX hc) (by omega))
  case spInit =>
    step_split h
    · next e hsp hlt =>
      exact ⟨hi.noX, hi.clc, hi.qcl, by intro i e' h1; simp at h1; omega,
        fun _ _ => Or.inr (Or.inr (Or.inr (by simp [spWill0]; exact hlt)))⟩
    · next e hsp hge =>
      refine ⟨hi.noX, hi.clc, hi.qcl, by simp, fun hc hq => ?_⟩
      rcases hi.good hc hq with h1 | h1 | h1 | h1
      · exact Or.inl h1
      · exact Or.inr (Or.inl h1)
      · exact Or.inr (Or.inr (Or.inl h1))
      · have he : 1 ≤ e := by simpa [spWill0, hsp] using h1
        exact Or.inl (alive_help (s := s) hw0 (hi.noX hc) (by omega))
  case spGen =>
    split at h <;> try (simp at h; done)
    rename_i x i e hsp
    split at h <;> try (simp at h; done)
    rename_i hlt
    injection h with h; subst h
    have hq := genWorker_queue c s e
    have hf := genWorker_frame0 c s e
    have hcl := genWorker_closed c s e
    refine ⟨fun hc => genWorker_noX e (hi.noX (hcl ▸ hc)), fun h0 => hcl ▸ hi.clc (hf.2.1 ▸ h0),
      fun h0 => hcl ▸ hi.qcl (hf.1 ▸ h0), ?_, fun hc _ => Or.inl ?_⟩
    · intro i' e' h1; simp at h1; split at h1 <;> simp at h1; omega
    · exact genWorker_help e hm (by omega) hw0 (hi.noX (hcl ▸ hc))
  case spSleep =>
    step_split h
    next hsp =>
    refine ⟨hi.noX, hi.clc, hi.qcl, by simp, fun hc hq => ?_⟩
    rcases hi.good hc hq with h1 | h1 | h1 | h1
    · exact Or.inl h1
    · exact Or.inr (Or.inl h1)
    · exact Or.inr (Or.inr (Or.inl h1))
    · simp [spWill0, hsp] at h1
  case gen m =>
    injection h with h; subst h
    have hq := genWorker_queue c s m
    have hf := genWorker_frame0 c s m
    have hcl := genWorker_closed c s m
    refine ⟨fun hc => genWorker_noX m (hi.noX (hcl ▸ hc)), fun h0 => hcl ▸ hi.clc (hf.2.1 ▸ h0),
      fun h0 => hcl ▸ hi.qcl (hf.1 ▸ h0), ?_, fun hc hqq => ?_⟩
    · rw [hq.2]; exact hi.spL
    · exact genWorker_good0 m (hi.good (hcl ▸ hc) (hq.1 ▸ hqq))
  case notify =>
    step_split h
    · exact ⟨hi.noX, hi.clc, hi.qcl, hi.spL, fun _ _ => Or.inr (Or.inl rfl)⟩
    · exact ⟨hi.noX, hi.clc, hi.qcl, hi.spL, hi.good⟩
  case setHandler on =>
    injection h with h; subst h
    exact ⟨hi.noX, hi.clc, hi.qcl, hi.spL, fun hc hq => good0_congr rfl id rfl rfl rfl (hi.good hc hq)⟩
  all_goals simp at h

/-- Good0 survives a submission changing its own entry, as long as that entry was not the token poster -/
theorem good0_setS {s t : St} {i : Nat} {sb sb' : Sub} (hsb : s.subs[i]? = some sb)
    (hw : t.workers = s.workers) (htk : s.token = true → t.token = true) (hsp : t.sp = s.sp) (hq : t.queue = s.queue)
    (hsu : t.subs = s.subs.set i sb') (hp : subTok sb = true → subTok sb' = true ∨ t.token = true)
    (h : Good0 s) : Good0 t := by
  rcases h with h1 | h1 | h1 | h1
  · exact Or.inl (hw ▸ h1)
  · exact Or.inr (Or.inl (htk h1))
  · by_cases hq' : subTok sb = true
    · rcases hp hq' with h2 | h2
      · exact Or.inr (Or.inr (Or.inl ⟨sb', hsu ▸ self_mem_set sb' hsb, h2⟩))
      · exact Or.inr (Or.inl h2)
    · refine Or.inr (Or.inr (Or.inl ?_))
      rw [hsu]
      exact exists_set sb' hsb h1 (fun hh => absurd hh hq')
  · exact Or.inr (Or.inr (Or.inr (by rw [spWill0_congr hsp hq]; exact h1)))

theorem stepSub_invG0 {c : Cfg} {s t : St} {a : Act} (h : stepSub c s a = some t) (hi : InvG0 s) : InvG0 t := by
  have hcl := stepSub_closed h
  have hfr := stepSub_frame0 h
  have hnoX : t.closed = false → ∀ w ∈ t.workers, w ≠ .exitDec false := fun hc => hfr.2.2.2 ▸ hi.noX (hcl ▸ hc)
  have hclc : t.cl ≠ 0 → t.closed = true := fun h0 => hcl ▸ hi.clc (hfr.2.1 ▸ h0)
  have hqcl : t.qclosed = true → t.closed = true := fun h0 => hcl ▸ hi.qcl (hfr.1 ▸ h0)
  have hspL : ∀ i e, t.sp = .loop i e → i < e := fun i e h0 => hi.spL i e (hfr.2.2.1 ▸ h0)
  refine ⟨hnoX, hclc, hqcl, hspL, ?_⟩
  cases a <;> simp only [stepSub, afterSchedule] at h
  case submit timed =>
    injection h with h; subst h
    intro hc hq
    rcases hi.good hc hq with h1 | h1 | ⟨sb, hm, hsb⟩ | h1
    · exact Or.inl h1
    · exact Or.inr (Or.inl h1)
    · exact Or.inr (Or.inr (Or.inl ⟨sb, by simp [hm], hsb⟩))
    · exact Or.inr (Or.inr (Or.inr h1))
  case sOffer i full =>
    step_split h
    all_goals (
      have hs := ‹s.subs[i]? = some _›
      exact fun _ _ => Or.inr (Or.inr (Or.inl ⟨_, self_mem_set _ hs, rfl⟩)))
  case sToken i =>
    step_split h
    all_goals exact fun _ _ => Or.inr (Or.inl rfl)
  case sCheck i =>
    step_split h
    all_goals (
      have hs := ‹s.subs[i]? = some _›
      refine fun hc hq => good0_setS hs rfl id rfl rfl rfl ?_ (hi.good hc hq)
      simp_all [subTok])
  case sLoopCheck i =>
    step_split h
    all_goals (
      have hs := ‹s.subs[i]? = some _›
      refine fun hc hq => good0_setS hs rfl id rfl rfl rfl ?_ (hi.good hc hq)
      simp_all [subTok])
  case sDeadline i =>
    step_split h
    all_goals (
      have hs := ‹s.subs[i]? = some _›
      refine fun hc hq => good0_setS hs rfl id rfl rfl rfl ?_ (hi.good hc hq)
      simp_all [subTok])
  case deadline i =>
    step_split h
    all_goals (
      have hs := ‹s.subs[i]? = some _›
      refine fun hc hq => good0_setS hs rfl id rfl rfl rfl ?_ (hi.good hc hq)
      simp_all [subTok])
  all_goals simp at h

theorem step_invG0 {c : Cfg} {s t : St} {a : Act} (hb : 1 ≤ c.batch) (hm : 1 ≤ c.max) (hne : ∀ w, a ≠ .wExpire w)
    (h : step c s a = some t) (hw : InvW c s) (hi : InvG0 s) : InvG0 t := by
  cases a <;> simp only [step] at h <;>
    first | exact stepSub_invG0 h hi | exact stepPool_invG0 hb hm h hw hi | exact stepW_invG0 hne h hw hi

theorem init_invG0 : InvG0 init :=
  ⟨fun _ w hw => by simp [init] at hw, fun h => by simp [init] at h, fun h => by simp [init] at h,
   fun i e h => by simp [init] at h, fun _ hq => by simp [init] at hq⟩

theorem reachNE_invG0 {c : Cfg} {s : St} (hb : 1 ≤ c.batch) (hm : 1 ≤ c.max) (h : ReachNE c s) : InvG0 s := by
  induction h with
  | init => exact init_invG0
  | step hr hne hst ih => exact step_invG0 hb hm hne hst (reach_invW hr.reach) ih

theorem reachNE_runActs {c : Cfg} {s t : St} (acts : List Act) (hne : ∀ a ∈ acts, ∀ w, a ≠ .wExpire w)
    (hr : ReachNE c s) (h : runActs c s acts = some t) : ReachNE c t := by
  induction acts generalizing s with
  | nil => simp [runActs] at h; subst h; exact hr
  | cons a as ih =>
    simp only [runActs] at h
    split at h
    · next u hu =>
      exact ih (fun b hb => hne b (by simp [hb])) (ReachNE.step hr (hne a (by simp)) hu) h
    · simp at h

end FpgoVerif.C09
