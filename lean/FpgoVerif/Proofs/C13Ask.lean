import FpgoVerif.Model.C13Ask
/-! Invariant of the Ask/Reply transition system (repaired code, `legacy = false`). -/
namespace FpgoVerif.C13

/-- 1 if the actor currently holds request `i` (computing it or inside `Reply`) -/
def actorHolds (a : APc) (i : Nat) : Nat :=
  match a with
  | .idle => 0
  | .computing k => if k = i then 1 else 0
  | .replying k _ => if k = i then 1 else 0

/-- how many tokens of request `i` are in the system: in the mailbox, with the actor, in the reply buffer -/
def holds (s : St) (i : Nat) : Nat := s.mbox.count i + actorHolds s.actor i + (s.asker i).buf.length

/-- the value the actor computes for request `i` -/
def answer (c : Cfg) (s : St) (i : Nat) : Nat := c.reply i (s.asker i).payload

def PhaseOf (pc : Pc) (h : Nat) (chC dnC : Bool) (kind : Kind) (ans : Nat) : Prop :=
  match pc with
  | .idle => h = 0 ∧ chC = false ∧ dnC = false
  | .sending => h = 0 ∧ chC = false ∧ dnC = false
  | .waiting => h = 1 ∧ chC = false ∧ dnC = false
  | .fired => h = 1 ∧ chC = false ∧ dnC = false ∧ kind = .timeout
  | .got v => h = 0 ∧ chC = false ∧ dnC = false ∧ v = ans
  | .retV v => h = 0 ∧ dnC = false ∧ v = ans
  | .retT => h ≤ 1 ∧ chC = false ∧ dnC = true ∧ kind = .timeout
  | .holding => h = 1 ∧ chC = false ∧ dnC = false

theorem phaseOf_afterSend (k : Kind) (h : Nat) (c d : Bool) (k' : Kind) (a : Nat) :
    PhaseOf (afterSend k) h c d k' a ↔ (h = 1 ∧ c = false ∧ d = false) := by
  cases k <;> simp [afterSend, PhaseOf]

def Phase (c : Cfg) (s : St) (i : Nat) : Prop :=
  PhaseOf (s.asker i).pc (holds s i) (s.asker i).chClosed (s.asker i).doneClosed (s.asker i).kind (answer c s i)

structure Inv (c : Cfg) (s : St) : Prop where
  np : s.panicked = false
  ph : ∀ i, Phase c s i
  bufOK : ∀ i v, v ∈ (s.asker i).buf → v = answer c s i
  actOK : ∀ i v, s.actor = .replying i v → v = answer c s i

theorem inv_init (c : Cfg) (spec) : Inv c (St.init spec) := by
  refine ⟨rfl, ?_, ?_, ?_⟩
  · intro i; simp [Phase, PhaseOf, St.init, holds, actorHolds]
  · intro i v h; simp [St.init] at h
  · intro i v h; simp [St.init] at h

theorem count_snoc (l : List Nat) (i k : Nat) : (l ++ [i]).count k = l.count k + (if i = k then 1 else 0) := by
  rw [List.count_append]; simp [List.count_cons]

theorem count_cons' (l : List Nat) (i k : Nat) : (i :: l).count k = l.count k + (if i = k then 1 else 0) := by
  simp [List.count_cons]

/-- the static part of a request (kind, payload, capacity of its reply channel) never changes -/
theorem step_static {c : Cfg} {s t : St} (a : Act) (h : step c s a = some t) (k : Nat) :
    (t.asker k).payload = (s.asker k).payload ∧ (t.asker k).kind = (s.asker k).kind ∧
    (t.asker k).rcap = (s.asker k).rcap := by
  cases a <;> simp only [step] at h <;> (repeat' split at h) <;> cases h <;>
    first
    | exact ⟨rfl, rfl, rfl⟩
    | (simp only [St.setPc, upd]; split <;> (first | exact ⟨rfl, rfl, rfl⟩ | (subst_vars; exact ⟨rfl, rfl, rfl⟩)))

theorem phase_congr {c : Cfg} (s : St) {t : St} {k : Nat} (ha : t.asker k = s.asker k) (hh : holds t k = holds s k)
    (h : Phase c s k) : Phase c t k := by
  unfold Phase answer at *
  rw [ha, hh]; exact h

theorem step_inv {c : Cfg} {s t : St} (hl : c.legacy = false) (a : Act) (hi : Inv c s) (h : step c s a = some t) :
    Inv c t := by
  obtain ⟨np, ph, bufOK, actOK⟩ := hi
  have hans : ∀ k, answer c t k = answer c s k := fun k => by simp only [answer, (step_static a h k).1]
  cases a with
  | call i =>
    simp only [step] at h
    split at h
    · next hpc =>
      cases h
      refine ⟨np, ?_, ?_, ?_⟩
      · intro k
        by_cases e : k = i
        · subst e
          have hp := ph k
          simp only [Phase, hpc, PhaseOf] at hp
          simp only [Phase, St.setPc, upd_same, PhaseOf]
          exact ⟨by simpa [holds] using hp.1, hp.2⟩
        · exact phase_congr s (by simp [St.setPc, e]) (by simp [St.setPc, holds, e]) (ph k)
      · intro k v hv
        rw [hans]; apply bufOK
        by_cases e : k = i
        · subst e; simpa [St.setPc] using hv
        · simpa [St.setPc, e] using hv
      · intro k v hv; rw [hans]; exact actOK k v hv
    · cases h
  | send i =>
    simp only [step] at h
    split at h
    · next hpc =>
      split at h
      · cases h
        refine ⟨np, ?_, ?_, ?_⟩
        · intro k
          by_cases e : k = i
          · subst e
            have hp := ph k
            simp only [Phase, hpc, PhaseOf] at hp
            simp only [Phase, St.setPc, upd_same, phaseOf_afterSend]
            refine ⟨?_, hp.2⟩
            have h0 := hp.1
            simp only [holds, upd_same, count_snoc, if_true, if_pos rfl] at h0 ⊢
            omega
          · have hne : i ≠ k := fun h => e h.symm
            exact phase_congr s (by simp [St.setPc, e]) (by simp [St.setPc, holds, e, count_snoc, hne]) (ph k)
        · intro k v hv
          rw [hans]; apply bufOK
          by_cases e : k = i
          · subst e; simpa [St.setPc] using hv
          · simpa [St.setPc, e] using hv
        · intro k v hv; rw [hans]; exact actOK k v hv
      · split at h
        · next hd =>
          cases h
          obtain ⟨_, hmb, hact⟩ := hd
          refine ⟨np, ?_, ?_, ?_⟩
          · intro k
            by_cases e : k = i
            · subst e
              have hp := ph k
              simp only [Phase, hpc, PhaseOf] at hp
              simp only [Phase, St.setPc, upd_same, phaseOf_afterSend]
              refine ⟨?_, hp.2⟩
              have h0 := hp.1
              simp only [holds, upd_same, hact, actorHolds, if_true, if_pos rfl] at h0 ⊢
              omega
            · have hne : i ≠ k := fun h => e h.symm
              exact phase_congr s (by simp [St.setPc, e]) (by simp [St.setPc, holds, e, hact, actorHolds, hne]) (ph k)
          · intro k v hv
            rw [hans]; apply bufOK
            by_cases e : k = i
            · subst e; simpa [St.setPc] using hv
            · simpa [St.setPc, e] using hv
          · intro k v hv; cases hv
        · cases h
    · cases h
  | take =>
    simp only [step] at h
    split at h
    · next i rest hact hmb =>
      cases h
      refine ⟨np, ?_, fun k v hv => by rw [hans]; exact bufOK k v hv, ?_⟩
      · intro k
        refine phase_congr s rfl ?_ (ph k)
        simp only [holds, hact, hmb, actorHolds, count_cons']
        omega
      · intro k v hv; cases hv
    · cases h
  | compute =>
    simp only [step] at h
    split at h
    · next i hact =>
      cases h
      refine ⟨np, ?_, fun k v hv => by rw [hans]; exact bufOK k v hv, ?_⟩
      · intro k
        refine phase_congr s rfl ?_ (ph k)
        simp only [holds, hact, actorHolds]
      · intro k v hv; cases hv; rfl
    · cases h
  | replySend =>
    simp only [step] at h
    split at h
    · next i v hact =>
      have hv := actOK i v hact
      have hphi := ph i
      have hh : 1 ≤ holds s i := by simp only [holds, hact, actorHolds, if_true, if_pos rfl]; omega
      split at h
      · -- closed reply channel: impossible, the asker has returned with the value and nothing is outstanding
        next hcl =>
        exfalso
        unfold Phase at hphi
        cases hpc : (s.asker i).pc <;> rw [hpc] at hphi <;> simp only [PhaseOf] at hphi
        all_goals first
          | (have := hphi.2.1; rw [hcl] at this; cases this)
          | omega
      · split at h
        · next hcl hroom =>
          cases h
          refine ⟨np, ?_, ?_, ?_⟩
          · intro k
            by_cases e : k = i
            · subst e
              unfold Phase at hphi ⊢
              simp only [upd_same, hans]
              have hnew : holds { s with asker := upd s.asker k { s.asker k with buf := (s.asker k).buf ++ [v] },
                                         actor := APc.idle, served := s.served ++ [k] } k = holds s k := by
                simp only [holds, upd_same, hact, actorHolds, if_true, if_pos rfl, List.length_append, List.length_cons,
                  List.length_nil]
                omega
              rw [hnew]; exact hphi
            · have hne : i ≠ k := fun h => e h.symm
              exact phase_congr s (by simp [e]) (by simp [holds, e, hact, actorHolds, hne]) (ph k)
          · intro k w hw
            rw [hans]
            by_cases e : k = i
            · subst e
              simp only [upd_same, List.mem_append, List.mem_singleton] at hw
              rcases hw with hw | hw
              · exact bufOK k w hw
              · subst hw; exact hv
            · exact bufOK k w (by simpa [e] using hw)
          · intro k w hw; cases hw
        · split at h
          · next hd =>
            cases h
            obtain ⟨_, hpc, hb⟩ := hd
            refine ⟨np, ?_, ?_, ?_⟩
            · intro k
              by_cases e : k = i
              · subst e
                simp only [Phase, hpc, PhaseOf] at hphi
                simp only [Phase, upd_same, PhaseOf, hans]
                refine ⟨?_, hphi.2.1, hphi.2.2, hv⟩
                have h0 := hphi.1
                simp only [holds, upd_same, hact, actorHolds, if_true, if_pos rfl] at h0 ⊢
                omega
              · have hne : i ≠ k := fun h => e h.symm
                exact phase_congr s (by simp [e]) (by simp [holds, e, hact, actorHolds, hne]) (ph k)
            · intro k w hw
              rw [hans]; apply bufOK
              by_cases e : k = i
              · subst e; simpa using hw
              · simpa [e] using hw
            · intro k w hw; cases hw
          · cases h
    · cases h
  | replyDone =>
    simp only [step] at h
    split at h
    · next i v hact =>
      split at h
      · next hd =>
        cases h
        have hphi := ph i
        have hh : 1 ≤ holds s i := by simp only [holds, hact, actorHolds, if_true, if_pos rfl]; omega
        refine ⟨np, ?_, fun k v hv => by rw [hans]; exact bufOK k v hv, ?_⟩
        · intro k
          by_cases e : k = i
          · subst e
            unfold Phase at hphi ⊢
            have hdc := hd.1
            have hnew : holds { s with actor := APc.idle, served := s.served ++ [k] } k + 1 = holds s k := by
              simp only [holds, hact, actorHolds, if_true, if_pos rfl]; omega
            cases hpc : (s.asker k).pc <;> rw [hpc] at hphi <;> simp only [PhaseOf] at hphi ⊢
            all_goals first
              | exact ⟨by omega, hphi.2⟩
              | (exfalso; simp_all)
          · have hne : i ≠ k := fun h => e h.symm
            exact phase_congr s rfl (by simp [holds, hact, actorHolds, hne]) (ph k)
        · intro k w hw; cases hw
      · cases h
    · cases h
  | recv i =>
    simp only [step] at h
    split at h
    · next hpc =>
      split at h
      · next v rest hb =>
        cases h
        have hphi := ph i
        have hv := bufOK i v (by rw [hb]; exact List.mem_cons_self)
        refine ⟨np, ?_, ?_, ?_⟩
        · intro k
          by_cases e : k = i
          · subst e
            simp only [Phase, hpc, PhaseOf] at hphi
            simp only [Phase, upd_same, PhaseOf, hans]
            refine ⟨?_, hphi.2.1, hphi.2.2, hv⟩
            have h0 := hphi.1
            simp only [holds, upd_same, hb, List.length_cons] at h0 ⊢
            omega
          · exact phase_congr s (by simp [e]) (by simp [holds, e]) (ph k)
        · intro k w hw
          rw [hans]; apply bufOK
          by_cases e : k = i
          · subst e
            simp only [upd_same] at hw
            rw [hb]; exact List.mem_cons_of_mem _ hw
          · simpa [e] using hw
        · intro k w hw; rw [hans]; exact actOK k w hw
      · cases h
    · cases h
  | fire i =>
    simp only [step] at h
    split at h
    · next hd =>
      cases h
      refine ⟨np, ?_, ?_, ?_⟩
      · intro k
        by_cases e : k = i
        · subst e
          have hp := ph k
          simp only [Phase, hd.1, PhaseOf] at hp
          simp only [Phase, St.setPc, upd_same, PhaseOf]
          exact ⟨by simpa [holds] using hp.1, hp.2.1, hp.2.2, hd.2⟩
        · exact phase_congr s (by simp [St.setPc, e]) (by simp [St.setPc, holds, e]) (ph k)
      · intro k v hv
        rw [hans]; apply bufOK
        by_cases e : k = i
        · subst e; simpa [St.setPc] using hv
        · simpa [St.setPc, e] using hv
      · intro k v hv; rw [hans]; exact actOK k v hv
    · cases h
  | giveUp i =>
    simp only [step, hl] at h
    split at h
    · next hpc =>
      simp only [Bool.false_eq_true, if_false] at h
      cases h
      refine ⟨np, ?_, ?_, ?_⟩
      · intro k
        by_cases e : k = i
        · subst e
          have hp := ph k
          simp only [Phase, hpc, PhaseOf] at hp
          simp only [Phase, upd_same, PhaseOf]
          refine ⟨?_, hp.2.1, by trivial, hp.2.2.2⟩
          have h0 := hp.1
          simp only [holds, upd_same] at h0 ⊢
          omega
        · exact phase_congr s (by simp [e]) (by simp [holds, e]) (ph k)
      · intro k v hv
        rw [hans]; apply bufOK
        by_cases e : k = i
        · subst e; simpa using hv
        · simpa [e] using hv
      · intro k v hv; rw [hans]; exact actOK k v hv
    · cases h
  | finish i =>
    simp only [step] at h
    split at h
    · next v hpc =>
      have hphi := ph i
      simp only [Phase, hpc, PhaseOf] at hphi
      split at h
      · cases h
        refine ⟨np, ?_, ?_, ?_⟩
        · intro k
          by_cases e : k = i
          · subst e
            simp only [Phase, St.setPc, upd_same, PhaseOf]
            exact ⟨by simpa [holds] using hphi.1, hphi.2.2.1, by
              have ha := hans k; simp only [St.setPc] at ha; rw [ha]; exact hphi.2.2.2⟩
          · exact phase_congr s (by simp [St.setPc, e]) (by simp [St.setPc, holds, e]) (ph k)
        · intro k w hw
          rw [hans]; apply bufOK
          by_cases e : k = i
          · subst e; simpa [St.setPc] using hw
          · simpa [St.setPc, e] using hw
        · intro k w hw; rw [hans]; exact actOK k w hw
      · split at h
        · next hcl => rw [hphi.2.1] at hcl; cases hcl
        · cases h
          refine ⟨np, ?_, ?_, ?_⟩
          · intro k
            by_cases e : k = i
            · subst e
              simp only [Phase, upd_same, PhaseOf, hans]
              exact ⟨by simpa [holds] using hphi.1, hphi.2.2.1, hphi.2.2.2⟩
            · exact phase_congr s (by simp [e]) (by simp [holds, e]) (ph k)
          · intro k w hw
            rw [hans]; apply bufOK
            by_cases e : k = i
            · subst e; simpa using hw
            · simpa [e] using hw
          · intro k w hw; rw [hans]; exact actOK k w hw
    · cases h

  | read i =>
    simp only [step] at h
    split at h
    · next hpc =>
      cases h
      refine ⟨np, ?_, ?_, ?_⟩
      · intro k
        by_cases e : k = i
        · subst e
          have hp := ph k
          simp only [Phase, hpc, PhaseOf] at hp
          simp only [Phase, St.setPc, upd_same, PhaseOf]
          exact ⟨by simpa [holds] using hp.1, hp.2⟩
        · exact phase_congr s (by simp [St.setPc, e]) (by simp [St.setPc, holds, e]) (ph k)
      · intro k v hv
        rw [hans]; apply bufOK
        by_cases e : k = i
        · subst e; simpa [St.setPc] using hv
        · simpa [St.setPc, e] using hv
      · intro k v hv; rw [hans]; exact actOK k v hv
    · cases h

theorem reach_inv {c : Cfg} {spec s} (hl : c.legacy = false) (h : Reach c spec s) : Inv c s := by
  induction h with
  | init => exact inv_init c spec
  | step a _ hs ih => exact step_inv hl a ih hs

theorem reach_run {c spec} : ∀ (acts : List Act) {s t}, Reach c spec s → runActs c s acts = some t → Reach c spec t
  | [], s, t, hr, h => by simp only [runActs] at h; cases h; exact hr
  | a :: as, s, t, hr, h => by
    simp only [runActs] at h
    split at h
    · next u hu => exact reach_run as (Reach.step a hr hu) h
    · cases h

theorem reach_of_run {c spec} (acts : List Act) {t} (h : runActs c (St.init spec) acts = some t) : Reach c spec t :=
  reach_run acts Reach.init h

theorem reach_static {c spec s} (h : Reach c spec s) (k : Nat) :
    (s.asker k).payload = (spec k).2.1 ∧ (s.asker k).kind = (spec k).1 ∧ (s.asker k).rcap = (spec k).2.2 := by
  induction h with
  | init => exact ⟨rfl, rfl, rfl⟩
  | step a _ hs ih =>
    have := step_static a hs k
    exact ⟨this.1.trans ih.1, this.2.1.trans ih.2.1, this.2.2.trans ih.2.2⟩

/-- the actor inside `Reply` can always get out: by delivering, by buffering, by seeing `done`, or — when the
    asker's timer has fired but `done` is not closed yet, or an AskChannel caller holds the channel without reading
    yet — after the asker's own next atom -/
theorem Inv.reply_progress {c : Cfg} {s : St} (hl : c.legacy = false) (hi : Inv c s) {i v : Nat}
    (ha : s.actor = .replying i v) :
    ((step c s .replySend).isSome = true ∧ (s.asker i).chClosed = false) ∨ (step c s .replyDone).isSome = true ∨
      ((s.asker i).pc = .fired ∧ (step c s (.giveUp i)).isSome = true) ∨
      ((s.asker i).pc = .holding ∧ (step c s (.read i)).isSome = true) := by
  have hp := hi.ph i
  have hh : s.mbox.count i + 1 + (s.asker i).buf.length = holds s i := by
    simp only [holds, ha, actorHolds, if_true, if_pos rfl]
  unfold Phase at hp
  cases hpc : (s.asker i).pc <;> rw [hpc] at hp <;> simp only [PhaseOf] at hp
  · omega
  · omega
  · -- waiting: nothing buffered, so either there is room or the asker is in its receive
    have hb : (s.asker i).buf = [] := List.length_eq_zero_iff.mp (by omega)
    left
    refine ⟨?_, hp.2.1⟩
    by_cases hr : (s.asker i).rcap = 0
    · simp [step, ha, hp.2.1, hb, hr, hpc]
    · have : 0 < (s.asker i).rcap := Nat.pos_of_ne_zero hr
      simp [step, ha, hp.2.1, hb, this]
  · right; right; left
    exact ⟨rfl, by simp [step, hpc, hl]⟩
  · omega
  · omega
  · right; left
    simp [step, ha, hp.2.2.1, hl]
  · right; right; right
    exact ⟨rfl, by simp [step, hpc]⟩

end FpgoVerif.C13
