import FpgoVerif.Proofs.C02ToFloat
import Mathlib.Tactic.Ring
import Mathlib.Tactic.Linarith
/-! C02 — `roundRat` (round to nearest even) of a value of magnitude ≤ the largest finite value of the format is
    finite: correctness of `log2`, an exponent bound for `ratLog2`, "rounding something ≤ an integer K gives ≤ K". -/
namespace FpgoVerif.C02

theorem log2Fuel_lb (fuel n : Nat) (hn : 1 ≤ n) : 2 ^ log2Fuel fuel n ≤ n := by
  induction fuel generalizing n with
  | zero => simpa [log2Fuel] using hn
  | succ fuel ih =>
    unfold log2Fuel
    split
    · simpa using hn
    · have h2 : 1 ≤ n / 2 := by omega
      have := ih (n / 2) h2
      rw [Nat.pow_succ]
      omega

theorem log2Fuel_ub (fuel n : Nat) (hf : n ≤ fuel) : n < 2 ^ (log2Fuel fuel n + 1) := by
  induction fuel generalizing n with
  | zero => simp [log2Fuel]; omega
  | succ fuel ih =>
    unfold log2Fuel
    split
    · simp; omega
    · have := ih (n / 2) (by omega)
      rw [Nat.pow_succ]
      omega

theorem log2_lb (n : Nat) (hn : 1 ≤ n) : 2 ^ log2 n ≤ n := log2Fuel_lb n n hn
theorem log2_ub (n : Nat) : n < 2 ^ (log2 n + 1) := log2Fuel_ub n n (Nat.le_refl n)

/-- a value below `2^(B+1)` has binary exponent at most `B` -/
theorem ratLog2_le_of (num den B : Nat) (hd : 0 < den) (hn : 0 < num) (h : num < 2 ^ (B + 1) * den) :
    ratLog2 num den ≤ B := by
  unfold ratLog2
  simp only
  have hl1 := log2_lb num hn
  have hu2 := log2_ub den
  by_cases he : (log2 num : Int) - (log2 den : Int) ≤ B
  · split <;> omega
  · have he' : (B : Int) + 1 ≤ (log2 num : Int) - (log2 den : Int) := by omega
    -- then `a ≥ b` is impossible, and the exponent is exactly B + 1
    have hpos : (log2 num : Int) - (log2 den : Int) ≥ 0 := by omega
    obtain ⟨k, hk⟩ := Int.eq_ofNat_of_zero_le hpos
    have hkB : B + 1 ≤ k := by omega
    have hkl : log2 den + k = log2 num := by omega
    simp only [hk, scale, Int.natCast_nonneg, ge_iff_le, if_true, Int.toNat_natCast]
    have hpow : 2 ^ (B + 1) ≤ 2 ^ k := Nat.pow_le_pow_right (by decide) hkB
    have hlt : num < den * 2 ^ k := by
      calc num < 2 ^ (B + 1) * den := h
        _ ≤ 2 ^ k * den := Nat.mul_le_mul_right _ hpow
        _ = den * 2 ^ k := Nat.mul_comm _ _
    split
    · omega
    · -- k ≤ B + 1: otherwise num ≥ 2^(log2 num) = 2^(log2 den + k) ≥ ... > num
      by_cases hk2 : k ≤ B + 1
      · omega
      · exfalso
        have hk3 : B + 2 ≤ k := by omega
        have h1 : 2 ^ (B + 1) * den < 2 ^ (B + 1) * 2 ^ (log2 den + 1) :=
          Nat.mul_lt_mul_of_pos_left hu2 (Nat.two_pow_pos (B + 1))
        have h2 : 2 ^ (B + 1) * 2 ^ (log2 den + 1) = 2 ^ (B + 1 + (log2 den + 1)) := (Nat.pow_add 2 _ _).symm
        have h3 : 2 ^ (B + 1 + (log2 den + 1)) ≤ 2 ^ log2 num := Nat.pow_le_pow_right (by decide) (by omega)
        omega

/-- rounding (to nearest, ties to even) of a quotient that is at most the integer `K` gives at most `K` -/
theorem divRNE_le_of (num b K : Nat) (hb : 0 < b) (h : num ≤ K * b) : divRNE num b ≤ K := by
  unfold divRNE
  simp only
  have hq : num / b ≤ K := by
    apply Nat.div_le_of_le_mul
    rw [Nat.mul_comm]; exact h
  have hdm := Nat.div_add_mod num b
  by_cases hlt : num / b < K
  · split <;> omega
  · have heq : num / b = K := by omega
    have hr : num % b = 0 := by
      rw [heq] at hdm
      have : b * K = K * b := Nat.mul_comm _ _
      omega
    rw [hr]
    have : ¬ (2 * 0 > b ∨ (2 * 0 = b ∧ num / b % 2 = 1)) := by omega
    rw [if_neg this]
    omega


theorem round_core (p t qn num den : Nat) (hq : qn ≤ t) (hd : 0 < den) (h : num ≤ (2 ^ p - 1) * 2 ^ t * den) :
    divRNE num (den * 2 ^ qn) * 2 ^ qn < 2 ^ (p + t) := by
  have hpos : 0 < den * 2 ^ qn := Nat.mul_pos hd (Nat.two_pow_pos _)
  have hsplit : 2 ^ t = 2 ^ (t - qn) * 2 ^ qn := by
    rw [← Nat.pow_add]; congr 1; omega
  have hK : num ≤ ((2 ^ p - 1) * 2 ^ (t - qn)) * (den * 2 ^ qn) := by
    calc num ≤ (2 ^ p - 1) * 2 ^ t * den := h
      _ = ((2 ^ p - 1) * 2 ^ (t - qn)) * (den * 2 ^ qn) := by rw [hsplit]; ring
  have hn := divRNE_le_of num (den * 2 ^ qn) _ hpos hK
  have h1 : divRNE num (den * 2 ^ qn) * 2 ^ qn ≤ (2 ^ p - 1) * 2 ^ (t - qn) * 2 ^ qn := Nat.mul_le_mul_right _ hn
  have h2 : (2 ^ p - 1) * 2 ^ (t - qn) * 2 ^ qn = (2 ^ p - 1) * 2 ^ t := by rw [hsplit]; ring
  have h3 : (2 ^ p - 1) * 2 ^ t < 2 ^ p * 2 ^ t :=
    Nat.mul_lt_mul_of_pos_right (by have := Nat.two_pow_pos p; omega) (Nat.two_pow_pos t)
  have h4 : 2 ^ p * 2 ^ t = 2 ^ (p + t) := (Nat.pow_add 2 p t).symm
  omega

/-- a value of magnitude at most the largest finite value of the format rounds to a finite value -/
theorem roundRat_isFin (f : Fmt) (hf : f = f32 ∨ f = f64) (neg : Bool) (num den : Nat) (hd : 0 < den)
    (h : num ≤ f.maxFinite * den) : (roundRat f neg num den).isFin = true := by
  have hM : f.maxFinite = (2 ^ f.p - 1) * 2 ^ (f.bias + 1 - f.p) := rfl
  have hfacts : 1 ≤ f.p ∧ f.p ≤ f.bias + 1 ∧ f.qmin ≤ 0 := by
    rcases hf with rfl | rfl <;> refine ⟨by decide +kernel, by decide +kernel, by decide +kernel⟩
  obtain ⟨hp1, hpb, hqm⟩ := hfacts
  unfold roundRat
  split
  · simp [FVal.isFin]
  · rename_i hn0
    have hn : 0 < num := Nat.pos_of_ne_zero hn0
    have hlt : num < 2 ^ (f.bias + 1) * den := by
      have h3 : (2 ^ f.p - 1) * 2 ^ (f.bias + 1 - f.p) < 2 ^ f.p * 2 ^ (f.bias + 1 - f.p) :=
        Nat.mul_lt_mul_of_pos_right (by have := Nat.two_pow_pos f.p; omega) (Nat.two_pow_pos _)
      have h4 : 2 ^ f.p * 2 ^ (f.bias + 1 - f.p) = 2 ^ (f.bias + 1) := by
        rw [← Nat.pow_add]; congr 1; omega
      calc num ≤ f.maxFinite * den := h
        _ < 2 ^ (f.bias + 1) * den := Nat.mul_lt_mul_of_pos_right (by rw [hM]; omega) hd
    have he := ratLog2_le_of num den f.bias hd hn hlt
    simp only
    generalize ratLog2 num den = e at he
    generalize hq : max (e - ((f.p : Int) - 1)) f.qmin = q
    have hqt : q ≤ ((f.bias + 1 - f.p : Nat) : Int) := by omega
    split
    · rename_i hq0
      split
      · rename_i hov
        exfalso
        simp only [scale, hq0, if_true] at hov
        have hq' : q.toNat ≤ f.bias + 1 - f.p := by omega
        have := round_core f.p (f.bias + 1 - f.p) q.toNat num den hq' hd (by rw [← hM]; exact h)
        have h5 : f.p + (f.bias + 1 - f.p) = f.bias + 1 := by omega
        rw [h5] at this
        omega
      · simp [FVal.isFin]
    · exact normFin_isFin _ _ _

end FpgoVerif.C02
