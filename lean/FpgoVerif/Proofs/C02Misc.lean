import FpgoVerif.Proofs.C02Float
/-! C02 — the small clauses: error rows (absent value, unsupported kinds), `ToBool` of a number. -/
namespace FpgoVerif.C02

/-- the clause for kind `k` of method `tgt` is `return <anything>, <sentinel error>` -/
def errRowOK (tbl : List Case) (tgt : Ty) (k : Kind) (e : Err) : Bool :=
  match lookup tbl tgt k with
  | .ret ⟨_, e'⟩ => e' == e
  | _ => false

theorem errRow_sound (sc : Strconv) (tbl : List Case) (n : Nat) (tgt : Ty) (k : Kind) (e : Err) (x : Val)
    (h : errRowOK tbl tgt k e = true) : (conv sc tbl (n + 1) tgt k x).err = errOf e .ok := by
  unfold errRowOK at h
  rw [conv_succ]
  generalize lookup tbl tgt k = body at h
  match body, h with
  | .ret ⟨_, e'⟩, h =>
    have : e' = e := by simpa using h
    subst this
    simp [evalBody, evalR]

/-- `case T: val, err := maybeSelf.To<T>(); return val != 0, err` -/
def toBoolBodyOK (tbl : List Case) (src : Ty) (body : Body) : Bool :=
  match body with
  | .bind (.self m) none ⟨.ne0 .v, .fromCall⟩ _ => m == src && selfIdent tbl src
  | _ => false

theorem toBoolBodyOK_sound (sc : Strconv) (tbl : List Case) (n : Nat) (src : Ty) (x : Val)
    (h : toBoolBodyOK tbl src (lookup tbl .bool (.ty src)) = true) :
    conv sc tbl (n + 2) .bool (.ty src) x = ⟨evalE x (.ne0 .v), .ok⟩ := by
  rw [conv_succ]
  generalize lookup tbl .bool (.ty src) = body at h
  match body, h with
  | .bind (.self m) none ⟨.ne0 .v, .fromCall⟩ _, h =>
    simp [toBoolBodyOK] at h
    obtain ⟨rfl, hsi⟩ := h
    simp [evalBody, conv_self sc tbl n m x hsi, evalR, errOf]

def numTys : List Ty := intTys ++ [.float32, .float64]
def allTgts : List Ty := intTys ++ [.float32, .float64, .bool]

end FpgoVerif.C02
