import FpgoVerif.Model.C12MB
/-! Invariants of the mailbox transition system, one lemma per concern, all by case analysis on the atom. -/
namespace FpgoVerif.C12

theorem proj_append (i : Nat) (a b : List Job) : proj i (a ++ b) = proj i a ++ proj i b := by
  simp [proj, List.filter_append]

theorem proj_single_same {i : Nat} {j : Job} (h : j.sender = i) : proj i [j] = [j] := by
  simp [proj, h]

theorem proj_single_other {i : Nat} {j : Job} (h : j.sender ≠ i) : proj i [j] = [] := by
  simp [proj, h]

@[simp] theorem proj_nil (i : Nat) : proj i [] = [] := rfl

theorem proj_cons_same {i : Nat} {j : Job} (l : List Job) (h : j.sender = i) : proj i (j :: l) = j :: proj i l := by
  simp [proj, h]

theorem proj_cons_other {i : Nat} {j : Job} (l : List Job) (h : j.sender ≠ i) : proj i (j :: l) = proj i l := by
  simp [proj, h]

/-- every job carries the index of the sender whose script it is in -/
def OwnedScript (script : Nat → List Job) : Prop := ∀ i j, j ∈ script i → j.sender = i

structure Inv (script : Nat → List Job) (s : MB) : Prop where
  ownP : ∀ i j, j ∈ s.pending i → j.sender = i
  ownC : ∀ i j, s.cur i = some j → j.sender = i
  cons : ∀ i, proj i (s.done ++ s.running ++ s.ch) ++ proj i s.dropped ++ optl (s.cur i) ++ s.pending i = script i
  noClose : s.flag = false → s.dropped = [] ∧ s.chClosed = false
  curFresh : ∀ i j, s.cur i = some j → proj i s.dropped = []
  serial : s.running.length ≤ 1
  exitedQ : s.exited = true → s.chClosed = true ∧ s.ch = [] ∧ s.running = []
  closedFlag : s.chClosed = true → s.flag = true

theorem inv_init {script} (ho : OwnedScript script) : Inv script (MB.init script) := by
  refine ⟨ho, ?_, ?_, ?_, ?_, ?_, ?_, ?_⟩ <;> simp [MB.init, optl]

/-- projection on sender `k` of appending one job of sender `i` -/
theorem proj_snoc (k i : Nat) (l : List Job) (j : Job) (hj : j.sender = i) :
    proj k (l ++ [j]) = if k = i then proj k l ++ [j] else proj k l := by
  rw [proj_append]
  split
  · next h => subst h; rw [proj_single_same hj]
  · next h => rw [proj_single_other (by rw [hj]; exact fun e => h e.symm)]; simp

theorem step_inv {cap script s t} (a : Act) (hi : Inv script s) (h : step cap s a = some t) : Inv script t := by
  obtain ⟨ownP, ownC, cons, noClose, curFresh, serial, exitedQ, closedFlag⟩ := hi
  cases a with
  | check i =>
    simp only [step] at h
    split at h
    · next hc hp =>
      have hj := ownP i _ (by rw [hp]; exact List.mem_cons_self)
      split at h
      · -- flag set: dropped
        next hf =>
        cases h
        refine ⟨?_, ownC, ?_, ?_, ?_, serial, exitedQ, closedFlag⟩
        · intro k x hx
          simp only [upd] at hx
          split at hx
          · next e => subst e; exact ownP _ _ (by rw [hp]; exact List.mem_cons_of_mem _ hx)
          · exact ownP _ _ hx
        · intro k
          have hk := cons k
          simp only [proj_snoc k i _ _ hj, upd]
          by_cases e : k = i
          · subst e; rw [hp, hc] at hk; rw [hc]
            simpa [optl, List.append_assoc] using hk
          · simp only [if_neg e]; exact hk
        · intro hf'; simp [hf] at hf'
        · intro k x hx
          have := curFresh k x hx
          simp only [proj_snoc k i _ _ hj]
          by_cases e : k = i
          · subst e; rw [hc] at hx; cases hx
          · simp only [if_neg e]; exact this
      · next hf =>
        cases h
        have hd := noClose (by simpa using hf)
        refine ⟨?_, ?_, ?_, noClose, ?_, serial, exitedQ, closedFlag⟩
        · intro k x hx
          simp only [upd] at hx
          split at hx
          · next e => subst e; exact ownP _ _ (by rw [hp]; exact List.mem_cons_of_mem _ hx)
          · exact ownP _ _ hx
        · intro k x hx
          simp only [upd] at hx
          split at hx
          · next e => subst e; cases hx; exact hj
          · exact ownC _ _ hx
        · intro k
          have hk := cons k
          simp only [upd]
          by_cases e : k = i
          · subst e; rw [hp, hc] at hk
            simpa [optl, List.append_assoc] using hk
          · simp only [if_neg e]; exact hk
        · intro k x _; rw [hd.1]; rfl
    · exact absurd h (by simp)
  | send i =>
    simp only [step] at h
    split at h
    · exact absurd h (by simp)
    · next j hc =>
      have hj := ownC i j hc
      have hfresh := curFresh i j hc
      split at h
      · -- closed channel: panic recovered, dropped
        next hcl =>
        cases h
        refine ⟨ownP, ?_, ?_, ?_, ?_, serial, exitedQ, closedFlag⟩
        · intro k x hx
          simp only [upd] at hx
          split at hx
          · cases hx
          · exact ownC _ _ hx
        · intro k
          have hk := cons k
          simp only [proj_snoc k i _ _ hj, upd]
          by_cases e : k = i
          · subst e; rw [hc] at hk
            simpa [optl, List.append_assoc] using hk
          · simp only [if_neg e]; exact hk
        · intro hf'; have h1 := closedFlag hcl; have h2 : s.flag = false := hf'; rw [h2] at h1; cases h1
        · intro k x hx
          simp only [upd] at hx
          split at hx
          · cases hx
          · next e =>
            simp only [proj_snoc k i _ _ hj, if_neg e]; exact curFresh k x hx
      · next hcl =>
        split at h
        · -- buffered
          next hroom =>
          cases h
          refine ⟨ownP, ?_, ?_, noClose, ?_, serial, ?_, closedFlag⟩
          · intro k x hx
            simp only [upd] at hx
            split at hx
            · cases hx
            · exact ownC _ _ hx
          · intro k
            have hk := cons k
            simp only [← List.append_assoc, proj_snoc k i _ _ hj, upd]
            by_cases e : k = i
            · subst e; rw [hc, hfresh] at hk; rw [hfresh]
              simpa [optl, List.append_assoc] using hk
            · simp only [if_neg e]; simpa [List.append_assoc] using hk
          · intro k x hx
            simp only [upd] at hx
            split at hx
            · cases hx
            · exact curFresh k x hx
          · intro he; have := exitedQ he; simp [this.1] at hcl
        · split at h
          · -- rendez-vous hand-off to the waiting consumer
            next hd =>
            cases h
            obtain ⟨_, hch, hidle⟩ := hd
            have hrun : s.running = [] := by
              simp only [MB.idle, Bool.and_eq_true, List.isEmpty_iff] at hidle; exact hidle.1
            refine ⟨ownP, ?_, ?_, noClose, ?_, by simp, ?_, closedFlag⟩
            · intro k x hx
              simp only [upd] at hx
              split at hx
              · cases hx
              · exact ownC _ _ hx
            · intro k
              have hk := cons k
              rw [hch, hrun] at hk
              simp only [hch, List.append_nil] at hk ⊢
              simp only [proj_snoc k i _ _ hj, upd]
              by_cases e : k = i
              · subst e; rw [hc, hfresh] at hk; rw [hfresh]
                simpa [optl, List.append_assoc] using hk
              · simp only [if_neg e]; simpa [List.append_assoc] using hk
            · intro k x hx
              simp only [upd] at hx
              split at hx
              · cases hx
              · exact curFresh k x hx
            · intro he; have := exitedQ he; simp [this.1] at hcl
          · exact absurd h (by simp)
  | recv =>
    simp only [step] at h
    split at h
    · next hidle =>
      have hrun : s.running = [] := by
        simp only [MB.idle, Bool.and_eq_true, List.isEmpty_iff] at hidle; exact hidle.1
      split at h
      · next j rest hch =>
        cases h
        refine ⟨ownP, ownC, ?_, noClose, curFresh, by simp, ?_, closedFlag⟩
        · intro k
          have hk := cons k
          rw [hch, hrun] at hk
          simpa [List.append_assoc] using hk
        · intro he; have := exitedQ he; rw [hch] at this; simp at this
      · exact absurd h (by simp)
    · exact absurd h (by simp)
  | finish =>
    simp only [step] at h
    split at h
    · next j rest hr =>
      cases h
      have hrest : rest = [] := by
        rw [hr] at serial
        simp only [List.length_cons] at serial
        exact List.length_eq_zero_iff.mp (by omega)
      refine ⟨ownP, ownC, ?_, noClose, curFresh, by simp [hrest], ?_, closedFlag⟩
      · intro k
        have hk := cons k
        rw [hr] at hk
        simpa [List.append_assoc] using hk
      · intro he; have := exitedQ he; rw [hr] at this; simp at this
    · exact absurd h (by simp)
  | closeFlag =>
    simp only [step] at h
    split at h
    · exact absurd h (by simp)
    · cases h
      exact ⟨ownP, ownC, cons, by simp, curFresh, serial, exitedQ, by simp⟩
  | closeCh =>
    simp only [step] at h
    split at h
    · next hf =>
      cases h
      refine ⟨ownP, ownC, cons, ?_, curFresh, serial, ?_, fun _ => hf.1⟩
      · intro hf'; simp [hf.1] at hf'
      · intro he; have := exitedQ he; exact ⟨rfl, this.2⟩
    · exact absurd h (by simp)
  | exit =>
    simp only [step] at h
    split at h
    · next hx =>
      cases h
      have hrun : s.running = [] := by
        have := hx.2.2
        simp only [MB.idle, Bool.and_eq_true, List.isEmpty_iff] at this; exact this.1
      exact ⟨ownP, ownC, cons, noClose, curFresh, serial, fun _ => ⟨hx.1, hx.2.1, hrun⟩, closedFlag⟩
    · exact absurd h (by simp)

theorem reach_inv {cap script s} (ho : OwnedScript script) (h : Reach cap script s) : Inv script s := by
  induction h with
  | init => exact inv_init ho
  | step a _ hs ih => exact step_inv a ih hs

/-! ### consequences of the invariant -/

theorem nodup_of_proj {l : List Job} (h : ∀ i, (proj i l).Nodup) : l.Nodup := by
  rw [List.nodup_iff_count]; intro a
  have := List.nodup_iff_count.mp (h a.sender) a
  rwa [proj, List.count_filter (by simp)] at this

theorem mem_proj {i : Nat} {j : Job} {l : List Job} : j ∈ proj i l ↔ j ∈ l ∧ j.sender = i := by
  simp [proj]

/-- what sender `i` got accepted or dropped so far is a prefix of its script, in script order -/
theorem Inv.handled_prefix {script s} (hi : Inv script s) (i : Nat) :
    proj i (s.done ++ s.running ++ s.ch) ++ proj i s.dropped <+: script i := by
  have := hi.cons i
  exact ⟨optl (s.cur i) ++ s.pending i, by simpa [List.append_assoc] using this⟩

theorem Inv.done_prefix {script s} (hi : Inv script s) (i : Nat) : proj i s.done <+: script i := by
  have := hi.cons i
  refine ⟨proj i s.running ++ proj i s.ch ++ proj i s.dropped ++ optl (s.cur i) ++ s.pending i, ?_⟩
  simpa [proj_append, List.append_assoc] using this

theorem Inv.started_prefix {script s} (hi : Inv script s) (i : Nat) : proj i (s.done ++ s.running) <+: script i := by
  have := hi.cons i
  refine ⟨proj i s.ch ++ proj i s.dropped ++ optl (s.cur i) ++ s.pending i, ?_⟩
  simpa [proj_append, List.append_assoc] using this

theorem Inv.nodup {script s} (hi : Inv script s) (hn : ∀ i, (script i).Nodup) :
    (s.done ++ s.running ++ s.ch ++ s.dropped).Nodup := by
  apply nodup_of_proj
  intro i
  have h := hi.handled_prefix i
  rw [proj_append]
  exact List.Nodup.sublist h.sublist (hn i)

theorem Inv.no_phantom {script s} (hi : Inv script s) {j : Job} (h : j ∈ s.done ++ s.running ++ s.ch ++ s.dropped) :
    j ∈ script j.sender := by
  have hp := hi.handled_prefix j.sender
  apply hp.subset
  rw [← proj_append, mem_proj]
  exact ⟨by simpa [List.append_assoc] using h, rfl⟩

/-- no deadlock: while any work is left some worker atom (never a `Close` atom) is enabled -/
theorem Inv.progress {cap script s} (hi : Inv script s)
    (hwork : (∃ i, s.pending i ≠ [] ∨ s.cur i ≠ none) ∨ s.ch ≠ [] ∨ s.running ≠ []) :
    ∃ a, a ≠ Act.closeFlag ∧ a ≠ Act.closeCh ∧ (step cap s a).isSome = true := by
  cases hr : s.running with
  | cons j rest => exact ⟨.finish, by simp, by simp, by simp [step, hr]⟩
  | nil =>
    have hne : s.exited = true → s.chClosed = true ∧ s.ch = [] := fun he => ⟨(hi.exitedQ he).1, (hi.exitedQ he).2.1⟩
    cases hch : s.ch with
    | cons j rest =>
      have hex : s.exited = false := by
        cases he : s.exited with
        | false => rfl
        | true => have := (hne he).2; rw [hch] at this; cases this
      exact ⟨.recv, by simp, by simp, by simp [step, MB.idle, hr, hex, hch]⟩
    | nil =>
      rcases hwork with ⟨i, hw⟩ | hw | hw
      · cases hc : s.cur i with
        | some j =>
          by_cases hcl : s.chClosed = true
          · exact ⟨.send i, by simp, by simp, by simp [step, hc, hcl]⟩
          · have hex : s.exited = false := by
              cases he : s.exited with
              | false => rfl
              | true => exact absurd (hne he).1 hcl
            by_cases h0 : cap = 0
            · exact ⟨.send i, by simp, by simp, by simp [step, hc, hcl, hch, h0, MB.idle, hr, hex]⟩
            · exact ⟨.send i, by simp, by simp, by
                have : 0 < cap := Nat.pos_of_ne_zero h0
                simp [step, hc, hcl, hch, this]⟩
        | none =>
          cases hp : s.pending i with
          | nil => rcases hw with hw | hw
                   · exact absurd hp hw
                   · exact absurd hc hw
          | cons j rest =>
            by_cases hf : s.flag = true
            · exact ⟨.check i, by simp, by simp, by simp [step, hc, hp, hf]⟩
            · exact ⟨.check i, by simp, by simp, by simp [step, hc, hp, hf]⟩
      · exact absurd hch hw
      · exact absurd hr hw

theorem reach_run {cap script} : ∀ (acts : List Act) {s t}, Reach cap script s → runActs cap s acts = some t →
    Reach cap script t
  | [], s, t, hr, h => by simp only [runActs] at h; cases h; exact hr
  | a :: as, s, t, hr, h => by
    simp only [runActs] at h
    split at h
    · next u hu => exact reach_run as (Reach.step a hr hu) h
    · cases h

/-- a concrete schedule gives a reachable state (used by the non-vacuity examples) -/
theorem reach_of_run {cap script} (acts : List Act) {t} (h : runActs cap (MB.init script) acts = some t) :
    Reach cap script t := reach_run acts Reach.init h

/-! scripts for the non-vacuity examples of `Props/C12.lean` -/

def demoScript (i : Nat) : List Job := if i < 2 then [⟨i, 0⟩, ⟨i, 1⟩] else []

theorem demo_owned : OwnedScript demoScript := by
  intro i j hj
  unfold demoScript at hj
  split at hj
  · simp at hj; rcases hj with rfl | rfl <;> rfl
  · cases hj

theorem demo_nodup : ∀ i, (demoScript i).Nodup := by
  intro i; unfold demoScript; split <;> simp [Job.mk.injEq]

end FpgoVerif.C12
