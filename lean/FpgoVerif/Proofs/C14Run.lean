import FpgoVerif.Model.C14
/-! The round-robin run the driver executes for a `pair` case is a path of the transition system. -/
namespace FpgoVerif.C14

theorem foldl_reach {gen cap script sv} (acts : List Act) (acc : St × Bool) (h : Reach gen cap script sv acc.1) :
    Reach gen cap script sv (acts.foldl (fun (acc : St × Bool) a =>
      match step gen cap acc.1 a with
      | some t => (t, true)
      | none => acc) acc).1 := by
  induction acts generalizing acc with
  | nil => simpa using h
  | cons a rest ih =>
    simp only [List.foldl_cons]
    apply ih
    split
    · rename_i t ht
      exact Reach.step a h ht
    · exact h

theorem runRR_reach {gen cap script sv} (n : Nat) : ∀ (fuel : Nat) (s : St),
    Reach gen cap script sv s → Reach gen cap script sv (runRR gen cap n fuel s)
  | 0, s, h => by simpa [runRR] using h
  | fuel + 1, s, h => by
    simp only [runRR]
    have hf := foldl_reach (gen := gen) (cap := cap)
      ([Act.take, Act.answer] ++ (List.range n).flatMap (fun i => [Act.recv i, Act.send i])) (s, false) h
    split
    · exact runRR_reach n fuel _ hf
    · exact hf

end FpgoVerif.C14
