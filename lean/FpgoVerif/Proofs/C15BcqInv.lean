import FpgoVerif.Model.C15Bcq
import FpgoVerif.Proofs.C15Tac
/-! Invariants of the BufferedChannelQueue system (users + closing goroutine + loader), code after c8ecf0a. -/
namespace FpgoVerif.C15.Bq

theorem gstep_some {s pc ch s' nx} (h : gstep s pc ch = some (s', nx)) :
    0 < s.cnt (kind pc) ∧ ∃ s1, step s pc ch = some (s1, nx) ∧ s' = { s1 with cnt := move s1.cnt (kind pc) nx } := by
  unfold gstep at h
  split at h
  · simp at h
  · rename_i hc
    split at h
    · simp at h
    · rename_i s1 nx1 hs
      simp at h
      obtain ⟨rfl, rfl⟩ := h
      exact ⟨Nat.pos_of_ne_zero hc, s1, hs, rfl⟩

structure Inv (s : St) : Prop where
  fn : s.fixNotify = true
  fl : s.fixLoader = true
  nopanic : s.panic = false
  w1 : s.cnt .o1 + s.cnt .c1 + s.cnt .c2 + s.cnt .l3 + s.cnt .l4 ≤ 1
  wr : 0 < s.cnt .o1 + s.cnt .c1 + s.cnt .c2 + s.cnt .l3 + s.cnt .l4 → s.cnt .n2 = 0
  oneC : s.cnt .c0 + s.cnt .c1 + s.cnt .c2 ≤ 1
  startedC : s.closeStarted = false → s.cnt .c0 + s.cnt .c1 + s.cnt .c2 = 0
  startedFlag : s.flag = true → s.closeStarted = true
  n2flag : 0 < s.cnt .n2 → s.flag = false
  lflag : 0 < s.cnt .l3 + s.cnt .l4 → s.flag = false
  cflag : 0 < s.cnt .c1 + s.cnt .c2 → s.flag = true
  loadFlag : s.loadClosed = true → s.flag = true ∧ s.cnt .c0 + s.cnt .c1 = 0
  chanFlag : s.chanClosed = true → s.loadClosed = true ∧ s.cnt .c0 + s.cnt .c1 + s.cnt .c2 = 0
  c2load : 0 < s.cnt .c2 → s.loadClosed = true
  doneAll : s.closeDone = true → s.chanClosed = true
  doneFlag : s.closeDone = true → s.flag = true
  late0 : s.late = 0
  startedDone : s.closeStarted = true → s.cnt .c0 + s.cnt .c1 + s.cnt .c2 = 0 → s.closeDone = true

theorem inv_init (c b : Nat) : Inv (init c b true true) := by
  constructor <;> simp [init]

/-- the invariant-preservation proof is cut into modules by program counter (parallel build) -/
def pcGroup : PC → Nat
  | .t0 _ => 0
  | .n1 _ => 1
  | .n2 _ => 2
  | .rcv _ => 3
  | .o0 _ => 4
  | .k0 => 4
  | .k1 => 4
  | .ic => 4
  | .o1 _ => 5
  | .c0 => 6
  | .c1 => 6
  | .c2 => 6
  | .l0 => 7
  | .l1 => 7
  | .l2 => 7
  | .l3 => 8
  | .l5 => 8
  | .l4 _ => 9

end FpgoVerif.C15.Bq
