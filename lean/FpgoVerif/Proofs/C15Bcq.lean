import FpgoVerif.Proofs.C15BcqStep0
import FpgoVerif.Proofs.C15BcqStep1
import FpgoVerif.Proofs.C15BcqStep2
import FpgoVerif.Proofs.C15BcqStep3
import FpgoVerif.Proofs.C15BcqStep4
import FpgoVerif.Proofs.C15BcqStep5
import FpgoVerif.Proofs.C15BcqStep6
import FpgoVerif.Proofs.C15BcqStep7
import FpgoVerif.Proofs.C15BcqStep8
import FpgoVerif.Proofs.C15BcqStep9
/-! Bcq system: assembly of the per-program-counter preservation lemmas (C15BcqStep*.lean, built in
    parallel), reachability, progress. -/
namespace FpgoVerif.C15.Bq

theorem inv_spawn {s s' pc} (h : spawn s pc = some s') (hi : Inv s) : Inv s' := by
  have hcover : pcGroup pc = 0 ∨ pcGroup pc = 1 ∨ pcGroup pc = 2 ∨ pcGroup pc = 3 ∨ pcGroup pc = 4 ∨ pcGroup pc = 5 ∨ pcGroup pc = 6 ∨ pcGroup pc = 7 ∨ pcGroup pc = 8 ∨ pcGroup pc = 9 := by cases pc <;> simp [pcGroup]
  rcases hcover with hg | hg | hg | hg | hg | hg | hg | hg | hg | hg
  · exact inv_spawn_0 hg h hi
  · exact inv_spawn_1 hg h hi
  · exact inv_spawn_2 hg h hi
  · exact inv_spawn_3 hg h hi
  · exact inv_spawn_4 hg h hi
  · exact inv_spawn_5 hg h hi
  · exact inv_spawn_6 hg h hi
  · exact inv_spawn_7 hg h hi
  · exact inv_spawn_8 hg h hi
  · exact inv_spawn_9 hg h hi

theorem inv_step {s s' nx pc ch} (h : gstep s pc ch = some (s', nx)) (hi : Inv s) : Inv s' := by
  have hcover : pcGroup pc = 0 ∨ pcGroup pc = 1 ∨ pcGroup pc = 2 ∨ pcGroup pc = 3 ∨ pcGroup pc = 4 ∨ pcGroup pc = 5 ∨ pcGroup pc = 6 ∨ pcGroup pc = 7 ∨ pcGroup pc = 8 ∨ pcGroup pc = 9 := by cases pc <;> simp [pcGroup]
  rcases hcover with hg | hg | hg | hg | hg | hg | hg | hg | hg | hg
  · exact inv_step_0 hg h hi
  · exact inv_step_1 hg h hi
  · exact inv_step_2 hg h hi
  · exact inv_step_3 hg h hi
  · exact inv_step_4 hg h hi
  · exact inv_step_5 hg h hi
  · exact inv_step_6 hg h hi
  · exact inv_step_7 hg h hi
  · exact inv_step_8 hg h hi
  · exact inv_step_9 hg h hi

theorem inv_reach {c b s} (h : Reach c b true true s) : Inv s := by
  induction h with
  | init => exact inv_init c b
  | spawn pc _ hs ih => exact inv_spawn hs ih
  | step pc ch _ hs ih => exact inv_step hs ih

theorem gstep_of_isSome {s pc} (ch : Bool) (hc : 0 < s.cnt (kind pc)) (hs : (step s pc ch).isSome = true) :
    ∃ pc' ch' s' nx', gstep s pc' ch' = some (s', nx') := by
  cases h : step s pc ch with
  | none => simp [h] at hs
  | some p =>
    obtain ⟨s1, nx⟩ := p
    refine ⟨pc, ch, { s1 with cnt := move s1.cnt (kind pc) nx }, nx, ?_⟩
    unfold gstep
    rw [if_neg (by omega), h]

/-- once Close has begun, whatever goroutine is still inside the queue (users, the closer, the loader) can step -/
theorem progress {s} (hi : Inv s) (hcs : s.closeStarted = true) (hb : ∃ k, 0 < s.cnt k) :
    ∃ pc ch s' nx, gstep s pc ch = some (s', nx) := by
  have fn := hi.fn
  have fl := hi.fl
  -- lock holders first
  by_cases ho1 : 0 < s.cnt .o1
  · exact gstep_of_isSome false (pc := .o1 0) ho1 (by simp only [step]; (repeat' split) <;> simp_all)
  by_cases hc1 : 0 < s.cnt .c1
  · exact gstep_of_isSome false (pc := .c1) hc1 (by simp only [step]; (repeat' split) <;> simp_all)
  by_cases hc2 : 0 < s.cnt .c2
  · exact gstep_of_isSome false (pc := .c2) hc2 (by simp only [step]; (repeat' split) <;> simp_all)
  by_cases hl3 : 0 < s.cnt .l3
  · exact gstep_of_isSome false (pc := .l3) hl3 (by simp only [step]; (repeat' split) <;> simp_all)
  by_cases hl4 : 0 < s.cnt .l4
  · exact gstep_of_isSome false (pc := .l4 0) hl4 (by simp only [step]; (repeat' split) <;> simp_all)
  have hw : writers s = 0 := by simp only [writers]; omega
  by_cases hn2 : 0 < s.cnt .n2
  · exact gstep_of_isSome false (pc := .n2 .getch) hn2 (by simp only [step, afterNotify]; (repeat' split) <;> simp_all)
  have hr : readers s = 0 := by simp only [readers, fn]; simp; omega
  by_cases ht0 : 0 < s.cnt .t0
  · exact gstep_of_isSome false (pc := .t0 .take) ht0 (by simp only [step]; (repeat' split) <;> simp_all)
  by_cases hn1 : 0 < s.cnt .n1
  · exact gstep_of_isSome false (pc := .n1 .getch) hn1 (by simp only [step, fn, hw, afterNotify]; (repeat' split) <;> simp_all)
  by_cases ho0 : 0 < s.cnt .o0
  · exact gstep_of_isSome false (pc := .o0 0) ho0 (by simp [step, hw, hr])
  by_cases hk0 : 0 < s.cnt .k0
  · exact gstep_of_isSome false (pc := .k0) hk0 (by simp only [step]; (repeat' split) <;> simp_all)
  by_cases hk1 : 0 < s.cnt .k1
  · exact gstep_of_isSome false (pc := .k1) hk1 (by simp [step, hw])
  by_cases hic : 0 < s.cnt .ic
  · exact gstep_of_isSome false (pc := .ic) hic (by simp [step])
  by_cases hc0 : 0 < s.cnt .c0
  · exact gstep_of_isSome false (pc := .c0) hc0 (by simp [step, hw, hr])
  by_cases hl1 : 0 < s.cnt .l1
  · exact gstep_of_isSome false (pc := .l1) hl1 (by simp only [step]; (repeat' split) <;> simp_all)
  by_cases hl2 : 0 < s.cnt .l2
  · exact gstep_of_isSome false (pc := .l2) hl2 (by simp only [step, hw, hr]; (repeat' split) <;> simp_all)
  by_cases hl5 : 0 < s.cnt .l5
  · exact gstep_of_isSome false (pc := .l5) hl5 (by simp [step])
  by_cases hrp : 0 < s.cnt .rcvp
  · exact gstep_of_isSome false (pc := .rcv .poll) hrp (by simp only [step]; (repeat' split) <;> simp_all)
  -- only blocking receivers and the loader's `range` are left: Close has completed, both channels are closed
  have hdone : s.closeDone = true := hi.startedDone hcs (by omega)
  have hch := hi.doneAll hdone
  have hld := (hi.chanFlag hch).1
  by_cases hrc : 0 < s.cnt .rcv
  · exact gstep_of_isSome false (pc := .rcv .take) hrc (by simp only [step, hch]; (repeat' split) <;> simp_all)
  have hl0 : 0 < s.cnt .l0 := by
    obtain ⟨k, hk⟩ := hb
    cases k <;> omega
  exact gstep_of_isSome false (pc := .l0) hl0 (by simp only [step, hld]; (repeat' split) <;> simp_all)

def runActs : St → List (Option Bool × PC) → Option St
  | s, [] => some s
  | s, (none, pc) :: rest => match spawn s pc with | some s' => runActs s' rest | none => none
  | s, (some ch, pc) :: rest => match gstep s pc ch with | some (s', _) => runActs s' rest | none => none

theorem runActs_reach {c b fn fl} : ∀ (acts : List (Option Bool × PC)) {s s'}, Reach c b fn fl s → runActs s acts = some s' → Reach c b fn fl s'
  | [], s, s', h, he => by simp [runActs] at he; subst he; exact h
  | (none, pc) :: rest, s, s', h, he => by
    simp only [runActs] at he
    split at he
    · rename_i s1 hs; exact runActs_reach rest (Reach.spawn pc h hs) he
    · simp at he
  | (some ch, pc) :: rest, s, s', h, he => by
    simp only [runActs] at he
    split at he
    · rename_i s1 nx hs; exact runActs_reach rest (Reach.step pc ch h hs) he
    · simp at he

end FpgoVerif.C15.Bq
