import FpgoVerif.Proofs.C10Inv
/-! C10 helper lemmas, part 3: the ghost `dl` of a Publish call is exactly the part of the GLOBAL delivery
    log that belongs to it (call ids are unique among live and finished calls). -/
namespace FpgoVerif.C10

def framePids : List Frame → List Nat
  | [] => []
  | .pub f :: r => f.pid :: framePids r
  | .cb :: r => framePids r
  | .unsub _ :: r => framePids r

theorem mem_framePids {st : List Frame} {f : PubF} (h : .pub f ∈ st) : f.pid ∈ framePids st := by
  induction st with
  | nil => cases h
  | cons a r ih =>
    rcases List.mem_cons.1 h with h' | h'
    · subst h'; simp [framePids]
    · cases a <;> simp [framePids, ih h']

structure PInv (s : State) : Prop where
  lt : ∀ t, ∀ p ∈ framePids (s.stacks t), p < s.nextPid
  nodup : ∀ t, (framePids (s.stacks t)).Nodup
  disj : ∀ t u, t ≠ u → ∀ p ∈ framePids (s.stacks t), p ∉ framePids (s.stacks u)
  recLt : ∀ r ∈ s.ended, r.f.pid < s.nextPid
  recDisj : ∀ r ∈ s.ended, ∀ t, r.f.pid ∉ framePids (s.stacks t)
  logLt : ∀ e ∈ s.log, e.1 < s.nextPid
  live : ∀ t f, .pub f ∈ s.stacks t → dlOf s.log f.pid = f.dl
  fin : ∀ r ∈ s.ended, dlOf s.log r.f.pid = r.f.dl
  liveV : ∀ t f, .pub f ∈ s.stacks t → ∀ e ∈ s.log, e.1 = f.pid → e.2.2.1 = f.val
  finV : ∀ r ∈ s.ended, ∀ e ∈ s.log, e.1 = r.f.pid → e.2.2.1 = r.f.val

theorem dlOf_cons_same (log : List (Nat × Nat × Int × Bool)) (p c : Nat) (v : Int) (b : Bool) :
    dlOf ((p, c, v, b) :: log) p = dlOf log p ++ [c] := by
  simp [dlOf]

theorem dlOf_cons_other (log : List (Nat × Nat × Int × Bool)) (p q c : Nat) (v : Int) (b : Bool) (h : p ≠ q) :
    dlOf ((p, c, v, b) :: log) q = dlOf log q := by
  simp [dlOf, h]

theorem dlOf_fresh (log : List (Nat × Nat × Int × Bool)) (n : Nat) (h : ∀ e ∈ log, e.1 < n) : dlOf log n = [] := by
  unfold dlOf
  have : log.filter (fun e => e.1 = n) = [] := by
    rw [List.filter_eq_nil_iff]
    intro e he; have := h e he; simp; omega
  simp [this]

/-- a step that changes only stack `t`, keeping its call ids, and nothing else relevant -/
theorem PInv_same_pids {s s' : State} {t : Nat} {new : List Frame} (inv : PInv s)
    (hst : s'.stacks = upd s.stacks t new) (hp : framePids new = framePids (s.stacks t))
    (hn : s'.nextPid = s.nextPid) (he : s'.ended = s.ended) (hl : s'.log = s.log)
    (hfr : ∀ g, .pub g ∈ new → ∃ g0, .pub g0 ∈ s.stacks t ∧ g0.pid = g.pid ∧ g0.dl = g.dl ∧ g0.val = g.val) :
    PInv s' := by
  have hfp : ∀ u, framePids (s'.stacks u) = framePids (s.stacks u) := by
    intro u; rw [hst]; by_cases hu : u = t
    · subst hu; rw [upd_same, hp]
    · rw [upd_other _ _ _ _ hu]
  refine ⟨?_, ?_, ?_, ?_, ?_, ?_, ?_, ?_, ?_, ?_⟩
  · intro u p h; rw [hfp] at h; rw [hn]; exact inv.lt u p h
  · intro u; rw [hfp]; exact inv.nodup u
  · intro u w huw p h; rw [hfp] at h ⊢; exact inv.disj u w huw p h
  · intro r h; rw [he] at h; rw [hn]; exact inv.recLt r h
  · intro r h u; rw [he] at h; rw [hfp]; exact inv.recDisj r h u
  · intro e h; rw [hl] at h; rw [hn]; exact inv.logLt e h
  · intro u f h
    rw [hl]
    rw [hst] at h
    by_cases hu : u = t
    · subst hu; rw [upd_same] at h
      obtain ⟨g0, hg0, hp0, hd0, _⟩ := hfr f h
      rw [← hp0, ← hd0]; exact inv.live u g0 hg0
    · rw [upd_other _ _ _ _ hu] at h; exact inv.live u f h
  · intro r h; rw [he] at h; rw [hl]; exact inv.fin r h
  · intro u f h
    rw [hl]
    rw [hst] at h
    by_cases hu : u = t
    · subst hu; rw [upd_same] at h
      obtain ⟨g0, hg0, hp0, _, hv0⟩ := hfr f h
      rw [← hp0, ← hv0]; exact inv.liveV u g0 hg0
    · rw [upd_other _ _ _ _ hu] at h; exact inv.liveV u f h
  · intro r h; rw [he] at h; rw [hl]; exact inv.finV r h

theorem PInv_init : PInv init := by
  refine ⟨?_, ?_, ?_, ?_, ?_, ?_, ?_, ?_, ?_, ?_⟩ <;> intros <;> simp_all [init, framePids]

theorem PInv_step (fixed : Bool) (grow : Nat → Nat) {s s' : State} (a : Act) (inv : PInv s)
    (hs : step fixed grow s a = some s') : PInv s' := by
  cases a with
  | subscribe t =>
    simp only [step] at hs
    split at hs
    · cases hs
      exact PInv_same_pids (t := t) (new := s.stacks t) inv (by funext u; simp [upd]; intro h; rw [h]) rfl rfl rfl rfl
        (fun f h => ⟨f, h, rfl, rfl, rfl⟩)
    · cases hs
  | subscribeNil t =>
    simp only [step] at hs
    split at hs
    · cases hs
      exact PInv_same_pids (t := t) (new := s.stacks t) inv (by funext u; simp [upd]; intro h; rw [h]) rfl rfl rfl rfl
        (fun f h => ⟨f, h, rfl, rfl, rfl⟩)
    · cases hs
  | unsubBegin t x =>
    simp only [step] at hs
    split at hs
    · cases hs
      exact PInv_same_pids (t := t) inv rfl (by simp [framePids]) rfl rfl rfl
        (fun f h => ⟨f, by simpa using h, rfl, rfl, rfl⟩)
    · cases hs
  | unsubStep t =>
    simp only [step] at hs
    split at hs
    · rename_i x rest hst
      split at hs
      · cases hfx : fixed <;> simp only [hfx] at hs <;> cases hs <;>
          exact PInv_same_pids (t := t) (new := s.stacks t) inv (by funext u; simp [upd]; intro h; rw [h]) rfl rfl rfl rfl
            (fun f h => ⟨f, h, rfl, rfl, rfl⟩)
      · cases hs
        exact PInv_same_pids (t := t) inv rfl (by rw [hst]; simp [framePids]) rfl rfl rfl
          (fun f h => ⟨f, by rw [hst]; exact List.mem_cons_of_mem _ h, rfl, rfl, rfl⟩)
    · cases hs
  | pubBegin t v =>
    simp only [step] at hs
    split at hs
    · cases hs
      refine ⟨?_, ?_, ?_, ?_, ?_, ?_, ?_, ?_, ?_, ?_⟩
      · intro u p h
        show p < s.nextPid + 1
        by_cases hu : u = t
        · subst hu; simp only [upd_same, framePids, List.mem_cons] at h
          rcases h with rfl | h
          · omega
          · have := inv.lt u p h; omega
        · simp only [upd_other _ _ _ _ hu] at h; have := inv.lt u p h; omega
      · intro u
        by_cases hu : u = t
        · subst hu; simp only [upd_same, framePids, List.nodup_cons]
          exact ⟨fun h => Nat.lt_irrefl _ (inv.lt u _ h), inv.nodup u⟩
        · simp only [upd_other _ _ _ _ hu]; exact inv.nodup u
      · intro u w huw p h
        by_cases hu : u = t
        · subst hu
          have hw : w ≠ u := fun e => huw e.symm
          simp only [upd_same, framePids, List.mem_cons] at h
          simp only [upd_other _ _ _ _ hw]
          rcases h with rfl | h
          · exact fun h' => Nat.lt_irrefl _ (inv.lt w _ h')
          · exact inv.disj u w huw p h
        · simp only [upd_other _ _ _ _ hu] at h
          by_cases hw : w = t
          · subst hw; simp only [upd_same, framePids, List.mem_cons, not_or]
            exact ⟨fun e => by have := inv.lt u p h; omega, inv.disj u w huw p h⟩
          · simp only [upd_other _ _ _ _ hw]; exact inv.disj u w huw p h
      · intro r h; have := inv.recLt r h; show r.f.pid < s.nextPid + 1; omega
      · intro r h u
        by_cases hu : u = t
        · subst hu; simp only [upd_same, framePids, List.mem_cons, not_or]
          exact ⟨fun e => by have := inv.recLt r h; omega, inv.recDisj r h u⟩
        · simp only [upd_other _ _ _ _ hu]; exact inv.recDisj r h u
      · intro e h; have := inv.logLt e h; show e.1 < s.nextPid + 1; omega
      · intro u f h
        by_cases hu : u = t
        · subst hu; simp only [upd_same, List.mem_cons] at h
          rcases h with h | h
          · cases h; exact dlOf_fresh _ _ inv.logLt
          · exact inv.live u f h
        · simp only [upd_other _ _ _ _ hu] at h; exact inv.live u f h
      · exact inv.fin
      · intro u f h e he hpe
        by_cases hu : u = t
        · subst hu; simp only [upd_same, List.mem_cons] at h
          rcases h with h | h
          · cases h; have := inv.logLt e he; dsimp only at hpe; omega
          · exact inv.liveV u f h e he hpe
        · simp only [upd_other _ _ _ _ hu] at h; exact inv.liveV u f h e he hpe
      · exact inv.finV
    · cases hs
  | deliver t =>
    simp only [step] at hs
    split at hs
    · rename_i f rest hst
      have hpids : framePids (s.stacks t) = f.pid :: framePids rest := by rw [hst]; rfl
      have hnd := inv.nodup t
      rw [hpids, List.nodup_cons] at hnd
      split at hs
      · -- common part: the log grows by one entry of call f.pid; stack t keeps its call ids
        have key : ∀ (b : Bool) (new : List Frame) (f' : PubF), f'.pid = f.pid → f'.val = f.val →
            f'.dl = f.dl ++ [readCell s.heap f.h f.k] →
            framePids new = f.pid :: framePids rest →
            (∀ g, .pub g ∈ new → g = f' ∨ .pub g ∈ rest) →
            ∀ s'' : State, s''.stacks = upd s.stacks t new → s''.nextPid = s.nextPid → s''.ended = s.ended →
              s''.log = (f.pid, readCell s.heap f.h f.k, f.val, b) :: s.log → PInv s'' := by
          intro b new f' hpid hval hdl hnp hmem s'' h1 h2 h3 h4
          have hfp : ∀ u, framePids (s''.stacks u) = framePids (s.stacks u) := by
            intro u; rw [h1]; by_cases hu : u = t
            · subst hu; rw [upd_same, hnp, hpids]
            · rw [upd_other _ _ _ _ hu]
          refine ⟨?_, ?_, ?_, ?_, ?_, ?_, ?_, ?_, ?_, ?_⟩
          · intro u p h; rw [hfp] at h; rw [h2]; exact inv.lt u p h
          · intro u; rw [hfp]; exact inv.nodup u
          · intro u w huw p h; rw [hfp] at h ⊢; exact inv.disj u w huw p h
          · intro r h; rw [h3] at h; rw [h2]; exact inv.recLt r h
          · intro r h u; rw [h3] at h; rw [hfp]; exact inv.recDisj r h u
          · intro e h; rw [h4] at h; rw [h2]
            rcases List.mem_cons.1 h with rfl | h
            · exact inv.lt t f.pid (by rw [hpids]; simp)
            · exact inv.logLt e h
          · intro u g h
            rw [h4]; rw [h1] at h
            by_cases hu : u = t
            · subst hu; rw [upd_same] at h
              rcases hmem g h with rfl | hg
              · rw [hpid, dlOf_cons_same, hdl, inv.live u f (by rw [hst]; simp)]
              · have hgp : g.pid ∈ framePids rest := mem_framePids hg
                have hne : f.pid ≠ g.pid := fun e => hnd.1 (e ▸ hgp)
                rw [dlOf_cons_other _ _ _ _ _ _ hne]
                exact inv.live u g (by rw [hst]; exact List.mem_cons_of_mem _ hg)
            · rw [upd_other _ _ _ _ hu] at h
              have hgp : g.pid ∈ framePids (s.stacks u) := mem_framePids h
              have hne : f.pid ≠ g.pid := fun e =>
                inv.disj t u (fun e' => hu e'.symm) f.pid (by rw [hpids]; simp) (e ▸ hgp)
              rw [dlOf_cons_other _ _ _ _ _ _ hne]; exact inv.live u g h
          · intro r h; rw [h3] at h; rw [h4]
            have hne : f.pid ≠ r.f.pid := fun e => inv.recDisj r h t (by rw [hpids, e]; simp)
            rw [dlOf_cons_other _ _ _ _ _ _ hne]; exact inv.fin r h
          · intro u g h e he hpe
            rw [h4] at he; rw [h1] at h
            by_cases hu : u = t
            · subst hu; rw [upd_same] at h
              rcases hmem g h with rfl | hg
              · rcases List.mem_cons.1 he with rfl | he
                · exact hval.symm
                · rw [hval]; exact inv.liveV u f (by rw [hst]; simp) e he (hpe.trans hpid)
              · have hgp : g.pid ∈ framePids rest := mem_framePids hg
                have hne : f.pid ≠ g.pid := fun e => hnd.1 (e ▸ hgp)
                rcases List.mem_cons.1 he with rfl | he
                · exact absurd hpe hne
                · exact inv.liveV u g (by rw [hst]; exact List.mem_cons_of_mem _ hg) e he hpe
            · rw [upd_other _ _ _ _ hu] at h
              have hgp : g.pid ∈ framePids (s.stacks u) := mem_framePids h
              have hne : f.pid ≠ g.pid := fun e =>
                inv.disj t u (fun e' => hu e'.symm) f.pid (by rw [hpids]; simp) (e ▸ hgp)
              rcases List.mem_cons.1 he with rfl | he
              · exact absurd hpe hne
              · exact inv.liveV u g h e he hpe
          · intro r h e he hpe
            rw [h3] at h; rw [h4] at he
            have hne : f.pid ≠ r.f.pid := fun e => inv.recDisj r h t (by rw [hpids, e]; simp)
            rcases List.mem_cons.1 he with rfl | he
            · exact absurd hpe hne
            · exact inv.finV r h e he hpe
        split at hs
        · cases hs
          exact PInv_same_pids (t := t) inv rfl (by rw [hst]; rfl) rfl rfl rfl
            (fun g h => by
              rcases List.mem_cons.1 h with h | h
              · cases h; exact ⟨f, by rw [hst]; simp, rfl, rfl, rfl⟩
              · exact ⟨g, by rw [hst]; exact List.mem_cons_of_mem _ h, rfl, rfl, rfl⟩)
        split at hs
        · cases hs
          exact key true _ { f with k := f.k + 1, dl := f.dl ++ [readCell s.heap f.h f.k] } rfl rfl rfl rfl
            (fun g h => by
              rcases List.mem_cons.1 h with h | h
              · left; cases h; rfl
              · right; exact h) _ rfl rfl rfl rfl
        · cases hs
          exact key false _ { f with k := f.k + 1, dl := f.dl ++ [readCell s.heap f.h f.k] } rfl rfl rfl rfl
            (fun g h => by
              rcases List.mem_cons.1 h with h | h
              · cases h
              rcases List.mem_cons.1 h with h | h
              · left; cases h; rfl
              · right; exact h) _ rfl rfl rfl rfl
      · cases hs
    · cases hs
  | cbReturn t =>
    simp only [step] at hs
    split at hs
    · rename_i rest hst
      cases hs
      exact PInv_same_pids (t := t) inv rfl (by rw [hst]; simp [framePids]) rfl rfl rfl
        (fun f h => ⟨f, by rw [hst]; exact List.mem_cons_of_mem _ h, rfl, rfl, rfl⟩)
    · cases hs
  | pubEnd t =>
    simp only [step] at hs
    split at hs
    · rename_i f rest hst
      have hpids : framePids (s.stacks t) = f.pid :: framePids rest := by rw [hst]; rfl
      have hnd := inv.nodup t
      rw [hpids, List.nodup_cons] at hnd
      split at hs
      · cases hs
      · cases hs
        have hsub : ∀ u p, p ∈ framePids (upd s.stacks t rest u) → p ∈ framePids (s.stacks u) := by
          intro u p h
          by_cases hu : u = t
          · subst hu; simp only [upd_same] at h; rw [hpids]; exact List.mem_cons_of_mem _ h
          · simp only [upd_other _ _ _ _ hu] at h; exact h
        refine ⟨?_, ?_, ?_, ?_, ?_, inv.logLt, ?_, ?_, ?_, ?_⟩
        · intro u p h; exact inv.lt u p (hsub u p h)
        · intro u
          by_cases hu : u = t
          · subst hu; simp only [upd_same]; exact hnd.2
          · simp only [upd_other _ _ _ _ hu]; exact inv.nodup u
        · intro u w huw p h h'
          exact inv.disj u w huw p (hsub u p h) (hsub w p h')
        · intro r h
          rcases List.mem_cons.1 h with rfl | h
          · exact inv.lt t f.pid (by rw [hpids]; simp)
          · exact inv.recLt r h
        · intro r h u h'
          rcases List.mem_cons.1 h with rfl | h
          · by_cases hu : u = t
            · subst hu; simp only [upd_same] at h'; exact hnd.1 h'
            · simp only [upd_other _ _ _ _ hu] at h'
              exact inv.disj t u (fun e => hu e.symm) f.pid (by rw [hpids]; simp) h'
          · exact inv.recDisj r h u (hsub u _ h')
        · intro u g h
          by_cases hu : u = t
          · subst hu; simp only [upd_same] at h
            exact inv.live u g (by rw [hst]; exact List.mem_cons_of_mem _ h)
          · simp only [upd_other _ _ _ _ hu] at h; exact inv.live u g h
        · intro r h
          rcases List.mem_cons.1 h with rfl | h
          · exact inv.live t f (by rw [hst]; simp)
          · exact inv.fin r h
        · intro u g h
          by_cases hu : u = t
          · subst hu; simp only [upd_same] at h
            exact inv.liveV u g (by rw [hst]; exact List.mem_cons_of_mem _ h)
          · simp only [upd_other _ _ _ _ hu] at h; exact inv.liveV u g h
        · intro r h
          rcases List.mem_cons.1 h with rfl | h
          · exact inv.liveV t f (by rw [hst]; simp)
          · exact inv.finV r h
    · cases hs
  | setSubOn t b =>
    simp only [step] at hs
    split at hs
    · cases hs
      exact PInv_same_pids (t := t) (new := s.stacks t) inv (by funext u; simp [upd]; intro h; rw [h]) rfl rfl rfl rfl
        (fun f h => ⟨f, h, rfl, rfl, rfl⟩)
    · cases hs
  | hrun t =>
    simp only [step] at hs
    split at hs
    · rename_i m rest hst hmb
      cases hs
      exact PInv_same_pids (t := t) inv rfl (by rw [hst]; simp [framePids]) rfl rfl rfl
        (fun f h => by simp at h)
    · cases hs

theorem PInv_reach (grow : Nat → Nat) {s : State} (r : Reach grow s) : PInv s := by
  induction r with
  | init => exact PInv_init
  | step a _ hs ih => exact PInv_step true grow a ih hs

/-- running a list of actions with `step true` stays inside `Reach` (used by `C10_run_reach`) -/
theorem reach_of_run (grow : Nat → Nat) (acts : List Act) :
    ∀ s0 s, Reach grow s0 → run true grow s0 acts = some s → Reach grow s := by
  induction acts with
  | nil => intro s0 s r h; simp [run] at h; exact h ▸ r
  | cons a as ih =>
    intro s0 s r h
    simp only [run] at h
    cases hs : step true grow s0 a with
    | none => rw [hs] at h; cases h
    | some s1 => rw [hs] at h; exact ih s1 s (Reach.step a r hs) h

/-- in a strictly increasing list every element occurs exactly once -/
theorem count_of_sorted {l : List Nat} (h : l.Pairwise (· < ·)) (x : Nat) :
    l.count x = if x ∈ l then 1 else 0 := by
  have hnd : l.Nodup := h.imp (fun hab => Nat.ne_of_lt hab)
  exact hnd.count

end FpgoVerif.C10
