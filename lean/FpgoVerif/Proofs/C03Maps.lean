import FpgoVerif.Proofs.C03Basic
/-! Lemmas about the association-list model of Go maps (`mget`, `mset`, `copyInto`). -/
namespace FpgoVerif.C03
variable {α β κ ν : Type}

theorem mget_append [DecidableEq κ] (k : κ) (a b : List (κ × ν)) :
    mget k (a ++ b) = match mget k b with | some w => some w | none => mget k a := by
  induction a with
  | nil => cases h : mget k b <;> simp [mget, h]
  | cons p t ih =>
    obtain ⟨k', v⟩ := p
    simp only [List.cons_append, mget, ih]
    cases h : mget k b <;> simp

theorem mget_single [DecidableEq κ] (k k' : κ) (v : ν) :
    mget k [(k', v)] = if k' = k then some v else none := by
  simp [mget]

theorem mget_eq_none_iff [DecidableEq κ] (k : κ) (m : List (κ × ν)) :
    mget k m = none ↔ mhas k m = false := by
  induction m with
  | nil => simp [mget, mhas]
  | cons p t ih =>
    obtain ⟨k', v⟩ := p
    simp only [mget, mhas, List.any_cons] at ih ⊢
    cases h : mget k t with
    | some w =>
      have : ¬ (t.any (fun p => decide (p.1 = k)) = false) := fun e => by simp [ih.mpr e] at h
      simp at this
      simp [this]
    | none =>
      have := ih.mp h
      by_cases hk : k' = k <;> simp [hk, this]

theorem mget_replace [DecidableEq κ] (k k' : κ) (v : ν) (m : List (κ × ν)) :
    mget k (m.map (fun p => if p.1 = k' then (k', v) else p))
      = if k' = k then (if mhas k' m then some v else none) else mget k m := by
  induction m with
  | nil => simp [mget, mhas]
  | cons p t ih =>
    obtain ⟨k2, v2⟩ := p
    simp only [List.map_cons, mget, ih, mhas, List.any_cons]
    by_cases hk : k' = k
    · subst hk
      by_cases h2 : k2 = k'
      · subst h2
        by_cases ht : (t.any (fun p => decide (p.1 = k2))) = true
        · simp [ht]
        · have ht' : (t.any (fun p => decide (p.1 = k2))) = false := Bool.eq_false_iff.mpr ht
          simp [ht']
      · by_cases ht : (t.any (fun p => decide (p.1 = k'))) = true
        · simp [ht]
        · have ht' : (t.any (fun p => decide (p.1 = k'))) = false := Bool.eq_false_iff.mpr ht
          simp [ht', h2]
    · by_cases h2 : k2 = k'
      · subst h2
        cases hm : mget k t <;> simp [hk]
      · cases hm : mget k t <;> simp [hk, h2]

theorem mget_mset [DecidableEq κ] (k k' : κ) (v : ν) (m : List (κ × ν)) :
    mget k (mset m k' v) = if k' = k then some v else mget k m := by
  unfold mset
  by_cases h : mhas k' m = true
  · simp only [h, if_true, mget_replace]
  · have h' : mhas k' m = false := by simpa using h
    simp only [h', Bool.false_eq_true, if_false, mget_append, mget_single]
    by_cases hk : k' = k
    · simp [hk]
    · simp only [hk, if_false]
      

theorem keys_mset [DecidableEq κ] (k : κ) (v : ν) (m : List (κ × ν)) :
    (mset m k v).map (·.1) = if mhas k m then m.map (·.1) else m.map (·.1) ++ [k] := by
  unfold mset
  by_cases h : mhas k m = true
  · simp only [h, if_true, List.map_map]
    apply List.map_congr_left
    intro p _
    by_cases hp : p.1 = k <;> simp [hp]
  · have h' : mhas k m = false := by simpa using h
    simp [h']

theorem mhas_iff_mem_keys [DecidableEq κ] (k : κ) (m : List (κ × ν)) :
    mhas k m = true ↔ k ∈ m.map (·.1) := by
  simp [mhas]

theorem nodup_keys_mset [DecidableEq κ] (k : κ) (v : ν) (m : List (κ × ν)) (h : (m.map (·.1)).Nodup) :
    ((mset m k v).map (·.1)).Nodup := by
  rw [keys_mset]
  by_cases hk : mhas k m = true
  · simp [hk, h]
  · have h' : mhas k m = false := by simpa using hk
    have hn : k ∉ m.map (·.1) := fun hm => hk ((mhas_iff_mem_keys k m).mpr hm)
    simp only [h', Bool.false_eq_true, if_false]
    rw [List.nodup_append]
    refine ⟨h, by simp, ?_⟩
    intro a ha b hb
    simp at hb
    subst hb
    intro e; subst e; exact hn ha

theorem copyInto_spec [DecidableEq κ] (k : κ) (src dst : List (κ × ν)) :
    mget k (copyInto src dst) = match mget k src with | some w => some w | none => mget k dst := by
  induction src generalizing dst with
  | nil => simp [copyInto, mget]
  | cons p t ih =>
    obtain ⟨k', v⟩ := p
    have ih' := ih (mset dst k' v)
    simp only [copyInto, List.foldl_cons] at ih' ⊢
    rw [ih', mget_mset]
    simp only [mget]
    cases h : mget k t
    · by_cases hk : k' = k <;> simp [hk]
    · simp

theorem copyInto_nodup [DecidableEq κ] (src dst : List (κ × ν)) (h : (dst.map (·.1)).Nodup) :
    ((copyInto src dst).map (·.1)).Nodup := by
  induction src generalizing dst with
  | nil => simpa [copyInto] using h
  | cons p t ih =>
    have := ih (mset dst p.1 p.2) (nodup_keys_mset _ _ _ h)
    simpa [copyInto] using this

end FpgoVerif.C03
