import FpgoVerif.Proofs.C15Bcq
/-! Progress of the BufferedChannelQueue system, stated per program-counter *kind*: the counters do not record
    which operation (Take / TakeWithTimeout / GetChannel …) or value a goroutine carries, so the enabled atom is
    enabled for every parameter a goroutine at that kind may have — and without any timeout firing. -/
namespace FpgoVerif.C15.Bq

theorem gstep_at {s pc} (ch : Bool) (hc : 0 < s.cnt (kind pc)) (hs : (step s pc ch).isSome = true) :
    ∃ s' nx, gstep s pc ch = some (s', nx) := by
  cases h : step s pc ch with
  | none => simp [h] at hs
  | some p =>
    obtain ⟨s1, nx⟩ := p
    refine ⟨{ s1 with cnt := move s1.cnt (kind pc) nx }, nx, ?_⟩
    unfold gstep
    rw [if_neg (by omega), h]

/-- discards the program counters of another kind; leaves the ones of kind `k` (all their parameters) -/
macro "c15kind" pc:ident hk:ident : tactic =>
  `(tactic| (rcases $pc:ident with (_|_|_|_) | (_|_|_|_) | (_|_|_|_) | (_|_|_|_) | v | v | _ | _ | _ | _ | _ | _ | _ | _ | _ | _ | x | _
             all_goals (try (simp [kind] at $hk:ident; done))))

theorem progressK {s} (hi : Inv s) (hcs : s.closeStarted = true) (hb : ∃ k, 0 < s.cnt k) :
    ∃ k, 0 < s.cnt k ∧ ∀ pc, kind pc = k → ∃ s' nx, gstep s pc false = some (s', nx) := by
  have fn := hi.fn
  have fl := hi.fl
  by_cases ho1 : 0 < s.cnt .o1
  · refine ⟨.o1, ho1, fun pc hk => ?_⟩
    c15kind pc hk
    all_goals exact gstep_at false ho1 (by simp only [step]; (repeat' split) <;> simp_all)
  by_cases hc1 : 0 < s.cnt .c1
  · refine ⟨.c1, hc1, fun pc hk => ?_⟩
    c15kind pc hk
    all_goals exact gstep_at false hc1 (by simp only [step]; (repeat' split) <;> simp_all)
  by_cases hc2 : 0 < s.cnt .c2
  · refine ⟨.c2, hc2, fun pc hk => ?_⟩
    c15kind pc hk
    all_goals exact gstep_at false hc2 (by simp only [step]; (repeat' split) <;> simp_all)
  by_cases hl3 : 0 < s.cnt .l3
  · refine ⟨.l3, hl3, fun pc hk => ?_⟩
    c15kind pc hk
    all_goals exact gstep_at false hl3 (by simp only [step]; (repeat' split) <;> simp_all)
  by_cases hl4 : 0 < s.cnt .l4
  · refine ⟨.l4, hl4, fun pc hk => ?_⟩
    c15kind pc hk
    all_goals exact gstep_at false hl4 (by simp only [step]; (repeat' split) <;> simp_all)
  have hw : writers s = 0 := by simp only [writers]; omega
  by_cases hn2 : 0 < s.cnt .n2
  · refine ⟨.n2, hn2, fun pc hk => ?_⟩
    c15kind pc hk
    all_goals exact gstep_at false hn2 (by simp only [step, afterNotify]; (repeat' split) <;> simp_all)
  have hr : readers s = 0 := by simp only [readers, fn]; simp; omega
  by_cases ht0 : 0 < s.cnt .t0
  · refine ⟨.t0, ht0, fun pc hk => ?_⟩
    c15kind pc hk
    all_goals exact gstep_at false ht0 (by simp only [step]; (repeat' split) <;> simp_all)
  by_cases hn1 : 0 < s.cnt .n1
  · refine ⟨.n1, hn1, fun pc hk => ?_⟩
    c15kind pc hk
    all_goals exact gstep_at false hn1 (by simp only [step, fn, hw, afterNotify]; (repeat' split) <;> simp_all)
  by_cases ho0 : 0 < s.cnt .o0
  · refine ⟨.o0, ho0, fun pc hk => ?_⟩
    c15kind pc hk
    all_goals exact gstep_at false ho0 (by simp [step, hw, hr])
  by_cases hk0 : 0 < s.cnt .k0
  · refine ⟨.k0, hk0, fun pc hk => ?_⟩
    c15kind pc hk
    all_goals exact gstep_at false hk0 (by simp only [step]; (repeat' split) <;> simp_all)
  by_cases hk1 : 0 < s.cnt .k1
  · refine ⟨.k1, hk1, fun pc hk => ?_⟩
    c15kind pc hk
    all_goals exact gstep_at false hk1 (by simp [step, hw])
  by_cases hic : 0 < s.cnt .ic
  · refine ⟨.ic, hic, fun pc hk => ?_⟩
    c15kind pc hk
    all_goals exact gstep_at false hic (by simp [step])
  by_cases hc0 : 0 < s.cnt .c0
  · refine ⟨.c0, hc0, fun pc hk => ?_⟩
    c15kind pc hk
    all_goals exact gstep_at false hc0 (by simp [step, hw, hr])
  by_cases hl1 : 0 < s.cnt .l1
  · refine ⟨.l1, hl1, fun pc hk => ?_⟩
    c15kind pc hk
    all_goals exact gstep_at false hl1 (by simp only [step]; (repeat' split) <;> simp_all)
  by_cases hl2 : 0 < s.cnt .l2
  · refine ⟨.l2, hl2, fun pc hk => ?_⟩
    c15kind pc hk
    all_goals exact gstep_at false hl2 (by simp only [step, hw, hr]; (repeat' split) <;> simp_all)
  by_cases hl5 : 0 < s.cnt .l5
  · refine ⟨.l5, hl5, fun pc hk => ?_⟩
    c15kind pc hk
    all_goals exact gstep_at false hl5 (by simp [step])
  by_cases hrp : 0 < s.cnt .rcvp
  · refine ⟨.rcvp, hrp, fun pc hk => ?_⟩
    c15kind pc hk
    all_goals exact gstep_at false hrp (by simp only [step]; (repeat' split) <;> simp_all)
  -- only blocking receivers and the loader's `range` are left: Close has completed, both channels are closed
  have hdone : s.closeDone = true := hi.startedDone hcs (by omega)
  have hch := hi.doneAll hdone
  have hld := (hi.chanFlag hch).1
  by_cases hrc : 0 < s.cnt .rcv
  · refine ⟨.rcv, hrc, fun pc hk => ?_⟩
    c15kind pc hk
    all_goals exact gstep_at false hrc (by simp only [step, hch]; (repeat' split) <;> simp_all)
  have hl0 : 0 < s.cnt .l0 := by
    obtain ⟨k, hk⟩ := hb
    cases k <;> omega
  refine ⟨.l0, hl0, fun pc hk => ?_⟩
  c15kind pc hk
  all_goals exact gstep_at false hl0 (by simp only [step, hld]; (repeat' split) <;> simp_all)

end FpgoVerif.C15.Bq
