import FpgoVerif.Model.C13Fan
/-! Invariant of the fan-in transition system. -/
namespace FpgoVerif.C13.Fan

structure Inv (c : Nat) (replies : List Nat) (s : FS) : Prop where
  cons : s.got ++ s.buf ++ optl s.cur ++ s.todo = replies
  bound : s.buf.length ≤ c

theorem inv_init (c : Nat) (replies : List Nat) : Inv c replies (FS.init replies) :=
  ⟨by simp [FS.init, optl], by simp [FS.init]⟩

theorem step_inv {c replies s t} (a : FAct) (hi : Inv c replies s) (h : step c s a = some t) : Inv c replies t := by
  obtain ⟨cons, bound⟩ := hi
  cases a <;> simp only [step] at h
  · split at h
    · next v rest hc ht =>
      cases h
      exact ⟨by rw [hc, ht] at cons; simpa [optl] using cons, bound⟩
    · cases h
  · split at h
    · next v hc =>
      split at h
      · next hroom =>
        cases h
        refine ⟨?_, ?_⟩
        · rw [hc] at cons; simpa [optl, List.append_assoc] using cons
        · simp only [List.length_append, List.length_cons, List.length_nil]; omega
      · cases h
    · cases h
  · split at h
    · next v hc =>
      split at h
      · next hd =>
        cases h
        have hb : s.buf = [] := List.length_eq_zero_iff.mp (by have := hd.1; omega)
        refine ⟨?_, bound⟩
        rw [hc, hb] at cons; simpa [optl, hb, List.append_assoc] using cons
      · cases h
    · cases h
  · split at h
    · cases h
    · cases h; exact ⟨cons, bound⟩
  · split at h
    · split at h
      · next v rest hb =>
        cases h
        refine ⟨?_, ?_⟩
        · rw [hb] at cons; simpa [List.append_assoc] using cons
        · rw [hb] at bound; simp only [List.length_cons] at bound
          show rest.length ≤ c
          omega
      · cases h
    · cases h

theorem reach_inv {c replies s} (h : Reach c replies s) : Inv c replies s := by
  induction h with
  | init => exact inv_init c replies
  | step a _ hs ih => exact step_inv a ih hs

theorem reach_run {c replies} : ∀ (acts : List FAct) {s t}, Reach c replies s → runActs c s acts = some t →
    Reach c replies t
  | [], s, t, hr, h => by simp only [runActs] at h; cases h; exact hr
  | a :: as, s, t, hr, h => by
    simp only [runActs] at h
    split at h
    · next u hu => exact reach_run as (Reach.step a hr hu) h
    · cases h

theorem reach_of_run {c replies} (acts : List FAct) {t} (h : runActs c (FS.init replies) acts = some t) :
    Reach c replies t := reach_run acts Reach.init h

end FpgoVerif.C13.Fan
