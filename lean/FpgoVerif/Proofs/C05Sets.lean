import FpgoVerif.Proofs.C05Lists
/-! Helper lemmas for C05: map-level set functions (Merge, IntersectionMapByKey, Minus by key, …). -/
namespace FpgoVerif.C05
variable {κ ν : Type} [DecidableEq κ]

theorem mem_iff_mget (c : GoMap κ ν) (h : (mkeys c).Nodup) (k : κ) (v : ν) :
    (k, v) ∈ c ↔ mget c k = some v := by
  induction c with
  | nil => simp [mget]
  | cons p t ih =>
    obtain ⟨k0, v0⟩ := p
    simp only [mkeys, List.map_cons, List.nodup_cons] at h
    by_cases hk : k0 = k
    · subst hk
      simp only [List.mem_cons, Prod.mk.injEq, true_and, mget, if_true, Option.some.injEq]
      constructor
      · rintro (h1 | h1)
        · exact h1.symm
        · exact absurd (List.mem_map_of_mem (f := Prod.fst) h1) h.1
      · intro h1; exact Or.inl h1.symm
    · have hk' : ¬ k = k0 := fun e => hk e.symm
      simp only [List.mem_cons, Prod.mk.injEq, hk', false_and, false_or, mget, hk, if_false]
      exact ih h.2

/-- a fold that deletes the keys of the entries selected by `c` -/
theorem mem_mkeys_foldl_del {μ : Type} (L : List (κ × μ)) (c : κ × μ → Prop) [DecidablePred c]
    (r : GoMap κ ν) (k : κ) :
    k ∈ mkeys (L.foldl (fun r p => if c p then mdel r p.1 else r) r) ↔
      k ∈ mkeys r ∧ ∀ p ∈ L, c p → p.1 ≠ k := by
  induction L generalizing r with
  | nil => simp
  | cons q L ih =>
    simp only [List.foldl_cons, ih, List.mem_cons, forall_eq_or_imp]
    by_cases hc : c q
    · simp only [hc, if_true, mem_mkeys_mdel, forall_const]
      constructor
      · rintro ⟨⟨h1, h2⟩, h3⟩; exact ⟨h2, fun e => h1 e.symm, h3⟩
      · rintro ⟨h1, h2, h3⟩; exact ⟨⟨fun e => h2 e.symm, h1⟩, h3⟩
    · simp [hc]

theorem nodup_mkeys_foldl_del {μ : Type} (L : List (κ × μ)) (c : κ × μ → Prop) [DecidablePred c]
    (r : GoMap κ ν) (h : (mkeys r).Nodup) :
    (mkeys (L.foldl (fun r p => if c p then mdel r p.1 else r) r)).Nodup := by
  induction L generalizing r with
  | nil => simpa using h
  | cons q L ih =>
    simp only [List.foldl_cons]
    apply ih
    split
    · exact nodup_mkeys_mdel r q.1 h
    · exact h

theorem mget_foldl_del_keep {μ : Type} (L : List (κ × μ)) (c : κ × μ → Prop) [DecidablePred c]
    (r : GoMap κ ν) (k : κ) (h : ∀ p ∈ L, c p → p.1 ≠ k) :
    mget (L.foldl (fun r p => if c p then mdel r p.1 else r) r) k = mget r k := by
  induction L generalizing r with
  | nil => simp
  | cons q L ih =>
    simp only [List.foldl_cons]
    rw [ih _ (fun p hp => h p (by simp [hp]))]
    by_cases hc : c q
    · have := h q (by simp) hc
      simp [hc, mget_mdel, this]
    · simp [hc]

/-! ### Merge -/

theorem mem_mkeys_merge (m1 m2 : GoMap κ ν) (k : κ) : k ∈ mkeys (merge m1 m2) ↔ k ∈ mkeys m1 ∨ k ∈ mkeys m2 := by
  rw [merge, mem_mkeys_mcopyInto, mem_mkeys_mcopyInto]; simp [mkeys]

theorem nodup_mkeys_merge (m1 m2 : GoMap κ ν) : (mkeys (merge m1 m2)).Nodup :=
  nodup_mkeys_mcopyInto _ _ (nodup_mkeys_mcopyInto _ _ (by simp [mkeys]))

/-- the second map's value wins -/
theorem mget_merge (m1 m2 : GoMap κ ν) (h1 : (mkeys m1).Nodup) (h2 : (mkeys m2).Nodup) (k : κ) :
    mget (merge m1 m2) k = (mget m2 k).orElse (fun _ => mget m1 k) := by
  simp [merge, mget_mcopyInto, h1, h2, mget]

/-! ### IntersectionMapByKey: the counting pass -/

/-- number of maps that contain `k` -/
def cnt (k : κ) : List (GoMap κ ν) → Nat
  | [] => 0
  | m :: ms => (if mhas m k then 1 else 0) + cnt k ms

theorem cnt_le (k : κ) (ms : List (GoMap κ ν)) : cnt k ms ≤ ms.length := by
  induction ms with
  | nil => simp [cnt]
  | cons m ms ih => simp only [cnt, List.length_cons]; split <;> omega

theorem cnt_eq_length_iff (k : κ) (ms : List (GoMap κ ν)) : cnt k ms = ms.length ↔ ∀ m ∈ ms, k ∈ mkeys m := by
  induction ms with
  | nil => simp [cnt]
  | cons m ms ih =>
    have hle := cnt_le k ms
    simp only [cnt, List.length_cons, List.mem_cons, forall_eq_or_imp]
    cases h : mhas m k with
    | true => simp only [if_true, (mhas_iff m k).1 h, true_and, ← ih]; omega
    | false => simp only [Bool.false_eq_true, if_false, (mhas_false_iff m k).1 h, false_and, iff_false]; omega

theorem cnt_pos_iff (k : κ) (ms : List (GoMap κ ν)) : 0 < cnt k ms ↔ ∃ m ∈ ms, k ∈ mkeys m := by
  induction ms with
  | nil => simp [cnt]
  | cons m ms ih =>
    simp only [cnt, List.mem_cons, exists_eq_or_imp]
    cases h : mhas m k with
    | true => simp only [if_true, (mhas_iff m k).1 h, true_or, iff_true]; omega
    | false => simp only [Bool.false_eq_true, if_false, (mhas_false_iff m k).1 h, false_or, ← ih]; omega

/-- one step of the counting pass -/
def imkStep (a : GoMap κ ν × GoMap κ Nat) (p : κ × ν) : GoMap κ ν × GoMap κ Nat :=
  (if mhas a.1 p.1 then a.1 else mset a.1 p.1 p.2, mset a.2 p.1 ((mget a.2 p.1).getD 0 + 1))

theorem imkCount_eq (acc : GoMap κ ν × GoMap κ Nat) (mi : GoMap κ ν) : imkCount acc mi = mi.foldl imkStep acc := rfl

theorem imk_inner (mi : GoMap κ ν) (hmi : (mkeys mi).Nodup) (r : GoMap κ ν) (c : GoMap κ Nat) (k : κ) :
    (k ∈ mkeys (mi.foldl imkStep (r, c)).1 ↔ k ∈ mkeys r ∨ k ∈ mkeys mi) ∧
    ((mkeys r).Nodup → (mkeys (mi.foldl imkStep (r, c)).1).Nodup) ∧
    ((mkeys c).Nodup → (mkeys (mi.foldl imkStep (r, c)).2).Nodup) ∧
    mget (mi.foldl imkStep (r, c)).2 k = if mhas mi k then some ((mget c k).getD 0 + 1) else mget c k := by
  induction mi generalizing r c with
  | nil => simp [mkeys, mhas, mget]
  | cons p t ih =>
    obtain ⟨k0, v0⟩ := p
    simp only [mkeys, List.map_cons, List.nodup_cons] at hmi
    have ih' := ih hmi.2 (imkStep (r, c) (k0, v0)).1 (imkStep (r, c) (k0, v0)).2
    simp only [List.foldl_cons]
    obtain ⟨i1, i2, i3, i4⟩ := ih'
    refine ⟨?_, ?_, ?_, ?_⟩
    · rw [i1]
      simp only [imkStep, mkeys, List.map_cons, List.mem_cons]
      cases h : mhas r k0 with
      | true =>
        have := (mhas_iff r k0).1 h
        simp only [if_true]
        constructor
        · rintro (h1 | h1) <;> simp [h1, mkeys]
        · rintro (h1 | h1 | h1)
          · exact Or.inl h1
          · subst h1; exact Or.inl this
          · exact Or.inr h1
      | false =>
        simp only [Bool.false_eq_true, if_false]
        have := mem_mkeys_mset r k0 v0 k
        simp only [mkeys] at this
        rw [this]
        constructor
        · rintro ((h1 | h1) | h1) <;> simp [h1]
        · rintro (h1 | h1 | h1) <;> simp [h1]
    · intro hr
      apply i2
      simp only [imkStep]
      split
      · exact hr
      · exact nodup_mkeys_mset r k0 v0 hr
    · intro hc
      apply i3
      exact nodup_mkeys_mset c k0 _ hc
    · rw [i4]
      simp only [imkStep, mget_mset]
      by_cases hk : k0 = k
      · subst hk
        have : mget t k0 = none := (mget_none_iff t k0).2 hmi.1
        simp [this, mhas, mget]
      · simp [hk, mhas, mget]

theorem imk_outer (ms : List (GoMap κ ν)) (hms : ∀ m ∈ ms, (mkeys m).Nodup) (r : GoMap κ ν) (c : GoMap κ Nat)
    (k : κ) :
    (k ∈ mkeys (ms.foldl imkCount (r, c)).1 ↔ k ∈ mkeys r ∨ ∃ m ∈ ms, k ∈ mkeys m) ∧
    ((mkeys r).Nodup → (mkeys (ms.foldl imkCount (r, c)).1).Nodup) ∧
    ((mkeys c).Nodup → (mkeys (ms.foldl imkCount (r, c)).2).Nodup) ∧
    mget (ms.foldl imkCount (r, c)).2 k =
      if cnt k ms = 0 then mget c k else some ((mget c k).getD 0 + cnt k ms) := by
  induction ms generalizing r c with
  | nil => simp [cnt]
  | cons m ms ih =>
    have hm := hms m (by simp)
    have ih' := ih (fun m' h' => hms m' (by simp [h'])) (imkCount (r, c) m).1 (imkCount (r, c) m).2
    obtain ⟨j1, j2, j3, j4⟩ := imk_inner m hm r c k
    obtain ⟨i1, i2, i3, i4⟩ := ih'
    simp only [List.foldl_cons]
    rw [← imkCount_eq] at j1 j2 j3 j4
    refine ⟨?_, fun hr => i2 (j2 hr), fun hc => i3 (j3 hc), ?_⟩
    · rw [i1, j1]
      simp only [List.mem_cons, exists_eq_or_imp]
      constructor
      · rintro ((h | h) | h) <;> simp [h]
      · rintro (h | h | h) <;> simp [h]
    · rw [i4, j4]
      simp only [cnt]
      by_cases h : mhas m k = true
      · simp only [h, if_true]
        by_cases h0 : cnt k ms = 0
        · simp [h0]
        · have : ¬ (1 + cnt k ms = 0) := by omega
          simp only [h0, this, if_false, Option.getD_some]
          congr 1; omega
      · have h' : mhas m k = false := by simpa using h
        simp [h']

/-- IntersectionMapByKey: a key survives iff every operand has it (any arity ≥ 1, unique keys per operand) -/
theorem mem_mkeys_intersectionMapByKey (ms : List (GoMap κ ν)) (hne : ms ≠ [])
    (hms : ∀ m ∈ ms, (mkeys m).Nodup) (k : κ) :
    k ∈ mkeys (intersectionMapByKey ms) ↔ ∀ m ∈ ms, k ∈ mkeys m := by
  match ms, hne with
  | [m], _ => rw [intersectionMapByKey, mem_mkeys_mcopyInto]; simp [mkeys]
  | m1 :: m2 :: rest, _ =>
    simp only [intersectionMapByKey]
    rw [mem_mkeys_foldl_del]
    obtain ⟨i1, _, i3, _⟩ := imk_outer (m1 :: m2 :: rest) hms ([] : GoMap κ ν) ([] : GoMap κ Nat) k
    have hcn := i3 (by simp [mkeys])
    rw [i1]
    rw [← cnt_eq_length_iff, ← cnt_pos_iff]
    have hle := cnt_le k (m1 :: m2 :: rest)
    constructor
    · rintro ⟨h1 | h1, h2⟩
      · simp [mkeys] at h1
      · by_cases he : cnt k (m1 :: m2 :: rest) = (m1 :: m2 :: rest).length
        · exact he
        · exfalso
          have hlt : cnt k (m1 :: m2 :: rest) < (m1 :: m2 :: rest).length := by omega
          have hg := (imk_outer (m1 :: m2 :: rest) hms ([] : GoMap κ ν) ([] : GoMap κ Nat) k).2.2.2
          have hne0 : ¬ cnt k (m1 :: m2 :: rest) = 0 := by omega
          simp only [hne0, if_false, mget, Option.getD_none, Nat.zero_add] at hg
          have hmem := (mem_iff_mget _ hcn k _).2 hg
          exact h2 _ hmem hlt rfl
    · intro he
      refine ⟨Or.inr (by simp only [List.length_cons] at he; omega), ?_⟩
      intro p hp hlt hpk
      obtain ⟨pk, pv⟩ := p
      simp only at hpk; subst hpk
      have hg := (imk_outer (m1 :: m2 :: rest) hms ([] : GoMap κ ν) ([] : GoMap κ Nat) pk).2.2.2
      have hne0 : ¬ cnt pk (m1 :: m2 :: rest) = 0 := by simp only [List.length_cons] at he; omega
      simp only [hne0, if_false, mget, Option.getD_none, Nat.zero_add] at hg
      have := (mem_iff_mget _ hcn pk pv).1 hp
      rw [hg] at this
      injection this with this
      simp only [List.length_cons] at hlt he
      omega

theorem nodup_mkeys_intersectionMapByKey (ms : List (GoMap κ ν)) : (mkeys (intersectionMapByKey ms)).Nodup := by
  match ms with
  | [] => simp [intersectionMapByKey, mkeys]
  | [m] => exact nodup_mkeys_mcopyInto _ _ (by simp [mkeys])
  | m1 :: m2 :: rest =>
    simp only [intersectionMapByKey]
    apply nodup_mkeys_foldl_del
    -- nodup of the result map does not need unique keys in the operands
    suffices H : ∀ (ms : List (GoMap κ ν)) (r : GoMap κ ν) (c : GoMap κ Nat), (mkeys r).Nodup →
        (mkeys (ms.foldl imkCount (r, c)).1).Nodup from H _ _ _ (by simp [mkeys])
    intro ms
    induction ms with
    | nil => intro r c h; simpa using h
    | cons m ms ih =>
      intro r c h
      simp only [List.foldl_cons]
      apply ih
      show (mkeys (m.foldl imkStep (r, c)).1).Nodup
      clear ih
      induction m generalizing r c with
      | nil => simpa using h
      | cons p t iht =>
        simp only [List.foldl_cons]
        apply iht
        simp only [imkStep]
        split
        · exact h
        · exact nodup_mkeys_mset r p.1 p.2 h

/-! ### IsSubsetMapByKey, MinusMapByKey -/

theorem isSubsetMapByKey_iff (a b : GoMap κ ν) (ha : a ≠ []) (hb : b ≠ []) :
    isSubsetMapByKey a b = true ↔ ∀ k ∈ mkeys a, k ∈ mkeys b := by
  unfold isSubsetMapByKey
  have : (a.length == 0 || b.length == 0) = false := by simp [ha, hb]
  rw [this]
  simp only [Bool.false_eq_true, if_false, List.all_eq_true, mhas_iff]
  constructor
  · intro h k hk
    simp only [mkeys, List.mem_map] at hk
    obtain ⟨p, hp, rfl⟩ := hk
    exact h p hp
  · intro h p hp
    exact h p.1 (List.mem_map_of_mem hp)

theorem isSubsetMapByKey_empty (a b : GoMap κ ν) (h : a = [] ∨ b = []) : isSubsetMapByKey a b = false := by
  rcases h with h | h <;> simp [isSubsetMapByKey, h]

theorem mkeys_cons (p : κ × ν) (t : GoMap κ ν) : mkeys (p :: t) = p.1 :: mkeys t := rfl

theorem mem_mkeys_minusMapByKey (a b : GoMap κ ν) (k : κ) :
    k ∈ mkeys (minusMapByKey a b) ↔ k ∈ mkeys a ∧ k ∉ mkeys b := by
  suffices H : ∀ (r : GoMap κ ν), k ∈ mkeys (a.foldl (fun r p => if mhas b p.1 then r else mset r p.1 p.2) r) ↔
      k ∈ mkeys r ∨ (k ∈ mkeys a ∧ k ∉ mkeys b) by
    have := H []
    simpa [minusMapByKey, mkeys] using this
  induction a with
  | nil => intro r; simp [mkeys]
  | cons p t ih =>
    intro r
    simp only [List.foldl_cons, ih, mkeys_cons, List.mem_cons]
    by_cases h : mhas b p.1 = true
    · have hb := (mhas_iff b p.1).1 h
      simp only [h, if_true]
      constructor
      · rintro (h1 | ⟨h1, h2⟩)
        · exact Or.inl h1
        · exact Or.inr ⟨Or.inr h1, h2⟩
      · rintro (h1 | ⟨h1 | h1, h2⟩)
        · exact Or.inl h1
        · subst h1; exact absurd hb h2
        · exact Or.inr ⟨h1, h2⟩
    · have h' : mhas b p.1 = false := by simpa using h
      have hb := (mhas_false_iff b p.1).1 h'
      simp only [h', Bool.false_eq_true, if_false, mem_mkeys_mset]
      constructor
      · rintro ((h1 | h1) | ⟨h1, h2⟩)
        · subst h1; exact Or.inr ⟨Or.inl rfl, hb⟩
        · exact Or.inl h1
        · exact Or.inr ⟨Or.inr h1, h2⟩
      · rintro (h1 | ⟨h1 | h1, h2⟩)
        · exact Or.inl (Or.inr h1)
        · exact Or.inl (Or.inl h1)
        · exact Or.inr ⟨h1, h2⟩

end FpgoVerif.C05
