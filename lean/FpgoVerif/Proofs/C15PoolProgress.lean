import FpgoVerif.Proofs.C15Pool
/-! Progress (no deadlock) of the worker-pool close path. -/
namespace FpgoVerif.C15.Pl

theorem gstep_of_isSome {s pc} (ch : Bool) (hc : 0 < s.cnt (kind pc)) (hs : (step s pc ch).isSome = true) :
    ∃ s' nx, gstep s pc ch = some (s', nx) := by
  cases h : step s pc ch with
  | none => simp [h] at hs
  | some p =>
    obtain ⟨s1, nx⟩ := p
    refine ⟨{ s1 with cnt := move s1.cnt (kind pc) nx }, nx, ?_⟩
    unfold gstep
    rw [if_neg (by omega), h]

/-- Whoever is inside the pool (a Schedule, the Close, a worker): there is a program-counter kind occupied by
    some goroutine such that a goroutine at that kind can take its next atom *whatever its parameters are*
    (the counters do not record which job a worker runs), provided jobs terminate (gate open).
    `timer = false`: without the workers' expiry timer; this needs that the Close closes the job queue
    (`qclose`) and has begun — an idle worker is then released by the closed channel.
    `timer = true`: the expiry timer may fire (needed when the job queue stays open: an idle worker only
    notices the pool flag after its `time.After`). -/
theorem progress {s} (hi : Inv s) (hg : s.gate = true) (timer : Bool)
    (ht : timer = false → s.qclose = true ∧ s.closeStarted = true)
    (hb : ∃ k, 0 < s.cnt k) :
    ∃ k, 0 < s.cnt k ∧ ∀ pc, kind pc = k → ∃ s' nx, gstep s pc timer = some (s', nx) := by
  have hfn := hi.fn
  by_cases h1 : 0 < s.cnt .s2
  · refine ⟨.s2, h1, fun pc hk => ?_⟩
    cases pc <;> (try (simp [kind] at hk; done))
    exact gstep_of_isSome timer h1 (by simp only [step]; repeat' split
                                       all_goals simp)
  by_cases h2 : 0 < s.cnt .qc1
  · refine ⟨.qc1, h2, fun pc hk => ?_⟩
    cases pc <;> (try (simp [kind] at hk; done))
    exact gstep_of_isSome timer h2 (by simp only [step]; split <;> simp)
  by_cases h3 : 0 < s.cnt .qc2
  · refine ⟨.qc2, h3, fun pc hk => ?_⟩
    cases pc <;> (try (simp [kind] at hk; done))
    exact gstep_of_isSome timer h3 (by simp only [step]; split <;> simp)
  by_cases h4 : 0 < s.cnt .w2
  · refine ⟨.w2, h4, fun pc hk => ?_⟩
    cases pc <;> (try (simp [kind] at hk; done))
    exact gstep_of_isSome timer h4 (by simp only [step]; split <;> simp)
  have hw : writers s = 0 := by simp only [writers]; omega
  have hr : readers s = 0 := by simp only [readers, hfn, if_true]; omega
  by_cases h5 : 0 < s.cnt .s0
  · refine ⟨.s0, h5, fun pc hk => ?_⟩
    cases pc <;> (try (simp [kind] at hk; done))
    exact gstep_of_isSome timer h5 (by simp only [step]; split <;> simp)
  by_cases h6 : 0 < s.cnt .s1
  · refine ⟨.s1, h6, fun pc hk => ?_⟩
    cases pc <;> (try (simp [kind] at hk; done))
    exact gstep_of_isSome timer h6 (by simp [step, hw, hr])
  by_cases h7 : 0 < s.cnt .ic
  · refine ⟨.ic, h7, fun pc hk => ?_⟩
    cases pc <;> (try (simp [kind] at hk; done))
    exact gstep_of_isSome timer h7 (by simp [step])
  by_cases h8 : 0 < s.cnt .pc0
  · refine ⟨.pc0, h8, fun pc hk => ?_⟩
    cases pc <;> (try (simp [kind] at hk; done))
    exact gstep_of_isSome timer h8 (by simp only [step]; split <;> simp)
  by_cases h9 : 0 < s.cnt .pc1
  · refine ⟨.pc1, h9, fun pc hk => ?_⟩
    cases pc <;> (try (simp [kind] at hk; done))
    exact gstep_of_isSome timer h9 (by simp only [step, hw, hr]; split <;> simp)
  by_cases h10 : 0 < s.cnt .w0
  · refine ⟨.w0, h10, fun pc hk => ?_⟩
    cases pc <;> (try (simp [kind] at hk; done))
    exact gstep_of_isSome timer h10 (by simp only [step]; split <;> simp)
  by_cases h11 : 0 < s.cnt .w1
  · refine ⟨.w1, h11, fun pc hk => ?_⟩
    cases pc <;> (try (simp [kind] at hk; done))
    exact gstep_of_isSome timer h11 (by simp only [step, hfn, hw]; simp; split <;> simp)
  by_cases h12 : 0 < s.cnt .w4
  · refine ⟨.w4, h12, fun pc hk => ?_⟩
    cases pc <;> (try (simp [kind] at hk; done))
    exact gstep_of_isSome timer h12 (by simp only [step, hg]; simp; split <;> simp)
  have h13 : 0 < s.cnt .w3 := by
    obtain ⟨k, hk⟩ := hb
    cases k <;> omega
  refine ⟨.w3, h13, fun pc hk => ?_⟩
  cases pc <;> (try (simp [kind] at hk; done))
  refine gstep_of_isSome timer h13 ?_
  cases hj : s.jobs with
  | cons j rest => simp [step, hj]
  | nil =>
    cases timer with
    | true => simp only [step, hj]; split <;> simp
    | false =>
      obtain ⟨hq, hcs⟩ := ht rfl
      -- the closer is not inside any more, so Close has returned and (qclose) the channel is closed
      have hcd : s.closeDone = true := by
        cases hd : s.closeDone with
        | true => rfl
        | false => have := hi.closerIn hcs hd; omega
      have hcc := hi.doneQ hcd hq
      simp [step, hj, hcc]

theorem qclose_const {cap qc f s} (h : Reach cap qc f s) : s.qclose = qc := by
  induction h with
  | init => rfl
  | spawn pc _ hs ih =>
    cases pc <;> simp [spawn, inc] at hs
    all_goals (try (obtain ⟨_, rfl⟩ := hs))
    all_goals (try subst hs)
    all_goals (exact ih)
  | step pc ch _ hs ih =>
    obtain ⟨_, s1, hs1, rfl⟩ := gstep_some hs
    cases pc <;> simp only [step] at hs1
    all_goals (repeat' split at hs1)
    all_goals (try (simp only [Option.some.injEq, Prod.mk.injEq] at hs1))
    all_goals (try (obtain ⟨rfl, rfl⟩ := hs1))
    all_goals (try (simp at hs1))
    all_goals (simp_all)
  | gate _ ih => exact ih

end FpgoVerif.C15.Pl
