import FpgoVerif.Model.C16
/-! Invariants of the PMap goroutine system, preserved by every step of every goroutine. -/
namespace FpgoVerif.C16
set_option linter.unusedSimpArgs false
set_option linter.unusedVariables false

variable {α β : Type}

def WS.compIdx : WS α β → Option Nat | .computing i _ => some i | _ => none
def WS.sendIdx : WS α β → Option Nat | .sending i _ => some i | _ => none

/-- how many copies of position `i` are in the pipeline (job buffer, being computed, waiting to be sent,
    result buffer, collected) -/
def occ (s : St α β) (i : Nat) : Nat :=
  (s.chJobs.map (·.1)).count i + (s.workers.filterMap WS.compIdx).count i + (s.workers.filterMap WS.sendIdx).count i
  + (s.chResult.map (·.1)).count i + (s.collected.map (·.1)).count i

/-- how many results for position `i` exist -/
def produced (s : St α β) (i : Nat) : Nat :=
  (s.workers.filterMap WS.sendIdx).count i + (s.chResult.map (·.1)).count i + (s.collected.map (·.1)).count i

structure Inv (l : List α) (f : α → β) (w cap : Nat) (s : St α β) : Prop where
  wlen : s.workers.length = w
  fed_le : s.fed ≤ l.length
  closed_fed : s.jobsClosed = true → s.fed = l.length
  total : s.chJobs.length + s.workers.countP WS.isComputing + s.workers.countP WS.isSending + s.chResult.length
            + s.collected.length = s.fed
  cons_lt : ∀ i, i < s.fed → occ s i = 1
  cons_ge : ∀ i, s.fed ≤ i → occ s i = 0
  apps : ∀ i, s.apps.count i = produced s i
  wfJobs : ∀ e ∈ s.chJobs, l[e.1]? = some e.2
  wfComp : ∀ i v, WS.computing i v ∈ s.workers → l[i]? = some v
  wfSend : ∀ i r, WS.sending i r ∈ s.workers → (l[i]?).map f = some r
  wfRes : ∀ e ∈ s.chResult, (l[e.1]?).map f = some e.2
  wfCol : ∀ e ∈ s.collected, (l[e.1]?).map f = some e.2
  doneJobs : (∃ x ∈ s.workers, x.isDone = true) → s.jobsClosed = true ∧ s.chJobs = []
  resClosed : s.resultClosed = true → ∀ x ∈ s.workers, x.isDone = true
  colDone : s.collectorDone = true → s.resultClosed = true ∧ s.chResult = []
  noPanic : s.panicked = false
  resCap : s.chResult.length ≤ cap

theorem mem_swap {γ : Type} {x b : γ} (a : γ) {pre post : List γ} (h : x ∈ pre ++ b :: post) :
    x = b ∨ x ∈ pre ++ a :: post := by
  simp only [List.mem_append, List.mem_cons] at h ⊢
  rcases h with h | h | h
  · exact Or.inr (Or.inl h)
  · exact Or.inl h
  · exact Or.inr (Or.inr (Or.inr h))

theorem inv_init (l : List α) (f : α → β) (w cap : Nat) : Inv l f w cap (init w : St α β) := by
  refine ⟨by simp [init], by simp [init], by simp [init], ?_, by simp [init], ?_, ?_, by simp [init], ?_, ?_, by simp [init],
    by simp [init], ?_, by simp [init], by simp [init], rfl, by simp [init]⟩
  · simp [init, List.countP_replicate, WS.isComputing, WS.isSending]
  · intro i _; simp [occ, init, List.filterMap_replicate, WS.compIdx, WS.sendIdx]
  · intro i; simp [produced, init, List.filterMap_replicate, WS.sendIdx]
  · intro i v h; simp [init, List.mem_replicate] at h
  · intro i r h; simp [init, List.mem_replicate] at h
  · rintro ⟨x, hx, hd⟩; simp [init, List.mem_replicate] at hx; rw [hx.2] at hd; simp [WS.isDone] at hd

section steps

local macro "wnorm" : tactic => `(tactic| simp only [occ, produced, List.filterMap_append, List.filterMap_cons, List.filterMap_nil,
  List.count_append, List.count_cons, List.count_nil, List.countP_append, List.countP_cons, List.countP_nil, List.map_append,
  List.map_cons, List.map_nil, List.length_append, List.length_cons, List.length_nil, WS.compIdx, WS.sendIdx,
  WS.isComputing, WS.isSending, WS.isDone])
local macro "wnormh" h:ident : tactic => `(tactic| simp only [occ, produced, List.filterMap_append, List.filterMap_cons, List.filterMap_nil,
  List.count_append, List.count_cons, List.count_nil, List.countP_append, List.countP_cons, List.countP_nil, List.map_append,
  List.map_cons, List.map_nil, List.length_append, List.length_cons, List.length_nil, WS.compIdx, WS.sendIdx,
  WS.isComputing, WS.isSending, WS.isDone] at $h:ident)
variable {l : List α} {f : α → β} {w cap : Nat} {s : St α β}

theorem inv_feed (h : Inv l f w cap s) (v : α) (hv : l[s.fed]? = some v) (hc : s.jobsClosed = false) :
    Inv l f w cap { s with fed := s.fed + 1, chJobs := s.chJobs ++ [(s.fed, v)] } := by
  have hlt : s.fed < l.length := by
    cases hlen : decide (s.fed < l.length) with
    | true => exact of_decide_eq_true hlen
    | false =>
      have := of_decide_eq_false hlen
      rw [List.getElem?_eq_none (by omega)] at hv; cases hv
  refine ⟨h.wlen, hlt, ?_, ?_, ?_, ?_, ?_, ?_, h.wfComp, h.wfSend, h.wfRes, h.wfCol, ?_, h.resClosed, h.colDone, h.noPanic, h.resCap⟩
  · intro hj; simp [hc] at hj
  · have := h.total; simp only [List.length_append, List.length_cons, List.length_nil]; omega
  · intro i hi
    dsimp only at hi
    simp only [occ, List.map_append, List.map_cons, List.map_nil, List.count_append, List.count_cons, List.count_nil]
    by_cases he : s.fed = i
    · subst he; have := h.cons_ge s.fed (Nat.le_refl _); simp only [occ] at this; simp; omega
    · have := h.cons_lt i (by omega); simp only [occ] at this; simp [he]; omega
  · intro i hi
    dsimp only at hi
    simp only [occ, List.map_append, List.map_cons, List.map_nil, List.count_append, List.count_cons, List.count_nil]
    have := h.cons_ge i (by omega); simp only [occ] at this
    have he : ¬ s.fed = i := by omega
    simp [he]; omega
  · exact h.apps
  · intro e he
    simp only [List.mem_append, List.mem_cons, List.not_mem_nil, or_false] at he
    rcases he with he | rfl
    · exact h.wfJobs e he
    · exact hv
  · intro hd
    have := (h.doneJobs hd).1
    simp [hc] at this

theorem inv_closeJobs (h : Inv l f w cap s) (hf : s.fed = l.length) :
    Inv l f w cap { s with jobsClosed := true } :=
  ⟨h.wlen, h.fed_le, fun _ => hf, h.total, h.cons_lt, h.cons_ge, h.apps, h.wfJobs, h.wfComp, h.wfSend, h.wfRes, h.wfCol,
   fun hd => ⟨rfl, (h.doneJobs hd).2⟩, h.resClosed, h.colDone, h.noPanic, h.resCap⟩

/-- a worker that is not done exists, so chResult is still open -/
theorem open_of_notDone (h : Inv l f w cap s) {pre post : List (WS α β)} {a : WS α β}
    (hw : s.workers = pre ++ a :: post) (ha : a.isDone = false) : s.resultClosed = false := by
  cases hr : s.resultClosed with
  | false => rfl
  | true =>
    have := h.resClosed hr a (by rw [hw]; simp)
    rw [ha] at this; cases this

theorem inv_take (h : Inv l f w cap s) {pre post : List (WS α β)} {i : Nat} {v : α} {rest : List (Nat × α)}
    (hw : s.workers = pre ++ .idle :: post) (hj : s.chJobs = (i, v) :: rest) :
    Inv l f w cap { s with workers := pre ++ .computing i v :: post, chJobs := rest } := by
  have hopen := open_of_notDone h hw rfl
  have hnd : ¬ ∃ x ∈ s.workers, x.isDone = true := fun hd => by have := (h.doneJobs hd).2; rw [hj] at this; cases this
  refine ⟨?_, h.fed_le, h.closed_fed, ?_, ?_, ?_, ?_, ?_, ?_, ?_, h.wfRes, h.wfCol, ?_, ?_, h.colDone, h.noPanic, h.resCap⟩
  · have := h.wlen; rw [hw] at this; simpa using this
  · have := h.total; simp only [hw, hj] at this; wnormh this; wnorm; simp at this ⊢; omega
  · intro j hjlt
    have := h.cons_lt j hjlt; simp only [occ, produced, hw, hj] at this; wnormh this; wnorm
    by_cases he : i = j <;> simp [he] at this ⊢ <;> omega
  · intro j hjge
    have := h.cons_ge j hjge; simp only [occ, produced, hw, hj] at this; wnormh this; wnorm
    by_cases he : i = j <;> simp [he] at this ⊢ <;> omega
  · intro j; have := h.apps j; simp only [occ, produced, hw] at this; wnormh this; wnorm; exact this
  · intro e he; exact h.wfJobs e (by rw [hj]; exact List.mem_cons_of_mem _ he)
  · intro j u hm
    rcases mem_swap .idle hm with hm | hm
    · obtain ⟨rfl, rfl⟩ := WS.computing.inj hm; exact h.wfJobs (j, u) (by rw [hj]; simp)
    · exact h.wfComp j u (by rw [hw]; exact hm)
  · intro j r hm
    rcases mem_swap .idle hm with hm | hm
    · cases hm
    · exact h.wfSend j r (by rw [hw]; exact hm)
  · rintro ⟨x, hx, hd⟩
    rcases mem_swap .idle hx with hx | hx
    · subst hx; cases hd
    · exact absurd ⟨x, by rw [hw]; exact hx, hd⟩ hnd
  · intro hr; dsimp only at hr; rw [hopen] at hr; cases hr

theorem inv_exit (h : Inv l f w cap s) {pre post : List (WS α β)}
    (hw : s.workers = pre ++ .idle :: post) (hj : s.chJobs = []) (hc : s.jobsClosed = true) :
    Inv l f w cap { s with workers := pre ++ .done :: post } := by
  have hopen := open_of_notDone h hw rfl
  refine ⟨?_, h.fed_le, h.closed_fed, ?_, ?_, ?_, ?_, h.wfJobs, ?_, ?_, h.wfRes, h.wfCol, fun _ => ⟨hc, hj⟩, ?_, h.colDone, h.noPanic, h.resCap⟩
  · have := h.wlen; rw [hw] at this; simpa using this
  · have := h.total; simp only [hw] at this; wnormh this; wnorm; simp at this ⊢; omega
  · intro j hjlt; have := h.cons_lt j hjlt; simp only [occ, hw] at this; wnormh this; wnorm; exact this
  · intro j hjge; have := h.cons_ge j hjge; simp only [occ, hw] at this; wnormh this; wnorm; exact this
  · intro j; have := h.apps j; simp only [produced, hw] at this; wnormh this; wnorm; exact this
  · intro j u hm
    rcases mem_swap .idle hm with hm | hm
    · cases hm
    · exact h.wfComp j u (by rw [hw]; exact hm)
  · intro j r hm
    rcases mem_swap .idle hm with hm | hm
    · cases hm
    · exact h.wfSend j r (by rw [hw]; exact hm)
  · intro hr; dsimp only at hr; rw [hopen] at hr; cases hr

theorem inv_compute (h : Inv l f w cap s) {pre post : List (WS α β)} {i : Nat} {v : α}
    (hw : s.workers = pre ++ .computing i v :: post) :
    Inv l f w cap { s with workers := pre ++ .sending i (f v) :: post, apps := s.apps ++ [i] } := by
  have hopen := open_of_notDone h hw rfl
  refine ⟨?_, h.fed_le, h.closed_fed, ?_, ?_, ?_, ?_, h.wfJobs, ?_, ?_, h.wfRes, h.wfCol, ?_, ?_, h.colDone, h.noPanic, h.resCap⟩
  · have := h.wlen; rw [hw] at this; simpa using this
  · have := h.total; simp only [hw] at this; wnormh this; wnorm; simp at this ⊢; omega
  · intro j hjlt; have := h.cons_lt j hjlt; simp only [occ, hw] at this; wnormh this; wnorm
    by_cases he : i = j <;> simp [he] at this ⊢ <;> omega
  · intro j hjge; have := h.cons_ge j hjge; simp only [occ, hw] at this; wnormh this; wnorm
    by_cases he : i = j <;> simp [he] at this ⊢ <;> omega
  · intro j; have := h.apps j; simp only [produced, hw] at this; wnormh this; wnorm
    by_cases he : i = j <;> simp [he] at this ⊢ <;> omega
  · intro j u hm
    rcases mem_swap (.computing i v) hm with hm | hm
    · cases hm
    · exact h.wfComp j u (by rw [hw]; exact hm)
  · intro j r hm
    rcases mem_swap (.computing i v) hm with hm | hm
    · obtain ⟨rfl, rfl⟩ := WS.sending.inj hm
      rw [h.wfComp j v (by rw [hw]; simp)]; rfl
    · exact h.wfSend j r (by rw [hw]; exact hm)
  · rintro ⟨x, hx, hd⟩
    rcases mem_swap (.computing i v) hx with hx | hx
    · subst hx; cases hd
    · exact h.doneJobs ⟨x, by rw [hw]; exact hx, hd⟩
  · intro hr; dsimp only at hr; rw [hopen] at hr; cases hr

theorem inv_sendBuf (h : Inv l f w cap s) {pre post : List (WS α β)} {i : Nat} {r : β}
    (hw : s.workers = pre ++ .sending i r :: post) (hcap : s.chResult.length < cap) :
    Inv l f w cap { s with workers := pre ++ .idle :: post, chResult := s.chResult ++ [(i, r)] } := by
  have hopen := open_of_notDone h hw rfl
  refine ⟨?_, h.fed_le, h.closed_fed, ?_, ?_, ?_, ?_, h.wfJobs, ?_, ?_, ?_, h.wfCol, ?_, ?_, ?_, h.noPanic, ?_⟩
  · have := h.wlen; rw [hw] at this; simpa using this
  · have := h.total; simp only [hw] at this; wnormh this; wnorm; simp at this ⊢; omega
  · intro j hjlt; have := h.cons_lt j hjlt; simp only [occ, hw] at this; wnormh this; wnorm
    by_cases he : i = j <;> simp [he] at this ⊢ <;> omega
  · intro j hjge; have := h.cons_ge j hjge; simp only [occ, hw] at this; wnormh this; wnorm
    by_cases he : i = j <;> simp [he] at this ⊢ <;> omega
  · intro j; have := h.apps j; simp only [produced, hw] at this; wnormh this; wnorm
    by_cases he : i = j <;> simp [he] at this ⊢ <;> omega
  · intro j u hm
    rcases mem_swap (.sending i r) hm with hm | hm
    · cases hm
    · exact h.wfComp j u (by rw [hw]; exact hm)
  · intro j r' hm
    rcases mem_swap (.sending i r) hm with hm | hm
    · cases hm
    · exact h.wfSend j r' (by rw [hw]; exact hm)
  · intro e he
    simp only [List.mem_append, List.mem_cons, List.not_mem_nil, or_false] at he
    rcases he with he | rfl
    · exact h.wfRes e he
    · exact h.wfSend i r (by rw [hw]; simp)
  · rintro ⟨x, hx, hd⟩
    rcases mem_swap (.sending i r) hx with hx | hx
    · subst hx; cases hd
    · exact h.doneJobs ⟨x, by rw [hw]; exact hx, hd⟩
  · intro hr; dsimp only at hr; rw [hopen] at hr; cases hr
  · intro hc; have := (h.colDone hc).1; rw [hopen] at this; cases this
  · simp only [List.length_append, List.length_cons, List.length_nil]; omega

theorem inv_handoff (h : Inv l f w cap s) {pre post : List (WS α β)} {i : Nat} {r : β}
    (hw : s.workers = pre ++ .sending i r :: post) :
    Inv l f w cap { s with workers := pre ++ .idle :: post, collected := s.collected ++ [(i, r)] } := by
  have hopen := open_of_notDone h hw rfl
  refine ⟨?_, h.fed_le, h.closed_fed, ?_, ?_, ?_, ?_, h.wfJobs, ?_, ?_, h.wfRes, ?_, ?_, ?_, h.colDone, h.noPanic, h.resCap⟩
  · have := h.wlen; rw [hw] at this; simpa using this
  · have := h.total; simp only [hw] at this; wnormh this; wnorm; simp at this ⊢; omega
  · intro j hjlt; have := h.cons_lt j hjlt; simp only [occ, hw] at this; wnormh this; wnorm
    by_cases he : i = j <;> simp [he] at this ⊢ <;> omega
  · intro j hjge; have := h.cons_ge j hjge; simp only [occ, hw] at this; wnormh this; wnorm
    by_cases he : i = j <;> simp [he] at this ⊢ <;> omega
  · intro j; have := h.apps j; simp only [produced, hw] at this; wnormh this; wnorm
    by_cases he : i = j <;> simp [he] at this ⊢ <;> omega
  · intro j u hm
    rcases mem_swap (.sending i r) hm with hm | hm
    · cases hm
    · exact h.wfComp j u (by rw [hw]; exact hm)
  · intro j r' hm
    rcases mem_swap (.sending i r) hm with hm | hm
    · cases hm
    · exact h.wfSend j r' (by rw [hw]; exact hm)
  · intro e he
    simp only [List.mem_append, List.mem_cons, List.not_mem_nil, or_false] at he
    rcases he with he | rfl
    · exact h.wfCol e he
    · exact h.wfSend i r (by rw [hw]; simp)
  · rintro ⟨x, hx, hd⟩
    rcases mem_swap (.sending i r) hx with hx | hx
    · subst hx; cases hd
    · exact h.doneJobs ⟨x, by rw [hw]; exact hx, hd⟩
  · intro hr; dsimp only at hr; rw [hopen] at hr; cases hr

theorem inv_closeResult (h : Inv l f w cap s) (hd : ∀ x ∈ s.workers, x.isDone = true) (ho : s.resultClosed = false) :
    Inv l f w cap { s with resultClosed := true } :=
  ⟨h.wlen, h.fed_le, h.closed_fed, h.total, h.cons_lt, h.cons_ge, h.apps, h.wfJobs, h.wfComp, h.wfSend, h.wfRes, h.wfCol,
   h.doneJobs, fun _ => hd, fun hc => (by have := (h.colDone hc).1; rw [ho] at this; cases this), h.noPanic, h.resCap⟩

theorem inv_collect (h : Inv l f w cap s) {e : Nat × β} {rest : List (Nat × β)} (hr : s.chResult = e :: rest)
    (hc : s.collectorDone = false) :
    Inv l f w cap { s with chResult := rest, collected := s.collected ++ [e] } := by
  refine ⟨h.wlen, h.fed_le, h.closed_fed, ?_, ?_, ?_, ?_, h.wfJobs, h.wfComp, h.wfSend, ?_, ?_, h.doneJobs, h.resClosed, ?_, h.noPanic, ?_⟩
  · have := h.total; simp only [hr] at this; wnormh this; wnorm; omega
  · intro j hjlt; have := h.cons_lt j hjlt; simp only [occ, hr] at this; wnormh this; wnorm; omega
  · intro j hjge; have := h.cons_ge j hjge; simp only [occ, hr] at this; wnormh this; wnorm; omega
  · intro j; have := h.apps j; simp only [produced, hr] at this; wnormh this; wnorm; omega
  · intro e' he; exact h.wfRes e' (by rw [hr]; exact List.mem_cons_of_mem _ he)
  · intro e' he
    simp only [List.mem_append, List.mem_cons, List.not_mem_nil, or_false] at he
    rcases he with he | rfl
    · exact h.wfCol e' he
    · exact h.wfRes e' (by rw [hr]; simp)
  · intro hc'; dsimp only at hc'; rw [hc] at hc'; cases hc'
  · have := h.resCap; rw [hr] at this; simp at this; dsimp only; omega

theorem inv_finish (h : Inv l f w cap s) (hr : s.chResult = []) (hc : s.resultClosed = true) :
    Inv l f w cap { s with collectorDone := true } :=
  ⟨h.wlen, h.fed_le, h.closed_fed, h.total, h.cons_lt, h.cons_ge, h.apps, h.wfJobs, h.wfComp, h.wfSend, h.wfRes, h.wfCol,
   h.doneJobs, h.resClosed, fun _ => ⟨hc, hr⟩, h.noPanic, h.resCap⟩

/-- every step of every goroutine preserves the invariant; the panicking step is never enabled -/
theorem inv_step (h : Inv l f w cap s) {s' : St α β} (hs : Step l f cap s s') : Inv l f w cap s' := by
  cases hs with
  | feed v hc hv _ => exact inv_feed h v hv hc
  | closeJobs _ hf => exact inv_closeJobs h hf
  | take pre post i v rest hw hj => exact inv_take h hw hj
  | exit pre post hw hj hc => exact inv_exit h hw hj hc
  | compute pre post i v hw => exact inv_compute h hw
  | sendBuf pre post i r hw _ hcap => exact inv_sendBuf h hw hcap
  | handoff pre post i r hw _ _ _ => exact inv_handoff h hw
  | sendClosed pre post i r hw hc _ => have := open_of_notDone h hw rfl; rw [hc] at this; cases this
  | closeResult hd ho => exact inv_closeResult h hd ho
  | collect e rest hr hc => exact inv_collect h hr hc
  | finish hr hc _ => exact inv_finish h hr hc

theorem inv_reach {s0 s' : St α β} (h : Inv l f w cap s0) (hr : Reach l f cap s0 s') : Inv l f w cap s' := by
  induction hr with
  | refl => exact h
  | step _ hs ih => exact inv_step ih hs

end steps

end FpgoVerif.C16
