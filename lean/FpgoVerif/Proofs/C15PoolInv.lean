import FpgoVerif.Model.C15Pool
import FpgoVerif.Proofs.C15Tac
/-! Invariants of the worker-pool close path. -/
namespace FpgoVerif.C15.Pl

theorem gstep_some {s pc ch s' nx} (h : gstep s pc ch = some (s', nx)) :
    0 < s.cnt (kind pc) ∧ ∃ s1, step s pc ch = some (s1, nx) ∧ s' = { s1 with cnt := move s1.cnt (kind pc) nx } := by
  unfold gstep at h
  split at h
  · simp at h
  · rename_i hc
    split at h
    · simp at h
    · rename_i s1 nx1 hs
      simp at h
      obtain ⟨rfl, rfl⟩ := h
      exact ⟨Nat.pos_of_ne_zero hc, s1, hs, rfl⟩

structure Inv (s : St) : Prop where
  fn : s.fixNotify = true
  nopanic : s.panic = false
  np0 : s.np = 0
  w1 : s.cnt .s2 + s.cnt .qc1 + s.cnt .qc2 ≤ 1
  wr : 0 < s.cnt .s2 + s.cnt .qc1 + s.cnt .qc2 → s.cnt .w2 = 0
  oneC : s.cnt .pc0 + s.cnt .pc1 + s.cnt .qc1 + s.cnt .qc2 ≤ 1
  startedC : s.closeStarted = false → s.cnt .pc0 + s.cnt .pc1 + s.cnt .qc1 + s.cnt .qc2 = 0
  startedFlag : s.pflag = true → s.closeStarted = true
  w2flag : 0 < s.cnt .w2 → s.qflag = false
  qcflag : 0 < s.cnt .qc1 + s.cnt .qc2 → s.qflag = true
  pcflag : 0 < s.cnt .pc1 + s.cnt .qc1 + s.cnt .qc2 → s.pflag = true
  qp : s.qflag = true → s.pflag = true
  loadFlag : s.loadClosed = true → s.qflag = true ∧ s.cnt .pc0 + s.cnt .pc1 + s.cnt .qc1 = 0
  chanFlag : s.chanClosed = true → s.loadClosed = true ∧ s.cnt .pc0 + s.cnt .pc1 + s.cnt .qc1 + s.cnt .qc2 = 0
  c2load : 0 < s.cnt .qc2 → s.loadClosed = true
  doneFlag : s.closeDone = true → s.pflag = true
  doneQ : s.closeDone = true → s.qclose = true → s.chanClosed = true
  late0 : s.late = 0
  pc0flag : 0 < s.cnt .pc0 → s.pflag = false
  closerIn : s.closeStarted = true → s.closeDone = false → 0 < s.cnt .pc0 + s.cnt .pc1 + s.cnt .qc1 + s.cnt .qc2

theorem inv_init (cap : Nat) (qc : Bool) : Inv (init cap qc true) := by
  constructor <;> simp [init]

/-- the invariant-preservation proof is cut into modules by program counter (parallel build) -/
def pcGroup : PC → Nat
  | .s0 _ => 0
  | .s1 _ => 0
  | .s2 _ => 1
  | .ic => 1
  | .pc0 => 2
  | .pc1 => 2
  | .qc1 => 3
  | .qc2 => 3
  | .w0 => 3
  | .w1 => 4
  | .w2 => 4
  | .w3 => 5
  | .w4 _ => 6

end FpgoVerif.C15.Pl
