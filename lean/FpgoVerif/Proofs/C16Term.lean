import FpgoVerif.Proofs.C16Inv
/-! Consequences of the invariant in terminal states, the termination measure, absence of deadlock. -/
namespace FpgoVerif.C16
set_option linter.unusedSimpArgs false
set_option linter.unusedVariables false

variable {α β : Type} {l : List α} {f : α → β} {w cap : Nat} {s : St α β}

theorem filterMap_none_of_done {γ : Type} (g : WS α β → Option γ) (hg : g .done = none) :
    ∀ (ws : List (WS α β)), (∀ x ∈ ws, x.isDone = true) → ws.filterMap g = [] := by
  intro ws
  induction ws with
  | nil => intro _; rfl
  | cons x xs ih =>
    intro h
    have hx := h x (by simp)
    cases x <;> simp [WS.isDone] at hx
    simp [List.filterMap_cons, hg, ih (fun y hy => h y (by simp [hy]))]

theorem countP_zero_of_done (p : WS α β → Bool) (hp : p .done = false) :
    ∀ (ws : List (WS α β)), (∀ x ∈ ws, x.isDone = true) → ws.countP p = 0 := by
  intro ws
  induction ws with
  | nil => intro _; rfl
  | cons x xs ih =>
    intro h
    have hx := h x (by simp)
    cases x <;> simp [WS.isDone] at hx
    simp [List.countP_cons, hp, ih (fun y hy => h y (by simp [hy]))]

/-- what a terminal state looks like -/
structure Terminal (l : List α) (s : St α β) : Prop where
  allDone : ∀ x ∈ s.workers, x.isDone = true
  jobsEmpty : s.chJobs = []
  resEmpty : s.chResult = []
  fedAll : s.fed = l.length
  colLen : s.collected.length = l.length
  keys : ∀ j, (s.collected.map (·.1)).count j = if j < l.length then 1 else 0
  appsOnce : ∀ j, s.apps.count j = if j < l.length then 1 else 0

theorem terminal_of_done (h : Inv l f w cap s) (hw : l ≠ [] → 0 < w) (hd : s.collectorDone = true) : Terminal l s := by
  have hrc := (h.colDone hd).1
  have hre := (h.colDone hd).2
  have hall := h.resClosed hrc
  have hjobs : s.chJobs = [] ∧ s.fed = l.length := by
    cases hws : s.workers with
    | nil =>
      have hw0 : w = 0 := by have := h.wlen; rw [hws] at this; simpa using this.symm
      have hl : l = [] := by
        cases l with
        | nil => rfl
        | cons a t => have := hw (by simp); omega
      have hfed : s.fed = 0 := by have := h.fed_le; rw [hl] at this; simpa using this
      have := h.total
      refine ⟨List.eq_nil_of_length_eq_zero (by omega), by rw [hfed, hl]; rfl⟩
    | cons x xs =>
      have := h.doneJobs ⟨x, by rw [hws]; simp, hall x (by rw [hws]; simp)⟩
      exact ⟨this.2, h.closed_fed this.1⟩
  have hc0 := countP_zero_of_done WS.isComputing rfl s.workers hall
  have hs0 := countP_zero_of_done WS.isSending rfl s.workers hall
  have hcf := filterMap_none_of_done WS.compIdx rfl s.workers hall
  have hsf := filterMap_none_of_done WS.sendIdx rfl s.workers hall
  have hkeys : ∀ j, (s.collected.map (·.1)).count j = if j < l.length then 1 else 0 := by
    intro j
    by_cases hj : j < l.length
    · have := h.cons_lt j (by rw [hjobs.2]; exact hj)
      simp only [occ, hjobs.1, hre, hcf, hsf] at this
      simp [hj]; simpa using this
    · have := h.cons_ge j (by rw [hjobs.2]; omega)
      simp only [occ, hjobs.1, hre, hcf, hsf] at this
      simp [hj]; simpa using this
  refine ⟨hall, hjobs.1, hre, hjobs.2, ?_, hkeys, ?_⟩
  · have := h.total; rw [hjobs.1, hre, hc0, hs0, hjobs.2] at this; simpa using this
  · intro j
    have := h.apps j
    simp only [produced, hre, hsf] at this
    rw [this, ← hkeys j]; simp

theorem count_range (n j : Nat) : (List.range n).count j = if j < n then 1 else 0 := by
  induction n with
  | zero => simp
  | succ n ih =>
    rw [List.range_succ, List.count_append, ih, List.count_singleton]
    by_cases h1 : j < n
    · have : ¬ n = j := by omega
      simp [h1, this]; omega
    · by_cases h2 : n = j
      · subst h2; simp
      · have : ¬ j < n + 1 := by omega
        simp [h1, h2, this]

theorem keys_perm (ht : Terminal l s) : (s.collected.map (·.1)).Perm (List.range l.length) := by
  rw [List.perm_iff_count]; intro j; rw [ht.keys j, count_range]

theorem apps_perm (ht : Terminal l s) : s.apps.Perm (List.range l.length) := by
  rw [List.perm_iff_count]; intro j; rw [ht.appsOnce j, count_range]

theorem mapGet_some {i : Nat} {r : β} : ∀ (xs : List (Nat × β)),
    (∀ e ∈ xs, e.1 = i → e.2 = r) → (∃ e ∈ xs, e.1 = i) → mapGet i xs = some r := by
  intro xs
  induction xs with
  | nil => intro _ ⟨e, he, _⟩; cases he
  | cons x xs ih =>
    intro hall hex
    obtain ⟨k, v⟩ := x
    unfold mapGet
    by_cases hin : ∃ e ∈ xs, e.1 = i
    · rw [ih (fun e he => hall e (by simp [he])) hin]
    · have hnone : mapGet i xs = none := by
        clear ih hall hex
        induction xs with
        | nil => rfl
        | cons y ys ihy =>
          obtain ⟨k', v'⟩ := y
          unfold mapGet
          have h1 : ¬ ∃ e ∈ ys, e.1 = i := fun ⟨e, he, hei⟩ => hin ⟨e, by simp [he], hei⟩
          rw [ihy h1]
          have : ¬ k' = i := fun hk => hin ⟨(k', v'), by simp, hk⟩
          simp [this]
      rw [hnone]
      obtain ⟨e, he, hei⟩ := hex
      simp only [List.mem_cons] at he
      rcases he with rfl | he
      · simp only at hei; subst hei
        have : v = r := hall (k, v) (by simp) rfl
        simp [this]
      · exact absurd ⟨e, he, hei⟩ hin

/-- ordered mode: the assembled output is `map f l` -/
theorem ordered_eq_map (h : Inv l f w cap s) (ht : Terminal l s) (zero : β) :
    orderedResult zero l.length s.collected = l.map f := by
  unfold orderedResult
  apply List.ext_getElem
  · simp
  · intro i h1 h2
    simp only [List.length_map, List.length_range] at h1
    simp only [List.getElem_map, List.getElem_range]
    have hex : ∃ e ∈ s.collected, e.1 = i := by
      have := ht.keys i
      simp only [h1, if_true] at this
      have hpos : 0 < (s.collected.map (·.1)).count i := by omega
      rw [List.count_pos_iff] at hpos
      obtain ⟨e, he, hei⟩ := List.mem_map.mp hpos
      exact ⟨e, he, hei⟩
    have hall : ∀ e ∈ s.collected, e.1 = i → e.2 = f l[i] := by
      intro e he hei
      have := h.wfCol e he
      rw [hei, List.getElem?_eq_getElem h1] at this
      simpa using this.symm
    rw [mapGet_some s.collected hall hex]; rfl

theorem map_some_range (l : List α) (f : α → β) :
    (List.range l.length).map (fun i => (l[i]?).map f) = (l.map f).map some := by
  apply List.ext_getElem
  · simp
  · intro i h1 h2
    simp only [List.length_map, List.length_range] at h1
    simp [List.getElem?_eq_getElem h1]

/-- RandomOrder mode: no index panic, no padding, and the output is a permutation of `map f l` -/
theorem noOrder_perm (h : Inv l f w cap s) (ht : Terminal l s) (zero : β) :
    noOrderResult zero l.length s.collected = some (s.collected.map (·.2)) ∧ (s.collected.map (·.2)).Perm (l.map f) := by
  constructor
  · unfold noOrderResult; simp [ht.colLen]
  · have h1 : s.collected.map (fun e => some e.2) = (s.collected.map (·.1)).map (fun i => (l[i]?).map f) := by
      rw [List.map_map]
      apply List.map_congr_left
      intro e he
      exact (h.wfCol e he).symm
    have h2 := (keys_perm ht).map (fun i => (l[i]?).map f)
    rw [← h1, map_some_range] at h2
    have h3 := h2.filterMap id
    simpa [List.filterMap_map] using h3

end FpgoVerif.C16
