import FpgoVerif.Proofs.C15Cor
/-! Progress of the coroutine system, stated per program-counter *kind* (as for the mailbox, queue and pool): the
    counters do not record which request a goroutine carries, so the enabled atom must be enabled for every
    parameter a goroutine at that kind may have.  One kind needs a side condition: a caller at `w id` waits for the
    answer to *its own* request `id`, and `cnt .w` does not say which ids the waiting callers carry.  The clause
    for kind `w` is therefore "every caller whose answer is queued (`id ∈ answers`) can take it"; that such callers
    exist is the count invariant `cnt w = |answers| + |opCh| + cnt g2` (`Inv.wcount`): once the target is gone
    (`opCh = []`, `cnt g2 = 0`) there are exactly as many queued answers as waiting callers.  Tying each waiting
    goroutine to its id would need the ids of the waiting callers as (ghost) state, i.e. leaving the pure counter
    abstraction. -/
namespace FpgoVerif.C15.Co

theorem gstep_at {s pc} (ch : Bool) (hc : 0 < s.cnt (kind pc)) (hs : (step s ch pc).isSome = true) :
    ∃ s' nx, gstep s pc ch = some (s', nx) := by
  cases h : step s ch pc with
  | none => simp [h] at hs
  | some p =>
    obtain ⟨s1, nx⟩ := p
    refine ⟨{ s1 with cnt := move s1.cnt (kind pc) nx }, nx, ?_⟩
    unfold gstep
    rw [if_neg (by omega), h]

/-- side condition of the per-kind statement: only for `w id` — the answer to request `id` is queued -/
def live (s : St) : PC → Prop
  | .w id => ∃ a ∈ s.answers, a.1 = id
  | _ => True

theorem progressK {s} (hi : Inv s) (hf : s.fixed = true) (hr : s.retStarted = true)
    (hb : 0 < s.cnt .r0 ∨ 0 < s.cnt .r1 ∨ 0 < s.cnt .w ∨ 0 < s.cnt .isd ∨
          0 < s.cnt .gc0 + s.cnt .gc1 + s.cnt .gc2 + s.cnt .gc3) :
    ∃ k, 0 < s.cnt k ∧ (k = .w → s.answers ≠ []) ∧
      ∀ pc, kind pc = k → live s pc → ∃ s' nx, gstep s pc false = some (s', nx) := by
  by_cases h0 : 0 < s.cnt .gc0
  · refine ⟨.gc0, h0, by simp, fun pc hk _ => ?_⟩
    cases pc <;> (try (simp [kind] at hk; done))
    exact gstep_at false h0 (by simp [step])
  by_cases h1 : 0 < s.cnt .gc1
  · refine ⟨.gc1, h1, by simp, fun pc hk _ => ?_⟩
    cases pc <;> (try (simp [kind] at hk; done))
    exact gstep_at false h1 (by simp [step])
  by_cases h3 : 0 < s.cnt .gc3
  · refine ⟨.gc3, h3, by simp, fun pc hk _ => ?_⟩
    cases pc <;> (try (simp [kind] at hk; done))
    exact gstep_at false h3 (by simp only [step]; split <;> simp)
  by_cases hisd : 0 < s.cnt .isd
  · refine ⟨.isd, hisd, by simp, fun pc hk _ => ?_⟩
    cases pc <;> (try (simp [kind] at hk; done))
    exact gstep_at false hisd (by simp [step])
  by_cases h2 : 0 < s.cnt .gc2
  · have hop : s.opClosed = false := by
      cases h : s.opClosed with
      | false => rfl
      | true => have := (hi.opc h).2.2; omega
    by_cases hr1 : s.cnt .r1 = 0
    · refine ⟨.gc2, h2, by simp, fun pc hk _ => ?_⟩
      cases pc <;> (try (simp [kind] at hk; done))
      exact gstep_at false h2 (by simp [step, hr1, hop, hf])
    · have hd := hi.dn hf (by omega)
      refine ⟨.r1, Nat.pos_of_ne_zero hr1, by simp, fun pc hk _ => ?_⟩
      cases pc <;> (try (simp [kind] at hk; done))
      exact gstep_at false (Nat.pos_of_ne_zero hr1) (by
        simp only [step, hop, hf, hd]; repeat' split
        all_goals simp_all)
  -- the target is gone: close() has completed
  have hdone := hi.retDone hr (by omega)
  obtain ⟨hgf, hopc, _⟩ := hi.done hdone
  have hr1 : s.cnt .r1 = 0 := (hi.opc hopc).2.1
  have hg2 : s.cnt .g2 = 0 := by have := (hi.retG hr).1; omega
  by_cases hr0 : 0 < s.cnt .r0
  · refine ⟨.r0, hr0, by simp, fun pc hk _ => ?_⟩
    cases pc <;> (try (simp [kind] at hk; done))
    exact gstep_at false hr0 (by simp [step, hr1, hgf])
  have hw : 0 < s.cnt .w := by omega
  have hopch := hi.drained hf hdone
  have hwc := hi.wcount
  have hne : s.answers ≠ [] := by
    intro ha; simp [ha, hopch, hg2] at hwc; omega
  refine ⟨.w, hw, fun _ => hne, fun pc hk hl => ?_⟩
  cases pc <;> (try (simp [kind] at hk; done))
  rename_i id
  obtain ⟨a, ha, hid⟩ := hl
  have hfind : (s.answers.find? (·.1 == id)).isSome = true := by
    rw [List.find?_isSome]; exact ⟨a, ha, by simp [hid]⟩
  exact gstep_at false hw (by
    simp only [step]
    cases hfa : s.answers.find? (·.1 == id) with
    | none => simp [hfa] at hfind
    | some p => simp)

end FpgoVerif.C15.Co
