import FpgoVerif.Proofs.C02Misc
/-! C02 — integer → float cells: the result is `ofInt f z` by construction; what needs a proof is that it is
    finite (no 64-bit integer overflows binary32 or binary64). -/
namespace FpgoVerif.C02

theorem log2Fuel_le (fuel n j : Nat) (h : n < 2 ^ (j + 1)) : log2Fuel fuel n ≤ j := by
  induction fuel generalizing n j with
  | zero => simp [log2Fuel]
  | succ fuel ih =>
    unfold log2Fuel
    split
    · omega
    · rename_i hn
      cases j with
      | zero => simp at h; omega
      | succ j' =>
        have : n / 2 < 2 ^ (j' + 1) := by
          apply (Nat.div_lt_iff_lt_mul (by decide)).mpr
          have : 2 ^ (j' + 1 + 1) = 2 ^ (j' + 1) * 2 := Nat.pow_succ ..
          omega
        have := ih (n / 2) j' this
        omega

theorem normFin_isFin (neg : Bool) (m k : Nat) : (normFin neg m k).isFin = true := by
  induction k generalizing m with
  | zero => simp [normFin, FVal.isFin]
  | succ k ih =>
    unfold normFin
    split
    · exact ih _
    · simp [FVal.isFin]

theorem divRNE_le (a b : Nat) : divRNE a b ≤ a / b + 1 := by
  unfold divRNE
  simp only
  split <;> omega

theorem ratLog2_le (a : Nat) (h : a < 2 ^ 64) : ratLog2 a 1 ≤ 63 := by
  unfold ratLog2
  have h1 : log2 a ≤ 63 := log2Fuel_le a a 63 h
  have h2 : log2 1 = 0 := by decide
  simp only [h2]
  split <;> omega


theorem ofInt_isFin (f : Fmt) (hf : f = f32 ∨ f = f64) (z : Int) (hz : z.natAbs < 2 ^ 64) : (ofInt f z).isFin = true := by
  unfold ofInt roundNE roundRat
  generalize z.natAbs = a at hz
  split
  · simp [FVal.isFin]
  · have he := ratLog2_le a hz
    simp only [Nat.pow_zero]
    generalize ratLog2 a 1 = e at he
    generalize hq : max (e - ((f.p : Int) - 1)) f.qmin = q
    have hq63 : q ≤ 63 := by
      rcases hf with rfl | rfl <;> simp [f32, f64, Fmt.qmin, Fmt.bias] at hq <;> omega
    split
    · rename_i hq0
      split
      · rename_i hov
        exfalso
        simp only [scale, hq0, if_true, Nat.one_mul] at hov
        have hq' : q.toNat ≤ 63 := by omega
        generalize q.toNat = qn at hov hq'
        have hp : 2 ^ qn ≤ 2 ^ 63 := Nat.pow_le_pow_right (by decide) hq'
        have hd := divRNE_le a (2 ^ qn)
        have hdm : a / 2 ^ qn * 2 ^ qn ≤ a := Nat.div_mul_le_self a _
        have hb65 : 65 ≤ f.bias + 1 := by
          rcases hf with rfl | rfl <;> decide
        have hb : (2 : Nat) ^ 65 ≤ 2 ^ (f.bias + 1) := Nat.pow_le_pow_right (by decide) hb65
        have hmul : divRNE a (2 ^ qn) * 2 ^ qn ≤ (a / 2 ^ qn + 1) * 2 ^ qn := Nat.mul_le_mul_right _ hd
        rw [Nat.add_mul, Nat.one_mul] at hmul
        have h65 : (2 : Nat) ^ 65 = 2 ^ 64 + 2 ^ 64 := by decide
        have h64 : (2 : Nat) ^ 64 = 2 ^ 63 + 2 ^ 63 := by decide
        generalize divRNE a (2 ^ qn) * 2 ^ qn = v at hov hmul
        generalize a / 2 ^ qn * 2 ^ qn = w at hdm hmul
        generalize 2 ^ (f.bias + 1) = B at hov hb
        generalize (2:Nat) ^ qn = P at hp hmul
        omega
      · simp [FVal.isFin]
    · exact normFin_isFin _ _ _

end FpgoVerif.C02

namespace FpgoVerif.C02

theorem sameFloat_refl (x : FVal) : sameFloat x x = true := by
  cases x <;> simp [sameFloat]

/-- `case S: val, err := maybeSelf.To<S>(); return T(val), err` for a float type `T` -/
def toFloatBodyOK (tbl : List Case) (tgt src : Ty) (body : Body) : Bool :=
  match body with
  | .bind (.self m) none ⟨.cast t .v, .fromCall⟩ _ => m == src && t == tgt && selfIdent tbl src
  | _ => false

theorem intRange_abs {src : Ty} {lo hi z : Int} (hr : src.range = some (lo, hi)) (h1 : lo ≤ z) (h2 : z ≤ hi) :
    z.natAbs < 2 ^ 64 := by
  have : -18446744073709551616 < z ∧ z < 18446744073709551616 := by
    cases src <;> simp [Ty.range, p63, p64] at hr <;> omega
  have h64 : ((2 ^ 64 : Nat) : Int) = 18446744073709551616 := by decide
  omega

theorem toFloatBodyOK_sound (sc : Strconv) (tbl : List Case) (n : Nat) (tgt src : Ty) (f : Fmt)
    (hf : (tgt = .float32 ∧ f = f32) ∨ (tgt = .float64 ∧ f = f64)) (lo hi z : Int)
    (hr : src.range = some (lo, hi)) (h1 : lo ≤ z) (h2 : z ≤ hi)
    (hk : toFloatBodyOK tbl tgt src (lookup tbl tgt (.ty src)) = true) :
    conv sc tbl (n + 2) tgt (.ty src) (.i z) = ⟨castTo tgt (.i z), .ok⟩ ∧
    specNum tgt (.i z) ⟨castTo tgt (.i z), .ok⟩ = true := by
  constructor
  · rw [conv_succ]
    generalize lookup tbl tgt (.ty src) = body at hk
    match body, hk with
    | .bind (.self m) none ⟨.cast t .v, .fromCall⟩ _, hk =>
      simp [toFloatBodyOK] at hk
      obtain ⟨⟨rfl, rfl⟩, hsi⟩ := hk
      simp [evalBody, conv_self sc tbl n m (.i z) hsi, evalR, errOf, evalE]
  · have habs := intRange_abs hr h1 h2
    rcases hf with ⟨rfl, rfl⟩ | ⟨rfl, rfl⟩
    · have hfin := ofInt_isFin f32 (Or.inl rfl) z habs
      simp [specNum, Ty.range, Ty.must, Ty.fmt, castTo, exactFloat, floatOf, valOfTy, sameFloat_refl, hfin]
    · have hfin := ofInt_isFin f64 (Or.inr rfl) z habs
      simp [specNum, Ty.range, Ty.must, Ty.fmt, castTo, exactFloat, floatOf, valOfTy, sameFloat_refl, hfin]

end FpgoVerif.C02
