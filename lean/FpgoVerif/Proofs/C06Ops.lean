import FpgoVerif.Proofs.C06Rep
/-! Per-operation preservation of the representation invariant: Offer, Unshift, Shift, Pop, Peek. -/
namespace FpgoVerif.C06
local notation "Addr" => Nat

theorem nodup_snoc_pool {chain pool : List Nat} {n : Nat} (nd : (chain ++ pool).Nodup) (hn : n ∉ chain ++ pool) :
    ((chain ++ [n]) ++ pool).Nodup := by
  have h1 := List.nodup_append.mp nd
  have hnc : n ∉ chain := fun h => hn (List.mem_append_left _ h)
  have hnp : n ∉ pool := fun h => hn (List.mem_append_right _ h)
  refine List.nodup_append.mpr ⟨?_, h1.2.1, ?_⟩
  · refine List.nodup_append.mpr ⟨h1.1, by simp, ?_⟩
    intro a ha b hb; simp at hb; subst hb; exact fun e => hnc (e ▸ ha)
  · intro a ha b hb
    rcases List.mem_append.mp ha with h | h
    · exact h1.2.2 a h b hb
    · simp at h; subst h; exact fun e => hnp (e ▸ hb)

theorem nodup_cons_pool {chain pool : List Nat} {n : Nat} (nd : (chain ++ pool).Nodup) (hn : n ∉ chain ++ pool) :
    ((n :: chain) ++ pool).Nodup := by
  simpa using List.nodup_cons.mpr ⟨hn, nd⟩

theorem chain_nil_of_last_none {q vs chain pool} (h : Rep0 q vs chain pool) (hl : q.last = none) : chain = [] := by
  have := h.hprev.last_eq; rw [hl] at this
  cases chain with
  | nil => rfl
  | cons a l => simp [List.getLast?_cons] at this

theorem chain_nil_of_first_none {q vs chain pool} (h : Rep0 q vs chain pool) (hl : q.first = none) : chain = [] := by
  have := h.hnext.head; rw [hl] at this
  cases chain with
  | nil => rfl
  | cons a l => simp at this

theorem Rep0.first_eq {q vs chain pool} (h : Rep0 q vs chain pool) : q.first = chain.head? := h.hnext.head
theorem Rep0.last_eq {q vs chain pool} (h : Rep0 q vs chain pool) : q.last = chain.getLast? := h.hprev.last_eq

/-- Offer/Put/Push append at the tail -/
theorem offer_rep {q : Q} {vs chain pool} (h : Rep q vs chain pool) (v : Int) :
    ∃ chain' pool', Rep (offer q v) (vs ++ [v]) chain' pool' ∧ pool'.length = pool.length - 1 := by
  cases hg : generateNode q with
  | mk q1 n =>
  obtain ⟨pool', hr, hlen, hn, hng, hnlt, hnn, hnp, hf, hl, hc⟩ := generateNode_spec h q1 n hg
  have hnc : n ∉ chain := fun h => hn (List.mem_append_left _ h)
  have hnp' : n ∉ pool' := fun h => hn (List.mem_append_right _ h)
  refine ⟨chain ++ [n], pool', ?_, hlen⟩
  have hchainnd : chain.Nodup := hr.chain_nodup
  have hlt' : ∀ a ∈ (chain ++ [n]) ++ pool', a < q1.fresh := by
    intro a ha
    rcases List.mem_append.mp ha with h | h
    · rcases List.mem_append.mp h with h | h
      · exact hr.lt a (List.mem_append_left _ h)
      · simp at h; subst h; exact hnlt
    · exact hr.lt a (List.mem_append_right _ h)
  have hvalmap : (chain ++ [n]).map (upd q1.val n (some v)) = (vs ++ [v]).map some := by
    rw [List.map_append, List.map_append, map_upd_of_not_mem _ _ _ _ hnc, hr.hval]; simp
  have hgd : ∀ a ∈ q1.gc, a ∉ (chain ++ [n]) ++ pool' := by
    intro a ha hm
    rcases List.mem_append.mp hm with h | h
    · rcases List.mem_append.mp h with h | h
      · exact hr.gdisj a ha (List.mem_append_left _ h)
      · simp at h; subst h; exact hng ha
    · exact hr.gdisj a ha (List.mem_append_right _ h)
  cases hlast : q1.last with
  | none =>
    have hch : chain = [] := chain_nil_of_last_none hr.toRep0 hlast
    subst hch
    have hfirst : q1.first = none := by have := hr.first_eq; simpa using this
    have : offer q v = { q1 with val := upd q1.val n (some v), count := q1.count + 1, first := some n, last := some n } := by
      simp [offer, hg, hfirst, hlast]
    rw [this]
    refine ⟨⟨?_, ?_, hr.hpool, ?_, hlt', hvalmap, ?_, hr.gnd, hgd, hr.glt, ?_⟩, hr.hnode⟩
    · exact .cons n [] (by simp only; rw [hnn]; exact .nil)
    · exact .cons n [] (by simp only; rw [hnp]; exact .nil)
    · simpa using nodup_snoc_pool hr.nd hn
    · simp only; rw [hr.hcount]; simp
    · intro a ha
      have hne : a ≠ n := fun e => hng (e ▸ ha)
      have := hr.gzero a ha
      simp only [upd_other _ _ _ _ hne]; exact this
  | some l =>
    have hgl : chain.getLast? = some l := by have := hr.last_eq; rw [hlast] at this; exact this.symm
    have hlmem : l ∈ chain := List.mem_of_getLast? hgl
    have hne : chain ≠ [] := by intro e; subst e; simp at hgl
    have hfirst : q1.first.isNone = false := by
      have := hr.first_eq
      cases chain with
      | nil => exact absurd rfl hne
      | cons a t => simp [this]
    have : offer q v = { q1 with val := upd q1.val n (some v), count := q1.count + 1,
                                 next := upd q1.next l (some n), prev := upd q1.prev n (some l), last := some n } := by
      simp [offer, hg, hfirst, hlast]
    rw [this]
    have hlp : l ∉ pool' := hr.disj hlmem
    have hlg : l ∉ q1.gc := fun hm => hr.gdisj l hm (List.mem_append_left _ hlmem)
    refine ⟨⟨?_, ?_, ?_, nodup_snoc_pool hr.nd hn, hlt', hvalmap, ?_, hr.gnd, hgd, hr.glt, ?_⟩, hr.hnode⟩
    · exact hr.hnext.snoc n l hnc hnn hchainnd hgl
    · have := (hlast ▸ hr.hprev).push n (by simpa using hnc)
      simpa [List.reverse_append] using this
    · exact hr.hpool.frame _ _ hlp
    · simp only; rw [hr.hcount]; simp
    · intro a ha
      have hne : a ≠ n := fun e => hng (e ▸ ha)
      have hne2 : a ≠ l := fun e => hlg (e ▸ ha)
      have := hr.gzero a ha
      simp only [upd_other _ _ _ _ hne, upd_other _ _ _ _ hne2]; exact this

/-- Unshift inserts at the head -/
theorem unshift_rep {q : Q} {vs chain pool} (h : Rep q vs chain pool) (v : Int) :
    ∃ chain' pool', Rep (unshift q v) (v :: vs) chain' pool' ∧ pool'.length = pool.length - 1 := by
  cases hg : generateNode q with
  | mk q1 n =>
  obtain ⟨pool', hr, hlen, hn, hng, hnlt, hnn, hnp, hf, hl, hc⟩ := generateNode_spec h q1 n hg
  have hnc : n ∉ chain := fun h => hn (List.mem_append_left _ h)
  have hnp' : n ∉ pool' := fun h => hn (List.mem_append_right _ h)
  refine ⟨n :: chain, pool', ?_, hlen⟩
  have hchainnd : chain.Nodup := hr.chain_nodup
  have hlt' : ∀ a ∈ (n :: chain) ++ pool', a < q1.fresh := by
    intro a ha
    rcases List.mem_cons.mp ha with h | h
    · subst h; exact hnlt
    · exact hr.lt a h
  have hvalmap : (n :: chain).map (upd q1.val n (some v)) = (v :: vs).map some := by
    rw [List.map_cons, List.map_cons, map_upd_of_not_mem _ _ _ _ hnc, hr.hval]; simp
  have hgd : ∀ a ∈ q1.gc, a ∉ (n :: chain) ++ pool' := by
    intro a ha hm
    rcases List.mem_cons.mp hm with h | h
    · subst h; exact hng ha
    · exact hr.gdisj a ha h
  cases hfirst : q1.first with
  | none =>
    have hch : chain = [] := chain_nil_of_first_none hr.toRep0 hfirst
    subst hch
    have hlast : q1.last = none := by have := hr.last_eq; simpa using this
    have : unshift q v = { q1 with val := upd q1.val n (some v), count := q1.count + 1, last := some n, first := some n,
                                   next := upd q1.next n none } := by
      simp [unshift, hg, hfirst, hlast]
    rw [this]
    refine ⟨⟨?_, ?_, hr.hpool.frame _ _ hnp', ?_, hlt', hvalmap, ?_, hr.gnd, hgd, hr.glt, ?_⟩, hr.hnode⟩
    · exact .cons n [] (by simp only; rw [upd_same]; exact .nil)
    · exact .cons n [] (by simp only; rw [hnp]; exact .nil)
    · exact nodup_cons_pool hr.nd hn
    · simp only; rw [hr.hcount]; simp
    · intro a ha
      have hne : a ≠ n := fun e => hng (e ▸ ha)
      have := hr.gzero a ha
      simp only [upd_other _ _ _ _ hne]; exact this
  | some f =>
    have hgf : chain.head? = some f := by have := hr.first_eq; rw [hfirst] at this; exact this.symm
    have hfmem : f ∈ chain := List.mem_of_head? hgf
    have hne : chain ≠ [] := by intro e; subst e; simp at hgf
    have hlast : q1.last.isNone = false := by
      have := hr.last_eq
      cases hc : chain.getLast? with
      | none => simp [List.getLast?_eq_none_iff] at hc; exact absurd hc hne
      | some x => simp [this, hc]
    have : unshift q v = { q1 with val := upd q1.val n (some v), count := q1.count + 1, first := some n,
                                   next := upd q1.next n (some f), prev := upd q1.prev f (some n) } := by
      simp [unshift, hg, hfirst, hlast]
    rw [this]
    have hfg : f ∉ q1.gc := fun hm => hr.gdisj f hm (List.mem_append_left _ hfmem)
    refine ⟨⟨?_, ?_, ?_, nodup_cons_pool hr.nd hn, hlt', hvalmap, ?_, hr.gnd, hgd, hr.glt, ?_⟩, hr.hnode⟩
    · exact (hfirst ▸ hr.hnext).push n hnc
    · have := hr.hprev.snoc n f (by simpa using hnc) hnp (nodup_reverse' hchainnd) (by simpa [List.getLast?_reverse] using hgf)
      simpa using this
    · exact hr.hpool.frame _ _ hnp'
    · simp only; rw [hr.hcount]; simp
    · intro a ha
      have hne : a ≠ n := fun e => hng (e ▸ ha)
      have hne2 : a ≠ f := fun e => hfg (e ▸ ha)
      have := hr.gzero a ha
      simp only [upd_other _ _ _ _ hne, upd_other _ _ _ _ hne2]; exact this

theorem shift_empty {q : Q} {chain pool} (h : Rep q [] chain pool) : shift true q = (q, .empty) := by
  have hc : chain = [] := by have := h.length_eq; simpa using this.symm
  subst hc
  have : q.first = none := by have := h.first_eq; simpa using this
  simp [shift, this]

/-- Poll/Take/Shift remove and return the head -/
theorem shift_rep {q : Q} {v vs chain pool} (h : Rep q (v :: vs) chain pool) :
    ∃ chain' pool', (shift true q).2 = .ok v ∧ Rep (shift true q).1 vs chain' pool' ∧
      pool'.length = pool.length + 1 := by
  cases chain with
  | nil => have := h.length_eq; simp at this
  | cons n t =>
  have hfirst : q.first = some n := by have := h.first_eq; simpa using this
  have hv : q.val n = some v ∧ t.map q.val = vs.map some := by have := h.hval; simpa using this
  have hnt : n ∉ t := (List.nodup_cons.mp h.chain_nodup).1
  have hnp : n ∉ pool := h.disj List.mem_cons_self
  have hng : n ∉ q.gc := fun hm => h.gdisj n hm (List.mem_append_left _ List.mem_cons_self)
  have htl : Seg q.next (q.next n) t := (hfirst ▸ h.hnext).tail
  have hnd' : (t ++ n :: pool).Nodup := by
    have h1 := List.nodup_append.mp h.nd
    have h2 := List.nodup_cons.mp h1.1
    refine List.nodup_append.mpr ⟨h2.2, List.nodup_cons.mpr ⟨hnp, h1.2.1⟩, ?_⟩
    intro a ha b hb
    rcases List.mem_cons.mp hb with e | hb
    · subst e; exact fun e => hnt (e ▸ ha)
    · exact h1.2.2 a (List.mem_cons_of_mem _ ha) b hb
  have hlt' : ∀ a ∈ t ++ n :: pool, a < q.fresh := by
    intro a ha
    apply h.lt
    rcases List.mem_append.mp ha with h' | h'
    · exact List.mem_append_left _ (List.mem_cons_of_mem _ h')
    · rcases List.mem_cons.mp h' with e | h'
      · subst e; exact List.mem_append_left _ List.mem_cons_self
      · exact List.mem_append_right _ h'
  have hgd : ∀ a ∈ q.gc, a ∉ t ++ n :: pool := by
    intro a ha hm
    apply h.gdisj a ha
    rcases List.mem_append.mp hm with h' | h'
    · exact List.mem_append_left _ (List.mem_cons_of_mem _ h')
    · rcases List.mem_cons.mp h' with e | h'
      · subst e; exact List.mem_append_left _ List.mem_cons_self
      · exact List.mem_append_right _ h'
  have hvalmap : t.map (upd q.val n none) = vs.map some := by
    rw [map_upd_of_not_mem _ _ _ _ hnt]; exact hv.2
  refine ⟨t, n :: pool, ?_⟩
  cases hnx : q.next n with
  | none =>
    have ht : t = [] := (hnx ▸ htl).nil_of_none
    subst ht
    have : shift true q = (recycleNode { q with count := q.count - 1, first := none, last := none } n, .ok v) := by
      simp [shift, hfirst, hnx, hv.1]
    rw [this]
    refine ⟨rfl, ⟨⟨.nil, .nil, ?_, hnd', hlt', hvalmap, ?_, h.gnd, hgd, h.glt, ?_⟩, ?_⟩, by simp⟩
    · exact h.hpool.push n hnp
    · show q.count - 1 = _; have := h.hcount; simp at this ⊢; omega
    · intro a ha
      have hne : a ≠ n := fun e => hng (e ▸ ha)
      have := h.gzero a ha
      simp only [recycleNode, upd_other _ _ _ _ hne]; exact this
    · show q.nodeCount + 1 = _; have := h.hnode; simp; omega
  | some f =>
    cases t with
    | nil => have := (hnx ▸ htl).head; simp at this
    | cons f' t' =>
    have hff : f' = f := by have := (hnx ▸ htl).head; simpa using this.symm
    subst hff
    have : shift true q = (recycleNode { q with count := q.count - 1, first := some f', prev := upd q.prev f' none } n, .ok v) := by
      simp [shift, hfirst, hnx, hv.1]
    rw [this]
    have hfn : f' ≠ n := fun e => hnt (e ▸ List.mem_cons_self)
    have hfg : f' ∉ q.gc := fun hm => h.gdisj f' hm (List.mem_append_left _ (List.mem_cons_of_mem _ List.mem_cons_self))
    have hprev : Seg (upd q.prev f' none) q.last (f' :: t').reverse := by
      have h1 : Seg q.prev q.last ((f' :: t').reverse ++ [n]) := by simpa using h.hprev
      have h2 : ((f' :: t').reverse ++ [n]).Nodup := by
        have := nodup_reverse' h.chain_nodup; simpa using this
      exact (Seg.unsnoc n h1 h2).1 f' (by simp [List.getLast?_reverse])
    refine ⟨rfl, ⟨⟨?_, ?_, ?_, hnd', hlt', hvalmap, ?_, h.gnd, hgd, h.glt, ?_⟩, ?_⟩, by simp⟩
    · exact (hnx ▸ htl).frame _ _ hnt
    · exact hprev.frame _ _ (fun hm => hnt (List.mem_reverse.mp hm))
    · exact h.hpool.push n hnp
    · show q.count - 1 = _; have := h.hcount; simp at this ⊢; omega
    · intro a ha
      have hne : a ≠ n := fun e => hng (e ▸ ha)
      have hne2 : a ≠ f' := fun e => hfg (e ▸ ha)
      have := h.gzero a ha
      simp only [recycleNode, upd_other _ _ _ _ hne, upd_other _ _ _ _ hne2]; exact this
    · show q.nodeCount + 1 = _; have := h.hnode; simp; omega

theorem pop_empty {q : Q} {chain pool} (h : Rep q [] chain pool) : pop true q = (q, .empty) := by
  have hc : chain = [] := by have := h.length_eq; simpa using this.symm
  subst hc
  have : q.last = none := by have := h.last_eq; simpa using this
  simp [pop, this]

/-- Pop removes and returns the tail -/
theorem pop_rep {q : Q} {v vs chain pool} (h : Rep q (vs ++ [v]) chain pool) :
    ∃ chain' pool', (pop true q).2 = .ok v ∧ Rep (pop true q).1 vs chain' pool' ∧
      pool'.length = pool.length + 1 := by
  rcases List.eq_nil_or_concat chain with hc | ⟨t, n, hc⟩
  · subst hc; have := h.length_eq; simp at this
  rw [List.concat_eq_append] at hc
  subst hc
  have hlast : q.last = some n := by have := h.last_eq; simpa using this
  have hv : t.map q.val = vs.map some ∧ q.val n = some v := by
    have := h.hval
    rw [List.map_append, List.map_append] at this
    have := List.append_inj' this (by simp)
    simpa using this
  have hcn := h.chain_nodup
  have hnt : n ∉ t := by
    intro hm
    exact (List.nodup_append.mp hcn).2.2 n hm n (by simp) rfl
  have htnd : t.Nodup := (List.nodup_append.mp hcn).1
  have hnp : n ∉ pool := h.disj (by simp)
  have hng : n ∉ q.gc := fun hm => h.gdisj n hm (List.mem_append_left _ (by simp))
  have hpv : Seg q.prev (some n) (n :: t.reverse) := by simpa [hlast] using h.hprev
  have htl : Seg q.prev (q.prev n) t.reverse := hpv.tail
  have hnd' : (t ++ n :: pool).Nodup := by simpa using h.nd
  have hlt' : ∀ a ∈ t ++ n :: pool, a < q.fresh := by
    intro a ha; apply h.lt; simpa using ha
  have hgd : ∀ a ∈ q.gc, a ∉ t ++ n :: pool := by
    intro a ha hm; apply h.gdisj a ha; simpa using hm
  have hvalmap : t.map (upd q.val n none) = vs.map some := by
    rw [map_upd_of_not_mem _ _ _ _ hnt]; exact hv.1
  refine ⟨t, n :: pool, ?_⟩
  cases hpn : q.prev n with
  | none =>
    have ht : t = [] := by have := (hpn ▸ htl).nil_of_none; simpa using this
    subst ht
    have : pop true q = (recycleNode { q with count := q.count - 1, last := none, first := none } n, .ok v) := by
      simp [pop, hlast, hpn, hv.2]
    rw [this]
    refine ⟨rfl, ⟨⟨.nil, .nil, ?_, hnd', hlt', hvalmap, ?_, h.gnd, hgd, h.glt, ?_⟩, ?_⟩, by simp⟩
    · exact h.hpool.push n hnp
    · show q.count - 1 = _; have := h.hcount; simp at this ⊢; omega
    · intro a ha
      have hne : a ≠ n := fun e => hng (e ▸ ha)
      have := h.gzero a ha
      simp only [recycleNode, upd_other _ _ _ _ hne]; exact this
    · show q.nodeCount + 1 = _; have := h.hnode; simp; omega
  | some l =>
    have hgl : t.getLast? = some l := by
      have := (hpn ▸ htl).head; rw [List.head?_reverse] at this; exact this.symm
    have hlmem : l ∈ t := List.mem_of_getLast? hgl
    have : pop true q = (recycleNode { q with count := q.count - 1, last := some l, next := upd q.next l none } n, .ok v) := by
      simp [pop, hlast, hpn, hv.2]
    rw [this]
    have hlg : l ∉ q.gc := fun hm => h.gdisj l hm (List.mem_append_left _ (List.mem_append_left _ hlmem))
    have hnext : Seg (upd q.next l none) q.first t := (Seg.unsnoc n h.hnext hcn).1 l hgl
    refine ⟨rfl, ⟨⟨?_, ?_, ?_, hnd', hlt', hvalmap, ?_, h.gnd, hgd, h.glt, ?_⟩, ?_⟩, by simp⟩
    · exact hnext.frame _ _ hnt
    · exact (hpn ▸ htl).frame _ _ (fun hm => hnt (List.mem_reverse.mp hm))
    · have hlp : l ∉ pool := h.disj (List.mem_append_left _ hlmem)
      exact (h.hpool.frame _ _ hlp).push n hnp
    · show q.count - 1 = _; have := h.hcount; simp at this ⊢; omega
    · intro a ha
      have hne : a ≠ n := fun e => hng (e ▸ ha)
      have hne2 : a ≠ l := fun e => hlg (e ▸ ha)
      have := h.gzero a ha
      simp only [recycleNode, upd_other _ _ _ _ hne, upd_other _ _ _ _ hne2]; exact this
    · show q.nodeCount + 1 = _; have := h.hnode; simp; omega

theorem peek_empty {q : Q} {chain pool} (h : Rep q [] chain pool) : peek q = .empty := by
  have hc : chain = [] := by have := h.length_eq; simpa using this.symm
  subst hc
  have : q.first = none := by have := h.first_eq; simpa using this
  simp [peek, this]

/-- Peek returns the head and changes nothing -/
theorem peek_cons {q : Q} {v vs chain pool} (h : Rep q (v :: vs) chain pool) : peek q = .ok v := by
  cases chain with
  | nil => have := h.length_eq; simp at this
  | cons n t =>
  have hfirst : q.first = some n := by have := h.first_eq; simpa using this
  have hv : q.val n = some v ∧ t.map q.val = vs.map some := by have := h.hval; simpa using this
  simp [peek, hfirst, hv.1]

theorem count_rep {q : Q} {vs chain pool} (h : Rep q vs chain pool) : q.count = vs.length := by
  rw [h.hcount, h.length_eq]

end FpgoVerif.C06
