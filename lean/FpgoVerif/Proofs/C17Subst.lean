import FpgoVerif.Model.C17Subst
/-! Helper lemmas for C17_url: sequential `ReplaceAll` on a well-formed template is simultaneous
    substitution. -/
namespace FpgoVerif.C17

theorem isPrefixOf_cons_cons (a b : Char) (as bs : Str) :
    (a :: as).isPrefixOf (b :: bs) = (a == b && as.isPrefixOf bs) := by
  simp [List.isPrefixOf]

theorem skip_append (pat rep : Str) (l rest : Str) :
    replaceAllAux pat rep l.length (l ++ rest) = replaceAllAux pat rep 0 rest := by
  induction l with
  | nil => rfl
  | cons c l ih => simpa [replaceAllAux] using ih

theorem copy_nobrace (p rep : Str) (l rest : Str) (h : ∀ c ∈ l, c ≠ '{') :
    replaceAllAux ('{' :: p) rep 0 (l ++ rest) = l ++ replaceAllAux ('{' :: p) rep 0 rest := by
  induction l with
  | nil => rfl
  | cons c l ih =>
    have hc : c ≠ '{' := h c (by simp)
    have hl : ∀ c ∈ l, c ≠ '{' := fun d hd => h d (by simp [hd])
    have : ('{' == c) = false := by
      simp only [beq_eq_false_iff_ne, ne_eq]; exact fun e => hc e.symm
    simp [replaceAllAux, isPrefixOf_cons_cons, this, ih hl]

theorem prefix_lemma (k n rest : Str) (hk : '}' ∉ k) (hn : '}' ∉ n) :
    (k ++ ['}']).isPrefixOf (n ++ '}' :: rest) = decide (k = n) := by
  induction k generalizing n with
  | nil =>
    cases n with
    | nil => simp [List.isPrefixOf]
    | cons d n =>
      have : d ≠ '}' := fun e => hn (by simp [e])
      have h2 : ('}' == d) = false := by
        simp only [beq_eq_false_iff_ne, ne_eq]; exact fun e => this e.symm
      simp [List.isPrefixOf, h2]
  | cons c k ih =>
    have hc : c ≠ '}' := fun e => hk (by simp [e])
    have hk' : '}' ∉ k := fun h => hk (by simp [h])
    cases n with
    | nil =>
      have h2 : (c == '}') = false := by simp only [beq_eq_false_iff_ne, ne_eq]; exact hc
      simp [List.isPrefixOf, h2]
    | cons d n =>
      have hn' : '}' ∉ n := fun h => hn (by simp [h])
      have := ih n hk' hn'
      simp only [List.cons_append, isPrefixOf_cons_cons, this]
      by_cases e : c = d
      · subst e; simp
      · have : (c == d) = false := by simp only [beq_eq_false_iff_ne, ne_eq]; exact e
        simp [this, e]

/-- one step of the loop on token level -/
def substTok (k v : Str) (t : Tok) : List Tok :=
  if t = .hole k then v.map .lit else [t]

def Clean (ts : List Tok) : Prop := ∀ t ∈ ts, t.clean = true

theorem render_lits (v : Str) : render (v.map .lit) = v := by
  induction v with
  | nil => rfl
  | cons c v ih =>
    have : render (Tok.lit c :: v.map .lit) = c :: render (v.map .lit) := by
      simp [render, renderTok]
    simpa [this] using ih

theorem render_cons (t : Tok) (ts : List Tok) : render (t :: ts) = renderTok t ++ render ts := by
  simp [render]

theorem render_append (a b : List Tok) : render (a ++ b) = render a ++ render b := by
  simp [render]

theorem not_contains {l : Str} {c : Char} (h : (!l.contains c) = true) : c ∉ l := by
  simpa using h

theorem render_single (t : Tok) : render [t] = renderTok t := by simp [render]

theorem replaceAll_render (k v : Str) (ts : List Tok) (hc : Clean ts) (hk : '}' ∉ k) :
    replaceAll (render ts) (placeholder k) v = render (ts.flatMap (substTok k v)) := by
  unfold replaceAll placeholder
  induction ts with
  | nil => rfl
  | cons t ts ih =>
    have hts : Clean ts := fun t' h => hc t' (by simp [h])
    have ht := hc t (by simp)
    rw [List.flatMap_cons, render_append, render_cons]
    cases t with
    | lit c =>
      have hne : c ≠ '{' := by simpa [Tok.clean] using ht
      have h2 : ('{' == c) = false := by
        simp only [beq_eq_false_iff_ne, ne_eq]; exact fun e => hne e.symm
      have hs : substTok k v (.lit c) = [.lit c] := by simp [substTok]
      rw [hs, render_single]
      show replaceAllAux _ v 0 (c :: render ts) = c :: render _
      simp only [replaceAllAux, isPrefixOf_cons_cons, h2, Bool.false_and, Bool.false_eq_true, if_false]
      rw [ih hts]
    | hole n =>
      simp only [Tok.clean, Bool.and_eq_true] at ht
      have hn1 : '{' ∉ n := not_contains ht.1
      have hn2 : '}' ∉ n := not_contains ht.2
      have hpre := prefix_lemma k n (render ts) hk hn2
      show replaceAllAux _ v 0 ('{' :: (n ++ ['}']) ++ render ts) = _
      have happ : '{' :: (n ++ ['}']) ++ render ts = '{' :: (n ++ '}' :: render ts) := by simp
      rw [happ]
      simp only [replaceAllAux, isPrefixOf_cons_cons, beq_self_eq_true, Bool.true_and, hpre]
      by_cases e : k = n
      · subst e
        have hskip : replaceAllAux ('{' :: (k ++ ['}'])) v (k.length + 1) (k ++ '}' :: render ts)
            = replaceAllAux ('{' :: (k ++ ['}'])) v 0 (render ts) := by
          have := skip_append ('{' :: (k ++ ['}'])) v (k ++ ['}']) (render ts)
          simpa using this
        have hs : substTok k v (.hole k) = v.map .lit := by simp [substTok]
        simp only [decide_true, if_true, List.length_cons, List.length_append, List.length_nil,
          Nat.add_sub_cancel, Nat.zero_add, hskip, ih hts, hs, render_lits]
      · have hcopy : replaceAllAux ('{' :: (k ++ ['}'])) v 0 (n ++ '}' :: render ts)
            = n ++ '}' :: replaceAllAux ('{' :: (k ++ ['}'])) v 0 (render ts) := by
          have := copy_nobrace (k ++ ['}']) v (n ++ ['}']) (render ts) (by
            intro c hcm
            simp only [List.mem_append, List.mem_singleton] at hcm
            rcases hcm with h | h
            · exact fun e' => hn1 (e' ▸ h)
            · subst h; decide)
          simpa using this
        have hne : Tok.hole n ≠ Tok.hole k := fun h => e (by injection h with h; exact h.symm)
        have hs : substTok k v (.hole n) = [.hole n] := by simp [substTok, hne]
        simp only [e, decide_false, Bool.false_eq_true, if_false, hcopy, ih hts, hs, render_single,
          renderTok, placeholder]
        simp

theorem clean_flatMap_substTok (k v : Str) (ts : List Tok) (hc : Clean ts) (hv : '{' ∉ v) :
    Clean (ts.flatMap (substTok k v)) := by
  intro t ht
  simp only [List.mem_flatMap] at ht
  obtain ⟨t0, h0, h1⟩ := ht
  unfold substTok at h1
  split at h1
  · simp only [List.mem_map] at h1
    obtain ⟨c, hcv, rfl⟩ := h1
    have : c ≠ '{' := fun e => hv (e ▸ hcv)
    simpa [Tok.clean] using this
  · simp only [List.mem_singleton] at h1
    subst h1; exact hc _ h0

/-- the token-level loop -/
def tokLoop (ts : List Tok) (ps : List (Str × Val)) : List Tok :=
  ps.foldl (fun ts kv => ts.flatMap (substTok kv.1 (sprintV kv.2))) ts

theorem paramsOK_cons {kv : Str × Val} {ps : List (Str × Val)} (h : paramsOK (kv :: ps) = true) :
    '}' ∉ kv.1 ∧ '{' ∉ sprintV kv.2 ∧ paramsOK ps = true := by
  simp only [paramsOK, List.all_cons, Bool.and_eq_true] at h
  exact ⟨not_contains h.1.1, not_contains h.1.2, h.2⟩

theorem replaceLoop_render (ts : List Tok) (ps : List (Str × Val)) (hc : Clean ts)
    (hp : paramsOK ps = true) : replaceLoop false (render ts) ps = render (tokLoop ts ps) := by
  unfold replaceLoop tokLoop
  induction ps generalizing ts with
  | nil => rfl
  | cons kv ps ih =>
    obtain ⟨h1, h2, h3⟩ := paramsOK_cons hp
    simp only [List.foldl_cons, Bool.false_eq_true, if_false]
    rw [replaceAll_render _ _ _ hc h1]
    exact ih _ (clean_flatMap_substTok _ _ _ hc h2) h3

theorem tokLoop_append (a b : List Tok) (ps : List (Str × Val)) :
    tokLoop (a ++ b) ps = tokLoop a ps ++ tokLoop b ps := by
  unfold tokLoop
  induction ps generalizing a b with
  | nil => rfl
  | cons kv ps ih => simp only [List.foldl_cons, List.flatMap_append]; exact ih _ _

theorem tokLoop_nil (ps : List (Str × Val)) : tokLoop [] ps = [] := by
  unfold tokLoop
  induction ps with
  | nil => rfl
  | cons kv ps ih => simpa using ih

theorem flatMap_substTok_lits (k w : Str) (v : Str) :
    (v.map Tok.lit).flatMap (substTok k w) = v.map Tok.lit := by
  induction v with
  | nil => rfl
  | cons c v ihv => simp [substTok, ihv]

theorem tokLoop_lits (v : Str) (ps : List (Str × Val)) : tokLoop (v.map .lit) ps = v.map .lit := by
  unfold tokLoop
  induction ps with
  | nil => rfl
  | cons kv ps ih =>
    simp only [List.foldl_cons, flatMap_substTok_lits]; exact ih

theorem tokLoop_single (t : Tok) (ps : List (Str × Val)) :
    render (tokLoop [t] ps) = substTokSpec ps t := by
  induction ps with
  | nil =>
    cases t <;> simp [tokLoop, render, substTokSpec, lookupKey, renderTok]
  | cons kv ps ih =>
    obtain ⟨k, v⟩ := kv
    cases t with
    | lit c =>
      have : tokLoop [Tok.lit c] ((k, v) :: ps) = tokLoop [Tok.lit c] ps := by
        simp [tokLoop, substTok]
      rw [this, ih]; rfl
    | hole n =>
      by_cases e : k = n
      · subst e
        have : tokLoop [Tok.hole k] ((k, v) :: ps) = tokLoop ((sprintV v).map .lit) ps := by
          simp [tokLoop, substTok]
        rw [this, tokLoop_lits, render_lits]
        simp [substTokSpec, lookupKey]
      · have hne : Tok.hole n ≠ Tok.hole k := fun h => e (by injection h with h; exact h.symm)
        have : tokLoop [Tok.hole n] ((k, v) :: ps) = tokLoop [Tok.hole n] ps := by
          simp [tokLoop, substTok, hne]
        rw [this, ih]
        simp [substTokSpec, lookupKey, e]

theorem render_tokLoop (ts : List Tok) (ps : List (Str × Val)) :
    render (tokLoop ts ps) = Spec.subst ts ps := by
  induction ts with
  | nil => simp [tokLoop_nil, render, Spec.subst]
  | cons t ts ih =>
    have : t :: ts = [t] ++ ts := rfl
    rw [this, tokLoop_append, render_append, ih, tokLoop_single]
    simp [Spec.subst]

/-! lookup is independent of the iteration order when keys are distinct (a Go map) -/

theorem lookupKey_iff_mem (n : Str) (v : Val) (ps : List (Str × Val)) (hnd : (ps.map (·.1)).Nodup) :
    lookupKey n ps = some v ↔ (n, v) ∈ ps := by
  induction ps with
  | nil => simp [lookupKey]
  | cons kv ps ih =>
    obtain ⟨k, w⟩ := kv
    simp only [List.map_cons, List.nodup_cons] at hnd
    by_cases e : k = n
    · subst e
      have : ∀ v', (k, v') ∉ ps := fun v' h => hnd.1 (List.mem_map.mpr ⟨(k, v'), h, rfl⟩)
      simp only [lookupKey, if_true, Option.some.injEq, List.mem_cons, Prod.mk.injEq, true_and]
      constructor
      · intro h; exact Or.inl h.symm
      · rintro (h | h)
        · exact h.symm
        · exact absurd h (this v)
    · have hne : ¬ (n = k) := fun h => e h.symm
      simp [lookupKey, e, hne, ih hnd.2]

theorem lookupKey_perm (n : Str) (ps ps' : List (Str × Val)) (hperm : ps'.Perm ps)
    (hnd : (ps.map (·.1)).Nodup) : lookupKey n ps' = lookupKey n ps := by
  have hnd' : (ps'.map (·.1)).Nodup := (hperm.map _).nodup_iff.mpr hnd
  apply Option.ext
  intro v
  rw [lookupKey_iff_mem n v ps' hnd', lookupKey_iff_mem n v ps hnd]
  exact hperm.mem_iff

theorem subst_perm (ts : List Tok) (ps ps' : List (Str × Val)) (hperm : ps'.Perm ps)
    (hnd : (ps.map (·.1)).Nodup) : Spec.subst ts ps' = Spec.subst ts ps := by
  unfold Spec.subst
  congr 1
  funext t
  cases t with
  | lit c => rfl
  | hole n => simp [substTokSpec, lookupKey_perm n ps ps' hperm hnd]

/-! tokenizer soundness -/

theorem tokenizeAux_sound (s : Str) :
    (∀ ts, tokenizeAux none s = some ts → render ts = s ∧ Clean ts) ∧
    (∀ n ts, '{' ∉ n → '}' ∉ n → tokenizeAux (some n) s = some ts →
        render ts = '{' :: (n ++ s) ∧ Clean ts) := by
  induction s with
  | nil =>
    refine ⟨?_, ?_⟩
    · intro ts h
      simp only [tokenizeAux, Option.some.injEq] at h
      subst h; exact ⟨rfl, fun _ h => nomatch h⟩
    · intro n ts _ _ h; simp [tokenizeAux] at h
  | cons c s ih =>
    refine ⟨?_, ?_⟩
    · intro ts h
      simp only [tokenizeAux] at h
      split at h
      · rename_i hc
        subst hc
        have := ih.2 [] ts (by simp) (by simp) h
        simpa using this
      · rename_i hc
        simp only [Option.map_eq_some_iff] at h
        obtain ⟨ts', h1, rfl⟩ := h
        obtain ⟨hr, hcl⟩ := ih.1 ts' h1
        refine ⟨by simp [render_cons, renderTok, hr], ?_⟩
        intro t ht
        simp only [List.mem_cons] at ht
        rcases ht with rfl | ht
        · simpa [Tok.clean] using hc
        · exact hcl t ht
    · intro n ts hn1 hn2 h
      simp only [tokenizeAux] at h
      split at h
      · rename_i hc
        subst hc
        simp only [Option.map_eq_some_iff] at h
        obtain ⟨ts', h1, rfl⟩ := h
        obtain ⟨hr, hcl⟩ := ih.1 ts' h1
        refine ⟨by simp [render_cons, renderTok, placeholder, hr], ?_⟩
        intro t ht
        simp only [List.mem_cons] at ht
        rcases ht with rfl | ht
        · simp [Tok.clean, hn1, hn2]
        · exact hcl t ht
      · rename_i hc
        split at h
        · simp at h
        · rename_i hc2
          have h1 : '{' ∉ n ++ [c] := by
            simp only [List.mem_append, List.mem_singleton, not_or]
            exact ⟨hn1, fun e => hc2 e.symm⟩
          have h2 : '}' ∉ n ++ [c] := by
            simp only [List.mem_append, List.mem_singleton, not_or]
            exact ⟨hn2, fun e => hc e.symm⟩
          have := ih.2 (n ++ [c]) ts h1 h2 h
          simpa using this

theorem tokenize_sound {s : Str} {ts : List Tok} (h : tokenize s = some ts) :
    render ts = s ∧ Clean ts := (tokenizeAux_sound s).1 ts h

end FpgoVerif.C17

namespace FpgoVerif.C17

theorem tokenizeAux_name (acc n rest : Str) (h1 : '{' ∉ n) (h2 : '}' ∉ n) :
    tokenizeAux (some acc) (n ++ '}' :: rest) = (tokenizeAux none rest).map (Tok.hole (acc ++ n) :: ·) := by
  induction n generalizing acc with
  | nil => simp [tokenizeAux]
  | cons c n ih =>
    have hc1 : c ≠ '{' := fun e => h1 (by simp [e])
    have hc2 : c ≠ '}' := fun e => h2 (by simp [e])
    have hn1 : '{' ∉ n := fun h => h1 (by simp [h])
    have hn2 : '}' ∉ n := fun h => h2 (by simp [h])
    simp only [List.cons_append, tokenizeAux, hc1, hc2, if_false]
    rw [ih (acc ++ [c]) hn1 hn2]
    simp

/-- the tokenizer is complete: a well-formed template has exactly one reading -/
theorem tokenize_complete (ts : List Tok) (hc : Clean ts) : tokenize (render ts) = some ts := by
  unfold tokenize
  induction ts with
  | nil => rfl
  | cons t ts ih =>
    have hts : Clean ts := fun t' h => hc t' (by simp [h])
    have ht := hc t (by simp)
    rw [render_cons]
    cases t with
    | lit c =>
      have hne : c ≠ '{' := by simpa [Tok.clean] using ht
      simp [renderTok, tokenizeAux, hne, ih hts]
    | hole n =>
      simp only [Tok.clean, Bool.and_eq_true] at ht
      have hn1 : '{' ∉ n := not_contains ht.1
      have hn2 : '}' ∉ n := not_contains ht.2
      have := tokenizeAux_name [] n (render ts) hn1 hn2
      simp only [renderTok, placeholder, List.cons_append, List.append_assoc, List.nil_append, tokenizeAux, if_true]
      rw [this, ih hts]
      simp

end FpgoVerif.C17
