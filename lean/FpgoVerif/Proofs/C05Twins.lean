import FpgoVerif.Gen.Twins
/-! C05: which generic / interface{} pairs the hand-written models treat as ONE model (bodies identical
    after type erasure) and which got separate `G.*` / `I.*` models — with the hashes of the normalised
    bodies those separate models were written from.  Compared with the regenerated `Gen.twins` by the
    closing theorems in `Props/C05.lean`. -/
namespace FpgoVerif.C05

/-- pairs modelled by a single function (generic-side name) -/
def expectedSame : List String := [
  "Distinct", "DuplicateMap", "Exists", "Intersection", "IntersectionMapByKey", "IsSubset",
  "IsSubsetMapByKey", "IsSuperset", "IsSupersetMapByKey", "Keys", "MapSetDef.Add", "MapSetDef.Clone",
  "MapSetDef.ContainsKey", "MapSetDef.ContainsValue", "MapSetDef.Get", "MapSetDef.Intersection",
  "MapSetDef.IsSubsetByKey", "MapSetDef.IsSupersetByKey", "MapSetDef.Keys", "MapSetDef.MapKey",
  "MapSetDef.MapValue", "MapSetDef.Minus", "MapSetDef.RemoveKeys", "MapSetDef.RemoveValues",
  "MapSetDef.Set", "MapSetDef.Size", "MapSetDef.Union", "MapSetDef.Values", "Merge", "Minus",
  "NewStreamSet", "SetFrom", "SetFromArray", "SetFromMap", "SliceToMap", "StreamDef.Append",
  "StreamDef.Clone", "StreamDef.Concat", "StreamDef.Contains", "StreamDef.Distinct", "StreamDef.Filter",
  "StreamDef.FilterNotNil", "StreamDef.Get", "StreamDef.Intersection", "StreamDef.IsSubset",
  "StreamDef.IsSuperset", "StreamDef.Len", "StreamDef.Map", "StreamDef.Minus", "StreamDef.Reject",
  "StreamDef.RemoveItem", "StreamDef.Reverse", "StreamDef.Sort", "StreamDef.SortByIndex",
  "StreamDef.ToArray", "StreamFrom", "StreamFromArray", "StreamSetDef.MinusStreams", "StreamSetFrom",
  "StreamSetFromArray", "Values"]

/-- pairs with separate models: generic-side name, hash of the generic body, hash of the interface{} body.
    Extend: same loop, only `make(StreamDef[T], n)` / `&newOne` vs `make([]interface{}, n)` / `FromArray(newOne)`
    (one model); Remove, the promoted `StreamSet` methods, `StreamSetFromMap`, and the `StreamSetFromMap(x)`
    vs `&StreamSetForInterfaceDef{…: x}` constructors of Clone/Union/Intersection: `G.*` / `I.*` models +
    `C05_twin_*` theorems. -/
def expectedDifferent : List (String × Nat × Nat) := [
  ("StreamDef.Extend", 4255274776679575217, 2211790531086012296),
  ("StreamDef.Remove", 3366680427025867471, 4810330505777605165),
  ("StreamSetDef.Clone", 8544564451101045795, 7708157065977531873),
  ("StreamSetDef.Intersection", 6325662383269674155, 5238867380197375458),
  ("StreamSetDef.IsSubsetByKey(promoted)", 4209487539127688762, 1654011146237663838),
  ("StreamSetDef.IsSupersetByKey(promoted)", 6175547051681657612, 3846028356328299822),
  ("StreamSetDef.Minus(promoted)", 3715521785765553016, 6041983432680510557),
  ("StreamSetDef.Union", 3676474328259700225, 7435882562935972699),
  ("StreamSetFromMap", 6318669097220574483, 4992305506402851198)]

open FpgoVerif.Gen in
/-- every pair expected to be identical is present in the regenerated table and flagged identical -/
def twinsSameOK (tw : List TwinPair) : Bool :=
  expectedSame.all (fun n => tw.any (fun p => p.generic == n && p.identical))

open FpgoVerif.Gen in
/-- every pair with separate models is present with exactly the recorded bodies -/
def twinsDifferentOK (tw : List TwinPair) : Bool :=
  expectedDifferent.all (fun e => tw.any (fun p => p.generic == e.1 && !p.identical && p.gHash == e.2.1 && p.iHash == e.2.2))

open FpgoVerif.Gen in
/-- no pair outside the two lists (a new twin pair has no model yet), none without a generic counterpart -/
def twinsCompleteOK (tw : List TwinPair) (missing : List String) : Bool :=
  tw.all (fun p => expectedSame.contains p.generic || expectedDifferent.any (fun e => e.1 == p.generic)) &&
  missing.isEmpty && tw.length == expectedSame.length + expectedDifferent.length

end FpgoVerif.C05
