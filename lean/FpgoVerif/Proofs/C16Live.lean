import FpgoVerif.Proofs.C16Term
/-! Termination: every step decreases `measure`; every reachable non-terminal state has an enabled step. -/
namespace FpgoVerif.C16
set_option linter.unusedSimpArgs false
set_option linter.unusedVariables false

variable {α β : Type} {l : List α} {f : α → β} {w cap : Nat} {s s' : St α β}

local macro "mnorm" : tactic => `(tactic| simp only [measure, List.countP_append, List.countP_cons, List.countP_nil,
  List.length_append, List.length_cons, List.length_nil, WS.isComputing, WS.isSending, WS.isDone, Bool.not_true, Bool.not_false,
  if_true, if_false, Bool.false_eq_true])

theorem measure_step (hs : Step l f cap s s') : measure l.length s' < measure l.length s := by
  cases hs with
  | feed v hc hv _ =>
    have hlt : s.fed < l.length := by
      cases hlen : decide (s.fed < l.length) with
      | true => exact of_decide_eq_true hlen
      | false =>
        have := of_decide_eq_false hlen
        rw [List.getElem?_eq_none (by omega)] at hv; cases hv
    mnorm; omega
  | closeJobs hc _ => mnorm; simp [hc] <;> omega
  | take pre post i v rest hw hj => mnorm; simp only [hw, hj]; mnorm; omega
  | exit pre post hw _ _ => mnorm; simp only [hw]; mnorm; omega
  | compute pre post i v hw => mnorm; simp only [hw]; mnorm; omega
  | sendBuf pre post i r hw _ _ => mnorm; simp only [hw]; mnorm; omega
  | handoff pre post i r hw _ _ _ => mnorm; simp only [hw]; mnorm; omega
  | sendClosed pre post i r _ _ hp => mnorm; simp [hp]
  | closeResult _ ho => mnorm; simp [ho]
  | collect e rest hr _ => mnorm; simp only [hr]; mnorm; omega
  | finish _ _ hc => mnorm; simp [hc]

/-- a worker list is all-done or contains a worker in one of the three other states -/
theorem worker_cases (ws : List (WS α β)) :
    (∀ x ∈ ws, x.isDone = true) ∨ (∃ pre post, ws = pre ++ .idle :: post) ∨
    (∃ pre post i v, ws = pre ++ .computing i v :: post) ∨ (∃ pre post i r, ws = pre ++ .sending i r :: post) := by
  induction ws with
  | nil => left; intro x hx; cases hx
  | cons x xs ih =>
    cases x with
    | idle => right; left; exact ⟨[], xs, rfl⟩
    | computing i v => right; right; left; exact ⟨[], xs, i, v, rfl⟩
    | sending i r => right; right; right; exact ⟨[], xs, i, r, rfl⟩
    | done =>
      rcases ih with h | ⟨pre, post, h⟩ | ⟨pre, post, i, v, h⟩ | ⟨pre, post, i, r, h⟩
      · left; intro y hy; simp only [List.mem_cons] at hy; rcases hy with rfl | hy; rfl; exact h y hy
      · right; left; exact ⟨.done :: pre, post, by rw [h]; rfl⟩
      · right; right; left; exact ⟨.done :: pre, post, i, v, by rw [h]; rfl⟩
      · right; right; right; exact ⟨.done :: pre, post, i, r, by rw [h]; rfl⟩

/-- no deadlock: in every state satisfying the invariant from which PMap has not yet returned, some goroutine can move
    (for every number of workers, every channel capacity including 0, the empty list included) -/
theorem progress (h : Inv l f w cap s) (hd : s.collectorDone = false) : ∃ s', Step l f cap s s' := by
  rcases worker_cases s.workers with hall | ⟨pre, post, hw⟩ | ⟨pre, post, i, v, hw⟩ | ⟨pre, post, i, r, hw⟩
  · -- every worker has left: drain chResult, close it, finish
    cases hr : s.chResult with
    | cons e rest => exact ⟨_, .collect s e rest hr hd⟩
    | nil =>
      cases hc : s.resultClosed with
      | false => exact ⟨_, .closeResult s hall hc⟩
      | true => exact ⟨_, .finish s hr hc hd⟩
  · -- an idle worker: a job, or the closed empty channel, or the feeder moves
    cases hj : s.chJobs with
    | cons e rest => obtain ⟨i, v⟩ := e; exact ⟨_, .take s pre post i v rest hw hj⟩
    | nil =>
      cases hc : s.jobsClosed with
      | true => exact ⟨_, .exit s pre post hw hj hc⟩
      | false =>
        by_cases hf : s.fed = l.length
        · exact ⟨_, .closeJobs s hc hf⟩
        · have hlt : s.fed < l.length := by have := h.fed_le; omega
          exact ⟨_, .feed s l[s.fed] hc (List.getElem?_eq_getElem hlt) (by rw [hj]; simp; omega)⟩
  · exact ⟨_, .compute s pre post i v hw⟩
  · -- a worker holding a result: the collector takes it (directly or after draining the buffer)
    have hopen := open_of_notDone h hw rfl
    cases hr : s.chResult with
    | cons e rest => exact ⟨_, .collect s e rest hr hd⟩
    | nil => exact ⟨_, .handoff s pre post i r hw hopen hr hd⟩

theorem reach_trans {a b c : St α β} (h1 : Reach l f cap a b) (h2 : Reach l f cap b c) : Reach l f cap a c := by
  induction h2 with
  | refl => exact h1
  | step _ hs ih => exact .step ih hs

theorem reach_head {a b c : St α β} (hs : Step l f cap a b) (h2 : Reach l f cap b c) : Reach l f cap a c :=
  reach_trans (.step (.refl a) hs) h2

/-- from every state satisfying the invariant PMap can still return, and every run does so within `measure` steps -/
theorem can_finish : ∀ (k : Nat) (s : St α β), measure l.length s ≤ k → Inv l f w cap s →
    ∃ t, Reach l f cap s t ∧ t.collectorDone = true := by
  intro k
  induction k with
  | zero =>
    intro s hm h
    cases hd : s.collectorDone with
    | true => exact ⟨s, .refl s, hd⟩
    | false =>
      obtain ⟨s', hs⟩ := progress h hd
      have := measure_step hs; omega
  | succ k ih =>
    intro s hm h
    cases hd : s.collectorDone with
    | true => exact ⟨s, .refl s, hd⟩
    | false =>
      obtain ⟨s', hs⟩ := progress h hd
      have hlt := measure_step hs
      obtain ⟨t, ht, htd⟩ := ih s' (by omega) (inv_step h hs)
      exact ⟨t, reach_head hs ht, htd⟩

/-- a run of `k` steps -/
inductive Run {α β : Type} (l : List α) (f : α → β) (cap : Nat) : Nat → St α β → St α β → Prop
  | nil (s : St α β) : Run l f cap 0 s s
  | cons {k : Nat} {s t u : St α β} : Step l f cap s t → Run l f cap k t u → Run l f cap (k + 1) s u

theorem run_bound {k : Nat} {a b : St α β} (hr : Run l f cap k a b) : measure l.length b + k ≤ measure l.length a := by
  induction hr with
  | nil => simp
  | cons hs _ ih => have := measure_step hs; omega

end FpgoVerif.C16
