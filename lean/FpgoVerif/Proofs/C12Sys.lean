import FpgoVerif.Proofs.C12MB
import FpgoVerif.Model.C12Sys
/-! Invariants of the actor system: the spawn tree (`TreeInv`), the per-actor mailbox invariant, the
    effect log. -/
namespace FpgoVerif.C12

theorem step_flag_mono {cap s t} (a : Act) (h : step cap s a = some t) (hf : s.flag = true) : t.flag = true := by
  cases a <;> simp only [step] at h <;> (repeat' split at h) <;> cases h <;> first | exact hf | rfl

def StageOK (s : Sys) (c p : Nat) (cs : Bool) : Prop :=
  (s.stage c = 0 → s.parent c = none ∧ c ∉ s.children p ∧ (cs = true → (s.mb p).flag = true)) ∧
  (s.stage c = 1 → s.parent c = none ∧ c ∉ s.children p ∧ cs = false) ∧
  (s.stage c = 2 → s.parent c = some p ∧ c ∉ s.children p ∧ cs = false) ∧
  (s.stage c = 3 → (s.parent c = some p ∧ c ∈ s.children p ∧ cs = false) ∨
                    (s.parent c = none ∧ c ∉ s.children p ∧ (s.mb p).flag = true))

structure TreeInv (s : Sys) : Prop where
  bound : ∀ c p cs, s.origin c = some (p, cs) → p < c ∧ c < s.count
  stageLe : ∀ c, s.stage c ≤ 3
  rootP : ∀ c, s.origin c = none → s.parent c = none ∧ s.stage c = 3
  st : ∀ c p cs, s.origin c = some (p, cs) → StageOK s c p cs
  kids : ∀ q c, c ∈ s.children q → (∃ cs, s.origin c = some (q, cs)) ∧ s.stage c = 3

theorem treeInv_init (script) : TreeInv (Sys.init script) := by
  refine ⟨?_, ?_, ?_, ?_, ?_⟩ <;> simp [Sys.init]

theorem sysStep_treeInv {s t} (a : SAct) (hi : TreeInv s) (h : sysStep s a = some t) : TreeInv t := by
  obtain ⟨bound, stageLe, rootP, st, kids⟩ := hi
  cases a with
  | newRoot cap =>
    simp only [sysStep] at h; cases h
    exact ⟨fun c p cs ho => ⟨(bound c p cs ho).1, Nat.lt_succ_of_lt (bound c p cs ho).2⟩, stageLe, rootP, st, kids⟩
  | mb a x =>
    simp only [sysStep] at h
    split at h
    · split at h
      · next m hm =>
        cases h
        refine ⟨bound, stageLe, rootP, ?_, kids⟩
        intro c p cs ho
        have hs := st c p cs ho
        have mono : (s.mb p).flag = true → (upd s.mb a m p).flag = true := by
          intro hf
          simp only [upd]
          split
          · next e => subst e; exact step_flag_mono x hm hf
          · exact hf
        refine ⟨fun h0 => ⟨(hs.1 h0).1, (hs.1 h0).2.1, fun hc => mono ((hs.1 h0).2.2 hc)⟩, hs.2.1, hs.2.2.1, ?_⟩
        intro h3
        rcases hs.2.2.2 h3 with h | h
        · exact Or.inl h
        · exact Or.inr ⟨h.1, h.2.1, mono h.2.2⟩
      · cases h
    · cases h
  | spawnNew p =>
    simp only [sysStep] at h
    split at h
    · next hp =>
      cases h
      have hfreshO : s.origin s.count = none := by
        cases ho : s.origin s.count with
        | none => rfl
        | some pc => exact absurd (bound _ pc.1 pc.2 (by rw [ho])).2 (Nat.lt_irrefl _)
      have hnotkid : ∀ q, s.count ∉ s.children q := by
        intro q hq
        obtain ⟨⟨cs, ho⟩, _⟩ := kids q _ hq
        rw [hfreshO] at ho; cases ho
      refine ⟨?_, ?_, ?_, ?_, ?_⟩
      · intro c p' cs ho
        simp only [upd] at ho
        split at ho
        · next e => subst e; cases ho; exact ⟨hp, Nat.lt_succ_self _⟩
        · exact ⟨(bound c p' cs ho).1, Nat.lt_succ_of_lt (bound c p' cs ho).2⟩
      · intro c; simp only [upd]; split
        · omega
        · exact stageLe c
      · intro c ho
        simp only [upd] at ho ⊢
        split at ho
        · cases ho
        · next e => simp only [if_neg e]; exact rootP c ho
      · intro c p' cs ho
        simp only [upd] at ho
        split at ho
        · next e =>
          subst e; cases ho
          refine ⟨fun _ => ⟨(rootP _ hfreshO).1, hnotkid p, fun hc => hc⟩, ?_, ?_, ?_⟩ <;>
            (intro h'; simp [upd] at h')
        · next e =>
          have hs := st c p' cs ho
          simpa [StageOK, upd, e] using hs
      · intro q c hc
        have := kids q c hc
        have hne : c ≠ s.count := fun e => hnotkid q (e ▸ hc)
        simpa [upd, hne] using this
    · cases h
  | spawnCheck c =>
    simp only [sysStep] at h
    split at h
    · next p cs0 ho =>
      split at h
      · next h0 =>
        have hs := st c p cs0 ho
        have hnk : ∀ q, c ∉ s.children q := fun q hq => by
          have := (kids q c hq).2; omega
        split at h
        · next hf =>
          cases h
          refine ⟨bound, ?_, ?_, ?_, ?_⟩
          · intro c'; simp only [upd]; split
            · omega
            · exact stageLe c'
          · intro c' ho'
            have := rootP c' ho'
            have hne : c' ≠ c := fun e => by rw [e, ho] at ho'; cases ho'
            simpa [upd, hne] using this
          · intro c' p' cs' ho'
            by_cases e : c' = c
            · subst e
              rw [ho] at ho'; cases ho'
              refine ⟨?_, ?_, ?_, ?_⟩ <;> simp only [upd_same]
              · intro h'; cases h'
              · intro h'; cases h'
              · intro h'; cases h'
              · intro _; exact Or.inr ⟨(hs.1 h0).1, (hs.1 h0).2.1, hf⟩
            · have := st c' p' cs' ho'
              simpa [StageOK, upd, e] using this
          · intro q c' hc'
            have := kids q c' hc'
            have hne : c' ≠ c := fun e => hnk q (e ▸ hc')
            simpa [upd, hne] using this
        · next hf =>
          cases h
          refine ⟨bound, ?_, ?_, ?_, ?_⟩
          · intro c'; simp only [upd]; split
            · omega
            · exact stageLe c'
          · intro c' ho'
            have := rootP c' ho'
            have hne : c' ≠ c := fun e => by rw [e, ho] at ho'; cases ho'
            simpa [upd, hne] using this
          · intro c' p' cs' ho'
            by_cases e : c' = c
            · subst e
              rw [ho] at ho'; cases ho'
              refine ⟨?_, ?_, ?_, ?_⟩ <;> simp only [upd_same]
              · intro h'; cases h'
              · intro _
                refine ⟨(hs.1 h0).1, (hs.1 h0).2.1, ?_⟩
                cases cs0 with
                | false => rfl
                | true => exact absurd ((hs.1 h0).2.2 rfl) hf
              · intro h'; cases h'
              · intro h'; cases h'
            · have := st c' p' cs' ho'
              simpa [StageOK, upd, e] using this
          · intro q c' hc'
            have := kids q c' hc'
            have hne : c' ≠ c := fun e => hnk q (e ▸ hc')
            simpa [upd, hne] using this
      · cases h
    · cases h
  | spawnSetParent c =>
    simp only [sysStep] at h
    split at h
    · next p cs0 ho =>
      split at h
      · next h1 =>
        cases h
        have hs := st c p cs0 ho
        have hnk : ∀ q, c ∉ s.children q := fun q hq => by
          have := (kids q c hq).2; omega
        refine ⟨bound, ?_, ?_, ?_, ?_⟩
        · intro c'; simp only [upd]; split
          · omega
          · exact stageLe c'
        · intro c' ho'
          have := rootP c' ho'
          have hne : c' ≠ c := fun e => by rw [e, ho] at ho'; cases ho'
          simpa [upd, hne] using this
        · intro c' p' cs' ho'
          by_cases e : c' = c
          · subst e
            rw [ho] at ho'; cases ho'
            refine ⟨?_, ?_, ?_, ?_⟩ <;> simp only [upd_same]
            · intro h'; cases h'
            · intro h'; cases h'
            · intro _; exact ⟨by trivial, (hs.2.1 h1).2.1, (hs.2.1 h1).2.2⟩
            · intro h'; cases h'
          · have := st c' p' cs' ho'
            simpa [StageOK, upd, e] using this
        · intro q c' hc'
          have := kids q c' hc'
          have hne : c' ≠ c := fun e => hnk q (e ▸ hc')
          simpa [upd, hne] using this
      · cases h
    · cases h
  | spawnSetChild c =>
    simp only [sysStep] at h
    split at h
    · next p cs0 ho =>
      split at h
      · next h2 =>
        cases h
        have hs := st c p cs0 ho
        have hpc : p ≠ c := Nat.ne_of_lt (bound c p cs0 ho).1
        refine ⟨bound, ?_, ?_, ?_, ?_⟩
        · intro c'; simp only [upd]; split
          · omega
          · exact stageLe c'
        · intro c' ho'
          have := rootP c' ho'
          have hne : c' ≠ c := fun e => by rw [e, ho] at ho'; cases ho'
          simpa [upd, hne] using this
        · intro c' p' cs' ho'
          by_cases e : c' = c
          · subst e
            rw [ho] at ho'; cases ho'
            refine ⟨?_, ?_, ?_, ?_⟩ <;> simp only [upd_same]
            · intro h'; cases h'
            · intro h'; cases h'
            · intro h'; cases h'
            · intro _; exact Or.inl ⟨(hs.2.2.1 h2).1, by simp, (hs.2.2.1 h2).2.2⟩
          · have := st c' p' cs' ho'
            by_cases ep : p' = p
            · subst ep
              simpa [StageOK, upd, e] using this
            · simpa [StageOK, upd, e, ep] using this
        · intro q c' hc'
          simp only [upd] at hc'
          split at hc'
          · next eq =>
            subst eq
            rcases List.mem_cons.mp hc' with e | hmem
            · subst e; exact ⟨⟨cs0, ho⟩, by simp⟩
            · have := kids _ c' hmem
              have hne : c' ≠ c := fun e => (hs.2.2.1 h2).2.1 (e ▸ hmem)
              simpa [upd, hne] using this
          · have := kids q c' hc'
            have hne : c' ≠ c := fun e => by
              have := this.2; rw [e] at this; omega
            simpa [upd, hne] using this
      · cases h
    · cases h

theorem sreach_treeInv {script s} (h : SReach script s) : TreeInv s := by
  induction h with
  | init => exact treeInv_init script
  | step a _ hs ih => exact sysStep_treeInv a ih hs

/-- a system step either leaves mailbox `a` alone or performs one mailbox atom on it -/
theorem sysStep_mb {s t} (x : SAct) (h : sysStep s x = some t) (a : Nat) :
    t.mb a = s.mb a ∨ ∃ y, step (s.cap a) (s.mb a) y = some (t.mb a) := by
  cases x with
  | mb b y =>
    simp only [sysStep] at h
    split at h
    · split at h
      · next m hm =>
        cases h
        by_cases e : a = b
        · subst e; exact Or.inr ⟨y, by simpa using hm⟩
        · exact Or.inl (by simp [upd, e])
      · cases h
    · cases h
  | newRoot c => simp only [sysStep] at h; cases h; exact Or.inl rfl
  | spawnNew p => simp only [sysStep] at h; split at h <;> cases h; exact Or.inl rfl
  | spawnCheck c => simp only [sysStep] at h; (repeat' split at h) <;> cases h <;> exact Or.inl rfl
  | spawnSetParent c => simp only [sysStep] at h; (repeat' split at h) <;> cases h <;> exact Or.inl rfl
  | spawnSetChild c => simp only [sysStep] at h; (repeat' split at h) <;> cases h <;> exact Or.inl rfl

/-- every actor of the system, at any time, satisfies the mailbox invariant of its own scripts -/
theorem sreach_mbInv {script s} (ho : ∀ a, OwnedScript (script a)) (h : SReach script s) :
    ∀ a, Inv (script a) (s.mb a) := by
  induction h with
  | init => intro a; exact inv_init (ho a)
  | step x _ hs ih =>
    intro a
    rcases sysStep_mb x hs a with e | ⟨y, hy⟩
    · rw [e]; exact ih a
    · exact step_inv y (ih a) hy

/-- the effect is always called with the actor whose loop makes the call -/
theorem sreach_self {script s} (h : SReach script s) : ∀ e ∈ s.effLog, e.2.1 = e.1 := by
  induction h with
  | init => intro e he; simp [Sys.init] at he
  | step x _ hs ih =>
    cases x with
    | mb b y =>
      simp only [sysStep] at hs
      split at hs
      · split at hs
        · cases hs
          intro e he
          rcases List.mem_append.mp he with h1 | h1
          · exact ih e h1
          · obtain ⟨j, _, rfl⟩ := List.mem_map.mp h1; rfl
        · cases hs
      · cases hs
    | newRoot c => simp only [sysStep] at hs; cases hs; exact ih
    | spawnNew p => simp only [sysStep] at hs; split at hs <;> cases hs; exact ih
    | spawnCheck c => simp only [sysStep] at hs; (repeat' split at hs) <;> cases hs <;> exact ih
    | spawnSetParent c => simp only [sysStep] at hs; (repeat' split at hs) <;> cases hs <;> exact ih
    | spawnSetChild c => simp only [sysStep] at hs; (repeat' split at hs) <;> cases hs <;> exact ih

def runSActs : Sys → List SAct → Option Sys
  | s, [] => some s
  | s, a :: as => match sysStep s a with
    | some t => runSActs t as
    | none => none

theorem sreach_run {script} : ∀ (acts : List SAct) {s t}, SReach script s → runSActs s acts = some t → SReach script t
  | [], s, t, hr, h => by simp only [runSActs] at h; cases h; exact hr
  | a :: as, s, t, hr, h => by
    simp only [runSActs] at h
    split at h
    · next u hu => exact sreach_run as (SReach.step a hr hu) h
    · cases h

theorem sreach_of_run {script} (acts : List SAct) {t} (h : runSActs (Sys.init script) acts = some t) :
    SReach script t := sreach_run acts SReach.init h

end FpgoVerif.C12
