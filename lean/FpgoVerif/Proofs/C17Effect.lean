import FpgoVerif.Model.C17
/-! Helper lemmas for the effect-level theorems of C17 (frame / log / no-panic). -/
namespace FpgoVerif.C17

/-- `w'` extends `w`: log grows by `rs`, every header map that existed keeps its content, targets' count kept -/
structure Ext (w w' : World) (rs : List SentReq) : Prop where
  log : w'.log = w.log ++ rs
  len : w.heap.length ≤ w'.heap.length
  frame : ∀ a, a < w.heap.length → w'.get a = w.get a

theorem Ext.refl (w : World) : Ext w w [] := ⟨by simp, Nat.le_refl _, fun _ _ => rfl⟩

theorem Ext.trans {w1 w2 w3 : World} {r1 r2} (h1 : Ext w1 w2 r1) (h2 : Ext w2 w3 r2) : Ext w1 w3 (r1 ++ r2) :=
  ⟨by rw [h2.log, h1.log, List.append_assoc], Nat.le_trans h1.len h2.len,
   fun a ha => by rw [h2.frame a (Nat.lt_of_lt_of_le ha h1.len), h1.frame a ha]⟩

theorem ext_alloc (w : World) (h : Header) : Ext w (w.alloc h).2 [] :=
  ⟨by simp [World.alloc], by simp [World.alloc], fun a ha => by
    simp [World.alloc, World.get, List.getElem?_append_left ha]⟩

theorem get_alloc (w : World) (h : Header) : (w.alloc h).2.get (w.alloc h).1 = h := by
  simp [World.alloc, World.get]

theorem ext_set_fresh (w : World) (a : Nat) (h : Header) (n : Nat) (hn : n ≤ a) (hl : n ≤ w.heap.length) :
    (∀ b, b < n → (w.set a h).get b = w.get b) ∧ (w.set a h).heap.length = w.heap.length ∧ (w.set a h).log = w.log := by
  refine ⟨fun b hb => ?_, by simp [World.set], by simp [World.set]⟩
  have : a ≠ b := by omega
  simp [World.set, World.get, List.getElem?_set_ne this]

theorem decode_no_panic (env : Env) (raw : Except ErrC Str) (tgt : Nat) (w : World) :
    (decodeResponseBody true env raw tgt w).1 ≠ .panic := by
  unfold decodeResponseBody
  cases raw with
  | error e => simp
  | ok b =>
    cases h : (env.deser b (w.target tgt)).1 <;> simp [h]

theorem decode_world (c : Bool) (env : Env) (raw : Except ErrC Str) (tgt : Nat) (w : World) :
    (decodeResponseBody c env raw tgt w).2.log = w.log ∧ (decodeResponseBody c env raw tgt w).2.heap = w.heap := by
  unfold decodeResponseBody
  cases raw with
  | error e => simp
  | ok b =>
    cases h : (env.deser b (w.target tgt)).1 <;> cases c <;> simp [h, World.setTarget]

end FpgoVerif.C17

namespace FpgoVerif.C17

/-- the header the property prescribes: the default header's content plus the declared content type -/
def addCT (h : Header) (ct : Str) : Header := if ct ≠ [] then hAdd h contentTypeKey ct else h

theorem get_append_len (w : World) (h : Header) (ext : List Header) :
    (World.get { w with heap := w.heap ++ h :: ext } w.heap.length) = h := by
  simp [World.get]

/-- `DoNewRequestWithBodyOptions` with a header argument that is nil or a map at address `a` -/
theorem dnrwbo_cases (env : Env) (h : Option Nat) (m u b ct : Str) (w : World) :
    (validMethod (normMethod m) = false ∧ doNewRequestWithBodyOptions env h m u b ct w = (.error .method, w)) ∨
    (validMethod (normMethod m) = true ∧ urlParse u = none ∧ doNewRequestWithBodyOptions env h m u b ct w = (.error .url, w)) ∨
    (∃ u', validMethod (normMethod m) = true ∧ urlParse u = some u' ∧
      let a := h.getD w.heap.length
      let w1 : World := { w with heap := w.heap ++ [[]] }
      let w2 : World := if ct ≠ [] then w1.set a (hAdd (w1.get a) contentTypeKey ct) else w1
      let r : SentReq := ⟨normMethod m, u', a, w2.get a, b⟩
      doNewRequestWithBodyOptions env h m u b ct w = (env.transport r, { w2 with log := w2.log ++ [r] })) := by
  unfold doNewRequestWithBodyOptions newRequest
  by_cases hv : validMethod (normMethod m) = true
  · cases hu : urlParse u with
    | none => right; left; simp [hv, hu]
    | some u' =>
      right; right
      refine ⟨u', hv, rfl, ?_⟩
      cases h with
      | none => by_cases hc : ct = [] <;> simp [hv, hu, World.alloc, doRequest, hc]
      | some a => by_cases hc : ct = [] <;> simp [hv, hu, World.alloc, doRequest, hc]
  · left
    have : validMethod (normMethod m) = false := by simpa using hv
    simp [this]

theorem dnr_cases (env : Env) (h : Option Nat) (m u : Str) (w : World) :
    (validMethod (normMethod m) = false ∧ doNewRequest env h m u w = (.error .method, w)) ∨
    (validMethod (normMethod m) = true ∧ urlParse u = none ∧ doNewRequest env h m u w = (.error .url, w)) ∨
    (∃ u', validMethod (normMethod m) = true ∧ urlParse u = some u' ∧
      let a := h.getD w.heap.length
      let w1 : World := { w with heap := w.heap ++ [[]] }
      let r : SentReq := ⟨normMethod m, u', a, w1.get a, "nil".toList⟩
      doNewRequest env h m u w = (env.transport r, { w1 with log := w1.log ++ [r] })) := by
  unfold doNewRequest newRequest
  by_cases hv : validMethod (normMethod m) = true
  · cases hu : urlParse u with
    | none => right; left; simp [hv, hu]
    | some u' =>
      right; right
      refine ⟨u', hv, rfl, ?_⟩
      cases h <;> simp [hv, hu, World.alloc, doRequest]
  · left
    have : validMethod (normMethod m) = false := by simpa using hv
    simp [this]

end FpgoVerif.C17

namespace FpgoVerif.C17

theorem dnr_eq (env : Env) (h : Option Nat) (m u : Str) (w : World) :
    doNewRequest env h m u w = doNewRequestWithBodyOptions env h m u "nil".toList [] w := by
  unfold doNewRequest doNewRequestWithBodyOptions
  cases hnr : newRequest m u "nil".toList w with
  | mk r w' => cases r <;> simp

/-- clone the default header, then build and send the request -/
def sendWith (env : Env) (dh : Option Nat) (m u b ct : Str) (w : World) : Except ErrC (Except ErrC Str) × World :=
  doNewRequestWithBodyOptions env (cloneHeader true dh w).1 m u b ct (cloneHeader true dh w).2

theorem ext_shape (w : World) (ext : List Header) (a : Nat) (ha : w.heap.length ≤ a) (hnew : Header) (b : Bool)
    (r : SentReq) :
    let w1 : World := { w with heap := w.heap ++ ext }
    let w2 : World := if b then w1.set a hnew else w1
    Ext w { w2 with log := w2.log ++ [r] } [r] := by
  intro w1 w2
  cases b
  · refine ⟨by simp [w2, w1], by simp [w2, w1], fun c hc => ?_⟩
    simp [w2, w1, World.get, List.getElem?_append_left hc]
  · refine ⟨by simp [w2, w1, World.set], by simp [w2, w1, World.set], fun c hc => ?_⟩
    have : a ≠ c := by omega
    simp [w2, w1, World.get, World.set, List.getElem?_set_ne this, List.getElem?_append_left hc]

/-- the request one evaluation sends, as the property prescribes it -/
structure IsSpecRequest (dhContent : Header) (m u b ct : Str) (w : World) (r : SentReq) : Prop where
  method : r.method = normMethod m
  url : urlParse u = some r.url
  body : r.body = b
  hdr : r.hdr = addCT dhContent ct
  fresh : r.hdrAddr = w.heap.length

theorem sendWith_cases (env : Env) (dh : Option Nat) (m u b ct : Str) (w : World)
    (hwf : ∀ a, dh = some a → a < w.heap.length) :
    (validMethod (normMethod m) = false ∧ ∃ w', sendWith env dh m u b ct w = (.error .method, w') ∧ Ext w w' []) ∨
    (validMethod (normMethod m) = true ∧ urlParse u = none ∧
      ∃ w', sendWith env dh m u b ct w = (.error .url, w') ∧ Ext w w' []) ∨
    (validMethod (normMethod m) = true ∧ ∃ r w', IsSpecRequest ((dh.map w.get).getD []) m u b ct w r ∧ Ext w w' [r] ∧
      sendWith env dh m u b ct w = (env.transport r, w')) := by
  unfold sendWith
  cases dh with
  | none =>
    simp only [cloneHeader]
    rcases dnrwbo_cases env none m u b ct w with ⟨h1, h2⟩ | ⟨h1, h2, h3⟩ | ⟨u', h1, h2, h3⟩
    · exact Or.inl ⟨h1, w, h2, Ext.refl w⟩
    · exact Or.inr (Or.inl ⟨h1, h2, w, h3, Ext.refl w⟩)
    · refine Or.inr (Or.inr ⟨h1, _, _, ?_, ?_, h3⟩)
      · by_cases hc : ct = []
        · exact ⟨rfl, h2, rfl, by simp [hc, addCT, World.get], rfl⟩
        · exact ⟨rfl, h2, rfl, by simp [hc, addCT, World.get, World.set], rfl⟩
      · simp only [Option.getD_none]
        have := ext_shape w [[]] w.heap.length (Nat.le_refl _)
          (hAdd (World.get { w with heap := w.heap ++ [[]] } w.heap.length) contentTypeKey ct) (decide (ct ≠ []))
        simpa using this _
  | some a0 =>
    have ha0 := hwf a0 rfl
    simp only [cloneHeader, World.alloc, if_true]
    rcases dnrwbo_cases env (some w.heap.length) m u b ct { w with heap := w.heap ++ [w.get a0] }
      with ⟨h1, h2⟩ | ⟨h1, h2, h3⟩ | ⟨u', h1, h2, h3⟩
    · exact Or.inl ⟨h1, _, h2, (ext_alloc w (w.get a0))⟩
    · exact Or.inr (Or.inl ⟨h1, h2, _, h3, (ext_alloc w (w.get a0))⟩)
    · refine Or.inr (Or.inr ⟨h1, _, _, ?_, ?_, h3⟩)
      · by_cases hc : ct = []
        · exact ⟨rfl, h2, rfl, by simp [hc, addCT, World.get], rfl⟩
        · exact ⟨rfl, h2, rfl, by simp [hc, addCT, World.get, World.set], rfl⟩
      · simp only [Option.getD_some]
        have := ext_shape w [w.get a0, []] w.heap.length (Nat.le_refl _)
          (hAdd (World.get { w with heap := w.heap ++ [w.get a0, []] } w.heap.length) contentTypeKey ct) (decide (ct ≠ []))
        simpa using this _

/-- what the serializer stage yields: body record and content type (`Err` aborts before anything is sent) -/
def serialize (d : ApiDef) (env : Env) (body : Option Body) : Except ErrC (Str × Str) :=
  match d.kind with
  | .noBody => .ok ("nil".toList, [])
  | .body => match body with
    | none => .ok ("nil".toList, d.contentType)
    | some b => (env.jsonSer b).map (·, d.contentType)
  | .multipart => match body with
    | none => .ok ("nil".toList, [])
    | some b => env.mpSer b

theorem effect_eq_sendWith (api : Api) (d : ApiDef) (env : Env) (ps : List (Str × Val)) (body : Option Body)
    (tgt : Nat) (w : World) :
    effect {} api d env ps body tgt w =
      match serialize d env body with
      | .error e => (.resp (some e) none, w)
      | .ok (b, ct) =>
        match sendWith env api.defaultHeader d.method (urlOf {} api d ps) b ct w with
        | (.error e, w) => (.resp (some e) none, w)
        | (.ok raw, w) => decodeResponseBody true env raw tgt w := by
  unfold effect serialize sendWith
  cases d.kind with
  | noBody => simp only [dnr_eq]; rfl
  | body =>
    cases body with
    | none => rfl
    | some b => simp only []; cases h : env.jsonSer b <;> simp only [Except.map] <;> rfl
  | multipart =>
    cases body with
    | none => rfl
    | some b =>
      simp only []
      cases h : env.mpSer b with
      | error e => rfl
      | ok p => cases p; rfl

end FpgoVerif.C17
