import FpgoVerif.Model.C15Cor
import FpgoVerif.Proofs.C15Tac
/-! Invariants of the coroutine system (callers in YieldFrom + the finishing target). -/
namespace FpgoVerif.C15.Co

theorem gstep_some {s pc ch s' nx} (h : gstep s pc ch = some (s', nx)) :
    0 < s.cnt (kind pc) ∧ ∃ s1, step s ch pc = some (s1, nx) ∧ s' = { s1 with cnt := move s1.cnt (kind pc) nx } := by
  unfold gstep at h
  split at h
  · simp at h
  · rename_i hc
    split at h
    · simp at h
    · rename_i s1 nx1 hs
      simp at h
      obtain ⟨rfl, rfl⟩ := h
      exact ⟨Nat.pos_of_ne_zero hc, s1, hs, rfl⟩

structure Inv (s : St) : Prop where
  nopanic : s.panic = false
  gOne : s.cnt .g1 + s.cnt .g2 + s.cnt .gc0 + s.cnt .gc1 + s.cnt .gc2 + s.cnt .gc3 ≤ 1
  idle0 : s.gIdle = true → s.cnt .g1 + s.cnt .g2 + s.cnt .gc0 + s.cnt .gc1 + s.cnt .gc2 + s.cnt .gc3 = 0
  ret0 : s.retStarted = false → s.cnt .gc0 + s.cnt .gc1 + s.cnt .gc2 + s.cnt .gc3 = 0 ∧ s.gflag = false
  retG : s.retStarted = true → s.cnt .g1 + s.cnt .g2 = 0 ∧ s.gIdle = false
  gcflag : 0 < s.cnt .gc1 + s.cnt .gc2 + s.cnt .gc3 → s.gflag = true
  opc : s.opClosed = true → s.gflag = true ∧ s.cnt .r1 = 0 ∧ s.cnt .gc0 + s.cnt .gc1 + s.cnt .gc2 = 0
  done : s.closeDone = true → s.gflag = true ∧ s.opClosed = true ∧ s.cnt .gc3 = 0
  late0 : s.late = 0
  dn : s.fixed = true → 0 < s.cnt .gc2 + s.cnt .gc3 → s.doneClosed = true
  gc3op : 0 < s.cnt .gc3 → s.opClosed = true
  retDone : s.retStarted = true → s.cnt .gc0 + s.cnt .gc1 + s.cnt .gc2 + s.cnt .gc3 = 0 → s.closeDone = true
  drained : s.fixed = true → s.closeDone = true → s.opCh = []
  wcount : s.cnt .w = s.answers.length + s.opCh.length + s.cnt .g2

theorem inv_init (cap : Nat) (f : Bool) : Inv (init cap f) := by
  constructor <;> simp [init]

theorem eraseP_len {l : List (Nat × Nat)} {id : Nat} {a} (h : l.find? (·.1 == id) = some a) :
    (l.eraseP (·.1 == id)).length + 1 = l.length := by
  have hany : l.any (·.1 == id) = true := by
    rw [List.any_eq_true]
    exact ⟨a, List.mem_of_find?_eq_some h, by have := List.find?_some h; simpa using this⟩
  have hpos : 0 < l.length := by
    cases l with
    | nil => simp at h
    | cons _ _ => simp
  rw [List.length_eraseP, if_pos hany]; omega

/-- the invariant-preservation proof is cut into modules by program counter (parallel build) -/
def pcGroup : PC → Nat
  | .r0 _ _ => 0
  | .r1 _ _ => 1
  | .isd => 2
  | .w _ => 3
  | .g1 _ => 4
  | .g2 _ _ _ => 5
  | .gc0 => 5
  | .gc1 => 6
  | .gc2 => 6
  | .gc3 => 7

end FpgoVerif.C15.Co
