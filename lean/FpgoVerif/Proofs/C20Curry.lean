import FpgoVerif.Model.C20
/-! Helper lemmas for the CurryDef transition system of C20: the invariant, its preservation by every
    atomic step, the frozen-after-done invariant, and the sequential `Call`. -/

namespace FpgoVerif.C20

/-- the argument lists `fn` must have seen after the accepted calls `h`: every non-empty prefix, flattened -/
def prefixesFrom (acc : List Int) : List (List Int) → List (List Int)
  | [] => []
  | a :: t => (acc ++ a) :: prefixesFrom (acc ++ a) t

def prefixes (h : List (List Int)) : List (List Int) := prefixesFrom [] h

theorem prefixesFrom_snoc (acc : List Int) (h : List (List Int)) (a : List Int) :
    prefixesFrom acc (h ++ [a]) = prefixesFrom acc h ++ [acc ++ (h ++ [a]).flatten] := by
  induction h generalizing acc with
  | nil => simp [prefixesFrom]
  | cons b t ih => simp [prefixesFrom, ih, List.append_assoc]

theorem prefixes_snoc (h : List (List Int)) (a : List Int) :
    prefixes (h ++ [a]) = prefixes h ++ [(h ++ [a]).flatten] := by
  simpa [prefixes] using prefixesFrom_snoc [] h a

theorem prefixesFrom_length (acc : List Int) (h : List (List Int)) : (prefixesFrom acc h).length = h.length := by
  induction h generalizing acc with
  | nil => rfl
  | cons b t ih => simp [prefixesFrom, ih]

theorem prefixesFrom_getElem? (acc : List Int) (h : List (List Int)) (i : Nat) (hi : i < h.length) :
    (prefixesFrom acc h)[i]? = some (acc ++ (h.take (i + 1)).flatten) := by
  induction h generalizing acc i with
  | nil => simp at hi
  | cons b t ih =>
    cases i with
    | zero => simp [prefixesFrom]
    | succ j =>
      simp only [prefixesFrom, List.getElem?_cons_succ]
      rw [ih (acc ++ b) j (by simpa using hi)]
      simp [List.append_assoc]

theorem prefixes_getElem? (h : List (List Int)) (i : Nat) (hi : i < h.length) :
    (prefixes h)[i]? = some ((h.take (i + 1)).flatten) := by
  simpa [prefixes] using prefixesFrom_getElem? [] h i hi

/-- what holds of the ghost fields, by phase of the current call -/
def CShape (c : Curry) : Prop :=
  match c.cur with
  | none => c.hist.Sublist c.lockOrder ∧ c.log = prefixes c.hist ∧ (c.isDone = false → c.hist = c.lockOrder)
  | some (.checking, a) =>
    ∃ lo, c.lockOrder = lo ++ [a] ∧ c.hist.Sublist lo ∧ c.log = prefixes c.hist ∧ (c.isDone = false → c.hist = lo)
  | some (.appending, a) =>
    ∃ lo, c.lockOrder = lo ++ [a] ∧ c.hist = lo ∧ c.log = prefixes c.hist
  | some (.calling, a) =>
    ∃ lo, c.lockOrder = lo ++ [a] ∧ c.hist = lo ++ [a] ∧ c.log = prefixes lo
  | some (.unlocking, _) =>
    c.hist.Sublist c.lockOrder ∧ c.log = prefixes c.hist ∧ (c.isDone = false → c.hist = c.lockOrder)

structure CInv (fn : CurryFn) (c : Curry) : Prop where
  args_eq : c.args = c.hist.flatten
  result_eq : c.result = match c.log.getLast? with | none => 0 | some l => (fn l).1
  shape : CShape c

theorem cinv_init (fn : CurryFn) (scripts) : CInv fn (Curry.init scripts) :=
  ⟨rfl, rfl, by simp [CShape, Curry.init, prefixes, prefixesFrom]⟩

theorem cinv_acquire {fn : CurryFn} {c c' : Curry} {t : Nat} (h : CInv fn c) (he : c.acquire t = some c') :
    CInv fn c' := by
  unfold Curry.acquire at he
  split at he
  · rename_i hcur _
    injection he with he; subst he
    have hs := h.shape
    simp only [CShape, hcur] at hs
    refine ⟨h.args_eq, h.result_eq, ?_⟩
    simp only [CShape]
    exact ⟨c.lockOrder, rfl, hs.1, hs.2.1, hs.2.2⟩
  · cases he

theorem cinv_markDone {fn : CurryFn} {c : Curry} (h : CInv fn c) : CInv fn c.markDone := by
  refine ⟨h.args_eq, h.result_eq, ?_⟩
  have hs := h.shape
  unfold CShape at hs ⊢
  simp only [Curry.markDone]
  split <;> rename_i hcur <;> simp only [hcur] at hs
  · exact ⟨hs.1, hs.2.1, by simp⟩
  · obtain ⟨lo, h1, h2, h3, _⟩ := hs; exact ⟨lo, h1, h2, h3, by simp⟩
  · exact hs
  · exact hs
  · exact ⟨hs.1, hs.2.1, by simp⟩

theorem cinv_advance {fn : CurryFn} {c c' : Curry} (h : CInv fn c) (he : c.advance fn = some c') :
    CInv fn c' := by
  have hs := h.shape
  unfold Curry.advance at he
  split at he
  · cases he
  · -- checking
    rename_i a hcur
    injection he with he; subst he
    simp only [CShape, hcur] at hs
    obtain ⟨lo, h1, h2, h3, h4⟩ := hs
    refine ⟨h.args_eq, h.result_eq, ?_⟩
    cases hd : c.isDone with
    | true =>
      simp only [CShape, if_true]
      exact ⟨by rw [h1]; exact h2.trans (List.sublist_append_left lo [a]), h3, by simp⟩
    | false =>
      simp only [CShape]
      exact ⟨lo, h1, h4 hd, h3⟩
  · -- appending
    rename_i a hcur
    injection he with he; subst he
    simp only [CShape, hcur] at hs
    obtain ⟨lo, h1, h2, h3⟩ := hs
    refine ⟨by simp [h.args_eq], h.result_eq, ?_⟩
    simp only [CShape]
    exact ⟨lo, h1, by rw [h2], by rw [h3, h2]⟩
  · -- calling
    rename_i a hcur
    injection he with he; subst he
    simp only [CShape, hcur] at hs
    obtain ⟨lo, h1, h2, h3⟩ := hs
    refine ⟨h.args_eq, by simp, ?_⟩
    simp only [CShape]
    refine ⟨by rw [h1, h2]; exact List.Sublist.refl _, ?_, fun _ => by rw [h1, h2]⟩
    rw [h3, h2, prefixes_snoc, h.args_eq, h2]
  · -- unlocking
    rename_i a hcur
    injection he with he; subst he
    simp only [CShape, hcur] at hs
    refine ⟨h.args_eq, h.result_eq, ?_⟩
    simp only [CShape]
    exact hs

theorem cinv_step {fn : CurryFn} {c c' : Curry} (h : CInv fn c) (st : CStep fn c c') : CInv fn c' := by
  cases st with
  | acquire t he => exact cinv_acquire h he
  | advance he => exact cinv_advance h he
  | markDone => exact cinv_markDone h

theorem cinv_reach {fn : CurryFn} {c c' : Curry} (h : CInv fn c) (r : CReach fn c c') : CInv fn c' := by
  induction r with
  | refl => exact h
  | step _ st ih => exact cinv_step ih st

/-! ### frozen after done -/

/-- done, and the current call (if any) has not passed / will not pass the done-check -/
def Quiet (c : Curry) : Prop :=
  c.isDone = true ∧ (c.cur = none ∨ ∃ a, c.cur = some (.checking, a) ∨ c.cur = some (.unlocking, a))

theorem quiet_step {fn : CurryFn} {c c' : Curry} (h : Quiet c) (st : CStep fn c c') :
    Quiet c' ∧ c'.args = c.args ∧ c'.result = c.result ∧ c'.log = c.log ∧ c'.hist = c.hist := by
  obtain ⟨hd, hc⟩ := h
  cases st with
  | acquire t he =>
    unfold Curry.acquire at he
    split at he
    · injection he with he; subst he
      exact ⟨⟨hd, Or.inr ⟨_, Or.inl rfl⟩⟩, rfl, rfl, rfl, rfl⟩
    · cases he
  | advance he =>
    unfold Curry.advance at he
    rcases hc with hc | ⟨a, hc | hc⟩ <;> simp only [hc] at he
    · cases he
    · injection he with he; subst he
      refine ⟨⟨hd, Or.inr ⟨a, Or.inr ?_⟩⟩, rfl, rfl, rfl, rfl⟩
      simp [hd]
    · injection he with he; subst he
      exact ⟨⟨hd, Or.inl rfl⟩, rfl, rfl, rfl, rfl⟩
  | markDone =>
    exact ⟨⟨rfl, hc⟩, rfl, rfl, rfl, rfl⟩

theorem quiet_reach {fn : CurryFn} {c c' : Curry} (h : Quiet c) (r : CReach fn c c') :
    Quiet c' ∧ c'.args = c.args ∧ c'.result = c.result ∧ c'.log = c.log ∧ c'.hist = c.hist := by
  induction r with
  | refl => exact ⟨h, rfl, rfl, rfl, rfl⟩
  | step _ st ih =>
    obtain ⟨hq, h1, h2, h3, h4⟩ := ih
    obtain ⟨hq', g1, g2, g3, g4⟩ := quiet_step hq st
    exact ⟨hq', g1.trans h1, g2.trans h2, g3.trans h3, g4.trans h4⟩

/-! ### the sequential Call -/

def Curry.abs (c : Curry) : Spec.CurryS := ⟨c.args, c.result, c.isDone, c.log⟩

theorem callSeq_abs (fn : CurryFn) (c : Curry) (a : List Int) (hcur : c.cur = none) :
    (c.callSeq fn a).abs = c.abs.call fn a ∧ (c.callSeq fn a).cur = none := by
  cases hd : c.isDone <;>
    simp [Curry.callSeq, Curry.acquire, Curry.finish, Curry.advance, Curry.abs, Spec.CurryS.call, hcur, hd]

theorem callSeq_reach (fn : CurryFn) (c : Curry) (a : List Int) (hcur : c.cur = none) :
    CReach fn { c with pending := [[a]] } (c.callSeq fn a) := by
  have hacq : ({ c with pending := [[a]] } : Curry).acquire 0 =
      some { c with pending := [[]], cur := some (.checking, a), lockOrder := c.lockOrder ++ [a] } := by
    simp [Curry.acquire, hcur]
  have r1 := CReach.step (CReach.refl _) (CStep.acquire (fn := fn) 0 hacq)
  rcases Bool.eq_false_or_eq_true c.isDone with hd | hd
  · have e : c.callSeq fn a = { c with pending := [[]], cur := none, lockOrder := c.lockOrder ++ [a] } := by
      simp [Curry.callSeq, Curry.acquire, Curry.finish, Curry.advance, hcur, hd]
    rw [e]
    have r2 := CReach.step r1 (CStep.advance
      (c' := { c with pending := [[]], cur := some (.unlocking, a), lockOrder := c.lockOrder ++ [a] })
      (by simp [Curry.advance, hd]))
    exact CReach.step r2 (CStep.advance (by simp [Curry.advance]))
  · have e : c.callSeq fn a =
        { c with
          pending := [[]], cur := none, lockOrder := c.lockOrder ++ [a],
          args := c.args ++ a, hist := c.hist ++ [a], log := c.log ++ [c.args ++ a],
          result := (fn (c.args ++ a)).1, isDone := c.isDone || (fn (c.args ++ a)).2 } := by
      simp [Curry.callSeq, Curry.acquire, Curry.finish, Curry.advance, hcur, hd]
    rw [e]
    have r2 := CReach.step r1 (CStep.advance
      (c' := { c with pending := [[]], cur := some (.appending, a), lockOrder := c.lockOrder ++ [a] })
      (by simp [Curry.advance, hd]))
    have r3 := CReach.step r2 (CStep.advance
      (c' := { c with
               pending := [[]], cur := some (.calling, a), lockOrder := c.lockOrder ++ [a],
               args := c.args ++ a, hist := c.hist ++ [a] })
      (by simp [Curry.advance]))
    have r4 := CReach.step r3 (CStep.advance
      (c' := { c with
               pending := [[]], cur := some (.unlocking, a), lockOrder := c.lockOrder ++ [a],
               args := c.args ++ a, hist := c.hist ++ [a], log := c.log ++ [c.args ++ a],
               result := (fn (c.args ++ a)).1, isDone := c.isDone || (fn (c.args ++ a)).2 })
      (by simp [Curry.advance]))
    exact CReach.step r4 (CStep.advance (by simp [Curry.advance]))

/-! ### scripts: the driver's sequential run against the Spec run -/

theorem curryTok_refines (fn : CurryFn) (c : Curry) (tok : String) (hcur : c.cur = none) :
    (curryTokImpl fn c tok).1.abs = (curryTokSpec fn c.abs tok).1 ∧
    (curryTokImpl fn c tok).2 = (curryTokSpec fn c.abs tok).2 ∧
    (curryTokImpl fn c tok).1.cur = none := by
  unfold curryTokImpl curryTokSpec
  by_cases h1 : tok.startsWith "c:" = true
  · simp only [h1, if_true]
    obtain ⟨habs, hc⟩ := callSeq_abs fn c (parseInts (dropS tok 2)) hcur
    refine ⟨habs, ?_, hc⟩
    have hlog : (c.callSeq fn (parseInts (dropS tok 2))).log = (c.abs.call fn (parseInts (dropS tok 2))).log := by
      rw [← habs]; rfl
    rcases Bool.eq_false_or_eq_true c.isDone with hd | hd
    · have : (c.abs.call fn (parseInts (dropS tok 2))).log = c.log := by simp [Spec.CurryS.call, Curry.abs, hd]
      simp only [hlog, this]
      simp [Curry.abs, hd]
    · have : (c.abs.call fn (parseInts (dropS tok 2))).log = c.log ++ [c.args ++ parseInts (dropS tok 2)] := by
        simp [Spec.CurryS.call, Curry.abs, hd]
      simp only [hlog, this]
      simp [Curry.abs, hd]
  · simp only [h1]
    by_cases h2 : tok = "d"
    · simp [h2, Curry.markDone, Spec.CurryS.markDone, Curry.abs, hcur]
    · by_cases h3 : tok = "r"
      · simp [h3, Curry.abs, hcur]
      · by_cases h4 : tok = "i"
        · simp [h4, Curry.abs, hcur]
        · simp [h2, h3, h4, hcur]

theorem curry_script_refines (fn : CurryFn) (ts : List String) :
    ∀ (c : Curry) (outs : List String), c.cur = none →
      (ts.foldl (fun (acc : Curry × List String) t =>
          ((curryTokImpl fn acc.1 t).1, (curryTokImpl fn acc.1 t).2 :: acc.2)) (c, outs)).2 =
      (ts.foldl (fun (acc : Spec.CurryS × List String) t =>
          ((curryTokSpec fn acc.1 t).1, (curryTokSpec fn acc.1 t).2 :: acc.2)) (c.abs, outs)).2 := by
  induction ts with
  | nil => intro c outs _; rfl
  | cons t rest ih =>
    intro c outs hcur
    obtain ⟨h1, h2, h3⟩ := curryTok_refines fn c t hcur
    simp only [List.foldl_cons]
    rw [ih _ _ h3, h1, h2]

/-! ### caller-owned argument buffers (`cw` cases) -/

theorem curryCall_refines (fn : CurryFn) (c : Curry) (a : List Int) (hcur : c.cur = none) :
    (curryCallImpl fn c a).1.abs = (curryCallSpec fn c.abs a).1 ∧
    (curryCallImpl fn c a).2 = (curryCallSpec fn c.abs a).2 ∧
    (curryCallImpl fn c a).1.cur = none := by
  unfold curryCallImpl curryCallSpec
  obtain ⟨habs, hc⟩ := callSeq_abs fn c a hcur
  refine ⟨habs, ?_, hc⟩
  have hlog : (c.callSeq fn a).log = (c.abs.call fn a).log := by rw [← habs]; rfl
  rcases Bool.eq_false_or_eq_true c.isDone with hd | hd
  · have : (c.abs.call fn a).log = c.log := by simp [Spec.CurryS.call, Curry.abs, hd]
    simp only [hlog, this]
    simp [Curry.abs, hd]
  · have : (c.abs.call fn a).log = c.log ++ [c.args ++ a] := by simp [Spec.CurryS.call, Curry.abs, hd]
    simp only [hlog, this]
    simp [Curry.abs, hd]

/-- the simulation between the two-CurryDef states of the implementation model and of the Spec -/
def CwRel (st : CwState Curry) (ss : CwState Spec.CurryS) : Prop :=
  st.a.abs = ss.a ∧ st.a.cur = none ∧ st.b.abs = ss.b ∧ st.b.cur = none ∧ st.xs = ss.xs ∧ st.cap = ss.cap

theorem cwExec_refines (fn : CurryFn) (st : CwState Curry) (ss : CwState Spec.CurryS) (h : CwRel st ss)
    (cmd : CwCmd) :
    CwRel (cwExec (curryCallImpl fn) (fun c => c.result) st cmd).1
          (cwExec (curryCallSpec fn) (fun c => c.result) ss cmd).1 ∧
    (cwExec (curryCallImpl fn) (fun c => c.result) st cmd).2 =
      (cwExec (curryCallSpec fn) (fun c => c.result) ss cmd).2 := by
  obtain ⟨ha, hac, hb, hbc, hx, hcap⟩ := h
  cases cmd with
  | buf cap l => exact ⟨⟨ha, hac, hb, hbc, rfl, rfl⟩, rfl⟩
  | callA l =>
    obtain ⟨r1, r2, r3⟩ := curryCall_refines fn st.a (l.getD st.xs) hac
    simp only [cwExec]
    rw [← ha, ← hx]
    exact ⟨⟨r1, r3, hb, hbc, rfl, hcap⟩, r2⟩
  | callB l =>
    obtain ⟨r1, r2, r3⟩ := curryCall_refines fn st.b (l.getD st.xs) hbc
    simp only [cwExec]
    rw [← hb, ← hx]
    exact ⟨⟨ha, hac, r1, r3, rfl, hcap⟩, r2⟩
  | write i v => exact ⟨⟨ha, hac, hb, hbc, by simp [cwExec, hx], hcap⟩, rfl⟩
  | view => exact ⟨⟨ha, hac, hb, hbc, hx, hcap⟩, by simp [cwExec, hx, hcap]⟩
  | resA => exact ⟨⟨ha, hac, hb, hbc, hx, hcap⟩, by simp [cwExec, ← ha, Curry.abs]⟩
  | resB => exact ⟨⟨ha, hac, hb, hbc, hx, hcap⟩, by simp [cwExec, ← hb, Curry.abs]⟩
  | bad => exact ⟨⟨ha, hac, hb, hbc, hx, hcap⟩, rfl⟩

theorem cw_script_refines (fn : CurryFn) (cmds : List CwCmd) :
    ∀ (st : CwState Curry) (ss : CwState Spec.CurryS) (outs : List String), CwRel st ss →
      (cmds.foldl (fun (acc : CwState Curry × List String) c =>
          ((cwExec (curryCallImpl fn) (fun c => c.result) acc.1 c).1,
           (cwExec (curryCallImpl fn) (fun c => c.result) acc.1 c).2 :: acc.2)) (st, outs)).2 =
      (cmds.foldl (fun (acc : CwState Spec.CurryS × List String) c =>
          ((cwExec (curryCallSpec fn) (fun c => c.result) acc.1 c).1,
           (cwExec (curryCallSpec fn) (fun c => c.result) acc.1 c).2 :: acc.2)) (ss, outs)).2 := by
  induction cmds with
  | nil => intro _ _ _ _; rfl
  | cons c rest ih =>
    intro st ss outs h
    obtain ⟨h1, h2⟩ := cwExec_refines fn st ss h c
    simp only [List.foldl_cons]
    rw [h2]
    exact ih _ _ _ h1

/-! ### no Call is lost or duplicated -/

def Curry.pendingCount (c : Curry) : Nat := (c.pending.map List.length).sum

theorem sum_length_set {β : Type} (l : List (List β)) (t : Nat) (a : β) (rest : List β)
    (h : l[t]? = some (a :: rest)) :
    ((l.set t rest).map List.length).sum + 1 = (l.map List.length).sum := by
  induction l generalizing t with
  | nil => simp at h
  | cons x xs ih =>
    cases t with
    | zero =>
      simp at h; subst h
      simp [List.set]; omega
    | succ j =>
      simp at h
      have := ih j h
      simp only [List.set, List.map_cons, List.sum_cons]; omega

theorem count_step {fn : CurryFn} {c c' : Curry} (st : CStep fn c c') :
    c'.lockOrder.length + c'.pendingCount = c.lockOrder.length + c.pendingCount := by
  cases st with
  | acquire t he =>
    unfold Curry.acquire at he
    split at he
    · rename_i a rest _ hp
      injection he with he; subst he
      have := sum_length_set c.pending t a rest hp
      simp [Curry.pendingCount] at this ⊢; omega
    · cases he
  | advance he =>
    unfold Curry.advance at he
    split at he
    · cases he
    all_goals (injection he with he; subst he; simp [Curry.pendingCount])
  | markDone => rfl

theorem count_reach {fn : CurryFn} {c c' : Curry} (r : CReach fn c c') :
    c'.lockOrder.length + c'.pendingCount = c.lockOrder.length + c.pendingCount := by
  induction r with
  | refl => rfl
  | step _ st ih => rw [count_step st, ih]

/-! ### every goroutine's Calls take the lock in its program order -/

/-- goroutine `t` with script `s` has made a prefix `made` of it, in this order within `lockOrder` -/
def ProgOrder (scripts : List (List (List Int))) (c : Curry) : Prop :=
  ∀ (t : Nat) (s : List (List Int)), scripts[t]? = some s → ∃ (made rest : List (List Int)), c.pending[t]? = some rest ∧ s = made ++ rest ∧ made.Sublist c.lockOrder

theorem progOrder_init (scripts : List (List (List Int))) : ProgOrder scripts (Curry.init scripts) := by
  intro t s hs
  exact ⟨[], s, hs, rfl, List.nil_sublist _⟩

theorem progOrder_step {fn : CurryFn} {scripts : List (List (List Int))} {c c' : Curry}
    (h : ProgOrder scripts c) (st : CStep fn c c') : ProgOrder scripts c' := by
  cases st with
  | acquire t he =>
    unfold Curry.acquire at he
    split at he
    · rename_i a rest _ hp
      injection he with he; subst he
      intro t' s hs
      obtain ⟨made, rest', h1, h2, h3⟩ := h t' s hs
      by_cases htt : t = t'
      · subst htt
        rw [hp] at h1; injection h1 with h1; subst h1
        have hlt : t < c.pending.length := by
          rcases Nat.lt_or_ge t c.pending.length with hl | hl
          · exact hl
          · rw [List.getElem?_eq_none hl] at hp; cases hp
        refine ⟨made ++ [a], rest, by simp [hlt], by simp [h2], ?_⟩
        exact List.Sublist.append h3 (List.Sublist.refl _)
      · refine ⟨made, rest', ?_, h2, h3.trans (List.sublist_append_left _ _)⟩
        simp only
        rw [List.getElem?_set_ne htt]; exact h1
    · cases he
  | advance he =>
    unfold Curry.advance at he
    split at he
    · cases he
    all_goals (injection he with he; subst he; exact h)
  | markDone => exact h

theorem progOrder_reach {fn : CurryFn} {scripts : List (List (List Int))} {c : Curry}
    (r : CReach fn (Curry.init scripts) c) : ProgOrder scripts c := by
  generalize hi : Curry.init scripts = c0 at r
  induction r with
  | refl => subst hi; exact progOrder_init scripts
  | step _ st ih => exact progOrder_step ih st

end FpgoVerif.C20
