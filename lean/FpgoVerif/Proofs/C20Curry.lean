import FpgoVerif.Model.C20
/-! helper lemmas (C20) -/
