import FpgoVerif.Proofs.C02PF
import Mathlib.Algebra.Order.Field.Rat
import Mathlib.Algebra.Order.GroupWithZero.Basic
import Mathlib.Data.Rat.Cast.Order
import Mathlib.Tactic.FieldSimp
import Mathlib.Tactic.Positivity
import Mathlib.Tactic.NormNum
import Mathlib.Tactic.Linarith
import Mathlib.Tactic.Ring
/-! C02 — round-to-nearest-even is idempotent (`RoundIdem`): the value `roundRat` returns is `N · 2^Q` with
    `N ≤ 2^p`, `Q ≥ qmin`, and re-rounding such a value divides exactly.  The exponent arithmetic is done in ℚ
    with integer powers of two. -/
namespace FpgoVerif.C02

/-- `2^x` for an integer exponent, in ℚ -/
noncomputable def P2 (x : Int) : ℚ := (2 : ℚ) ^ x

theorem P2_pos (x : Int) : 0 < P2 x := zpow_pos (by norm_num) x
theorem P2_add (x y : Int) : P2 (x + y) = P2 x * P2 y := zpow_add₀ (by norm_num) x y
theorem P2_sub (x y : Int) : P2 (x - y) = P2 x / P2 y := zpow_sub₀ (by norm_num) x y
theorem P2_le {x y : Int} (h : x ≤ y) : P2 x ≤ P2 y := zpow_le_zpow_right₀ (by norm_num) h
theorem P2_lt_iff {x y : Int} : P2 x < P2 y ↔ x < y := zpow_lt_zpow_iff_right₀ (by norm_num)
theorem P2_nat (n : Nat) : P2 (n : Int) = ((2 ^ n : Nat) : ℚ) := by
  unfold P2; rw [zpow_natCast]; push_cast; rfl
theorem P2_toNat {x : Int} (h : 0 ≤ x) : P2 x = ((2 ^ x.toNat : Nat) : ℚ) := by
  rw [← P2_nat]; congr 1; omega
theorem P2_neg_toNat {x : Int} (h : x < 0) : P2 x = 1 / ((2 ^ (-x).toNat : Nat) : ℚ) := by
  have : x = -(((-x).toNat : Nat) : Int) := by omega
  rw [this]
  unfold P2
  rw [zpow_neg, zpow_natCast]
  have : (-(-((-x).toNat : Int))).toNat = (-x).toNat := by omega
  simp only [Int.neg_neg, Int.toNat_natCast]
  push_cast
  rw [one_div]

/-- `scale` divides the value by `2^x` -/
theorem scale_q (num den : Nat) (x : Int) (hd : 0 < den) :
    0 < (scale num den x).2 ∧
    ((scale num den x).1 : ℚ) / ((scale num den x).2 : ℚ) = (num : ℚ) / (den : ℚ) / P2 x := by
  have hdq : (0 : ℚ) < (den : ℚ) := by exact_mod_cast hd
  unfold scale
  split
  · rename_i hx
    refine ⟨Nat.mul_pos hd (Nat.two_pow_pos _), ?_⟩
    rw [P2_toNat hx]
    push_cast
    field_simp
  · rename_i hx
    refine ⟨hd, ?_⟩
    rw [P2_neg_toNat (by omega)]
    push_cast
    field_simp

theorem log2_q (n : Nat) (hn : 1 ≤ n) : P2 (log2 n) ≤ (n : ℚ) ∧ (n : ℚ) < P2 ((log2 n : Int) + 1) := by
  constructor
  · rw [P2_nat]; exact_mod_cast log2_lb n hn
  · have : ((log2 n : Int) + 1) = ((log2 n + 1 : Nat) : Int) := by push_cast; rfl
    rw [this, P2_nat]; exact_mod_cast log2_ub n

/-- `ratLog2` is the binary exponent: `2^e ≤ num/den < 2^(e+1)` -/
theorem ratLog2_spec (num den : Nat) (hn : 0 < num) (hd : 0 < den) :
    P2 (ratLog2 num den) ≤ (num : ℚ) / den ∧ (num : ℚ) / den < P2 (ratLog2 num den + 1) := by
  have hdq : (0 : ℚ) < (den : ℚ) := by exact_mod_cast hd
  obtain ⟨hnl, hnu⟩ := log2_q num hn
  obtain ⟨hdl, hdu⟩ := log2_q den hd
  obtain ⟨hb, hs⟩ := scale_q num den ((log2 num : Int) - (log2 den : Int)) hd
  have hbq : (0 : ℚ) < ((scale num den ((log2 num : Int) - (log2 den : Int))).2 : ℚ) := by exact_mod_cast hb
  have hp0 := P2_pos ((log2 num : Int) - (log2 den : Int))
  have hpd := P2_pos (log2 den : Int)
  unfold ratLog2
  simp only
  split
  · rename_i hge
    -- a ≥ b : value ≥ 2^e0
    have h1 : (1 : ℚ) ≤ ((scale num den ((log2 num : Int) - (log2 den : Int))).1 : ℚ) /
        ((scale num den ((log2 num : Int) - (log2 den : Int))).2 : ℚ) := by
      rw [le_div_iff₀ hbq, one_mul]; exact_mod_cast hge
    rw [hs, le_div_iff₀ hp0, one_mul] at h1
    refine ⟨h1, ?_⟩
    -- value < 2^(ln+1) / 2^ld
    have : ((log2 num : Int) - (log2 den : Int) + 1) = ((log2 num : Int) + 1) - (log2 den : Int) := by ring
    rw [this, P2_sub, div_lt_div_iff₀ hdq hpd]
    calc (num : ℚ) * P2 (log2 den) ≤ (num : ℚ) * den := by
          apply mul_le_mul_of_nonneg_left hdl; positivity
      _ < P2 ((log2 num : Int) + 1) * den := by
          apply mul_lt_mul_of_pos_right hnu hdq
  · rename_i hlt
    have h1 : ((scale num den ((log2 num : Int) - (log2 den : Int))).1 : ℚ) /
        ((scale num den ((log2 num : Int) - (log2 den : Int))).2 : ℚ) < 1 := by
      rw [div_lt_iff₀ hbq, one_mul]; exact_mod_cast (Nat.lt_of_not_le hlt)
    rw [hs, div_lt_iff₀ hp0, one_mul] at h1
    constructor
    · -- 2^(e0-1) = 2^ln / 2^(ld+1) ≤ value
      have : ((log2 num : Int) - (log2 den : Int) - 1) = (log2 num : Int) - ((log2 den : Int) + 1) := by ring
      rw [this, P2_sub, div_le_div_iff₀ (P2_pos _) hdq]
      calc P2 (log2 num) * den ≤ (num : ℚ) * den := by
            apply mul_le_mul_of_nonneg_right hnl; positivity
        _ ≤ (num : ℚ) * P2 ((log2 den : Int) + 1) := by
            apply mul_le_mul_of_nonneg_left (le_of_lt hdu); positivity
    · have : ((log2 num : Int) - (log2 den : Int) - 1 + 1) = (log2 num : Int) - (log2 den : Int) := by ring
      rw [this]; exact h1

/-- a value below `2^(B+1)` has exponent at most `B` (integer `B`) -/
theorem ratLog2_le_int (num den : Nat) (hn : 0 < num) (hd : 0 < den) (B : Int)
    (h : (num : ℚ) / den < P2 (B + 1)) : ratLog2 num den ≤ B := by
  have := (ratLog2_spec num den hn hd).1
  have hlt : P2 (ratLog2 num den) < P2 (B + 1) := lt_of_le_of_lt this h
  have := P2_lt_iff.mp hlt
  omega

theorem divRNE_exact (I b : Nat) (hb : 0 < b) : divRNE (I * b) b = I := by
  unfold divRNE
  simp only [Nat.mul_div_cancel _ hb, Nat.mul_mod_left]
  have : ¬ (2 * 0 > b ∨ (2 * 0 = b ∧ I % 2 = 1)) := by omega
  rw [if_neg this]

/-- `normFin` keeps the value -/
theorem normFin_value (neg : Bool) (m k : Nat) :
    ∃ m' k', normFin neg m k = .fin neg m' k' ∧ m' * 2 ^ k = m * 2 ^ k' := by
  induction k generalizing m with
  | zero => exact ⟨m, 0, rfl, rfl⟩
  | succ k ih =>
    unfold normFin
    split
    · rename_i hev
      obtain ⟨m', k', h1, h2⟩ := ih (m / 2)
      refine ⟨m', k', h1, ?_⟩
      have hm : m = 2 * (m / 2) := by omega
      calc m' * 2 ^ (k + 1) = (m' * 2 ^ k) * 2 := by ring
        _ = (m / 2 * 2 ^ k') * 2 := by rw [h2]
        _ = (2 * (m / 2)) * 2 ^ k' := by ring
        _ = m * 2 ^ k' := by rw [← hm]
    · exact ⟨m, k + 1, rfl, rfl⟩

/-- facts about the two formats -/
theorem fmt_facts (f : Fmt) (hf : f = f32 ∨ f = f64) : 1 ≤ f.p ∧ f.p ≤ f.bias + 1 ∧ f.qmin ≤ 0 := by
  rcases hf with rfl | rfl <;> refine ⟨by decide +kernel, by decide +kernel, by decide +kernel⟩

/-- re-rounding a value `N · 2^Q` with `N ≤ 2^p`, `Q ≥ qmin` (below the overflow threshold) returns the value -/
theorem reround (f : Fmt) (hf : f = f32 ∨ f = f64) (neg : Bool) (m k N : Nat) (Q : Int) (hm : 0 < m)
    (hV : (m : ℚ) / ((2 ^ k : Nat) : ℚ) = (N : ℚ) * P2 Q) (hN : N ≤ 2 ^ f.p) (hQ : f.qmin ≤ Q)
    (hfin : (m : ℚ) / ((2 ^ k : Nat) : ℚ) < P2 ((f.bias : Int) + 1)) :
    sameFloat (roundRat f neg m (2 ^ k)) (.fin neg m k) = true := by
  obtain ⟨hp1, hpb, hqm⟩ := fmt_facts f hf
  have hden : 0 < 2 ^ k := Nat.two_pow_pos k
  have hdenq : (0 : ℚ) < ((2 ^ k : Nat) : ℚ) := by exact_mod_cast hden
  have hPQ := P2_pos Q
  have hNq : (N : ℚ) ≤ P2 (f.p : Int) := by rw [P2_nat]; exact_mod_cast hN
  -- exponent of the value
  have he1 : ratLog2 m (2 ^ k) ≤ (f.p : Int) + Q := by
    apply ratLog2_le_int m (2 ^ k) hm hden
    rw [hV]
    calc (N : ℚ) * P2 Q ≤ P2 (f.p : Int) * P2 Q := mul_le_mul_of_nonneg_right hNq (le_of_lt hPQ)
      _ = P2 ((f.p : Int) + Q) := (P2_add _ _).symm
      _ < P2 ((f.p : Int) + Q + 1) := P2_lt_iff.mpr (by omega)
  have he2 : N < 2 ^ f.p → ratLog2 m (2 ^ k) ≤ (f.p : Int) + Q - 1 := by
    intro hlt
    apply ratLog2_le_int m (2 ^ k) hm hden
    rw [hV]
    have : (N : ℚ) < P2 (f.p : Int) := by rw [P2_nat]; exact_mod_cast hlt
    calc (N : ℚ) * P2 Q < P2 (f.p : Int) * P2 Q := mul_lt_mul_of_pos_right this hPQ
      _ = P2 ((f.p : Int) + Q) := (P2_add _ _).symm
      _ = P2 ((f.p : Int) + Q - 1 + 1) := by congr 1; ring
  unfold roundRat
  rw [if_neg (by omega : ¬ m = 0)]
  simp only
  generalize ratLog2 m (2 ^ k) = e' at he1 he2
  generalize hq' : max (e' - ((f.p : Int) - 1)) f.qmin = q'
  -- the quotient value / 2^q' is a natural number
  have hI : ∃ I : Nat, (I : ℚ) = (N : ℚ) * P2 Q / P2 q' := by
    by_cases hlt : N < 2 ^ f.p
    · have h2 := he2 hlt
      have hle : q' ≤ Q := by omega
      refine ⟨N * 2 ^ (Q - q').toNat, ?_⟩
      push_cast
      rw [mul_div_assoc, ← P2_sub, P2_toNat (by omega : 0 ≤ Q - q')]
      push_cast; rfl
    · have hNe : N = 2 ^ f.p := by omega
      by_cases hle : q' ≤ Q
      · refine ⟨N * 2 ^ (Q - q').toNat, ?_⟩
        push_cast
        rw [mul_div_assoc, ← P2_sub, P2_toNat (by omega : 0 ≤ Q - q')]
        push_cast; rfl
      · have hq1 : q' = Q + 1 := by omega
        refine ⟨2 ^ (f.p - 1), ?_⟩
        have hNq' : (N : ℚ) = P2 (f.p : Int) := by rw [P2_nat, hNe]
        rw [hNq', ← P2_add, ← P2_sub, hq1]
        have : ((f.p : Int) + Q - (Q + 1)) = ((f.p - 1 : Nat) : Int) := by omega
        rw [this, P2_nat]
  obtain ⟨I, hI⟩ := hI
  obtain ⟨hb, hs⟩ := scale_q m (2 ^ k) q' hden
  have hbq : (0 : ℚ) < ((scale m (2 ^ k) q').2 : ℚ) := by exact_mod_cast hb
  have hab : (scale m (2 ^ k) q').1 = I * (scale m (2 ^ k) q').2 := by
    have : ((scale m (2 ^ k) q').1 : ℚ) = (I : ℚ) * ((scale m (2 ^ k) q').2 : ℚ) := by
      rw [hI, ← hV, ← hs]; field_simp
    exact_mod_cast this
  rw [hab, divRNE_exact I _ hb]
  have hIV : (I : ℚ) * P2 q' = (m : ℚ) / ((2 ^ k : Nat) : ℚ) := by
    rw [hI, hV]; field_simp [ne_of_gt (P2_pos q')]
  split
  · rename_i hq0
    -- integer quantum
    have hv : ((I * 2 ^ q'.toNat : Nat) : ℚ) = (m : ℚ) / ((2 ^ k : Nat) : ℚ) := by
      rw [← hIV, P2_toNat hq0]; push_cast; rfl
    have hnov : ¬ (I * 2 ^ q'.toNat ≥ 2 ^ (f.bias + 1)) := by
      intro hge
      have : ((2 ^ (f.bias + 1) : Nat) : ℚ) ≤ ((I * 2 ^ q'.toNat : Nat) : ℚ) := by exact_mod_cast hge
      rw [hv] at this
      have h2 : P2 ((f.bias : Int) + 1) = ((2 ^ (f.bias + 1) : Nat) : ℚ) := by
        have : ((f.bias : Int) + 1) = ((f.bias + 1 : Nat) : Int) := by push_cast; rfl
        rw [this, P2_nat]
      rw [h2] at hfin
      linarith
    rw [if_neg hnov]
    have heq : I * 2 ^ q'.toNat * 2 ^ k = m := by
      have : ((I * 2 ^ q'.toNat * 2 ^ k : Nat) : ℚ) = (m : ℚ) := by
        push_cast
        push_cast at hv
        rw [hv]; field_simp
      exact_mod_cast this
    simp [sameFloat, heq]
  · rename_i hq0
    obtain ⟨m'', k'', hn1, hn2⟩ := normFin_value neg I (-q').toNat
    rw [hn1]
    have hq0' : q' < 0 := by omega
    have hcross : m'' * 2 ^ k = m * 2 ^ k'' := by
      have h1 : (I : ℚ) = (m : ℚ) / ((2 ^ k : Nat) : ℚ) * ((2 ^ (-q').toNat : Nat) : ℚ) := by
        rw [← hIV, P2_neg_toNat hq0']; field_simp
      have h2 : ((m'' * 2 ^ (-q').toNat : Nat) : ℚ) = ((I * 2 ^ k'' : Nat) : ℚ) := by exact_mod_cast hn2
      have : ((m'' * 2 ^ k : Nat) : ℚ) = ((m * 2 ^ k'' : Nat) : ℚ) := by
        push_cast at h2 ⊢
        rw [h1] at h2
        have hj : (0 : ℚ) < (2 : ℚ) ^ (-q').toNat := by positivity
        have hk : (0 : ℚ) < (2 : ℚ) ^ k := by positivity
        push_cast at h2
        field_simp at h2
        nlinarith [h2]
      exact_mod_cast this
    simp only [sameFloat, hcross, decide_true, Bool.true_and, beq_self_eq_true, Bool.or_true]

/-- what `roundRat` returns: ±Inf, or `N · 2^Q` with `N ≤ 2^p`, `Q ≥ qmin`, below the overflow threshold -/
theorem roundRat_shape (f : Fmt) (hf : f = f32 ∨ f = f64) (neg : Bool) (num den : Nat) (hn : 0 < num) (hd : 0 < den) :
    roundRat f neg num den = .inf neg ∨
    ∃ (m k N : Nat) (Q : Int), roundRat f neg num den = .fin neg m k ∧
      (m : ℚ) / ((2 ^ k : Nat) : ℚ) = (N : ℚ) * P2 Q ∧ N ≤ 2 ^ f.p ∧ f.qmin ≤ Q ∧
      (m : ℚ) / ((2 ^ k : Nat) : ℚ) < P2 ((f.bias : Int) + 1) := by
  obtain ⟨hp1, hpb, hqm⟩ := fmt_facts f hf
  obtain ⟨_, hub⟩ := ratLog2_spec num den hn hd
  unfold roundRat
  rw [if_neg (by omega : ¬ num = 0)]
  simp only
  generalize ratLog2 num den = e at hub
  generalize hq : max (e - ((f.p : Int) - 1)) f.qmin = q
  obtain ⟨hb, hs⟩ := scale_q num den q hd
  have hbq : (0 : ℚ) < ((scale num den q).2 : ℚ) := by exact_mod_cast hb
  -- N ≤ 2^p
  have hN : divRNE (scale num den q).1 (scale num den q).2 ≤ 2 ^ f.p := by
    apply divRNE_le_of _ _ _ hb
    have h1 : ((scale num den q).1 : ℚ) / ((scale num den q).2 : ℚ) < P2 (f.p : Int) := by
      rw [hs]
      calc (num : ℚ) / den / P2 q < P2 (e + 1) / P2 q := div_lt_div_of_pos_right hub (P2_pos q)
        _ = P2 (e + 1 - q) := (P2_sub _ _).symm
        _ ≤ P2 (f.p : Int) := P2_le (by omega)
    rw [div_lt_iff₀ hbq, P2_nat] at h1
    have : (scale num den q).1 < 2 ^ f.p * (scale num den q).2 := by exact_mod_cast h1
    omega
  generalize divRNE (scale num den q).1 (scale num den q).2 = N at hN
  split
  · rename_i hq0
    split
    · left; rfl
    · rename_i hnov
      right
      refine ⟨N * 2 ^ q.toNat, 0, N, q, rfl, ?_, hN, by omega, ?_⟩
      · rw [P2_toNat hq0]; push_cast; ring
      · have hlt : N * 2 ^ q.toNat < 2 ^ (f.bias + 1) := by omega
        have h2 : P2 ((f.bias : Int) + 1) = ((2 ^ (f.bias + 1) : Nat) : ℚ) := by
          have : ((f.bias : Int) + 1) = ((f.bias + 1 : Nat) : Int) := by push_cast; rfl
          rw [this, P2_nat]
        rw [h2]
        have : ((N * 2 ^ q.toNat : Nat) : ℚ) < ((2 ^ (f.bias + 1) : Nat) : ℚ) := by exact_mod_cast hlt
        simpa using this
  · rename_i hq0
    right
    have hq0' : q < 0 := by omega
    obtain ⟨m, k, h1, h2⟩ := normFin_value neg N (-q).toNat
    have hk : (0 : ℚ) < ((2 ^ k : Nat) : ℚ) := by positivity
    have hj : (0 : ℚ) < ((2 ^ (-q).toNat : Nat) : ℚ) := by positivity
    have hval : (m : ℚ) / ((2 ^ k : Nat) : ℚ) = (N : ℚ) * P2 q := by
      have h2q : ((m * 2 ^ (-q).toNat : Nat) : ℚ) = ((N * 2 ^ k : Nat) : ℚ) := by exact_mod_cast h2
      rw [P2_neg_toNat hq0', div_eq_iff (ne_of_gt hk)]
      push_cast at h2q ⊢
      field_simp
      linarith
    refine ⟨m, k, N, q, h1, hval, hN, by omega, ?_⟩
    rw [hval]
    have hNq : (N : ℚ) ≤ P2 (f.p : Int) := by rw [P2_nat]; exact_mod_cast hN
    calc (N : ℚ) * P2 q ≤ P2 (f.p : Int) * P2 q := mul_le_mul_of_nonneg_right hNq (le_of_lt (P2_pos q))
      _ = P2 ((f.p : Int) + q) := (P2_add _ _).symm
      _ < P2 ((f.bias : Int) + 1) := P2_lt_iff.mpr (by omega)

theorem roundRat_zero (f : Fmt) (neg : Bool) (den : Nat) : roundRat f neg 0 den = .fin neg 0 0 := by
  unfold roundRat; simp

/-- Round-to-nearest-even is idempotent. -/
theorem roundRat_idem (f : Fmt) (hf : f = f32 ∨ f = f64) : RoundIdem f := by
  intro neg num den hd
  by_cases hn : num = 0
  · subst hn
    rw [roundRat_zero]
    simp only [FVal.roundTo, roundNE, roundRat_zero]
    simp [sameFloat]
  · rcases roundRat_shape f hf neg num den (Nat.pos_of_ne_zero hn) hd with h | ⟨m, k, N, Q, h, hV, hN, hQ, hfin⟩
    · rw [h]; simp [FVal.roundTo, sameFloat]
    · rw [h]
      simp only [FVal.roundTo, roundNE]
      by_cases hm : m = 0
      · subst hm
        rw [roundRat_zero]
        simp [sameFloat]
      · exact reround f hf neg m k N Q (Nat.pos_of_ne_zero hm) hV hN hQ hfin

/-- `goStrconv.parseFloat` satisfies the documented contract of `strconv.ParseFloat`, for both bit sizes. -/
theorem goStrconv_parseFloat32_contract : ParseFloatContract f32 (goStrconv.parseFloat 32) :=
  goParseFloat_contract_of 32 f32 (Or.inl ⟨rfl, rfl⟩) (fun _ => roundRat_idem f32 (Or.inl rfl))

end FpgoVerif.C02
