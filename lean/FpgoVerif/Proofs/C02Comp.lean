import FpgoVerif.Proofs.C02Float
/-! C02 — a float clause that goes through another integer conversion and then narrows its result with an
    integer guard (`ToUintptr` ← float via `ToUint64`). -/
namespace FpgoVerif.C02

def compBodyOK (tbl : List Case) (tgt : Ty) (is32 : Bool) (body : Body) : Bool :=
  match tgt.range, tgt.must with
  | some (lo, hi), some (mlo, mhi) =>
    match body with
    | .bind (.self mi) (some g) ⟨.cast t .v, .fromCall⟩ (some ⟨_, .overflow⟩) =>
      t == tgt && fltBodyOK tbl mi is32 (lookup tbl mi (.ty (fltSrc is32))) &&
      (match mi.range, mi.must, intBounds g with
       | some (ilo, ihi), some (imlo, imhi), some (l, h) =>
         ivOK ilo ihi l h lo hi mlo mhi && decide (imlo ≤ mlo ∧ mhi ≤ imhi)
       | _, _, _ => false)
    | _ => false
  | _, _ => false

theorem compBodyOK_sound (sc : Strconv) (tbl : List Case) (n : Nat) (tgt : Ty) (is32 : Bool)
    (hk : compBodyOK tbl tgt is32 (lookup tbl tgt (.ty (fltSrc is32))) = true)
    (x : FVal) (hw : x.wf (fltP is32)) :
    specNum tgt (mkF is32 x) (conv sc tbl (n + 3) tgt (.ty (fltSrc is32)) (mkF is32 x)) = true := by
  unfold compBodyOK at hk
  cases hr : tgt.range with
  | none => simp [hr] at hk
  | some p =>
    obtain ⟨lo, hi⟩ := p
    cases hm : tgt.must with
    | none => simp [hr, hm] at hk
    | some q =>
      obtain ⟨mlo, mhi⟩ := q
      simp only [hr, hm] at hk
      rw [specNum_flt hr hm, conv_succ]
      generalize hb : lookup tbl tgt (.ty (fltSrc is32)) = body at hk
      match body, hk with
      | .bind (.self mi) (some g) ⟨.cast t .v, .fromCall⟩ (some ⟨fe, .overflow⟩), hk =>
        simp only [Bool.and_eq_true, beq_iff_eq] at hk
        obtain ⟨⟨rfl, hin⟩, hchk⟩ := hk
        cases hir : mi.range with
        | none => simp [hir] at hchk
        | some ip =>
          obtain ⟨ilo, ihi⟩ := ip
          cases him : mi.must with
          | none => simp [hir, him] at hchk
          | some iq =>
            obtain ⟨imlo, imhi⟩ := iq
            cases hg : intBounds g with
            | none => simp [hir, him, hg] at hchk
            | some lh =>
              obtain ⟨l, h⟩ := lh
              simp only [hir, him, hg, Bool.and_eq_true, decide_eq_true_eq] at hchk
              obtain ⟨hiv, hsub1, hsub2⟩ := hchk
              have hinner := fltBodyOK_sound sc tbl n mi is32 hin x hw
              rw [specNum_flt hir him] at hinner
              simp only [evalBody]
              generalize conv sc tbl (n + 2) mi (.ty (fltSrc is32)) (mkF is32 x) = r0 at hinner
              obtain ⟨v0, e0⟩ := r0
              simp only [Bool.and_eq_true, Bool.or_eq_true, bne_iff_ne, ne_eq, beq_iff_eq, Bool.not_eq_true'] at hinner
              obtain ⟨ha0, hb0⟩ := hinner
              by_cases he : e0 = .ok
              · subst he
                simp at ha0
                cases x with
                | nan => simp at ha0
                | inf s => simp at ha0
                | fin s m k =>
                  simp at ha0
                  obtain ⟨rfl, hz1, hz2⟩ := ha0
                  have ⟨hpa, hpb⟩ := ivOK_sound hiv (roundHalfAway s m k) hz1 hz2
                  have hp := pow2_pos k
                  rw [intBounds_sound g l h _ hg]
                  cases hpass : passB l h (roundHalfAway s m k) with
                  | true =>
                    have hz := hpa hpass
                    simp [evalR, errOf, evalE, castTo, hr, wrap_of_mem lo hi _ hz.1 hz.2, hz.1, hz.2]
                  | false =>
                    simp [evalR, errOf]
                    by_cases hf1 : mlo * 2 ^ k ≤ sgn s m
                    · by_cases hf2 : sgn s m ≤ mhi * 2 ^ k
                      · have := hpb (rha_ge s m k mlo hf1) (rha_le s m k mhi hf2)
                        simp [hpass] at this
                      · omega
                    · omega
              · -- the inner conversion failed: so does the outer one, and the value did not fit
                have herr : ∀ r : Res, (r = evalR v0 e0 ⟨.cast t .v, .fromCall⟩ ∨ r = evalR v0 e0 ⟨fe, .overflow⟩ ∨ r = Res.garbage) →
                    r.err ≠ .ok := by
                  intro r hr'
                  rcases hr' with rfl | rfl | rfl <;> simp [evalR, errOf, Res.garbage, he]
                have : (match evalC v0 g with
                    | some true => evalR v0 e0 ⟨.cast t .v, .fromCall⟩
                    | some false => evalR v0 e0 ⟨fe, .overflow⟩
                    | none => Res.garbage).err ≠ .ok := by
                  apply herr
                  cases evalC v0 g with
                  | none => simp
                  | some b => cases b <;> simp
                cases x with
                | nan => simp; exact this
                | inf s => simp; exact this
                | fin s m k =>
                  have hnf : ¬ (mlo * 2 ^ k ≤ sgn s m ∧ sgn s m ≤ mhi * 2 ^ k) := by
                    intro ⟨hf1, hf2⟩
                    have hp := pow2_pos k
                    have a1 : imlo * 2 ^ k ≤ mlo * 2 ^ k := Int.mul_le_mul_of_nonneg_right hsub1 (Int.le_of_lt hp)
                    have a2 : mhi * 2 ^ k ≤ imhi * 2 ^ k := Int.mul_le_mul_of_nonneg_right hsub2 (Int.le_of_lt hp)
                    rcases hb0 with hb0 | hb0
                    · simp at hb0; omega
                    · exact he hb0
                  simp
                  refine ⟨Or.inl this, Or.inl ?_⟩
                  omega

end FpgoVerif.C02
