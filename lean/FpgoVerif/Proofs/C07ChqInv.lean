import FpgoVerif.Model.C07Chq
/-! Invariant of the ChannelQueue-alone transition system. -/
namespace FpgoVerif.C07.Chq

structure Inv (s : CS) : Prop where
  fifo : s.delivered ++ s.buf = s.accepted
  bound : s.buf.length ≤ s.c
  blockedFull : s.sendq ≠ [] → s.c ≤ s.buf.length
  waitEmpty : 0 < s.recvWaiting → s.buf = [] ∧ s.sendq = []

theorem init_inv (c : Nat) : Inv (init c) := by
  refine ⟨rfl, Nat.zero_le _, ?_, ?_⟩ <;> simp [init]

theorem step_inv {s s' : CS} {a : Act} (h : step s a = some s') (hi : Inv s) : Inv s' := by
  obtain ⟨fifo, bound, blockedFull, waitEmpty⟩ := hi
  cases a with
  | sendBuf v =>
    simp only [step] at h
    split at h <;> simp at h
    rename_i hg; subst h
    have hq : s.sendq = [] := by
      cases hs : s.sendq with
      | nil => rfl
      | cons a t => have := blockedFull (by simp [hs]); omega
    refine ⟨by simp [← fifo], by simp; omega, ?_, ?_⟩
    · intro hne; exact absurd hq hne
    · intro hw; simp [hg.2] at hw
  | sendHandoff v =>
    simp only [step] at h
    split at h <;> simp at h
    rename_i hg; subst h
    obtain ⟨hb, hq⟩ := waitEmpty hg
    refine ⟨by simp [hb] at fifo ⊢; rw [fifo], bound, blockedFull, ?_⟩
    intro _; exact ⟨hb, hq⟩
  | sendBlock v =>
    simp only [step] at h
    split at h <;> simp at h
    rename_i hg; subst h
    refine ⟨fifo, bound, fun _ => hg.1, ?_⟩
    intro hw; simp [hg.2] at hw
  | offerFull v =>
    simp only [step] at h
    split at h <;> simp at h
    subst h; exact ⟨fifo, bound, blockedFull, waitEmpty⟩
  | putTimeout v =>
    simp only [step] at h
    split at h <;> simp at h
    rename_i hg; subst h
    refine ⟨fifo, bound, ?_, ?_⟩
    · intro _; exact blockedFull (by intro e; simp [e] at hg)
    · intro hw; have := (waitEmpty hw).2; simp [this] at hg
  | recvBuf =>
    simp only [step] at h
    split at h
    · rename_i x rest hb hq
      simp at h; subst h
      have hw : s.recvWaiting = 0 := by
        cases hn : s.recvWaiting with
        | zero => rfl
        | succ n => have := (waitEmpty (by omega)).1; simp [hb] at this
      refine ⟨by simp [hb] at fifo ⊢; rw [← fifo], by simp [hb] at bound ⊢; omega, ?_, ?_⟩
      · intro hne; exact absurd hq hne
      · intro h0; simp [hw] at h0
    · rename_i x rest w ws hb hq
      simp at h; subst h
      have hw : s.recvWaiting = 0 := by
        cases hn : s.recvWaiting with
        | zero => rfl
        | succ n => have := (waitEmpty (by omega)).1; simp [hb] at this
      have hfull := blockedFull (by simp [hq])
      refine ⟨by simp [hb] at fifo ⊢; rw [← fifo]; simp, by simp [hb] at bound ⊢; omega, ?_, ?_⟩
      · intro _; simp [hb] at hfull ⊢; omega
      · intro h0; simp [hw] at h0
    · simp at h
  | recvFromSender =>
    simp only [step] at h
    split at h
    · rename_i w ws hb hq
      simp at h; subst h
      have hw : s.recvWaiting = 0 := by
        cases hn : s.recvWaiting with
        | zero => rfl
        | succ n => have := (waitEmpty (by omega)).2; simp [hq] at this
      have hfull := blockedFull (by simp [hq])
      refine ⟨by simp [hb] at fifo ⊢; rw [fifo], bound, fun _ => hfull, ?_⟩
      intro h0; simp [hw] at h0
    · simp at h
  | recvWait =>
    simp only [step] at h
    split at h <;> simp at h
    rename_i hg; subst h
    exact ⟨fifo, bound, blockedFull, fun _ => hg⟩
  | pollEmpty =>
    simp only [step] at h
    split at h <;> simp at h
    subst h; exact ⟨fifo, bound, blockedFull, waitEmpty⟩
  | takeTimeout =>
    simp only [step] at h
    split at h <;> simp at h
    rename_i hg; subst h
    exact ⟨fifo, bound, blockedFull, fun _ => waitEmpty hg⟩

theorem step_cap {s s' : CS} {a : Act} (h : step s a = some s') : s'.c = s.c := by
  cases a <;> simp only [step] at h <;> (repeat' split at h) <;> simp at h <;> (try subst h) <;> rfl

theorem run_inv (acts : List Act) : ∀ {s s' : CS}, run s acts = some s' → Inv s → Inv s' ∧ s'.c = s.c := by
  induction acts with
  | nil => intro s s' h hi; simp [run] at h; subst h; exact ⟨hi, rfl⟩
  | cons a as ih =>
    intro s s' h hi
    simp only [run] at h
    cases hs : step s a with
    | none => simp [hs] at h
    | some s1 =>
      simp [hs] at h
      obtain ⟨i1, c1⟩ := ih h (step_inv hs hi)
      exact ⟨i1, by rw [c1, step_cap hs]⟩

theorem reach_inv {c : Nat} {s : CS} (h : Reach c s) : Inv s ∧ s.c = c := by
  obtain ⟨acts, h⟩ := h
  simpa [init] using run_inv acts h (init_inv c)

end FpgoVerif.C07.Chq
