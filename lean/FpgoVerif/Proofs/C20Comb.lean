import FpgoVerif.Model.C20
/-! Helper lemmas for the combinator part of C20 (Compose/Pipe folds, Trampoline iterates). -/

namespace FpgoVerif.C20

variable {α : Type}

/-- right fold in Kleisli form: innermost = last function -/
def foldrK (fs : List (Fn α)) (s : List α) : Res (List α) := fs.foldr (fun f acc => acc.bind f) (.ok s)
/-- left fold in Kleisli form: innermost = first function -/
def foldlK (fs : List (Fn α)) (s : List α) : Res (List α) := fs.foldl (fun acc f => acc.bind f) (.ok s)

theorem foldl_bind_panic (fs : List (Fn α)) :
    fs.foldl (fun acc f => acc.bind f) (Res.panic : Res (List α)) = .panic := by
  induction fs with
  | nil => rfl
  | cons f rest ih => simpa using ih

theorem foldl_bind_from (fs : List (Fn α)) (r : Res (List α)) :
    fs.foldl (fun acc f => acc.bind f) r = r.bind (fun x => foldlK fs x) := by
  cases r with
  | ok v => rfl
  | panic => simpa using foldl_bind_panic fs

theorem compose_eq_foldr (fs : List (Fn α)) (s : List α) (h : fs ≠ []) :
    compose fs s = foldrK fs s := by
  induction fs with
  | nil => exact absurd rfl h
  | cons f rest ih =>
    cases rest with
    | nil => simp [compose, foldrK]
    | cons g rest' =>
      simp only [compose, foldrK, List.foldr_cons]
      rw [ih (by simp)]
      rfl

theorem pipe_eq_foldl (fs : List (Fn α)) (s : List α) (h : fs ≠ []) :
    pipe fs s = foldlK fs s := by
  induction hn : fs.length generalizing fs with
  | zero => exact absurd (List.length_eq_zero_iff.mp hn) h
  | succ n ih =>
    obtain ⟨init, lastf, rfl⟩ : ∃ init l, fs = init ++ [l] :=
      ⟨fs.dropLast, fs.getLast h, (List.dropLast_concat_getLast h).symm⟩
    have hlen : init.length = n := by simp at hn; exact hn
    rw [pipe]
    split
    · rename_i h0; simp at h0
    · rename_i m hm
      have hmn : m = n := by simp at hm; omega
      subst hmn
      have hget : (init ++ [lastf])[m]'(by simp; omega) = lastf := by
        rw [List.getElem_append_right (by omega)]; simp [hlen]
      simp only [hget]
      by_cases h0 : m = 0
      · simp only [h0, if_true]
        have : init = [] := List.length_eq_zero_iff.mp (by omega)
        subst this; simp [foldlK]
      · simp only [h0, if_false]
        have htake : (init ++ [lastf]).take m = init := by
          rw [List.take_append_of_le_length (by omega), List.take_of_length_le (by omega)]
        rw [htake, ih init (by intro e; subst e; simp at hlen; omega) hlen]
        simp [foldlK, List.foldl_append]

theorem pipe_nil (s : List α) : pipe ([] : List (Fn α)) s = .panic := by
  rw [pipe]; split
  · rfl
  · rename_i h; simp at h

theorem foldrK_append (fs gs : List (Fn α)) (s : List α) :
    foldrK (fs ++ gs) s = (foldrK gs s).bind (fun x => foldrK fs x) := by
  induction fs with
  | nil => simp [foldrK]
  | cons f rest ih =>
    simp only [foldrK, List.cons_append, List.foldr_cons] at ih ⊢
    rw [ih, Res.bind_assoc]

theorem foldlK_append (fs gs : List (Fn α)) (s : List α) :
    foldlK (fs ++ gs) s = (foldlK fs s).bind (fun x => foldlK gs x) := by
  simp only [foldlK, List.foldl_append]
  exact foldl_bind_from gs _

theorem foldlK_reverse (fs : List (Fn α)) (s : List α) : foldlK fs.reverse s = foldrK fs s := by
  simp [foldlK, foldrK, List.foldl_reverse]

/-! ### Trampoline -/

theorem iter_succ' (fn : List α → StepOut α) (s : List α) (n : Nat) :
    Spec.iter fn s (n + 1) = Spec.iter fn (fn s).result n := by
  induction n with
  | zero => rfl
  | succ n ih => simp only [Spec.iter] at ih ⊢; rw [ih]

theorem stops_succ (fn : List α → StepOut α) (s : List α) (n : Nat) :
    Spec.stops fn s (n + 1) = Spec.stops fn (fn s).result n := by
  simp only [Spec.stops, iter_succ']

end FpgoVerif.C20
