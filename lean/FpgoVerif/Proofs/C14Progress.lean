import FpgoVerif.Proofs.C14Inv
/-! Progress of the coroutine system: a caller is `waiting` iff exactly one of its requests/answers is on the way
    (queued in opCh, taken and not yet answered, or in its resultCh); hence, while any caller still has a request
    to make or an answer to get, some atom is enabled (nothing is lost by a stuck system). -/
namespace FpgoVerif.C14

/-- outstanding items of caller i: queued requests + the op being answered + answers in its resultCh -/
def outst (s : St) (i : Nat) : Nat := (chOf i s.opCh).length + (inflY i s.inflight).length + (s.resCh i).length

def Inv2 (s : St) : Prop := ∀ i, outst s i = if s.waiting i = true then 1 else 0

theorem chOf_cons (k : Nat) (c : Option Nat) (x : Nat) (rest : List (Option Nat × Nat)) :
    (chOf k ((c, x) :: rest)).length = (if c = some k then 1 else 0) + (chOf k rest).length := by
  by_cases hc : c = some k
  · subst hc; simp [chOf]; omega
  · simp [chOf, hc]

theorem inflY_len (k : Nat) (c : Option Nat) (x y : Nat) :
    (inflY k (some (c, x, y))).length = if c = some k then 1 else 0 := by
  cases c with
  | none => simp [inflY]
  | some j =>
    by_cases hj : j = k
    · subst hj; simp [inflY]
    · have : ¬ (some j = some k) := by intro h; exact hj (Option.some.inj h)
      simp [inflY, hj, this]

theorem inv2_init (script : Nat → List Nat) (sv : Option Nat) : Inv2 (init script sv) := by
  intro i
  cases sv <;> simp [init, outst, chOf, inflY]

theorem inv2_step {gen cap s s'} (a : Act) (h : step gen cap s a = some s') (hi : Inv2 s) : Inv2 s' := by
  intro k
  have hk := hi k
  unfold outst at hk ⊢
  cases a with
  | send i =>
    simp only [step] at h
    split at h
    · rename_i x rest hp
      split at h
      · rename_i hg
        simp only [Option.some.injEq] at h; subst h
        simp only [chOf_append, List.length_append, updB]
        by_cases hki : k = i
        · subst hki
          have hw0 := hg.1
          rw [hw0] at hk
          simp only [Bool.false_eq_true, if_false] at hk
          have h1 : (chOf k [(some k, x)]).length = 1 := by simp [chOf]
          simp only [h1, if_true]
          omega
        · have : chOf k [(some i, x)] = [] := by
            simp [chOf]; intro h; exact hki h.symm
          simp [this, hki]
          exact hk
      · simp at h
    · simp at h
  | take =>
    simp only [step] at h
    split at h
    · rename_i c x rest hinf hop
      simp only [Option.some.injEq] at h; subst h
      rw [hop, hinf, chOf_cons] at hk
      simp only [inflY_len]
      simp [inflY] at hk
      omega
    · simp at h
  | answer =>
    simp only [step] at h
    split at h
    · rename_i i x y hinf
      simp only [Option.some.injEq] at h; subst h
      rw [hinf, inflY_len] at hk
      simp only [updL]
      by_cases hki : k = i
      · subst hki; simp [inflY] at hk ⊢; omega
      · have : ¬ (some i = some k) := by intro h; exact hki (Option.some.inj h).symm
        simp [this, hki, inflY] at hk ⊢; exact hk
    · rename_i x y hinf
      simp only [Option.some.injEq] at h; subst h
      rw [hinf] at hk
      simpa [inflY] using hk
    · simp at h
  | recv i =>
    simp only [step] at h
    split at h
    · rename_i y rest hr
      split at h
      · rename_i hw
        simp only [Option.some.injEq] at h; subst h
        simp only [updL, updB]
        by_cases hki : k = i
        · subst hki
          rw [hr, hw] at hk
          simp only [List.length_cons, if_true] at hk
          simp only [if_true, Bool.false_eq_true, if_false]
          omega
        · simp [hki]; exact hk
      · simp at h
    · simp at h

theorem inv2_reach {gen cap script sv s} (h : Reach gen cap script sv s) : Inv2 s := by
  induction h with
  | init => exact inv2_init script sv
  | step a _ hs ih => exact inv2_step a hs ih

theorem progress {gen cap s} (hi : Inv2 s) (hcap : 0 < cap)
    (hw : ∃ i, s.pending i ≠ [] ∨ s.waiting i = true) : ∃ a s', step gen cap s a = some s' := by
  cases hinf : s.inflight with
  | some o =>
    obtain ⟨c, x, y⟩ := o
    cases c with
    | some i => exact ⟨.answer, by simp only [step, hinf]; exact ⟨_, rfl⟩⟩
    | none => exact ⟨.answer, by simp only [step, hinf]; exact ⟨_, rfl⟩⟩
  | none =>
    cases hop : s.opCh with
    | cons o rest =>
      obtain ⟨c, x⟩ := o
      exact ⟨.take, by simp only [step, hinf, hop]; exact ⟨_, rfl⟩⟩
    | nil =>
      obtain ⟨i, hi1⟩ := hw
      have hk := hi i
      unfold outst at hk
      rw [hop, hinf] at hk
      by_cases hwi : s.waiting i = true
      · simp [chOf, inflY, hwi] at hk
        cases hr : s.resCh i with
        | nil => rw [hr] at hk; simp at hk
        | cons y rest => exact ⟨.recv i, by simp only [step, hr, hwi, if_true]; exact ⟨_, rfl⟩⟩
      · have hwf : s.waiting i = false := by simpa using hwi
        rcases hi1 with hp | hp
        · cases hpp : s.pending i with
          | nil => exact absurd hpp hp
          | cons x rest =>
            exact ⟨.send i, by simp only [step, hpp, hwf, hop, List.length_nil, true_and, hcap, if_true]; exact ⟨_, rfl⟩⟩
        · exact absurd hp hwi

end FpgoVerif.C14
