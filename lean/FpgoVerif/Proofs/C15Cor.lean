import FpgoVerif.Proofs.C15CorStep0
import FpgoVerif.Proofs.C15CorStep1
import FpgoVerif.Proofs.C15CorStep2
import FpgoVerif.Proofs.C15CorStep3
import FpgoVerif.Proofs.C15CorStep4
import FpgoVerif.Proofs.C15CorStep5
import FpgoVerif.Proofs.C15CorStep6
import FpgoVerif.Proofs.C15CorStep7
/-! Cor system: assembly of the per-program-counter preservation lemmas (C15CorStep*.lean, built in
    parallel), reachability, progress. -/
namespace FpgoVerif.C15.Co

theorem inv_spawn {s s' pc} (h : spawn s pc = some s') (hi : Inv s) : Inv s' := by
  have hcover : pcGroup pc = 0 ∨ pcGroup pc = 1 ∨ pcGroup pc = 2 ∨ pcGroup pc = 3 ∨ pcGroup pc = 4 ∨ pcGroup pc = 5 ∨ pcGroup pc = 6 ∨ pcGroup pc = 7 := by cases pc <;> simp [pcGroup]
  rcases hcover with hg | hg | hg | hg | hg | hg | hg | hg
  · exact inv_spawn_0 hg h hi
  · exact inv_spawn_1 hg h hi
  · exact inv_spawn_2 hg h hi
  · exact inv_spawn_3 hg h hi
  · exact inv_spawn_4 hg h hi
  · exact inv_spawn_5 hg h hi
  · exact inv_spawn_6 hg h hi
  · exact inv_spawn_7 hg h hi

theorem inv_step {s s' nx pc ch} (h : gstep s pc ch = some (s', nx)) (hi : Inv s) : Inv s' := by
  have hcover : pcGroup pc = 0 ∨ pcGroup pc = 1 ∨ pcGroup pc = 2 ∨ pcGroup pc = 3 ∨ pcGroup pc = 4 ∨ pcGroup pc = 5 ∨ pcGroup pc = 6 ∨ pcGroup pc = 7 := by cases pc <;> simp [pcGroup]
  rcases hcover with hg | hg | hg | hg | hg | hg | hg | hg
  · exact inv_step_0 hg h hi
  · exact inv_step_1 hg h hi
  · exact inv_step_2 hg h hi
  · exact inv_step_3 hg h hi
  · exact inv_step_4 hg h hi
  · exact inv_step_5 hg h hi
  · exact inv_step_6 hg h hi
  · exact inv_step_7 hg h hi

theorem inv_reach {cap f s} (h : Reach cap f s) : Inv s := by
  induction h with
  | init => exact inv_init cap f
  | spawn pc _ hs ih => exact inv_spawn hs ih
  | step pc ch _ hs ih => exact inv_step hs ih

theorem fixed_const {cap f s} (h : Reach cap f s) : s.fixed = f := by
  induction h with
  | init => rfl
  | spawn pc _ hs ih =>
    cases pc <;> simp [spawn, inc] at hs
    all_goals (try (obtain ⟨_, rfl⟩ := hs))
    all_goals (try subst hs)
    all_goals (exact ih)
  | step pc ch _ hs ih =>
    obtain ⟨_, s1, hs1, rfl⟩ := gstep_some hs
    cases pc <;> simp only [step] at hs1
    all_goals (repeat' split at hs1)
    all_goals (try (simp only [Option.some.injEq, Prod.mk.injEq] at hs1))
    all_goals (try (obtain ⟨rfl, rfl⟩ := hs1))
    all_goals (try (simp at hs1))
    all_goals (simp_all)

theorem gstep_of_isSome {s pc} (ch : Bool) (hc : 0 < s.cnt (kind pc)) (hs : (step s ch pc).isSome = true) :
    ∃ pc' ch' s' nx', gstep s pc' ch' = some (s', nx') := by
  cases h : step s ch pc with
  | none => simp [h] at hs
  | some p =>
    obtain ⟨s1, nx⟩ := p
    refine ⟨pc, ch, { s1 with cnt := move s1.cnt (kind pc) nx }, nx, ?_⟩
    unfold gstep
    rw [if_neg (by omega), h]

/-- once the target's effect has returned, whoever is still inside YieldFrom / close() can step -/
theorem progress {s} (hi : Inv s) (hf : s.fixed = true) (hr : s.retStarted = true)
    (hb : 0 < s.cnt .r0 ∨ 0 < s.cnt .r1 ∨ 0 < s.cnt .w ∨ 0 < s.cnt .isd ∨
          0 < s.cnt .gc0 + s.cnt .gc1 + s.cnt .gc2 + s.cnt .gc3) :
    ∃ pc ch s' nx, gstep s pc ch = some (s', nx) := by
  by_cases h0 : 0 < s.cnt .gc0
  · exact gstep_of_isSome false (pc := .gc0) h0 (by simp [step])
  by_cases h1 : 0 < s.cnt .gc1
  · exact gstep_of_isSome false (pc := .gc1) h1 (by simp [step])
  by_cases h3 : 0 < s.cnt .gc3
  · exact gstep_of_isSome false (pc := .gc3) h3 (by simp only [step]; split <;> simp)
  by_cases hisd : 0 < s.cnt .isd
  · exact gstep_of_isSome false (pc := .isd) hisd (by simp [step])
  by_cases h2 : 0 < s.cnt .gc2
  · have hop : s.opClosed = false := by
      cases h : s.opClosed with
      | false => rfl
      | true => have := (hi.opc h).2.2; omega
    by_cases hr1 : s.cnt .r1 = 0
    · exact gstep_of_isSome false (pc := .gc2) h2 (by simp [step, hr1, hop, hf])
    · have hd := hi.dn hf (by omega)
      exact gstep_of_isSome false (pc := .r1 0 0) (Nat.pos_of_ne_zero hr1) (by
        simp only [step, hop, hf, hd]; repeat' split
        all_goals simp_all)
  -- the target is gone: close() has completed
  have hdone := hi.retDone hr (by omega)
  obtain ⟨hgf, hopc, _⟩ := hi.done hdone
  have hr1 : s.cnt .r1 = 0 := (hi.opc hopc).2.1
  have hg2 : s.cnt .g2 = 0 := by have := (hi.retG hr).1; omega
  by_cases hr0 : 0 < s.cnt .r0
  · exact gstep_of_isSome false (pc := .r0 0 0) hr0 (by simp [step, hr1, hgf])
  have hw : 0 < s.cnt .w := by omega
  have hopch := hi.drained hf hdone
  have hwc := hi.wcount
  cases ha : s.answers with
  | nil => simp [ha, hopch, hg2] at hwc; omega
  | cons a rest =>
    exact gstep_of_isSome false (pc := .w a.1) hw (by simp [step, ha])

def runActs : St → List (Option Bool × PC) → Option St
  | s, [] => some s
  | s, (none, pc) :: rest => match spawn s pc with | some s' => runActs s' rest | none => none
  | s, (some ch, pc) :: rest => match gstep s pc ch with | some (s', _) => runActs s' rest | none => none

theorem runActs_reach {cap f} : ∀ (acts : List (Option Bool × PC)) {s s'}, Reach cap f s → runActs s acts = some s' → Reach cap f s'
  | [], s, s', h, he => by simp [runActs] at he; subst he; exact h
  | (none, pc) :: rest, s, s', h, he => by
    simp only [runActs] at he
    split at he
    · rename_i s1 hs; exact runActs_reach rest (Reach.spawn pc h hs) he
    · simp at he
  | (some ch, pc) :: rest, s, s', h, he => by
    simp only [runActs] at he
    split at he
    · rename_i s1 nx hs; exact runActs_reach rest (Reach.step pc ch h hs) he
    · simp at he

end FpgoVerif.C15.Co
