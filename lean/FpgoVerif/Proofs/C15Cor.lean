import FpgoVerif.Model.C15Cor
import FpgoVerif.Proofs.C15Tac
/-! Invariants of the coroutine system (callers in YieldFrom + the finishing target). -/
namespace FpgoVerif.C15.Co

theorem gstep_some {s pc ch s' nx} (h : gstep s pc ch = some (s', nx)) :
    0 < s.cnt (kind pc) ∧ ∃ s1, step s ch pc = some (s1, nx) ∧ s' = { s1 with cnt := move s1.cnt (kind pc) nx } := by
  unfold gstep at h
  split at h
  · simp at h
  · rename_i hc
    split at h
    · simp at h
    · rename_i s1 nx1 hs
      simp at h
      obtain ⟨rfl, rfl⟩ := h
      exact ⟨Nat.pos_of_ne_zero hc, s1, hs, rfl⟩

structure Inv (s : St) : Prop where
  nopanic : s.panic = false
  gOne : s.cnt .g1 + s.cnt .g2 + s.cnt .gc0 + s.cnt .gc1 + s.cnt .gc2 + s.cnt .gc3 ≤ 1
  idle0 : s.gIdle = true → s.cnt .g1 + s.cnt .g2 + s.cnt .gc0 + s.cnt .gc1 + s.cnt .gc2 + s.cnt .gc3 = 0
  ret0 : s.retStarted = false → s.cnt .gc0 + s.cnt .gc1 + s.cnt .gc2 + s.cnt .gc3 = 0 ∧ s.gflag = false
  retG : s.retStarted = true → s.cnt .g1 + s.cnt .g2 = 0 ∧ s.gIdle = false
  gcflag : 0 < s.cnt .gc1 + s.cnt .gc2 + s.cnt .gc3 → s.gflag = true
  opc : s.opClosed = true → s.gflag = true ∧ s.cnt .r1 = 0 ∧ s.cnt .gc0 + s.cnt .gc1 + s.cnt .gc2 = 0
  done : s.closeDone = true → s.gflag = true ∧ s.opClosed = true ∧ s.cnt .gc3 = 0
  late0 : s.late = 0
  dn : s.fixed = true → 0 < s.cnt .gc2 + s.cnt .gc3 → s.doneClosed = true
  gc3op : 0 < s.cnt .gc3 → s.opClosed = true
  retDone : s.retStarted = true → s.cnt .gc0 + s.cnt .gc1 + s.cnt .gc2 + s.cnt .gc3 = 0 → s.closeDone = true
  drained : s.fixed = true → s.closeDone = true → s.opCh = []
  wcount : s.cnt .w = s.answers.length + s.opCh.length + s.cnt .g2

theorem inv_init (cap : Nat) (f : Bool) : Inv (init cap f) := by
  constructor <;> simp [init]

set_option maxHeartbeats 1600000 in
theorem inv_spawn {s s' pc} (h : spawn s pc = some s') (hi : Inv s) : Inv s' := by
  obtain ⟨nopanic, gOne, idle0, ret0, retG, gcflag, opc, done, late0, dn, gc3op, retDone, drained, wcount⟩ := hi
  cases pc <;> simp [spawn, inc] at h
  all_goals (try (obtain ⟨hs, rfl⟩ := h))
  all_goals (try subst h)
  all_goals (
    have b1 := Bool.toNat_le s.gflag; have b2 := Bool.toNat_le s.opClosed; have b3 := Bool.toNat_le s.gIdle
    have b4 := Bool.toNat_le s.retStarted; have b5 := Bool.toNat_le s.closeDone; have b6 := Bool.toNat_le s.fixed
    have b7 := Bool.toNat_le s.doneClosed; have b8 := Bool.toNat_le s.panic
    constructor <;> (try simp [updK]) <;> first | c15arith | (intro h1 h2; exact drained h1 h2))

theorem eraseP_len {l : List (Nat × Nat)} {id : Nat} {a} (h : l.find? (·.1 == id) = some a) :
    (l.eraseP (·.1 == id)).length + 1 = l.length := by
  have hany : l.any (·.1 == id) = true := by
    rw [List.any_eq_true]
    exact ⟨a, List.mem_of_find?_eq_some h, by have := List.find?_some h; simpa using this⟩
  have hpos : 0 < l.length := by
    cases l with
    | nil => simp at h
    | cons _ _ => simp
  rw [List.length_eraseP, if_pos hany]; omega

set_option maxHeartbeats 3200000 in
theorem inv_step {s s' nx pc ch} (h : gstep s pc ch = some (s', nx)) (hi : Inv s) : Inv s' := by
  obtain ⟨nopanic, gOne, idle0, ret0, retG, gcflag, opc, done, late0, dn, gc3op, retDone, drained, wcount⟩ := hi
  obtain ⟨hc, s1, hs, rfl⟩ := gstep_some h
  clear h
  have b1 := Bool.toNat_le s.gflag; have b2 := Bool.toNat_le s.opClosed; have b3 := Bool.toNat_le s.gIdle
  have b4 := Bool.toNat_le s.retStarted; have b5 := Bool.toNat_le s.closeDone; have b6 := Bool.toNat_le s.fixed
  have b7 := Bool.toNat_le s.doneClosed; have b8 := Bool.toNat_le s.panic
  cases pc <;> simp only [step, kind] at hs hc
  case w id =>
    split at hs
    · rename_i a y hf
      simp only [Option.some.injEq, Prod.mk.injEq] at hs
      obtain ⟨rfl, rfl⟩ := hs
      have hl := eraseP_len hf
      constructor <;> (try simp [move, kind, updK]) <;> c15arith
    · simp at hs
  case g1 y =>
    split at hs
    · rename_i id x rest heq
      simp only [Option.some.injEq, Prod.mk.injEq] at hs
      obtain ⟨rfl, rfl⟩ := hs
      have hl : s.opCh.length = rest.length + 1 := by rw [heq]; simp
      have hne : s.opCh ≠ [] := by rw [heq]; simp
      constructor <;> (try simp [move, kind, updK]) <;> first | c15arith | (intro h1 h2; exact absurd (drained h1 h2) hne)
    · simp at hs
  case gc3 =>
    split at hs
    · rename_i id x rest heq
      simp only [Option.some.injEq, Prod.mk.injEq] at hs
      obtain ⟨rfl, rfl⟩ := hs
      have hl : s.opCh.length = rest.length + 1 := by rw [heq]; simp
      have hne : s.opCh ≠ [] := by rw [heq]; simp
      constructor <;> (try simp [move, kind, updK]) <;> first | c15arith | (intro h1 h2; exact absurd (drained h1 h2) hne)
    · rename_i heq
      simp only [Option.some.injEq, Prod.mk.injEq] at hs
      obtain ⟨rfl, rfl⟩ := hs
      constructor <;> (try simp [move, kind, updK]) <;> first | c15arith | (intros; exact heq)
  all_goals (repeat' split at hs)
  all_goals (try (simp only [Option.some.injEq, Prod.mk.injEq] at hs))
  all_goals (try (obtain ⟨rfl, rfl⟩ := hs))
  all_goals (try (simp at hs))
  all_goals (constructor <;> (try simp [move, kind, updK]) <;> first | c15arith | (intro h1 h2; have := drained h1 h2; simp_all))

theorem inv_reach {cap f s} (h : Reach cap f s) : Inv s := by
  induction h with
  | init => exact inv_init cap f
  | spawn pc _ hs ih => exact inv_spawn hs ih
  | step pc ch _ hs ih => exact inv_step hs ih

theorem fixed_const {cap f s} (h : Reach cap f s) : s.fixed = f := by
  induction h with
  | init => rfl
  | spawn pc _ hs ih =>
    cases pc <;> simp [spawn, inc] at hs
    all_goals (try (obtain ⟨_, rfl⟩ := hs))
    all_goals (try subst hs)
    all_goals (exact ih)
  | step pc ch _ hs ih =>
    obtain ⟨_, s1, hs1, rfl⟩ := gstep_some hs
    cases pc <;> simp only [step] at hs1
    all_goals (repeat' split at hs1)
    all_goals (try (simp only [Option.some.injEq, Prod.mk.injEq] at hs1))
    all_goals (try (obtain ⟨rfl, rfl⟩ := hs1))
    all_goals (try (simp at hs1))
    all_goals (simp_all)

theorem gstep_of_isSome {s pc} (ch : Bool) (hc : 0 < s.cnt (kind pc)) (hs : (step s ch pc).isSome = true) :
    ∃ pc' ch' s' nx', gstep s pc' ch' = some (s', nx') := by
  cases h : step s ch pc with
  | none => simp [h] at hs
  | some p =>
    obtain ⟨s1, nx⟩ := p
    refine ⟨pc, ch, { s1 with cnt := move s1.cnt (kind pc) nx }, nx, ?_⟩
    unfold gstep
    rw [if_neg (by omega), h]

/-- once the target's effect has returned, whoever is still inside YieldFrom / close() can step -/
theorem progress {s} (hi : Inv s) (hf : s.fixed = true) (hr : s.retStarted = true)
    (hb : 0 < s.cnt .r0 ∨ 0 < s.cnt .r1 ∨ 0 < s.cnt .w ∨ 0 < s.cnt .isd ∨
          0 < s.cnt .gc0 + s.cnt .gc1 + s.cnt .gc2 + s.cnt .gc3) :
    ∃ pc ch s' nx, gstep s pc ch = some (s', nx) := by
  by_cases h0 : 0 < s.cnt .gc0
  · exact gstep_of_isSome false (pc := .gc0) h0 (by simp [step])
  by_cases h1 : 0 < s.cnt .gc1
  · exact gstep_of_isSome false (pc := .gc1) h1 (by simp [step])
  by_cases h3 : 0 < s.cnt .gc3
  · exact gstep_of_isSome false (pc := .gc3) h3 (by simp only [step]; split <;> simp)
  by_cases hisd : 0 < s.cnt .isd
  · exact gstep_of_isSome false (pc := .isd) hisd (by simp [step])
  by_cases h2 : 0 < s.cnt .gc2
  · have hop : s.opClosed = false := by
      cases h : s.opClosed with
      | false => rfl
      | true => have := (hi.opc h).2.2; omega
    by_cases hr1 : s.cnt .r1 = 0
    · exact gstep_of_isSome false (pc := .gc2) h2 (by simp [step, hr1, hop, hf])
    · have hd := hi.dn hf (by omega)
      exact gstep_of_isSome false (pc := .r1 0 0) (Nat.pos_of_ne_zero hr1) (by
        simp only [step, hop, hf, hd]; repeat' split
        all_goals simp_all)
  -- the target is gone: close() has completed
  have hdone := hi.retDone hr (by omega)
  obtain ⟨hgf, hopc, _⟩ := hi.done hdone
  have hr1 : s.cnt .r1 = 0 := (hi.opc hopc).2.1
  have hg2 : s.cnt .g2 = 0 := by have := (hi.retG hr).1; omega
  by_cases hr0 : 0 < s.cnt .r0
  · exact gstep_of_isSome false (pc := .r0 0 0) hr0 (by simp [step, hr1, hgf])
  have hw : 0 < s.cnt .w := by omega
  have hopch := hi.drained hf hdone
  have hwc := hi.wcount
  cases ha : s.answers with
  | nil => simp [ha, hopch, hg2] at hwc; omega
  | cons a rest =>
    exact gstep_of_isSome false (pc := .w a.1) hw (by simp [step, ha])

def runActs : St → List (Option Bool × PC) → Option St
  | s, [] => some s
  | s, (none, pc) :: rest => match spawn s pc with | some s' => runActs s' rest | none => none
  | s, (some ch, pc) :: rest => match gstep s pc ch with | some (s', _) => runActs s' rest | none => none

theorem runActs_reach {cap f} : ∀ (acts : List (Option Bool × PC)) {s s'}, Reach cap f s → runActs s acts = some s' → Reach cap f s'
  | [], s, s', h, he => by simp [runActs] at he; subst he; exact h
  | (none, pc) :: rest, s, s', h, he => by
    simp only [runActs] at he
    split at he
    · rename_i s1 hs; exact runActs_reach rest (Reach.spawn pc h hs) he
    · simp at he
  | (some ch, pc) :: rest, s, s', h, he => by
    simp only [runActs] at he
    split at he
    · rename_i s1 nx hs; exact runActs_reach rest (Reach.step pc ch h hs) he
    · simp at he

end FpgoVerif.C15.Co
