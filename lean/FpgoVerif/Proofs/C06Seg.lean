import FpgoVerif.Model.C06
/-! Helper lemmas for C06: `Seg` (a null-terminated chain through a link function) under point updates. -/
namespace FpgoVerif.C06
local notation "Addr" => Nat



/-- `Seg f o l`: following `f` from `o` visits exactly `l` and ends in `none` -/
inductive Seg (f : Addr → Option Addr) : Option Addr → List Addr → Prop
  | nil : Seg f none []
  | cons (a : Addr) (l : List Addr) : Seg f (f a) l → Seg f (some a) (a :: l)

theorem Seg.frame {f : Addr → Option Addr} {o l} (h : Seg f o l) (a : Addr) (b : Option Addr) (ha : a ∉ l) :
    Seg (upd f a b) o l := by
  induction h with
  | nil => exact .nil
  | cons x l _ ih =>
    have hx : x ≠ a := fun e => ha (e ▸ List.mem_cons_self)
    have : Seg (upd f a b) (upd f a b x) l := by
      rw [upd_other _ _ _ _ hx]; exact ih (fun h => ha (List.mem_cons_of_mem _ h))
    exact .cons x l this

theorem Seg.head {f o l} (h : Seg f o l) : o = l.head? := by cases h <;> rfl

/-- new head -/
theorem Seg.push {f : Addr → Option Addr} {o l} (h : Seg f o l) (a : Addr) (ha : a ∉ l) :
    Seg (upd f a o) (some a) (a :: l) := by
  refine .cons a l ?_
  rw [upd_same]; exact h.frame a o ha

/-- drop head -/
theorem Seg.tail {f : Addr → Option Addr} {a l} (h : Seg f (some a) (a :: l)) : Seg f (f a) l := by
  cases h with | cons _ _ h => exact h

/-- appending a node at the far end -/
theorem Seg.snoc {f : Addr → Option Addr} {o l} (h : Seg f o l) (n b : Addr) (hn : n ∉ l) (hfn : f n = none)
    (hnd : l.Nodup) (hb : l.getLast? = some b) :
    Seg (upd f b (some n)) o (l ++ [n]) := by
  induction h with
  | nil => simp at hb
  | cons x l hs ih =>
    have hxn : x ≠ n := fun e => hn (e ▸ List.mem_cons_self)
    have hnl : n ∉ l := fun h => hn (List.mem_cons_of_mem _ h)
    have hxl : x ∉ l := (List.nodup_cons.mp hnd).1
    have hndl : l.Nodup := (List.nodup_cons.mp hnd).2
    cases l with
    | nil =>
      simp at hb; subst hb
      refine .cons x [n] ?_
      rw [upd_same]
      refine .cons n [] ?_
      rw [upd_other _ _ _ _ (Ne.symm hxn), hfn]; exact .nil
    | cons y l' =>
      have hb' : (y :: l').getLast? = some b := by simpa [List.getLast?_cons_cons] using hb
      have hbmem : b ∈ (y :: l') := List.mem_of_getLast? hb'
      have hxb : x ≠ b := fun e => hxl (e ▸ hbmem)
      have ih' := ih hnl hndl hb'
      refine .cons x ((y :: l') ++ [n]) ?_
      rw [upd_other _ _ _ _ hxb]; exact ih'

/-- removing the far-end node (the repaired code clears the dangling link) -/
theorem Seg.unsnoc {f : Addr → Option Addr} {o l} (n : Addr) (h : Seg f o (l ++ [n]))
    (hnd : (l ++ [n]).Nodup) :
    (∀ b, l.getLast? = some b → Seg (upd f b none) o l) ∧ (l = [] → o = some n) := by
  induction l generalizing o with
  | nil =>
    constructor
    · intro b hb; simp at hb
    · intro _; cases h; rfl
  | cons x l ih =>
    constructor
    · intro b hb
      cases h with
      | cons _ _ hs =>
        have hnd' : (l ++ [n]).Nodup := (List.nodup_cons.mp hnd).2
        have hx : x ∉ l ++ [n] := (List.nodup_cons.mp hnd).1
        cases l with
        | nil =>
          simp at hb; subst hb
          refine .cons x [] ?_
          rw [upd_same]; exact .nil
        | cons y l' =>
          have hb' : (y :: l').getLast? = some b := by simpa [List.getLast?_cons_cons] using hb
          have hbmem : b ∈ (y :: l') := List.mem_of_getLast? hb'
          have hxb : x ≠ b := fun e => hx (e ▸ List.mem_append_left _ hbmem)
          refine .cons x (y :: l') ?_
          rw [upd_other _ _ _ _ hxb]
          exact (ih hs hnd').1 b hb'
    · intro h0; cases h0


theorem Seg.nil_of_none {f : Addr → Option Addr} {l} (h : Seg f none l) : l = [] := by cases h; rfl

theorem Seg.last_eq {f : Addr → Option Addr} {o} {l : List Addr} (h : Seg f o l.reverse) : o = l.getLast? := by
  rw [h.head, List.head?_reverse]

/-- only the links of the visited nodes matter -/
theorem Seg.congr {f g : Addr → Option Addr} {o l} (h : Seg f o l) (hfg : ∀ a ∈ l, g a = f a) : Seg g o l := by
  induction h with
  | nil => exact .nil
  | cons x l _ ih =>
    refine .cons x l ?_
    rw [hfg x List.mem_cons_self]
    exact ih (fun a ha => hfg a (List.mem_cons_of_mem _ ha))

/-- the rest of a chain behind one of its nodes -/
theorem Seg.drop {f : Addr → Option Addr} {o} {pre : List Addr} {a suf} (h : Seg f o (pre ++ a :: suf)) :
    Seg f (f a) suf := by
  induction pre generalizing o with
  | nil => cases h with | cons _ _ h => exact h
  | cons x pre ih => cases h with | cons _ _ h => exact ih h

/-- cutting a chain behind one of its nodes -/
theorem Seg.cut {f g : Addr → Option Addr} {o} {pre : List Addr} {a suf} (h : Seg f o (pre ++ a :: suf))
    (hpre : ∀ x ∈ pre, g x = f x) (ha : g a = none) : Seg g o (pre ++ [a]) := by
  induction pre generalizing o with
  | nil =>
    cases h with | cons _ _ h => exact .cons a [] (by rw [ha]; exact .nil)
  | cons x pre ih =>
    cases h with
    | cons _ _ h =>
      refine .cons x (pre ++ [a]) ?_
      rw [hpre x List.mem_cons_self]
      exact ih h (fun y hy => hpre y (List.mem_cons_of_mem _ hy))

/-- the successor of an inner node is the next element of the list -/
theorem Seg.next_some {f : Addr → Option Addr} {o} {pre : List Addr} {a b suf} (h : Seg f o (pre ++ a :: b :: suf)) :
    f a = some b := by
  have := h.drop.head; simpa using this

theorem Seg.next_last {f : Addr → Option Addr} {o} {pre : List Addr} {a} (h : Seg f o (pre ++ [a])) :
    f a = none := by
  have := h.drop.head; simpa using this

theorem nodup_reverse' {l : List Nat} (h : l.Nodup) : l.reverse.Nodup := by
  unfold List.Nodup at *
  rw [List.pairwise_reverse]
  exact h.imp (fun h => h.symm)

/-- pigeonhole: a duplicate-free list of addresses below `n` has at most `n` elements -/
theorem nodup_bound : ∀ (n : Nat) (l : List Nat), l.Nodup → (∀ a ∈ l, a < n) → l.length ≤ n := by
  intro n
  induction n with
  | zero => intro l _ h; cases l with
    | nil => simp
    | cons a t => exact absurd (h a List.mem_cons_self) (Nat.not_lt_zero _)
  | succ n ih =>
    intro l hnd h
    have h1 : (l.erase n).Nodup := hnd.erase n
    have h2 : ∀ a ∈ l.erase n, a < n := by
      intro a ha
      have := (hnd.mem_erase_iff).mp ha
      have := h a this.2
      omega
    have := ih _ h1 h2
    have h3 := List.length_erase (a := n) (l := l)
    split at h3 <;> omega

end FpgoVerif.C06
