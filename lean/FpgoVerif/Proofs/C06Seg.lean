import FpgoVerif.Model.C06
/-! Helper lemmas for C06: `Seg` (a null-terminated chain through a link function) under point updates. -/
namespace FpgoVerif.C06
local notation "Addr" => Nat



/-- `Seg f o l`: following `f` from `o` visits exactly `l` and ends in `none` -/
inductive Seg (f : Addr → Option Addr) : Option Addr → List Addr → Prop
  | nil : Seg f none []
  | cons (a : Addr) (l : List Addr) : Seg f (f a) l → Seg f (some a) (a :: l)

theorem Seg.frame {f : Addr → Option Addr} {o l} (h : Seg f o l) (a : Addr) (b : Option Addr) (ha : a ∉ l) :
    Seg (upd f a b) o l := by
  induction h with
  | nil => exact .nil
  | cons x l _ ih =>
    have hx : x ≠ a := fun e => ha (e ▸ List.mem_cons_self)
    have : Seg (upd f a b) (upd f a b x) l := by
      rw [upd_other _ _ _ _ hx]; exact ih (fun h => ha (List.mem_cons_of_mem _ h))
    exact .cons x l this

theorem Seg.head {f o l} (h : Seg f o l) : o = l.head? := by cases h <;> rfl

theorem Seg.mem_lt {f o l} (h : Seg f o l) : True := trivial

/-- new head -/
theorem Seg.push {f : Addr → Option Addr} {o l} (h : Seg f o l) (a : Addr) (ha : a ∉ l) :
    Seg (upd f a o) (some a) (a :: l) := by
  refine .cons a l ?_
  rw [upd_same]; exact h.frame a o ha

/-- drop head -/
theorem Seg.tail {f : Addr → Option Addr} {a l} (h : Seg f (some a) (a :: l)) : Seg f (f a) l := by
  cases h with | cons _ _ h => exact h

/-- appending a node at the far end -/
theorem Seg.snoc {f : Addr → Option Addr} {o l} (h : Seg f o l) (n b : Addr) (hn : n ∉ l) (hfn : f n = none)
    (hnd : l.Nodup) (hb : l.getLast? = some b) :
    Seg (upd f b (some n)) o (l ++ [n]) := by
  induction h with
  | nil => simp at hb
  | cons x l hs ih =>
    have hxn : x ≠ n := fun e => hn (e ▸ List.mem_cons_self)
    have hnl : n ∉ l := fun h => hn (List.mem_cons_of_mem _ h)
    have hxl : x ∉ l := (List.nodup_cons.mp hnd).1
    have hndl : l.Nodup := (List.nodup_cons.mp hnd).2
    cases l with
    | nil =>
      simp at hb; subst hb
      refine .cons x [n] ?_
      rw [upd_same]
      refine .cons n [] ?_
      rw [upd_other _ _ _ _ (Ne.symm hxn), hfn]; exact .nil
    | cons y l' =>
      have hb' : (y :: l').getLast? = some b := by simpa [List.getLast?_cons_cons] using hb
      have hbmem : b ∈ (y :: l') := List.mem_of_getLast? hb'
      have hxb : x ≠ b := fun e => hxl (e ▸ hbmem)
      have ih' := ih hnl hndl hb'
      refine .cons x ((y :: l') ++ [n]) ?_
      rw [upd_other _ _ _ _ hxb]; exact ih'

/-- removing the far-end node (the repaired code clears the dangling link) -/
theorem Seg.unsnoc {f : Addr → Option Addr} {o l} (n : Addr) (h : Seg f o (l ++ [n]))
    (hnd : (l ++ [n]).Nodup) :
    (∀ b, l.getLast? = some b → Seg (upd f b none) o l) ∧ (l = [] → o = some n) := by
  induction l generalizing o with
  | nil =>
    constructor
    · intro b hb; simp at hb
    · intro _; cases h; rfl
  | cons x l ih =>
    constructor
    · intro b hb
      cases h with
      | cons _ _ hs =>
        have hnd' : (l ++ [n]).Nodup := (List.nodup_cons.mp hnd).2
        have hx : x ∉ l ++ [n] := (List.nodup_cons.mp hnd).1
        cases l with
        | nil =>
          simp at hb; subst hb
          refine .cons x [] ?_
          rw [upd_same]; exact .nil
        | cons y l' =>
          have hb' : (y :: l').getLast? = some b := by simpa [List.getLast?_cons_cons] using hb
          have hbmem : b ∈ (y :: l') := List.mem_of_getLast? hb'
          have hxb : x ≠ b := fun e => hx (e ▸ List.mem_append_left _ hbmem)
          refine .cons x (y :: l') ?_
          rw [upd_other _ _ _ _ hxb]
          exact (ih hs hnd').1 b hb'
    · intro h0; cases h0



end FpgoVerif.C06
