import FpgoVerif.Proofs.C04Step
/-! C04 — contents of results: helper lemmas relating the heap-level result of an operation to the `Spec`
    list/map function of the operands' contents. -/
namespace FpgoVerif.C04
open World

theorem strContent_newStream (w : World) (l : List Int) (tail : Nat) :
    (w.newStream l tail).1.strContent (w.newStream l tail).2 = l := by
  simp [newStream, allocArr, allocStr, strContent, strHdr, sliceContent, arrAt, List.getD_eq_getElem?_getD]

theorem sliceContent_allocArr_new (w : World) (l : List Int) :
    (w.allocArr l).1.sliceContent (w.allocArr l).2 = l := by
  simp [allocArr, sliceContent, arrAt, List.getD_eq_getElem?_getD]

theorem foldl_congr_mem {α β} (f g : β → α → β) (l : List α) (h : ∀ b, ∀ a ∈ l, f b a = g b a) (b : β) :
    l.foldl f b = l.foldl g b := by
  induction l generalizing b with
  | nil => rfl
  | cons a t ih =>
    simp only [List.foldl_cons]
    rw [h b a (List.mem_cons_self ..)]
    exact ih (fun b a ha => h b a (List.mem_cons_of_mem _ ha)) _

theorem strToArray_content (w : World) (p : Nat) :
    (w.strToArray p).1.sliceContent (w.strToArray p).2 = w.strContent p := by
  have h : (w.strToArray p).1.arrAt w.arrs.length = w.sliceContent (w.strHdr p) := by
    simp [strToArray, dupSlice, allocArr, arrAt, List.getD_eq_getElem?_getD]
  show (((w.strToArray p).1.arrAt w.arrs.length).drop 0).take (w.sliceContent (w.strHdr p)).length = _
  rw [h]; simp [strContent]

/-- `Concat`: receiver's elements followed by the elements of every slice, in order -/
theorem strConcat_content {w : World} (hw : Wf w) (p : Nat) (slices : List Slice)
    (hs : ∀ s ∈ slices, s.arr < w.arrs.length) :
    (w.strConcat p slices).1.strContent (w.strConcat p slices).2
      = slices.foldl (fun acc s => acc ++ w.sliceContent s) (w.strContent p) := by
  unfold strConcat
  split
  · rename_i he
    have : slices = [] := by cases slices <;> simp_all
    subst this; rfl
  · simp only
    rw [strContent_newStream, strToArray_content]
    apply foldl_congr_mem
    intro b s hsm
    rw [sliceContent_le (strToArray_res hw p).1.le (hs s hsm)]

theorem strAppend_content {w : World} (hw : Wf w) {p : Nat} (hp : p < w.strs.length) (items : List Int) :
    (w.strAppend p items).1.strContent (w.strAppend p items).2 = w.strContent p ++ items := by
  unfold strAppend
  have h₁ := allocArr_good hw items
  simp only
  rw [strConcat_content h₁.1.wf p [(w.allocArr items).2] (by intro s hs; simp at hs; subst hs; exact h₁.2.1)]
  simp only [List.foldl_cons, List.foldl_nil]
  rw [sliceContent_allocArr_new, strContent_le hw h₁.1.le hp]

theorem strExtend_content (w : World) (p : Nat) (args : List (Option Nat)) :
    (w.strExtend p args).1.strContent (w.strExtend p args).2
      = args.foldl (fun acc a => match a with | none => acc | some q => acc ++ w.strContent q) (w.strContent p) := by
  unfold strExtend
  split
  · rename_i he
    have : args = [] := by cases args <;> simp_all
    subst this; rfl
  · exact strContent_newStream _ _ _

/-- interface{} `Remove(i)` leaves the receiver — which IS the returned stream
    (`C04_ifaceRemove_returns_receiver`) — holding the sequence without its `i`-th element (any other index,
    negative ones included: unchanged).  Stated under the explicit hypotheses that the receiver's
    header lies within its live backing array and `len ≤ cap` (true of every header the modelled operations
    build, but not part of `Wf`). -/
theorem ifaceRemove_content_of_bounds (w : World) (p : Nat) (i : Int)
    (hp : p < w.strs.length) (ha : (w.strHdr p).arr < w.arrs.length)
    (hb : (w.strHdr p).off + (w.strHdr p).len ≤ (w.arrAt (w.strHdr p).arr).length)
    (hc : (w.strHdr p).len ≤ (w.strHdr p).cap) :
    (w.strRemoveI p i).1.strContent p = Spec.removeAt (w.strContent p) i := by
  have hcl : (w.strContent p).length = (w.strHdr p).len := by
    simp [strContent, sliceContent, List.length_take, List.length_drop]; omega
  unfold strRemoveI Spec.removeAt
  simp only [hcl]
  split
  · rename_i hr
    have hi : i.toNat < (w.strHdr p).len := by omega
    have htl : ((w.sliceContent (w.strHdr p)).drop (i.toNat + 1)).length = (w.strHdr p).len - (i.toNat + 1) := by
      have := hcl; simp only [strContent] at this; simp [this]
    have hfit : i.toNat + ((w.sliceContent (w.strHdr p)).drop (i.toNat + 1)).length ≤ (w.strHdr p).cap := by omega
    simp only [appendSlice, hfit, if_true]
    have := shift_list (w.arrAt (w.strHdr p).arr) (w.strHdr p).off (w.strHdr p).len i.toNat hi hb
    simp only at this
    simp only [strContent, sliceContent, strHdr, setStrHdr, writeArr, arrAt, List.getD_eq_getElem?_getD,
      List.getElem?_set, hp, if_true, Option.getD_some] at this ⊢
    have ha' := ha
    simp only [strHdr, List.getD_eq_getElem?_getD] at ha'
    rw [if_pos ha']
    exact this
  · rfl


end FpgoVerif.C04
