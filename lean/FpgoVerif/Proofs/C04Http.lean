import FpgoVerif.Proofs.C04Sets
/-! C04 — network/simpleHTTP.go interceptor bookkeeping: each method overwrites the instance's own cell
    with the header of a persistent Stream result; no existing array, no other cell is written. -/
namespace FpgoVerif.C04
open World

/-- `w'` differs from an extension of `w` at most in stream cell `p`: every array, map object and set cell of
    `w` is still there unchanged, and so is every stream cell other than `p`. -/
structure HFrame (w w' : World) (p : Nat) : Prop where
  arrs : w.arrs <+: w'.arrs
  maps : w.maps <+: w'.maps
  sets : w.sets <+: w'.sets
  strsLen : w.strs.length ≤ w'.strs.length
  strs : ∀ q, q < w.strs.length → q ≠ p → w'.strHdr q = w.strHdr q
  wf : Wf w'

theorem HFrame.refl {w : World} (hw : Wf w) (p : Nat) : HFrame w w p :=
  ⟨List.prefix_refl _, List.prefix_refl _, List.prefix_refl _, Nat.le_refl _, fun _ _ _ => rfl, hw⟩

theorem HFrame.trans {a b c : World} {p : Nat} (h₁ : HFrame a b p) (h₂ : HFrame b c p) : HFrame a c p :=
  ⟨h₁.arrs.trans h₂.arrs, h₁.maps.trans h₂.maps, h₁.sets.trans h₂.sets, Nat.le_trans h₁.strsLen h₂.strsLen,
   fun q hq hne => by rw [h₂.strs q (Nat.lt_of_lt_of_le hq h₁.strsLen) hne, h₁.strs q hq hne], h₂.wf⟩

/-- one bookkeeping step: a persistent Stream operation on the field, then the field is overwritten -/
theorem httpStep_frame {w : World} {p : Nat} {r : World × Nat} (hr : StrRes w r) :
    HFrame w (r.1.setStrHdr p (r.1.strHdr r.2)) p := by
  refine ⟨hr.1.le.arrs, hr.1.le.maps, hr.1.le.sets, ?_, ?_, setStrHdr_wf hr.1.wf p (strHdr_ok hr.1.wf _)⟩
  · simpa [setStrHdr] using hr.1.le.strs.length_le
  · intro q hq hne
    rw [← strHdr_le hr.1.le hq]
    simp [setStrHdr, strHdr, List.getD_eq_getElem?_getD, List.getElem?_set, Ne.symm hne]

theorem httpAdd_frame (ids : List Int) : ∀ {w : World}, Wf w → ∀ {p : Nat}, p < w.strs.length →
    HFrame w (w.httpAdd p ids) p := by
  induction ids with
  | nil => intro w hw p _; exact HFrame.refl hw p
  | cons i t ih =>
    intro w hw p hp
    have h₁ := httpStep_frame (p := p) (strAppend_res hw hp [i])
    have h₂ := ih h₁.wf (p := p) (Nat.lt_of_lt_of_le hp h₁.strsLen)
    exact h₁.trans h₂

theorem httpRemove_frame (ids : List Int) : ∀ {w : World}, Wf w → ∀ {p : Nat}, p < w.strs.length →
    HFrame w (w.httpRemove p ids) p := by
  induction ids with
  | nil => intro w hw p _; exact HFrame.refl hw p
  | cons i t ih =>
    intro w hw p hp
    have h₁ := httpStep_frame (p := p) (strRemoveItem_res hw hp [i])
    have h₂ := ih h₁.wf (p := p) (Nat.lt_of_lt_of_le hp h₁.strsLen)
    exact h₁.trans h₂

theorem httpClear_frame {w : World} (hw : Wf w) (p : Nat) : HFrame w (w.httpClear p) p := by
  refine ⟨List.prefix_refl _, List.prefix_refl _, List.prefix_refl _, ?_, ?_, setStrHdr_wf hw p (sliceOk_nil hw.arr0)⟩
  · simp [httpClear, setStrHdr]
  · intro q _ hne
    simp [httpClear, setStrHdr, strHdr, List.getD_eq_getElem?_getD, List.getElem?_set, Ne.symm hne]

end FpgoVerif.C04
