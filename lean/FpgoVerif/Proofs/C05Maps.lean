import FpgoVerif.Model.C05
/-! Helper lemmas for C05: Go maps as association lists with unique keys (core only). -/
namespace FpgoVerif.C05
variable {κ ν : Type} [DecidableEq κ]

theorem mget_isSome_iff (m : GoMap κ ν) (k : κ) : (mget m k).isSome = true ↔ k ∈ mkeys m := by
  induction m with
  | nil => simp [mget, mkeys]
  | cons p t ih =>
    obtain ⟨k', v⟩ := p
    by_cases h : k' = k
    · simp [mget, mkeys, h]
    · have h' : ¬ k = k' := fun e => h e.symm
      simp only [mkeys] at ih
      simp [mget, mkeys, h, h', ih]

theorem mhas_iff (m : GoMap κ ν) (k : κ) : mhas m k = true ↔ k ∈ mkeys m := by
  simp [mhas, mget_isSome_iff]

theorem mhas_false_iff (m : GoMap κ ν) (k : κ) : mhas m k = false ↔ k ∉ mkeys m := by
  rw [← mhas_iff]; cases mhas m k <;> simp

theorem mget_none_iff (m : GoMap κ ν) (k : κ) : mget m k = none ↔ k ∉ mkeys m := by
  rw [← mget_isSome_iff]; cases mget m k <;> simp

theorem mem_mkeys_mset (m : GoMap κ ν) (k : κ) (v : ν) (k' : κ) :
    k' ∈ mkeys (mset m k v) ↔ k' = k ∨ k' ∈ mkeys m := by
  induction m with
  | nil => simp [mset, mkeys]
  | cons p t ih =>
    obtain ⟨k0, v0⟩ := p
    by_cases h : k0 = k
    · subst h; simp [mset, mkeys]
    · simp only [mkeys] at ih
      simp only [mset, h, if_false, mkeys, List.map_cons, List.mem_cons, ih]
      constructor
      · rintro (h1 | h1 | h1) <;> simp [h1]
      · rintro (h1 | h1 | h1) <;> simp [h1]

theorem nodup_mkeys_mset (m : GoMap κ ν) (k : κ) (v : ν) (h : (mkeys m).Nodup) :
    (mkeys (mset m k v)).Nodup := by
  induction m with
  | nil => simp [mset, mkeys]
  | cons p t ih =>
    obtain ⟨k0, v0⟩ := p
    simp only [mkeys, List.map_cons, List.nodup_cons] at h
    by_cases hk : k0 = k
    · subst hk; simpa [mset, mkeys] using h
    · simp only [mset, hk, if_false, mkeys, List.map_cons, List.nodup_cons]
      refine ⟨?_, ih h.2⟩
      have := mem_mkeys_mset t k v k0
      simp only [mkeys] at this
      rw [this]
      rintro (h1 | h1)
      · exact hk h1
      · exact h.1 h1

theorem mget_mset (m : GoMap κ ν) (k : κ) (v : ν) (k' : κ) :
    mget (mset m k v) k' = if k = k' then some v else mget m k' := by
  induction m with
  | nil => simp [mset, mget]
  | cons p t ih =>
    obtain ⟨k0, v0⟩ := p
    by_cases h : k0 = k
    · subst h
      by_cases h2 : k0 = k' <;> simp [mset, mget, h2]
    · by_cases h2 : k0 = k'
      · subst h2
        have h' : ¬ k = k0 := fun e => h e.symm
        simp [mset, mget, h, h']
      · simp [mset, mget, h, h2, ih]

theorem mem_mkeys_mdel (m : GoMap κ ν) (k k' : κ) :
    k' ∈ mkeys (mdel m k) ↔ k' ≠ k ∧ k' ∈ mkeys m := by
  induction m with
  | nil => simp [mdel, mkeys]
  | cons p t ih =>
    obtain ⟨k0, v0⟩ := p
    simp only [mkeys] at ih
    by_cases h : k0 = k
    · subst h
      simp only [mdel, if_true, mkeys, ih, List.map_cons, List.mem_cons]
      constructor
      · rintro ⟨h1, h2⟩; exact ⟨h1, Or.inr h2⟩
      · rintro ⟨h1, h2 | h2⟩
        · exact absurd h2 h1
        · exact ⟨h1, h2⟩
    · simp only [mdel, h, if_false, mkeys, List.map_cons, List.mem_cons, ih]
      constructor
      · rintro (h1 | ⟨h1, h2⟩)
        · subst h1; exact ⟨h, Or.inl rfl⟩
        · exact ⟨h1, Or.inr h2⟩
      · rintro ⟨h1, h2 | h2⟩
        · exact Or.inl h2
        · exact Or.inr ⟨h1, h2⟩

theorem nodup_mkeys_mdel (m : GoMap κ ν) (k : κ) (h : (mkeys m).Nodup) : (mkeys (mdel m k)).Nodup := by
  induction m with
  | nil => simp [mdel, mkeys]
  | cons p t ih =>
    obtain ⟨k0, v0⟩ := p
    simp only [mkeys, List.map_cons, List.nodup_cons] at h
    by_cases hk : k0 = k
    · simp only [mdel, hk, if_true]; exact ih h.2
    · simp only [mdel, hk, if_false, mkeys, List.map_cons, List.nodup_cons]
      refine ⟨?_, ih h.2⟩
      have := mem_mkeys_mdel t k k0
      simp only [mkeys] at this
      rw [this]
      exact fun h1 => h.1 h1.2

theorem mget_mdel (m : GoMap κ ν) (k k' : κ) :
    mget (mdel m k) k' = if k = k' then none else mget m k' := by
  induction m with
  | nil => simp [mdel, mget]
  | cons p t ih =>
    obtain ⟨k0, v0⟩ := p
    by_cases h : k0 = k
    · subst h
      by_cases h2 : k0 = k'
      · subst h2; simp [mdel, ih]
      · simp [mdel, mget, h2, ih]
    · by_cases h2 : k0 = k'
      · subst h2
        have h' : ¬ k = k0 := fun e => h e.symm
        simp [mdel, mget, h, h']
      · simp [mdel, mget, h, h2, ih]

/-! `for k, v := range src { dst[k] = v }` -/

theorem mem_mkeys_mcopyInto (dst src : GoMap κ ν) (k : κ) :
    k ∈ mkeys (mcopyInto dst src) ↔ k ∈ mkeys dst ∨ k ∈ mkeys src := by
  induction src generalizing dst with
  | nil => simp [mcopyInto, mkeys]
  | cons p t ih =>
    have ih' := ih (mset dst p.1 p.2)
    simp only [mcopyInto, List.foldl_cons] at ih' ⊢
    rw [ih', mem_mkeys_mset]
    simp only [mkeys, List.map_cons, List.mem_cons]
    constructor
    · rintro ((h | h) | h) <;> simp [h]
    · rintro (h | h | h) <;> simp [h]

theorem nodup_mkeys_mcopyInto (dst src : GoMap κ ν) (h : (mkeys dst).Nodup) :
    (mkeys (mcopyInto dst src)).Nodup := by
  induction src generalizing dst with
  | nil => simpa [mcopyInto] using h
  | cons p t ih =>
    have ih' := ih (mset dst p.1 p.2) (nodup_mkeys_mset dst p.1 p.2 h)
    simpa only [mcopyInto, List.foldl_cons] using ih'

theorem mget_mcopyInto (dst src : GoMap κ ν) (hs : (mkeys src).Nodup) (k : κ) :
    mget (mcopyInto dst src) k = (mget src k).orElse (fun _ => mget dst k) := by
  induction src generalizing dst with
  | nil => simp [mcopyInto, mget]
  | cons p t ih =>
    obtain ⟨k0, v0⟩ := p
    simp only [mkeys, List.map_cons, List.nodup_cons] at hs
    have ih' := ih (mset dst k0 v0) hs.2
    simp only [mcopyInto, List.foldl_cons] at ih' ⊢
    rw [ih', mget_mset]
    by_cases h : k0 = k
    · subst h
      have : mget t k0 = none := (mget_none_iff t k0).2 hs.1
      simp [mget, this]
    · simp [mget, h]

/-- copying into an empty map reproduces a map with unique keys -/
theorem mcopyInto_nil_eq (m : GoMap κ ν) (h : (mkeys m).Nodup) : mcopyInto [] m = m := by
  suffices H : ∀ (pre : GoMap κ ν), (mkeys (pre ++ m)).Nodup → mcopyInto pre m = pre ++ m by
    simpa using H [] (by simpa using h)
  clear h
  induction m with
  | nil => intro pre _; simp [mcopyInto]
  | cons p t ih =>
    intro pre hn
    obtain ⟨k0, v0⟩ := p
    have hset : mset pre k0 v0 = pre ++ [(k0, v0)] := by
      have hk : k0 ∉ mkeys pre := by
        simp only [mkeys, List.map_append, List.map_cons, List.nodup_append, List.nodup_cons] at hn
        intro hmem
        exact hn.2.2 k0 hmem k0 (by simp) rfl
      clear hn ih
      induction pre with
      | nil => simp [mset]
      | cons q pre ihp =>
        obtain ⟨k1, v1⟩ := q
        simp only [mkeys, List.map_cons, List.mem_cons, not_or] at hk
        have h1 : ¬ k1 = k0 := fun e => hk.1 e.symm
        simp only [mset, h1, if_false, List.cons_append]
        rw [ihp hk.2]
    have := ih (pre ++ [(k0, v0)]) (by simpa using hn)
    simp only [mcopyInto, List.foldl_cons] at this ⊢
    rw [hset, this]
    simp

theorem duplicateMap_eq (m : GoMap κ ν) (h : (mkeys m).Nodup) : duplicateMap m = m := by
  unfold duplicateMap
  split
  · exact mcopyInto_nil_eq m h
  · cases m with
    | nil => rfl
    | cons p t => simp at *

theorem mkeys_sliceToMap_mem (d : ν) (l : List κ) (k : κ) : k ∈ mkeys (sliceToMap d l) ↔ k ∈ l := by
  suffices H : ∀ (m : GoMap κ ν), k ∈ mkeys (l.foldl (fun m key => if mhas m key then m else mset m key d) m) ↔
      k ∈ mkeys m ∨ k ∈ l by
    simpa [sliceToMap, mkeys] using H []
  induction l with
  | nil => intro m; simp
  | cons x xs ih =>
    intro m
    simp only [List.foldl_cons, ih, List.mem_cons]
    cases hx : mhas m x with
    | true =>
      have := (mhas_iff m x).1 hx
      simp only [if_true]
      constructor
      · rintro (h | h) <;> simp [h]
      · rintro (h | h | h)
        · exact Or.inl h
        · subst h; exact Or.inl this
        · exact Or.inr h
    | false =>
      simp only [Bool.false_eq_true, if_false, mem_mkeys_mset]
      constructor
      · rintro ((h | h) | h) <;> simp [h]
      · rintro (h | h | h) <;> simp [h]

theorem nodup_mkeys_sliceToMap (d : ν) (l : List κ) : (mkeys (sliceToMap d l)).Nodup := by
  suffices H : ∀ (m : GoMap κ ν), (mkeys m).Nodup →
      (mkeys (l.foldl (fun m key => if mhas m key then m else mset m key d) m)).Nodup by
    exact H [] (by simp [mkeys])
  induction l with
  | nil => intro m h; simpa using h
  | cons x xs ih =>
    intro m h
    simp only [List.foldl_cons]
    apply ih
    split
    · exact h
    · exact nodup_mkeys_mset m x d h

end FpgoVerif.C05
