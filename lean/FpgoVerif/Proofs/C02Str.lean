import FpgoVerif.Proofs.C02Int
/-! C02 — string sources with an integer target: `strconv.ParseInt` / `ParseUint` / `Atoi` (as modelled by
    `goStrconv`) followed by a cast to the target type. -/
namespace FpgoVerif.C02

/-- range accepted by the parse call -/
def parseRange : Src → Option (Int × Int)
  | .parseInt bits => some (-((2 ^ (bits - 1) : Nat) : Int), ((2 ^ (bits - 1) : Nat) : Int) - 1)
  | .atoi => some (-((2 ^ (64 - 1) : Nat) : Int), ((2 ^ (64 - 1) : Nat) : Int) - 1)
  | .parseUint bits => some (0, ((2 ^ bits : Nat) : Int) - 1)
  | _ => none

def isUnsignedParse : Src → Bool
  | .parseUint _ => true
  | _ => false

/-- the guard bounds `l`, `h` contain the whole interval `[plo, phi]` -/
def guardCovers (l h : Option Int) (plo phi : Int) : Bool :=
  (match l with | none => true | some c => decide (c ≤ plo)) &&
  (match h with | none => true | some c => decide (phi ≤ c))

theorem guardCovers_pass {l h : Option Int} {plo phi : Int} (hc : guardCovers l h plo phi = true) (z : Int)
    (h1 : plo ≤ z) (h2 : z ≤ phi) : passB l h z = true := by
  unfold guardCovers at hc
  cases l <;> cases h <;> simp [passB] at hc ⊢ <;> omega

/-- the call a string clause makes, and what follows it -/
def strIntBodyOK (tgt : Ty) (body : Body) : Bool :=
  match tgt.range, tgt.must with
  | some (lo, hi), some (mlo, mhi) =>
    let okSrc (s : Src) : Bool :=
      match parseRange s with
      | some (plo, phi) =>
        -- whatever parses fits the target (so the cast is the identity); whatever must succeed parses
        decide (lo ≤ plo ∧ phi ≤ hi) && decide (plo ≤ mlo ∧ mhi ≤ phi) && (isUnsignedParse s == !isSigned tgt)
      | none => false
    match body with
    | .bind s none ⟨.cast t .v, .fromCall⟩ _ => t == tgt && okSrc s
    | .direct s => okSrc s
    | .bind s (some g) ⟨.cast t .v, .fromCall⟩ (some ⟨_, .overflow⟩) =>
      -- a guard after the parse that every value the parse call can return (results, clamped bounds, 0) passes
      t == tgt && okSrc s &&
      (match parseRange s, intBounds g with
       | some (plo, phi), some (l, h) => decide (plo ≤ 0 ∧ 0 ≤ phi) && guardCovers l h plo phi
       | _, _ => false)
    | _ => false
  | _, _ => false

theorem foldl_none (cs : List Char) :
    cs.foldl (fun acc c => match acc with
      | none => none
      | some n => if c.isDigit then some (n * 10 + (c.toNat - 48)) else none) (none : Option Nat) = none := by
  induction cs with
  | nil => rfl
  | cons c cs ih => simpa [List.foldl] using ih

theorem digitsVal_nonDigit (c : Char) (cs : List Char) (h : c.isDigit = false) : digitsVal (c :: cs) = none := by
  simp only [digitsVal, List.foldl, h]
  exact foldl_none cs

theorem digitsVal_intSyntax (w : String) (n : Nat) (h : digitsVal w.toList = some n) : intSyntax w = some (n : Int) := by
  unfold intSyntax
  split
  · rename_i cs heq
    rw [heq, digitsVal_nonDigit '+' cs (by decide)] at h; cases h
  · rename_i cs heq
    rw [heq, digitsVal_nonDigit '-' cs (by decide)] at h; cases h
  · simp [h]

/-- the parse call as `conv` makes it -/
def parseCall (sc : Strconv) (s : Src) (w : String) : Res :=
  match s with
  | .parseInt bits => sc.parseInt bits w
  | .parseUint bits => sc.parseUint bits w
  | .atoi => sc.atoi w
  | _ => Res.garbage

/-- Documented contract of `strconv.ParseInt(w, 10, bits)`, `ParseUint(w, 10, bits)`, `Atoi(w)`, for a call with
    accepted range `[plo, phi]`:
    * a nil error comes with the value of the integer numeral `w`, which lies in the range;
    * an error comes with 0 (syntax) or the nearest bound (range);
    * an integer numeral in the range is accepted — by `ParseUint` only when it is a plain digit string (no sign). -/
def ParseIntContract (sc : Strconv) : Prop :=
  ∀ (s : Src) (plo phi : Int), parseRange s = some (plo, phi) → ∀ w : String,
    ((parseCall sc s w).err = .ok → ∃ z, intSyntax w = some z ∧ (parseCall sc s w).val = .i z ∧ plo ≤ z ∧ z ≤ phi) ∧
    ((parseCall sc s w).err ≠ .ok → (parseCall sc s w).err = .other ∧
      ((parseCall sc s w).val = .i 0 ∨ (parseCall sc s w).val = .i plo ∨ (parseCall sc s w).val = .i phi)) ∧
    (∀ z, intSyntax w = some z → plo ≤ z → z ≤ phi →
      (isUnsignedParse s = false ∨ digitsVal w.toList = some z.toNat) → parseCall sc s w = ⟨.i z, .ok⟩)

/-- the modelled parse calls: a value inside the parse range and a nil error, or an error -/
theorem parse_spec (s : Src) (plo phi : Int) (hp : parseRange s = some (plo, phi)) (w : String) :
    let r := (match s with
      | .parseInt bits => goStrconv.parseInt bits w
      | .parseUint bits => goStrconv.parseUint bits w
      | .atoi => goStrconv.atoi w
      | _ => Res.garbage)
    (r.err = .ok → ∃ z, intSyntax w = some z ∧ r.val = .i z ∧ plo ≤ z ∧ z ≤ phi) ∧
    (r.err ≠ .ok → r.err = .other ∧ (r.val = .i 0 ∨ r.val = .i plo ∨ r.val = .i phi)) ∧
    (∀ z, intSyntax w = some z → plo ≤ z → z ≤ phi → (isUnsignedParse s = false ∨ digitsVal w.toList = some z.toNat) →
       r = ⟨.i z, .ok⟩) := by
  match s, hp with
  | .parseInt bits, hp =>
    simp only [parseRange, Option.some.injEq, Prod.mk.injEq] at hp
    obtain ⟨rfl, rfl⟩ := hp
    simp only [goStrconv, goParseInt]
    generalize ((2 ^ (bits - 1) : Nat) : Int) = B
    cases hs : intSyntax w with
    | none => simp
    | some z =>
      simp only
      by_cases h1 : z < -B
      · simp [h1]; omega
      · by_cases h2 : z > B - 1
        · simp [h1, h2]; omega
        · simp [h1, h2]; omega
  | .atoi, hp =>
    simp only [parseRange, Option.some.injEq, Prod.mk.injEq] at hp
    obtain ⟨rfl, rfl⟩ := hp
    simp only [goStrconv, goParseInt]
    generalize ((2 ^ (64 - 1) : Nat) : Int) = B
    cases hs : intSyntax w with
    | none => simp
    | some z =>
      simp only
      by_cases h1 : z < -B
      · simp [h1]; omega
      · by_cases h2 : z > B - 1
        · simp [h1, h2]; omega
        · simp [h1, h2]; omega
  | .parseUint bits, hp =>
    simp only [parseRange, Option.some.injEq, Prod.mk.injEq] at hp
    obtain ⟨rfl, rfl⟩ := hp
    simp only [goStrconv, goParseUint]
    generalize ((2 ^ bits : Nat) : Int) = B
    cases hd : digitsVal w.toList with
    | none =>
      simp [isUnsignedParse]
    | some n =>
      have hs := digitsVal_intSyntax w n hd
      simp only [isUnsignedParse]
      by_cases h2 : (n : Int) > B - 1
      · simp [h2, hs]
      · simp [h2, hs]; omega


/-- `goStrconv` (the function the driver runs) satisfies the contract -/
theorem goStrconv_parseInt_contract : ParseIntContract goStrconv := by
  intro s plo phi hp w
  have ps := parse_spec s plo phi hp w
  simp only at ps
  exact ps

theorem canon_unsigned (w : String) (z : Int) (hc : canonicalInt false w = true) (hs : intSyntax w = some z) :
    digitsVal w.toList = some z.toNat := by
  unfold canonicalInt at hc
  unfold intSyntax at hs
  split at hs
  · rename_i cs heq
    rw [heq] at hc
    simp [allDigits] at hc
  · rename_i cs heq
    rw [heq] at hc
    simp at hc
  · cases hd : digitsVal w.toList with
    | none => simp [hd] at hs
    | some n => simp [hd] at hs; subst hs; simp

theorem str_core (tgt : Ty) (lo hi mlo mhi plo phi : Int) (unsigned : Bool)
    (hr : tgt.range = some (lo, hi)) (hm : tgt.must = some (mlo, mhi))
    (hu : unsigned = !isSigned tgt) (hsub1 : lo ≤ plo ∧ phi ≤ hi) (hsub2 : plo ≤ mlo ∧ mhi ≤ phi) (w : String) (r0 : Res)
    (P1 : r0.err = .ok → ∃ z, intSyntax w = some z ∧ r0.val = .i z ∧ plo ≤ z ∧ z ≤ phi)
    (P3 : ∀ z, intSyntax w = some z → plo ≤ z → z ≤ phi → (unsigned = false ∨ digitsVal w.toList = some z.toNat) →
       r0 = ⟨.i z, .ok⟩) :
    specStr tgt w ⟨castTo tgt r0.val, r0.err⟩ = true ∧ specStr tgt w r0 = true := by
  have hb : mustStr (isSigned tgt) mlo mhi w = true → r0.err = .ok := by
    intro h
    simp only [mustStr, Bool.and_eq_true] at h
    obtain ⟨hc, hz⟩ := h
    cases hs : intSyntax w with
    | none => simp [hs] at hz
    | some z =>
      simp [hs] at hz
      have := P3 z hs (by omega) (by omega) (by
        cases hsg : isSigned tgt with
        | true => left; simp [hu, hsg]
        | false => right; rw [hsg] at hc; exact canon_unsigned w z hc hs)
      simp [this]
  have ha : r0.err = .ok → ∃ z, intSyntax w = some z ∧ r0.val = .i z ∧ castTo tgt r0.val = .i z ∧ lo ≤ z ∧ z ≤ hi := by
    intro h
    obtain ⟨z, h1, h2, h3, h4⟩ := P1 h
    refine ⟨z, h1, h2, ?_, by omega, by omega⟩
    rw [h2]
    simp [castTo, hr, wrap_of_mem lo hi z (by omega) (by omega)]
  constructor
  · simp only [specStr, hr, hm]
    by_cases he : r0.err = .ok
    · obtain ⟨z, h1, _, h3, h4, h5⟩ := ha he
      simp [he, h1, h3, h4, h5]
    · have hcf : mustStr (isSigned tgt) mlo mhi w = false := by
        cases hcc : mustStr (isSigned tgt) mlo mhi w with
        | false => rfl
        | true => exact absurd (hb hcc) he
      simp [he, hcf]
  · simp only [specStr, hr, hm]
    by_cases he : r0.err = .ok
    · obtain ⟨z, h1, h2, _, h4, h5⟩ := ha he
      simp [he, h1, h2, h4, h5]
    · have hcf : mustStr (isSigned tgt) mlo mhi w = false := by
        cases hcc : mustStr (isSigned tgt) mlo mhi w with
        | false => rfl
        | true => exact absurd (hb hcc) he
      simp [he, hcf]


theorem okSrc_sound (sc : Strconv) (hc : ParseIntContract sc) (tgt : Ty) (lo hi mlo mhi : Int) (hr : tgt.range = some (lo, hi)) (hm : tgt.must = some (mlo, mhi))
    (s : Src) (w : String)
    (hok : (match parseRange s with
      | some (plo, phi) =>
        decide (lo ≤ plo ∧ phi ≤ hi) && decide (plo ≤ mlo ∧ mhi ≤ phi) && (isUnsignedParse s == !isSigned tgt)
      | none => false) = true) :
    specStr tgt w ⟨castTo tgt (parseCall sc s w).val, (parseCall sc s w).err⟩ = true ∧
    specStr tgt w (parseCall sc s w) = true := by
  cases hp : parseRange s with
  | none => simp [hp] at hok
  | some pr =>
    obtain ⟨plo, phi⟩ := pr
    simp only [hp, Bool.and_eq_true, decide_eq_true_eq, beq_iff_eq] at hok
    obtain ⟨⟨h1, h2⟩, h3⟩ := hok
    obtain ⟨P1, _, P3⟩ := hc s plo phi hp w
    exact str_core tgt lo hi mlo mhi plo phi (isUnsignedParse s) hr hm h3 h1 h2 w (parseCall sc s w) P1 P3

theorem parseCall_val (sc : Strconv) (hc : ParseIntContract sc) (s : Src) (plo phi : Int) (hp : parseRange s = some (plo, phi)) (h0 : plo ≤ 0 ∧ 0 ≤ phi)
    (w : String) : ∃ v, (parseCall sc s w).val = .i v ∧ plo ≤ v ∧ v ≤ phi := by
  obtain ⟨P1, P2, _⟩ := hc s plo phi hp w
  by_cases he : (parseCall sc s w).err = .ok
  · obtain ⟨z, _, hz, h1, h2⟩ := P1 he
    exact ⟨z, hz, h1, h2⟩
  · obtain ⟨_, hv⟩ := P2 he
    rcases hv with hv | hv | hv
    · exact ⟨0, hv, h0.1, h0.2⟩
    · exact ⟨plo, hv, Int.le_refl _, by omega⟩
    · exact ⟨phi, hv, by omega, Int.le_refl _⟩

theorem strIntBodyOK_sound (sc : Strconv) (hc : ParseIntContract sc) (tbl : List Case) (n : Nat) (tgt : Ty) (w : String)
    (hk : strIntBodyOK tgt (lookup tbl tgt (.ty .string)) = true) :
    specStr tgt w (conv sc tbl (n + 1) tgt (.ty .string) (.s w)) = true := by
  unfold strIntBodyOK at hk
  cases hr : tgt.range with
  | none => simp [hr] at hk
  | some p =>
    obtain ⟨lo, hi⟩ := p
    cases hm : tgt.must with
    | none => simp [hr, hm] at hk
    | some q =>
      obtain ⟨mlo, mhi⟩ := q
      simp only [hr, hm] at hk
      rw [conv_succ]
      generalize lookup tbl tgt (.ty .string) = body at hk
      match body, hk with
      | .bind s none ⟨.cast t .v, .fromCall⟩ _, hk =>
        simp only [Bool.and_eq_true, beq_iff_eq] at hk
        obtain ⟨rfl, hok⟩ := hk
        have hs := (okSrc_sound sc hc t lo hi mlo mhi hr hm s w (by simpa using hok)).1
        cases s <;> first | (simp [parseRange] at hok; done) | simpa [evalBody, evalR, errOf, evalE, parseCall, strOf] using hs
      | .direct s, hk =>
        have hs := (okSrc_sound sc hc tgt lo hi mlo mhi hr hm s w (by simpa using hk)).2
        cases s <;> first | (simp [parseRange] at hk; done) | simpa [evalBody, parseCall, strOf] using hs
      | .bind s (some g) ⟨.cast t .v, .fromCall⟩ (some ⟨fe, .overflow⟩), hk =>
        simp only [Bool.and_eq_true, beq_iff_eq] at hk
        obtain ⟨⟨rfl, hok⟩, hgd⟩ := hk
        have hs := (okSrc_sound sc hc t lo hi mlo mhi hr hm s w (by simpa using hok)).1
        cases hp : parseRange s with
        | none => simp [hp] at hgd
        | some pr =>
          obtain ⟨plo, phi⟩ := pr
          cases hg : intBounds g with
          | none => simp [hp, hg] at hgd
          | some lh =>
            obtain ⟨l, h⟩ := lh
            simp only [hp, hg, Bool.and_eq_true, decide_eq_true_eq] at hgd
            obtain ⟨h0, hcov⟩ := hgd
            obtain ⟨v, hv, hv1, hv2⟩ := parseCall_val sc hc s plo phi hp h0 w
            have hpass := guardCovers_pass hcov v hv1 hv2
            have hev : evalC (parseCall sc s w).val g = some true := by
              rw [hv, intBounds_sound g l h v hg, hpass]
            cases s <;> first
              | (simp [parseRange] at hp; done)
              | (simp only [parseCall, strOf] at hev hs
                 simpa [evalBody, hev, evalR, errOf, evalE, strOf] using hs)

end FpgoVerif.C02
