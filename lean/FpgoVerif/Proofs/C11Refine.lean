import FpgoVerif.Proofs.C11Lemmas
/-! C11 helper lemmas, part 2: what `doSubscribe` / `yieldFromIO` compute, and the simulation relation between the
    implementation model (`implStep`) and the Spec (`specStep`) used by `C11_model_refines_spec`.  (Moved out of
    `Props/C11.lean`, which holds only the property theorems.) -/
namespace FpgoVerif.C11

variable {α : Type}

/-- proof of `C11_subscribe_once` -/
theorem subscribe_once (m : M α) (onNext : α → Tag → World → World) (ob sub : Option Tag) (g : Tag)
    (w : World) :
    doSubscribe m ⟨some onNext⟩ ob sub g w =
      onNext (eval m (ob.getD g) w).1 (sub.getD (ob.getD g)) (eval m (ob.getD g) w).2 := by
  cases ob <;> cases sub <;> rfl

/-- proof of `C11_subscribe_nil` -/
theorem subscribe_nil (m : M α) (ob sub : Option Tag) (g : Tag) (w : World) :
    doSubscribe m ⟨none⟩ ob sub g w = w := rfl

/-- proof of `C11_yieldFromIO` -/
theorem yieldFromIO_eq (m : M Nat) (g : Tag) (w : World) :
    yieldFromIO m g w =
      (subscribeOn m none, (eval m (m.obOn.getD g) { w with cell := 0 }).1,
       { (eval m (m.obOn.getD g) { w with cell := 0 }).2 with cell := (eval m (m.obOn.getD g) { w with cell := 0 }).1 }) := by
  unfold yieldFromIO subscribe
  show (_, World.cell (doSubscribe (subscribeOn m none) _ m.obOn none g _), doSubscribe (subscribeOn m none) _ m.obOn none g _) = _
  rw [subscribe_once]
  rfl

/-- one object and the world vs. the statement's view of it -/
def RelB (s : M Nat × World) (st : SpecSt) : Prop :=
  s.1.effect = (den st.t 0).effect ∧ s.1.obOn = st.ob ∧ s.1.subOn = st.sub ∧ s.2.log.length = st.n

theorem basic_step (m : M Nat) (w : World) (st : SpecSt) (o : BOp) (hrel : RelB (m, w) st) :
    RelB (implOp (m, w) o).1 (specOp' st o).1 ∧ (implOp (m, w) o).2 = (specOp' st o).2 := by
  obtain ⟨he, hob, hsub, hn⟩ := hrel
  simp only at he hob hsub hn
  have hev : ∀ g w', eval m g w' = ((run st.t 0 w'.log.length).1, w'.emits (run st.t 0 w'.log.length).2 g) := by
    intro g w'; unfold eval doEffect; rw [he]; exact den_effect st.t 0 g w'
  have hsubs : ∀ w', subscribe m ⟨some logNext⟩ .main w' =
      (w'.emits (run st.t 0 w'.log.length).2 (st.ob.getD .main)).emit (.next (run st.t 0 w'.log.length).1)
        (st.sub.getD (st.ob.getD .main)) := by
    intro w'; unfold subscribe; rw [subscribe_once, hev, hob, hsub]; rfl
  cases o with
  | build => exact ⟨⟨he, hob, hsub, hn⟩, rfl⟩
  | ob h => exact ⟨⟨he, rfl, hsub, hn⟩, rfl⟩
  | so h => exact ⟨⟨he, hob, rfl, hn⟩, rfl⟩
  | eval =>
    simp only [implOp, specOp', hev, drop_emits, showEvs_kinds]
    rw [← hn]
    exact ⟨⟨he, hob, hsub, by simp⟩, rfl⟩
  | sub =>
    simp only [implOp, specOp', hsubs, drop_emits_emit, showEvs_kinds_next]
    rw [← hn]
    exact ⟨⟨he, hob, hsub, by simp [Nat.add_assoc]⟩, rfl⟩
  | subNil =>
    exact ⟨⟨he, hob, hsub, hn⟩, by simp [implOp, specOp', subscribe, subscribe_nil, showEvs, joinEvs]⟩
  | yield =>
    have hev0 := hev (st.ob.getD .main) { w with cell := 0 }
    have hd := drop_emits { w with cell := 0 } (run st.t 0 w.log.length).2 (st.ob.getD .main)
    simp only [implOp, specOp', yieldFromIO_eq, hob, hev0]
    rw [← hn]
    refine ⟨⟨he, hob, rfl, by simp⟩, ?_⟩
    show _ ++ toString (showEvs (List.drop w.log.length _)) = _
    rw [hd, showEvs_kinds]

/-- an object of the model vs. an object of the Spec -/
def RelReg : Option (M Nat) → Option SReg → Prop
  | none, none => True
  | some m, some r => m.effect = (den r.t 0).effect ∧ m.obOn = r.ob ∧ m.subOn = r.sub
  | _, _ => False

def RelPend : Option (Tag × (World → World)) → Option (Tag × Nat × Tag) → Prop
  | none, none => True
  | some (hb, k), some (hb', v, g2) => hb = hb' ∧ k = fun w => w.emit (.next v) g2
  | _, _ => False

def Rel (s : ISt) (t : SSt) : Prop :=
  (∀ k, RelReg (s.regs k) (t.regs k)) ∧ s.cur = t.cur ∧ s.w.log.length = t.n ∧ RelPend s.pend t.pend ∧
    s.allowSame = t.allowSame ∧ s.qok = t.qok ∧ s.queue = t.queue.map qF

theorem relReg_set {regs : Nat → Option (M Nat)} {sregs : Nat → Option SReg} (h : ∀ k, RelReg (regs k) (sregs k))
    (j j' : Nat) (hj : j = j') (m : M Nat) (r : SReg) (hr : RelReg (some m) (some r)) :
    ∀ k, RelReg (setReg regs j m k) (setReg sregs j' r k) := by
  subst hj
  intro k; unfold setReg; by_cases hk : k = j <;> simp [hk, hr, h k]

theorem rel_step (s : ISt) (t : SSt) (o : Op) (h : Rel s t) :
    Rel (implStep s o).1 (specStep t o).1 ∧ (implStep s o).2 = (specStep t o).2 := by
  obtain ⟨hregs, hcur, hn, hpend, hsame, hqok, hq⟩ := h
  have hcurReg : RelReg (s.regs s.cur) (t.regs t.cur) := hcur ▸ hregs s.cur
  cases o with
  | sel j =>
    have hj := hregs j
    simp only [implStep, specStep]
    revert hj
    cases s.regs j <;> cases t.regs j <;> intro hj <;> simp only [RelReg] at hj
    · exact ⟨⟨hregs, hcur, hn, hpend, hsame, hqok, hq⟩, rfl⟩
    · exact ⟨⟨hregs, rfl, hn, hpend, hsame, hqok, hq⟩, rfl⟩
  | derive j c b =>
    simp only [implStep, specStep]
    revert hcurReg
    cases s.regs s.cur <;> cases t.regs t.cur <;> intro hr <;> simp only [RelReg] at hr
    · exact ⟨⟨hregs, hcur, hn, hpend, hsame, hqok, hq⟩, rfl⟩
    · rename_i m r
      refine ⟨⟨relReg_set hregs j j rfl _ _ ⟨?_, rfl, rfl⟩, hcur, hn, hpend, hsame, hqok, hq⟩, rfl⟩
      simp only [den, flatMap, doEffect, hr.1]
  | deriveRet j c k =>
    have hk := hregs k
    simp only [implStep, specStep]
    revert hcurReg hk
    cases s.regs s.cur <;> cases t.regs t.cur <;> cases s.regs k <;> cases t.regs k <;> intro hr hk <;>
      simp only [RelReg] at hr hk
    · exact ⟨⟨hregs, hcur, hn, hpend, hsame, hqok, hq⟩, rfl⟩
    · exact ⟨⟨hregs, hcur, hn, hpend, hsame, hqok, hq⟩, rfl⟩
    · exact ⟨⟨hregs, hcur, hn, hpend, hsame, hqok, hq⟩, rfl⟩
    · rename_i m r mk rk
      refine ⟨⟨relReg_set hregs j j rfl _ _ ⟨?_, rfl, rfl⟩, hcur, hn, hpend, hsame, hqok, hq⟩, rfl⟩
      simp only [den, flatMap, doEffect, kont, new, hr.1, hk.1]
  | gopen =>
    simp only [implStep, specStep]
    cases hpi : s.pend <;> cases hps : t.pend <;> (have hp' := hpend; rw [hpi, hps] at hp'; simp only [RelPend] at hp')
    · exact ⟨⟨hregs, hcur, hn, hpend, hsame, hqok, hq⟩, rfl⟩
    · rename_i p q
      obtain ⟨hb, k⟩ := p
      obtain ⟨hb', v, g2⟩ := q
      simp only [RelPend] at hp'
      obtain ⟨_, rfl⟩ := hp'
      have hlog : (s.queue.foldl (fun w f => f w) (s.w.emit (.next v) g2)).log =
          s.w.log ++ (⟨.next v, g2⟩ :: t.queue.map (fun p => ⟨.next p.1, p.2⟩)) := by
        rw [hq, queue_log]; simp
      refine ⟨⟨hregs, hcur, ?_, trivial, hsame, rfl, rfl⟩, ?_⟩
      · show (s.queue.foldl (fun w f => f w) (s.w.emit (.next v) g2)).log.length = t.n + 1 + t.queue.length
        rw [hlog]; simp [hn]; omega
      · show showEvs ((s.queue.foldl (fun w f => f w) (s.w.emit (.next v) g2)).log.drop s.w.log.length) = _
        rw [hlog]
        simp [showEvs, joinEvs, showKinds, List.map_map, Function.comp_def]
  | gsub =>
    simp only [implStep, specStep]
    revert hcurReg
    cases s.regs s.cur <;> cases t.regs t.cur <;> intro hr <;> simp only [RelReg] at hr
    · exact ⟨⟨hregs, hcur, hn, hpend, hsame, hqok, hq⟩, rfl⟩
    · rename_i m r
      cases hpi : s.pend <;> cases hps : t.pend <;> (have hp' := hpend; rw [hpi, hps] at hp'; simp only [RelPend] at hp')
      · dsimp only
        rw [hr.2.1, hr.2.2, hsame]
        cases hob : (if (!t.allowSame && sameUnbuffered r.ob r.sub) = true then none else r.ob) with
        | none => exact ⟨⟨hregs, hcur, hn, hpend, hsame, hqok, hq⟩, rfl⟩
        | some hb =>
          have hobr : r.ob = some hb := by
            revert hob; split <;> intro hob
            · cases hob
            · exact hob
          have hev : doEffect m hb s.w = ((run r.t 0 s.w.log.length).1, s.w.emits (run r.t 0 s.w.log.length).2 hb) := by
            unfold doEffect; rw [hr.1]; exact den_effect r.t 0 hb s.w
          dsimp only
          simp only [doSubscribeSplit, hobr, Option.getD_some]
          refine ⟨⟨hregs, hcur, ?_, ?_, rfl, rfl, rfl⟩, ?_⟩
          · show (doEffect m hb s.w).2.log.length = _
            rw [hev, ← hn]; simp
          · show RelPend (some (hb, _)) (some (hb, _, _))
            refine ⟨rfl, ?_⟩
            show (fun w' => logNext (doEffect m hb s.w).1 (r.sub.getD hb) w') = _
            rw [hev, ← hn]; rfl
          · show showEvs ((doEffect m hb s.w).2.log.drop s.w.log.length) = _
            rw [hev, drop_emits, showEvs_kinds, ← hn]
      · exact ⟨⟨hregs, hcur, hn, hpend, hsame, hqok, hq⟩, rfl⟩
  | basic o =>
    simp only [implStep, specStep]
    revert hcurReg
    cases s.regs s.cur <;> cases t.regs t.cur <;> intro hr <;> simp only [RelReg] at hr
    · exact ⟨⟨hregs, hcur, hn, hpend, hsame, hqok, hq⟩, rfl⟩
    · rename_i m r
      have hguard : guarded s.allowSame s.pend m.obOn m.subOn o = guarded t.allowSame t.pend r.ob r.sub o := by
        cases hpi : s.pend <;> cases hps : t.pend <;> (have hp' := hpend; rw [hpi, hps] at hp'; simp only [RelPend] at hp')
        · simp only [guarded, hr.2.1, hr.2.2, hsame]
        · rename_i p q
          obtain ⟨hb, k⟩ := p
          obtain ⟨hb', v, g2⟩ := q
          simp only [RelPend] at hp'
          simp only [guarded, hp'.1, hr.2.1, hr.2.2, hsame]
      have hqueues : queues s.pend s.qok s.queue.length m.obOn m.subOn o = queues t.pend t.qok t.queue.length r.ob r.sub o := by
        have hl : s.queue.length = t.queue.length := by rw [hq]; simp
        cases hpi : s.pend <;> cases hps : t.pend <;> (have hp' := hpend; rw [hpi, hps] at hp'; simp only [RelPend] at hp')
        · simp only [queues]
        · rename_i p q
          obtain ⟨hb, k⟩ := p
          obtain ⟨hb', v, g2⟩ := q
          simp only [RelPend] at hp'
          simp only [queues, hp'.1, hr.2.1, hr.2.2, hqok, hl]
          cases o <;> rfl
      dsimp only
      rw [hqueues, hguard]
      split
      · -- the delivery is queued behind the gated subscription
        rename_i hqs
        have hsub3 : r.sub = some .h3 := by
          revert hqs; unfold queues
          cases o <;> cases t.pend <;> simp
          intro _ _ h _ _; exact h
        have hev : ∀ g, doEffect m g s.w = ((run r.t 0 s.w.log.length).1, s.w.emits (run r.t 0 s.w.log.length).2 g) := by
          intro g; unfold doEffect; rw [hr.1]; exact den_effect r.t 0 g s.w
        simp only [doSubscribeSplit, hr.2.1, hr.2.2, hsub3, Option.getD_some, hev]
        refine ⟨⟨hregs, hcur, ?_, hpend, hsame, hqok, ?_⟩, ?_⟩
        · show (s.w.emits _ _).log.length = _
          rw [← hn]; simp
        · show s.queue ++ [_] = (t.queue ++ [_]).map qF
          rw [hq, ← hn]; simp [qF, logNext]; rfl
        · show showEvs ((s.w.emits _ _).log.drop s.w.log.length) = _
          rw [drop_emits, showEvs_kinds, ← hn]
      split
      · exact ⟨⟨hregs, hcur, hn, hpend, hsame, hqok, hq⟩, rfl⟩
      · have hb := basic_step m s.w ⟨r.t, r.ob, r.sub, t.n⟩ o ⟨hr.1, hr.2.1, hr.2.2, hn⟩
        obtain ⟨⟨h1, h2, h3, h4⟩, hout⟩ := hb
        exact ⟨⟨relReg_set hregs _ _ hcur _ _ ⟨h1, h2, h3⟩, hcur, h4, hpend, hsame, hqok, hq⟩, hout⟩

end FpgoVerif.C11
