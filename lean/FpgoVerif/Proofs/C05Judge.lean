import FpgoVerif.Proofs.C05Lists
/-! C05: the Bool checks the judge evaluates are implied by the Prop-level laws (so the oracle accepts
    every result that satisfies the theorems of `Props/C05.lean`). -/
namespace FpgoVerif.C05

theorem Spec.nodup_iff (l : List Nat) : Spec.nodup l = true ↔ l.Nodup := by
  induction l with
  | nil => simp [Spec.nodup]
  | cons x xs ih => simp [Spec.nodup, ih, List.nodup_cons]

theorem Spec.members_of (univ r : List Nat) (p : Nat → Bool) (h : ∀ x, x ∈ r ↔ p x = true) :
    Spec.members univ r p = true := by
  simp only [Spec.members, List.all_eq_true, beq_iff_eq]
  intro x _
  cases hp : p x with
  | true => simpa using (h x).2 hp
  | false =>
    have : x ∉ r := fun hx => by have := (h x).1 hx; simp [hp] at this
    simpa using this

theorem Spec.ordered_of (a r : List Nat) (q : Nat → Bool) (h : r = (Spec.dedup a).filter q) : Spec.ordered a r = true := by
  simp only [Spec.ordered, beq_iff_eq]
  conv => lhs; rw [h]
  apply List.filter_congr
  intro x hx
  rw [h]
  cases hq : q x with
  | true => symm; simpa using ⟨hx, hq⟩
  | false => symm; simp [hq]

end FpgoVerif.C05
