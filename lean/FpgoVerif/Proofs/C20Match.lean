import FpgoVerif.Model.C20
/-! Helper lemmas for the pattern-matching part of C20: the loops of `ProductType/SumType.Matches`
    against their Spec, Go interface equality for comparable pattern values, `preprocess = view`. -/

namespace FpgoVerif.C20

theorem map_beq_of_length_ne (vs : List Atom) (ks : List Nat) (h : vs.length ≠ ks.length) :
    (vs.map Atom.justKind == ks) = false := by
  cases hb : (vs.map Atom.justKind == ks) with
  | false => rfl
  | true =>
    have := congrArg List.length (eq_of_beq hb)
    simp at this
    exact absurd this h

/-- the index/accumulator loop of `ProductType.Matches`, started at offset `pre.length` -/
theorem prodLoop_eq (vs : List Atom) : ∀ (ks' pre : List Nat) (acc : Bool), vs.length = ks'.length →
    prodLoop (pre ++ ks') vs pre.length acc = (acc && (vs.map Atom.justKind == ks')) := by
  induction vs with
  | nil =>
    intro ks' pre acc h
    have : ks' = [] := List.length_eq_zero_iff.mp (by simpa using h.symm)
    subst this; simp [prodLoop]
  | cons v vs ih =>
    intro ks' pre acc h
    cases ks' with
    | nil => simp at h
    | cons k ks'' =>
      have hidx : (pre ++ k :: ks'')[pre.length]? = some k := by simp
      have hre : pre ++ k :: ks'' = (pre ++ [k]) ++ ks'' := by simp
      have hlen : pre.length + 1 = (pre ++ [k]).length := by simp
      simp only [prodLoop, hidx]
      rw [hre, hlen, ih ks'' (pre ++ [k]) _ (by simpa using h)]
      have hk : (some k == some v.justKind) = (v.justKind == k) := by
        by_cases hkk : k = v.justKind
        · subst hkk; simp
        · have h1 : (some k == some v.justKind) = false := by simp [hkk]
          have h2 : (v.justKind == k) = false := by simp [Ne.symm hkk]
          rw [h1, h2]
      rw [hk]
      simp [List.map_cons, Bool.and_assoc]

theorem prodLoop_spec (ks : List Nat) (vs : List Atom) (h : vs.length = ks.length) :
    prodLoop ks vs 0 true = (vs.map Atom.justKind == ks) := by
  simpa using prodLoop_eq vs ks [] true h

mutual
theorem matches_eq : ∀ (t : CompType) (vs : List Atom), t.matches vs = Spec.typeMatches t vs
  | .sum ts, vs => by
    rw [CompType.matches, Spec.typeMatches]; exact matchesAny_eq ts vs
  | .prod ks, vs => by
    rw [CompType.matches, Spec.typeMatches]
    by_cases h : vs.length = ks.length
    · simp only [h, bne_self_eq_false, Bool.false_eq_true, if_false]; exact prodLoop_spec ks vs h
    · have : (vs.length != ks.length) = true := by simp [h]
      simp only [this, if_true]; exact (map_beq_of_length_ne vs ks h).symm
  | .nilT, vs => by
    rcases vs with _ | ⟨v, _ | ⟨w, rest⟩⟩ <;> simp [CompType.matches, Spec.typeMatches]
theorem matchesAny_eq : ∀ (ts : List CompType) (vs : List Atom), CompType.matchesAny ts vs = Spec.anyMatches ts vs
  | [], vs => by rw [CompType.matchesAny, Spec.anyMatches]
  | t :: ts, vs => by
    rw [CompType.matchesAny, Spec.anyMatches, matches_eq t vs, matchesAny_eq ts vs]
    cases Spec.typeMatches t vs <;> simp
end

/-- Go `==` with a comparable (or nil) left operand never panics and is "same dynamic type and equal" -/
theorem goEq_comparable (pv v : GoVal) (h : (Pat.equal pv).inScope = true) :
    goEq pv v = .ok (Spec.equalTo pv v) := by
  unfold goEq Spec.equalTo
  simp only [Pat.inScope] at h
  cases hp : pv.ty with
  | none => cases hv : v.ty <;> simp
  | some ta =>
    simp only [hp] at h
    cases hv : v.ty with
    | none => simp
    | some tb =>
      by_cases hne : ta = tb
      · subst hne; simp [h]
      · simp [hne]

theorem preprocess_eq_view (v : GoVal) : preprocess v = Spec.view v := by
  cases v with
  | atom a => unfold preprocess Spec.view; split <;> rfl
  | comp objs => unfold preprocess Spec.view; split <;> rfl
  | compptr a objs =>
    have : (GoVal.compptr a objs).justIsKind kPtr = true := by
      simp [GoVal.justIsKind, GoVal.isNil, GoVal.valueKind, GoVal.ty, Ty.kind]
    simp [preprocess, Spec.view, this]

/-- a string-kind value is exactly one that has a text -/
theorem text_some_iff (v : GoVal) : (v.isNil || v.valueKind != kString) = false ↔ v.text.isSome = true := by
  cases v with
  | atom a =>
    cases a <;> simp [GoVal.isNil, Atom.isNil, GoVal.valueKind, GoVal.ty, Atom.ty, Ty.kind, GoVal.text,
      kString, kPtr, kStruct, kSlice, kMap, kInvalid]
    all_goals (split <;> omega)
  | comp objs => simp [GoVal.isNil, GoVal.valueKind, GoVal.ty, Ty.kind, GoVal.text, kString, kStruct]
  | compptr a objs => simp [GoVal.isNil, GoVal.valueKind, GoVal.ty, Ty.kind, GoVal.text, kString, kPtr]

end FpgoVerif.C20
