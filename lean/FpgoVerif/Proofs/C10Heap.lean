import FpgoVerif.Model.C10Core
/-! C10 helper lemmas, part 1: the slice heap.  Key lemma (`Ext`): a protected snapshot header —
    one that lies in an allocated array and, when that array is the current array of `subs`, does not
    reach beyond `subs.len` — keeps its content under `append` (writes at index `subs.len` or
    allocates) and under the copying removal (allocates). -/
namespace FpgoVerif.C10

theorem cellsOf_modify (hp : Heap) (a b : Nat) (f : List Nat → List Nat) :
    cellsOf (hp.modify a f) b = if a = b then (if b < hp.length then f (cellsOf hp b) else []) else cellsOf hp b := by
  unfold cellsOf
  simp only [List.getD_eq_getElem?_getD, List.getElem?_modify]
  by_cases hab : a = b
  · subst hab
    by_cases hlt : a < hp.length
    · simp [hlt]
    · simp [hlt]
  · simp only [hab, if_false]
    cases hp[b]? <;> simp

theorem cellsOf_append_left (hp : Heap) (l : List Nat) (a : Nat) (h : a < hp.length) :
    cellsOf (hp ++ [l]) a = cellsOf hp a := by
  unfold cellsOf
  simp only [List.getD_eq_getElem?_getD]
  rw [List.getElem?_append_left h]

theorem cellsOf_append_new (hp : Heap) (l : List Nat) : cellsOf (hp ++ [l]) hp.length = l := by
  unfold cellsOf
  simp [List.getD_eq_getElem?_getD]

/-- shared-part well-formedness: `subs` denotes a strictly increasing list of live ids -/
structure WF (hp : Heap) (h : Hdr) (n : Nat) : Prop where
  arr_lt : h.arr < hp.length
  len_le : h.len ≤ h.cap
  cap_le : h.cap ≤ (cellsOf hp h.arr).length
  sorted : (content hp h).Pairwise (· < ·)
  pos : ∀ x ∈ content hp h, 0 < x ∧ x < n
  n_pos : 0 < n

theorem WF.length_content {hp h n} (w : WF hp h n) : (content hp h).length = h.len := by
  unfold content
  rw [List.length_take]
  have := w.len_le; have := w.cap_le
  omega

/-- a protected (snapshot) header -/
def Prot (hp : Heap) (subs h : Hdr) : Prop :=
  h.arr < hp.length ∧ (h.arr = subs.arr → h.len ≤ subs.len)

/-- a safe evolution of the shared part: protected headers keep their content and stay protected,
    ids only grow, and a registered-before id that has left `subs` never comes back -/
structure Ext (hp : Heap) (subs : Hdr) (n : Nat) (hp' : Heap) (subs' : Hdr) (n' : Nat) : Prop where
  frozen : ∀ h, Prot hp subs h → content hp' h = content hp h ∧ Prot hp' subs' h
  n_le : n ≤ n'
  gone : ∀ x, 0 < x → x < n → x ∉ content hp subs → x ∉ content hp' subs'

theorem take_set_succ (l : List Nat) (i x : Nat) (h : i < l.length) :
    (l.set i x).take (i + 1) = l.take i ++ [x] := by
  rw [List.take_add_one, List.take_set_of_le (Nat.le_refl i), List.getElem?_set]
  simp [h]

theorem appendSub_spec (grow : Nat → Nat) {hp h n} (w : WF hp h n) :
    WF (appendSub grow hp h n).1 (appendSub grow hp h n).2 (n + 1) ∧
    content (appendSub grow hp h n).1 (appendSub grow hp h n).2 = content hp h ++ [n] ∧
    Ext hp h n (appendSub grow hp h n).1 (appendSub grow hp h n).2 (n + 1) := by
  have hlen := w.length_content
  have hnp := w.n_pos
  have hsorted : (content hp h ++ [n]).Pairwise (· < ·) := by
    rw [List.pairwise_append]
    refine ⟨w.sorted, List.pairwise_singleton _ _, ?_⟩
    intro a ha b hb
    simp at hb; subst hb
    exact (w.pos a ha).2
  have hpos : ∀ x ∈ content hp h ++ [n], 0 < x ∧ x < n + 1 := by
    intro x hx
    rw [List.mem_append] at hx
    rcases hx with hx | hx
    · have := w.pos x hx; omega
    · simp at hx; subst hx; omega
  have hgone : ∀ x, 0 < x → x < n → x ∉ content hp h → x ∉ content hp h ++ [n] := by
    intro x _ hx hnot hmem
    rw [List.mem_append] at hmem
    rcases hmem with hm | hm
    · exact hnot hm
    · simp at hm; omega
  unfold appendSub
  by_cases hc : h.len < h.cap
  · simp only [hc, if_true]
    have hcells : cellsOf (hp.modify h.arr (fun c => c.set h.len n)) h.arr = (cellsOf hp h.arr).set h.len n := by
      rw [cellsOf_modify]; simp [w.arr_lt]
    have hlt : h.len < (cellsOf hp h.arr).length := Nat.lt_of_lt_of_le hc w.cap_le
    have hcont : content (hp.modify h.arr (fun c => c.set h.len n)) { h with len := h.len + 1 } = content hp h ++ [n] := by
      unfold content
      simp only [hcells]
      exact take_set_succ _ _ _ hlt
    refine ⟨⟨?_, ?_, ?_, ?_, ?_, by omega⟩, hcont, ⟨?_, by omega, ?_⟩⟩
    · simp [List.length_modify]; exact w.arr_lt
    · show h.len + 1 ≤ h.cap; omega
    · show h.cap ≤ _; rw [hcells, List.length_set]; exact w.cap_le
    · rw [hcont]; exact hsorted
    · rw [hcont]; exact hpos
    · intro h' ⟨hp1, hp2⟩
      refine ⟨?_, ?_, ?_⟩
      · unfold content
        rw [cellsOf_modify]
        by_cases he : h.arr = h'.arr
        · have hle : h'.len ≤ h.len := hp2 he.symm
          simp only [he, if_true, hp1]
          rw [List.take_set_of_le hle]
        · simp [he]
      · simp [List.length_modify]; exact hp1
      · intro he; have := hp2 he; show h'.len ≤ h.len + 1; omega
    · rw [hcont]; exact hgone
  · simp only [hc, if_false]
    have hcont : content (hp ++ [content hp h ++ n :: List.replicate (max (grow h.cap) (h.len + 1) - (h.len + 1)) 0])
        ⟨hp.length, h.len + 1, max (grow h.cap) (h.len + 1)⟩ = content hp h ++ [n] := by
      show ((cellsOf _ hp.length).take (h.len + 1)) = _
      rw [cellsOf_append_new]
      have hl : h.len + 1 = (content hp h ++ [n]).length := by simp [hlen]
      have he : ∀ r : List Nat, content hp h ++ n :: r = (content hp h ++ [n]) ++ r := by intro r; simp
      rw [he, hl]
      exact List.take_left
    refine ⟨⟨?_, ?_, ?_, ?_, ?_, by omega⟩, hcont, ⟨?_, by omega, ?_⟩⟩
    · simp
    · show h.len + 1 ≤ max _ _; omega
    · show max _ _ ≤ (cellsOf _ hp.length).length
      rw [cellsOf_append_new]; simp [hlen]; omega
    · rw [hcont]; exact hsorted
    · rw [hcont]; exact hpos
    · intro h' ⟨hp1, hp2⟩
      refine ⟨?_, ?_, ?_⟩
      · unfold content; rw [cellsOf_append_left _ _ _ hp1]
      · simp; omega
      · intro he; simp at he; omega
    · rw [hcont]; exact hgone

theorem findIdx_some {s : Nat} {l : List Nat} {i : Nat} (h : findIdx s l = some i) :
    i < l.length ∧ l[i]? = some s := by
  induction l generalizing i with
  | nil => simp [findIdx] at h
  | cons a l ih =>
    unfold findIdx at h
    by_cases ha : a = s
    · simp [ha] at h; subst h; simp [ha]
    · simp only [ha, if_false, Option.map_eq_some_iff] at h
      obtain ⟨j, hj, rfl⟩ := h
      have := ih hj
      refine ⟨by simp [this.1], ?_⟩
      simpa using this.2

theorem findIdx_none {s : Nat} {l : List Nat} (h : findIdx s l = none) : s ∉ l := by
  induction l with
  | nil => simp
  | cons a l ih =>
    unfold findIdx at h
    by_cases ha : a = s
    · simp [ha] at h
    · simp only [ha, if_false, Option.map_eq_none_iff] at h
      simp [ih h]; exact fun e => ha e.symm

theorem removeCopy_spec {hp h n} (w : WF hp h n) (i : Nat) (hi : i < h.len) :
    WF (removeCopy hp h i).1 (removeCopy hp h i).2 n ∧
    content (removeCopy hp h i).1 (removeCopy hp h i).2 = (content hp h).eraseIdx i ∧
    Ext hp h n (removeCopy hp h i).1 (removeCopy hp h i).2 n := by
  have hlen := w.length_content
  have hcont : content (removeCopy hp h i).1 (removeCopy hp h i).2 = (content hp h).eraseIdx i := by
    show ((cellsOf (hp ++ [(content hp h).eraseIdx i]) hp.length).take (h.len - 1)) = _
    rw [cellsOf_append_new]
    have : h.len - 1 = ((content hp h).eraseIdx i).length := by
      rw [List.length_eraseIdx]; simp [hlen, hi]
    rw [this]; exact List.take_length
  have hsub : ((content hp h).eraseIdx i).Sublist (content hp h) := List.eraseIdx_sublist _ _
  refine ⟨⟨?_, ?_, ?_, ?_, ?_, w.n_pos⟩, hcont, ⟨?_, Nat.le_refl _, ?_⟩⟩
  · simp [removeCopy]
  · simp [removeCopy]
  · show h.len - 1 ≤ (cellsOf (hp ++ [(content hp h).eraseIdx i]) hp.length).length
    rw [cellsOf_append_new, List.length_eraseIdx]; simp [hlen, hi]
  · rw [hcont]; exact w.sorted.sublist hsub
  · rw [hcont]; intro x hx; exact w.pos x (hsub.subset hx)
  · intro h' ⟨hp1, hp2⟩
    refine ⟨?_, ?_, ?_⟩
    · unfold content removeCopy; rw [cellsOf_append_left _ _ _ hp1]
    · simp [removeCopy]; omega
    · intro he; simp [removeCopy] at he; omega
  · rw [hcont]; intro x _ _ hnot hmem; exact hnot (hsub.subset hmem)

end FpgoVerif.C10
