import FpgoVerif.Proofs.C15PoolInv
namespace FpgoVerif.C15.Pl

set_option maxHeartbeats 1600000 in
theorem inv_spawn_1 {s s' pc} (hgrp : pcGroup pc = 1) (h : spawn s pc = some s') (hi : Inv s) : Inv s' := by
  obtain ⟨fn, nopanic, np0, w1, wr, oneC, startedC, startedFlag, w2flag, qcflag, pcflag, qp, loadFlag, chanFlag, c2load, doneFlag, doneQ, late0, pc0flag, closerIn⟩ := hi
  have b1 := Bool.toNat_le s.pflag; have b2 := Bool.toNat_le s.loadClosed; have b3 := Bool.toNat_le s.chanClosed
  have b4 := Bool.toNat_le s.closeStarted; have b5 := Bool.toNat_le s.closeDone; have b6 := Bool.toNat_le s.panic
  have b7 := Bool.toNat_le s.fixNotify; have b8 := Bool.toNat_le s.qflag; have b9 := Bool.toNat_le s.qclose
  cases pc <;> simp only [pcGroup] at hgrp <;> (try (exact absurd hgrp (by decide))) <;> simp [spawn, inc] at h
  all_goals (try (obtain ⟨hs, rfl⟩ := h))
  all_goals (try subst h)
  all_goals (c15hyps; constructor <;> (try simp [updK]) <;> c15goal)

set_option maxHeartbeats 6400000 in
theorem inv_step_1 {s s' nx pc ch} (hgrp : pcGroup pc = 1) (h : gstep s pc ch = some (s', nx)) (hi : Inv s) : Inv s' := by
  obtain ⟨fn, nopanic, np0, w1, wr, oneC, startedC, startedFlag, w2flag, qcflag, pcflag, qp, loadFlag, chanFlag, c2load, doneFlag, doneQ, late0, pc0flag, closerIn⟩ := hi
  obtain ⟨hc, s1, hs, rfl⟩ := gstep_some h
  clear h
  have b1 := Bool.toNat_le s.pflag; have b2 := Bool.toNat_le s.loadClosed; have b3 := Bool.toNat_le s.chanClosed
  have b4 := Bool.toNat_le s.closeStarted; have b5 := Bool.toNat_le s.closeDone; have b6 := Bool.toNat_le s.panic
  have b7 := Bool.toNat_le s.fixNotify; have b8 := Bool.toNat_le s.qflag; have b9 := Bool.toNat_le s.qclose
  cases pc <;> simp only [pcGroup] at hgrp <;> (try (exact absurd hgrp (by decide))) <;> simp only [step, kind, writers, readers, fn, eq_self, reduceIte, ite_true, ite_false] at hs hc
  all_goals (repeat' split at hs)
  all_goals (try (simp only [Option.some.injEq, Prod.mk.injEq] at hs))
  all_goals (try (obtain ⟨rfl, rfl⟩ := hs))
  all_goals (try (simp at hs))
  all_goals (try (obtain ⟨hg, hs⟩ := hs))
  all_goals (repeat' split at hs)
  all_goals (try (simp only [Option.some.injEq, Prod.mk.injEq] at hs))
  all_goals (try (obtain ⟨rfl, rfl⟩ := hs))
  all_goals (try (simp at hs))
  all_goals (try (obtain ⟨rfl, rfl⟩ := hs))
  all_goals (try subst_vars)
  all_goals (c15hyps; constructor <;> (try simp [move, kind, updK]) <;> c15goal)

end FpgoVerif.C15.Pl
