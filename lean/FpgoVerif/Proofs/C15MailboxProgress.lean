import FpgoVerif.Proofs.C15Mailbox
/-! Progress of the mailbox system, stated per program-counter *kind*: the counters do not record which message a
    goroutine carries, so the enabled atom is enabled for every parameter a goroutine at that kind may have. -/
namespace FpgoVerif.C15.Mb

theorem gstep_at {s pc} (ch : Bool) (hc : 0 < s.cnt (kind pc)) (hs : (step s pc).isSome = true) :
    ∃ s' nx, gstep s pc ch = some (s', nx) := by
  cases h : step s pc with
  | none => simp [h] at hs
  | some p =>
    obtain ⟨s1, nx⟩ := p
    refine ⟨{ s1 with cnt := move s1.cnt (kind pc) nx }, nx, ?_⟩
    unfold gstep
    rw [if_neg (by omega), h]

theorem progressK {s} (hi : Inv s) (hr : s.recovers = true) (hg : s.gate = true)
    (hb : 0 < s.cnt .p0 ∨ 0 < s.cnt .p1 ∨ 0 < s.cnt .c0 ∨ 0 < s.cnt .c1 ∨ 0 < s.cnt .r1) :
    ∃ k, 0 < s.cnt k ∧ ∀ pc, kind pc = k → live s pc → ∃ s' nx, gstep s pc false = some (s', nx) := by
  by_cases hc0 : 0 < s.cnt .c0
  · refine ⟨.c0, hc0, fun pc hk _ => ?_⟩
    cases pc <;> (try (simp [kind] at hk; done))
    exact gstep_at false hc0 (by simp [step])
  by_cases hc1 : 0 < s.cnt .c1
  · refine ⟨.c1, hc1, fun pc hk _ => ?_⟩
    cases pc <;> (try (simp [kind] at hk; done))
    exact gstep_at false hc1 (by simp only [step]; (repeat' split) <;> simp)
  by_cases h1 : 0 < s.cnt .r1
  · refine ⟨.r1, h1, fun pc hk hl => ?_⟩
    cases pc <;> (try (simp [kind] at hk; done))
    rename_i m
    exact gstep_at false h1 (r1_enabled hi hg (by omega) (by omega) m hl)
  by_cases h0 : 0 < s.cnt .p0
  · refine ⟨.p0, h0, fun pc hk _ => ?_⟩
    cases pc <;> (try (simp [kind] at hk; done))
    exact gstep_at false h0 (by simp only [step]; split <;> simp)
  have hp1 : 0 < s.cnt .p1 := by omega
  by_cases hcl : s.chClosed = true
  · refine ⟨.p1, hp1, fun pc hk _ => ?_⟩
    cases pc <;> (try (simp [kind] at hk; done))
    exact gstep_at false hp1 (by simp [step, hcl, hr])
  by_cases hroom : room s = true
  · refine ⟨.p1, hp1, fun pc hk _ => ?_⟩
    cases pc <;> (try (simp [kind] at hk; done))
    exact gstep_at false hp1 (by simp [step, hcl, hroom])
  have hr0 : 0 < s.cnt .r0 := by
    apply Classical.byContradiction; intro hcon
    rcases hi.consExit (by omega) with h | h
    · exact hcl h
    · have := (hi.selfCons h).2; omega
  refine ⟨.r0, hr0, fun pc hk _ => ?_⟩
  cases pc <;> (try (simp [kind] at hk; done))
  cases hbuf : s.buf with
  | nil =>
    exfalso
    simp [room, hbuf, hr0] at hroom
  | cons m rest =>
    exact gstep_at false hr0 (by simp [step, hbuf])

end FpgoVerif.C15.Mb
