import FpgoVerif.Model.C01Maybe
/-! Helper lemmas for the C01 property theorems (core only). -/

namespace FpgoVerif.C01
open Spec

local notation "Heap" => List GoVal

/-- `fpgo.IsNil` never panics (its `Value.IsNil` call is guarded by `Kind == Ptr`) and decides `absent` -/
theorem fpIsNil_eq (v : GoVal) : fpIsNil v = .ok (absent v) := by
  cases v with
  | ptr t a => cases a <;> rfl
  | _ => rfl

theorem justGenerics_eq (T : Ty) (v : GoVal) :
    justGenerics T v = .ok (.some T v (absent v) (!absent v)) := by
  simp [justGenerics, fpIsNil_eq, bind, Except.bind, pure, Except.pure]

theorem just_eq (v : GoVal) :
    just v = .ok (if absent v then .none else .some .any v false true) := by
  unfold just
  simp only [fpIsNil_eq, bind, Except.bind]
  cases h : absent v <;> simp [justGenerics_eq, h, pure, Except.pure]

/-- the Maybe the constructors build, in closed form -/
def built (c : Ctor) (v : GoVal) : MaybeV :=
  match c with
  | .just => if absent v then .none else .some .any v false true
  | .generics T => .some T v (absent v) (!absent v)

theorem mk_eq (c : Ctor) (v : GoVal) : mk c v = .ok (built c v) := by
  cases c <;> simp [mk, built, just_eq, justGenerics_eq]

theorem absent_nil_of_typeOf {v : GoVal} (h : typeOf? v = none) : v = .nil := by
  cases v <;> simp [typeOf?] at h ⊢

theorem not_absent_ne_nil {v : GoVal} (h : absent v = false) : v ≠ .nil := by
  intro e; subst e; simp [absent] at h

/-- a dynamic type is never an interface type -/
theorem typeOf_not_iface {x : GoVal} {t : Ty} (h : typeOf? x = some t) : isIfaceTy t = false := by
  cases x <;> simp [typeOf?] at h <;> subst h <;> rfl

end FpgoVerif.C01
