import FpgoVerif.Proofs.C04Frame
/-! C04 — well-formed-extension lemmas for the Set and StreamSet operations, and well-formedness
    preservation for the in-place mutators. -/
namespace FpgoVerif.C04
open World

/-! ### `mapOk` through the association-list functions -/

theorem mapOk_nil (w : World) : mapOk w [] := by intro kv h; simp at h

theorem mapOk_filter {w : World} {m : AMap} (h : mapOk w m) (f : Int × Val → Bool) : mapOk w (m.filter f) :=
  fun kv hkv => h kv (List.mem_filter.mp hkv).1

theorem mapOk_insert {w : World} {m : AMap} (h : mapOk w m) (k : Int) {v : Val} (hv : valOk w v) :
    mapOk w (Spec.insert k v m) := by
  induction m with
  | nil => intro kv hkv; simp [Spec.insert] at hkv; subst hkv; exact hv
  | cons a t ih =>
    have ht : mapOk w t := fun kv hkv => h kv (List.mem_cons_of_mem _ hkv)
    intro kv hkv
    simp only [Spec.insert] at hkv
    split at hkv
    · rcases List.mem_cons.mp hkv with rfl | hm
      · exact hv
      · exact ht kv hm
    · rcases List.mem_cons.mp hkv with rfl | hm
      · exact h _ (List.mem_cons_self ..)
      · exact ih ht kv hm

theorem mapOk_insertIfAbsent {w : World} {m : AMap} (h : mapOk w m) (k : Int) {v : Val} (hv : valOk w v) :
    mapOk w (Spec.insertIfAbsent k v m) := by
  unfold Spec.insertIfAbsent; split
  · exact h
  · exact mapOk_insert h k hv

theorem mapOk_foldl_insertIfAbsent {w : World} {v : Val} (hv : valOk w v) (items : List Int) :
    ∀ {m : AMap}, mapOk w m → mapOk w (items.foldl (fun m k => Spec.insertIfAbsent k v m) m) := by
  induction items with
  | nil => intro m h; exact h
  | cons a t ih => intro m h; exact ih (mapOk_insertIfAbsent h a hv)

theorem mapOk_foldl_insert {w : World} (g : Int → Int) (l : List (Int × Val)) (hl : ∀ kv ∈ l, valOk w kv.2) :
    ∀ {acc : AMap}, mapOk w acc → mapOk w (l.foldl (fun r kv => Spec.insert (g kv.1) kv.2 r) acc) := by
  induction l with
  | nil => intro acc h; exact h
  | cons a t ih =>
    intro acc h
    exact ih (fun kv hkv => hl kv (List.mem_cons_of_mem _ hkv)) (mapOk_insert h _ (hl a (List.mem_cons_self ..)))

theorem mapOk_ofKeys {w : World} {v : Val} (hv : valOk w v) (l : List Int) : mapOk w (Spec.ofKeys v l) :=
  mapOk_foldl_insertIfAbsent hv l (mapOk_nil w)

theorem mapOk_ofPairs {w : World} (l : List (Int × Val)) (hl : ∀ kv ∈ l, valOk w kv.2) : mapOk w (Spec.ofPairs l) :=
  mapOk_foldl_insert id l hl (mapOk_nil w)

theorem mapOk_merge {w : World} {m₁ m₂ : AMap} (h₁ : mapOk w m₁) (h₂ : mapOk w m₂) : mapOk w (Spec.merge m₁ m₂) :=
  mapOk_foldl_insert id m₂ h₂ h₁

theorem mapOk_mapKeys {w : World} {m : AMap} (h : mapOk w m) (f : Int → Int) : mapOk w (Spec.mapKeys f m) :=
  mapOk_foldl_insert f m h (mapOk_nil w)

theorem mapOk_mapVals {w : World} (m : AMap) (f : Val → Val) (hf : ∀ v, valOk w (f v)) : mapOk w (Spec.mapVals f m) := by
  intro kv hkv
  simp only [Spec.mapVals, List.mem_map] at hkv
  obtain ⟨a, _, rfl⟩ := hkv
  exact hf _

theorem lookup_ok {w : World} {m : AMap} (h : mapOk w m) {k : Int} {v : Val} (hl : Spec.lookup k m = some v) : valOk w v := by
  induction m with
  | nil => simp [Spec.lookup] at hl
  | cons a t ih =>
    obtain ⟨k', v'⟩ := a
    simp only [Spec.lookup] at hl
    split at hl
    · cases hl; exact h (k', v) (List.mem_cons_self ..)
    · exact ih (fun kv hkv => h kv (List.mem_cons_of_mem _ hkv)) hl

/-! ### Set operations -/

theorem setClone_res {w : World} (hw : Wf w) (p : Nat) : SetRes w (w.setClone p) := newSet_res hw (setMap_ok hw p)

theorem setMapKey_res {w : World} (hw : Wf w) (p : Nat) (f : Int → Int) : SetRes w (w.setMapKey p f) :=
  newSet_res hw (mapOk_mapKeys (setMap_ok hw p) f)

theorem setMapVal_res {w : World} (hw : Wf w) (p : Nat) (f : Val → Val) (hf : ∀ v, valOk w (f v)) :
    SetRes w (w.setMapVal p f) := newSet_res hw (mapOk_mapVals _ f hf)

theorem setAdd_res {w : World} (hw : Wf w) {p : Nat} (hp : p < w.sets.length) {zero : Val} (hz : valOk w zero)
    (items : List Int) : SetRes w (w.setAdd p zero items) := by
  unfold setAdd; split
  · exact SetRes.self hw hp
  · exact newSet_res hw (mapOk_foldl_insertIfAbsent hz items (setMap_ok hw p))

theorem setRemoveKeys_res {w : World} (hw : Wf w) {p : Nat} (hp : p < w.sets.length) (items : List Int) :
    SetRes w (w.setRemoveKeys p items) := by
  unfold setRemoveKeys; split
  · exact SetRes.self hw hp
  · exact newSet_res hw (mapOk_filter (setMap_ok hw p) _)

theorem setRemoveValues_res {w : World} (hw : Wf w) {p : Nat} (hp : p < w.sets.length) (vals : List Val) :
    SetRes w (w.setRemoveValues p vals) := by
  unfold setRemoveValues; split
  · exact SetRes.self hw hp
  · exact newSet_res hw (mapOk_filter (setMap_ok hw p) _)

theorem setUnion_res {w : World} (hw : Wf w) {p : Nat} (hp : p < w.sets.length) (q : Option Nat) :
    SetRes w (w.setUnion p q) := by
  unfold setUnion
  cases q with
  | none => exact SetRes.self hw hp
  | some q =>
    simp only; split
    · exact SetRes.self hw hp
    · exact newSet_res hw (mapOk_merge (setMap_ok hw p) (setMap_ok hw q))

theorem setInter_res {w : World} (hw : Wf w) (p : Nat) (q : Option Nat) : SetRes w (w.setInter p q) := by
  unfold setInter
  cases q with
  | none => exact newNilSet_res hw
  | some q =>
    simp only; split
    · exact newNilSet_res hw
    · exact newSet_res hw (mapOk_filter (setMap_ok hw p) _)

theorem setMinus_res {w : World} (hw : Wf w) {p : Nat} (hp : p < w.sets.length) (q : Option Nat) :
    SetRes w (w.setMinus p q) := by
  unfold setMinus
  cases q with
  | none => exact SetRes.self hw hp
  | some q =>
    simp only; split
    · exact SetRes.self hw hp
    · exact newSet_res hw (mapOk_filter (setMap_ok hw p) _)

theorem setKeys_res {w : World} (hw : Wf w) (p : Nat) : ArrRes w (w.setKeys p) := allocArr_good hw _
theorem setValues_res {w : World} (hw : Wf w) (p : Nat) : ArrRes w (w.setValues p) := allocArr_good hw _

/-! ### StreamSet operations -/

/-- rebuilding a map entry by entry with an allocating step function -/
theorem mapEntriesM_res {w₀ : World} (f : World → Int → Val → World × Val)
    (hf : ∀ w k v, Good w₀ w → valOk w v → Good w (f w k v).1 ∧ valOk (f w k v).1 (f w k v).2) :
    ∀ (m : AMap) (w : World), Good w₀ w → mapOk w m →
      Good w (mapEntriesM f w m).1 ∧ mapOk (mapEntriesM f w m).1 (mapEntriesM f w m).2 := by
  intro m
  induction m with
  | nil => intro w g _; exact ⟨Good.refl g.wf, mapOk_nil _⟩
  | cons a t ih =>
    obtain ⟨k, v⟩ := a
    intro w g hm
    have h1 := hf w k v g (hm (k, v) (List.mem_cons_self ..))
    have ht : mapOk (f w k v).1 t := mapOk_le h1.1.le (fun kv hkv => hm kv (List.mem_cons_of_mem _ hkv))
    have h2 := ih (f w k v).1 (g.trans h1.1) ht
    simp only [mapEntriesM]
    refine ⟨h1.1.trans h2.1, ?_⟩
    intro kv hkv
    rcases List.mem_cons.mp hkv with rfl | hmem
    · exact valOk_le h2.1.le h1.2
    · exact h2.2 kv hmem

theorem valStr_lt {w : World} {v : Val} (hv : valOk w v) {q : Nat} (h : valStr v = some q) : q < w.strs.length := by
  cases v with
  | int n => simp [valStr] at h
  | str p => cases p with
    | none => simp [valStr] at h
    | some q' => simp [valStr] at h; subst h; exact hv

theorem nonEmptyAt_lt {w : World} {m : AMap} (hm : mapOk w m) {k : Int} {q : Nat}
    (h : nonEmptyAt w m k = some q) : q < w.strs.length := by
  unfold nonEmptyAt at h
  split at h
  · rename_i v hl
    split at h
    · rename_i q' hq
      split at h
      · cases h; exact valStr_lt (lookup_ok hm hl) hq
      · cases h
    · cases h
  · cases h

theorem orNewStream_res {w : World} (hw : Wf w) {v : Val} (hv : valOk w v) : StrRes w (w.orNewStream v) := by
  unfold orNewStream
  split
  · rename_i q hq; exact StrRes.self hw (valStr_lt hv hq)
  · exact newNilStream_res hw

theorem cloneEntries_res {w : World} (hw : Wf w) {m : AMap} (hm : mapOk w m) :
    Good w (w.cloneEntries m).1 ∧ mapOk (w.cloneEntries m).1 (w.cloneEntries m).2 := by
  unfold cloneEntries
  refine mapEntriesM_res (w₀ := w) _ ?_ m w (Good.refl hw) hm
  intro w' k v g hv
  simp only
  split
  · have h := strClone_res g.wf (by assumption : Nat)
    exact ⟨h.1, h.2⟩
  · exact ⟨Good.refl g.wf, hv⟩

theorem ssFromMap_res {w : World} (hw : Wf w) {m : AMap} (hm : mapOk w m) : SetRes w (w.ssFromMap m) := newSet_res hw hm

theorem ssClone_res {w : World} (hw : Wf w) (p : Nat) : SetRes w (w.ssClone p) := by
  unfold ssClone
  have h := cloneEntries_res hw (setMap_ok hw p)
  exact SetRes.after h.1 (newSet_res h.1.wf h.2)

/-- the per-key step shared by Union / Intersection / MinusStreams: combine the stored stream with the
    argument's non-empty stream by a stream operation that yields a well-formed extension -/
theorem combine_step {w₀ : World} {m₂ : AMap} (hm₂ : mapOk w₀ m₂)
    (op : World → Nat → Nat → World × Nat)
    (hop : ∀ w p q, Wf w → p < w.strs.length → q < w.strs.length → StrRes w (op w p q))
    (w : World) (k : Int) (v : Val) (g : Good w₀ w) (hv : valOk w v) :
    let r := (match nonEmptyAt w m₂ k with
      | some v2 => let (w1, v1) := w.orNewStream v
                   let (w2, r) := op w1 v1 v2; (w2, Val.str (some r))
      | none => (w, v))
    Good w r.1 ∧ valOk r.1 r.2 := by
  simp only
  split
  · rename_i v2 hne
    have hv2 := nonEmptyAt_lt (mapOk_le g.le hm₂) hne
    have h1 := orNewStream_res g.wf hv
    have h2 := hop (w.orNewStream v).1 (w.orNewStream v).2 v2 h1.1.wf h1.2
      (Nat.lt_of_lt_of_le hv2 h1.1.le.strs.length_le)
    exact ⟨h1.1.trans h2.1, h2.2⟩
  · exact ⟨Good.refl g.wf, hv⟩

theorem ssUnion_res {w : World} (hw : Wf w) {p : Nat} (hp : p < w.sets.length) (q : Option Nat) :
    SetRes w (w.ssUnion p q) := by
  unfold ssUnion
  cases q with
  | none => exact SetRes.self hw hp
  | some q =>
    simp only
    split
    · exact SetRes.self hw hp
    · have hm₂ := setMap_ok hw q
      have h := mapEntriesM_res (w₀ := w) _
        (fun w' k v g hv => combine_step hm₂ (fun w a b => w.strExtend a [some b])
          (fun w a b hw' ha _ => strExtend_res hw' ha _) w' k v g hv) (w.setMap p) w (Good.refl hw) (setMap_ok hw p)
      refine SetRes.after h.1 (newSet_res h.1.wf ?_)
      intro kv hkv
      simp only [List.mem_map] at hkv
      obtain ⟨a, ha, rfl⟩ := hkv
      have hmerged := mapOk_merge (setMap_ok h.1.wf p) (mapOk_le h.1.le hm₂) a ha
      split
      · rename_i e _ he; exact lookup_ok h.2 he
      · exact hmerged

theorem ssInter_res {w : World} (hw : Wf w) (p : Nat) (q : Option Nat) : SetRes w (w.ssInter p q) := by
  unfold ssInter
  cases q with
  | none => exact newSet_res hw (mapOk_nil w)
  | some q =>
    simp only
    split
    · exact newSet_res hw (mapOk_nil w)
    · have hm₂ := setMap_ok hw q
      have h := mapEntriesM_res (w₀ := w) _
        (fun w' k v g hv => combine_step hm₂ (fun w a b => w.strInter a (some b))
          (fun w a b hw' _ _ => strInter_res hw' a _) w' k v g hv)
        (Spec.interByKey (w.setMap p) (w.setMap q)) w (Good.refl hw) (mapOk_filter (setMap_ok hw p) _)
      exact SetRes.after h.1 (newSet_res h.1.wf h.2)

theorem ssMinusStreams_res {w : World} (hw : Wf w) (p : Nat) (q : Option Nat) : SetRes w (w.ssMinusStreams p q) := by
  unfold ssMinusStreams
  cases q with
  | none => exact newSet_res hw (mapOk_nil w)
  | some q =>
    simp only
    split
    · exact newSet_res hw (mapOk_nil w)
    · have hm₂ := setMap_ok hw q
      have hc := cloneEntries_res hw (setMap_ok hw p)
      have h := mapEntriesM_res (w₀ := w) _
        (fun w' k v g hv => combine_step hm₂ (fun w a b => w.strMinus a (some b))
          (fun w a b hw' ha _ => strMinus_res hw' ha _) w' k v g hv)
        (w.cloneEntries (w.setMap p)).2 (w.cloneEntries (w.setMap p)).1 hc.1 hc.2
      exact SetRes.after (hc.1.trans h.1) (newSet_res h.1.wf h.2)

/-! ### the in-place mutators keep the world well-formed -/

theorem setStrHdr_wf {w : World} (hw : Wf w) (p : Nat) {s : Slice} (hs : sliceOk w s) :
    Wf (w.setStrHdr p s) := by
  refine ⟨hw.arr0, ?_, hw.sets, ?_⟩
  · intro t ht
    simp only [setStrHdr] at ht
    rcases List.mem_or_eq_of_mem_set ht with h | rfl
    · exact hw.strs t h
    · exact hs
  · intro m hm kv hkv
    have := hw.maps m hm kv hkv
    cases hv : kv.2 with
    | int n => simp [valOk]
    | str o => cases o with
      | none => simp [valOk]
      | some q => rw [hv] at this; simpa [valOk, setStrHdr] using this

theorem writeMap_wf {w : World} (hw : Wf w) (r : Nat) {m : AMap} (hm : mapOk w m) : Wf (w.writeMap r m) := by
  refine ⟨hw.arr0, hw.strs, ?_, ?_⟩
  · intro o ho r' hr'; simpa [writeMap] using hw.sets o ho r' hr'
  · intro m' hm'
    simp only [writeMap] at hm'
    rcases List.mem_or_eq_of_mem_set hm' with h | rfl
    · exact hw.maps m' h
    · exact hm

theorem mapAt_ok {w : World} (hw : Wf w) (r : Nat) : mapOk w (w.mapAt r) := by
  unfold mapAt
  by_cases hr : r < w.maps.length
  · exact hw.maps _ (getD_mem hr _)
  · have : w.maps.getD r [] = [] := by
      simp [List.getD_eq_getElem?_getD, List.getElem?_eq_none (Nat.le_of_not_lt hr)]
    rw [this]; exact mapOk_nil w

/-- `Set(k, v)` -/
theorem setSet_wf {w w' : World} (hw : Wf w) {p : Nat} {k : Int} {v : Val} (hv : valOk w v)
    (h : w.setSet p k v = some w') : Wf w' ∧ w'.arrs = w.arrs ∧ w'.strs = w.strs ∧ w'.sets = w.sets := by
  unfold setSet at h
  split at h
  · cases h
  · cases h
    exact ⟨writeMap_wf hw _ (mapOk_insert (mapAt_ok hw _) k hv), rfl, rfl, rfl⟩

theorem appendSlice_res {w : World} (hw : Wf w) {s : Slice} (hs : sliceOk w s) (l : List Int) :
    Wf (w.appendSlice s l).1 ∧ sliceOk (w.appendSlice s l).1 (w.appendSlice s l).2
      ∧ (w.appendSlice s l).1.strs = w.strs ∧ (w.appendSlice s l).1.sets = w.sets
      ∧ (∀ b, b < w.arrs.length → (w.arrAt b).length ≤ ((w.appendSlice s l).1.arrAt b).length) := by
  unfold appendSlice
  split
  · rename_i hfit
    exact ⟨writeArr_wf hw _ _ _,
      sliceOk_writeArr _ _ _ (s := { s with len := s.len + l.length }) ⟨hs.1, hs.2.1, hfit⟩, rfl, rfl,
      fun b _ => writeArr_arrAt_len w _ _ _ b⟩
  · have h := allocArr_good hw (w.sliceContent s ++ l)
    exact ⟨h.1.wf, h.2, rfl, rfl, fun b hb => by rw [arrAt_le h.1.le hb]; exact Nat.le_refl _⟩

/-- interface{} `Remove(i)`: the world stays well-formed, the receiver cell stays valid, no stream cell
    is created or dropped, no set is touched, no array is dropped or shortened -/
theorem strRemoveI_wf {w : World} (hw : Wf w) {p : Nat} (_hp : p < w.strs.length) (i : Int) :
    Wf (w.strRemoveI p i).1 ∧ (w.strRemoveI p i).2 = p
      ∧ (w.strRemoveI p i).1.strs.length = w.strs.length ∧ (w.strRemoveI p i).1.sets = w.sets
      ∧ w.arrs.length ≤ (w.strRemoveI p i).1.arrs.length
      ∧ (∀ b, b < w.arrs.length → (w.arrAt b).length ≤ ((w.strRemoveI p i).1.arrAt b).length) := by
  unfold strRemoveI
  simp only
  split
  · rename_i hr
    have hso := strHdr_ok hw p
    have h := appendSlice_res hw (s := { w.strHdr p with len := i.toNat })
      ⟨hso.1, hso.2.1, by have := hso.2.2; show i.toNat ≤ (w.strHdr p).cap; omega⟩
      ((w.sliceContent (w.strHdr p)).drop (i.toNat + 1))
    refine ⟨setStrHdr_wf h.1 p h.2.1, rfl, ?_, ?_, ?_, ?_⟩
    · simp [setStrHdr, h.2.2.1]
    · simp [setStrHdr, h.2.2.2.1]
    · simp only [setStrHdr]
      unfold appendSlice; split
      · simp [writeArr]
      · simp [allocArr]
    · exact h.2.2.2.2
  · exact ⟨hw, rfl, rfl, rfl, Nat.le_refl _, fun _ _ => Nat.le_refl _⟩

/-- list core of the in-place `append(s[:i], s[i+1:]...)`: overwriting the slots from `off+i` on with the
    elements behind position `i` and cutting the window to `len-1` leaves `eraseIdx i` of the old window -/
theorem shift_list (old : List Int) (off len i : Nat) (hi : i < len) (hb : off + len ≤ old.length) :
    let content := (old.drop off).take len
    let tail := content.drop (i + 1)
    (((old.take (off + i) ++ tail ++ old.drop (off + i + tail.length)).drop off).take (i + tail.length))
      = content.eraseIdx i := by
  intro content tail
  have hcl : content.length = len := by simp [content, List.length_take, List.length_drop]; omega
  have htl : tail.length = len - (i + 1) := by simp [tail, hcl]
  have hA : (old.take (off + i)).length = off + i := by simp [List.length_take]; omega
  have h1 : (old.take (off + i) ++ tail ++ old.drop (off + i + tail.length)).drop off
      = (old.take (off + i)).drop off ++ tail ++ old.drop (off + i + tail.length) := by
    rw [List.append_assoc, List.drop_append_of_le_length (by omega), List.append_assoc]
  have h2 : (old.take (off + i)).drop off = content.take i := by
    simp only [content]
    rw [List.drop_take, List.take_take]
    congr 1
    omega
  have hAl : (content.take i).length = i := by simp [List.length_take, hcl]; omega
  rw [h1, h2, List.append_assoc, List.eraseIdx_eq_take_drop_succ]
  rw [List.take_append, hAl, List.take_of_length_le (by omega : (content.take i).length ≤ i + tail.length),
    Nat.add_sub_cancel_left, List.take_append_of_le_length (Nat.le_refl _), List.take_length]

end FpgoVerif.C04
