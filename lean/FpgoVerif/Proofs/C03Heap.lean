import FpgoVerif.Model.C03Heap
import FpgoVerif.Proofs.C03Basic
/-! Lemmas about the slice-heap model of C03 (`Model/C03Heap.lean`): allocation primitives leave every
    pre-existing array / map untouched and return fresh storage holding the requested content; reslicing
    stays inside the parameter's storage. -/
namespace FpgoVerif.C03

variable {γ : Type}

theorem Frame.refl (w : World γ) : Frame w w := ⟨fun _ _ => rfl, Nat.le_refl _, fun _ _ => rfl, Nat.le_refl _⟩

theorem Frame.trans {w1 w2 w3 : World γ} (h12 : Frame w1 w2) (h23 : Frame w2 w3) : Frame w1 w3 :=
  ⟨fun a ha => by rw [h23.arrs a (Nat.lt_of_lt_of_le ha h12.arrsGrow), h12.arrs a ha],
   Nat.le_trans h12.arrsGrow h23.arrsGrow,
   fun m hm => by rw [h23.maps m (Nat.lt_of_lt_of_le hm h12.mapsGrow), h12.maps m hm],
   Nat.le_trans h12.mapsGrow h23.mapsGrow⟩

/-- a frame preserves what every pre-existing header reads (visible and hidden part) -/
theorem Frame.read {w w' : World γ} (hf : Frame w w') (s : Hdr) (hs : s.arr < w.arrs.length) :
    w'.read s = w.read s ∧ w'.hidden s = w.hidden s := by
  simp [World.read, World.hidden, hf.arrs s.arr hs]

theorem arrAt_append_left (w : World γ) (x : List γ) (a : Nat) (ha : a < w.arrs.length) :
    ({ w with arrs := w.arrs ++ [x] } : World γ).arrAt a = w.arrAt a := by
  simp [World.arrAt, List.getD_eq_getElem?_getD, List.getElem?_append_left ha]

theorem arrAt_append_new (w : World γ) (x : List γ) :
    ({ w with arrs := w.arrs ++ [x] } : World γ).arrAt w.arrs.length = x := by
  simp [World.arrAt, List.getD_eq_getElem?_getD]

theorem make_frame (w : World γ) (n : Nat) (z : γ) : Frame w (w.make n z).1 :=
  ⟨fun a ha => arrAt_append_left w _ a ha, by simp [World.make], fun _ _ => rfl, Nat.le_refl _⟩

theorem store_arrAt_other (w : World γ) (s : Hdr) (xs : List γ) (a : Nat) (ha : a ≠ s.arr) :
    (w.store s xs).arrAt a = w.arrAt a := by
  have : ¬ s.arr = a := fun e => ha e.symm
  simp [World.store, World.arrAt, List.getD_eq_getElem?_getD, List.getElem?_set, this]

theorem store_arrAt_self (w : World γ) (s : Hdr) (xs : List γ) (hs : s.arr < w.arrs.length) :
    (w.store s xs).arrAt s.arr
      = (w.arrAt s.arr).take s.off ++ xs ++ (w.arrAt s.arr).drop (s.off + xs.length) := by
  simp [World.store, World.arrAt, List.getD_eq_getElem?_getD, List.getElem?_set, hs]

/-- a store through a header of an array that did not exist in `w0` is invisible from `w0` -/
theorem store_frame (w0 w : World γ) (hf : Frame w0 w) (s : Hdr) (xs : List γ) (hfresh : w0.arrs.length ≤ s.arr) :
    Frame w0 (w.store s xs) :=
  ⟨fun a ha => by rw [store_arrAt_other w s xs a (by omega), hf.arrs a ha],
   by simpa [World.store] using hf.arrsGrow,
   fun m hm => by simpa [World.store, World.mapAt] using hf.maps m hm,
   by simpa [World.store] using hf.mapsGrow⟩

/-- `make([]T, n)`, fill, `[:len r]`: no panic, frame, fresh, content, header shape -/
theorem makeFill_ok (w : World γ) (z : γ) (n : Nat) (r : List γ) (hr : r.length ≤ n) :
    ∃ w' h, w.makeFill z n r = .ok (w', h) ∧ Frame w w' ∧ FreshHdr w h ∧ w'.read h = r
      ∧ h.len = r.length ∧ h.cap = n := by
  have hc : (0 : Int) ≤ 0 ∧ (0 : Int) ≤ (r.length : Int) ∧ (r.length : Int) ≤ (n : Int) := by omega
  refine ⟨((w.make n z).1.store (w.make n z).2 r), ⟨w.arrs.length, 0, r.length, n⟩, ?_, ?_, ?_, ?_, rfl, rfl⟩
  · simp [World.makeFill, hr, Hdr.reslice, World.make, hc]
  · exact store_frame w _ (make_frame w n z) _ r (by simp [World.make])
  · simp [FreshHdr]
  · have hs : (w.make n z).2.arr < (w.make n z).1.arrs.length := by simp [World.make]
    have h1 := store_arrAt_self (w.make n z).1 (w.make n z).2 r hs
    have h2 : (w.make n z).2.arr = w.arrs.length := rfl
    rw [h2] at h1
    simp only [World.read, h1]
    simp [World.make, arrAt_append_new]

theorem appendBuilt_ok (w : World γ) (z : γ) (extra : Nat) (r : List γ) :
    Frame w (w.appendBuilt z extra r).1 ∧ FreshHdr w (w.appendBuilt z extra r).2
      ∧ (w.appendBuilt z extra r).1.read (w.appendBuilt z extra r).2 = r
      ∧ (w.appendBuilt z extra r).2.arr < (w.appendBuilt z extra r).1.arrs.length := by
  refine ⟨?_, ?_, ?_, ?_⟩
  · exact store_frame w _ (make_frame w _ z) _ r (by simp [World.make])
  · simp [FreshHdr, World.appendBuilt, World.make]
  · have hs : (w.make (r.length + extra) z).2.arr < (w.make (r.length + extra) z).1.arrs.length := by
      simp [World.make]
    have h1 := store_arrAt_self (w.make (r.length + extra) z).1 (w.make (r.length + extra) z).2 r hs
    have h2 : (w.make (r.length + extra) z).2.arr = w.arrs.length := rfl
    rw [h2] at h1
    simp only [World.read, World.appendBuilt, h2, h1]
    simp [World.make, arrAt_append_new]
  · simp [World.appendBuilt, World.make, World.store]

theorem appendBuiltMany_ok (w : World γ) (z : γ) (extra : Nat) (rs : List (List γ)) :
    Frame w (w.appendBuiltMany z extra rs).1
      ∧ (∀ h ∈ (w.appendBuiltMany z extra rs).2, FreshHdr w h ∧ h.arr < (w.appendBuiltMany z extra rs).1.arrs.length)
      ∧ (w.appendBuiltMany z extra rs).2.map ((w.appendBuiltMany z extra rs).1.read) = rs := by
  induction rs generalizing w with
  | nil => exact ⟨Frame.refl w, by simp [World.appendBuiltMany], by simp [World.appendBuiltMany]⟩
  | cons r rest ih =>
    obtain ⟨f1, fr1, rd1, lt1⟩ := appendBuilt_ok w z extra r
    obtain ⟨f2, fr2, rd2⟩ := ih (w.appendBuilt z extra r).1
    refine ⟨f1.trans f2, ?_, ?_⟩
    · intro h hh
      simp only [World.appendBuiltMany, List.mem_cons] at hh
      rcases hh with rfl | hh
      · exact ⟨fr1, Nat.lt_of_lt_of_le lt1 f2.arrsGrow⟩
      · have := fr2 h hh
        exact ⟨Nat.le_trans f1.arrsGrow this.1, this.2⟩
    · simp only [World.appendBuiltMany, List.map_cons]
      rw [(f2.read _ lt1).1, rd1, rd2]

theorem allocMap_ok (w : World γ) (m : List (γ × γ)) :
    Frame w (w.allocMap m).1 ∧ w.maps.length ≤ (w.allocMap m).2 ∧ (w.allocMap m).1.mapAt (w.allocMap m).2 = m := by
  refine ⟨⟨fun _ _ => rfl, Nat.le_refl _, ?_, by simp [World.allocMap]⟩, by simp [World.allocMap], ?_⟩
  · intro k hk
    simp [World.allocMap, World.mapAt, List.getD_eq_getElem?_getD, List.getElem?_append_left hk]
  · simp [World.allocMap, World.mapAt, List.getD_eq_getElem?_getD]

theorem read_length (w : World γ) (s : Hdr) (hwf : w.WF s) : (w.read s).length = s.len := by
  obtain ⟨_, h2, h3⟩ := hwf
  simp [World.read]; omega

theorem reslice_within (s r : Hdr) (a b : Int) (h : s.reslice a b = .ok r) : Within s r := by
  unfold Hdr.reslice at h
  split at h
  · rename_i hc
    cases h
    refine ⟨rfl, by simp, ?_, ?_⟩ <;> simp <;> omega
  · cases h

/-- content of a reslice, in terms of the content of the parameter (for windows inside `len`) -/
theorem reslice_read (w : World γ) (s r : Hdr) (a b : Int) (h : s.reslice a b = .ok r) (hb : b ≤ (s.len : Int)) :
    w.read r = ((w.read s).take b.toNat).drop a.toNat := by
  unfold Hdr.reslice at h
  split at h
  · rename_i hc
    cases h
    simp only [World.read]
    rw [List.take_take, List.drop_take, List.drop_drop]
    have e1 : min b.toNat s.len = b.toNat := by omega
    have e2 : b.toNat - a.toNat = (b - a).toNat := by omega
    rw [e1, e2, Nat.add_comm]
  · cases h

theorem freshList_makeFill (w : World γ) (z : γ) (n : Nat) (impl : Res (List γ)) (spec : List γ)
    (hi : impl = .ok spec) (hn : spec.length ≤ n) :
    FreshList w (do let r ← impl; w.makeFill z n r) impl spec := by
  obtain ⟨w', h, h1, h2, h3, h4, _, _⟩ := makeFill_ok w z n spec hn
  exact ⟨w', h, by rw [hi]; exact h1, h2, h3, h4, hi.trans (congrArg Except.ok h4.symm)⟩

theorem freshList_appendBuilt (w : World γ) (z : γ) (extra : Nat) (spec : List γ) :
    FreshList w (.ok (w.appendBuilt z extra spec)) (.ok spec) spec := by
  obtain ⟨h2, h3, h4, _⟩ := appendBuilt_ok w z extra spec
  exact ⟨_, _, rfl, h2, h3, h4, congrArg Except.ok h4.symm⟩

theorem length_eraseDups_le [DecidableEq γ] (n : Nat) : ∀ xs : List γ, xs.length ≤ n → xs.eraseDups.length ≤ xs.length := by
  induction n with
  | zero => intro xs h; have : xs = [] := List.eq_nil_of_length_eq_zero (by omega); simp [this]
  | succ n ih =>
    intro xs h
    cases xs with
    | nil => simp
    | cons a t =>
      have hf : (t.filter (fun b => !b == a)).length ≤ t.length := List.length_filter_le _ _
      have := ih (t.filter (fun b => !b == a)) (by simp at h; omega)
      rw [List.eraseDups_cons]
      simp only [List.length_cons]
      omega

theorem spec_filter_length (fn : γ → Nat → Bool) (xs : List γ) : (Spec.filter fn xs).length ≤ xs.length := by
  have := List.length_filter_le (fun xi : γ × Nat => fn xi.1 xi.2) xs.zipIdx
  simpa [Spec.filter] using this

theorem freshList_exact (w : World γ) (z : γ) (impl : Res (List γ)) (spec : List γ) (hi : impl = .ok spec) :
    FreshList w (do let r ← impl; w.makeFill z r.length r) impl spec := by
  obtain ⟨w', h, h1, h2, h3, h4, _, _⟩ := makeFill_ok w z spec.length spec (Nat.le_refl _)
  exact ⟨w', h, by rw [hi]; exact h1, h2, h3, h4, hi.trans (congrArg Except.ok h4.symm)⟩

theorem freshList_appendImpl (w : World γ) (z : γ) (extra : Nat) (impl : Res (List γ)) (spec : List γ)
    (hi : impl = .ok spec) :
    FreshList w (do let r ← impl; pure (w.appendBuilt z extra r)) impl spec := by
  obtain ⟨h2, h3, h4, _⟩ := appendBuilt_ok w z extra spec
  exact ⟨_, _, by rw [hi]; rfl, h2, h3, h4, hi.trans (congrArg Except.ok h4.symm)⟩

theorem make0_read (w : World γ) (z : γ) : (w.make 0 z).1.read (w.make 0 z).2 = [] := by
  simp [World.read, World.make]

end FpgoVerif.C03
