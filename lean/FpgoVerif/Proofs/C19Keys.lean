import FpgoVerif.Model.C19
/-! Helper lemmas for C19: the natural key order is a strict total order and `CompareTo` realises it. -/
namespace FpgoVerif.C19

/-! ### bytes (Go strings) -/

theorem bytesLt_irrefl : ∀ a, bytesLt a a = false
  | [] => rfl
  | a :: as => by simp [bytesLt, bytesLt_irrefl as]

theorem bytesLt_trichotomy : ∀ a b, a = b ∨ bytesLt a b = true ∨ bytesLt b a = true
  | [], [] => .inl rfl
  | [], _ :: _ => .inr (.inl rfl)
  | _ :: _, [] => .inr (.inr rfl)
  | a :: as, b :: bs => by
    rcases Nat.lt_trichotomy a b with h | h | h
    · exact .inr (.inl (by simp [bytesLt, h]))
    · subst h
      rcases bytesLt_trichotomy as bs with h | h | h
      · exact .inl (by rw [h])
      · exact .inr (.inl (by simp [bytesLt, h]))
      · exact .inr (.inr (by simp [bytesLt, h]))
    · exact .inr (.inr (by simp [bytesLt, h]))

theorem bytesLt_trans : ∀ a b c, bytesLt a b = true → bytesLt b c = true → bytesLt a c = true
  | [], [], _, h, _ => by simp [bytesLt] at h
  | [], _ :: _, [], _, h => by simp [bytesLt] at h
  | [], _ :: _, _ :: _, _, _ => rfl
  | _ :: _, [], _, h, _ => by simp [bytesLt] at h
  | _ :: _, _ :: _, [], _, h => by simp [bytesLt] at h
  | a :: as, b :: bs, c :: cs, h1, h2 => by
    simp only [bytesLt, Bool.or_eq_true, decide_eq_true_eq, Bool.and_eq_true, beq_iff_eq] at *
    rcases h1 with h1 | ⟨h1, h1'⟩ <;> rcases h2 with h2 | ⟨h2, h2'⟩
    · exact .inl (by omega)
    · exact .inl (by omega)
    · exact .inl (by omega)
    · exact .inr ⟨by omega, bytesLt_trans as bs cs h1' h2'⟩

theorem bytesLt_asymm {a b : List Nat} (h : bytesLt a b = true) : bytesLt b a = false := by
  cases h' : bytesLt b a with
  | false => rfl
  | true => have := bytesLt_trans a b a h h'; rw [bytesLt_irrefl] at this; cases this

/-- the model's string order is core's lexicographic order on byte lists -/
theorem bytesLt_iff_lt : ∀ a b : List Nat, bytesLt a b = true ↔ a < b
  | [], [] => by simp [bytesLt]
  | [], _ :: _ => by simp [bytesLt]
  | _ :: _, [] => by simp [bytesLt]
  | a :: as, b :: bs => by
    simp [bytesLt, List.cons_lt_cons_iff, bytesLt_iff_lt as bs]

/-! ### keys -/

theorem Key.lt_irrefl : ∀ k : Key, k.lt k = false
  | .oi _ => by simp [Key.lt]
  | .os s => by simp [Key.lt, bytesLt_irrefl]
  | .cs s => by simp [Key.lt, bytesLt_irrefl]

theorem Key.lt_trichotomy : ∀ a b : Key, a = b ∨ a.lt b = true ∨ b.lt a = true
  | .oi a, .oi b => by
    rcases Int.lt_trichotomy a b with h | h | h
    · exact .inr (.inl (by simp [Key.lt, h]))
    · exact .inl (by rw [h])
    · exact .inr (.inr (by simp [Key.lt, h]))
  | .os a, .os b => by
    rcases bytesLt_trichotomy a b with h | h | h
    · exact .inl (by rw [h])
    · exact .inr (.inl (by simp [Key.lt, h]))
    · exact .inr (.inr (by simp [Key.lt, h]))
  | .cs a, .cs b => by
    rcases bytesLt_trichotomy a b with h | h | h
    · exact .inl (by rw [h])
    · exact .inr (.inl (by simp [Key.lt, h]))
    · exact .inr (.inr (by simp [Key.lt, h]))
  | .oi _, .os _ => .inr (.inl (by simp [Key.lt, Key.rank]))
  | .oi _, .cs _ => .inr (.inl (by simp [Key.lt, Key.rank]))
  | .os _, .cs _ => .inr (.inl (by simp [Key.lt, Key.rank]))
  | .os _, .oi _ => .inr (.inr (by simp [Key.lt, Key.rank]))
  | .cs _, .oi _ => .inr (.inr (by simp [Key.lt, Key.rank]))
  | .cs _, .os _ => .inr (.inr (by simp [Key.lt, Key.rank]))

theorem Key.lt_trans : ∀ a b c : Key, a.lt b = true → b.lt c = true → a.lt c = true := by
  intro a b c h1 h2
  cases a <;> cases b <;> cases c <;> simp [Key.lt, Key.rank] at h1 h2 ⊢
  · omega
  · exact bytesLt_trans _ _ _ h1 h2
  · exact bytesLt_trans _ _ _ h1 h2

theorem Key.lt_asymm {a b : Key} (h : a.lt b = true) : b.lt a = false := by
  cases h' : b.lt a with
  | false => rfl
  | true => have := Key.lt_trans a b a h h'; rw [Key.lt_irrefl] at this; cases this

/-! ### `CompareTo` realises the natural order (both sign conventions as they are in the code) -/

theorem compareToOrdered_lt {κ : Type} {lt : κ → κ → Bool} {a b : κ} (h : lt a b = true) :
    compareToOrdered lt a b = 1 := by simp [compareToOrdered, h]

theorem compareToOrdered_gt {κ : Type} {lt : κ → κ → Bool} {a b : κ} (h : lt b a = true)
    (h' : lt a b = false) : compareToOrdered lt a b = -1 := by simp [compareToOrdered, h, h']

theorem compareToOrdered_eq {κ : Type} {lt : κ → κ → Bool} {a b : κ} (h : lt a b = false)
    (h' : lt b a = false) : compareToOrdered lt a b = 0 := by simp [compareToOrdered, h, h']

/-- `self.CompareTo(other) = -1` when `self` is naturally before `other` -/
theorem Key.compareTo_of_lt : ∀ {a b : Key}, a.lt b = true → a.compareTo b = -1
  | .oi a, .oi b, h => by
    simp only [Key.lt, decide_eq_true_eq] at h
    have h2 : ¬ b < a := by omega
    simp [Key.compareTo, compareToOrdered, intLt, h, h2]
  | .os a, .os b, h => by
    simp only [Key.lt] at h
    simp [Key.compareTo, compareToOrdered, h, bytesLt_asymm h]
  | .cs a, .cs b, h => by
    simp only [Key.lt] at h
    have hne : a ≠ b := by intro e; rw [e, bytesLt_irrefl] at h; cases h
    simp [Key.compareTo, stringsCompare, h, hne]
  | .oi _, .os _, _ => by simp [Key.compareTo, Key.rank]
  | .oi _, .cs _, _ => by simp [Key.compareTo, Key.rank]
  | .os _, .cs _, _ => by simp [Key.compareTo, Key.rank]
  | .os _, .oi _, h => by simp [Key.lt, Key.rank] at h
  | .cs _, .oi _, h => by simp [Key.lt, Key.rank] at h
  | .cs _, .os _, h => by simp [Key.lt, Key.rank] at h

/-- `self.CompareTo(other) = 1` when `other` is naturally before `self` -/
theorem Key.compareTo_of_gt : ∀ {a b : Key}, b.lt a = true → a.compareTo b = 1
  | .oi a, .oi b, h => by
    simp only [Key.lt, decide_eq_true_eq] at h
    simp [Key.compareTo, compareToOrdered, intLt, h]
  | .os a, .os b, h => by
    simp only [Key.lt] at h
    simp [Key.compareTo, compareToOrdered, h]
  | .cs a, .cs b, h => by
    simp only [Key.lt] at h
    have hne : a ≠ b := by intro e; rw [e, bytesLt_irrefl] at h; cases h
    simp [Key.compareTo, stringsCompare, bytesLt_asymm h, hne]
  | .os _, .oi _, _ => by simp [Key.compareTo, Key.rank]
  | .cs _, .oi _, _ => by simp [Key.compareTo, Key.rank]
  | .cs _, .os _, _ => by simp [Key.compareTo, Key.rank]
  | .oi _, .os _, h => by simp [Key.lt, Key.rank] at h
  | .oi _, .cs _, h => by simp [Key.lt, Key.rank] at h
  | .os _, .cs _, h => by simp [Key.lt, Key.rank] at h

theorem Key.compareTo_self : ∀ a : Key, a.compareTo a = 0
  | .oi a => by simp [Key.compareTo, compareToOrdered, intLt]
  | .os a => by simp [Key.compareTo, compareToOrdered, bytesLt_irrefl]
  | .cs a => by simp [Key.compareTo, stringsCompare]

/-! ### nil-first order on optional keys -/

theorem optLt_irrefl : ∀ a, optLt a a = false
  | none => rfl
  | some k => by simp [optLt, Key.lt_irrefl]

theorem optLt_trichotomy : ∀ a b, a = b ∨ optLt a b = true ∨ optLt b a = true
  | none, none => .inl rfl
  | none, some _ => .inr (.inl rfl)
  | some _, none => .inr (.inr rfl)
  | some a, some b => by
    rcases Key.lt_trichotomy a b with h | h | h
    · exact .inl (by rw [h])
    · exact .inr (.inl h)
    · exact .inr (.inr h)

theorem optLt_trans : ∀ a b c, optLt a b = true → optLt b c = true → optLt a c = true
  | none, none, _, h, _ => by simp [optLt] at h
  | none, some _, none, _, h => by simp [optLt] at h
  | none, some _, some _, _, _ => rfl
  | some _, none, _, h, _ => by simp [optLt] at h
  | some _, some _, none, _, h => by simp [optLt] at h
  | some a, some b, some c, h1, h2 => Key.lt_trans a b c h1 h2

theorem optLt_asymm {a b : Option Key} (h : optLt a b = true) : optLt b a = false := by
  cases h' : optLt b a with
  | false => rfl
  | true => have := optLt_trans a b a h h'; rw [optLt_irrefl] at this; cases this

end FpgoVerif.C19
