import FpgoVerif.Model.C15Core
/-! The directed-schedule executor only ever moves the shared state by the component's own `gstep` / `spawn` /
    `openGate` / `compact`: any predicate closed under those (in particular `Reach`) holds in every state the
    executor visits. -/
namespace FpgoVerif.C15.Exec
variable {σ PC : Type}

structure Closed (ops : Ops σ PC) (R : σ → Prop) : Prop where
  gstep : ∀ {s pc ch s' nx}, R s → ops.gstep s pc ch = some (s', nx) → R s'
  spawn : ∀ {s pc s'}, R s → ops.spawn s pc = some s' → R s'
  gate : ∀ {s}, R s → R (ops.openGate s)
  compact : ∀ {s}, R s → R (ops.compact s)

@[simp] theorem setTh_sh (e : Exec σ PC) (t : Thread PC) : (setTh e t).sh = e.sh := by
  unfold setTh; split <;> rfl

theorem stepTh_R {ops : Ops σ PC} {R : σ → Prop} (hc : Closed ops R) {e e' : Exec σ PC} {t ch}
    (hr : R e.sh) (h : stepTh ops e t ch = some e') : R e'.sh := by
  unfold stepTh at h
  split at h
  · split at h
    · simp at h
    · rename_i sh' r hg
      simp only [Option.some.injEq] at h; subst h
      simpa using hc.compact (hc.gstep hr hg)
    · rename_i sh' pc' hg
      simp only [Option.some.injEq] at h; subst h
      simpa using hc.compact (hc.gstep hr hg)
  · simp at h

theorem firstStep_R {ops : Ops σ PC} {R : σ → Prop} (hc : Closed ops R) {e e' : Exec σ PC} {ch}
    (hr : R e.sh) : ∀ (l : List (Thread PC)), firstStep ops e ch l = some e' → R e'.sh
  | [], h => by simp [firstStep] at h
  | t :: rest, h => by
    simp only [firstStep] at h
    split at h
    · rename_i e1 hs
      simp only [Option.some.injEq] at h; subst h
      exact stepTh_R hc hr hs
    · exact firstStep_R hc hr rest h

theorem settle_R {ops : Ops σ PC} {R : σ → Prop} (hc : Closed ops R) :
    ∀ (n : Nat) (e : Exec σ PC), R e.sh → R (settle ops n e).sh
  | 0, e, hr => by simpa [settle] using hr
  | n + 1, e, hr => by
    simp only [settle]
    split
    · rename_i e1 h1
      exact settle_R hc n e1 (firstStep_R hc hr _ h1)
    · split
      · rename_i e1 h1
        exact settle_R hc n e1 (firstStep_R hc hr _ h1)
      · exact hr

@[simp] theorem report_sh (e : Exec σ PC) (n : String) : (report e n).1.sh = e.sh := by
  unfold report
  split
  · rfl
  · split
    · simp
    · split
      · rfl
      · split <;> rfl

theorem execStep_R {ops : Ops σ PC} {R : σ → Prop} (hc : Closed ops R) (e : Exec σ PC) (tok : String)
    (hr : R e.sh) : R (execStep ops e tok).1.sh := by
  unfold execStep
  simp only
  split
  · exact settle_R hc _ _ (hc.gate hr)
  · split
    · exact hr
    · split
      · have := settle_R hc fuel0 e hr
        split <;> exact this
      · split
        · exact settle_R hc _ _ hr
        · split
          · rename_i n rhs _
            split
            · exact hr
            · split
              · exact hr
              · split
                · exact hr
                · rename_i sh' hsp
                  simp only [report_sh]
                  exact settle_R hc _ _ (by simpa using hc.compact (hc.spawn hr hsp))
          · split
            · split
              · exact hr
              · simp only [report_sh]
                exact settle_R hc _ _ (by simpa using hr)
            · exact hr

/-- every state the executor is in after a prefix of the schedule satisfies R -/
theorem run_R {ops : Ops σ PC} {R : σ → Prop} (hc : Closed ops R) (steps : List String) (acc : Exec σ PC × List String)
    (hr : R acc.1.sh) :
    R (steps.foldl (fun (acc : Exec σ PC × List String) tok =>
        let (e, o) := execStep ops acc.1 tok
        (e, o :: acc.2)) acc).1.sh := by
  induction steps generalizing acc with
  | nil => simpa using hr
  | cons tok rest ih =>
    simp only [List.foldl_cons]
    exact ih _ (execStep_R hc acc.1 tok hr)

/-- … and so does the state after the final drain -/
theorem finishState_R {ops : Ops σ PC} {R : σ → Prop} (hc : Closed ops R) (e : Exec σ PC) (hr : R e.sh) :
    R (settle ops fuel0 { e with sh := ops.openGate e.sh, ths := e.ths.map (fun t => { t with parked := none, arm := [] }) }).sh :=
  settle_R hc _ _ (hc.gate hr)

end FpgoVerif.C15.Exec
