import FpgoVerif.Model.C08
/-! Helper lemmas for C08: the invariant of the exclusive-lock system and sequential-run algebra. -/
namespace FpgoVerif.C08

variable {σ Op ρ : Type}

theorem seqRun_snoc (apply : σ → Op → σ × ρ) (q : σ) (ops : List Op) (op : Op) :
    seqRun apply q (ops ++ [op]) =
      ((apply (seqRun apply q ops).1 op).1, (seqRun apply q ops).2 ++ [(apply (seqRun apply q ops).1 op).2]) := by
  induction ops generalizing q with
  | nil => simp [seqRun]
  | cons a as ih => simp [seqRun, ih]

theorem seqRun_append (apply : σ → Op → σ × ρ) (q : σ) (a b : List Op) :
    seqRun apply q (a ++ b) =
      ((seqRun apply (seqRun apply q a).1 b).1, (seqRun apply q a).2 ++ (seqRun apply (seqRun apply q a).1 b).2) := by
  induction a generalizing q with
  | nil => simp [seqRun]
  | cons x xs ih => simp [seqRun, ih]

theorem seqRun_length (apply : σ → Op → σ × ρ) (q : σ) (ops : List Op) :
    (seqRun apply q ops).2.length = ops.length := by
  induction ops generalizing q with
  | nil => simp [seqRun]
  | cons a as ih => simp [seqRun, ih]

/-- thread is between lock acquisition and release -/
def holding : Pc σ Op ρ → Prop
  | .locked _ _ => True
  | .reading _ _ _ => True
  | .applied _ _ _ _ => True
  | _ => False

/-- thread has acquired the lock but not yet committed -/
def precommit : Pc σ Op ρ → Prop
  | .locked _ _ => True
  | .reading _ _ _ => True
  | _ => False

theorem holding_of_precommit {p : Pc σ Op ρ} (h : precommit p) : holding p := by
  cases p <;> simp [precommit, holding] at h ⊢

/-- the invariant of the system in which every method takes the lock exclusively -/
structure Inv (sys : Sys σ Op ρ) (s : State σ Op ρ) : Prop where
  seq : seqRun sys.apply sys.init (s.lin.map (·.op)) = (s.obj, s.lin.map (·.ret))
  holder : ∀ t, holding (s.pc t) → s.lock = .excl t
  linB : ∀ e ∈ s.lin, e.linAt < s.now
  sorted : s.lin.Pairwise (fun a b => a.linAt < b.linAt)
  waitT : ∀ t op i, s.pc t = .waiting op i → i < s.now
  lockT : ∀ t op i, s.pc t = .locked op i → i < s.now
  readT : ∀ t op i sn, s.pc t = .reading op i sn → i < s.now ∧ sn = s.obj
  applT : ∀ t op i r l, s.pc t = .applied op i r l →
    i < l ∧ l < s.now ∧ (⟨t, op, r, l⟩ : LinE Op ρ) ∈ s.lin ∧ ∀ d ∈ s.done, d.linAt ≠ l
  doneOK : ∀ d ∈ s.done, d.invAt < d.linAt ∧ d.linAt < d.retAt ∧ d.retAt < s.now ∧
    (⟨d.t, d.op, d.ret, d.linAt⟩ : LinE Op ρ) ∈ s.lin
  doneDistinct : s.done.Pairwise (fun a b => a.linAt ≠ b.linAt)
  owner : ∀ u, s.lock = .excl u → holding (s.pc u)
  noShared : ∀ k, s.lock ≠ .shared k
  acqPre : ∀ t, precommit (s.pc t) → s.acqs = s.lin.map (·.t) ++ [t]
  acqDone : (∀ t, ¬ precommit (s.pc t)) → s.acqs = s.lin.map (·.t)

theorem init_inv (sys : Sys σ Op ρ) : Inv sys (initState sys) := by
  refine ⟨by simp [initState, seqRun], ?_, ?_, ?_, ?_, ?_, ?_, ?_, ?_, ?_, ?_, ?_, ?_, ?_⟩ <;> simp [initState, holding, precommit]

theorem acquire_excl {t : Nat} {l l' : Lock} (h : acquire .excl t l = some l') : l = .free ∧ l' = .excl t := by
  cases l <;> simp [acquire] at h
  exact ⟨rfl, h.symm⟩

theorem step_inv (sys : Sys σ Op ρ) (hx : ∀ op, sys.mode op = .excl) {s s' : State σ Op ρ} {a : Act Op}
    (h : step sys s a = some s') (hi : Inv sys s) : Inv sys s' := by
  obtain ⟨seq, holder, linB, sorted, waitT, lockT, readT, applT, doneOK, doneDistinct, owner, noShared, acqPre, acqDone⟩ := hi
  cases a with
  | inv t op =>
    cases hpc : s.pc t <;> simp [step, hpc] at h
    subst h
    refine ⟨seq, ?_, ?_, sorted, ?_, ?_, ?_, ?_, ?_, doneDistinct, ?_, noShared, ?_, ?_⟩
    rotate_right 3
    · intro u hu
      by_cases e : u = t
      · subst e; have := owner u hu; simp [hpc, holding] at this
      · simp [e]; exact owner u hu
    · intro u hu
      by_cases e : u = t
      · subst e; simp [precommit] at hu
      · simp [e] at hu; exact acqPre u hu
    · intro hall
      apply acqDone
      intro u hu
      by_cases e : u = t
      · subst e; simp [hpc, precommit] at hu
      · have := hall u; simp [e] at this; exact this hu
    · intro t' ht'
      by_cases e : t' = t
      · subst e; simp [holding] at ht'
      · simp [e] at ht'; exact holder t' ht'
    · intro e he; have := linB e he; simp; omega
    · intro t' op' i h'
      by_cases e : t' = t
      · subst e; simp at h'; simp; omega
      · simp [e] at h'; have := waitT t' op' i h'; simp; omega
    · intro t' op' i h'
      by_cases e : t' = t
      · subst e; simp at h'
      · simp [e] at h'; have := lockT t' op' i h'; simp; omega
    · intro t' op' i sn h'
      by_cases e : t' = t
      · subst e; simp at h'
      · simp [e] at h'; have := readT t' op' i sn h'; exact ⟨by simp; omega, this.2⟩
    · intro t' op' i r l h'
      by_cases e : t' = t
      · subst e; simp at h'
      · simp [e] at h'; obtain ⟨a1, a2, a3, a4⟩ := applT t' op' i r l h'
        exact ⟨a1, by simp; omega, a3, a4⟩
    · intro d hd; obtain ⟨a1, a2, a3, a4⟩ := doneOK d hd; exact ⟨a1, a2, by simp; omega, a4⟩
  | acq t =>
    cases hpc : s.pc t <;> simp [step, hpc] at h
    rename_i op i
    rw [hx op] at h
    cases hacq : acquire .excl t s.lock <;> simp [hacq] at h
    rename_i l
    obtain ⟨hfree, hl⟩ := acquire_excl hacq
    subst h
    have nopre : ∀ u, ¬ precommit (s.pc u) := by
      intro u hu; have := holder u (holding_of_precommit hu); rw [hfree] at this; cases this
    refine ⟨seq, ?_, ?_, sorted, ?_, ?_, ?_, ?_, ?_, doneDistinct, ?_, ?_, ?_, ?_⟩
    rotate_right 4
    · intro u hu
      simp [hl] at hu; subst hu; simp [holding]
    · intro k hk; simp [hl] at hk
    · intro u hu
      by_cases e : u = t
      · subst e; simp [acqDone nopre]
      · simp [e] at hu; exact absurd hu (nopre u)
    · intro hall; have := hall t; simp [precommit] at this
    · intro t' ht'
      by_cases e : t' = t
      · subst e; simpa using hl
      · simp [e] at ht'; have := holder t' ht'; rw [hfree] at this; cases this
    · intro e he; have := linB e he; simp; omega
    · intro t' op' i' h'
      by_cases e : t' = t
      · subst e; simp at h'
      · simp [e] at h'; have := waitT t' op' i' h'; simp; omega
    · intro t' op' i' h'
      by_cases e : t' = t
      · subst e; simp at h'; have := waitT t' op i hpc; simp; omega
      · simp [e] at h'; have := lockT t' op' i' h'; simp; omega
    · intro t' op' i' sn h'
      by_cases e : t' = t
      · subst e; simp at h'
      · simp [e] at h'; have := readT t' op' i' sn h'; exact ⟨by simp; omega, this.2⟩
    · intro t' op' i' r l' h'
      by_cases e : t' = t
      · subst e; simp at h'
      · simp [e] at h'; obtain ⟨a1, a2, a3, a4⟩ := applT t' op' i' r l' h'
        exact ⟨a1, by simp; omega, a3, a4⟩
    · intro d hd; obtain ⟨a1, a2, a3, a4⟩ := doneOK d hd; exact ⟨a1, a2, by simp; omega, a4⟩
  | read t =>
    cases hpc : s.pc t <;> simp [step, hpc] at h
    rename_i op i
    subst h
    have hlk : s.lock = .excl t := holder t (by simp [hpc, holding])
    refine ⟨seq, ?_, ?_, sorted, ?_, ?_, ?_, ?_, ?_, doneDistinct, ?_, noShared, ?_, ?_⟩
    rotate_right 3
    · intro u hu
      simp [hlk] at hu; subst hu; simp [holding]
    · intro u hu
      by_cases e : u = t
      · subst e; exact acqPre u (by simp [hpc, precommit])
      · simp [e] at hu; exact acqPre u hu
    · intro hall; have := hall t; simp [precommit] at this
    · intro t' ht'
      by_cases e : t' = t
      · subst e; exact hlk
      · simp [e] at ht'; exact holder t' ht'
    · intro e he; have := linB e he; simp; omega
    · intro t' op' i' h'
      by_cases e : t' = t
      · subst e; simp at h'
      · simp [e] at h'; have := waitT t' op' i' h'; simp; omega
    · intro t' op' i' h'
      by_cases e : t' = t
      · subst e; simp at h'
      · simp [e] at h'; have := lockT t' op' i' h'; simp; omega
    · intro t' op' i' sn h'
      by_cases e : t' = t
      · subst e; simp at h'; obtain ⟨_, h2, h3⟩ := h'; subst h2; subst h3
        have := lockT t' op i hpc; exact ⟨by simp; omega, rfl⟩
      · simp [e] at h'; have := readT t' op' i' sn h'; exact ⟨by simp; omega, this.2⟩
    · intro t' op' i' r l' h'
      by_cases e : t' = t
      · subst e; simp at h'
      · simp [e] at h'; obtain ⟨a1, a2, a3, a4⟩ := applT t' op' i' r l' h'
        exact ⟨a1, by simp; omega, a3, a4⟩
    · intro d hd; obtain ⟨a1, a2, a3, a4⟩ := doneOK d hd; exact ⟨a1, a2, by simp; omega, a4⟩
  | commit t =>
    cases hpc : s.pc t <;> simp [step, hpc] at h
    rename_i op i sn
    subst h
    have hlk : s.lock = .excl t := holder t (by simp [hpc, holding])
    obtain ⟨hi', hsn⟩ := readT t op i sn hpc
    subst hsn
    have others : ∀ t', t' ≠ t → ¬ holding (s.pc t') := by
      intro t' e ht'; have := holder t' ht'; rw [hlk] at this; cases this; exact e rfl
    refine ⟨?_, ?_, ?_, ?_, ?_, ?_, ?_, ?_, ?_, doneDistinct, ?_, noShared, ?_, ?_⟩
    rotate_right 3
    · intro u hu
      simp [hlk] at hu; subst hu; simp [holding]
    · intro u hu
      by_cases e : u = t
      · subst e; simp [precommit] at hu
      · simp [e] at hu; exact absurd (holding_of_precommit hu) (others u e)
    · intro _
      have := acqPre t (by simp [hpc, precommit])
      simp [this]
    · simp only [List.map_append, List.map_cons, List.map_nil]
      rw [seqRun_snoc, seq]
    · intro t' ht'
      by_cases e : t' = t
      · subst e; exact hlk
      · simp [e] at ht'; exact holder t' ht'
    · intro e he
      simp at he
      rcases he with he | he
      · have := linB e he; simp; omega
      · subst he; simp
    · simp only [List.pairwise_append, List.pairwise_cons, List.Pairwise.nil, and_true]
      refine ⟨sorted, by simp, ?_⟩
      intro a ha b hb; simp at hb; subst hb; exact linB a ha
    · intro t' op' i' h'
      by_cases e : t' = t
      · subst e; simp at h'
      · simp [e] at h'; have := waitT t' op' i' h'; simp; omega
    · intro t' op' i' h'
      by_cases e : t' = t
      · subst e; simp at h'
      · simp [e] at h'; exact absurd (by simp [h', holding]) (others t' e)
    · intro t' op' i' sn' h'
      by_cases e : t' = t
      · subst e; simp at h'
      · simp [e] at h'; exact absurd (by simp [h', holding]) (others t' e)
    · intro t' op' i' r l' h'
      by_cases e : t' = t
      · subst e; simp at h'; obtain ⟨h1, h2, h3, h4⟩ := h'; subst h1; subst h2; subst h3; subst h4
        refine ⟨hi', by simp, by simp, ?_⟩
        intro d hd; have := (doneOK d hd); omega
      · simp [e] at h'; exact absurd (by simp [h', holding]) (others t' e)
    · intro d hd; obtain ⟨a1, a2, a3, a4⟩ := doneOK d hd
      exact ⟨a1, a2, by simp; omega, by simp; exact Or.inl a4⟩
  | rel t =>
    cases hpc : s.pc t <;> simp [step, hpc] at h
    rename_i op i r l
    subst h
    have hlk : s.lock = .excl t := holder t (by simp [hpc, holding])
    obtain ⟨a1, a2, a3, a4⟩ := applT t op i r l hpc
    have others : ∀ t', t' ≠ t → ¬ holding (s.pc t') := by
      intro t' e ht'; have := holder t' ht'; rw [hlk] at this; cases this; exact e rfl
    refine ⟨seq, ?_, ?_, sorted, ?_, ?_, ?_, ?_, ?_, ?_, ?_, ?_, ?_, ?_⟩
    rotate_right 4
    · intro u hu; simp [hx, release] at hu
    · intro k hk; simp [hx, release] at hk
    · intro u hu
      by_cases e : u = t
      · subst e; simp [precommit] at hu
      · simp [e] at hu; exact acqPre u hu
    · intro hall
      apply acqDone
      intro u hu
      by_cases e : u = t
      · subst e; simp [hpc, precommit] at hu
      · have := hall u; simp [e] at this; exact this hu
    · intro t' ht'
      by_cases e : t' = t
      · subst e; simp [holding] at ht'
      · simp [e] at ht'; exact absurd ht' (others t' e)
    · intro e he; have := linB e he; simp; omega
    · intro t' op' i' h'
      by_cases e : t' = t
      · subst e; simp at h'
      · simp [e] at h'; have := waitT t' op' i' h'; simp; omega
    · intro t' op' i' h'
      by_cases e : t' = t
      · subst e; simp at h'
      · simp [e] at h'; exact absurd (by simp [h', holding]) (others t' e)
    · intro t' op' i' sn' h'
      by_cases e : t' = t
      · subst e; simp at h'
      · simp [e] at h'; exact absurd (by simp [h', holding]) (others t' e)
    · intro t' op' i' r' l' h'
      by_cases e : t' = t
      · subst e; simp at h'
      · simp [e] at h'; exact absurd (by simp [h', holding]) (others t' e)
    · intro d hd
      simp at hd
      rcases hd with hd | hd
      · obtain ⟨b1, b2, b3, b4⟩ := doneOK d hd; exact ⟨b1, b2, by simp; omega, b4⟩
      · subst hd; exact ⟨a1, a2, by simp, a3⟩
    · simp only [List.pairwise_append, List.pairwise_cons, List.Pairwise.nil, and_true]
      refine ⟨doneDistinct, by simp, ?_⟩
      intro d hd b hb; simp at hb; subst hb; exact a4 d hd

theorem run_inv (sys : Sys σ Op ρ) (hx : ∀ op, sys.mode op = .excl) (acts : List (Act Op)) :
    ∀ {s s' : State σ Op ρ}, run sys s acts = some s' → Inv sys s → Inv sys s' := by
  induction acts with
  | nil => intro s s' h hi; simp [run] at h; subst h; exact hi
  | cons a as ih =>
    intro s s' h hi
    simp only [run] at h
    cases hs : step sys s a with
    | none => simp [hs] at h
    | some s1 => simp [hs] at h; exact ih h (step_inv sys hx hs hi)

theorem reach_inv (sys : Sys σ Op ρ) (hx : ∀ op, sys.mode op = .excl) {s : State σ Op ρ}
    (h : Reach sys s) : Inv sys s := by
  obtain ⟨acts, h⟩ := h
  exact run_inv sys hx acts h (init_inv sys)

theorem lock_progress (sys : Sys σ Op ρ) (hx : ∀ op, sys.mode op = .excl) {s : State σ Op ρ}
    (h : Reach sys s) (t : Nat) (op : Op) (i : Nat) (hw : s.pc t = .waiting op i) :
    (step sys s (.acq t)).isSome ∨
    ∃ u, (step sys s (.read u)).isSome ∨ (step sys s (.commit u)).isSome ∨ (step sys s (.rel u)).isSome := by
  have inv := reach_inv sys hx h
  cases hl : s.lock with
  | free => left; simp [step, hw, hx, acquire, hl]
  | shared k => exact absurd hl (inv.noShared k)
  | excl u =>
    right; refine ⟨u, ?_⟩
    have ho := inv.owner u hl
    cases hpc : s.pc u <;> simp [hpc, holding] at ho <;> simp [step, hpc]

theorem run_append (sys : Sys σ Op ρ) (s : State σ Op ρ) (a b : List (Act Op)) :
    run sys s (a ++ b) = (run sys s a).bind (fun s' => run sys s' b) := by
  induction a generalizing s with
  | nil => simp [run]
  | cons x xs ih =>
    simp only [List.cons_append, run]
    cases step sys s x with
    | none => simp
    | some s1 => simpa using ih s1

theorem reach_run (sys : Sys σ Op ρ) {s s' : State σ Op ρ} (acts : List (Act Op)) (h : Reach sys s)
    (hr : run sys s acts = some s') : Reach sys s' := by
  obtain ⟨pre, hp⟩ := h
  exact ⟨pre ++ acts, by rw [run_append, hp]; simpa using hr⟩

/-! ### algebra of the ideal queue / stack under `seqRun` -/

theorem queue_conservation (ops : List QOp) (q : List Int) :
    okVals (seqRun qApply q ops).2 ++ (seqRun qApply q ops).1 = q ++ offered ops := by
  induction ops generalizing q with
  | nil => simp [seqRun, okVals, offered]
  | cons op ops ih =>
    cases op with
    | put v => simp [seqRun, qApply, okVals, offered, ih]
    | offer v => simp [seqRun, qApply, okVals, offered, ih]
    | take =>
      cases q with
      | nil => simpa [seqRun, qApply, okVals, offered] using ih []
      | cons a t => simpa [seqRun, qApply, okVals, offered] using ih t
    | poll =>
      cases q with
      | nil => simpa [seqRun, qApply, okVals, offered] using ih []
      | cons a t => simpa [seqRun, qApply, okVals, offered] using ih t

theorem stack_conservation (ops : List SOp) (q : List Int) :
    (okVals (seqRun sApply q ops).2 ++ (seqRun sApply q ops).1).Perm (q ++ pushed ops) := by
  induction ops generalizing q with
  | nil => simp [seqRun, okVals, pushed]
  | cons op ops ih =>
    cases op with
    | push v =>
      have := ih (q ++ [v])
      simpa [seqRun, sApply, okVals, pushed] using this
    | pop =>
      cases hq : q.getLast? with
      | none =>
        have := ih q
        simpa [seqRun, sApply, okVals, pushed, hq] using this
      | some a =>
        have hne : q ≠ [] := by intro e; subst e; simp at hq
        have hd : q = q.dropLast ++ [a] := by
          have h1 := List.dropLast_concat_getLast hne
          have h2 : q.getLast hne = a := by
            rw [List.getLast?_eq_some_getLast hne] at hq; simpa using hq
          rw [h2] at h1; exact h1.symm
        have := ih q.dropLast
        simp only [seqRun, sApply, hq, okVals, pushed]
        refine (List.Perm.trans ?_ ((List.perm_append_right_iff _).mpr (List.Perm.of_eq hd.symm)))
        refine List.Perm.trans (List.Perm.cons a this) ?_
        rw [List.append_assoc]
        exact (List.perm_middle (a := a) (l₁ := q.dropLast) (l₂ := pushed ops)).symm.trans (by simp)

/-- the current code: every wrapper method takes the write lock (tied to queue.go by `C08_modes`) -/
theorem queueSys_excl : ∀ op, queueSys.mode op = .excl := fun _ => rfl
theorem stackSys_excl : ∀ op, stackSys.mode op = .excl := fun _ => rfl

/-! ### a bounded wrapped object (insertion into a full structure reports `full`) -/

theorem boundedQueueSys_excl (cap : Nat) : ∀ op, (boundedQueueSys cap).mode op = .excl := fun _ => rfl
theorem boundedStackSys_excl (cap : Nat) : ∀ op, (boundedStackSys cap).mode op = .excl := fun _ => rfl

theorem bqueue_conservation (cap : Nat) (ops : List QOp) (q : List Int) :
    okVals (seqRun (qApplyB cap) q ops).2 ++ (seqRun (qApplyB cap) q ops).1 =
      q ++ acceptedQ ops (seqRun (qApplyB cap) q ops).2 := by
  induction ops generalizing q with
  | nil => simp [seqRun, okVals, acceptedQ]
  | cons op ops ih =>
    cases op with
    | put v =>
      by_cases h : q.length < cap
      · simp [seqRun, qApplyB, h, okVals, acceptedQ, ih]
      · simp [seqRun, qApplyB, h, okVals, acceptedQ, ih]
    | offer v =>
      by_cases h : q.length < cap
      · simp [seqRun, qApplyB, h, okVals, acceptedQ, ih]
      · simp [seqRun, qApplyB, h, okVals, acceptedQ, ih]
    | take =>
      cases q with
      | nil => simpa [seqRun, qApplyB, okVals, acceptedQ] using ih []
      | cons a t => simpa [seqRun, qApplyB, okVals, acceptedQ] using ih t
    | poll =>
      cases q with
      | nil => simpa [seqRun, qApplyB, okVals, acceptedQ] using ih []
      | cons a t => simpa [seqRun, qApplyB, okVals, acceptedQ] using ih t

theorem bqueue_bound (cap : Nat) (ops : List QOp) (q : List Int) (hq : q.length ≤ cap) :
    (seqRun (qApplyB cap) q ops).1.length ≤ cap := by
  induction ops generalizing q with
  | nil => simpa [seqRun] using hq
  | cons op ops ih =>
    cases op with
    | put v =>
      by_cases h : q.length < cap
      · simp only [seqRun, qApplyB, h, if_true]; exact ih _ (by simp; omega)
      · simp only [seqRun, qApplyB, h, if_false]; exact ih _ hq
    | offer v =>
      by_cases h : q.length < cap
      · simp only [seqRun, qApplyB, h, if_true]; exact ih _ (by simp; omega)
      · simp only [seqRun, qApplyB, h, if_false]; exact ih _ hq
    | take =>
      cases q with
      | nil => simp only [seqRun, qApplyB]; exact ih _ (by simp)
      | cons a t => simp only [seqRun, qApplyB]; exact ih _ (by simp at hq; omega)
    | poll =>
      cases q with
      | nil => simp only [seqRun, qApplyB]; exact ih _ (by simp)
      | cons a t => simp only [seqRun, qApplyB]; exact ih _ (by simp at hq; omega)

theorem bstack_bound (cap : Nat) (ops : List SOp) (q : List Int) (hq : q.length ≤ cap) :
    (seqRun (sApplyB cap) q ops).1.length ≤ cap := by
  induction ops generalizing q with
  | nil => simpa [seqRun] using hq
  | cons op ops ih =>
    cases op with
    | push v =>
      by_cases h : q.length < cap
      · simp only [seqRun, sApplyB, h, if_true]; exact ih _ (by simp; omega)
      · simp only [seqRun, sApplyB, h, if_false]; exact ih _ hq
    | pop =>
      cases hl : q.getLast? with
      | none => simp only [seqRun, sApplyB, hl]; exact ih _ hq
      | some a => simp only [seqRun, sApplyB, hl]; exact ih _ (by simp; omega)

end FpgoVerif.C08
