import FpgoVerif.Model.C07
/-! Helper lemmas for C07: the safety invariant of the BufferedChannelQueue transition system. -/
namespace FpgoVerif.C07

def optl : Option Nat → List Nat
  | none => []
  | some v => [v]

@[simp] theorem optl_none : optl none = [] := rfl
@[simp] theorem optl_some (v : Nat) : optl (some v) = [v] := rfl

/-- safety invariant: FIFO conservation, both bounds, lock discipline -/
structure Inv (s : St) : Prop where
  fifo : s.delivered ++ s.chan ++ optl s.inflight ++ s.pool = s.accepted
  chanB : s.chan.length ≤ s.c
  poolB : s.pool.length + (optl s.inflight).length ≤ s.b
  infl : s.inflight ≠ none → s.lock = .loader
  sawEmpty : ∀ v, s.lock = .producer v true → s.pool = [] ∧ s.inflight = none
  lpcLock : s.lpc = .inpass ↔ s.lock = .loader
  sawNonEmpty : ∀ v, s.lock = .producer v false → s.pool ≠ []

theorem init_inv (c b : Nat) : Inv (init c b) := by
  refine ⟨rfl, Nat.zero_le _, Nat.zero_le _, ?_, ?_, ?_, ?_⟩ <;> simp [init]

theorem inflight_none_of_not_loader {s : St} (infl : s.inflight ≠ none → s.lock = .loader)
    (h : s.lock ≠ .loader) : s.inflight = none := by
  cases hi : s.inflight with
  | none => rfl
  | some x => exact absurd (infl (by simp [hi])) h

theorem step_inv {s s' : St} {a : Act} (h : step s a = some s') (hi : Inv s) : Inv s' := by
  obtain ⟨fifo, chanB, poolB, infl, sawEmpty, lpcLock, sawNonEmpty⟩ := hi
  cases a with
  | offerLock v =>
    simp only [step] at h
    split at h <;> simp at h
    rename_i hl; subst h
    have hin : s.inflight = none := inflight_none_of_not_loader infl (by simp [hl])
    refine ⟨fifo, chanB, poolB, ?_, ?_, ?_, ?_⟩
    · intro hne; exact absurd hin hne
    · intro w hw
      simp at hw
      exact ⟨by simpa [List.isEmpty_iff] using hw.2, hin⟩
    · simp; intro hp; have := lpcLock.mp hp; simp [hl] at this
    · intro w hw hp; simp at hw; exact hw.2 hp
  | offerChan v =>
    simp only [step] at h
    split at h <;> simp at h
    rename_i hc; subst h
    obtain ⟨hp, hin⟩ := sawEmpty v hc.1
    refine ⟨?_, ?_, poolB, ?_, ?_, ?_, ?_⟩
    · simp [hp, hin] at fifo ⊢; rw [← fifo]; simp
    · simp; omega
    · intro hne; exact absurd hin hne
    · intro w hw; simp at hw
    · simp; intro hp'; have := lpcLock.mp hp'; simp [hc.1] at this
    · intro w hw; simp at hw
  | offerHandoff v =>
    simp only [step] at h
    split at h <;> simp at h
    rename_i hc; subst h
    obtain ⟨hp, hin⟩ := sawEmpty v hc.1
    refine ⟨?_, chanB, poolB, ?_, ?_, ?_, ?_⟩
    · simp [hp, hin, hc.2.1] at fifo ⊢; rw [← fifo]
    · intro hne; exact absurd hin hne
    · intro w hw; simp at hw
    · simp; intro hp'; have := lpcLock.mp hp'; simp [hc.1] at this
    · intro w hw; simp at hw
  | offerFull v =>
    simp only [step] at h
    split at h <;> simp at h
    rename_i hc; subst h
    have hnl : s.lock ≠ .loader := by rcases hc.1 with h1 | h1 <;> simp [h1] <;> simp [h1.1]
    have hin : s.inflight = none := inflight_none_of_not_loader infl hnl
    refine ⟨fifo, chanB, poolB, ?_, ?_, ?_, ?_⟩
    · intro hne; exact absurd hin hne
    · intro w hw; simp at hw
    · simp; intro hp'; exact hnl (lpcLock.mp hp')
    · intro w hw; simp at hw
  | offerPool v =>
    simp only [step] at h
    split at h <;> simp at h
    rename_i hc; subst h
    have hnl : s.lock ≠ .loader := by rcases hc.1 with h1 | h1 <;> simp [h1] <;> simp [h1.1]
    have hin : s.inflight = none := inflight_none_of_not_loader infl hnl
    refine ⟨?_, chanB, ?_, ?_, ?_, ?_, ?_⟩
    · simp [hin] at fifo ⊢; rw [← fifo]; simp
    · simp [hin]; omega
    · intro hne; exact absurd hin hne
    · intro w hw; simp at hw
    · simp; intro hp'; exact hnl (lpcLock.mp hp')
    · intro w hw; simp at hw
  | notify =>
    simp only [step] at h
    split at h <;> simp at h
    subst h
    exact ⟨fifo, chanB, poolB, infl, sawEmpty, lpcLock, sawNonEmpty⟩
  | recvWait =>
    simp only [step] at h
    simp at h; subst h
    exact ⟨fifo, chanB, poolB, infl, sawEmpty, lpcLock, sawNonEmpty⟩
  | recvTimeout =>
    simp only [step] at h
    split at h <;> simp at h
    subst h
    exact ⟨fifo, chanB, poolB, infl, sawEmpty, lpcLock, sawNonEmpty⟩
  | recvTake =>
    simp only [step] at h
    split at h
    · rename_i x rest hc
      split at h <;> simp at h
      subst h
      refine ⟨?_, ?_, poolB, infl, sawEmpty, lpcLock, sawNonEmpty⟩
      · simp [hc] at fifo ⊢; rw [← fifo]
      · simp [hc] at chanB ⊢; omega
    · simp at h
  | tryRecv =>
    simp only [step] at h
    split at h
    · rename_i x rest hc
      simp at h; subst h
      refine ⟨?_, ?_, poolB, infl, sawEmpty, lpcLock, sawNonEmpty⟩
      · simp [hc] at fifo ⊢; rw [← fifo]
      · simp [hc] at chanB ⊢; omega
    · simp at h
  | pollEmpty =>
    simp only [step] at h
    split at h <;> simp at h
    subst h
    exact ⟨fifo, chanB, poolB, infl, sawEmpty, lpcLock, sawNonEmpty⟩
  | loaderWake =>
    simp only [step] at h
    split at h <;> simp at h
    rename_i hc; subst h
    refine ⟨fifo, chanB, poolB, infl, sawEmpty, ?_, sawNonEmpty⟩
    simp
    intro hl; have := lpcLock.mpr hl; simp [hc.2] at this
  | loaderLock =>
    simp only [step] at h
    split at h <;> simp at h
    rename_i hc; subst h
    refine ⟨fifo, chanB, poolB, fun _ => rfl, ?_, by simp, ?_⟩
    intro w hw; simp at hw
    · intro w hw; simp at hw
  | loaderPoll =>
    simp only [step] at h
    split at h
    · rename_i x rest hp
      split at h <;> simp at h
      rename_i hc; subst h
      refine ⟨?_, chanB, ?_, fun _ => hc.1, ?_, lpcLock, ?_⟩
      · simp [hc.2, hp] at fifo ⊢; exact fifo
      · simp [hc.2, hp] at poolB ⊢; omega
      · intro w hw; simp [hc.1] at hw
      · intro w hw; simp [hc.1] at hw
    · simp at h
  | loaderSend =>
    simp only [step] at h
    split at h
    · rename_i x hin
      split at h <;> simp at h
      rename_i hc; subst h
      refine ⟨?_, ?_, ?_, ?_, ?_, lpcLock, ?_⟩
      · simp [hin] at fifo ⊢; rw [← fifo]
      · simp; omega
      · simp [hin] at poolB ⊢; omega
      · intro hne; simp at hne
      · intro w hw; simp [hc.1] at hw
      · intro w hw; simp [hc.1] at hw
    · simp at h
  | loaderHandoff =>
    simp only [step] at h
    split at h
    · rename_i x hin
      split at h <;> simp at h
      rename_i hc; subst h
      refine ⟨?_, chanB, ?_, ?_, ?_, lpcLock, ?_⟩
      · simp [hin, hc.2.1] at fifo ⊢; rw [← fifo]
      · simp [hin] at poolB ⊢; omega
      · intro hne; simp at hne
      · intro w hw; simp [hc.1] at hw
      · intro w hw; simp [hc.1] at hw
    · simp at h
  | loaderUnshift =>
    simp only [step] at h
    split at h
    · rename_i x hin
      split at h <;> simp at h
      rename_i hc; subst h
      refine ⟨?_, chanB, ?_, ?_, ?_, by simp, ?_⟩
      · simp [hin] at fifo ⊢; exact fifo
      · simp [hin] at poolB ⊢; omega
      · intro hne; simp at hne
      · intro w hw; simp at hw
      · intro w hw; simp at hw
    · simp at h
  | loaderDone =>
    simp only [step] at h
    split at h <;> simp at h
    rename_i hc; subst h
    refine ⟨fifo, chanB, poolB, ?_, ?_, by simp, ?_⟩
    · intro hne; exact absurd hc.2.1 hne
    · intro w hw; simp at hw
    · intro w hw; simp at hw

theorem step_cfg {s s' : St} {a : Act} (h : step s a = some s') : s'.c = s.c ∧ s'.b = s.b := by
  cases a <;> simp only [step] at h <;> (repeat' split at h) <;> simp at h <;> (try subst h) <;> simp

theorem run_inv (acts : List Act) : ∀ {s s' : St}, run s acts = some s' → Inv s → Inv s' := by
  induction acts with
  | nil => intro s s' h hi; simp [run] at h; subst h; exact hi
  | cons a as ih =>
    intro s s' h hi
    simp only [run] at h
    cases hs : step s a with
    | none => simp [hs] at h
    | some s1 => simp [hs] at h; exact ih h (step_inv hs hi)

theorem run_cfg (acts : List Act) : ∀ {s s' : St}, run s acts = some s' → s'.c = s.c ∧ s'.b = s.b := by
  induction acts with
  | nil => intro s s' h; simp [run] at h; subst h; exact ⟨rfl, rfl⟩
  | cons a as ih =>
    intro s s' h
    simp only [run] at h
    cases hs : step s a with
    | none => simp [hs] at h
    | some s1 =>
      simp [hs] at h
      have := ih h; have := step_cfg hs; omega

theorem reach_inv {c b : Nat} {s : St} (h : Reach c b s) : Inv s := by
  obtain ⟨acts, h⟩ := h
  exact run_inv acts h (init_inv c b)

theorem reach_cfg {c b : Nat} {s : St} (h : Reach c b s) : s.c = c ∧ s.b = b := by
  obtain ⟨acts, h⟩ := h
  simpa [init] using run_cfg acts h

end FpgoVerif.C07
