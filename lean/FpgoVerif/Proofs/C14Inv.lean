import FpgoVerif.Model.C14
/-! Routing / conservation invariant of the coroutine system, by induction over the steps. -/
namespace FpgoVerif.C14

structure Inv (script : Nat → List Nat) (s : St) : Prop where
  /-- requests of caller i: taken by the target ++ queued in opCh ++ not yet sent = its script, in order -/
  reqs : ∀ i, xsOf i s.served ++ chOf i s.opCh ++ s.pending i = script i
  /-- answers of caller i: received ++ in its resultCh ++ being answered = the y's yielded for ITS requests, in order -/
  ans : ∀ i, s.got i ++ s.resCh i ++ inflY i s.inflight = ysOf i s.served

theorem chOf_append (i : Nat) (a b : List (Option Nat × Nat)) : chOf i (a ++ b) = chOf i a ++ chOf i b := by
  simp [chOf, List.filter_append]
theorem xsOf_append (i : Nat) (a b : List (Option Nat × Nat × Nat)) : xsOf i (a ++ b) = xsOf i a ++ xsOf i b := by
  simp [xsOf, List.filter_append]
theorem ysOf_append (i : Nat) (a b : List (Option Nat × Nat × Nat)) : ysOf i (a ++ b) = ysOf i a ++ ysOf i b := by
  simp [ysOf, List.filter_append]

theorem inv_init (script : Nat → List Nat) (sv : Option Nat) : Inv script (init script sv) := by
  constructor
  · intro i; cases sv <;> simp [init, xsOf, chOf]
  · intro i; simp [init, ysOf, inflY]

theorem inv_step {gen cap script s s'} (a : Act) (h : step gen cap s a = some s') (hi : Inv script s) : Inv script s' := by
  obtain ⟨reqs, ans⟩ := hi
  cases a with
  | send i =>
    simp only [step] at h
    split at h
    · rename_i x rest hp
      split at h
      · simp only [Option.some.injEq] at h; subst h
        constructor
        · intro k
          have hk := reqs k
          simp only [chOf_append, updL]
          by_cases hki : k = i
          · subst hki; rw [hp] at hk; simp [chOf] at hk ⊢; simpa [List.append_assoc] using hk
          · have : chOf k [(some i, x)] = [] := by
              simp [chOf]; intro h; exact hki h.symm
            simp [this, hki]; simpa using hk
        · intro k; simpa using ans k
      · simp at h
    · simp at h
  | take =>
    simp only [step] at h
    split at h
    · rename_i c x rest hinf hop
      simp only [Option.some.injEq] at h; subst h
      constructor
      · intro k
        have hk := reqs k
        rw [hop] at hk
        simp only [xsOf_append]
        by_cases hc : c = some k
        · subst hc; simp [xsOf, chOf] at hk ⊢; simpa [List.append_assoc] using hk
        · have h1 : xsOf k [(c, x, gen (seenOf s.served))] = [] := by simp [xsOf, hc]
          have h2 : chOf k ((c, x) :: rest) = chOf k rest := by simp [chOf, hc]
          rw [h2] at hk; simp [h1]; simpa using hk
      · intro k
        have hk := ans k
        rw [hinf] at hk
        simp only [ysOf_append]
        by_cases hc : c = some k
        · subst hc; simp [ysOf, inflY] at hk ⊢; rw [← hk]; simp [List.append_assoc]
        · have h1 : ysOf k [(c, x, gen (seenOf s.served))] = [] := by simp [ysOf, hc]
          have h2 : inflY k (some (c, x, gen (seenOf s.served))) = [] := by
            cases c with
            | none => simp [inflY]
            | some j => simp [inflY]; intro h; exact hc (by rw [h])
          simp [h1, h2]; simpa [inflY] using hk
    · simp at h
  | answer =>
    simp only [step] at h
    split at h
    · rename_i i x y hinf
      simp only [Option.some.injEq] at h; subst h
      constructor
      · intro k; simpa using reqs k
      · intro k
        have hk := ans k
        rw [hinf] at hk
        simp only [updL, inflY]
        by_cases hki : k = i
        · subst hki; simp [inflY] at hk ⊢; rw [← hk]
        · have : inflY k (some (some i, x, y)) = [] := by simp [inflY]; intro h; exact hki h.symm
          rw [this] at hk; simp [hki]; simpa using hk
    · rename_i x y hinf
      simp only [Option.some.injEq] at h; subst h
      constructor
      · intro k; simpa using reqs k
      · intro k
        have hk := ans k
        rw [hinf] at hk
        simpa [inflY] using hk
    · simp at h
  | recv i =>
    simp only [step] at h
    split at h
    · rename_i y rest hr
      split at h
      · simp only [Option.some.injEq] at h; subst h
        constructor
        · intro k; simpa using reqs k
        · intro k
          have hk := ans k
          simp only [updL]
          by_cases hki : k = i
          · subst hki; rw [hr] at hk; simp at hk ⊢; rw [← hk]
          · simp [hki]; simpa using hk
      · simp at h
    · simp at h

theorem inv_reach {gen cap script sv s} (h : Reach gen cap script sv s) : Inv script s := by
  induction h with
  | init => exact inv_init script sv
  | step a _ hs ih => exact inv_step a hs ih

end FpgoVerif.C14
