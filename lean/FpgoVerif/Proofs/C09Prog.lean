import FpgoVerif.Proofs.C09Inv
/-! C09 — the progress invariant (repaired expiry, standby ≥ 1, max ≥ 1). -/
namespace FpgoVerif.C09

theorem lt_of_getElem? {α : Type} {l : List α} {i : Nat} {a : α} (h : l[i]? = some a) : i < l.length := by
  apply Classical.byContradiction; intro hn
  rw [List.getElem?_eq_none (by omega)] at h; cases h

theorem exists_set {α : Type} {P : α → Prop} {l : List α} {i : Nat} {a : α} (a' : α) (hl : l[i]? = some a)
    (h : ∃ x ∈ l, P x) (hp : P a → P a') : ∃ x ∈ l.set i a', P x := by
  obtain ⟨x, hx, hpx⟩ := h
  obtain ⟨k, hk⟩ := List.getElem?_of_mem hx
  by_cases hki : i = k
  · subst hki
    rw [hl] at hk; cases hk
    exact ⟨a', List.mem_set (lt_of_getElem? hl) a', hp hpx⟩
  · refine ⟨x, ?_, hpx⟩
    apply List.mem_of_getElem? (i := k)
    rw [List.getElem?_set_ne hki]; exact hk

theorem self_mem_set {α : Type} {l : List α} {i : Nat} {a : α} (a' : α) (hl : l[i]? = some a) : a' ∈ l.set i a' :=
  List.mem_set (lt_of_getElem? hl) a'

/-- the worker will come back to the select (it is not leaving), or it is dying on a panic and will post
    the spawn token -/
def helpW : WPc → Bool
  | .top | .sel | .got _ | .run _ | .aft _ | .pan _ _ | .exitDec true | .exitTok => true
  | _ => false
/-- a Schedule call that has offered and is about to post the spawn token -/
def subTok (sb : Sub) : Bool :=
  match sb.pc with
  | .token _ => true
  | _ => false
/-- the spawn loop is awake and will reach generateWorkerWithMaximum with a positive target -/
def spWill : SpPc → Bool
  | .awake | .cnt1 | .cnt2 _ => true
  | .computed e => decide (1 ≤ e)
  | .enter e => decide (1 ≤ e)
  | .loop i e => decide (i < e)
  | _ => false

def Good (s : St) : Prop :=
  (∃ w ∈ s.workers, helpW w = true) ∨ s.token = true ∨ (∃ sb ∈ s.subs, subTok sb = true) ∨ spWill s.sp = true

instance (s : St) : Decidable (Good s) := by unfold Good; exact inferInstance

structure InvG (s : St) : Prop where
  noX : s.closed = false → ∀ w ∈ s.workers, w ≠ .exitDec false
  spE : ∀ e, s.sp = .computed e ∨ s.sp = .enter e → 1 ≤ e
  spL : ∀ i e, s.sp = .loop i e → i < e
  good : s.closed = false → s.queue ≠ [] → Good s

theorem wsum_pos {f : WPc → Nat} {l : List WPc} (h : 1 ≤ wsum f l) : ∃ w ∈ l, 1 ≤ f w := by
  induction l with
  | nil => simp [wsum] at h
  | cons x l ih =>
    simp only [wsum] at h
    by_cases hx : 1 ≤ f x
    · exact ⟨x, by simp, hx⟩
    · obtain ⟨w, hw, hf⟩ := ih (by omega)
      exact ⟨w, by simp [hw], hf⟩

/-- an open pool with workerCount ≥ 1 has a worker that stays or that will post the token -/
theorem alive_help {c : Cfg} {s : St} (hw : InvW c s) (hx : ∀ w ∈ s.workers, w ≠ .exitDec false)
    (h1 : 1 ≤ s.count) : ∃ w ∈ s.workers, helpW w = true := by
  rw [hw.cnt] at h1
  obtain ⟨w, hm, ha⟩ := wsum_pos h1
  refine ⟨w, hm, ?_⟩
  have := hx w hm
  cases w <;> simp [alive, helpW] at *
  case exitDec p => cases p <;> simp at *

theorem expected_pos (c : Cfg) (n1 n2 count busy : Nat) (jam : Bool) (h1 : 1 ≤ c.standby) (h2 : 1 ≤ c.max) :
    1 ≤ expected c n1 n2 count busy jam := by
  unfold expected
  simp only []
  generalize (if c.batch > 0 then n1 / c.batch + (if n2 % c.batch > 0 then 1 else 0) else 0) = e0
  have h1' : 1 ≤ (if c.standby > e0 then c.standby else e0) := by split <;> omega
  generalize (if c.standby > e0 then c.standby else e0) = e1 at *
  have h2' : 1 ≤ (if c.max > 0 ∧ e1 > c.max then c.max else e1) := by split <;> omega
  generalize (if c.max > 0 ∧ e1 > c.max then c.max else e1) = e2 at *
  split <;> omega

theorem stepW_closed {c : Cfg} {s t : St} {a : Act} (h : stepW c s a = some t) : t.closed = s.closed := by
  cases a <;> simp only [stepW] at h <;> step_split h <;> rfl

theorem genWorker_closed (c : Cfg) (s : St) (m : Nat) : (genWorker c s m).closed = s.closed :=
  (genWorker_frameS c s m).2.2.2.2.2.2

theorem stepPool_closed {c : Cfg} {s t : St} {a : Act} (h : stepPool c s a = some t) :
    t.closed = s.closed ∨ t.closed = true := by
  cases a <;> simp only [stepPool] at h <;> step_split h
  all_goals first
    | exact Or.inl rfl
    | exact Or.inr rfl
    | exact Or.inl (genWorker_closed _ _ _)

theorem stepSub_closed {c : Cfg} {s t : St} {a : Act} (h : stepSub c s a = some t) : t.closed = s.closed := by
  cases a <;> simp only [stepSub] at h <;> step_split h
  all_goals first
    | rfl
    | exact (afterSchedule_frame { s with token := true } ‹Nat› ‹Sub› ‹Res›).2.2.2.2.2.2.2.2.2.2.1

/-- the closed flag is never reset -/
theorem step_closed {c : Cfg} {s t : St} {a : Act} (h : step c s a = some t) : t.closed = s.closed ∨ t.closed = true := by
  cases a <;> simp only [step] at h <;>
    first | exact Or.inl (stepSub_closed h) | exact stepPool_closed h | exact Or.inl (stepW_closed h)

theorem stepW_invG {c : Cfg} {s t : St} {a : Act} (hs : 1 ≤ c.standby) (hx : c.atomicExpiry = true)
    (h : stepW c s a = some t) (hw0 : InvW c s) (hi : InvG s) : InvG t := by
  have hwt : InvW c t := stepW_invW h hw0
  have hcl := stepW_closed h
  have hnx : ∀ (i : Nat) (w w' : WPc), s.workers[i]? = some w → (s.closed = false → w' ≠ WPc.exitDec false) →
      s.closed = false → ∀ x ∈ s.workers.set i w', x ≠ WPc.exitDec false := by
    intro i w w' _ h2 hc x hm
    rcases List.mem_or_eq_of_mem_set hm with h1 | h1
    · exact hi.noX hc x h1
    · subst h1; exact h2 hc
  cases a <;> simp only [stepW] at h <;> step_split h
  all_goals (
    have hw := ‹s.workers[_]? = some _›
    refine ⟨fun hc => ?_, hi.spE, hi.spL, ?_⟩
    · have hc' : s.closed = false := hcl ▸ hc
      simp only [setW]
      exact hnx _ _ _ hw (by simp_all) hc'
    intro hc hq
    have hc' : s.closed = false := hcl ▸ hc
    first
      | exact Or.inl ⟨_, self_mem_set _ hw, rfl⟩
      | exact Or.inr (Or.inl rfl)
      | (exfalso; exact hi.noX hc' _ (List.mem_of_getElem? hw) rfl)
      | (exfalso; simp_all; done)
      | (refine Or.inl (alive_help hwt (hnx _ _ _ hw (by simp) hc') ?_)
         have := hw0.cap
         simp_all; omega))

theorem genWorker_good {c : Cfg} {s : St} (m : Nat) (h : Good s) : Good (genWorker c s m) := by
  unfold genWorker
  split
  · exact h
  · rcases h with ⟨w, hm, hw⟩ | h | h | h
    · exact Or.inl ⟨w, by simp [hm], hw⟩
    · exact Or.inr (Or.inl h)
    · exact Or.inr (Or.inr (Or.inl h))
    · exact Or.inr (Or.inr (Or.inr h))

theorem genWorker_noX {c : Cfg} {s : St} (m : Nat) (h : ∀ w ∈ s.workers, w ≠ WPc.exitDec false) :
    ∀ w ∈ (genWorker c s m).workers, w ≠ WPc.exitDec false := by
  unfold genWorker
  split
  · exact h
  · intro w hm
    simp at hm
    rcases hm with hm | hm
    · exact h w hm
    · subst hm; simp

theorem genWorker_queue (c : Cfg) (s : St) (m : Nat) : (genWorker c s m).queue = s.queue ∧
    (genWorker c s m).sp = s.sp := by
  unfold genWorker; split <;> simp

/-- after a generateWorkerWithMaximum(e) with e ≥ 1 an open pool has a helper -/
theorem genWorker_help {c : Cfg} {s : St} (e : Nat) (hm : 1 ≤ c.max) (he : 1 ≤ e) (hw : InvW c s)
    (hx : ∀ w ∈ s.workers, w ≠ WPc.exitDec false) : ∃ w ∈ (genWorker c s e).workers, helpW w = true := by
  have hwt := genWorker_invW (c := c) e hw
  have hxt := genWorker_noX (c := c) e hx
  apply alive_help hwt hxt
  unfold genWorker
  split
  · next hg => rcases hg with hg | hg <;> omega
  · simp

theorem stepPool_invG {c : Cfg} {s t : St} {a : Act} (hs : 1 ≤ c.standby) (hm : 1 ≤ c.max)
    (h : stepPool c s a = some t) (hw0 : InvW c s) (hi : InvG s) : InvG t := by
  have hwt : InvW c t := stepPool_invW h hw0
  cases a <;> simp only [stepPool] at h
  case closeFlag =>
    step_split h
    exact ⟨fun hc => by simp at hc, hi.spE, hi.spL, fun hc => by simp at hc⟩
  case closeQueue keep =>
    step_split h
    · refine ⟨hi.noX, hi.spE, hi.spL, fun hc hq => ?_⟩
      have : s.queue ≠ [] := by intro h0; simp [h0] at hq
      exact hi.good hc this
    · exact ⟨hi.noX, hi.spE, hi.spL, hi.good⟩
  case spWake =>
    step_split h
    exact ⟨hi.noX, by simp, by simp, fun _ _ => Or.inr (Or.inr (Or.inr rfl))⟩
  case spCheck =>
    step_split h
    · exact ⟨hi.noX, by simp, by simp, fun hc => by simp_all⟩
    · exact ⟨hi.noX, by simp, by simp, fun _ _ => Or.inr (Or.inr (Or.inr rfl))⟩
  case spCnt1 =>
    step_split h
    exact ⟨hi.noX, by simp, by simp, fun _ _ => Or.inr (Or.inr (Or.inr rfl))⟩
  case spCnt2 jam =>
    step_split h
    have he := expected_pos c ‹Nat› (qcount s) s.count s.busy jam hs hm
    exact ⟨hi.noX, by intro e h1; simp at h1; omega, by simp,
      fun _ _ => Or.inr (Or.inr (Or.inr (by simp [spWill]; exact he)))⟩
  case spRead =>
    step_split h
    · next e hsp hlt =>
      exact ⟨hi.noX, by intro e' h1; simp at h1; omega, by simp,
        fun _ _ => Or.inr (Or.inr (Or.inr (by simp [spWill]; omega)))⟩
    · next e hsp hge =>
      have he := hi.spE e (Or.inl hsp)
      refine ⟨hi.noX, by simp, by simp, fun hc _ => Or.inl ?_⟩
      exact alive_help (s := s) hw0 (hi.noX hc) (by omega)
  case spInit =>
    step_split h
    · next e hsp hlt =>
      exact ⟨hi.noX, by simp, by intro i e' h1; simp at h1; omega,
        fun _ _ => Or.inr (Or.inr (Or.inr (by simp [spWill]; exact hlt)))⟩
    · next e hsp hge =>
      have he := hi.spE e (Or.inr hsp)
      refine ⟨hi.noX, by simp, by simp, fun hc _ => Or.inl ?_⟩
      exact alive_help (s := s) hw0 (hi.noX hc) (by omega)
  case spGen =>
    split at h <;> try (simp at h; done)
    rename_i x i e hsp
    split at h <;> try (simp at h; done)
    rename_i hlt
    injection h with h; subst h
    have hq := genWorker_queue c s e
    refine ⟨fun hc => genWorker_noX e (hi.noX ((genWorker_closed c s e) ▸ hc)), ?_, ?_, fun hc _ => Or.inl ?_⟩
    · intro e' h1; simp at h1; split at h1 <;> simp at h1
    · intro i' e' h1; simp at h1; split at h1 <;> simp at h1; omega
    · exact genWorker_help e hm (by omega) hw0 (hi.noX ((genWorker_closed c s e) ▸ hc))
  case spSleep =>
    step_split h
    next hsp =>
    refine ⟨hi.noX, by simp, by simp, fun hc hq => ?_⟩
    rcases hi.good hc hq with h1 | h1 | h1 | h1
    · exact Or.inl h1
    · exact Or.inr (Or.inl h1)
    · exact Or.inr (Or.inr (Or.inl h1))
    · rw [hsp] at h1; simp [spWill] at h1
  case gen m =>
    injection h with h; subst h
    have hq := genWorker_queue c s m
    refine ⟨fun hc => genWorker_noX m (hi.noX ((genWorker_closed c s m) ▸ hc)), ?_, ?_, fun hc hqq => ?_⟩
    · rw [hq.2]; exact hi.spE
    · rw [hq.2]; exact hi.spL
    · exact genWorker_good m (hi.good ((genWorker_closed c s m) ▸ hc) (hq.1 ▸ hqq))
  case notify =>
    step_split h
    · exact ⟨hi.noX, hi.spE, hi.spL, fun _ _ => Or.inr (Or.inl rfl)⟩
    · exact ⟨hi.noX, hi.spE, hi.spL, hi.good⟩
  case setHandler on =>
    injection h with h; subst h
    exact ⟨hi.noX, hi.spE, hi.spL, hi.good⟩
  all_goals simp at h

/-- Good survives a submission changing its own entry, as long as that entry was not the token poster -/
theorem good_setS {s t : St} {i : Nat} {sb sb' : Sub} (hsb : s.subs[i]? = some sb)
    (hw : t.workers = s.workers) (htk : s.token = true → t.token = true) (hsp : t.sp = s.sp)
    (hsu : t.subs = s.subs.set i sb') (hp : subTok sb = true → subTok sb' = true ∨ t.token = true)
    (h : Good s) : Good t := by
  rcases h with h1 | h1 | h1 | h1
  · exact Or.inl (hw ▸ h1)
  · exact Or.inr (Or.inl (htk h1))
  · by_cases hq : subTok sb = true
    · rcases hp hq with h2 | h2
      · exact Or.inr (Or.inr (Or.inl ⟨sb', hsu ▸ self_mem_set sb' hsb, h2⟩))
      · exact Or.inr (Or.inl h2)
    · refine Or.inr (Or.inr (Or.inl ?_))
      rw [hsu]
      exact exists_set sb' hsb h1 (fun hh => absurd hh hq)
  · exact Or.inr (Or.inr (Or.inr (hsp ▸ h1)))

theorem stepSub_invG {c : Cfg} {s t : St} {a : Act} (h : stepSub c s a = some t) (hi : InvG s) : InvG t := by
  cases a <;> simp only [stepSub, afterSchedule] at h
  case submit timed =>
    injection h with h; subst h
    refine ⟨hi.noX, hi.spE, hi.spL, fun hc hq => ?_⟩
    rcases hi.good hc hq with h1 | h1 | ⟨sb, hm, hsb⟩ | h1
    · exact Or.inl h1
    · exact Or.inr (Or.inl h1)
    · exact Or.inr (Or.inr (Or.inl ⟨sb, by simp [hm], hsb⟩))
    · exact Or.inr (Or.inr (Or.inr h1))
  case sOffer i full =>
    step_split h
    all_goals (
      have hs := ‹s.subs[i]? = some _›
      refine ⟨hi.noX, hi.spE, hi.spL, fun _ _ => Or.inr (Or.inr (Or.inl ⟨_, self_mem_set _ hs, rfl⟩))⟩)
  case sToken i =>
    step_split h
    all_goals exact ⟨hi.noX, hi.spE, hi.spL, fun _ _ => Or.inr (Or.inl rfl)⟩
  case sCheck i =>
    step_split h
    all_goals (
      have hs := ‹s.subs[i]? = some _›
      refine ⟨hi.noX, hi.spE, hi.spL, fun hc hq => good_setS hs rfl id rfl rfl ?_ (hi.good hc hq)⟩
      simp_all [subTok])
  case sLoopCheck i =>
    step_split h
    all_goals (
      have hs := ‹s.subs[i]? = some _›
      refine ⟨hi.noX, hi.spE, hi.spL, fun hc hq => good_setS hs rfl id rfl rfl ?_ (hi.good hc hq)⟩
      simp_all [subTok])
  case sDeadline i =>
    step_split h
    all_goals (
      have hs := ‹s.subs[i]? = some _›
      refine ⟨hi.noX, hi.spE, hi.spL, fun hc hq => good_setS hs rfl id rfl rfl ?_ (hi.good hc hq)⟩
      simp_all [subTok])
  case deadline i =>
    step_split h
    all_goals (
      have hs := ‹s.subs[i]? = some _›
      refine ⟨hi.noX, hi.spE, hi.spL, fun hc hq => good_setS hs rfl id rfl rfl ?_ (hi.good hc hq)⟩
      simp_all [subTok])
  all_goals simp at h

theorem step_invG {c : Cfg} {s t : St} {a : Act} (hs : 1 ≤ c.standby) (hm : 1 ≤ c.max) (hx : c.atomicExpiry = true)
    (h : step c s a = some t) (hw : InvW c s) (hi : InvG s) : InvG t := by
  cases a <;> simp only [step] at h <;>
    first | exact stepSub_invG h hi | exact stepPool_invG hs hm h hw hi | exact stepW_invG hs hx h hw hi

/-! ### the invariants hold in every reachable state -/
theorem init_invW (c : Cfg) : InvW c init := ⟨rfl, rfl, Nat.zero_le _⟩
theorem init_invJ : InvJ init := ⟨fun _ => rfl, fun _ => rfl⟩
theorem init_invS : InvS init :=
  ⟨fun j => by simp [init, accOf], fun j hj => by simp [init] at hj, fun i sb h => by simp [init] at h,
   fun i sb h => by simp [init] at h, fun i sb h => by simp [init] at h, fun i sb h => by simp [init] at h⟩
theorem init_invP : InvP init := ⟨fun _ => rfl, fun _ => Nat.le_refl _⟩
theorem init_invG : InvG init :=
  ⟨fun _ w hw => by simp [init] at hw, fun e h => by simp [init] at h, fun i e h => by simp [init] at h,
   fun _ hq => by simp [init] at hq⟩

theorem reach_invW {c : Cfg} {s : St} (h : Reach c s) : InvW c s := by
  induction h with
  | init => exact init_invW c
  | step _ hs ih => exact step_invW hs ih
theorem reach_invJ {c : Cfg} {s : St} (h : Reach c s) : InvJ s := by
  induction h with
  | init => exact init_invJ
  | step _ hs ih => exact step_invJ hs ih
theorem reach_invS {c : Cfg} {s : St} (h : Reach c s) : InvS s := by
  induction h with
  | init => exact init_invS
  | step _ hs ih => exact step_invS hs ih
theorem reach_invP {c : Cfg} {s : St} (h : Reach c s) : InvP s := by
  induction h with
  | init => exact init_invP
  | step _ hs ih => exact step_invP hs ih
theorem reach_invG {c : Cfg} {s : St} (hs : 1 ≤ c.standby) (hm : 1 ≤ c.max) (hx : c.atomicExpiry = true)
    (h : Reach c s) : InvG s := by
  induction h with
  | init => exact init_invG
  | step hr hst ih => exact step_invG hs hm hx hst (reach_invW hr) ih

theorem reach_runActs {c : Cfg} {s t : St} (acts : List Act) (hr : Reach c s) (h : runActs c s acts = some t) :
    Reach c t := by
  induction acts generalizing s with
  | nil => simp [runActs] at h; subst h; exact hr
  | cons a as ih =>
    simp only [runActs] at h
    split at h
    · next u hu => exact ih (Reach.step hr hu) h
    · simp at h

theorem accOf_le_one (subs : List Sub) (j : Nat) : accOf subs j ≤ 1 := by
  unfold accOf; split
  · split <;> omega
  · omega

end FpgoVerif.C09
