import FpgoVerif.Proofs.C06Walk
/-! Refinement: one step of the pointer-level model simulates one step of the ideal deque; histories. -/
namespace FpgoVerif.C06
local notation "Addr" => Nat

/-- abstraction relation: the heap represents the ideal sequence, and the free list has the ideal size -/
def Abs (q : Q) (s : Ideal) : Prop := ∃ chain pool, Rep q s.items chain pool ∧ pool.length = s.spare

theorem abs_init (pick : Nat → Nat) : Abs (initWith pick) ideal0 :=
  ⟨[], [], ⟨⟨.nil, .nil, .nil, by simp, by simp, rfl, rfl, by simp [initWith], by simp [initWith], by simp [initWith],
    by simp [initWith]⟩, rfl⟩, rfl⟩

theorem step_refines {q : Q} {s : Ideal} (h : Abs q s) (op : Op) :
    (step q op).2 = (specStep s op).2 ∧ Abs (step q op).1 (specStep s op).1 := by
  obtain ⟨chain, pool, hr, hlen⟩ := h
  cases op with
  | offer v =>
    obtain ⟨c', p', hr', hl'⟩ := offer_rep hr v
    exact ⟨rfl, c', p', hr', by simp [specStep, hl', hlen]⟩
  | unshift v =>
    obtain ⟨c', p', hr', hl'⟩ := unshift_rep hr v
    exact ⟨rfl, c', p', hr', by simp [specStep, hl', hlen]⟩
  | shift =>
    cases hi : s.items with
    | nil =>
      have := shift_empty (hi ▸ hr)
      simp only [step, stepF, this, specStep, hi, obsOfOut, true_and]
      exact ⟨chain, pool, hr, hlen⟩
    | cons a t =>
      obtain ⟨c', p', ho, hr', hl'⟩ := shift_rep (hi ▸ hr)
      simp only [step, stepF, specStep, hi, ho, obsOfOut, true_and]
      exact ⟨c', p', hr', by simp [hl', hlen]⟩
  | pop =>
    rcases List.eq_nil_or_concat s.items with hi | ⟨L, b, hi⟩
    · have := pop_empty (hi ▸ hr)
      simp only [step, stepF, this, specStep, hi, obsOfOut, List.getLast?_nil, true_and]
      exact ⟨chain, pool, hr, hlen⟩
    · rw [List.concat_eq_append] at hi
      obtain ⟨c', p', ho, hr', hl'⟩ := pop_rep (hi ▸ hr)
      simp only [step, stepF, specStep, hi, ho, obsOfOut, List.getLast?_append, List.getLast?_singleton,
        Option.some_or, List.dropLast_concat, true_and]
      exact ⟨c', p', hr', by simp [hl', hlen]⟩
  | peek =>
    cases hi : s.items with
    | nil =>
      have := peek_empty (hi ▸ hr)
      simp only [step, stepF, this, specStep, hi, obsOfOut, true_and]
      exact ⟨chain, pool, hi ▸ hr, hlen⟩
    | cons a t =>
      have := peek_cons (hi ▸ hr)
      simp only [step, stepF, this, specStep, hi, obsOfOut, true_and]
      exact ⟨chain, pool, hi ▸ hr, hlen⟩
  | count =>
    refine ⟨?_, chain, pool, hr, hlen⟩
    simp only [step, stepF, specStep, count_rep hr]
  | clear =>
    obtain ⟨q', hc, hr'⟩ := clear_rep hr
    simp only [step, stepF, hc, specStep, true_and]
    exact ⟨[], chain, hr', hr.length_eq.symm⟩
  | keep n =>
    by_cases hn : n ≤ 0
    · obtain ⟨q', hc, hr'⟩ := clearNodePool_rep hr.toRep0
      have : keepNodePoolCount q n = some q' := by simp [keepNodePoolCount, hn, hc]
      simp only [step, stepF, this, specStep, true_and]
      exact ⟨chain, [], hr', by simp; omega⟩
    · obtain ⟨q', p', hc, hr', hl'⟩ := keep_pos_rep hr.toRep0 n (by omega)
      simp only [step, stepF, hc, specStep, true_and]
      exact ⟨chain, p', hr', hl'⟩
  | clearPool =>
    obtain ⟨q', hc, hr'⟩ := clearNodePool_rep hr.toRep0
    simp only [step, stepF, hc, specStep, true_and]
    exact ⟨chain, [], hr', rfl⟩
  | poolInfo =>
    refine ⟨?_, chain, pool, hr, hlen⟩
    simp only [step, stepF, specStep, walkLen_spec _ hr.hpool hr.pool_len_lt, hr.hnode, hlen]
  | bad => exact ⟨rfl, chain, pool, hr, hlen⟩

theorem run_refines (ops : List Op) {q : Q} {s : Ideal} (h : Abs q s) : run q ops = specRun s ops := by
  induction ops generalizing q s with
  | nil => rfl
  | cons op ops ih =>
    have := step_refines h op
    simp only [run, runF, specRun] at ih ⊢
    rw [show stepF true q op = step q op from rfl, this.1, ih this.2]

theorem stateAfter_abs (ops : List Op) {q : Q} {s : Ideal} (h : Abs q s) :
    Abs (stateAfter q ops) (ops.foldl (fun s op => (specStep s op).1) s) := by
  induction ops generalizing q s with
  | nil => exact h
  | cons op ops ih => exact ih (step_refines h op).2

/-- the ideal deque never panics and never hangs -/
theorem spec_total (ops : List Op) (s : Ideal) : ∀ o ∈ specRun s ops, o ≠ .panic ∧ o ≠ .hang := by
  induction ops generalizing s with
  | nil => intro o ho; simp [specRun] at ho
  | cons op ops ih =>
    intro o ho
    simp only [specRun, List.mem_cons] at ho
    rcases ho with ho | ho
    · subst ho
      cases op <;> simp [specStep] <;> split <;> simp
    · exact ih _ o ho

end FpgoVerif.C06
