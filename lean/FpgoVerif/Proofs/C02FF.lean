import FpgoVerif.Proofs.C02Round
import FpgoVerif.Proofs.C02Float
/-! C02 — float → float cells: identity (same type), exact widening float32 → float64, and float64 → float32
    (round to nearest even; the guard rejects exactly the finite values whose magnitude exceeds MaxFloat32 and lets
    NaN / ±Inf through). -/
namespace FpgoVerif.C02

theorem evalC_or (x : Val) (c d : C) :
    evalC x (.or c d) = (match evalC x c with | some false => evalC x d | r => r) := rfl

/-- the guard of the narrowing clause: `(lo <= v && v <= hi) || math.IsInf(v, 0) || math.IsNaN(v)` -/
def narrowGuardOK (g : C) : Bool :=
  match g with
  | .or (.or gi (.isInf .v)) (.isNaN .v) =>
    fltBounds false gi == some ⟨some (-(f32.maxFinite : Int)), some ((f32.maxFinite : Int), false)⟩
  | _ => false

def ffBodyOK (tbl : List Case) (tgt src : Ty) (body : Body) : Bool :=
  match tgt, src with
  | .float64, .float64 => body == .ident
  | .float32, .float32 => body == .ident
  | .float64, .float32 =>
    (match body with
     | .bind (.self .float32) none ⟨.cast .float64 .v, .fromCall⟩ _ => selfIdent tbl .float32
     | _ => false)
  | .float32, .float64 =>
    (match body with
     | .bind (.self .float64) (some g) ⟨.cast .float32 .v, .fromCall⟩ (some ⟨_, .overflow⟩) =>
       selfIdent tbl .float64 && narrowGuardOK g
     | _ => false)
  | _, _ => false

theorem narrow_guard_eval (g : C) (h : narrowGuardOK g = true) (v : FVal) :
    evalC (.f64 v) g = some (match v with
      | .fin _ m k => decide (m ≤ f32.maxFinite * 2 ^ k)
      | _ => true) := by
  match g, h with
  | .or (.or gi (.isInf .v)) (.isNaN .v), h =>
    simp only [narrowGuardOK, beq_iff_eq] at h
    obtain ⟨gfin, gnan, ginf⟩ := guard_eval h
    have e1 : ∀ y, mkF false y = .f64 y := fun y => by simp [mkF]
    simp only [e1] at gfin gnan ginf
    cases v with
    | nan =>
      rw [evalC_or, evalC_or, gnan]
      simp [evalC, evalE, FVal.isInf, FVal.isNaN]
    | inf s =>
      rw [evalC_or, evalC_or, ginf]
      simp [evalC, evalE, FVal.isInf]
    | fin s m k =>
      rw [evalC_or, evalC_or, gfin]
      have hp := pow2_pos k
      have hc : ((f32.maxFinite * 2 ^ k : Nat) : Int) = (f32.maxFinite : Int) * 2 ^ k := by simp
      have hm0 : (0 : Int) ≤ (m : Int) := Int.natCast_nonneg _
      have hM0 : (0 : Int) ≤ (f32.maxFinite : Int) * 2 ^ k := by rw [← hc]; exact Int.natCast_nonneg _
      have hneg : -(f32.maxFinite : Int) * 2 ^ k = -((f32.maxFinite : Int) * 2 ^ k) := Int.neg_mul _ _
      have hiff : (m ≤ f32.maxFinite * 2 ^ k) ↔ ((m : Int) ≤ (f32.maxFinite : Int) * 2 ^ k) := by
        rw [← hc]; exact Int.ofNat_le.symm
      by_cases hfit : m ≤ f32.maxFinite * 2 ^ k
      · have hfi := hiff.mp hfit
        have : (decide (-(f32.maxFinite : Int) * 2 ^ k ≤ sgn s m) &&
            (if false = true then decide (sgn s m < (f32.maxFinite : Int) * 2 ^ k)
             else decide (sgn s m ≤ (f32.maxFinite : Int) * 2 ^ k))) = true := by
          cases s <;> simp [sgn] <;> omega
        rw [this]
        simp [hfit]
      · have hfi : ¬ ((m : Int) ≤ (f32.maxFinite : Int) * 2 ^ k) := fun h => hfit (hiff.mpr h)
        have : (decide (-(f32.maxFinite : Int) * 2 ^ k ≤ sgn s m) &&
            (if false = true then decide (sgn s m < (f32.maxFinite : Int) * 2 ^ k)
             else decide (sgn s m ≤ (f32.maxFinite : Int) * 2 ^ k))) = false := by
          cases s <;> simp [sgn] <;> omega
        rw [this]
        simp [hfit, evalC, evalE, FVal.isInf, FVal.isNaN]

theorem f32_ne_f64 : (f32 = f64) = False := by simp [f32, f64]

/-- a successful narrowing to the nearest float32 satisfies the Spec as soon as finite stays finite -/
theorem spec_narrow_ok (v : FVal) (h : v.isFin = true → (v.roundTo f32).isFin = true) :
    specNum .float32 (.f64 v) ⟨.f32 (v.roundTo f32), .ok⟩ = true := by
  simp only [specNum, Ty.range, Ty.must, Ty.fmt, exactFloat, floatOf, f32_ne_f64, if_false, valOfTy, sameFloat_refl]
  cases hv : v.isFin with
  | false => simp
  | true => simp [h hv]

theorem spec_narrow_err (v : FVal) (x : Val) (hnf : fitsFloat f32 (.f64 v) = false) :
    specNum .float32 (.f64 v) ⟨x, .overflow⟩ = true := by
  simp only [specNum, Ty.range, Ty.must, Ty.fmt, hnf]
  simp

/-- the value itself, with a nil error, satisfies the Spec of a float target that contains the source type -/
theorem spec_same (tgt : Ty) (is32 : Bool) (v : FVal)
    (ht : (tgt = .float64) ∨ (tgt = .float32 ∧ is32 = true)) :
    specNum tgt (mkF is32 v) ⟨(if tgt = .float64 then .f64 v else .f32 v), .ok⟩ = true := by
  rcases ht with rfl | ⟨rfl, rfl⟩
  · cases is32 <;>
      simp [specNum, Ty.range, Ty.must, Ty.fmt, mkF, exactFloat, floatOf, valOfTy, sameFloat_refl]
  · simp [specNum, Ty.range, Ty.must, Ty.fmt, mkF, exactFloat, floatOf, valOfTy, sameFloat_refl]

theorem ffBodyOK_sound (sc : Strconv) (tbl : List Case) (n : Nat) (tgt : Ty) (is32 : Bool) (v : FVal)
    (hk : ffBodyOK tbl tgt (fltSrc is32) (lookup tbl tgt (.ty (fltSrc is32))) = true) :
    specNum tgt (mkF is32 v) (conv sc tbl (n + 2) tgt (.ty (fltSrc is32)) (mkF is32 v)) = true := by
  rw [conv_succ]
  generalize hb : lookup tbl tgt (.ty (fltSrc is32)) = body at hk
  cases is32 with
  | false =>
    have hsrc : fltSrc false = .float64 := rfl
    rw [hsrc] at hk ⊢
    cases tgt <;> try (simp [ffBodyOK] at hk; done)
    · -- float32 ← float64
      match body, hk with
      | .bind (.self .float64) (some g) ⟨.cast .float32 .v, .fromCall⟩ (some ⟨fe, .overflow⟩), hk =>
        have hk' : selfIdent tbl .float64 = true ∧ narrowGuardOK g = true := by
          simpa [ffBodyOK, Bool.and_eq_true] using hk
        obtain ⟨hsi, hg⟩ := hk'
        have hm : mkF false v = .f64 v := rfl
        simp only [evalBody, hm, conv_self sc tbl n .float64 (.f64 v) hsi, narrow_guard_eval g hg v]
        have hcast : evalR (.f64 v) .ok ⟨.cast .float32 .v, .fromCall⟩ = ⟨.f32 (v.roundTo f32), .ok⟩ := by
          simp [evalR, errOf, evalE, castTo, Ty.range]
        cases v with
        | nan => simp only [hcast]; exact spec_narrow_ok .nan (by simp [FVal.isFin])
        | inf s => simp only [hcast]; exact spec_narrow_ok (.inf s) (by simp [FVal.isFin])
        | fin s m k =>
          by_cases hfit : m ≤ f32.maxFinite * 2 ^ k
          · simp only [hfit, decide_true, hcast]
            apply spec_narrow_ok
            intro _
            exact roundRat_isFin f32 (Or.inl rfl) s m (2 ^ k) (Nat.two_pow_pos k) hfit
          · simp only [hfit, decide_false]
            have : evalR (.f64 (.fin s m k)) .ok ⟨fe, .overflow⟩ = ⟨evalE (.f64 (.fin s m k)) fe, .overflow⟩ := by
              simp [evalR, errOf]
            rw [this]
            apply spec_narrow_err
            simp only [fitsFloat, hfit, decide_false]
    · -- float64 ← float64
      have : body = .ident := by simpa [ffBodyOK] using hk
      subst this
      simpa [evalBody, mkF] using spec_same .float64 false v (Or.inl rfl)
  | true =>
    have hsrc : fltSrc true = .float32 := rfl
    rw [hsrc] at hk ⊢
    cases tgt <;> try (simp [ffBodyOK] at hk; done)
    · -- float32 ← float32
      have : body = .ident := by simpa [ffBodyOK] using hk
      subst this
      simpa [evalBody, mkF] using spec_same .float32 true v (Or.inr ⟨rfl, rfl⟩)
    · -- float64 ← float32
      match body, hk with
      | .bind (.self .float32) none ⟨.cast .float64 .v, .fromCall⟩ _, hk =>
        have hsi : selfIdent tbl .float32 = true := by simpa [ffBodyOK] using hk
        have hm : mkF true v = .f32 v := rfl
        simp only [evalBody, hm, conv_self sc tbl n .float32 (.f32 v) hsi]
        have hcast : evalR (.f32 v) .ok ⟨.cast .float64 .v, .fromCall⟩ = ⟨.f64 v, .ok⟩ := by
          simp [evalR, errOf, evalE, castTo, Ty.range]
        rw [hcast]
        simpa [mkF] using spec_same .float64 true v (Or.inl rfl)

end FpgoVerif.C02
