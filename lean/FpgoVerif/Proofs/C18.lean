import FpgoVerif.Model.C18
/-! Helper lemmas for C18. -/
namespace FpgoVerif.C18

theorem visit_eq (beh : Nat → Req → Req × Bool) (tf : Tr → Bool) (s : SH) (t : Tr) (ht : s.clientTransport = some t) (hne : t ≠ .self) :
    ∀ fuel req index, index ≤ s.interceptors.length → s.interceptors.length + 1 ≤ fuel + index →
      recursiveVisit beh tf s fuel req index = Spec.visit beh tf t (s.interceptors.drop index) req := by
  intro fuel
  induction fuel with
  | zero => intro req index h1 h2; omega
  | succ fuel ih =>
    intro req index h1 h2
    unfold recursiveVisit
    by_cases hge : index ≥ s.interceptors.length
    · have hidx : index = s.interceptors.length := by omega
      have hdrop : s.interceptors.drop index = [] := by simp [hidx]
      rw [hdrop]
      simp only [hge, ht, Option.isSome_some, and_self, if_true]
      cases t with
      | dflt => rfl
      | stub n => rfl
      | self => exact absurd rfl hne
    · have hlt : index < s.interceptors.length := by omega
      have hget : s.interceptors[index]? = some s.interceptors[index] := List.getElem?_eq_getElem hlt
      have hdrop : s.interceptors.drop index = s.interceptors[index] :: s.interceptors.drop (index + 1) :=
        List.drop_eq_getElem_cons hlt
      rw [hdrop]
      simp only [hge, false_and, if_false, hget]
      unfold Spec.visit
      by_cases hf : (beh s.interceptors[index] req).2 = true
      · simp [hf]
      · simp only [hf, if_false]
        rw [ih (beh s.interceptors[index] req).1 (index + 1) (by omega) (by omega)]

/-- ids of the interceptor events of a log, in order -/
def icptIds : List Ev → List Nat
  | [] => []
  | .icpt i _ :: l => i :: icptIds l
  | .transport .. :: l => icptIds l

def transports : List Ev → List (Tr × Req)
  | [] => []
  | .icpt .. :: l => transports l
  | .transport t r :: l => (t, r) :: transports l

/-- request state after the interceptors `ids` have all passed -/
def thread (beh : Nat → Req → Req × Bool) (req : Req) (ids : List Nat) : Req :=
  ids.foldl (fun r i => (beh i r).1) req

theorem foldl_append_eq (l xs : List Nat) : xs.foldl append l = l ++ xs := by
  induction xs generalizing l with
  | nil => simp
  | cons x xs ih => simp [List.foldl_cons, ih, append]

theorem foldl_minus_eq (l xs : List Nat) :
    xs.foldl (fun l x => minus l [x]) l = l.filter (fun y => !xs.contains y) := by
  induction xs generalizing l with
  | nil =>
    simp only [List.foldl_nil, List.contains_nil, Bool.not_false]
    exact (List.filter_eq_self.mpr (fun _ _ => rfl)).symm
  | cons x xs ih =>
    rw [List.foldl_cons, ih]
    unfold minus
    rw [List.filter_filter]
    congr 1
    funext y
    simp only [List.contains_cons, List.contains_nil, Bool.or_false, Bool.not_or]
    exact Bool.and_comm _ _

end FpgoVerif.C18

namespace FpgoVerif.C18

/-- every existing backing array is still there with the same content -/
def Grows (st st' : Store) : Prop := st.length ≤ st'.length ∧ ∀ a, a < st.length → st'[a]? = st[a]?

theorem Grows.refl (st : Store) : Grows st st := ⟨Nat.le_refl _, fun _ _ => rfl⟩

theorem Grows.trans {a b c : Store} (h1 : Grows a b) (h2 : Grows b c) : Grows a c :=
  ⟨Nat.le_trans h1.1 h2.1, fun x hx => by rw [h2.2 x (Nat.lt_of_lt_of_le hx h1.1), h1.2 x hx]⟩

theorem Grows.read {st st' : Store} (h : Grows st st') (sl : Sl) (hs : sl.arr < st.length) :
    readS st' sl = readS st sl := by
  unfold readS; rw [h.2 sl.arr hs]

theorem allocS_grows (st : Store) (c : List Nat) (n : Nat) : Grows st (allocS st c n).1 :=
  ⟨by simp [allocS], fun a ha => by simp [allocS, List.getElem?_append_left ha]⟩

theorem readS_allocS (st : Store) (c : List Nat) (n : Nat) : readS (allocS st c n).1 (allocS st c n).2 = c.take n := by
  simp [readS, allocS]

theorem appendS_spec (st : Store) (sl : Sl) (x : Nat) :
    Grows st (appendS st sl x).1 ∧ readS (appendS st sl x).1 (appendS st sl x).2 = append (readS st sl) x := by
  refine ⟨allocS_grows _ _ _, ?_⟩
  unfold appendS
  rw [readS_allocS]
  unfold append
  exact List.take_of_length_le (by simp)

theorem minusS_spec (st : Store) (sl : Sl) (x : Nat) :
    Grows st (minusS st sl x).1 ∧ readS (minusS st sl x).1 (minusS st sl x).2 = minus (readS st sl) [x] := by
  refine ⟨allocS_grows _ _ _, ?_⟩
  unfold minusS
  simp only []
  rw [readS_allocS]
  simp

theorem addS_spec (st : Store) (sl : Sl) (xs : List Nat) :
    Grows st (addInterceptorS st sl xs).1 ∧
    readS (addInterceptorS st sl xs).1 (addInterceptorS st sl xs).2 = xs.foldl append (readS st sl) := by
  unfold addInterceptorS
  induction xs generalizing st sl with
  | nil => exact ⟨Grows.refl st, rfl⟩
  | cons x xs ih =>
    simp only [List.foldl_cons]
    obtain ⟨g1, r1⟩ := appendS_spec st sl x
    obtain ⟨g2, r2⟩ := ih (appendS st sl x).1 (appendS st sl x).2
    exact ⟨g1.trans g2, by rw [r2, r1]⟩

theorem removeS_spec (st : Store) (sl : Sl) (xs : List Nat) :
    Grows st (removeInterceptorS st sl xs).1 ∧
    readS (removeInterceptorS st sl xs).1 (removeInterceptorS st sl xs).2 =
      xs.foldl (fun l x => minus l [x]) (readS st sl) := by
  unfold removeInterceptorS
  induction xs generalizing st sl with
  | nil => exact ⟨Grows.refl st, rfl⟩
  | cons x xs ih =>
    simp only [List.foldl_cons]
    obtain ⟨g1, r1⟩ := minusS_spec st sl x
    obtain ⟨g2, r2⟩ := ih (minusS st sl x).1 (minusS st sl x).2
    exact ⟨g1.trans g2, by rw [r2, r1]⟩

theorem applyOpS_spec (a : Store × Sl) (op : Op) :
    Grows a.1 (applyOpS a op).1 ∧
    readS (applyOpS a op).1 (applyOpS a op).2 = (applyOp ⟨readS a.1 a.2, 0, none, none⟩ op).interceptors := by
  cases op with
  | add xs => exact addS_spec a.1 a.2 xs
  | rem xs => exact removeS_spec a.1 a.2 xs
  | clear =>
    refine ⟨allocS_grows _ _ _, ?_⟩
    simp [applyOpS, clearInterceptorS, readS_allocS, applyOp, clearInterceptor]

end FpgoVerif.C18
