import FpgoVerif.Model.C18
/-! Helper lemmas for C18. -/
namespace FpgoVerif.C18

theorem visit_eq (beh : Nat → Req → Req × Bool) (tf : Tr → Bool) (s : SH) (t : Tr) (ht : s.clientTransport = some t) (hne : t ≠ .self) :
    ∀ fuel req index, index ≤ s.interceptors.length → s.interceptors.length + 1 ≤ fuel + index →
      recursiveVisit beh tf s fuel req index = Spec.visit beh tf t (s.interceptors.drop index) req := by
  intro fuel
  induction fuel with
  | zero => intro req index h1 h2; omega
  | succ fuel ih =>
    intro req index h1 h2
    unfold recursiveVisit
    by_cases hge : index ≥ s.interceptors.length
    · have hidx : index = s.interceptors.length := by omega
      have hdrop : s.interceptors.drop index = [] := by simp [hidx]
      rw [hdrop]
      simp only [hge, ht, Option.isSome_some, and_self, if_true]
      cases t with
      | dflt => rfl
      | stub n => rfl
      | self => exact absurd rfl hne
    · have hlt : index < s.interceptors.length := by omega
      have hget : s.interceptors[index]? = some s.interceptors[index] := List.getElem?_eq_getElem hlt
      have hdrop : s.interceptors.drop index = s.interceptors[index] :: s.interceptors.drop (index + 1) :=
        List.drop_eq_getElem_cons hlt
      rw [hdrop]
      simp only [hge, false_and, if_false, hget]
      unfold Spec.visit
      by_cases hf : (beh s.interceptors[index] req).2 = true
      · simp [hf]
      · simp only [hf, if_false]
        rw [ih (beh s.interceptors[index] req).1 (index + 1) (by omega) (by omega)]

/-- ids of the interceptor events of a log, in order -/
def icptIds : List Ev → List Nat
  | [] => []
  | .icpt i _ :: l => i :: icptIds l
  | .transport .. :: l => icptIds l

def transports : List Ev → List (Tr × Req)
  | [] => []
  | .icpt .. :: l => transports l
  | .transport t r :: l => (t, r) :: transports l

/-- request state after the interceptors `ids` have all passed -/
def thread (beh : Nat → Req → Req × Bool) (req : Req) (ids : List Nat) : Req :=
  ids.foldl (fun r i => (beh i r).1) req

theorem foldl_append_eq (l xs : List Nat) : xs.foldl append l = l ++ xs := by
  induction xs generalizing l with
  | nil => simp
  | cons x xs ih => simp [List.foldl_cons, ih, append]

theorem foldl_minus_eq (l xs : List Nat) :
    xs.foldl (fun l x => minus l [x]) l = l.filter (fun y => !xs.contains y) := by
  induction xs generalizing l with
  | nil =>
    simp only [List.foldl_nil, List.contains_nil, Bool.not_false]
    exact (List.filter_eq_self.mpr (fun _ _ => rfl)).symm
  | cons x xs ih =>
    rw [List.foldl_cons, ih]
    unfold minus
    rw [List.filter_filter]
    congr 1
    funext y
    simp only [List.contains_cons, List.contains_nil, Bool.or_false, Bool.not_or]
    exact Bool.and_comm _ _

end FpgoVerif.C18
