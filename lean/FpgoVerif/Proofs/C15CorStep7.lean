import FpgoVerif.Proofs.C15CorInv
namespace FpgoVerif.C15.Co

set_option maxHeartbeats 1600000 in
theorem inv_spawn_7 {s s' pc} (hgrp : pcGroup pc = 7) (h : spawn s pc = some s') (hi : Inv s) : Inv s' := by
  obtain ⟨nopanic, gOne, idle0, ret0, retG, gcflag, opc, done, late0, dn, gc3op, retDone, drained, wcount⟩ := hi
  cases pc <;> simp only [pcGroup] at hgrp <;> (try (exact absurd hgrp (by decide))) <;> simp [spawn, inc] at h
  all_goals (try (obtain ⟨hs, rfl⟩ := h))
  all_goals (try subst h)
  all_goals (
    have b1 := Bool.toNat_le s.gflag; have b2 := Bool.toNat_le s.opClosed; have b3 := Bool.toNat_le s.gIdle
    have b4 := Bool.toNat_le s.retStarted; have b5 := Bool.toNat_le s.closeDone; have b6 := Bool.toNat_le s.fixed
    have b7 := Bool.toNat_le s.doneClosed; have b8 := Bool.toNat_le s.panic
    constructor <;> (try simp [updK]) <;> first | c15arith | (intro h1 h2; exact drained h1 h2))

set_option maxHeartbeats 3200000 in
theorem inv_step_7 {s s' nx pc ch} (hgrp : pcGroup pc = 7) (h : gstep s pc ch = some (s', nx)) (hi : Inv s) : Inv s' := by
  obtain ⟨nopanic, gOne, idle0, ret0, retG, gcflag, opc, done, late0, dn, gc3op, retDone, drained, wcount⟩ := hi
  obtain ⟨hc, s1, hs, rfl⟩ := gstep_some h
  clear h
  have b1 := Bool.toNat_le s.gflag; have b2 := Bool.toNat_le s.opClosed; have b3 := Bool.toNat_le s.gIdle
  have b4 := Bool.toNat_le s.retStarted; have b5 := Bool.toNat_le s.closeDone; have b6 := Bool.toNat_le s.fixed
  have b7 := Bool.toNat_le s.doneClosed; have b8 := Bool.toNat_le s.panic
  cases pc <;> simp only [pcGroup] at hgrp <;> (try (exact absurd hgrp (by decide))) <;> simp only [step, kind] at hs hc
  case gc3 =>
    split at hs
    · rename_i id x rest heq
      simp only [Option.some.injEq, Prod.mk.injEq] at hs
      obtain ⟨rfl, rfl⟩ := hs
      have hl : s.opCh.length = rest.length + 1 := by rw [heq]; simp
      have hne : s.opCh ≠ [] := by rw [heq]; simp
      constructor <;> (try simp [move, kind, updK]) <;> first | c15arith | (intro h1 h2; exact absurd (drained h1 h2) hne)
    · rename_i heq
      simp only [Option.some.injEq, Prod.mk.injEq] at hs
      obtain ⟨rfl, rfl⟩ := hs
      constructor <;> (try simp [move, kind, updK]) <;> first | c15arith | (intros; exact heq)

end FpgoVerif.C15.Co
