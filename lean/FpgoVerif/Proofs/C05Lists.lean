import FpgoVerif.Proofs.C05Maps
/-! Helper lemmas for C05: the slice functions (core only). -/
namespace FpgoVerif.C05
variable {α : Type} [DecidableEq α]

theorem existsIn_iff (x : α) (l : List α) : existsIn x l = true ↔ x ∈ l := by
  induction l with
  | nil => simp [existsIn]
  | cons v vs ih =>
    by_cases h : v = x
    · simp [existsIn, h]
    · have h' : ¬ x = v := fun e => h e.symm
      simp [existsIn, h, h', ih]

theorem existsIn_false_iff (x : α) (l : List α) : existsIn x l = false ↔ x ∉ l := by
  rw [← existsIn_iff]; cases existsIn x l <;> simp

namespace Spec

theorem mem_dedup (y : α) (l : List α) : y ∈ dedup l ↔ y ∈ l := by
  induction l with
  | nil => simp [dedup]
  | cons x xs ih =>
    by_cases h : y = x
    · simp [dedup, h]
    · simp [dedup, h, ih]

theorem nodup_dedup (l : List α) : (dedup l).Nodup := by
  induction l with
  | nil => simp [dedup]
  | cons x xs ih =>
    simp only [dedup, List.nodup_cons]
    refine ⟨?_, ?_⟩
    · simp
    · exact List.Nodup.sublist List.filter_sublist ih

end Spec

/-- the shared outer loop computes: first occurrences of the items of `l` that pass `keep` and were not seen -/
theorem dedupLoop_eq (keep : α → Bool) (l seen acc : List α) :
    dedupLoop keep l seen acc = acc ++ (Spec.dedup l).filter (fun y => keep y && !existsIn y seen) := by
  induction l generalizing seen acc with
  | nil => simp [dedupLoop, Spec.dedup]
  | cons v vs ih =>
    cases hk : keep v with
    | false =>
      simp only [dedupLoop, Spec.dedup, List.filter_cons, List.filter_filter, hk, ih]
      simp only [Bool.false_and, Bool.false_eq_true, if_false]
      congr 1
      apply List.filter_congr
      intro y _
      by_cases hy : y = v
      · subst hy; simp [hk]
      · simp [hy]
    | true =>
      cases hs : existsIn v seen with
      | true =>
        simp only [dedupLoop, Spec.dedup, List.filter_cons, List.filter_filter, hk, hs, ih]
        simp only [Bool.not_true, Bool.and_false, Bool.false_eq_true, if_false, if_true]
        congr 1
        apply List.filter_congr
        intro y _
        by_cases hy : y = v
        · subst hy; simp [hs]
        · simp [hy]
      | false =>
        simp only [dedupLoop, Spec.dedup, List.filter_cons, List.filter_filter, hk, hs, ih]
        simp only [Bool.not_false, Bool.and_true, Bool.false_eq_true, if_false, if_true, List.append_assoc, List.singleton_append]
        congr 2
        apply List.filter_congr
        intro y _
        by_cases hy : y = v
        · subst hy; simp [existsIn]
        · have hy' : ¬ v = y := fun e => hy e.symm
          simp [hy, hy', existsIn]

/-! matchCount -/

theorem matchCount_le (x : α) (ls : List (List α)) : matchCount x ls ≤ ls.length := by
  induction ls with
  | nil => simp [matchCount]
  | cons l ls ih => simp only [matchCount, List.length_cons]; split <;> omega

theorem matchCount_eq_length_iff (x : α) (ls : List (List α)) :
    matchCount x ls = ls.length ↔ ∀ l ∈ ls, x ∈ l := by
  induction ls with
  | nil => simp [matchCount]
  | cons l ls ih =>
    have hle := matchCount_le x ls
    simp only [matchCount, List.length_cons, List.mem_cons, forall_eq_or_imp]
    cases h : existsIn x l with
    | true =>
      have hx := (existsIn_iff x l).1 h
      simp only [if_true, hx, true_and, ← ih]; omega
    | false =>
      have hx := (existsIn_false_iff x l).1 h
      simp only [Bool.false_eq_true, if_false, hx, false_and, iff_false]; omega

theorem matchCount_eq_zero_iff (x : α) (ls : List (List α)) :
    matchCount x ls = 0 ↔ ∀ l ∈ ls, x ∉ l := by
  induction ls with
  | nil => simp [matchCount]
  | cons l ls ih =>
    simp only [matchCount, List.mem_cons, forall_eq_or_imp]
    cases h : existsIn x l with
    | true =>
      have hx := (existsIn_iff x l).1 h
      simp only [if_true, hx, not_true_eq_false, false_and, iff_false]; omega
    | false =>
      have hx := (existsIn_false_iff x l).1 h
      simp only [Bool.false_eq_true, if_false, hx, not_false_eq_true, true_and, ← ih]; omega

/-! Intersection / Difference / Distinct as "first occurrences of the qualifying items of the first operand" -/

theorem dedupLoop_start (keep : α → Bool) (l : List α) :
    dedupLoop keep l [] [] = (Spec.dedup l).filter keep := by
  rw [dedupLoop_eq]; simp [existsIn]

theorem distinct_eq (l : List α) : distinct l = Spec.dedup l := by
  unfold distinct
  split
  · rw [dedupLoop_start]; simp
  · cases l with
    | nil => rfl
    | cons x xs => simp at *

theorem intersection_eq (a : List α) (rest : List (List α)) :
    intersection (some (a :: rest)) =
      .ok ((Spec.dedup a).filter (fun x => rest.all (fun l => decide (x ∈ l)))) := by
  cases rest with
  | nil => simp [intersection, dedupLoop_start]
  | cons b rest' =>
    simp only [intersection, dedupLoop_start]
    congr 1
    apply List.filter_congr
    intro x _
    have := matchCount_eq_length_iff x (b :: rest')
    by_cases h : matchCount x (b :: rest') = (b :: rest').length
    · have h2 := this.1 h
      simp only [h, beq_self_eq_true]
      symm; simpa using h2
    · have h2 : ¬ ∀ l ∈ b :: rest', x ∈ l := fun hh => h (this.2 hh)
      have : (matchCount x (b :: rest') == (b :: rest').length) = false := by simpa using h
      rw [this]
      symm
      cases hall : (b :: rest').all (fun l => decide (x ∈ l)) with
      | false => rfl
      | true => exact absurd (by simpa using hall) h2

theorem difference_eq (a : List α) (rest : List (List α)) :
    difference (some (a :: rest)) =
      .ok ((Spec.dedup a).filter (fun x => rest.all (fun l => decide (x ∉ l)))) := by
  cases rest with
  | nil =>
    simp only [difference, distinct_eq, List.all_nil]
    congr 1; symm; exact List.filter_eq_self.2 (by simp)
  | cons b rest' =>
    simp only [difference, dedupLoop_start]
    congr 1
    apply List.filter_congr
    intro x _
    have := matchCount_eq_zero_iff x (b :: rest')
    by_cases h : matchCount x (b :: rest') = 0
    · have h2 := this.1 h
      simp only [h, beq_self_eq_true]
      symm; simpa using h2
    · have h2 : ¬ ∀ l ∈ b :: rest', x ∉ l := fun hh => h (this.2 hh)
      have : (matchCount x (b :: rest') == 0) = false := by simpa using h
      rw [this]
      symm
      cases hall : (b :: rest').all (fun l => decide (x ∉ l)) with
      | false => rfl
      | true => exact absurd (by simpa using hall) h2

/-! Union -/

theorem union_inner_mem (arr : List α) (m : GoMap α Bool) (k : α) :
    k ∈ mkeys (arr.foldl (fun m v => mset m v true) m) ↔ k ∈ mkeys m ∨ k ∈ arr := by
  induction arr generalizing m with
  | nil => simp
  | cons x xs ih =>
    simp only [List.foldl_cons, ih, mem_mkeys_mset, List.mem_cons]
    constructor
    · rintro ((h | h) | h) <;> simp [h]
    · rintro (h | h | h) <;> simp [h]

theorem union_inner_nodup (arr : List α) (m : GoMap α Bool) (h : (mkeys m).Nodup) :
    (mkeys (arr.foldl (fun m v => mset m v true) m)).Nodup := by
  induction arr generalizing m with
  | nil => simpa using h
  | cons x xs ih => simp only [List.foldl_cons]; exact ih _ (nodup_mkeys_mset m x true h)

theorem union_outer_mem (arrs : List (List α)) (m : GoMap α Bool) (k : α) :
    k ∈ mkeys (arrs.foldl (fun (m : GoMap α Bool) arr => arr.foldl (fun m v => mset m v true) m) m) ↔
      k ∈ mkeys m ∨ ∃ a ∈ arrs, k ∈ a := by
  induction arrs generalizing m with
  | nil => simp
  | cons a as ih =>
    simp only [List.foldl_cons, ih, union_inner_mem, List.mem_cons, exists_eq_or_imp]
    constructor
    · rintro ((h | h) | h) <;> simp [h]
    · rintro (h | h | h) <;> simp [h]

theorem union_outer_nodup (arrs : List (List α)) (m : GoMap α Bool) (h : (mkeys m).Nodup) :
    (mkeys (arrs.foldl (fun (m : GoMap α Bool) arr => arr.foldl (fun m v => mset m v true) m) m)).Nodup := by
  induction arrs generalizing m with
  | nil => simpa using h
  | cons a as ih => simp only [List.foldl_cons]; exact ih _ (union_inner_nodup a m h)

/-! Minus -/

theorem minus_eq (a b : List α) : minus a b = a.filter (fun x => decide (x ∉ b)) := by
  unfold minus
  apply List.filter_congr
  intro x _
  cases h : mhas (sliceToMap true b) x with
  | true =>
    have := (mkeys_sliceToMap_mem true b x).1 ((mhas_iff _ _).1 h)
    simp [this]
  | false =>
    have : x ∉ b := fun hx => ((mhas_false_iff _ _).1 h) ((mkeys_sliceToMap_mem true b x).2 hx)
    simp [this]

/-! IsSubset -/

theorem isSubsetLoop_iff (l2 l seen : List α) :
    isSubsetLoop l2 l seen = true ↔ ∀ x ∈ l, x ∈ seen ∨ x ∈ l2 := by
  induction l generalizing seen with
  | nil => simp [isSubsetLoop]
  | cons x xs ih =>
    simp only [isSubsetLoop, List.mem_cons, forall_eq_or_imp]
    cases hs : existsIn x seen with
    | true =>
      have := (existsIn_iff x seen).1 hs
      simp [ih, this]
    | false =>
      have hns := (existsIn_false_iff x seen).1 hs
      cases h2 : existsIn x l2 with
      | true =>
        have hx := (existsIn_iff x l2).1 h2
        simp only [Bool.false_eq_true, if_false, if_true, ih, hx, or_true, true_and, List.mem_cons]
        constructor
        · intro h y hy
          rcases h y hy with (h1 | h1) | h1
          · subst h1; exact Or.inr hx
          · exact Or.inl h1
          · exact Or.inr h1
        · intro h y hy
          rcases h y hy with h1 | h1
          · exact Or.inl (Or.inr h1)
          · exact Or.inr h1
      | false =>
        have hx := (existsIn_false_iff x l2).1 h2
        simp [hns, hx]

theorem shiftDown_eq {β : Type} (s : List β) (n : Nat) : I.shiftDown s n = s.take n ++ s.drop (n + 1) := by
  induction s generalizing n with
  | nil => simp [I.shiftDown]
  | cons x t ih =>
    cases n with
    | zero => simp [I.shiftDown]
    | succ n => simp [I.shiftDown, ih]


end FpgoVerif.C05
